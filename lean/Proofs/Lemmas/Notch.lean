/-
Helper lemmas for C06: the defining functions of the notch approximation laws (`Model/Notch.lean`) over ℝ.
-/
import Model.Notch
import Proofs.RealNum
import Mathlib.Analysis.SpecialFunctions.Pow.Real
import Mathlib.Analysis.SpecialFunctions.Pow.Continuity
import Mathlib.Analysis.SpecialFunctions.Trigonometric.Basic
import Mathlib.Topology.Order.IntermediateValue
import Mathlib.Tactic.Linarith
import Mathlib.Tactic.NormNum
import Mathlib.Tactic.Ring
import Mathlib.Tactic.FieldSimp
import Mathlib.Tactic.Positivity

namespace PylifeVerif.Notch

noncomputable instance instHasPiReal : HasPi ℝ := ⟨Real.pi⟩

@[simp] theorem hasPi_real : (HasPi.pi : ℝ) = Real.pi := rfl

noncomputable instance instHasSinLog1pReal : HasSinLog1p ℝ := ⟨Real.sin, fun x => Real.log (1 + x)⟩

@[simp] theorem hasSin_real (x : ℝ) : (HasSinLog1p.sin x : ℝ) = Real.sin x := rfl
@[simp] theorem hasLog1p_real (x : ℝ) : (HasSinLog1p.log1p x : ℝ) = Real.log (1 + x) := rfl

theorem lit1 : (1.0 : ℝ) = 1 := by norm_num
theorem lit2 : (2.0 : ℝ) = 2 := by norm_num
theorem lit0 : (0.0 : ℝ) = 0 := by norm_num

/-- Admissible parameters: `E, K' > 0`, `0 < n' < 1`, `K_p ≥ 1` (the range of the FKM estimates;
the code tests none of this). -/
structure Mat.Adm (m : Mat ℝ) : Prop where
  E_pos : 0 < m.E
  K_pos : 0 < m.K
  n_pos : 0 < m.n
  n_lt : m.n < 1
  Kp_ge : 1 ≤ m.Kp

namespace Mat.Adm
variable {m : Mat ℝ} (h : m.Adm)
include h
theorem Kp_pos : 0 < m.Kp := lt_of_lt_of_le one_pos h.Kp_ge
theorem p_pos : 0 < 1 / m.n := one_div_pos.mpr h.n_pos
theorem p_gt : 1 < 1 / m.n := by rw [lt_div_iff₀ h.n_pos]; linarith [h.n_lt]
end Mat.Adm

/-! ### the fall-back ratio -/

theorem nz_iff (x : ℝ) : nz x ↔ x ≠ 0 := by
  unfold nz; rw [lit0]; exact (lt_or_lt_iff_ne)

theorem ratio_of_ne {a b : ℝ} (hb : b ≠ 0) : ratio a b = a / b := by
  unfold ratio; rw [if_pos ((nz_iff b).mpr hb)]

theorem ratio_zero (a : ℝ) : ratio a 0 = 1 := by
  unfold ratio; rw [if_neg (by rw [nz_iff]; simp), lit1]

theorem ratio_neg_neg (a b : ℝ) : ratio (-a) (-b) = ratio a b := by
  rcases eq_or_ne b 0 with rfl | hb
  · rw [neg_zero, ratio_zero, ratio_zero]
  · rw [ratio_of_ne hb, ratio_of_ne (neg_ne_zero.mpr hb), neg_div_neg_eq]

theorem ratio_half (a b : ℝ) : ratio (a / 2) (b / 2) = ratio a b := by
  rcases eq_or_ne b 0 with rfl | hb
  · rw [zero_div, ratio_zero, ratio_zero]
  · rw [ratio_of_ne hb, ratio_of_ne (div_ne_zero hb two_ne_zero)]; field_simp

/-! ### Ramberg-Osgood strain -/

theorem roStrain_eq (m : Mat ℝ) (s : ℝ) :
    roStrain m s = s / m.E + (if 0 < s then 1 else if s < 0 then -1 else 0) * (|s| / m.K) ^ (1 / m.n) := by
  simp only [roStrain, transc_sign, transc_pow, transc_abs, lit1]

theorem roStrain_neg (m : Mat ℝ) (s : ℝ) : roStrain m (-s) = -roStrain m s := by
  rw [roStrain_eq, roStrain_eq, abs_neg]
  rcases lt_trichotomy s 0 with hs | rfl | hs
  · simp only [neg_pos, hs, if_true, not_lt.mpr hs.le, if_false, neg_lt_zero]; ring
  · simp
  · simp only [neg_pos, not_lt.mpr hs.le, if_false, neg_lt_zero, hs, if_true]; ring

theorem roStrain_of_nonneg {m : Mat ℝ} (h : m.Adm) {s : ℝ} (hs : 0 ≤ s) :
    roStrain m s = s / m.E + (s / m.K) ^ (1 / m.n) := by
  rw [roStrain_eq]
  rcases eq_or_lt_of_le hs with rfl | hpos
  · simp only [lt_irrefl, if_false, zero_mul, zero_div, add_zero, zero_add]
    rw [Real.zero_rpow h.p_pos.ne']
  · rw [if_pos hpos, abs_of_pos hpos, one_mul]

theorem roStrain_zero (m : Mat ℝ) : roStrain m 0 = 0 := by rw [roStrain_eq]; simp

theorem roStrain_strictMonoOn {m : Mat ℝ} (h : m.Adm) : StrictMonoOn (roStrain m) (Set.Ici 0) := by
  intro a ha b hb hab
  rw [roStrain_of_nonneg h ha, roStrain_of_nonneg h hb]
  have h1 : a / m.E < b / m.E := div_lt_div_of_pos_right hab h.E_pos
  have h2 : (a / m.K) ^ (1 / m.n) ≤ (b / m.K) ^ (1 / m.n) :=
    Real.rpow_le_rpow (div_nonneg ha h.K_pos.le) (div_le_div_of_nonneg_right hab.le h.K_pos.le) h.p_pos.le
  linarith

theorem roStrain_pos {m : Mat ℝ} (h : m.Adm) {s : ℝ} (hs : 0 < s) : 0 < roStrain m s := by
  have := roStrain_strictMonoOn h (Set.mem_Ici.mpr le_rfl) (Set.mem_Ici.mpr hs.le) hs
  rwa [roStrain_zero] at this

theorem roStrain_continuousOn {m : Mat ℝ} (h : m.Adm) : ContinuousOn (roStrain m) (Set.Ici 0) := by
  have hc : Continuous fun s : ℝ => s / m.E + (s / m.K) ^ (1 / m.n) :=
    (continuous_id.div_const _).add ((continuous_id.div_const _).rpow_const (fun _ => Or.inr h.p_pos.le))
  exact hc.continuousOn.congr (fun s hs => roStrain_of_nonneg h hs)

/-- `K_p · ε(L / K_p) ≤ ε(L)`: the Ramberg-Osgood curve is convex-like (`ε(s)/s` non-decreasing). -/
theorem kp_mul_estar_le {m : Mat ℝ} (h : m.Adm) {L : ℝ} (hL : 0 ≤ L) :
    m.Kp * roStrain m (L / m.Kp) ≤ roStrain m L := by
  have hKp := h.Kp_pos
  rw [roStrain_of_nonneg h hL, roStrain_of_nonneg h (div_nonneg hL hKp.le)]
  have e1 : L / m.Kp / m.K = L / m.K / m.Kp := by ring
  rw [e1, Real.div_rpow (div_nonneg hL h.K_pos.le) hKp.le]
  have hpow : m.Kp ≤ m.Kp ^ (1 / m.n) := Real.self_le_rpow_of_one_le h.Kp_ge h.p_gt.le
  have hpp : 0 < m.Kp ^ (1 / m.n) := Real.rpow_pos_of_pos hKp _
  have hx : 0 ≤ (L / m.K) ^ (1 / m.n) := Real.rpow_nonneg (div_nonneg hL h.K_pos.le) _
  have : m.Kp * ((L / m.K) ^ (1 / m.n) / m.Kp ^ (1 / m.n)) ≤ (L / m.K) ^ (1 / m.n) := by
    rw [mul_div_assoc', div_le_iff₀ hpp]
    nlinarith
  have e2 : m.Kp * (L / m.Kp / m.E) = L / m.E := by field_simp
  nlinarith [this, e2]

/-! ### extended Neuber -/

theorem eStar_eq (m : Mat ℝ) (L : ℝ) : eStar m L = roStrain m (L / m.Kp) := rfl

theorem eStar_pos {m : Mat ℝ} (h : m.Adm) {L : ℝ} (hL : 0 < L) : 0 < eStar m L :=
  roStrain_pos h (div_pos hL h.Kp_pos)

theorem eStar_neg (m : Mat ℝ) (L : ℝ) : eStar m (-L) = -eStar m L := by
  rw [eStar_eq, eStar_eq, neg_div, roStrain_neg]

/-- `G(L) = L · K_p · e*(L)`, the Neuber product `σ·ε` of the load -/
noncomputable def neuberProduct (m : Mat ℝ) (L : ℝ) : ℝ := L * m.Kp * eStar m L

theorem neuberProduct_pos {m : Mat ℝ} (h : m.Adm) {L : ℝ} (hL : 0 < L) : 0 < neuberProduct m L :=
  mul_pos (mul_pos hL h.Kp_pos) (eStar_pos h hL)

theorem neuberProduct_strictMonoOn {m : Mat ℝ} (h : m.Adm) : StrictMonoOn (neuberProduct m) (Set.Ioi 0) := by
  intro a ha b hb hab
  have ha' : 0 < a := ha
  have hb' : 0 < b := hb
  unfold neuberProduct
  have he : eStar m a < eStar m b :=
    roStrain_strictMonoOn h (Set.mem_Ici.mpr (div_pos ha' h.Kp_pos).le) (Set.mem_Ici.mpr (div_pos hb' h.Kp_pos).le)
      (div_lt_div_of_pos_right hab h.Kp_pos)
  have hea := eStar_pos h ha'
  have hK := h.Kp_pos
  have h1 : a * m.Kp < b * m.Kp := mul_lt_mul_of_pos_right hab hK
  have h2 : 0 < a * m.Kp := mul_pos ha' hK
  nlinarith [mul_pos h2 hea]

/-- `H(σ) = σ · ε(σ)` is strictly increasing on `σ > 0` -/
theorem stress_mul_strain_strictMonoOn {m : Mat ℝ} (h : m.Adm) :
    StrictMonoOn (fun s => s * roStrain m s) (Set.Ioi 0) := by
  intro a ha b hb hab
  have ha' : 0 < a := ha
  have he : roStrain m a < roStrain m b :=
    roStrain_strictMonoOn h (Set.mem_Ici.mpr ha'.le) (Set.mem_Ici.mpr (le_of_lt hb)) hab
  have hea := roStrain_pos h ha'
  show a * roStrain m a < b * roStrain m b
  nlinarith [mul_pos ha' hea]

theorem stressImplicit_of_ne (m : Mat ℝ) {s : ℝ} (hs : s ≠ 0) (L : ℝ) :
    stressImplicit m s L = roStrain m s - neuberProduct m L / s := by
  unfold stressImplicit neuberStrain neuberProduct
  rw [ratio_of_ne hs]; field_simp

theorem stressImplicit_eq_zero_iff (m : Mat ℝ) {s : ℝ} (hs : s ≠ 0) (L : ℝ) :
    stressImplicit m s L = 0 ↔ s * roStrain m s = neuberProduct m L := by
  rw [stressImplicit_of_ne m hs, sub_eq_zero, eq_div_iff hs, mul_comm]

theorem stressImplicit_neg_neg (m : Mat ℝ) (s L : ℝ) :
    stressImplicit m (-s) (-L) = -stressImplicit m s L := by
  unfold stressImplicit neuberStrain
  rw [ratio_neg_neg, roStrain_neg, eStar_neg]; ring

theorem stressImplicit_continuousOn {m : Mat ℝ} (h : m.Adm) (L : ℝ) :
    ContinuousOn (fun s => stressImplicit m s L) (Set.Ioi 0) := by
  have h1 : ContinuousOn (fun s => roStrain m s - neuberProduct m L / s) (Set.Ioi 0) :=
    ((roStrain_continuousOn h).mono (fun s hs => Set.mem_Ici.mpr (le_of_lt hs))).sub
      (continuousOn_const.div continuousOn_id (fun s hs => ne_of_gt hs))
  exact h1.congr (fun s hs => stressImplicit_of_ne m (ne_of_gt hs) L)

theorem stressImplicit_strictMonoOn {m : Mat ℝ} (h : m.Adm) {L : ℝ} (hL : 0 < L) :
    StrictMonoOn (fun s => stressImplicit m s L) (Set.Ioi 0) := by
  intro a ha b hb hab
  have ha' : 0 < a := ha
  have hb' : 0 < b := hb
  show stressImplicit m a L < stressImplicit m b L
  rw [stressImplicit_of_ne m ha'.ne', stressImplicit_of_ne m hb'.ne']
  have he := roStrain_strictMonoOn h (Set.mem_Ici.mpr ha'.le) (Set.mem_Ici.mpr hb'.le) hab
  have hG := neuberProduct_pos h hL
  have : neuberProduct m L / b < neuberProduct m L / a := div_lt_div_of_pos_left hG ha' hab
  linarith

/-- `F(σ, ·)` is strictly decreasing in the load on `L > 0` (for `σ > 0`) -/
theorem stressImplicit_strictAntiOn_load {m : Mat ℝ} (h : m.Adm) {s : ℝ} (hs : 0 < s) :
    StrictAntiOn (fun L => stressImplicit m s L) (Set.Ioi 0) := by
  intro a ha b hb hab
  show stressImplicit m s b < stressImplicit m s a
  rw [stressImplicit_of_ne m hs.ne', stressImplicit_of_ne m hs.ne']
  have := neuberProduct_strictMonoOn h ha hb hab
  have := div_lt_div_of_pos_right this hs
  linarith

theorem neuberProduct_continuousOn {m : Mat ℝ} (h : m.Adm) : ContinuousOn (neuberProduct m) (Set.Ioi 0) := by
  unfold neuberProduct
  refine (continuousOn_id.mul continuousOn_const).mul ?_
  have : ContinuousOn (fun L : ℝ => roStrain m (L / m.Kp)) (Set.Ioi 0) :=
    (roStrain_continuousOn h).comp (continuous_id.div_const _).continuousOn
      (fun L hL => Set.mem_Ici.mpr (div_pos hL h.Kp_pos).le)
  exact this

theorem stressSecImplicit_eq (m : Mat ℝ) (ds dL : ℝ) :
    stressSecImplicit m ds dL = 2 * stressImplicit m (ds / 2) (dL / 2) := by
  unfold stressSecImplicit stressImplicit neuberStrainSec neuberStrain deltaEStar roDeltaStrain eStar
  rw [lit2, ratio_half, div_right_comm dL m.Kp 2]; ring

/-! ### Seeger-Beste -/

theorem uTerm_eq (m : Mat ℝ) (s L : ℝ) :
    uTerm m s L = Real.pi / 2 * ((ratio L s - 1) / (m.Kp - 1)) := by
  simp only [uTerm, hasPi_real, lit1, lit2]

theorem uTerm_neg_neg (m : Mat ℝ) (s L : ℝ) : uTerm m (-s) (-L) = uTerm m s L := by
  rw [uTerm_eq, uTerm_eq, ratio_neg_neg]

theorem uTerm_half (m : Mat ℝ) (s L : ℝ) : uTerm m (s / 2) (L / 2) = uTerm m s L := by
  rw [uTerm_eq, uTerm_eq, ratio_half]

theorem middleTerm_neg_neg (m : Mat ℝ) (s L : ℝ) : middleTerm m (-s) (-L) = middleTerm m s L := by
  unfold middleTerm; simp only [uTerm_neg_neg, ratio_neg_neg]

theorem middleTerm_half (m : Mat ℝ) (s L : ℝ) : middleTerm m (s / 2) (L / 2) = middleTerm m s L := by
  unfold middleTerm; simp only [uTerm_half, ratio_half]

theorem middleTerm_eq (m : Mat ℝ) (s L : ℝ) :
    middleTerm m s L =
      (if uTerm m s L ≠ 0 then 2 / (uTerm m s L * uTerm m s L) else 1)
        * Real.log (if 0 < Real.cos (uTerm m s L) then 1 / Real.cos (uTerm m s L) else 1)
        + ratio s L * ratio s L - ratio s L := by
  have hlog : Real.log (1 + (if 0 < Real.cos (uTerm m s L)
        then 2 * (Real.sin (uTerm m s L / 2) * Real.sin (uTerm m s L / 2)) / Real.cos (uTerm m s L) else 0))
      = Real.log (if 0 < Real.cos (uTerm m s L) then 1 / Real.cos (uTerm m s L) else 1) := by
    split_ifs with hc
    · congr 1
      have h2 : Real.cos (uTerm m s L) = 1 - 2 * (Real.sin (uTerm m s L / 2) * Real.sin (uTerm m s L / 2)) := by
        have := Real.cos_sq_add_sin_sq (uTerm m s L / 2)
        have h3 := Real.cos_two_mul (uTerm m s L / 2)
        rw [show 2 * (uTerm m s L / 2) = uTerm m s L by ring] at h3
        nlinarith [Real.sin_sq_add_cos_sq (uTerm m s L / 2)]
      field_simp
      linarith
    · simp
  simp only [middleTerm, nz_iff, transc_cos, hasSin_real, hasLog1p_real, lit0, lit1, lit2]
  rw [hlog]

end PylifeVerif.Notch
