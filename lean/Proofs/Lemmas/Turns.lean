/-
Lemmas about `findTurns` / `newTurns` (model file `Model/Rainflow/Turns.lean`):
scan states, append / shift / restart lemmas and the chunk bookkeeping of `newTurns`.
-/
import Proofs.Lemmas.Common
import Model.Rainflow.Detectors
import Mathlib.Tactic.SplitIfs
import Mathlib.Data.List.Basic

namespace PylifeVerif.Rainflow

/-- index shift of a list of points (same shape as the `map` inside `newTurns`) -/
def shiftPts (t : Nat) (l : List Pt) : List Pt := l.map fun p => (p.1 + t, p.2)

/-- index of the last point of a list of points, `0` if there is none (`tailIdx` of `newTurns`) -/
def lastIdx (l : List Pt) : Nat :=
  match l.getLast? with
  | some p => p.1
  | none => 0

@[simp] theorem shiftPts_nil (t : Nat) : shiftPts t [] = [] := rfl

@[simp] theorem shiftPts_zero (l : List Pt) : shiftPts 0 l = l := by
  simp [shiftPts]

theorem shiftPts_append (t : Nat) (l l' : List Pt) :
    shiftPts t (l ++ l') = shiftPts t l ++ shiftPts t l' := by
  simp [shiftPts]

theorem shiftPts_shiftPts (t t' : Nat) (l : List Pt) :
    shiftPts t (shiftPts t' l) = shiftPts (t + t') l := by
  simp [shiftPts, Nat.add_assoc, Nat.add_comm t' t]

@[simp] theorem lastIdx_nil : lastIdx [] = 0 := rfl

theorem lastIdx_append_of_ne_nil (l l' : List Pt) (h : l' ≠ []) :
    lastIdx (l ++ l') = lastIdx l' := by
  unfold lastIdx; rw [List.getLast?_append_of_ne_nil _ h]

theorem lastIdx_shiftPts (t : Nat) (l : List Pt) (h : l ≠ []) :
    lastIdx (shiftPts t l) = lastIdx l + t := by
  unfold lastIdx shiftPts
  rw [List.getLast?_map, List.getLast?_eq_some_getLast h]
  rfl

theorem lastIdx_cons_shiftPts (p : Pt) (l : List Pt) :
    lastIdx (p :: shiftPts p.1 l) = p.1 + lastIdx l := by
  cases l with
  | nil => simp [lastIdx]
  | cons q l =>
    have h : shiftPts p.1 (q :: l) ≠ [] := by simp [shiftPts]
    have := lastIdx_append_of_ne_nil [p] _ h
    simp only [List.singleton_append] at this
    rw [this, lastIdx_shiftPts _ _ (by simp)]
    omega

theorem sgn_self (v : Int) : sgn (v - v) = 0 := by simp [sgn]

theorem sgn_cases (x : Int) :
    (sgn x = 0 ∧ x = 0) ∨ (sgn x = 1 ∧ 0 < x) ∨ (sgn x = -1 ∧ x < 0) := by
  unfold sgn; split_ifs <;> omega

theorem sgn_eq_zero {x : Int} (h : sgn x = 0) : x = 0 := by
  rcases sgn_cases x with h' | h' | h' <;> omega

/-- State of the scan `findTurnsAux` after consuming a list. -/
def scanSt (dir : Int) (cand : Pt) (i : Nat) (prev : Int) : List Int → Int × Pt × Nat × Int
  | [] => (dir, cand, i, prev)
  | x :: xs =>
    let d := sgn (x - prev)
    if d = 0 then scanSt dir cand (i+1) x xs else scanSt d (i, x) (i+1) x xs

theorem findTurnsAux_append (xs ys : List Int) : ∀ (dir : Int) (cand : Pt) (i : Nat) (prev : Int),
    findTurnsAux dir cand i prev (xs ++ ys) =
      findTurnsAux dir cand i prev xs ++
        findTurnsAux (scanSt dir cand i prev xs).1 (scanSt dir cand i prev xs).2.1
          (scanSt dir cand i prev xs).2.2.1 (scanSt dir cand i prev xs).2.2.2 ys := by
  induction xs with
  | nil => intros; simp [findTurnsAux, scanSt]
  | cons x xs ih =>
    intro dir cand i prev
    simp only [List.cons_append, findTurnsAux, scanSt]
    split_ifs with h1 h2
    · exact ih _ _ _ _
    · simp only [List.cons_append]; rw [ih]
    · exact ih _ _ _ _

theorem scanSt_i (xs : List Int) : ∀ (dir : Int) (cand : Pt) (i : Nat) (prev : Int),
    (scanSt dir cand i prev xs).2.2.1 = i + xs.length := by
  induction xs with
  | nil => intros; simp [scanSt]
  | cons x xs ih =>
    intro dir cand i prev
    simp only [scanSt]
    split_ifs <;> rw [ih] <;> simp <;> omega

theorem scanSt_prev (xs : List Int) : ∀ (dir : Int) (cand : Pt) (i : Nat) (prev : Int),
    (scanSt dir cand i prev xs).2.2.2 = (prev :: xs).getLast (List.cons_ne_nil _ _) := by
  induction xs with
  | nil => intros; simp [scanSt]
  | cons x xs ih =>
    intro dir cand i prev
    simp only [scanSt]
    split_ifs <;> rw [ih] <;> simp

theorem scanSt_cand (xs : List Int) : ∀ (dir : Int) (cand : Pt) (i : Nat) (prev : Int),
    cand.2 = prev → (scanSt dir cand i prev xs).2.1.2 = (scanSt dir cand i prev xs).2.2.2 := by
  induction xs with
  | nil => intros; simpa [scanSt]
  | cons x xs ih =>
    intro dir cand i prev hc
    simp only [scanSt]
    split_ifs with h
    · apply ih; have := sgn_eq_zero h; omega
    · apply ih; rfl

/-- Shifting all indices of the scan state shifts the reported indices. -/
theorem findTurnsAux_shift (t : Nat) (xs : List Int) : ∀ (dir : Int) (cand : Pt) (i : Nat) (prev : Int),
    findTurnsAux dir (cand.1 + t, cand.2) (i + t) prev xs =
      shiftPts t (findTurnsAux dir cand i prev xs) := by
  induction xs with
  | nil => intros; simp [findTurnsAux]
  | cons x xs ih =>
    intro dir cand i prev
    simp only [findTurnsAux]
    split_ifs with h1 h2
    · have := ih dir cand (i+1) x
      rw [← this]; congr 1; omega
    · have := ih (sgn (x - prev)) (i, x) (i+1) x
      simp only [shiftPts, List.map_cons] at this ⊢
      rw [← this]; congr 2; omega
    · have := ih (sgn (x - prev)) (i, x) (i+1) x
      rw [← this]; congr 1; omega

/-- A plateau does not change the state except for the position. -/
theorem findTurnsAux_replicate (n : Nat) (v : Int) (ys : List Int) :
    ∀ (dir : Int) (cand : Pt) (k : Nat),
    findTurnsAux dir cand k v (List.replicate n v ++ ys) = findTurnsAux dir cand (k + n) v ys := by
  induction n with
  | zero => intros; simp
  | succ n ih =>
    intro dir cand k
    simp only [List.replicate_succ, List.cons_append, findTurnsAux, sgn_self, if_true]
    rw [ih]; congr 1; omega


/-- Restart at the first reported turn: the turns behind it are those of a fresh scan that starts
at this turn.  The samples between `cand` and position `i` are all equal to `prev`. -/
theorem peel_aux (xs : List Int) : ∀ (dir : Int) (cand : Pt) (i : Nat) (prev : Int) (tp : Pt)
    (rest : List Pt), cand.2 = prev → cand.1 < i →
    findTurnsAux dir cand i prev xs = tp :: rest →
    cand.1 ≤ tp.1 ∧ (dir = 0 → i ≤ tp.1) ∧ tp.1 < i + xs.length ∧
      rest = shiftPts tp.1
        (findTurns ((List.replicate (i - cand.1) prev ++ xs).drop (tp.1 - cand.1))) := by
  induction xs with
  | nil => intro dir cand i prev tp rest _ _ h; simp [findTurnsAux] at h
  | cons x xs ih =>
    intro dir cand i prev tp rest hc hi h
    simp only [findTurnsAux] at h
    split_ifs at h with h1 h2
    · have hx : x = prev := by have := sgn_eq_zero h1; omega
      subst hx
      obtain ⟨a, b, c, d⟩ := ih dir cand (i+1) x tp rest hc (by omega) h
      refine ⟨a, fun h0 => by have := b h0; omega, by simp only [List.length_cons]; omega, ?_⟩
      rw [d]
      have : i + 1 - cand.1 = (i - cand.1) + 1 := by omega
      rw [this, List.replicate_succ', List.append_assoc]; rfl
    · simp only [List.cons.injEq] at h
      obtain ⟨h3, h4⟩ := h
      subst h3
      refine ⟨Nat.le_refl _, fun h0 => absurd h0 h2.1, by simp only [List.length_cons]; omega, ?_⟩
      have : i - cand.1 = (i - cand.1 - 1) + 1 := by omega
      rw [Nat.sub_self, List.drop_zero, this, List.replicate_succ, List.cons_append, findTurns,
        findTurnsAux_replicate]
      simp only [findTurnsAux, h1, if_false, ne_eq, not_true_eq_false, false_and]
      rw [← h4, ← findTurnsAux_shift]
      have e1 : 1 + (i - cand.1 - 1) + cand.1 = i := by omega
      have e2 : 1 + (i - cand.1 - 1) + 1 + cand.1 = i + 1 := by omega
      show _ = findTurnsAux _ (1 + (i - cand.1 - 1) + cand.1, x) (1 + (i - cand.1 - 1) + 1 + cand.1) x xs
      rw [e1, e2]
    · obtain ⟨a, b, c, d⟩ := ih (sgn (x - prev)) (i, x) (i+1) x tp rest rfl (by omega) h
      simp only at a
      refine ⟨by omega, fun _ => a, by simp only [List.length_cons]; omega, ?_⟩
      rw [d]
      have : tp.1 - cand.1 = (List.replicate (i - cand.1) prev).length + (tp.1 - i) := by
        simp only [List.length_replicate]; omega
      rw [this, List.drop_length_add_append]
      simp

/-- Restart at the first turn of a signal. -/
theorem findTurns_peel (q : List Int) (tp : Pt) (rest : List Pt) (h : findTurns q = tp :: rest) :
    0 < tp.1 ∧ tp.1 < q.length ∧ rest = shiftPts tp.1 (findTurns (q.drop tp.1)) := by
  cases q with
  | nil => simp [findTurns] at h
  | cons x xs =>
    simp only [findTurns] at h
    obtain ⟨_, b, c, d⟩ := peel_aux xs 0 (0, x) 1 x tp rest rfl (by omega) h
    refine ⟨by have := b rfl; omega, by simp only [List.length_cons]; omega, ?_⟩
    rw [d]; simp

/-- The turns of a prefix are a prefix of the turns. -/
theorem findTurns_append_prefix (p c : List Int) : ∃ X, findTurns (p ++ c) = findTurns p ++ X := by
  cases p with
  | nil => exact ⟨findTurns c, by simp [findTurns]⟩
  | cons x xs =>
    simp only [List.cons_append, findTurns]
    rw [findTurnsAux_append]
    exact ⟨_, rfl⟩

/-- **Restart lemma.**  Let `t` be the index of the last turn of the prefix `p` (`0` if none).
The turns of `p ++ c` are those of `p` followed by the turns of the signal restarted at `t`. -/
theorem findTurns_restart (p : List Int) : ∀ c : List Int,
    findTurns (p ++ c) =
      findTurns p ++ shiftPts (lastIdx (findTurns p))
        (findTurns (p.drop (lastIdx (findTurns p)) ++ c)) := by
  induction h : p.length using Nat.strongRecOn generalizing p with
  | _ n ih =>
    intro c
    cases hT : findTurns p with
    | nil => simp
    | cons tp rest =>
      obtain ⟨X, hX⟩ := findTurns_append_prefix p c
      rw [hT, List.cons_append] at hX
      obtain ⟨h0, h1, h2⟩ := findTurns_peel p tp rest hT
      obtain ⟨_, _, h3⟩ := findTurns_peel (p ++ c) tp (rest ++ X) hX
      rw [List.drop_append_of_le_length (by omega)] at h3
      have ihd := ih (p.drop tp.1).length (by rw [List.length_drop]; omega) (p.drop tp.1) rfl c
      rw [hX, h3, ihd, h2, lastIdx_cons_shiftPts, shiftPts_append, shiftPts_shiftPts,
        List.drop_drop]
      simp

theorem lastIdx_findTurns_le (p : List Int) : lastIdx (findTurns p) ≤ p.length := by
  induction h : p.length using Nat.strongRecOn generalizing p with
  | _ n ih =>
    cases hT : findTurns p with
    | nil => simp
    | cons tp rest =>
      obtain ⟨h0, h1, h2⟩ := findTurns_peel p tp rest hT
      have ihd := ih (p.drop tp.1).length (by rw [List.length_drop]; omega) (p.drop tp.1) rfl
      rw [h2, lastIdx_cons_shiftPts]
      rw [List.length_drop] at ihd
      omega


/-! ### Chunk bookkeeping -/

/-- The bookkeeping state of `_new_turns` after the signal `p` has been fed (in any chunking):
the samples from the last decided turn on, and the number of samples. -/
def canonTs (p : List Int) : TurnState :=
  { tail := p.drop (lastIdx (findTurns p)), head := p.length }

/-- The turns that become decided when the signal `p` is extended by `c`. -/
def newTurnsOf (p c : List Int) : List Pt :=
  shiftPts (lastIdx (findTurns p)) (findTurns (p.drop (lastIdx (findTurns p)) ++ c))

theorem canonTs_nil : canonTs [] = {} := rfl

theorem findTurns_append_eq (p c : List Int) :
    findTurns (p ++ c) = findTurns p ++ newTurnsOf p c := findTurns_restart p c

theorem lastIdx_restart (p c : List Int) :
    lastIdx (findTurns (p ++ c)) =
      lastIdx (findTurns p) + lastIdx (findTurns (p.drop (lastIdx (findTurns p)) ++ c)) := by
  rw [findTurns_restart p c]
  cases hL : findTurns (p.drop (lastIdx (findTurns p)) ++ c) with
  | nil => simp
  | cons q L =>
    rw [lastIdx_append_of_ne_nil _ _ (by simp [shiftPts]), lastIdx_shiftPts _ _ (by simp)]
    omega

/-- One call of `_new_turns` with a non-empty chunk, started in the canonical state of `p`. -/
theorem newTurns_canon (p c : List Int) (hc : c ≠ []) :
    newTurns (canonTs p) c = (canonTs (p ++ c), newTurnsOf p c) := by
  have hle := lastIdx_findTurns_le p
  have hemp : c.isEmpty = false := by cases c <;> simp_all
  unfold newTurns
  simp only [hemp, Bool.false_eq_true, if_false, Bool.false_and]
  have hoff : (canonTs p).head - (canonTs p).tail.length = lastIdx (findTurns p) := by
    simp only [canonTs, List.length_drop]; omega
  rw [hoff]
  refine Prod.ext ?_ rfl
  simp only [canonTs, List.length_append]
  congr 1
  show List.drop (lastIdx (findTurns (List.drop (lastIdx (findTurns p)) p ++ c)))
    (List.drop (lastIdx (findTurns p)) p ++ c) = _
  rw [lastIdx_restart p c, ← List.drop_drop, List.drop_append_of_le_length hle]

/-- Feeding non-empty chunks one after the other: canonical state and all turns of the
concatenated signal. -/
theorem turnsFold_canon (cs : List (List Int)) (hne : ∀ c ∈ cs, c ≠ []) : ∀ p : List Int,
    cs.foldl (fun (acc : TurnState × List Pt) c => let r := newTurns acc.1 c; (r.1, acc.2 ++ r.2))
        (canonTs p, findTurns p) =
      (canonTs (p ++ cs.flatten), findTurns (p ++ cs.flatten)) := by
  induction cs with
  | nil => intro p; simp
  | cons c cs ih =>
    intro p
    have hc : c ≠ [] := hne c (by simp)
    simp only [List.foldl_cons, List.flatten_cons]
    rw [newTurns_canon p c hc, ← findTurns_append_eq, ih (fun c' h => hne c' (by simp [h])),
      List.append_assoc]


/-! ### Shape of the value sequence: first sample, decided turns, provisional end -/

/-- strict / weak comparison in a direction (`up = true`: increasing) -/
def dlt (up : Bool) (a b : Int) : Prop := if up then a < b else b < a
def dle (up : Bool) (a b : Int) : Prop := if up then a ≤ b else b ≤ a

/-- `v :: l` alternates strictly (first step upwards iff `up`); then, in the direction that is
current after the last element `z` of `v :: l`:  `z ≤ d ≤ nxt` (weakly). -/
def AltEnd (up : Bool) (v : Int) : List Int → Int → Int → Prop
  | [], d, nxt => dle up v d ∧ dle up d nxt
  | w :: l, d, nxt => dlt up v w ∧ AltEnd (!up) w l d nxt

/-- value of the next decided turn if there is one, else the provisional end `d'` -/
def nextVal (N : List Pt) (d' : Int) : Int :=
  match N with
  | [] => d'
  | p :: _ => p.2

/-- The next turn or end value lies (weakly) in the current direction of the scan. -/
theorem nextVal_dir (c : List Int) : ∀ (dir : Int) (cand : Pt) (i : Nat) (prev : Int),
    cand.2 = prev →
    (dir = 1 → prev ≤ nextVal (findTurnsAux dir cand i prev c)
        ((prev :: c).getLast (List.cons_ne_nil _ _))) ∧
    (dir = -1 → nextVal (findTurnsAux dir cand i prev c)
        ((prev :: c).getLast (List.cons_ne_nil _ _)) ≤ prev) := by
  induction c with
  | nil => intros; simp [findTurnsAux, nextVal]
  | cons x xs ih =>
    intro dir cand i prev hc
    simp only [findTurnsAux, List.getLast_cons_cons]
    split_ifs with h1 h2
    · have hx : x = prev := by have := sgn_eq_zero h1; omega
      subst hx
      exact ih dir cand (i+1) x hc
    · simp only [nextVal]; omega
    · have := ih (sgn (x - prev)) (i, x) (i+1) x rfl
      rcases sgn_cases (x - prev) with h | h | h
      · exact absurd h.1 h1
      · rw [h.1] at this h2 ⊢
        refine ⟨fun _ => by have := this.1 rfl; omega, fun hd => ?_⟩
        exact absurd ⟨by omega, by omega⟩ h2
      · rw [h.1] at this h2 ⊢
        refine ⟨fun hd => ?_, fun _ => by have := this.2 rfl; omega⟩
        exact absurd ⟨by omega, by omega⟩ h2

/-- Shape of the turn values produced by the scan on `xs`, for any `nxt` that lies in the
direction of the final state. -/
theorem findTurnsAux_altEnd (xs : List Int) : ∀ (dir : Int) (cand : Pt) (i : Nat) (prev nxt : Int),
    cand.2 = prev →
    ((scanSt dir cand i prev xs).1 = 1 → (scanSt dir cand i prev xs).2.2.2 ≤ nxt) →
    ((scanSt dir cand i prev xs).1 = -1 → nxt ≤ (scanSt dir cand i prev xs).2.2.2) →
    (dir = 1 → ∀ u, u < prev → AltEnd true u ((findTurnsAux dir cand i prev xs).map (·.2))
        (scanSt dir cand i prev xs).2.2.2 nxt) ∧
    (dir = -1 → ∀ u, prev < u → AltEnd false u ((findTurnsAux dir cand i prev xs).map (·.2))
        (scanSt dir cand i prev xs).2.2.2 nxt) ∧
    (dir = 0 → ∃ up, AltEnd up prev ((findTurnsAux dir cand i prev xs).map (·.2))
        (scanSt dir cand i prev xs).2.2.2 nxt) := by
  induction xs with
  | nil =>
    intro dir cand i prev nxt hc h1 h2
    simp only [scanSt] at h1 h2
    simp only [findTurnsAux, scanSt, List.map_nil, AltEnd, dle]
    refine ⟨fun hd u hu => ?_, fun hd u hu => ?_, fun hd => ?_⟩
    · have := h1 hd; simp; omega
    · have := h2 hd; simp; omega
    · by_cases h : prev ≤ nxt
      · exact ⟨true, by simp; omega⟩
      · exact ⟨false, by simp; omega⟩
  | cons x xs ih =>
    intro dir cand i prev nxt hc
    simp only [findTurnsAux, scanSt]
    rcases sgn_cases (x - prev) with h | h | h
    · -- plateau
      have hx : x = prev := by omega
      subst hx
      simp only [h.1, if_true]
      exact ih dir cand (i+1) x nxt hc
    · -- step up
      simp only [h.1, show ¬ ((1 : Int) = 0) by omega, if_false]
      intro h1 h2
      have I := ih 1 (i, x) (i+1) x nxt rfl h1 h2
      refine ⟨fun hd u hu => ?_, fun hd u hu => ?_, fun hd => ?_⟩
      · subst hd
        simp only [ne_eq, not_true_eq_false, and_false, if_false]
        exact I.1 rfl u (by omega)
      · subst hd
        simp only [ne_eq, show ¬ ((-1 : Int) = 0) by omega, not_false_eq_true,
          show ¬ ((1 : Int) = -1) by omega, and_self, if_true, List.map_cons, AltEnd, dlt]
        refine ⟨by simpa [hc] using hu, ?_⟩
        have := I.1 rfl prev (by omega)
        simpa [hc] using this
      · subst hd
        simp only [ne_eq, not_true_eq_false, false_and, if_false]
        exact ⟨true, I.1 rfl prev (by omega)⟩
    · -- step down
      simp only [h.1, show ¬ ((-1 : Int) = 0) by omega, if_false]
      intro h1 h2
      have I := ih (-1) (i, x) (i+1) x nxt rfl h1 h2
      refine ⟨fun hd u hu => ?_, fun hd u hu => ?_, fun hd => ?_⟩
      · subst hd
        simp only [ne_eq, show ¬ ((1 : Int) = 0) by omega, not_false_eq_true,
          show ¬ ((-1 : Int) = 1) by omega, and_self, if_true, List.map_cons, AltEnd, dlt]
        refine ⟨by simpa [hc] using hu, ?_⟩
        have := I.2.1 rfl prev (by omega)
        simpa [hc] using this
      · subst hd
        simp only [ne_eq, not_true_eq_false, and_false, if_false]
        exact I.2.1 rfl u (by omega)
      · subst hd
        simp only [ne_eq, not_true_eq_false, false_and, if_false]
        exact ⟨false, I.2.1 rfl prev (by omega)⟩


theorem newTurnsOf_eq_aux (s0 : Int) (xs c : List Int) :
    newTurnsOf (s0 :: xs) c =
      findTurnsAux (scanSt 0 (0, s0) 1 s0 xs).1 (scanSt 0 (0, s0) 1 s0 xs).2.1
        (scanSt 0 (0, s0) 1 s0 xs).2.2.1 (scanSt 0 (0, s0) 1 s0 xs).2.2.2 c := by
  have h1 := findTurns_append_eq (s0 :: xs) c
  have h2 : findTurns (s0 :: xs ++ c) = findTurns (s0 :: xs) ++
      findTurnsAux (scanSt 0 (0, s0) 1 s0 xs).1 (scanSt 0 (0, s0) 1 s0 xs).2.1
        (scanSt 0 (0, s0) 1 s0 xs).2.2.1 (scanSt 0 (0, s0) 1 s0 xs).2.2.2 c := by
    simp only [List.cons_append, findTurns]; rw [findTurnsAux_append]
  exact List.append_cancel_left (h1.symm.trans h2)

theorem getLast_cons_getLast (l c : List Int) (h : l ≠ []) :
    ((l.getLast h) :: c).getLast (List.cons_ne_nil _ _) =
      (l ++ c).getLast (by simp [h]) := by
  cases c with
  | nil => simp
  | cons y ys => simp

/-- **Shape of the residual-relevant values.**  For a non-empty signal `p = s0 :: xs` that is
later extended by `c`:  `s0` followed by the values of the decided turns of `p` alternates
strictly; the last sample `d` of `p` lies weakly beyond the last of these in the current
direction, and the next decided turn (or, if there is none, the last sample of `p ++ c`) lies
weakly beyond `d`. -/
theorem findTurns_altEnd (s0 : Int) (xs c : List Int) :
    ∃ up, AltEnd up s0 ((findTurns (s0 :: xs)).map (·.2))
      ((s0 :: xs).getLast (List.cons_ne_nil _ _))
      (nextVal (newTurnsOf (s0 :: xs) c) ((s0 :: xs ++ c).getLast (by simp))) := by
  have hd := nextVal_dir c (scanSt 0 (0, s0) 1 s0 xs).1 (scanSt 0 (0, s0) 1 s0 xs).2.1
    (scanSt 0 (0, s0) 1 s0 xs).2.2.1 (scanSt 0 (0, s0) 1 s0 xs).2.2.2
    (scanSt_cand xs 0 (0, s0) 1 s0 rfl)
  rw [← newTurnsOf_eq_aux] at hd
  have hl : ((scanSt 0 (0, s0) 1 s0 xs).2.2.2 :: c).getLast (List.cons_ne_nil _ _) =
      (s0 :: xs ++ c).getLast (by simp) := by
    have := getLast_cons_getLast (s0 :: xs) c (List.cons_ne_nil _ _)
    rw [← this]; congr 2; exact scanSt_prev xs 0 (0, s0) 1 s0
  rw [hl] at hd
  have := (findTurnsAux_altEnd xs 0 (0, s0) 1 s0 _ rfl hd.1 hd.2).2.2 rfl
  rw [scanSt_prev] at this
  exact this

end PylifeVerif.Rainflow
