/-
C18 (Wöhler analysis), the Probit analyzer: load scaling, cycle scaling, permutation invariance, for an arbitrary
quantile function `Q`.

Part 1: the probit-specific pieces (`dedup`, `levels`, `probitProb`, `probitPoints`); needs `WoehlerBasics` only.
Part 2: `probit_fallback` / `probit_regular` (the two branches of `probit`), `fitSlope` under the transformations,
        `probit_*_of`: the property theorems with the corresponding facts about `elementary` as a hypothesis `hel`
        (zone facts from `WoehlerZones`).
Part 3: `probit_load_scale`, `probit_cycle_scale`, `probit_perm_invariant` (`hel` discharged by `WoehlerElementary`).
Part 4: the added hypotheses cannot be dropped (`probit_load_scale_counterexample`, `probit_cycle_scale_counterexample`),
        and they are satisfiable in the regular branch (`sample`).

Added hypotheses with respect to the plain statements:
  * `probit_load_scale`: `hps` – with at least two load levels in the infinite zone the probit regression slope is not 0
    (else the model has `SD = 10 ^ (-pi / 0) = 10 ^ 0 = 1` before and after scaling; the code yields inf/nan);
  * `probit_cycle_scale`: `hff` – the finite zone of the reduced data contains a fracture (else the finite-zone regression
    is that of the empty list and `ND = 1` before and after scaling; the code fails), and `hload` (positive loads, required
    by `WoehlerElementary.elementary_cycle_scale`).
-/
import Model.WoehlerAnalysis
import Proofs.RealNum
import Proofs.Lemmas.WoehlerBasics
import Proofs.Lemmas.WoehlerZones
import Proofs.Lemmas.WoehlerElementary

namespace PylifeVerif.WoehlerProbit

open PylifeVerif.WoehlerAnalysis PylifeVerif.WoehlerBasics

/-! ### `eqα`, `dedup` -/

theorem eqα_mul_left {c : ℝ} (hc : 0 < c) (a b : ℝ) : eqα (c * a) (c * b) = eqα a b := by
  rw [Bool.eq_iff_iff, eqα_iff, eqα_iff]
  exact ⟨fun h => mul_left_cancel₀ hc.ne' h, fun h => by rw [h]⟩

theorem dedup_map_mul {c : ℝ} (hc : 0 < c) (l : List ℝ) : dedup (l.map (c * ·)) = (dedup l).map (c * ·) := by
  fun_induction dedup l with
  | case1 => rfl
  | case2 a => rfl
  | case3 a b rest h ih =>
    simp only [List.map_cons] at ih ⊢
    rw [dedup, eqα_mul_left hc, if_pos h, ih]
  | case4 a b rest h ih =>
    simp only [List.map_cons] at ih ⊢
    rw [dedup, eqα_mul_left hc, if_neg h, ih]

theorem mem_of_mem_dedup {l : List ℝ} {x : ℝ} (h : x ∈ dedup l) : x ∈ l := by
  fun_induction dedup l with
  | case1 => exact h
  | case2 a => exact h
  | case3 a b rest _ ih => exact List.mem_cons_of_mem _ (ih h)
  | case4 a b rest _ ih =>
    rcases List.mem_cons.mp h with h1 | h1
    · rw [h1]; exact List.mem_cons_self
    · exact List.mem_cons_of_mem _ (ih h1)

/-! ### `scaleLoad` / `scaleCycles` elementary facts -/

theorem map_load_scaleLoad (c : ℝ) (d : List (Test ℝ)) :
    (scaleLoad c d).map (·.load) = (d.map (·.load)).map (c * ·) := by
  simp only [scaleLoad, List.map_map, Function.comp_def]

theorem map_load_scaleCycles (c : ℝ) (d : List (Test ℝ)) :
    (scaleCycles c d).map (·.load) = d.map (·.load) := by
  simp only [scaleCycles, List.map_map, Function.comp_def]

theorem filter_scaleLoad (c : ℝ) (d : List (Test ℝ)) (p q : Test ℝ → Bool)
    (hpq : ∀ t : Test ℝ, p { t with load := c * t.load } = q t) :
    (scaleLoad c d).filter p = scaleLoad c (d.filter q) := by
  simp only [scaleLoad, List.filter_map]
  congr 1
  apply List.filter_congr
  intro t _
  exact hpq t

theorem filter_scaleCycles (c : ℝ) (d : List (Test ℝ)) (p q : Test ℝ → Bool)
    (hpq : ∀ t : Test ℝ, p { t with cycles := c * t.cycles } = q t) :
    (scaleCycles c d).filter p = scaleCycles c (d.filter q) := by
  simp only [scaleCycles, List.filter_map]
  congr 1
  apply List.filter_congr
  intro t _
  exact hpq t

theorem fractures_scaleLoad (c : ℝ) (d : List (Test ℝ)) : fractures (scaleLoad c d) = scaleLoad c (fractures d) :=
  filter_scaleLoad c d _ _ fun _ => rfl

theorem runouts_scaleLoad (c : ℝ) (d : List (Test ℝ)) : runouts (scaleLoad c d) = scaleLoad c (runouts d) :=
  filter_scaleLoad c d _ _ fun _ => rfl

theorem fractures_scaleCycles (c : ℝ) (d : List (Test ℝ)) :
    fractures (scaleCycles c d) = scaleCycles c (fractures d) :=
  filter_scaleCycles c d _ _ fun _ => rfl

theorem runouts_scaleCycles (c : ℝ) (d : List (Test ℝ)) : runouts (scaleCycles c d) = scaleCycles c (runouts d) :=
  filter_scaleCycles c d _ _ fun _ => rfl

theorem length_scaleLoad (c : ℝ) (d : List (Test ℝ)) : (scaleLoad c d).length = d.length := by
  simp only [scaleLoad, List.length_map]

theorem length_scaleCycles (c : ℝ) (d : List (Test ℝ)) : (scaleCycles c d).length = d.length := by
  simp only [scaleCycles, List.length_map]

/-! ### `levels` -/

theorem levels_perm {d₁ d₂ : List (Test ℝ)} (h : d₁.Perm d₂) : levels d₁ = levels d₂ := by
  simp only [levels, sort_perm_eq (h.map _)]

theorem levels_scaleLoad {c : ℝ} (hc : 0 < c) (d : List (Test ℝ)) :
    levels (scaleLoad c d) = (levels d).map (c * ·) := by
  simp only [levels, map_load_scaleLoad, sort_map_mul hc, dedup_map_mul hc]

theorem levels_scaleCycles (c : ℝ) (d : List (Test ℝ)) : levels (scaleCycles c d) = levels d := by
  simp only [levels, map_load_scaleCycles]

/-- every level is the load of some test -/
theorem exists_of_mem_levels {d : List (Test ℝ)} {L : ℝ} (h : L ∈ levels d) : ∃ t ∈ d, t.load = L := by
  have h1 : L ∈ d.map (·.load) := mem_sort.mp (mem_of_mem_dedup h)
  obtain ⟨t, ht, rfl⟩ := List.mem_map.mp h1
  exact ⟨t, ht, rfl⟩

/-! ### `probitProb` -/

/-- `probitProb` depends on the three counts only -/
theorem probitProb_eq_of_lengths {g₁ g₂ : List (Test ℝ)} (h : g₁.length = g₂.length)
    (hf : (fractures g₁).length = (fractures g₂).length) (hr : (runouts g₁).length = (runouts g₂).length) :
    probitProb g₁ = probitProb g₂ := by
  have e : ∀ l : List (Test ℝ), l.isEmpty = decide (l.length = 0) := by
    intro l; cases l <;> simp
  simp only [probitProb, lenα_eq, e, h, hf, hr]

theorem probitProb_perm {g₁ g₂ : List (Test ℝ)} (h : g₁.Perm g₂) : probitProb g₁ = probitProb g₂ :=
  probitProb_eq_of_lengths h.length_eq (h.filter _).length_eq (h.filter _).length_eq

theorem probitProb_scaleLoad (c : ℝ) (g : List (Test ℝ)) : probitProb (scaleLoad c g) = probitProb g :=
  probitProb_eq_of_lengths (length_scaleLoad c g)
    (by rw [fractures_scaleLoad, length_scaleLoad]) (by rw [runouts_scaleLoad, length_scaleLoad])

theorem probitProb_scaleCycles (c : ℝ) (g : List (Test ℝ)) : probitProb (scaleCycles c g) = probitProb g :=
  probitProb_eq_of_lengths (length_scaleCycles c g)
    (by rw [fractures_scaleCycles, length_scaleCycles]) (by rw [runouts_scaleCycles, length_scaleCycles])

/-! ### `probitPoints` -/

theorem probitPoints_perm (Q : ℝ → ℝ) {i₁ i₂ : List (Test ℝ)} (h : i₁.Perm i₂) :
    probitPoints Q i₁ = probitPoints Q i₂ := by
  simp only [probitPoints, levels_perm h]
  apply List.map_congr_left
  intro L _
  have hg : (i₁.filter fun t => eqα t.load L).Perm (i₂.filter fun t => eqα t.load L) := h.filter _
  rw [mean_perm (hg.map _), probitProb_perm hg]

/-- the mean load of the group of a level is the level -/
theorem mean_group {inf : List (Test ℝ)} {L : ℝ} (hL : L ∈ levels inf) :
    mean ((inf.filter fun t => eqα t.load L).map (·.load)) = L := by
  obtain ⟨t, ht, htL⟩ := exists_of_mem_levels hL
  apply mean_of_const
  · intro h0
    have : t ∈ inf.filter fun t => eqα t.load L :=
      List.mem_filter.mpr ⟨ht, by simpa using (eqα_iff _ _).mpr htL⟩
    rw [List.map_eq_nil_iff] at h0
    rw [h0] at this
    cases this
  · intro x hx
    obtain ⟨u, hu, rfl⟩ := List.mem_map.mp hx
    exact (eqα_iff _ _).mp (by simpa using (List.mem_filter.mp hu).2)

/-- the probit points in closed form: the abscissa is `log10` of the level itself -/
theorem probitPoints_eq (Q : ℝ → ℝ) (inf : List (Test ℝ)) :
    probitPoints Q inf = (levels inf).map fun L =>
      (Real.log L / Real.log 10, Q (probitProb (inf.filter fun t => eqα t.load L))) := by
  simp only [probitPoints, transc_log10]
  apply List.map_congr_left
  intro L hL
  rw [mean_group hL]

theorem probitPoints_scaleLoad (Q : ℝ → ℝ) {c : ℝ} (hc : 0 < c) (inf : List (Test ℝ))
    (hpos : ∀ t ∈ inf, 0 < t.load) :
    probitPoints Q (scaleLoad c inf)
      = (probitPoints Q inf).map fun p => (p.1 + Real.log c / Real.log 10, p.2) := by
  rw [probitPoints_eq, probitPoints_eq, levels_scaleLoad hc, List.map_map, List.map_map]
  apply List.map_congr_left
  intro L hL
  obtain ⟨t, ht, htL⟩ := exists_of_mem_levels hL
  have hLpos : 0 < L := htL ▸ hpos t ht
  have hg : (scaleLoad c inf).filter (fun t => eqα t.load (c * L))
      = scaleLoad c (inf.filter fun t => eqα t.load L) :=
    filter_scaleLoad c inf _ _ fun t => eqα_mul_left hc _ _
  simp only [Function.comp_def, hg, probitProb_scaleLoad, Real.log_mul hc.ne' hLpos.ne']
  refine Prod.ext ?_ rfl
  simp only
  ring

theorem probitPoints_scaleCycles (Q : ℝ → ℝ) (c : ℝ) (inf : List (Test ℝ)) :
    probitPoints Q (scaleCycles c inf) = probitPoints Q inf := by
  simp only [probitPoints, levels_scaleCycles]
  apply List.map_congr_left
  intro L _
  have hg : (scaleCycles c inf).filter (fun t => eqα t.load L)
      = scaleCycles c (inf.filter fun t => eqα t.load L) :=
    filter_scaleCycles c inf _ _ fun _ => rfl
  rw [hg, map_load_scaleCycles, probitProb_scaleCycles]

/-! ### unfolding `probit` -/

theorem lit_10 : (10.0 : ℝ) = 10 := by norm_num

/-- fewer than two levels in the infinite zone: `probit` is `elementary` -/
theorem probit_fallback (Q : ℝ → ℝ) (d0 : List (Test ℝ))
    (h : (levels (infiniteZone (irrelevantRunoutsDropped d0))).length < 2) : probit Q d0 = elementary Q d0 := by
  unfold probit elementary
  dsimp only
  split
  · next a b r heq => rw [heq] at h; simp at h
  · rfl

/-- at least two levels in the infinite zone: the regular branch -/
theorem probit_regular (Q : ℝ → ℝ) (d0 : List (Test ℝ))
    (h : 2 ≤ (levels (infiniteZone (irrelevantRunoutsDropped d0))).length) :
    probit Q d0 =
      { k1 := (elementary Q d0).k1
        ND := transitionCycles (fitSlope (irrelevantRunoutsDropped d0)).1 (fitSlope (irrelevantRunoutsDropped d0)).2
          ((10 : ℝ) ^ (-(ols (probitPoints Q (infiniteZone (irrelevantRunoutsDropped d0)))).2 /
            (ols (probitPoints Q (infiniteZone (irrelevantRunoutsDropped d0)))).1))
        SD := (10 : ℝ) ^ (-(ols (probitPoints Q (infiniteZone (irrelevantRunoutsDropped d0)))).2 /
            (ols (probitPoints Q (infiniteZone (irrelevantRunoutsDropped d0)))).1)
        TN := (elementary Q d0).TN
        TS := scatterOfSlope (ols (probitPoints Q (infiniteZone (irrelevantRunoutsDropped d0)))).1 } := by
  unfold probit elementary
  dsimp only
  split
  · simp only [transc_pow, lit_10]
  · next hno =>
    exfalso
    match hl : levels (infiniteZone (irrelevantRunoutsDropped d0)), h with
    | a :: b :: r, _ => exact hno a b r hl
    | [_], h => simp at h
    | [], h => simp at h

/-! ### membership in the reduced data and the zones -/

theorem ird_subset (d : List (Test ℝ)) : ∀ t ∈ irrelevantRunoutsDropped d, t ∈ d := by
  intro t ht
  unfold irrelevantRunoutsDropped at ht
  dsimp only at ht
  split at ht
  · split_ifs at ht
    · exact ht
    · exact (List.mem_filter.mp ht).1
    · exact ht
  · exact ht

theorem finiteZone_subset (d : List (Test ℝ)) : ∀ t ∈ finiteZone d, t ∈ d := by
  intro t ht
  unfold finiteZone at ht
  split_ifs at ht
  · exact ht
  · exact (List.mem_filter.mp (List.mem_filter.mp ht).1).1

theorem infiniteZone_subset (d : List (Test ℝ)) : ∀ t ∈ infiniteZone d, t ∈ d :=
  fun _ ht => (WoehlerZones.mem_infiniteZone.mp ht).2.1

/-! ### `fitSlope` -/

theorem ols_nil : ols ([] : List (ℝ × ℝ)) = (0, 0) := by
  simp [ols_eq, mean_eq]

/-- the finite-zone regression under load scaling: same slope, intercept shifted by `-slope * log10 c` -/
theorem fitSlope_scaleLoad {c : ℝ} (hc : 0 < c) (d : List (Test ℝ)) (hpos : ∀ t ∈ d, 0 < t.load) :
    fitSlope (scaleLoad c d)
      = ((fitSlope d).1, (fitSlope d).2 - (fitSlope d).1 * (Real.log c / Real.log 10)) := by
  unfold fitSlope
  rw [WoehlerZones.finiteZone_scaleLoad hc, filter_scaleLoad c _ _ (fun t => t.fracture) (fun _ => rfl)]
  have e : (scaleLoad c ((finiteZone d).filter fun t => t.fracture)).map
        (fun t => ((Transc.log10 t.load : ℝ), (Transc.log10 t.cycles : ℝ)))
      = (((finiteZone d).filter fun t => t.fracture).map
          fun t => ((Transc.log10 t.load : ℝ), (Transc.log10 t.cycles : ℝ))).map
          fun p => (p.1 + Real.log c / Real.log 10, p.2 + 0) := by
    simp only [scaleLoad, List.map_map, Function.comp_def, transc_log10, add_zero]
    apply List.map_congr_left
    intro t ht
    have ht0 : 0 < t.load := hpos t (finiteZone_subset d t (List.mem_filter.mp ht).1)
    rw [Real.log_mul hc.ne' ht0.ne']
    refine Prod.ext ?_ rfl
    simp only
    ring
  rw [e]
  by_cases hne : ((finiteZone d).filter fun t => t.fracture).map
      (fun t => ((Transc.log10 t.load : ℝ), (Transc.log10 t.cycles : ℝ))) = []
  · rw [hne]; simp [ols_nil]
  · rw [ols_shift_equivariant _ hne]
    refine Prod.ext rfl ?_
    simp only
    ring

/-- the finite-zone regression under cycle scaling (at least one fracture in the finite zone): same slope,
intercept shifted by `log10 c` -/
theorem fitSlope_scaleCycles {c : ℝ} (hc : 0 < c) (d : List (Test ℝ)) (hpos : ∀ t ∈ d, 0 < t.cycles)
    (hff : (finiteZone d).filter (fun t => t.fracture) ≠ []) :
    fitSlope (scaleCycles c d) = ((fitSlope d).1, (fitSlope d).2 + Real.log c / Real.log 10) := by
  unfold fitSlope
  rw [WoehlerZones.finiteZone_scaleCycles, filter_scaleCycles c _ _ (fun t => t.fracture) (fun _ => rfl)]
  have e : (scaleCycles c ((finiteZone d).filter fun t => t.fracture)).map
        (fun t => ((Transc.log10 t.load : ℝ), (Transc.log10 t.cycles : ℝ)))
      = (((finiteZone d).filter fun t => t.fracture).map
          fun t => ((Transc.log10 t.load : ℝ), (Transc.log10 t.cycles : ℝ))).map
          fun p => (p.1 + 0, p.2 + Real.log c / Real.log 10) := by
    simp only [scaleCycles, List.map_map, Function.comp_def, transc_log10, add_zero]
    apply List.map_congr_left
    intro t ht
    have ht0 : 0 < t.cycles := hpos t (finiteZone_subset d t (List.mem_filter.mp ht).1)
    rw [Real.log_mul hc.ne' ht0.ne']
    refine Prod.ext rfl ?_
    simp only
    ring
  rw [e, ols_shift_equivariant _ (by simpa using hff)]
  refine Prod.ext rfl ?_
  simp only
  ring

theorem fitSlope_perm {d₁ d₂ : List (Test ℝ)} (h : d₁.Perm d₂) : fitSlope d₁ = fitSlope d₂ :=
  ols_perm_invariant (((WoehlerZones.finiteZone_perm h).filter _).map _)

/-! ### `transitionCycles`, powers of ten -/

theorem rpow10_log10 {c : ℝ} (hc : 0 < c) : (10 : ℝ) ^ (Real.log c / Real.log 10) = c := by
  have h10 : Real.log 10 ≠ 0 := (Real.log_pos (by norm_num)).ne'
  rw [Real.rpow_def_of_pos (by norm_num), mul_div_cancel₀ _ h10, Real.exp_log hc]

theorem transitionCycles_of_pos (s i : ℝ) {f : ℝ} (hf : 0 < f) :
    transitionCycles s i f = (10 : ℝ) ^ (i + s * (Real.log f / Real.log 10)) := by
  have h : eqα f (0.0 : ℝ) = false := by
    rw [Bool.eq_false_iff]; intro h; rw [eqα_iff, lit_0] at h; exact hf.ne' h
  simp only [transitionCycles, h, transc_pow, transc_log10, lit_10]
  rfl

theorem probitPoints_ne_nil (Q : ℝ → ℝ) {inf : List (Test ℝ)} (h : 2 ≤ (levels inf).length) :
    probitPoints Q inf ≠ [] := by
  intro h0
  have : (probitPoints Q inf).length = (levels inf).length := by simp only [probitPoints, List.length_map]
  rw [h0] at this
  simp at this
  omega

/-! ### load scaling -/

/-- Load scaling for `probit`, given the corresponding facts for `elementary` (`hel`).

`hps`: in the regular branch (≥ 2 load levels in the infinite zone) the slope of the probit regression is not zero.
It is needed for the `SD` and `ND` clauses: with slope `0` the model computes `SD = 10 ^ (-pi / 0) = 10 ^ 0 = 1` for the
original and the scaled data alike (the code produces `inf`/`nan` there). -/
theorem probit_load_scale_of (Q : ℝ → ℝ) {c : ℝ} (hc : 0 < c) (d : List (Test ℝ)) (hpos : ∀ t ∈ d, 0 < t.load)
    (hps : 2 ≤ (levels (infiniteZone (irrelevantRunoutsDropped d))).length →
      (ols (probitPoints Q (infiniteZone (irrelevantRunoutsDropped d)))).1 ≠ 0)
    (hel : (elementary Q (scaleLoad c d)).k1 = (elementary Q d).k1 ∧
      (elementary Q (scaleLoad c d)).SD = c * (elementary Q d).SD ∧
      (elementary Q (scaleLoad c d)).TN = (elementary Q d).TN ∧
      (elementary Q (scaleLoad c d)).TS = (elementary Q d).TS ∧
      ((elementary Q d).SD ≠ 0 → (elementary Q (scaleLoad c d)).ND = (elementary Q d).ND)) :
    (probit Q (scaleLoad c d)).k1 = (probit Q d).k1 ∧ (probit Q (scaleLoad c d)).SD = c * (probit Q d).SD ∧
    (probit Q (scaleLoad c d)).TN = (probit Q d).TN ∧ (probit Q (scaleLoad c d)).TS = (probit Q d).TS ∧
    ((probit Q d).SD ≠ 0 → (probit Q (scaleLoad c d)).ND = (probit Q d).ND) := by
  have hird := WoehlerZones.irrelevantRunoutsDropped_scaleLoad hc d
  have hinf := WoehlerZones.infiniteZone_scaleLoad hc (irrelevantRunoutsDropped d)
  have hlev : (levels (infiniteZone (irrelevantRunoutsDropped (scaleLoad c d)))).length
      = (levels (infiniteZone (irrelevantRunoutsDropped d))).length := by
    rw [hird, hinf, levels_scaleLoad hc, List.length_map]
  by_cases h2 : 2 ≤ (levels (infiniteZone (irrelevantRunoutsDropped d))).length
  · have hposd : ∀ t ∈ irrelevantRunoutsDropped d, 0 < t.load := fun t ht => hpos t (ird_subset d t ht)
    have hposinf : ∀ t ∈ infiniteZone (irrelevantRunoutsDropped d), 0 < t.load :=
      fun t ht => hposd t (infiniteZone_subset _ t ht)
    have hols : ols (probitPoints Q (infiniteZone (irrelevantRunoutsDropped (scaleLoad c d))))
        = ((ols (probitPoints Q (infiniteZone (irrelevantRunoutsDropped d)))).1,
            (ols (probitPoints Q (infiniteZone (irrelevantRunoutsDropped d)))).2 + 0 -
              (ols (probitPoints Q (infiniteZone (irrelevantRunoutsDropped d)))).1 * (Real.log c / Real.log 10)) := by
      rw [hird, hinf, probitPoints_scaleLoad Q hc _ hposinf, ← ols_shift_equivariant _ (probitPoints_ne_nil Q h2)]
      simp only [add_zero]
    have hfs := fitSlope_scaleLoad hc (irrelevantRunoutsDropped d) hposd
    rw [← hird] at hfs
    rw [probit_regular Q _ (hlev ▸ h2), probit_regular Q _ h2, hols, hfs]
    have hps' := hps h2
    generalize (ols (probitPoints Q (infiniteZone (irrelevantRunoutsDropped d)))).1 = ps at hps' ⊢
    generalize (ols (probitPoints Q (infiniteZone (irrelevantRunoutsDropped d)))).2 = pi
    generalize (fitSlope (irrelevantRunoutsDropped d)).1 = s
    generalize (fitSlope (irrelevantRunoutsDropped d)).2 = i
    have hexp : -(pi + 0 - ps * (Real.log c / Real.log 10)) / ps = -pi / ps + Real.log c / Real.log 10 := by
      field_simp; ring
    have hSDpos : 0 < (10 : ℝ) ^ (-pi / ps) := Real.rpow_pos_of_pos (by norm_num) _
    have hSD : (10 : ℝ) ^ (-(pi + 0 - ps * (Real.log c / Real.log 10)) / ps) = c * (10 : ℝ) ^ (-pi / ps) := by
      rw [hexp, Real.rpow_add (by norm_num), rpow10_log10 hc, mul_comm]
    refine ⟨hel.1, hSD, hel.2.2.1, rfl, fun _ => ?_⟩
    simp only
    rw [hSD, transitionCycles_of_pos _ _ (mul_pos hc hSDpos), transitionCycles_of_pos _ _ hSDpos,
      Real.log_mul hc.ne' hSDpos.ne']
    congr 1
    ring
  · have h2' : (levels (infiniteZone (irrelevantRunoutsDropped d))).length < 2 := not_le.mp h2
    rw [probit_fallback Q _ (hlev ▸ h2'), probit_fallback Q _ h2']
    exact hel

/-! ### cycle scaling -/

/-- Cycle scaling for `probit`, given the corresponding facts for `elementary` (`hel`).

`hff`: the finite zone of the reduced data contains a fracture.  It is needed for the `ND` clause in the regular branch:
without a fracture the finite-zone regression is the regression of the empty list, `(0, 0)` in the model for the
original and the scaled data alike, and `ND = 10 ^ 0 = 1` is not scaled (the code fails there). -/
theorem probit_cycle_scale_of (Q : ℝ → ℝ) {c : ℝ} (hc : 0 < c) (d : List (Test ℝ)) (hpos : ∀ t ∈ d, 0 < t.cycles)
    (hff : (finiteZone (irrelevantRunoutsDropped d)).filter (fun t => t.fracture) ≠ [])
    (hel : (elementary Q (scaleCycles c d)).k1 = (elementary Q d).k1 ∧
      (elementary Q (scaleCycles c d)).ND = c * (elementary Q d).ND ∧
      (elementary Q (scaleCycles c d)).SD = (elementary Q d).SD ∧
      (elementary Q (scaleCycles c d)).TN = (elementary Q d).TN ∧
      (elementary Q (scaleCycles c d)).TS = (elementary Q d).TS) :
    (probit Q (scaleCycles c d)).k1 = (probit Q d).k1 ∧ (probit Q (scaleCycles c d)).ND = c * (probit Q d).ND ∧
    (probit Q (scaleCycles c d)).SD = (probit Q d).SD ∧ (probit Q (scaleCycles c d)).TN = (probit Q d).TN ∧
    (probit Q (scaleCycles c d)).TS = (probit Q d).TS := by
  have hird := WoehlerZones.irrelevantRunoutsDropped_scaleCycles c d
  have hinf := WoehlerZones.infiniteZone_scaleCycles c (irrelevantRunoutsDropped d)
  have hlev : (levels (infiniteZone (irrelevantRunoutsDropped (scaleCycles c d)))).length
      = (levels (infiniteZone (irrelevantRunoutsDropped d))).length := by
    rw [hird, hinf, levels_scaleCycles]
  by_cases h2 : 2 ≤ (levels (infiniteZone (irrelevantRunoutsDropped d))).length
  · have hposd : ∀ t ∈ irrelevantRunoutsDropped d, 0 < t.cycles := fun t ht => hpos t (ird_subset d t ht)
    have hpts : probitPoints Q (infiniteZone (irrelevantRunoutsDropped (scaleCycles c d)))
        = probitPoints Q (infiniteZone (irrelevantRunoutsDropped d)) := by
      rw [hird, hinf, probitPoints_scaleCycles]
    have hfs := fitSlope_scaleCycles hc (irrelevantRunoutsDropped d) hposd hff
    rw [← hird] at hfs
    rw [probit_regular Q _ (hlev ▸ h2), probit_regular Q _ h2, hpts, hfs]
    generalize (ols (probitPoints Q (infiniteZone (irrelevantRunoutsDropped d)))).1 = ps
    generalize (ols (probitPoints Q (infiniteZone (irrelevantRunoutsDropped d)))).2 = pi
    generalize (fitSlope (irrelevantRunoutsDropped d)).1 = s
    generalize (fitSlope (irrelevantRunoutsDropped d)).2 = i
    have hSDpos : 0 < (10 : ℝ) ^ (-pi / ps) := Real.rpow_pos_of_pos (by norm_num) _
    refine ⟨hel.1, ?_, rfl, hel.2.2.2.1, rfl⟩
    simp only
    rw [transitionCycles_of_pos _ _ hSDpos, transitionCycles_of_pos _ _ hSDpos,
      show i + Real.log c / Real.log 10 + s * (Real.log ((10 : ℝ) ^ (-pi / ps)) / Real.log 10)
        = Real.log c / Real.log 10 + (i + s * (Real.log ((10 : ℝ) ^ (-pi / ps)) / Real.log 10)) by ring,
      Real.rpow_add (by norm_num), rpow10_log10 hc]
  · have h2' : (levels (infiniteZone (irrelevantRunoutsDropped d))).length < 2 := not_le.mp h2
    rw [probit_fallback Q _ (hlev ▸ h2'), probit_fallback Q _ h2']
    exact hel

/-! ### permutation invariance -/

/-- Permutation invariance of `probit`, given that of `elementary` (`hel`). -/
theorem probit_perm_invariant_of (Q : ℝ → ℝ) {d₁ d₂ : List (Test ℝ)} (h : d₁.Perm d₂)
    (hel : elementary Q d₁ = elementary Q d₂) : probit Q d₁ = probit Q d₂ := by
  have hird := WoehlerZones.irrelevantRunoutsDropped_perm h
  have hinf := WoehlerZones.infiniteZone_perm hird
  have hlev := levels_perm hinf
  by_cases h2 : 2 ≤ (levels (infiniteZone (irrelevantRunoutsDropped d₁))).length
  · rw [probit_regular Q _ h2, probit_regular Q _ (hlev ▸ h2), hel, fitSlope_perm hird, probitPoints_perm Q hinf]
  · have h2' : (levels (infiniteZone (irrelevantRunoutsDropped d₁))).length < 2 := not_le.mp h2
    rw [probit_fallback Q _ h2', probit_fallback Q _ (hlev ▸ h2'), hel]

/-! ### the property theorems (the `elementary` facts discharged by `WoehlerElementary`) -/

/-- C18 load scaling for Probit.  `hps` (non-zero probit slope in the regular branch) is an added hypothesis, see
`probit_load_scale_of` and `probit_load_scale_degenerate`. -/
theorem probit_load_scale (Q : ℝ → ℝ) {c : ℝ} (hc : 0 < c) (d : List (Test ℝ)) (hpos : ∀ t ∈ d, 0 < t.load)
    (hps : 2 ≤ (levels (infiniteZone (irrelevantRunoutsDropped d))).length →
      (ols (probitPoints Q (infiniteZone (irrelevantRunoutsDropped d)))).1 ≠ 0) :
    (probit Q (scaleLoad c d)).k1 = (probit Q d).k1 ∧ (probit Q (scaleLoad c d)).SD = c * (probit Q d).SD ∧
    (probit Q (scaleLoad c d)).TN = (probit Q d).TN ∧ (probit Q (scaleLoad c d)).TS = (probit Q d).TS ∧
    ((probit Q d).SD ≠ 0 → (probit Q (scaleLoad c d)).ND = (probit Q d).ND) :=
  probit_load_scale_of Q hc d hpos hps (WoehlerElementary.elementary_load_scale Q hc d hpos)

/-- C18 cycle scaling for Probit.  `hload` and `hff` (a fracture in the finite zone of the reduced data) are added
hypotheses, see `probit_cycle_scale_of` and `probit_cycle_scale_counterexample`. -/
theorem probit_cycle_scale (Q : ℝ → ℝ) {c : ℝ} (hc : 0 < c) (d : List (Test ℝ)) (hpos : ∀ t ∈ d, 0 < t.cycles)
    (hload : ∀ t ∈ d, 0 < t.load)
    (hff : (finiteZone (irrelevantRunoutsDropped d)).filter (fun t => t.fracture) ≠ []) :
    (probit Q (scaleCycles c d)).k1 = (probit Q d).k1 ∧ (probit Q (scaleCycles c d)).ND = c * (probit Q d).ND ∧
    (probit Q (scaleCycles c d)).SD = (probit Q d).SD ∧ (probit Q (scaleCycles c d)).TN = (probit Q d).TN ∧
    (probit Q (scaleCycles c d)).TS = (probit Q d).TS :=
  probit_cycle_scale_of Q hc d hpos hff (WoehlerElementary.elementary_cycle_scale Q hc d hpos hload hff)

/-- C18 row-order invariance for Probit -/
theorem probit_perm_invariant (Q : ℝ → ℝ) {d₁ d₂ : List (Test ℝ)} (h : d₁.Perm d₂) : probit Q d₁ = probit Q d₂ :=
  probit_perm_invariant_of Q h (WoehlerElementary.elementary_perm_invariant Q h)

/-! ### the added hypotheses cannot be dropped -/

/-- the empty data set: `ND = 1` in the model -/
theorem probit_nil_ND (Q : ℝ → ℝ) : (probit Q []).ND = 1 := by
  have h : (levels (infiniteZone (irrelevantRunoutsDropped ([] : List (Test ℝ))))).length < 2 := by
    simp [irrelevantRunoutsDropped, fractures, runouts, infiniteZone, levels, sort, dedup]
  rw [probit_fallback Q _ h]
  simp [elementary, elementaryCore, irrelevantRunoutsDropped, fractures, runouts, fitSlope, finiteZone, ols_nil,
    transitionCycles, transition]

/-- `probit_cycle_scale` without `hff` is false: counterexample `d = []`, `c = 2` -/
theorem probit_cycle_scale_counterexample (Q : ℝ → ℝ) :
    (probit Q (scaleCycles 2 [])).ND ≠ 2 * (probit Q []).ND := by
  have : scaleCycles (2 : ℝ) [] = [] := rfl
  rw [this, probit_nil_ND]
  norm_num

/-- with a vanishing probit slope in the regular branch the model has `SD = 1` for the scaled and the original data:
`SD' = c * SD` fails for `c ≠ 1` (so `hps` in `probit_load_scale_of` cannot be dropped) -/
theorem probit_load_scale_degenerate (Q : ℝ → ℝ) {c : ℝ} (hc : 0 < c) (d : List (Test ℝ)) (hpos : ∀ t ∈ d, 0 < t.load)
    (h2 : 2 ≤ (levels (infiniteZone (irrelevantRunoutsDropped d))).length)
    (hps0 : (ols (probitPoints Q (infiniteZone (irrelevantRunoutsDropped d)))).1 = 0) :
    (probit Q (scaleLoad c d)).SD = 1 ∧ (probit Q d).SD = 1 := by
  have hird := WoehlerZones.irrelevantRunoutsDropped_scaleLoad hc d
  have hinf := WoehlerZones.infiniteZone_scaleLoad hc (irrelevantRunoutsDropped d)
  have hlev : (levels (infiniteZone (irrelevantRunoutsDropped (scaleLoad c d)))).length
      = (levels (infiniteZone (irrelevantRunoutsDropped d))).length := by
    rw [hird, hinf, levels_scaleLoad hc, List.length_map]
  have hposinf : ∀ t ∈ infiniteZone (irrelevantRunoutsDropped d), 0 < t.load :=
    fun t ht => hpos t (ird_subset d t (infiniteZone_subset _ t ht))
  have hols : (ols (probitPoints Q (infiniteZone (irrelevantRunoutsDropped (scaleLoad c d))))).1 = 0 := by
    rw [hird, hinf, probitPoints_scaleLoad Q hc _ hposinf]
    have := ols_shift_equivariant _ (probitPoints_ne_nil Q h2) (Real.log c / Real.log 10) 0
    simp only [add_zero] at this
    rw [this]
    exact hps0
  rw [probit_regular Q _ (hlev ▸ h2), probit_regular Q _ h2]
  simp only [hols, hps0, div_zero, Real.rpow_zero, and_self]


/-- two mixed levels with the same estimated probability: the probit regression has slope `0` -/
def sampleDeg : List (Test ℝ) := [⟨1, 1, true⟩, ⟨1, 1, false⟩, ⟨2, 1, true⟩, ⟨2, 1, false⟩]

theorem sampleDeg_ird : irrelevantRunoutsDropped sampleDeg = sampleDeg := by
  norm_num [sampleDeg, irrelevantRunoutsDropped, fractures, runouts, eqα]

theorem sampleDeg_inf : infiniteZone sampleDeg = sampleDeg := by
  norm_num [sampleDeg, infiniteZone, runouts, maxRunoutLoad, maxOf]

theorem sampleDeg_levels : levels sampleDeg = [1, 2] := by
  norm_num [sampleDeg, levels, sort, insertSorted, dedup, eqα]

theorem sampleDeg_points (Q : ℝ → ℝ) :
    probitPoints Q sampleDeg = [(0, Q (2 / 7)), (Real.log 2 / Real.log 10, Q (2 / 7))] := by
  rw [probitPoints_eq, sampleDeg_levels]
  norm_num [sampleDeg, eqα, probitProb, fractures, runouts, lenα_eq]

theorem sampleDeg_slope (Q : ℝ → ℝ) : (ols (probitPoints Q sampleDeg)).1 = 0 := by
  have hx : 0 < Real.log 2 / Real.log 10 := div_pos (Real.log_pos (by norm_num)) (Real.log_pos (by norm_num))
  rw [sampleDeg_points, ols_collinear _ (Q (2 / 7)) 0]
  · intro p hp
    simp only [List.mem_cons, List.not_mem_nil, or_false] at hp
    rcases hp with rfl | rfl <;> simp
  · exact ⟨_, List.mem_cons_self, _, List.mem_cons_of_mem _ List.mem_cons_self, by simpa using hx.ne⟩

/-- `probit_load_scale` without `hps` is false (for every `Q`): counterexample `sampleDeg`, `c = 2` -/
theorem probit_load_scale_counterexample (Q : ℝ → ℝ) :
    (∀ t ∈ sampleDeg, 0 < t.load) ∧ (probit Q (scaleLoad 2 sampleDeg)).SD ≠ 2 * (probit Q sampleDeg).SD := by
  have hpos : ∀ t ∈ sampleDeg, 0 < t.load := by norm_num [sampleDeg]
  refine ⟨hpos, ?_⟩
  have h := probit_load_scale_degenerate Q (c := 2) (by norm_num) sampleDeg hpos
    (by rw [sampleDeg_ird, sampleDeg_inf, sampleDeg_levels]; simp)
    (by rw [sampleDeg_ird, sampleDeg_inf]; exact sampleDeg_slope Q)
  rw [h.1, h.2]
  norm_num


/-! ### non-vacuity: a sample in the regular branch with non-zero probit slope (`Q = id`) -/

/-- sample data: a pure run-out level, a mixed level, a fractured level above -/
def sample : List (Test ℝ) := [⟨1, 1, false⟩, ⟨2, 1, true⟩, ⟨2, 1, false⟩, ⟨3, 1, true⟩]

/-- its infinite zone -/
def sampleInf : List (Test ℝ) := [⟨1, 1, false⟩, ⟨2, 1, true⟩, ⟨2, 1, false⟩]

theorem sample_ird : irrelevantRunoutsDropped sample = sample := by
  norm_num [sample, irrelevantRunoutsDropped, fractures, runouts, eqα]

theorem sample_inf : infiniteZone sample = sampleInf := by
  norm_num [sample, sampleInf, infiniteZone, runouts, maxRunoutLoad, maxOf]

theorem sample_ff : (finiteZone sample).filter (fun t => t.fracture) = [⟨3, 1, true⟩] := by
  norm_num [sample, finiteZone, fractures, runouts, maxRunoutLoad, maxOf]

theorem sample_levels : levels sampleInf = [1, 2] := by
  norm_num [sampleInf, levels, sort, insertSorted, dedup, eqα]

theorem sample_points : probitPoints id sampleInf = [(0, 1 / 2), (Real.log 2 / Real.log 10, 2 / 7)] := by
  rw [probitPoints_eq, sample_levels]
  norm_num [sampleInf, eqα, probitProb, fractures, runouts, lenα_eq]

theorem sample_slope : (ols (probitPoints id sampleInf)).1 ≠ 0 := by
  have hx : 0 < Real.log 2 / Real.log 10 := div_pos (Real.log_pos (by norm_num)) (Real.log_pos (by norm_num))
  rw [sample_points, ols_collinear _ (1 / 2) ((2 / 7 - 1 / 2) / (Real.log 2 / Real.log 10))]
  · simp only
    exact div_ne_zero (by norm_num) hx.ne'
  · intro p hp
    simp only [List.mem_cons, List.not_mem_nil, or_false] at hp
    rcases hp with rfl | rfl
    · simp
    · simp only; field_simp; norm_num
  · exact ⟨_, List.mem_cons_self, _, List.mem_cons_of_mem _ List.mem_cons_self, by simpa using hx.ne⟩

/-- the hypotheses of `probit_load_scale` and `probit_cycle_scale` hold on the sample, in the regular branch -/
example :
    (∀ t ∈ sample, 0 < t.load) ∧ (∀ t ∈ sample, 0 < t.cycles) ∧
    2 ≤ (levels (infiniteZone (irrelevantRunoutsDropped sample))).length ∧
    (ols (probitPoints id (infiniteZone (irrelevantRunoutsDropped sample)))).1 ≠ 0 ∧
    (finiteZone (irrelevantRunoutsDropped sample)).filter (fun t => t.fracture) ≠ [] := by
  rw [sample_ird, sample_inf, sample_ff, sample_levels]
  refine ⟨?_, ?_, by simp, sample_slope, by simp⟩ <;> norm_num [sample]


end PylifeVerif.WoehlerProbit
