/-
C18 (Wöhler analysis): the maximum-likelihood pipelines `maxLikeInf` / `maxLikeFull` of `Model/WoehlerAnalysis.lean`
over ℝ, for an ARBITRARY optimiser `opt`.

Key idea: the objective handed to the optimiser for the transformed data set (loads scaled, cycles scaled, rows permuted)
is THE SAME FUNCTION as for the original data set (`maxLikeInfObjective_*`, `maxLikeFullObjective_*`, proved by `funext`),
hence `opt` returns the same point whatever `opt` is; the equivariance of the reported curve follows from the
post-processing.  Further: `fewMixedLevels` invariance, positivity of the automatic transition, "never worse than the
start" under the assumed contract `NeverWorseThan` / `NeverWorseThanFrom` of `fmin`, the zones of run-out-topped data, and
`k_1` of Probit / MaxLikeInf = `k_1` of Elementary.

`maxLikeFull` takes a TWO-argument optimiser `opt f x₀` (objective, start vector); the start vector `fullStart wc` (ones, zero
where the elementary start value is zero) is itself invariant under the three transformations (`fullStart_*`), and the
optimiser's vector is multiplied by `relScale` of the elementary start values.
-/
import Proofs.Lemmas.WoehlerBasics
import Proofs.Lemmas.WoehlerZones
import Proofs.Lemmas.WoehlerElementary
import Proofs.Lemmas.WoehlerProbit

namespace PylifeVerif.WoehlerMaxLike
open PylifeVerif.WoehlerAnalysis

theorem maxLikeInf_eq (Q Φ : ℝ → ℝ) (opt : (ℝ × ℝ → Option ℝ) → ℝ × ℝ) (d0 : List (Test ℝ)) :
    maxLikeInf Q Φ opt d0 =
      { k1 := (elementary Q d0).k1
        ND := transitionCycles (fitSlope (irrelevantRunoutsDropped d0)).1 (fitSlope (irrelevantRunoutsDropped d0)).2
          ((opt (maxLikeInfObjective Φ (irrelevantRunoutsDropped d0))).1 * transition (irrelevantRunoutsDropped d0))
        SD := (opt (maxLikeInfObjective Φ (irrelevantRunoutsDropped d0))).1 * transition (irrelevantRunoutsDropped d0)
        TN := (elementary Q d0).TN
        TS := (opt (maxLikeInfObjective Φ (irrelevantRunoutsDropped d0))).2 * 1.2 } := rfl

theorem likInfinite_scaleLoad' (Φ : ℝ → ℝ) {c : ℝ} (hc : 0 < c) (SD : ℝ) (d : List (Test ℝ)) (TS : ℝ) :
    likInfinite Φ (scaleLoad c d) (c * SD) TS = likInfinite Φ d SD TS := by
  have key : (infiniteZone (scaleLoad c d)).map (infFactor Φ (c * SD) TS) = (infiniteZone d).map (infFactor Φ SD TS) := by
    rw [WoehlerZones.infiniteZone_scaleLoad hc, scaleLoad, List.map_map]
    exact List.map_congr_left fun t _ => WoehlerZones.infFactor_scaleLoad Φ hc.ne' SD TS t
  simp only [likInfinite, key]

theorem maxLikeInfObjective_scaleLoad (Φ : ℝ → ℝ) {c : ℝ} (hc : 0 < c) (d : List (Test ℝ)) :
    maxLikeInfObjective Φ (irrelevantRunoutsDropped (scaleLoad c d)) = maxLikeInfObjective Φ (irrelevantRunoutsDropped d) := by
  funext p
  unfold maxLikeInfObjective
  rw [WoehlerZones.irrelevantRunoutsDropped_scaleLoad hc, WoehlerZones.transition_scaleLoad hc,
    show p.1 * (c * transition (irrelevantRunoutsDropped d)) = c * (p.1 * transition (irrelevantRunoutsDropped d)) by ring]
  exact likInfinite_scaleLoad' Φ hc _ _ _

theorem maxLikeInfObjective_scaleCycles (Φ : ℝ → ℝ) (c : ℝ) (d : List (Test ℝ)) :
    maxLikeInfObjective Φ (irrelevantRunoutsDropped (scaleCycles c d)) = maxLikeInfObjective Φ (irrelevantRunoutsDropped d) := by
  funext p
  unfold maxLikeInfObjective
  rw [WoehlerZones.irrelevantRunoutsDropped_scaleCycles, WoehlerZones.transition_scaleCycles,
    WoehlerZones.likInfinite_scaleCycles]

theorem maxLikeInfObjective_perm (Φ : ℝ → ℝ) {d₁ d₂ : List (Test ℝ)} (h : d₁.Perm d₂) :
    maxLikeInfObjective Φ (irrelevantRunoutsDropped d₁) = maxLikeInfObjective Φ (irrelevantRunoutsDropped d₂) := by
  funext p
  unfold maxLikeInfObjective
  have hp := WoehlerZones.irrelevantRunoutsDropped_perm h
  rw [WoehlerZones.transition_perm hp]
  exact WoehlerZones.likInfinite_perm Φ hp _ _

/-- load scaling, for EVERY optimiser `opt` -/
theorem maxLikeInf_load_scale (Q Φ : ℝ → ℝ) (opt : (ℝ × ℝ → Option ℝ) → ℝ × ℝ) {c : ℝ} (hc : 0 < c)
    (d : List (Test ℝ)) (hpos : ∀ t ∈ d, 0 < t.load) :
    (maxLikeInf Q Φ opt (scaleLoad c d)).SD = c * (maxLikeInf Q Φ opt d).SD ∧
    (maxLikeInf Q Φ opt (scaleLoad c d)).TS = (maxLikeInf Q Φ opt d).TS ∧
    (maxLikeInf Q Φ opt (scaleLoad c d)).k1 = (maxLikeInf Q Φ opt d).k1 ∧
    (maxLikeInf Q Φ opt (scaleLoad c d)).TN = (maxLikeInf Q Φ opt d).TN ∧
    ((maxLikeInf Q Φ opt d).SD ≠ 0 → (maxLikeInf Q Φ opt (scaleLoad c d)).ND = (maxLikeInf Q Φ opt d).ND) := by
  have hel := WoehlerElementary.elementary_load_scale Q hc d hpos
  have hpos' : ∀ t ∈ irrelevantRunoutsDropped d, 0 < t.load := fun t ht => hpos t (WoehlerProbit.ird_subset d t ht)
  simp only [maxLikeInf_eq, maxLikeInfObjective_scaleLoad Φ hc d]
  rw [WoehlerZones.irrelevantRunoutsDropped_scaleLoad hc, WoehlerZones.transition_scaleLoad hc,
    WoehlerElementary.fitSlope_scaleLoad hc _ hpos']
  refine ⟨by ring, trivial, hel.1, hel.2.2.1, fun h => ?_⟩
  rw [show (opt (maxLikeInfObjective Φ (irrelevantRunoutsDropped d))).1 * (c * transition (irrelevantRunoutsDropped d))
    = c * ((opt (maxLikeInfObjective Φ (irrelevantRunoutsDropped d))).1 * transition (irrelevantRunoutsDropped d)) by ring]
  exact WoehlerElementary.transitionCycles_scaleLoad hc.ne' h _ _

theorem maxLikeInf_cycle_scale (Q Φ : ℝ → ℝ) (opt : (ℝ × ℝ → Option ℝ) → ℝ × ℝ) {c : ℝ} (hc : 0 < c)
    (d : List (Test ℝ)) (hpos : ∀ t ∈ d, 0 < t.cycles) (hload : ∀ t ∈ d, 0 < t.load)
    (hne : (finiteZone (irrelevantRunoutsDropped d)).filter (·.fracture) ≠ []) :
    (maxLikeInf Q Φ opt (scaleCycles c d)).k1 = (maxLikeInf Q Φ opt d).k1 ∧
    (maxLikeInf Q Φ opt (scaleCycles c d)).ND = c * (maxLikeInf Q Φ opt d).ND ∧
    (maxLikeInf Q Φ opt (scaleCycles c d)).SD = (maxLikeInf Q Φ opt d).SD ∧
    (maxLikeInf Q Φ opt (scaleCycles c d)).TN = (maxLikeInf Q Φ opt d).TN ∧
    (maxLikeInf Q Φ opt (scaleCycles c d)).TS = (maxLikeInf Q Φ opt d).TS := by
  have hel := WoehlerElementary.elementary_cycle_scale Q hc d hpos hload hne
  have hpos' : ∀ t ∈ irrelevantRunoutsDropped d, 0 < t.cycles := fun t ht => hpos t (WoehlerProbit.ird_subset d t ht)
  simp only [maxLikeInf_eq, maxLikeInfObjective_scaleCycles Φ c d]
  rw [WoehlerZones.irrelevantRunoutsDropped_scaleCycles, WoehlerZones.transition_scaleCycles,
    WoehlerElementary.fitSlope_scaleCycles hc _ hpos' hne]
  exact ⟨hel.1, WoehlerElementary.transitionCycles_scaleCycles hc _ _ _, rfl, hel.2.2.2.1, trivial⟩

theorem maxLikeInf_cycle_scale_SD_TS (Q Φ : ℝ → ℝ) (opt : (ℝ × ℝ → Option ℝ) → ℝ × ℝ) (c : ℝ) (d : List (Test ℝ)) :
    (maxLikeInf Q Φ opt (scaleCycles c d)).SD = (maxLikeInf Q Φ opt d).SD ∧
    (maxLikeInf Q Φ opt (scaleCycles c d)).TS = (maxLikeInf Q Φ opt d).TS := by
  simp only [maxLikeInf_eq, maxLikeInfObjective_scaleCycles Φ c d]
  rw [WoehlerZones.irrelevantRunoutsDropped_scaleCycles, WoehlerZones.transition_scaleCycles]
  exact ⟨rfl, trivial⟩

theorem maxLikeInf_perm (Q Φ : ℝ → ℝ) (opt : (ℝ × ℝ → Option ℝ) → ℝ × ℝ) {d₁ d₂ : List (Test ℝ)} (h : d₁.Perm d₂) :
    maxLikeInf Q Φ opt d₁ = maxLikeInf Q Φ opt d₂ := by
  have hp := WoehlerZones.irrelevantRunoutsDropped_perm h
  rw [maxLikeInf_eq, maxLikeInf_eq, maxLikeInfObjective_perm Φ h, WoehlerElementary.elementary_perm_invariant Q h,
    WoehlerZones.transition_perm hp, WoehlerElementary.fitSlope_perm hp]

theorem maxLikeInf_k1 (Q Φ : ℝ → ℝ) (opt : (ℝ × ℝ → Option ℝ) → ℝ × ℝ) (d : List (Test ℝ)) :
    (maxLikeInf Q Φ opt d).k1 = (elementary Q d).k1 := rfl

theorem probit_k1 (Q : ℝ → ℝ) (d : List (Test ℝ)) : (probit Q d).k1 = (elementary Q d).k1 := by
  by_cases h : 2 ≤ (levels (infiniteZone (irrelevantRunoutsDropped d))).length
  · rw [WoehlerProbit.probit_regular Q d h]
  · rw [WoehlerProbit.probit_fallback Q d (by omega)]


theorem isMixedLoad_scaleLoad {c : ℝ} (hc : 0 < c) (d : List (Test ℝ)) (L : ℝ) :
    isMixedLoad (scaleLoad c d) (c * L) = isMixedLoad d L := by
  unfold isMixedLoad
  rw [WoehlerZones.fractures_scaleLoad, WoehlerZones.runouts_scaleLoad]
  simp only [scaleLoad, List.any_map, Function.comp_def, WoehlerZones.eqα_scale hc]

theorem isMixedLoad_scaleCycles (c : ℝ) (d : List (Test ℝ)) (L : ℝ) :
    isMixedLoad (scaleCycles c d) L = isMixedLoad d L := by
  unfold isMixedLoad
  rw [WoehlerZones.fractures_scaleCycles, WoehlerZones.runouts_scaleCycles]
  simp only [scaleCycles, List.any_map, Function.comp_def]

theorem isMixedLoad_perm {d₁ d₂ : List (Test ℝ)} (h : d₁.Perm d₂) (L : ℝ) :
    isMixedLoad d₁ L = isMixedLoad d₂ L := by
  unfold isMixedLoad
  rw [(WoehlerZones.fractures_perm h).any_eq, (WoehlerZones.runouts_perm h).any_eq]

theorem all_all_scaleLoad (c : ℝ) (e : List (Test ℝ)) (F : ℝ → ℝ → Bool) :
    ((scaleLoad c e).all fun t => (scaleLoad c e).all fun u => F t.load u.load)
      = e.all fun t => e.all fun u => F (c * t.load) (c * u.load) := by
  simp only [scaleLoad, List.all_map, Function.comp_def]

theorem all_all_scaleCycles (c : ℝ) (e : List (Test ℝ)) (F : ℝ → ℝ → Bool) :
    ((scaleCycles c e).all fun t => (scaleCycles c e).all fun u => F t.load u.load)
      = e.all fun t => e.all fun u => F t.load u.load := by
  simp only [scaleCycles, List.all_map, Function.comp_def]

theorem fewMixedLevels_scaleLoad {c : ℝ} (hc : 0 < c) (d : List (Test ℝ)) :
    fewMixedLevels (scaleLoad c d) = fewMixedLevels d := by
  unfold fewMixedLevels
  rw [all_all_scaleLoad c d (fun a b => !(isMixedLoad (scaleLoad c d) a && isMixedLoad (scaleLoad c d) b) || eqα a b)]
  simp only [isMixedLoad_scaleLoad hc, WoehlerZones.eqα_scale hc]

theorem fewMixedLevels_scaleCycles (c : ℝ) (d : List (Test ℝ)) : fewMixedLevels (scaleCycles c d) = fewMixedLevels d := by
  unfold fewMixedLevels
  rw [all_all_scaleCycles c d (fun a b => !(isMixedLoad (scaleCycles c d) a && isMixedLoad (scaleCycles c d) b) || eqα a b)]
  simp only [isMixedLoad_scaleCycles]

theorem fewMixedLevels_perm {d₁ d₂ : List (Test ℝ)} (h : d₁.Perm d₂) : fewMixedLevels d₁ = fewMixedLevels d₂ := by
  unfold fewMixedLevels
  simp only [isMixedLoad_perm h]
  rw [h.all_eq]
  congr 1
  funext t
  rw [h.all_eq]

/-- with run-outs and positive loads the automatic transition is positive -/
theorem transition_pos (d : List (Test ℝ)) (hr : runouts d ≠ []) (hpos : ∀ t ∈ d, 0 < t.load) : 0 < transition d := by
  have hposl : ∀ x ∈ d.map (·.load), 0 < x := by
    intro x hx; obtain ⟨t, ht, rfl⟩ := List.mem_map.1 hx; exact hpos t ht
  rw [WoehlerZones.transition_eq, if_neg hr]
  split_ifs with hf
  · -- guess
    have hdne : d.map (·.load) ≠ [] := by
      intro e; rw [List.map_eq_nil_iff] at e; subst e; exact hr rfl
    have hm := hposl _ (WoehlerZones.maxL_mem hdne)
    unfold WoehlerZones.guessL
    rw [if_neg hdne]
    split_ifs with hfil
    · exact hm
    · have h1 := WoehlerZones.maxL_mem hfil
      have h2 : WoehlerZones.maxL ((d.map (·.load)).filter fun x => decide (x < WoehlerZones.maxL (d.map (·.load))))
          < WoehlerZones.maxL (d.map (·.load)) := by
        simpa using (List.mem_filter.1 h1).2
      linarith
  · have h1 : 0 < WoehlerZones.minL ((finiteZone d).map (·.load)) := by
      have := WoehlerZones.minL_mem (l := (finiteZone d).map (·.load)) (by simpa using hf)
      obtain ⟨t, ht, he⟩ := List.mem_map.1 this
      rw [← he]; exact hpos t (WoehlerProbit.finiteZone_subset d t ht)
    have h2 : 0 < maxRunoutLoad d := by
      rw [WoehlerZones.maxRunoutLoad_eq]
      have := WoehlerZones.maxL_mem (l := (runouts d).map (·.load)) (by simpa using hr)
      obtain ⟨t, ht, he⟩ := List.mem_map.1 this
      rw [← he]; exact hpos t (WoehlerZones.mem_runouts.1 ht).1
    linarith

/-- dropping irrelevant run-outs never removes the last run-out -/
theorem runouts_ird_ne_nil (d : List (Test ℝ)) (hr : runouts d ≠ []) : runouts (irrelevantRunoutsDropped d) ≠ [] := by
  have hspec := WoehlerZones.irrelevantRunoutsDropped_spec d
  dsimp only at hspec
  by_cases hD : WoehlerZones.Drop (WoehlerZones.pureLevels ((runouts d).map (·.load)) ((fractures d).map (·.load)))
      ((fractures d).map (·.load))
  · rw [hspec.1 hD]
    have hm := WoehlerZones.maxL_mem hD.1
    unfold WoehlerZones.pureLevels at hm
    obtain ⟨t, ht, he⟩ := List.mem_map.1 (List.mem_filter.1 hm).1
    have ht' := WoehlerZones.mem_runouts.1 ht
    refine List.ne_nil_of_mem (a := t) (WoehlerZones.mem_runouts.2 ⟨List.mem_filter.2 ⟨ht'.1, ?_⟩, ht'.2⟩)
    simp only [Bool.not_eq_eq_eq_not, Bool.not_true, decide_eq_false_iff_not, not_lt]
    exact he.ge
  · rw [hspec.2 hD]; exact hr

theorem zones_partition_runout_topped (d : List (Test ℝ)) (hr : runouts d ≠ []) (hf : finiteZone d = [])
    (h2 : ∃ t ∈ d, ∃ u ∈ d, t.load ≠ u.load) :
    infiniteZone d = d ∧ ∀ t ∈ d, t.load < transition d := by
  constructor
  · have hp := WoehlerZones.zones_perm d
    rw [hf, List.nil_append] at hp
    rw [WoehlerZones.infiniteZone_of_runouts hr] at hp ⊢
    exact List.filter_eq_self.2 fun t ht => by
      have := hp.mem_iff.2 ht
      exact (List.mem_filter.1 this).2
  · rw [WoehlerZones.transition_eq, if_neg hr, if_pos hf]
    obtain ⟨t, ht, u, hu, htu⟩ := h2
    have hdne : d.map (·.load) ≠ [] := List.ne_nil_of_mem (List.mem_map.2 ⟨t, ht, rfl⟩)
    have htm : t.load ≤ WoehlerZones.maxL (d.map (·.load)) := WoehlerZones.le_maxL (List.mem_map.2 ⟨t, ht, rfl⟩)
    have hum : u.load ≤ WoehlerZones.maxL (d.map (·.load)) := WoehlerZones.le_maxL (List.mem_map.2 ⟨u, hu, rfl⟩)
    have hfil : (d.map (·.load)).filter (fun x => decide (x < WoehlerZones.maxL (d.map (·.load)))) ≠ [] := by
      rcases lt_or_eq_of_le htm with h | h
      · exact List.ne_nil_of_mem (List.mem_filter.2 ⟨List.mem_map.2 ⟨t, ht, rfl⟩, by simpa using h⟩)
      · rcases lt_or_eq_of_le hum with h' | h'
        · exact List.ne_nil_of_mem (List.mem_filter.2 ⟨List.mem_map.2 ⟨u, hu, rfl⟩, by simpa using h'⟩)
        · exact absurd (h.trans h'.symm) htu
    unfold WoehlerZones.guessL
    rw [if_neg hdne, if_neg hfil]
    have h1 := WoehlerZones.maxL_mem hfil
    have h3 : WoehlerZones.maxL ((d.map (·.load)).filter fun x => decide (x < WoehlerZones.maxL (d.map (·.load))))
        < WoehlerZones.maxL (d.map (·.load)) := by
      simpa using (List.mem_filter.1 h1).2
    intro s hs
    have := WoehlerZones.le_maxL (List.mem_map.2 ⟨s, hs, rfl⟩ : s.load ∈ d.map (·.load))
    linarith

/-! helpers -/

theorem likTotal_none_of_SD (Φ : ℝ → ℝ) (d : List (Test ℝ)) (cv : Curve ℝ) (h : ¬ 0 < cv.SD) :
    likTotal Φ d cv = none := by
  simp only [likTotal, likFinite, WoehlerZones.lit0, if_neg h]

theorem runouts_isEmpty_scaleLoad (c : ℝ) (d : List (Test ℝ)) :
    (runouts (scaleLoad c d)).isEmpty = (runouts d).isEmpty := by
  rw [WoehlerZones.runouts_scaleLoad]; simp [scaleLoad]

theorem runouts_isEmpty_scaleCycles (c : ℝ) (d : List (Test ℝ)) :
    (runouts (scaleCycles c d)).isEmpty = (runouts d).isEmpty := by
  rw [WoehlerZones.runouts_scaleCycles]; simp [scaleCycles]

theorem runouts_isEmpty_perm {d₁ d₂ : List (Test ℝ)} (h : d₁.Perm d₂) :
    (runouts d₁).isEmpty = (runouts d₂).isEmpty := by
  rw [Bool.eq_iff_iff, List.isEmpty_iff, List.isEmpty_iff]
  exact WoehlerZones.perm_nil_iff (WoehlerZones.runouts_perm h)

theorem abs_scale {c : ℝ} (hc : 0 < c) (a b : ℝ) : |a * (c * b)| = c * |a * b| := by
  rw [show a * (c * b) = c * (a * b) by ring, abs_mul, abs_of_pos hc]

/-! ### `relScale`, `fullStart` -/

theorem relScale_eq (s : ℝ) : relScale s = if s = 0 then 1 else s := by
  unfold relScale
  by_cases h : s = 0
  · rw [if_pos h, if_pos ((WoehlerZones.eqα_iff _ _).2 (by rw [h, WoehlerZones.lit0])), WoehlerZones.lit1]
  · rw [if_neg h, if_neg]
    rw [WoehlerZones.eqα_iff, WoehlerZones.lit0]; exact h

theorem relScale_of_ne {s : ℝ} (h : s ≠ 0) : relScale s = s := by rw [relScale_eq, if_neg h]

theorem relScale_zero : relScale (0 : ℝ) = 1 := by rw [relScale_eq, if_pos rfl]

theorem relScale_ne_zero (s : ℝ) : relScale s ≠ 0 := by
  rw [relScale_eq]
  split_ifs with h
  · exact one_ne_zero
  · exact h

/-- the scale of a scaled NON-ZERO start value -/
theorem relScale_scale {c : ℝ} (hc : c ≠ 0) {s : ℝ} (hs : s ≠ 0) : relScale (c * s) = c * relScale s := by
  rw [relScale_of_ne (mul_ne_zero hc hs), relScale_of_ne hs]

/-- a component of the start vector does not see a scaling of the start value (also for a zero start value) -/
theorem div_relScale_scale {c : ℝ} (hc : c ≠ 0) (s : ℝ) : (c * s) / relScale (c * s) = s / relScale s := by
  by_cases hs : s = 0
  · subst hs; simp
  · rw [relScale_scale hc hs, mul_div_mul_left _ _ hc]

theorem div_relScale_of_ne {s : ℝ} (h : s ≠ 0) : s / relScale s = 1 := by rw [relScale_of_ne h, div_self h]

theorem div_mul_relScale (s : ℝ) : s / relScale s * relScale s = s := div_mul_cancel₀ _ (relScale_ne_zero s)

/-- `ND` of the elementary analysis is a power of ten, hence positive -/
theorem elementaryCore_ND_pos (Q : ℝ → ℝ) (d : List (Test ℝ)) : 0 < (elementaryCore Q d).ND := by
  rw [WoehlerElementary.elementaryCore_eq]
  unfold transitionCycles
  simp only [transc_pow]
  exact Real.rpow_pos_of_pos (by norm_num) _

theorem fullParams_scaleLoad {c : ℝ} (hc : 0 < c) (d : List (Test ℝ)) (wc wc' rel : Curve ℝ)
    (hk : wc'.k1 = wc.k1) (hN : wc'.ND = wc.ND) (hS : wc'.SD = c * wc.SD) (hS0 : wc.SD ≠ 0)
    (hTN : wc'.TN = wc.TN) (hTS : wc'.TS = wc.TS) :
    fullParams (scaleLoad c d) wc' rel = { fullParams d wc rel with SD := c * (fullParams d wc rel).SD } := by
  unfold fullParams
  simp only [runouts_isEmpty_scaleLoad, fewMixedLevels_scaleLoad hc, hk, hN, hS, hTN, hTS, relScale_scale hc.ne' hS0,
    transc_abs, Curve.mk.injEq, true_and, and_true]
  split_ifs
  · simp [WoehlerZones.lit0]
  · exact abs_scale hc _ _

theorem fullParams_scaleCycles {c : ℝ} (hc : 0 < c) (d : List (Test ℝ)) (wc wc' rel : Curve ℝ)
    (hk : wc'.k1 = wc.k1) (hN : wc'.ND = c * wc.ND) (hN0 : wc.ND ≠ 0) (hS : wc'.SD = wc.SD)
    (hTN : wc'.TN = wc.TN) (hTS : wc'.TS = wc.TS) :
    fullParams (scaleCycles c d) wc' rel = { fullParams d wc rel with ND := c * (fullParams d wc rel).ND } := by
  unfold fullParams
  simp only [runouts_isEmpty_scaleCycles, fewMixedLevels_scaleCycles, hk, hN, hS, hTN, hTS, relScale_scale hc.ne' hN0,
    transc_abs, Curve.mk.injEq, true_and, and_true]
  exact abs_scale hc _ _

theorem fullParams_perm {d₁ d₂ : List (Test ℝ)} (h : d₁.Perm d₂) (wc rel : Curve ℝ) :
    fullParams d₁ wc rel = fullParams d₂ wc rel := by
  unfold fullParams
  simp only [runouts_isEmpty_perm h, fewMixedLevels_perm h]

theorem maxLikeFullObjective_no_runouts (Φ : ℝ → ℝ) (d : List (Test ℝ)) (wc rel : Curve ℝ) (h : runouts d = []) :
    maxLikeFullObjective Φ d wc rel = none := by
  unfold maxLikeFullObjective
  have hSD : ¬ 0 < (fullParams d wc rel).SD := by
    simp [fullParams, h, WoehlerZones.lit0]
  simp only [likTotal_none_of_SD Φ d _ hSD, ite_self]

theorem elementaryCore_SD (Q : ℝ → ℝ) (d : List (Test ℝ)) : (elementaryCore Q d).SD = transition d := rfl

/-- core form on reduced data -/
theorem objFull_scaleLoad_core (Q Φ : ℝ → ℝ) {c : ℝ} (hc : 0 < c) (dd : List (Test ℝ)) (hpos : ∀ t ∈ dd, 0 < t.load) :
    maxLikeFullObjective Φ (scaleLoad c dd) (elementaryCore Q (scaleLoad c dd))
      = maxLikeFullObjective Φ dd (elementaryCore Q dd) := by
  funext rel
  by_cases hr : runouts dd = []
  · rw [maxLikeFullObjective_no_runouts Φ dd _ _ hr,
      maxLikeFullObjective_no_runouts Φ _ _ _ (by rw [WoehlerZones.runouts_scaleLoad, hr]; rfl)]
  · have hSD : (elementaryCore Q dd).SD ≠ 0 := by
      rw [elementaryCore_SD]; exact (transition_pos dd hr hpos).ne'
    obtain ⟨h1, h2, h3, h4, h5⟩ := WoehlerElementary.elementaryCore_load_scale Q hc dd hpos
    unfold maxLikeFullObjective
    simp only [fullParams_scaleLoad hc dd (elementaryCore Q dd) _ rel h1 (h5 hSD) h2 hSD h3 h4]
    by_cases hS : 0 < (fullParams dd (elementaryCore Q dd) rel).SD
    · rw [WoehlerZones.likTotal_scaleLoad Φ hc dd _ hS]
    · have hS' : ¬ 0 < c * (fullParams dd (elementaryCore Q dd) rel).SD := by
        intro h; exact hS (pos_of_mul_pos_right h hc.le)
      rw [likTotal_none_of_SD Φ dd _ hS, likTotal_none_of_SD Φ _ _ hS']

theorem objFull_scaleCycles_core (Q Φ : ℝ → ℝ) {c : ℝ} (hc : 0 < c) (dd : List (Test ℝ))
    (hpos : ∀ t ∈ dd, 0 < t.cycles) (hload : ∀ t ∈ dd, 0 < t.load)
    (hne : (finiteZone dd).filter (·.fracture) ≠ []) :
    maxLikeFullObjective Φ (scaleCycles c dd) (elementaryCore Q (scaleCycles c dd))
      = maxLikeFullObjective Φ dd (elementaryCore Q dd) := by
  funext rel
  obtain ⟨h1, h2, h3, h4, h5⟩ := WoehlerElementary.elementaryCore_cycle_scale Q hc dd hpos hload hne
  unfold maxLikeFullObjective
  simp only [fullParams_scaleCycles hc dd (elementaryCore Q dd) _ rel h1 h2 (elementaryCore_ND_pos Q dd).ne' h3 h4 h5,
    WoehlerZones.lit0]
  by_cases hN : 0 < (fullParams dd (elementaryCore Q dd) rel).ND
  · rw [if_pos hN, if_pos (mul_pos hc hN)]
    by_cases hS : 0 < (fullParams dd (elementaryCore Q dd) rel).SD
    · exact WoehlerZones.likTotal_scaleCycles Φ hc dd _ hS hN (fun t ht => ⟨hload t ht, hpos t ht⟩)
    · rw [likTotal_none_of_SD Φ dd _ hS]; exact likTotal_none_of_SD Φ _ _ hS
  · rw [if_neg hN, if_neg (fun h => hN (pos_of_mul_pos_right h hc.le))]


theorem maxLikeFullObjective_scaleLoad (Q Φ : ℝ → ℝ) {c : ℝ} (hc : 0 < c) (d : List (Test ℝ)) (hpos : ∀ t ∈ d, 0 < t.load) :
    maxLikeFullObjective Φ (irrelevantRunoutsDropped (scaleLoad c d)) (elementaryCore Q (irrelevantRunoutsDropped (scaleLoad c d)))
      = maxLikeFullObjective Φ (irrelevantRunoutsDropped d) (elementaryCore Q (irrelevantRunoutsDropped d)) := by
  rw [WoehlerZones.irrelevantRunoutsDropped_scaleLoad hc]
  exact objFull_scaleLoad_core Q Φ hc _ (fun t ht => hpos t (WoehlerProbit.ird_subset d t ht))

theorem maxLikeFullObjective_scaleCycles (Q Φ : ℝ → ℝ) {c : ℝ} (hc : 0 < c) (d : List (Test ℝ))
    (hpos : ∀ t ∈ d, 0 < t.cycles) (hload : ∀ t ∈ d, 0 < t.load)
    (hne : (finiteZone (irrelevantRunoutsDropped d)).filter (·.fracture) ≠ []) :
    maxLikeFullObjective Φ (irrelevantRunoutsDropped (scaleCycles c d)) (elementaryCore Q (irrelevantRunoutsDropped (scaleCycles c d)))
      = maxLikeFullObjective Φ (irrelevantRunoutsDropped d) (elementaryCore Q (irrelevantRunoutsDropped d)) := by
  rw [WoehlerZones.irrelevantRunoutsDropped_scaleCycles]
  exact objFull_scaleCycles_core Q Φ hc _ (fun t ht => hpos t (WoehlerProbit.ird_subset d t ht))
    (fun t ht => hload t (WoehlerProbit.ird_subset d t ht)) hne

theorem maxLikeFullObjective_perm (Q Φ : ℝ → ℝ) {d₁ d₂ : List (Test ℝ)} (h : d₁.Perm d₂) :
    maxLikeFullObjective Φ (irrelevantRunoutsDropped d₁) (elementaryCore Q (irrelevantRunoutsDropped d₁))
      = maxLikeFullObjective Φ (irrelevantRunoutsDropped d₂) (elementaryCore Q (irrelevantRunoutsDropped d₂)) := by
  have hp := WoehlerZones.irrelevantRunoutsDropped_perm h
  funext rel
  unfold maxLikeFullObjective
  simp only [WoehlerElementary.elementaryCore_perm_invariant Q hp, fullParams_perm hp, WoehlerZones.likTotal_perm Φ hp]

/-! ### the start vector is invariant -/

theorem fullStart_scaleLoad_core (Q : ℝ → ℝ) {c : ℝ} (hc : 0 < c) (dd : List (Test ℝ)) (hpos : ∀ t ∈ dd, 0 < t.load) :
    fullStart (elementaryCore Q (scaleLoad c dd)) = fullStart (elementaryCore Q dd) := by
  obtain ⟨h1, h2, h3, h4, _⟩ := WoehlerElementary.elementaryCore_load_scale Q hc dd hpos
  unfold fullStart
  rw [h1, h2, h3, h4, div_relScale_scale hc.ne', div_relScale_of_ne (elementaryCore_ND_pos Q _).ne',
    div_relScale_of_ne (elementaryCore_ND_pos Q dd).ne']

theorem fullStart_scaleCycles_core (Q : ℝ → ℝ) {c : ℝ} (hc : 0 < c) (dd : List (Test ℝ))
    (hpos : ∀ t ∈ dd, 0 < t.cycles) (hload : ∀ t ∈ dd, 0 < t.load)
    (hne : (finiteZone dd).filter (·.fracture) ≠ []) :
    fullStart (elementaryCore Q (scaleCycles c dd)) = fullStart (elementaryCore Q dd) := by
  obtain ⟨h1, h2, h3, h4, h5⟩ := WoehlerElementary.elementaryCore_cycle_scale Q hc dd hpos hload hne
  unfold fullStart
  rw [h1, h2, h3, h4, h5, div_relScale_scale hc.ne']

/-- load scaling leaves the start vector of `MaxLikeFull` unchanged (the elementary `ND` itself need not be invariant when
there is no run-out, but it is a power of ten, so its component of the start vector is 1 either way) -/
theorem fullStart_scaleLoad (Q : ℝ → ℝ) {c : ℝ} (hc : 0 < c) (d : List (Test ℝ)) (hpos : ∀ t ∈ d, 0 < t.load) :
    fullStart (elementaryCore Q (irrelevantRunoutsDropped (scaleLoad c d)))
      = fullStart (elementaryCore Q (irrelevantRunoutsDropped d)) := by
  rw [WoehlerZones.irrelevantRunoutsDropped_scaleLoad hc]
  exact fullStart_scaleLoad_core Q hc _ (fun t ht => hpos t (WoehlerProbit.ird_subset d t ht))

theorem fullStart_scaleCycles (Q : ℝ → ℝ) {c : ℝ} (hc : 0 < c) (d : List (Test ℝ))
    (hpos : ∀ t ∈ d, 0 < t.cycles) (hload : ∀ t ∈ d, 0 < t.load)
    (hne : (finiteZone (irrelevantRunoutsDropped d)).filter (·.fracture) ≠ []) :
    fullStart (elementaryCore Q (irrelevantRunoutsDropped (scaleCycles c d)))
      = fullStart (elementaryCore Q (irrelevantRunoutsDropped d)) := by
  rw [WoehlerZones.irrelevantRunoutsDropped_scaleCycles]
  exact fullStart_scaleCycles_core Q hc _ (fun t ht => hpos t (WoehlerProbit.ird_subset d t ht))
    (fun t ht => hload t (WoehlerProbit.ird_subset d t ht)) hne

theorem fullStart_perm (Q : ℝ → ℝ) {d₁ d₂ : List (Test ℝ)} (h : d₁.Perm d₂) :
    fullStart (elementaryCore Q (irrelevantRunoutsDropped d₁)) = fullStart (elementaryCore Q (irrelevantRunoutsDropped d₂)) := by
  rw [WoehlerElementary.elementaryCore_perm_invariant Q (WoehlerZones.irrelevantRunoutsDropped_perm h)]

theorem maxLikeFull_eq (Q Φ : ℝ → ℝ) (opt : (Curve ℝ → Option ℝ) → Curve ℝ → Curve ℝ) (d : List (Test ℝ)) :
    maxLikeFull Q Φ opt d = fullParams (irrelevantRunoutsDropped d) (elementaryCore Q (irrelevantRunoutsDropped d))
      (opt (maxLikeFullObjective Φ (irrelevantRunoutsDropped d) (elementaryCore Q (irrelevantRunoutsDropped d)))
        (fullStart (elementaryCore Q (irrelevantRunoutsDropped d)))) := rfl

theorem maxLikeFull_load_scale (Q Φ : ℝ → ℝ) (opt : (Curve ℝ → Option ℝ) → Curve ℝ → Curve ℝ) {c : ℝ} (hc : 0 < c)
    (d : List (Test ℝ)) (hpos : ∀ t ∈ d, 0 < t.load) :
    (maxLikeFull Q Φ opt (scaleLoad c d)).SD = c * (maxLikeFull Q Φ opt d).SD ∧
    (maxLikeFull Q Φ opt (scaleLoad c d)).TS = (maxLikeFull Q Φ opt d).TS ∧
    (maxLikeFull Q Φ opt (scaleLoad c d)).k1 = (maxLikeFull Q Φ opt d).k1 ∧
    (maxLikeFull Q Φ opt (scaleLoad c d)).TN = (maxLikeFull Q Φ opt d).TN ∧
    (runouts d ≠ [] → (maxLikeFull Q Φ opt (scaleLoad c d)).ND = (maxLikeFull Q Φ opt d).ND) := by
  have hpos' : ∀ t ∈ irrelevantRunoutsDropped d, 0 < t.load := fun t ht => hpos t (WoehlerProbit.ird_subset d t ht)
  obtain ⟨h1, h2, h3, h4, h5⟩ := WoehlerElementary.elementaryCore_load_scale Q hc _ hpos'
  rw [maxLikeFull_eq, maxLikeFull_eq, maxLikeFullObjective_scaleLoad Q Φ hc d hpos, fullStart_scaleLoad Q hc d hpos,
    WoehlerZones.irrelevantRunoutsDropped_scaleLoad hc]
  generalize opt (maxLikeFullObjective Φ (irrelevantRunoutsDropped d) (elementaryCore Q (irrelevantRunoutsDropped d)))
    (fullStart (elementaryCore Q (irrelevantRunoutsDropped d))) = rel
  refine ⟨?_, ?_, ?_, ?_, fun hr => ?_⟩
  · simp only [fullParams, runouts_isEmpty_scaleLoad, h2, transc_abs]
    split_ifs with he
    · simp [WoehlerZones.lit0]
    · have hSD : (elementaryCore Q (irrelevantRunoutsDropped d)).SD ≠ 0 := by
        rw [elementaryCore_SD]
        exact (transition_pos _ (fun e => he (by rw [e]; rfl)) hpos').ne'
      rw [relScale_scale hc.ne' hSD]
      exact abs_scale hc _ _
  · simp only [fullParams, runouts_isEmpty_scaleLoad, fewMixedLevels_scaleLoad hc, h4]
  · simp only [fullParams, h1]
  · simp only [fullParams, h3]
  · have hSD : (elementaryCore Q (irrelevantRunoutsDropped d)).SD ≠ 0 := by
      rw [elementaryCore_SD]; exact (transition_pos _ (runouts_ird_ne_nil d hr) hpos').ne'
    simp only [fullParams, h5 hSD]

theorem maxLikeFull_cycle_scale (Q Φ : ℝ → ℝ) (opt : (Curve ℝ → Option ℝ) → Curve ℝ → Curve ℝ) {c : ℝ} (hc : 0 < c)
    (d : List (Test ℝ)) (hpos : ∀ t ∈ d, 0 < t.cycles) (hload : ∀ t ∈ d, 0 < t.load)
    (hne : (finiteZone (irrelevantRunoutsDropped d)).filter (·.fracture) ≠ []) :
    (maxLikeFull Q Φ opt (scaleCycles c d)).k1 = (maxLikeFull Q Φ opt d).k1 ∧
    (maxLikeFull Q Φ opt (scaleCycles c d)).ND = c * (maxLikeFull Q Φ opt d).ND ∧
    (maxLikeFull Q Φ opt (scaleCycles c d)).SD = (maxLikeFull Q Φ opt d).SD ∧
    (maxLikeFull Q Φ opt (scaleCycles c d)).TN = (maxLikeFull Q Φ opt d).TN ∧
    (maxLikeFull Q Φ opt (scaleCycles c d)).TS = (maxLikeFull Q Φ opt d).TS := by
  obtain ⟨h1, h2, h3, h4, h5⟩ := WoehlerElementary.elementaryCore_cycle_scale Q hc _
    (fun t ht => hpos t (WoehlerProbit.ird_subset d t ht)) (fun t ht => hload t (WoehlerProbit.ird_subset d t ht)) hne
  rw [maxLikeFull_eq, maxLikeFull_eq, maxLikeFullObjective_scaleCycles Q Φ hc d hpos hload hne,
    fullStart_scaleCycles Q hc d hpos hload hne, WoehlerZones.irrelevantRunoutsDropped_scaleCycles,
    fullParams_scaleCycles hc _ (elementaryCore Q (irrelevantRunoutsDropped d)) _ _ h1 h2
      (elementaryCore_ND_pos Q _).ne' h3 h4 h5]
  exact ⟨rfl, rfl, rfl, rfl, rfl⟩

theorem maxLikeFull_perm (Q Φ : ℝ → ℝ) (opt : (Curve ℝ → Option ℝ) → Curve ℝ → Curve ℝ) {d₁ d₂ : List (Test ℝ)} (h : d₁.Perm d₂) :
    maxLikeFull Q Φ opt d₁ = maxLikeFull Q Φ opt d₂ := by
  have hp := WoehlerZones.irrelevantRunoutsDropped_perm h
  rw [maxLikeFull_eq, maxLikeFull_eq, maxLikeFullObjective_perm Q Φ h, fullStart_perm Q h,
    WoehlerElementary.elementaryCore_perm_invariant Q hp, fullParams_perm hp]

/-! ## not worse than the start -/

/-- order on log-likelihood values with `none` = −∞ (the code's `-np.inf`) -/
def LeLik : Option ℝ → Option ℝ → Prop
  | none, _ => True
  | some _, none => False
  | some a, some b => a ≤ b

/-- The contract ASSUMED of `scipy.optimize.fmin` (Nelder–Mead): the returned point is never worse than the start `x₀`
(the start is a vertex of the initial simplex and the best vertex is kept).  `opt f` maximises `f`. -/
def NeverWorseThan {X : Type} (x₀ : X) (opt : (X → Option ℝ) → X) : Prop :=
  ∀ f : X → Option ℝ, LeLik (f x₀) (f (opt f))

/-- The same contract for an optimiser that is handed its start point (`maxLikeFull`): the returned point is never worse
than the start `x₀`, whatever the objective and the start. -/
def NeverWorseThanFrom {X : Type} (opt : (X → Option ℝ) → X → X) : Prop :=
  ∀ (f : X → Option ℝ) (x₀ : X), LeLik (f x₀) (f (opt f x₀))

/-- start curve = elementary curve when nothing is fixed and the elementary curve has non-negative entries (a zero entry
has start component 0 and scale 1) -/
theorem fullParams_fullStart (d : List (Test ℝ)) (wc : Curve ℝ) (hr : runouts d ≠ []) (hm : fewMixedLevels d = false)
    (h : 0 ≤ wc.k1 ∧ 0 ≤ wc.ND ∧ 0 ≤ wc.SD ∧ 0 ≤ wc.TN ∧ 0 ≤ wc.TS) : fullParams d wc (fullStart wc) = wc := by
  obtain ⟨h1, h2, h3, h4, h5⟩ := h
  have he : (runouts d).isEmpty = false := by
    rw [Bool.eq_false_iff, Ne, List.isEmpty_iff]; exact hr
  cases wc
  simp only [fullParams, fullStart, he, hm, transc_abs, div_mul_relScale, Bool.false_eq_true, if_false, Curve.mk.injEq]
  exact ⟨abs_of_nonneg h1, abs_of_nonneg h2, abs_of_nonneg h3, abs_of_nonneg h4, abs_of_nonneg h5⟩

theorem maxLikeInf_not_worse (Q Φ : ℝ → ℝ) (opt : (ℝ × ℝ → Option ℝ) → ℝ × ℝ) (h : NeverWorseThan ((1 : ℝ), (1 : ℝ)) opt)
    (d : List (Test ℝ)) :
    LeLik (likInfinite Φ (irrelevantRunoutsDropped d) (transition (irrelevantRunoutsDropped d)) 1.2)
      (likInfinite Φ (irrelevantRunoutsDropped d) (maxLikeInf Q Φ opt d).SD (maxLikeInf Q Φ opt d).TS) := by
  have := h (maxLikeInfObjective Φ (irrelevantRunoutsDropped d))
  simp only [maxLikeInfObjective, one_mul] at this
  exact this

theorem maxLikeFull_not_worse (Q Φ : ℝ → ℝ) (opt : (Curve ℝ → Option ℝ) → Curve ℝ → Curve ℝ) (h : NeverWorseThanFrom opt)
    (d : List (Test ℝ)) :
    LeLik (maxLikeFullObjective Φ (irrelevantRunoutsDropped d) (elementaryCore Q (irrelevantRunoutsDropped d))
        (fullStart (elementaryCore Q (irrelevantRunoutsDropped d))))
      (likTotal Φ (irrelevantRunoutsDropped d) (maxLikeFull Q Φ opt d)) := by
  have h0 := h (maxLikeFullObjective Φ (irrelevantRunoutsDropped d) (elementaryCore Q (irrelevantRunoutsDropped d)))
    (fullStart (elementaryCore Q (irrelevantRunoutsDropped d)))
  rw [maxLikeFull_eq]
  generalize opt (maxLikeFullObjective Φ (irrelevantRunoutsDropped d) (elementaryCore Q (irrelevantRunoutsDropped d)))
    (fullStart (elementaryCore Q (irrelevantRunoutsDropped d))) = r at h0 ⊢
  generalize maxLikeFullObjective Φ (irrelevantRunoutsDropped d) (elementaryCore Q (irrelevantRunoutsDropped d))
    (fullStart (elementaryCore Q (irrelevantRunoutsDropped d))) = s at h0 ⊢
  unfold maxLikeFullObjective at h0
  dsimp only at h0
  split_ifs at h0 with hN
  · exact h0
  · cases s with
    | none => trivial
    | some a => exact absurd h0 (by simp [LeLik])

theorem maxLikeFull_not_worse_than_elementary (Q Φ : ℝ → ℝ) (opt : (Curve ℝ → Option ℝ) → Curve ℝ → Curve ℝ)
    (h : NeverWorseThanFrom opt) (d : List (Test ℝ)) (hr : runouts (irrelevantRunoutsDropped d) ≠ []) (hm : fewMixedLevels (irrelevantRunoutsDropped d) = false)
    (hw : 0 ≤ (elementary Q d).k1 ∧ 0 < (elementary Q d).ND ∧ 0 ≤ (elementary Q d).SD ∧ 0 ≤ (elementary Q d).TN ∧ 0 ≤ (elementary Q d).TS) :
    LeLik (likTotal Φ (irrelevantRunoutsDropped d) (elementary Q d)) (likTotal Φ (irrelevantRunoutsDropped d) (maxLikeFull Q Φ opt d)) := by
  have h0 := maxLikeFull_not_worse Q Φ opt h d
  have hND : 0 < (elementaryCore Q (irrelevantRunoutsDropped d)).ND := hw.2.1
  have he : maxLikeFullObjective Φ (irrelevantRunoutsDropped d) (elementaryCore Q (irrelevantRunoutsDropped d))
        (fullStart (elementaryCore Q (irrelevantRunoutsDropped d)))
      = likTotal Φ (irrelevantRunoutsDropped d) (elementary Q d) := by
    unfold maxLikeFullObjective
    dsimp only
    have hfp : fullParams (irrelevantRunoutsDropped d) (elementaryCore Q (irrelevantRunoutsDropped d))
          (fullStart (elementaryCore Q (irrelevantRunoutsDropped d)))
        = elementaryCore Q (irrelevantRunoutsDropped d) :=
      fullParams_fullStart _ _ hr hm ⟨hw.1, hw.2.1.le, hw.2.2.1, hw.2.2.2.1, hw.2.2.2.2⟩
    rw [hfp, WoehlerZones.lit0, if_pos hND]
    rfl
  rw [he] at h0
  exact h0

/-! ## non-vacuity -/

/-- the optimiser that returns its start point satisfies the assumed contracts -/
example {X : Type} (x₀ : X) : NeverWorseThan x₀ (fun _ => x₀) ∧ NeverWorseThanFrom (fun (_ : X → Option ℝ) (x₀ : X) => x₀) := by
  refine ⟨fun f => ?_, fun f x₀ => ?_⟩ <;>
  · cases f x₀ with
    | none => trivial
    | some a => exact le_refl a

/-- two mixed levels below a fractured level: run-outs, two mixed levels, a non-empty finite zone, nothing dropped -/
def exampleData : List (Test ℝ) := [⟨1, 10, true⟩, ⟨1, 100, false⟩, ⟨2, 10, true⟩, ⟨2, 100, false⟩, ⟨3, 5, true⟩]

theorem exampleData_spec : irrelevantRunoutsDropped exampleData = exampleData ∧ runouts exampleData ≠ [] ∧
    fewMixedLevels exampleData = false ∧ (finiteZone exampleData).filter (·.fracture) ≠ [] ∧
    (∀ t ∈ exampleData, 0 < t.load ∧ 0 < t.cycles) := by
  have hr : runouts exampleData ≠ [] := by simp [runouts, exampleData]
  have hm : maxRunoutLoad exampleData = 2 := by
    norm_num [maxRunoutLoad, runouts, exampleData, maxOf]
  refine ⟨?_, hr, ?_, ?_, by simp [exampleData]⟩
  · norm_num [irrelevantRunoutsDropped, fractures, runouts, exampleData, eqα]
  · norm_num [fewMixedLevels, isMixedLoad, fractures, runouts, exampleData, eqα]
  · refine List.ne_nil_of_mem (a := ⟨3, 5, true⟩) (List.mem_filter.2 ⟨?_, rfl⟩)
    refine (WoehlerZones.mem_finiteZone_of_runouts hr).2 ⟨by simp [exampleData], ?_⟩
    rw [hm]; norm_num

/-- run-out-topped staircase data with two load levels: hypotheses of `zones_partition_runout_topped` -/
example : let d : List (Test ℝ) := [⟨1, 100, false⟩, ⟨2, 10, true⟩, ⟨2, 100, false⟩]
    runouts d ≠ [] ∧ finiteZone d = [] ∧ ∃ t ∈ d, ∃ u ∈ d, t.load ≠ u.load := by
  intro d
  refine ⟨by simp [d, runouts], ?_, ⟨1, 100, false⟩, by simp [d], ⟨2, 10, true⟩, by simp [d], by norm_num⟩
  norm_num [d, finiteZone, runouts, fractures, maxRunoutLoad, maxOf]

end PylifeVerif.WoehlerMaxLike
