/-
Helper lemmas for `Proofs/C04PrependCode.lean`: a non-reversal sample PREPENDED to a one-point load
sequence (the case `A = []` that `InsOK A v B` of `Proofs/Lemmas/HCMInsert.lean` excludes).
The sample `v` in front of the trimmed sequence `t` is an interior insertion behind the block `[0]`
in the first pass (`InsOK [0] v t`) and an interior insertion at the junction of the repetition
(`InsOK t v t`).
-/
import Proofs.Lemmas.HCMInsertCode

namespace PylifeVerif.HCM.Insert
open PylifeVerif.HCM PylifeVerif.Rainflow
open PylifeVerif.C04 (one)

/-! ### the fed values do not see a prepended non-reversal sample -/

theorem InsOK.of_last {A A' B : List Int} {v : Int} (h : InsOK A v B)
    (hl : A'.getLast? = A.getLast?) : InsOK A' v B := by
  obtain ⟨x, hx, h⟩ := h
  exact ⟨x, hl.trans hx, h⟩

theorem getLast_cons_cons (x v : Int) (t : List Int) (ht : t ≠ []) :
    (x :: v :: t).getLast (List.cons_ne_nil _ _) = (x :: t).getLast (List.cons_ne_nil _ _) := by
  rw [List.getLast_cons (List.cons_ne_nil _ _), List.getLast_cons ht, List.getLast_cons ht]

/-- turning point values of `X ++ v :: t` followed by `v :: t` (insertion behind `X` and at the junction) -/
theorem vals_ins_junction (X t : List Int) (v : Int) (hX : InsOK X v t) (hz : InsOK t v t) :
    vals (findTurns ((X ++ v :: t) ++ (v :: t))) = vals (findTurns ((X ++ t) ++ t)) := by
  have e1 : (X ++ v :: t) ++ (v :: t) = X ++ v :: (t ++ v :: t) := by simp
  have e2 : X ++ (t ++ v :: t) = (X ++ t) ++ v :: t := by simp
  rw [e1, findTurns_ins X _ v (hX.append_right _), e2, findTurns_ins (X ++ t) t v (hz.prepend _),
    vals_bump, vals_bump]

theorem fedG_prepend (f : Bool) (t : List Int) (v : Int) (h0 : InsOK [0] v t) (hz : InsOK t v t) :
    fedG f (v :: t) = fedG f t := by
  have ht : t ≠ [] := hz.ne_nil
  have hl0 := getLast_cons_cons 0 v t ht
  have hl' : (v :: t).getLast (List.cons_ne_nil _ _) = t.getLast ht := List.getLast_cons ht
  have hv1 : vals (findTurns (0 :: v :: t)) = vals (findTurns (0 :: t)) := by
    have := findTurns_ins [0] t v h0
    simp only [List.cons_append, List.nil_append] at this
    rw [this, vals_bump]
  refine Prod.ext ?_ ?_
  · rw [fedG1_eq, fedG1_eq, hv1, hl0]
  · rw [fedG2_eq _ _ (List.cons_ne_nil _ _), fedG2_eq _ _ ht, hl0, hl']
    congr 1
    cases f with
    | true =>
      simp only [if_true]
      have hI : InsOK [(0 :: t).getLast (List.cons_ne_nil _ _)] v t := by
        refine hz.of_last ?_
        rw [List.getLast_cons ht, List.getLast?_eq_some_getLast ht]
        rfl
      have := findTurns_ins _ t v hI
      rw [this, vals_bump]
    | false =>
      simp only [Bool.false_eq_true, if_false]
      rw [vals_newTurnsOf, vals_newTurnsOf]
      have a1 := findTurns_append_eq (0 :: v :: t) (v :: t)
      have a0 := findTurns_append_eq (0 :: t) t
      have hv2 := vals_ins_junction [0] t v h0 hz
      simp only [List.cons_append, List.nil_append] at hv2 a1 a0
      rw [a1, a0] at hv2
      simp only [vals, List.map_append] at hv2 hv1 ⊢
      rw [hv1] at hv2
      exact List.append_cancel_left hv2

theorem flushC_prepend (t : List Int) (v : Int) (h0 : InsOK [0] v t) (ht : t ≠ []) :
    flushC (v :: t) = flushC t := by
  have hl := List.length_pos_of_ne_nil ht
  unfold flushC
  have e1 : (0 :: v :: t) ++ (0 :: v :: t) = ([0] ++ v :: t) ++ ([0] ++ v :: t) := by simp
  have e2 : (0 :: t) ++ (0 :: t) = ([0] ++ t) ++ ([0] ++ t) := by simp
  rw [e1, e2, findTurns_ins2 [0] [0] t v h0 h0, idx_bump, idx_bump, Bool.eq_iff_iff,
    List.contains_iff_mem, List.contains_iff_mem]
  have e3 : (v :: t).length = t.length + 1 := by simp
  rw [e3]
  exact mem_bump _ _ _ (by simp only [List.length_cons, List.length_nil]; omega)
    (by simp only [List.length_cons, List.length_nil]; omega) _

/-- **The code's fed values do not see the prepended sample.** -/
theorem fedC_prepend (t : List Int) (v : Int) (h0 : InsOK [0] v t) (hz : InsOK t v t) :
    fedC (v :: t) = fedC t := by
  unfold fedC
  rw [flushC_prepend t v h0 hz.ne_nil, fedG_prepend _ t v h0 hz]

/-! ### turning points of a sequence with a different sample in front -/

/-- a scan that starts with a known direction reports at most the pending candidate in addition -/
theorem aux_dir0 (xs : List Int) : ∀ (d : Int) (c : Pt) (i : Nat) (p : Int),
    ∃ E, (E = [] ∨ E = [c]) ∧ findTurnsAux d c i p xs = E ++ findTurnsAux 0 c i p xs := by
  induction xs with
  | nil => intro d c i p; exact ⟨[], Or.inl rfl, by simp [findTurnsAux]⟩
  | cons x xs ih =>
    intro d c i p
    simp only [findTurnsAux]
    by_cases h1 : sgn (x - p) = 0
    · simp only [h1, if_true]
      exact ih d c (i + 1) x
    · simp only [h1, if_false]
      by_cases h2 : d ≠ 0 ∧ sgn (x - p) ≠ d
      · refine ⟨[c], Or.inr rfl, ?_⟩
        simp [h2]
      · refine ⟨[], Or.inl rfl, ?_⟩
        simp [h2]

theorem findTurns_prepend_ne (v a : Int) (W : List Int) (h : v ≠ a) :
    ∃ E, (E = [] ∨ E = [((0 : Nat), a)]) ∧
      findTurns (v :: a :: W) = shiftPts 1 (E ++ findTurns (a :: W)) := by
  have hd : sgn (a - v) ≠ 0 := fun h0 => h (by have := sgn_eq_zero h0; omega)
  obtain ⟨E, hE, he⟩ := aux_dir0 W (sgn (a - v)) (0, a) 1 a
  refine ⟨E, hE, ?_⟩
  have hs := findTurnsAux_shift 1 W (sgn (a - v)) (0, a) 1 a
  simp only [findTurns, findTurnsAux, hd, if_false, ne_eq, not_true_eq_false, false_and]
  rw [← he, ← hs]

theorem filter_bump_succ (n : Nat) (l : List Nat) :
    ((l.map (bumpN n)).map (· + 1)).filter (· < n + 1) = (l.filter (· < n)).map (· + 1) := by
  induction l with
  | nil => rfl
  | cons j l ih =>
    simp only [List.map_cons, List.filter_cons, ih]
    by_cases hj : j < n
    · have e1 : bumpN n j = j := by simp only [bumpN, if_pos hj]
      rw [e1]
      simp [hj]
    · have e1 : bumpN n j = j + 1 := by simp only [bumpN, if_neg hj]
      rw [e1]
      have : ¬ j + 1 + 1 < n + 1 := by omega
      simp [hj, this]

theorem idx_shift_filter (n : Nat) (hn : 0 < n) (a : Int) (E L : List Pt)
    (hE : E = [] ∨ E = [((0 : Nat), a)]) :
    ∃ E' : List Nat, (E' = [] ∨ E' = [1]) ∧
      ((shiftPts 1 (E ++ L.map (bump n))).map (·.1)).filter (· < n + 1) =
        E' ++ ((L.map (·.1)).filter (· < n)).map (· + 1) := by
  have hL : ((shiftPts 1 (L.map (bump n))).map (·.1)).filter (· < n + 1) =
      ((L.map (·.1)).filter (· < n)).map (· + 1) := by
    rw [← filter_bump_succ]
    congr 1
    simp [shiftPts, bump, Function.comp_def]
  rcases hE with rfl | rfl
  · exact ⟨[], Or.inl rfl, by rw [List.nil_append, List.nil_append, hL]⟩
  · refine ⟨[1], Or.inr rfl, ?_⟩
    rw [shiftPts_append, List.map_append, List.filter_append, hL]
    congr 1
    simp [shiftPts, hn]

/-- first-copy turning point indices with a sample `v ≠ a` in front that is no reversal at the junction -/
theorem idxf_prepend (a : Int) (s' : List Int) (v : Int) (hva : v ≠ a)
    (hz : InsOK (a :: s') v (a :: s')) :
    ∃ E' : List Nat, (E' = [] ∨ E' = [1]) ∧
      idxf (v :: a :: s') = E' ++ (idxf (a :: s')).map (· + 1) := by
  obtain ⟨E, hE, he⟩ := findTurns_prepend_ne v a (s' ++ v :: a :: s') hva
  have e1 : (v :: a :: s') ++ (v :: a :: s') = v :: a :: (s' ++ v :: a :: s') := by simp
  have e2 : a :: (s' ++ v :: a :: s') = (a :: s') ++ v :: (a :: s') := by simp
  have hi := findTurns_ins (a :: s') (a :: s') v hz
  unfold idxf
  rw [e1, he, e2, hi]
  have e3 : (v :: a :: s').length = (a :: s').length + 1 := by simp
  rw [e3]
  exact idx_shift_filter _ (by simp) a E _ hE

/-- with a non-reversal sample `v ≠ a` in front, trimming keeps `v` and trims the rest as before -/
theorem trim_prepend (a : Int) (s' : List Int) (v : Int) (hva : v ≠ a)
    (hz : InsOK (a :: s') v (a :: s')) (hne : idxf (a :: s') ≠ []) :
    trimI (v :: a :: s') = v :: trimI (a :: s') := by
  obtain ⟨E', _, he⟩ := idxf_prepend a s' v hva hz
  rw [trimI_eq, trimI_eq, he, List.getLast?_append_of_ne_nil _ (by simpa using hne),
    List.getLast?_map]
  cases hg : (idxf (a :: s')).getLast? with
  | none => rw [List.getLast?_eq_none_iff] at hg; exact absurd hg hne
  | some t =>
    obtain ⟨hpos, hlt⟩ := idxf_mem _ t (List.mem_of_getLast? hg)
    simp only [Option.map_some, List.length_cons] at hlt ⊢
    by_cases hc : t = s'.length
    · rw [if_pos (by omega), if_pos (by omega)]
    · rw [if_neg (by omega), if_neg (by omega), List.take_succ_cons]

/-! ### the last sample of the trimmed sequence lies beyond the last sample, seen from the first -/

/-- the last reported turn is a minimum below / a maximum above the end of an upward / downward run -/
theorem last_turn_dir (xs : List Int) : ∀ (dir : Int) (cand : Pt) (i : Nat) (prev : Int) (q : Pt),
    cand.2 = prev → (findTurnsAux dir cand i prev xs).getLast? = some q →
    ((scanSt dir cand i prev xs).1 = 1 ∧ q.2 ≤ (scanSt dir cand i prev xs).2.2.2) ∨
    ((scanSt dir cand i prev xs).1 = -1 ∧ (scanSt dir cand i prev xs).2.2.2 ≤ q.2) := by
  induction xs with
  | nil => intro dir cand i prev q _ h; simp [findTurnsAux] at h
  | cons x xs ih =>
    intro dir cand i prev q hc h
    simp only [findTurnsAux] at h
    simp only [scanSt]
    rcases Rainflow.sgn_cases (x - prev) with hs | hs | hs
    · simp only [hs.1, if_true] at h ⊢
      exact ih dir cand (i + 1) x q (by omega) h
    · simp only [hs.1, show ¬ ((1 : Int) = 0) by decide, if_false] at h ⊢
      split_ifs at h with h2
      · cases hr : findTurnsAux 1 (i, x) (i + 1) x xs with
        | nil =>
          rw [hr] at h
          have hq : cand = q := by simpa using h
          have hm := ((mono_scan xs 1 (i, x) (i + 1) x hr).2.1 rfl)
          exact Or.inl ⟨hm.1, by rw [← hq, hc]; omega⟩
        | cons r rs =>
          rw [hr, List.getLast?_cons_cons] at h
          rw [← hr] at h
          exact ih 1 (i, x) (i + 1) x q rfl h
      · exact ih 1 (i, x) (i + 1) x q rfl h
    · simp only [hs.1, show ¬ ((-1 : Int) = 0) by decide, if_false] at h ⊢
      split_ifs at h with h2
      · cases hr : findTurnsAux (-1) (i, x) (i + 1) x xs with
        | nil =>
          rw [hr] at h
          have hq : cand = q := by simpa using h
          have hm := ((mono_scan xs (-1) (i, x) (i + 1) x hr).2.2 rfl)
          exact Or.inr ⟨hm.1, by rw [← hq, hc]; omega⟩
        | cons r rs =>
          rw [hr, List.getLast?_cons_cons] at h
          rw [← hr] at h
          exact ih (-1) (i, x) (i + 1) x q rfl h
      · exact ih (-1) (i, x) (i + 1) x q rfl h

/-- the first-copy turning points of the doubled sequence: those of the sequence itself and possibly the
candidate pending at its end -/
theorem idxf_decomp (a : Int) (s' : List Int) (z : Int) (hz : (a :: s').getLast? = some z)
    (hza : z ≠ a) :
    ∃ E : List Pt,
      ((E = [] ∧ ((scanSt 0 (0, a) 1 a s').1 = 0 ∨ (scanSt 0 (0, a) 1 a s').1 = sgn (a - z))) ∨
        E = [(scanSt 0 (0, a) 1 a s').2.1]) ∧
      (∀ q ∈ findTurnsAux 0 (0, a) 1 a s' ++ E,
        q ∈ findTurns ((a :: s') ++ (a :: s')) ∧ q.1 < (a :: s').length) ∧
      idxf (a :: s') = (findTurnsAux 0 (0, a) 1 a s' ++ E).map (·.1) := by
  have hl : (scanSt 0 (0, a) 1 a s').2.2.2 = z := by
    rw [scanSt_prev]
    have := List.getLast?_eq_some_getLast (List.cons_ne_nil a s')
    rw [hz] at this
    exact (Option.some.inj this).symm
  have hi := scanSt_i s' 0 (0, a) 1 a
  have hc := scanSt_cand_lt s' 0 (0, a) 1 a (by simp)
  rw [hi] at hc
  have hd0 : sgn (a - z) ≠ 0 := fun h0 => hza (by have := sgn_eq_zero h0; omega)
  let E : List Pt := if (scanSt 0 (0, a) 1 a s').1 ≠ 0 ∧ sgn (a - z) ≠ (scanSt 0 (0, a) 1 a s').1
    then [(scanSt 0 (0, a) 1 a s').2.1] else []
  have hD0 : findTurns ((a :: s') ++ (a :: s')) =
      (findTurnsAux 0 (0, a) 1 a s' ++ E) ++
      (findTurnsAux (sgn (a - z)) (1 + s'.length, a) (1 + s'.length + 1) a s') := by
    simp only [List.cons_append, findTurns]
    rw [findTurnsAux_append, hl, hi]
    simp only [findTurnsAux, if_neg hd0, E]
    split_ifs <;> simp
  have hcommon : ∀ q ∈ findTurnsAux 0 (0, a) 1 a s' ++ E, q.1 < 1 + s'.length := by
    intro q hq
    rcases List.mem_append.mp hq with hq | hq
    · rcases aux_mem s' _ _ _ _ q hq with h | h
      · rw [h]; simp only; omega
      · omega
    · simp only [E] at hq
      split_ifs at hq
      · rw [List.mem_singleton.mp hq]; exact hc
      · simp at hq
  have e' : (a :: s').length = 1 + s'.length := by simp only [List.length_cons]; omega
  refine ⟨E, ?_, ?_, ?_⟩
  · simp only [E]
    split_ifs with h
    · exact Or.inr rfl
    · left
      refine ⟨rfl, ?_⟩
      by_cases h0 : (scanSt 0 (0, a) 1 a s').1 = 0
      · exact Or.inl h0
      · right
        by_cases h1 : sgn (a - z) = (scanSt 0 (0, a) 1 a s').1
        · exact h1.symm
        · exact absurd ⟨h0, h1⟩ h
  · intro q hq
    refine ⟨?_, by rw [e']; exact hcommon q hq⟩
    rw [hD0]
    exact List.mem_append_left _ hq
  · unfold idxf
    rw [hD0, e', List.map_append]
    refine filter_split _ _ _ ?_ ?_
    · intro t ht
      rw [List.mem_map] at ht
      obtain ⟨q, hq, rfl⟩ := ht
      exact hcommon q hq
    · intro t ht
      rw [List.mem_map] at ht
      obtain ⟨q, hq, rfl⟩ := ht
      rcases aux_mem s' _ _ _ _ q hq with h | h
      · rw [h]; exact Nat.le_refl _
      · omega

/-- the trimmed sequence starts with the same sample; its last sample is the last sample or a turning
point that lies on the far side of the last sample as seen from the first -/
theorem trim_last (a : Int) (s' : List Int) (z : Int) (hz : (a :: s').getLast? = some z)
    (hza : z ≠ a) :
    ∃ r z1, trimI (a :: s') = a :: r ∧ (a :: r).getLast? = some z1 ∧
      (z < a → z1 ≤ z) ∧ (a < z → z ≤ z1) := by
  have hwhole : ∃ r z1, (a :: s') = a :: r ∧ (a :: r).getLast? = some z1 ∧
      (z < a → z1 ≤ z) ∧ (a < z → z ≤ z1) :=
    ⟨s', z, rfl, hz, fun _ => Int.le_refl _, fun _ => Int.le_refl _⟩
  rw [trimI_eq]
  cases hg : (idxf (a :: s')).getLast? with
  | none => exact hwhole
  | some t =>
    simp only []
    split_ifs with hc
    · exact hwhole
    · obtain ⟨E, hE, hmem, hidx⟩ := idxf_decomp a s' z hz hza
      rw [hidx, List.getLast?_map] at hg
      cases hq : (findTurnsAux 0 (0, a) 1 a s' ++ E).getLast? with
      | none => rw [hq] at hg; simp at hg
      | some q =>
        rw [hq] at hg
        have hqt : q.1 = t := by simpa using hg
        obtain ⟨hq1, hq2⟩ := hmem q (List.mem_of_getLast? hq)
        have hv := Sym.findTurns_index_valid _ q hq1
        rw [List.getElem?_append_left hq2, hqt] at hv
        refine ⟨s'.take t, q.2, by rw [List.take_succ_cons], ?_, ?_⟩
        · rw [← List.take_succ_cons, List.getLast?_take, if_neg (by omega)]
          simp only [Nat.add_sub_cancel, hv, Option.some_or]
        · have hl : (scanSt 0 (0, a) 1 a s').2.2.2 = z := by
            rw [scanSt_prev]
            have := List.getLast?_eq_some_getLast (List.cons_ne_nil a s')
            rw [hz] at this
            exact (Option.some.inj this).symm
          rcases hE with ⟨rfl, hS⟩ | rfl
          · rw [List.append_nil] at hq
            have hd := last_turn_dir s' 0 (0, a) 1 a q rfl hq
            rw [hl] at hd
            rcases hd with ⟨d1, d2⟩ | ⟨d1, d2⟩
            · rcases hS with hS | hS
              · rw [hS] at d1; exact absurd d1 (by decide)
              · rw [d1] at hS
                have : z < a := by
                  rcases Rainflow.sgn_cases (a - z) with h | h | h <;> omega
                exact ⟨fun _ => d2, fun h => by omega⟩
            · rcases hS with hS | hS
              · rw [hS] at d1; exact absurd d1 (by decide)
              · rw [d1] at hS
                have : a < z := by
                  rcases Rainflow.sgn_cases (a - z) with h | h | h <;> omega
                exact ⟨fun h => by omega, fun _ => d2⟩
          · rw [List.getLast?_append_of_ne_nil _ (List.cons_ne_nil _ _)] at hq
            have hq' : (scanSt 0 (0, a) 1 a s').2.1 = q := by simpa using hq
            have hcv := scanSt_cand s' 0 (0, a) 1 a rfl
            rw [hq', hl] at hcv
            rw [hcv]
            exact ⟨fun _ => Int.le_refl _, fun _ => Int.le_refl _⟩

end PylifeVerif.HCM.Insert
