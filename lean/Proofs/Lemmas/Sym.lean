import Proofs.Lemmas.Common
import Model.Rainflow.Detectors

/-! Helper lemmas for the symmetry theorems (C03) and the chunk-index bookkeeping theorem (C01). -/
namespace PylifeVerif.Sym
open PylifeVerif.Rainflow

/-! ### `sgn` -/

theorem sgn_pos {x : Int} (h : 0 < x) : sgn x = 1 := by simp [sgn, h]
theorem sgn_neg {x : Int} (h : x < 0) : sgn x = -1 := by
  have : ¬ 0 < x := by omega
  simp [sgn, h, this]
theorem sgn_zero : sgn 0 = 0 := by simp [sgn]

theorem sgn_cases (x : Int) : (0 < x ∧ sgn x = 1) ∨ (x < 0 ∧ sgn x = -1) ∨ (x = 0 ∧ sgn x = 0) := by
  rcases Int.lt_trichotomy x 0 with h | h | h
  · exact Or.inr (Or.inl ⟨h, sgn_neg h⟩)
  · exact Or.inr (Or.inr ⟨h, by rw [h]; exact sgn_zero⟩)
  · exact Or.inl ⟨h, sgn_pos h⟩

theorem sgn_mul (a x : Int) : sgn (a * x) = sgn a * sgn x := by
  rcases sgn_cases a with ⟨ha, ea⟩ | ⟨ha, ea⟩ | ⟨ha, ea⟩ <;>
  rcases sgn_cases x with ⟨hx, ex⟩ | ⟨hx, ex⟩ | ⟨hx, ex⟩ <;> rw [ea, ex]
  · exact sgn_pos (Int.mul_pos ha hx)
  · exact sgn_neg (Int.mul_neg_of_pos_of_neg ha hx)
  · subst hx; simp [sgn_zero]
  · exact sgn_neg (Int.mul_neg_of_neg_of_pos ha hx)
  · exact sgn_pos (Int.mul_pos_of_neg_of_neg ha hx)
  · subst hx; simp [sgn_zero]
  · subst ha; simp [sgn_zero]
  · subst ha; simp [sgn_zero]
  · subst ha; simp [sgn_zero]

theorem sgn_affine (a b x y : Int) : sgn (a * x + b - (a * y + b)) = sgn a * sgn (x - y) := by
  rw [← sgn_mul]; congr 1; rw [Int.mul_sub]; omega

theorem sgn_sq_of_ne {a : Int} (ha : a ≠ 0) : sgn a = 1 ∨ sgn a = -1 := by
  rcases sgn_cases a with ⟨_, e⟩ | ⟨_, e⟩ | ⟨h, _⟩
  · exact Or.inl e
  · exact Or.inr e
  · exact absurd h ha

/-! ### `findTurns` under an affine map with non-zero slope -/

theorem findTurnsAux_affine (a b : Int) (ha : a ≠ 0) (xs : List Int) :
    ∀ (dir : Int) (cand : Pt) (i : Nat) (prev : Int),
    findTurnsAux (sgn a * dir) (cand.1, a * cand.2 + b) i (a * prev + b) (xs.map fun x => a * x + b) =
      (findTurnsAux dir cand i prev xs).map fun p => (p.1, a * p.2 + b) := by
  induction xs with
  | nil => intro dir cand i prev; simp [findTurnsAux]
  | cons x xs ih =>
    intro dir cand i prev
    simp only [List.map_cons, findTurnsAux, sgn_affine]
    have hs := sgn_sq_of_ne ha
    have h0 : (sgn a * sgn (x - prev) = 0) ↔ (sgn (x - prev) = 0) := by
      rcases hs with e | e <;> rw [e] <;> omega
    have h1 : (sgn a * dir ≠ 0 ∧ sgn a * sgn (x - prev) ≠ sgn a * dir) ↔
        (dir ≠ 0 ∧ sgn (x - prev) ≠ dir) := by
      rcases hs with e | e <;> rw [e] <;> omega
    by_cases hd : sgn (x - prev) = 0
    · rw [if_pos (h0.mpr hd), if_pos hd]; exact ih dir cand (i+1) x
    · rw [if_neg (mt h0.mp hd), if_neg hd]
      by_cases he : dir ≠ 0 ∧ sgn (x - prev) ≠ dir
      · rw [if_pos (h1.mpr he), if_pos he, List.map_cons]
        congr 1
        exact ih (sgn (x - prev)) (i, x) (i+1) x
      · rw [if_neg (mt h1.mp he), if_neg he]
        exact ih (sgn (x - prev)) (i, x) (i+1) x

theorem findTurns_affine_ne (a b : Int) (ha : a ≠ 0) (s : List Int) :
    findTurns (s.map fun x => a * x + b) = (findTurns s).map fun p => (p.1, a * p.2 + b) := by
  cases s with
  | nil => simp [findTurns]
  | cons x xs =>
    simp only [List.map_cons, findTurns]
    have := findTurnsAux_affine a b ha xs 0 (0, x) 1 x
    simpa using this

/-! ### four-point detector under an affine map with non-zero slope -/

theorem absDiff_affine (a b x y : Int) : absDiff (a * x + b) (a * y + b) = a.natAbs * absDiff x y := by
  unfold absDiff
  rw [← Int.natAbs_mul]; congr 1; rw [Int.mul_sub]; omega

section
variable (a b : Int)

/-- the affine map on points / cycles -/
abbrev aPt (p : Pt) : Pt := (p.1, a * p.2 + b)
abbrev aCy (c : Cycle) : Cycle := (aPt a b c.1, aPt a b c.2)

theorem fpClose_affine (ha : a ≠ 0) (st : List Pt) (d : Int) :
    fpClose (st.map (aPt a b)) (a * d + b) =
      ((fpClose st d).1.map (aCy a b), (fpClose st d).2.map (aPt a b)) := by
  have hpos : 0 < a.natAbs := Int.natAbs_pos.mpr ha
  fun_induction fpClose st d with
  | case1 c b' a' rest d h r ih =>
    simp only [List.map_cons] at ih ⊢
    rw [fpClose]
    simp only [absDiff_affine]
    rw [if_pos ⟨Nat.mul_le_mul_left _ h.1, Nat.mul_le_mul_left _ h.2⟩]
    simp [ih, r]
  | case2 c b' a' rest d h =>
    simp only [List.map_cons]
    rw [fpClose]
    simp only [absDiff_affine]
    rw [if_neg]
    · simp
    · intro h'
      exact h ⟨Nat.le_of_mul_le_mul_left h'.1 hpos, Nat.le_of_mul_le_mul_left h'.2 hpos⟩
  | case3 st d hst =>
    rcases st with _ | ⟨c, _ | ⟨b', _ | ⟨a', rest⟩⟩⟩
    · simp [fpClose]
    · simp [fpClose]
    · simp [fpClose]
    · exact absurd rfl (hst c b' a' rest)


theorem fpPush_affine (ha : a ≠ 0) (st : List Pt) (p : Pt) :
    fpPush (st.map (aPt a b)) (aPt a b p) =
      ((fpPush st p).1.map (aCy a b), (fpPush st p).2.map (aPt a b)) := by
  simp [fpPush, fpClose_affine a b ha]

theorem fpFeed_affine (ha : a ≠ 0) (ps : List Pt) : ∀ (st : List Pt),
    fpFeed (st.map (aPt a b)) (ps.map (aPt a b)) =
      ((fpFeed st ps).1.map (aCy a b), (fpFeed st ps).2.map (aPt a b)) := by
  induction ps with
  | nil => intro st; simp [fpFeed]
  | cons p ps ih =>
    intro st
    simp only [List.map_cons, fpFeed]
    rw [fpPush_affine a b ha]
    simp only [ih]
    simp

theorem getLast!_map_affine (l : List Int) (h : l ≠ []) :
    (l.map fun x => a * x + b).getLast! = a * l.getLast! + b := by
  have hx : l.getLast? = some (l.getLast h) := List.getLast?_eq_some_getLast h
  simp [List.getLast!_eq_getLast?_getD, List.getLast?_map, hx]

theorem newTurns_affine (ha : a ≠ 0) (st : TurnState) (samples : List Int) :
    newTurns { tail := st.tail.map fun x => a * x + b, head := st.head } (samples.map fun x => a * x + b) =
      ({ tail := (newTurns st samples).1.tail.map fun x => a * x + b, head := (newTurns st samples).1.head },
        (newTurns st samples).2.map (aPt a b)) := by
  unfold newTurns
  by_cases he : samples = []
  · subst he; simp
  · simp [he, ← List.map_append, findTurns_affine_ne a b ha, List.getLast?_map]
    cases (findTurns (st.tail ++ samples)).getLast? <;> simp


/-- the affine map on detector states -/
def aDet (st : DetState) : DetState :=
  { ts := { tail := st.ts.tail.map fun x => a * x + b, head := st.ts.head },
    stack := st.stack.map (aPt a b), last := st.last.map fun x => a * x + b,
    cycles := st.cycles.map (aCy a b), chunks := st.chunks }

theorem fpProcess_affine (ha : a ≠ 0) (st : DetState) (samples : List Int) :
    fpProcess (aDet a b st) (samples.map fun x => a * x + b) = aDet a b (fpProcess st samples) := by
  obtain ⟨ts, stack, last, cycles, chunks⟩ := st
  cases samples with
  | nil => simp [fpProcess]
  | cons s0 rest =>
    have hne : s0 :: rest ≠ [] := by simp
    have hl := getLast!_map_affine a b (s0 :: rest) hne
    have hnt := newTurns_affine a b ha ts (s0 :: rest)
    simp only [List.map_cons] at hl hnt
    simp only [fpProcess, List.map_cons, aDet]
    rw [hl, hnt]
    have h1 : [((0:Nat), a * s0 + b)] = [((0:Nat), s0)].map (aPt a b) := rfl
    cases last with
    | none =>
      simp only [Option.map_none, Option.isNone_none, if_true]
      rw [h1]
      simp only [fpFeed_affine a b ha, fpClose_affine a b ha]
      simp
    | some l =>
      simp only [Option.map_some, Option.isNone_some, Bool.false_eq_true, if_false]
      simp only [fpFeed_affine a b ha, fpClose_affine a b ha]
      simp

theorem fpFold_affine (ha : a ≠ 0) (cs : List (List Int)) : ∀ st : DetState,
    (cs.map (List.map fun x => a * x + b)).foldl fpProcess (aDet a b st) =
      aDet a b (cs.foldl fpProcess st) := by
  induction cs with
  | nil => intro st; simp
  | cons c cs ih => intro st; simp only [List.map_cons, List.foldl_cons, fpProcess_affine a b ha, ih]

theorem fpRun_affine (ha : a ≠ 0) (cs : List (List Int)) :
    fpRun (cs.map (List.map fun x => a * x + b)) = aDet a b (fpRun cs) := by
  unfold fpRun
  have h0 : ({} : DetState) = aDet a b {} := by simp [aDet]
  rw [← fpFold_affine a b ha, ← h0]

end
/-! ### index validity of `findTurns` -/

theorem findTurnsAux_index_valid (xs : List Int) :
    ∀ (pre : List Int) (dir : Int) (cand : Pt) (prev : Int),
      pre[cand.1]? = some cand.2 →
      ∀ p ∈ findTurnsAux dir cand pre.length prev xs, (pre ++ xs)[p.1]? = some p.2 := by
  induction xs with
  | nil => intro pre dir cand prev _ p hp; simp [findTurnsAux] at hp
  | cons x xs ih =>
    intro pre dir cand prev hc p hp
    have hlen : (pre ++ [x]).length = pre.length + 1 := by simp
    have hc1 : (pre ++ [x])[cand.1]? = some cand.2 := by
      have hlt : cand.1 < pre.length := by
        rcases Nat.lt_or_ge cand.1 pre.length with h | h
        · exact h
        · rw [List.getElem?_eq_none h] at hc; cases hc
      rw [List.getElem?_append_left hlt]; exact hc
    have hc2 : (pre ++ [x])[(pre.length, x).1]? = some (pre.length, x).2 := by simp
    have happ : pre ++ x :: xs = (pre ++ [x]) ++ xs := by simp
    rw [happ]
    simp only [findTurnsAux] at hp
    split at hp
    · rw [← hlen] at hp; exact ih _ _ _ _ hc1 p hp
    · split at hp
      · rcases List.mem_cons.mp hp with h | h
        · subst h
          have hlt : p.1 < (pre ++ [x]).length := by
            rcases Nat.lt_or_ge p.1 (pre ++ [x]).length with h | h
            · exact h
            · rw [List.getElem?_eq_none h] at hc1; cases hc1
          rw [List.getElem?_append_left hlt]; exact hc1
        · rw [← hlen] at h; exact ih _ _ _ _ hc2 p h
      · rw [← hlen] at hp; exact ih _ _ _ _ hc2 p hp

theorem findTurns_index_valid (t : List Int) : ∀ p ∈ findTurns t, t[p.1]? = some p.2 := by
  cases t with
  | nil => intro p hp; simp [findTurns] at hp
  | cons x xs =>
    intro p hp
    simp only [findTurns] at hp
    have := findTurnsAux_index_valid xs [x] 0 (0, x) x (by simp) p (by simpa using hp)
    simpa using this

theorem findTurns_index_lt (t : List Int) : ∀ p ∈ findTurns t, p.1 < t.length := by
  intro p hp
  have h := findTurns_index_valid t p hp
  rcases Nat.lt_or_ge p.1 t.length with h' | h'
  · exact h'
  · rw [List.getElem?_eq_none h'] at h; cases h

/-! ### NaN index correction -/

/-- the sequential correction applied to one index -/
def corr (nanPos : List Nat) (i : Nat) : Nat :=
  nanPos.foldl (fun i p => if i ≥ p then i + 1 else i) i

theorem correctByNans_eq_map (nanPos : List Nat) : ∀ idx : List Nat,
    correctByNans idx nanPos = idx.map (corr nanPos) := by
  induction nanPos with
  | nil =>
    intro idx
    have : corr [] = id := by funext i; rfl
    simp [correctByNans, this]
  | cons p ps ih =>
    intro idx
    have := ih (idx.map fun i => if i ≥ p then i + 1 else i)
    simp only [correctByNans, List.foldl_cons] at this ⊢
    rw [this]
    simp [corr, Function.comp_def]

/-- NaN positions with the enumeration starting at `k` -/
def nanPosFrom (k : Nat) (s : List (Option Int)) : List Nat :=
  ((s.zipIdx k).filter (fun x => x.1.isNone)).map (·.2)

theorem whereIdx_isNone (s : List (Option Int)) :
    whereIdx (fun (x : Option Int) => x.isNone) s = nanPosFrom 0 s := rfl

theorem nanPosFrom_none (k : Nat) (rest : List (Option Int)) :
    nanPosFrom k (none :: rest) = k :: nanPosFrom (k+1) rest := by
  simp [nanPosFrom, List.zipIdx_cons]

theorem nanPosFrom_some (k : Nat) (v : Int) (rest : List (Option Int)) :
    nanPosFrom k (some v :: rest) = nanPosFrom (k+1) rest := by
  simp [nanPosFrom, List.zipIdx_cons]

theorem nanPosFrom_ge (s : List (Option Int)) : ∀ k, ∀ p ∈ nanPosFrom k s, k ≤ p := by
  induction s with
  | nil => intro k p hp; simp [nanPosFrom] at hp
  | cons x rest ih =>
    intro k p hp
    cases x with
    | none =>
      rw [nanPosFrom_none] at hp
      rcases List.mem_cons.mp hp with h | h
      · omega
      · have := ih (k+1) p h; omega
    | some v =>
      rw [nanPosFrom_some] at hp
      have := ih (k+1) p hp; omega

theorem corr_of_lt (L : List Nat) : ∀ j, (∀ p ∈ L, j < p) → corr L j = j := by
  induction L with
  | nil => intro j _; rfl
  | cons q L ih =>
    intro j h
    have hq : j < q := h q (by simp)
    have : ¬ j ≥ q := by omega
    simp only [corr, List.foldl_cons, if_neg this]
    exact ih j (fun p hp => h p (List.mem_cons_of_mem _ hp))


/-- position map of the NaN filter (same equations as `C03.origIndex`) -/
def origIdx : List (Option Int) → Nat → Nat
  | [], i => i
  | none :: rest, i => origIdx rest i + 1
  | some _ :: _, 0 => 0
  | some _ :: rest, i+1 => origIdx rest i + 1

theorem corr_nanPosFrom (s : List (Option Int)) : ∀ (k i : Nat), i < (s.filterMap id).length →
    corr (nanPosFrom k s) (i + k) = origIdx s i + k := by
  induction s with
  | nil => intro k i hi; simp at hi
  | cons x rest ih =>
    intro k i hi
    cases x with
    | none =>
      simp only [List.filterMap_cons_none, id] at hi
      have hi' : i < (rest.filterMap id).length := by simpa using hi
      rw [nanPosFrom_none]
      have hge : i + k ≥ k := by omega
      simp only [corr, List.foldl_cons, if_pos hge, origIdx]
      have := ih (k+1) i hi'
      simp only [corr] at this
      rw [show i + k + 1 = i + (k + 1) by omega, this]; omega
    | some v =>
      rw [nanPosFrom_some]
      cases i with
      | zero =>
        simp only [origIdx, Nat.zero_add]
        exact corr_of_lt _ k (fun p hp => by have := nanPosFrom_ge rest (k+1) p hp; omega)
      | succ i =>
        have hi' : i < (rest.filterMap id).length := by simpa using hi
        have := ih (k+1) i hi'
        simp only [origIdx]
        rw [show i + 1 + k = i + (k + 1) by omega, this]; omega

theorem getElem?_origIdx (s : List (Option Int)) : ∀ (i : Nat) (v : Int),
    (s.filterMap id)[i]? = some v → s[origIdx s i]? = some (some v) := by
  induction s with
  | nil => intro i v h; simp at h
  | cons x rest ih =>
    intro i v h
    cases x with
    | none =>
      have h' : (rest.filterMap id)[i]? = some v := by simpa using h
      simp only [origIdx, List.getElem?_cons_succ]
      exact ih i v h'
    | some w =>
      cases i with
      | zero => simp at h; simp [origIdx, h]
      | succ i =>
        have h' : (rest.filterMap id)[i]? = some v := by simpa using h
        simp only [origIdx, List.getElem?_cons_succ]
        exact ih i v h'

theorem zip_map_map {α β γ : Type} (f : α → β) (g : α → γ) (l : List α) :
    (l.map f).zip (l.map g) = l.map fun p => (f p, g p) := by
  induction l with
  | nil => rfl
  | cons x l ih => simp [ih]

theorem findTurnsNan_eq (s : List (Option Int)) :
    findTurnsNan s = (findTurns (s.filterMap id)).map fun p => (origIdx s p.1, p.2) := by
  simp only [findTurnsNan, whereIdx_isNone, correctByNans_eq_map]
  rw [List.map_map, zip_map_map]
  apply List.map_congr_left
  intro p hp
  have hlt := findTurns_index_lt _ p hp
  have := corr_nanPosFrom s 0 p.1 hlt
  simp only [Nat.add_zero] at this
  simp [this]

theorem findTurnsNan_valid (s : List (Option Int)) :
    ∀ p ∈ findTurnsNan s, s[p.1]? = some (some p.2) := by
  intro p hp
  rw [findTurnsNan_eq] at hp
  obtain ⟨q, hq, rfl⟩ := List.mem_map.mp hp
  exact getElem?_origIdx s q.1 q.2 (findTurns_index_valid _ q hq)

/-! ### values of the turning points: a scan without indices -/

/-- Value-only version of `findTurnsAux`; the candidate value always equals `prev`. -/
def tv (dir : Int) (prev : Int) : List Int → List Int
  | [] => []
  | x :: xs =>
    let d := sgn (x - prev)
    if d = 0 then tv dir prev xs
    else if dir ≠ 0 ∧ d ≠ dir then prev :: tv d x xs
    else tv d x xs

theorem sgn_eq_zero {x : Int} (h : sgn x = 0) : x = 0 := by
  rcases sgn_cases x with ⟨_, e⟩ | ⟨_, e⟩ | ⟨e, _⟩
  · rw [e] at h; cases h
  · rw [e] at h; cases h
  · exact e

theorem findTurnsAux_vals (xs : List Int) : ∀ (dir : Int) (cand : Pt) (i : Nat) (prev : Int),
    cand.2 = prev → (findTurnsAux dir cand i prev xs).map (·.2) = tv dir prev xs := by
  induction xs with
  | nil => intro dir cand i prev _; rfl
  | cons x xs ih =>
    intro dir cand i prev hc
    simp only [findTurnsAux, tv]
    by_cases hd : sgn (x - prev) = 0
    · have hx : x = prev := by have := sgn_eq_zero hd; omega
      rw [if_pos hd, if_pos hd, ih dir cand (i+1) x (by rw [hc, hx]), hx]
    · rw [if_neg hd, if_neg hd]
      by_cases he : dir ≠ 0 ∧ sgn (x - prev) ≠ dir
      · rw [if_pos he, if_pos he, List.map_cons, ih _ (i, x) (i+1) x rfl, hc]
      · rw [if_neg he, if_neg he, ih _ (i, x) (i+1) x rfl]

theorem findTurns_vals (x : Int) (xs : List Int) : (findTurns (x :: xs)).map (·.2) = tv 0 x xs :=
  findTurnsAux_vals xs 0 (0, x) 1 x rfl

theorem tv_insert_core (dir x v y : Int) (post : List Int)
    (hv : (x ≤ v ∧ v ≤ y) ∨ (y ≤ v ∧ v ≤ x)) :
    tv dir x (v :: y :: post) = tv dir x (y :: post) := by
  by_cases hvx : v = x
  · subst hvx
    have : sgn (v - v) = 0 := by rw [Int.sub_self]; exact sgn_zero
    rw [tv]; simp only [this, if_true]
  · obtain ⟨s, hs, h1, h2, h3⟩ : ∃ s : Int, s ≠ 0 ∧ sgn (v - x) = s ∧ sgn (y - x) = s ∧
        (sgn (y - v) = s ∨ y = v) := by
      rcases hv with ⟨h1, h2⟩ | ⟨h1, h2⟩
      · refine ⟨1, by decide, sgn_pos (by omega), sgn_pos (by omega), ?_⟩
        by_cases hy : y = v
        · exact Or.inr hy
        · exact Or.inl (sgn_pos (by omega))
      · refine ⟨-1, by decide, sgn_neg (by omega), sgn_neg (by omega), ?_⟩
        by_cases hy : y = v
        · exact Or.inr hy
        · exact Or.inl (sgn_neg (by omega))
    rcases h3 with h3 | h3
    · simp only [tv, h1, h2, h3, if_neg hs]
      simp
    · subst h3
      have h0 : sgn (y - y) = 0 := by rw [Int.sub_self]; exact sgn_zero
      simp only [tv, h1, h0, if_neg hs, if_true]

theorem tv_insert (pre : List Int) (x v y : Int) (post : List Int)
    (hv : (x ≤ v ∧ v ≤ y) ∨ (y ≤ v ∧ v ≤ x)) : ∀ (dir prev : Int),
    tv dir prev (pre ++ x :: v :: y :: post) = tv dir prev (pre ++ x :: y :: post) := by
  induction pre with
  | nil =>
    intro dir prev
    simp only [List.nil_append]
    rw [tv, tv.eq_2 dir prev x (y :: post)]
    by_cases hd : sgn (x - prev) = 0
    · have hx : prev = x := by have := sgn_eq_zero hd; omega
      rw [if_pos hd, if_pos hd, hx]
      exact tv_insert_core dir x v y post hv
    · simp only [if_neg hd, tv_insert_core _ x v y post hv]
  | cons p pre ih =>
    intro dir prev
    simp only [List.cons_append, tv, ih]

theorem findTurns_insert_vals (pre post : List Int) (x y v : Int)
    (hv : (x ≤ v ∧ v ≤ y) ∨ (y ≤ v ∧ v ≤ x)) :
    (findTurns (pre ++ x :: v :: y :: post)).map (·.2) = (findTurns (pre ++ x :: y :: post)).map (·.2) := by
  cases pre with
  | nil =>
    simp only [List.nil_append, findTurns_vals]
    exact tv_insert_core 0 x v y post hv
  | cons p pre =>
    simp only [List.cons_append, findTurns_vals]
    exact tv_insert pre x v y post hv 0 p

end PylifeVerif.Sym
