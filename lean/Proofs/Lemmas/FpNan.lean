/-
Lemmas for audit item C03-2: `_new_turns` and the four-point detector on samples with NaNs
(`newTurnsNan`, `fpRunNan` of `Model/Rainflow/Literal.lean`).

Part 1  `origIndex` (position of the i-th non-NaN sample) under append / drop.
Part 2  `newTurnsNan` chunk by chunk: canonical state, reported turns = the newly decided turns of
        the cleaned signal, indices mapped by `origIndex`.
Part 3  `fpCloseN` / `fpFeedN` on stacks without NaN = `fpClose` / `fpFeed`.
Part 4  the algebra of one `process` call in the clean world (`core_step`): a provisional closing that
        was made with an earlier last sample `w` is absorbed; a chunk that ends in NaN closes nothing.
Part 5  the invariant `Inv` of `fpProcessNan` and its preservation.
-/
import Proofs.Lemmas.Common
import Proofs.Lemmas.FourPointChunks
import Proofs.C03Sym
import Proofs.C01Core
import Model.Rainflow.Literal

namespace PylifeVerif.Rainflow.Nan
open PylifeVerif.Rainflow PylifeVerif.C03 PylifeVerif.Rainflow.Common

/-- the samples that are not NaN -/
abbrev clean (s : List (Option Int)) : List Int := s.filterMap id

theorem clean_append (P R : List (Option Int)) : clean (P ++ R) = clean P ++ clean R := by
  simp [clean, List.filterMap_append]

/-! ### Part 1: `origIndex` -/

theorem origIndex_append (P R : List (Option Int)) : ∀ i, i < (clean P).length →
    origIndex (P ++ R) i = origIndex P i := by
  induction P with
  | nil => intro i h; simp at h
  | cons x rest ih =>
    intro i h
    cases x with
    | none =>
      have h' : i < (clean rest).length := by simpa [clean] using h
      simp only [List.cons_append, origIndex, ih i h']
    | some v =>
      cases i with
      | zero => simp [origIndex]
      | succ i =>
        have h' : i < (clean rest).length := by simpa [clean] using h
        simp only [List.cons_append, origIndex, ih i h']

theorem origIndex_add (S : List (Option Int)) : ∀ t j, t ≤ (clean S).length →
    origIndex S (t + j) = origIndex S t + origIndex (S.drop (origIndex S t)) j := by
  induction S with
  | nil =>
    intro t j h
    have : t = 0 := by simpa [clean] using h
    subst this; simp [origIndex]
  | cons x rest ih =>
    intro t j h
    cases x with
    | none =>
      have h' : t ≤ (clean rest).length := by simpa [clean] using h
      simp only [origIndex, List.drop_succ_cons]
      rw [ih t j h']; omega
    | some v =>
      cases t with
      | zero => simp [origIndex]
      | succ t =>
        have h' : t ≤ (clean rest).length := by simpa [clean] using h
        rw [show t + 1 + j = (t + j) + 1 by omega]
        simp only [origIndex, List.drop_succ_cons]
        rw [ih t j h']; omega

theorem clean_drop_origIndex (S : List (Option Int)) : ∀ t,
    clean (S.drop (origIndex S t)) = (clean S).drop t := by
  induction S with
  | nil => intro t; simp [origIndex]
  | cons x rest ih =>
    intro t
    cases x with
    | none => simp only [origIndex, List.drop_succ_cons]; rw [ih t]; simp [clean]
    | some v =>
      cases t with
      | zero => simp [origIndex]
      | succ t => simp only [origIndex, List.drop_succ_cons]; rw [ih t]; simp [clean]

theorem origIndex_le (S : List (Option Int)) : ∀ t, t ≤ (clean S).length →
    origIndex S t ≤ S.length := by
  induction S with
  | nil => intro t h; have : t = 0 := by simpa [clean] using h
           subst this; simp [origIndex]
  | cons x rest ih =>
    intro t h
    cases x with
    | none =>
      have h' : t ≤ (clean rest).length := by simpa [clean] using h
      simp only [origIndex, List.length_cons]; have := ih t h'; omega
    | some v =>
      cases t with
      | zero => simp [origIndex]
      | succ t =>
        have h' : t ≤ (clean rest).length := by simpa [clean] using h
        simp only [origIndex, List.length_cons]; have := ih t h'; omega

theorem origIndex_last (A : List (Option Int)) (v : Int) :
    origIndex (A ++ [some v]) (clean A).length = A.length := by
  induction A with
  | nil => simp [origIndex]
  | cons x rest ih =>
    cases x with
    | none => simp only [List.cons_append, origIndex, List.length_cons]; simpa [clean] using ih
    | some w =>
      have h1 : (clean (some w :: rest)).length = (clean rest).length + 1 := by simp [clean]
      rw [h1]
      simp only [List.cons_append, List.length_cons, origIndex]
      simpa [clean] using ih

theorem origIndex_zero_some (v : Int) (rest : List (Option Int)) : origIndex (some v :: rest) 0 = 0 := by
  simp [origIndex]

/-! ### Part 2: `_new_turns` with NaNs -/

/-- re-index a point -/
def reidx (g : Nat → Nat) (p : Pt) : Pt := (g p.1, p.2)

theorem findTurnsNan_eq (s : List (Option Int)) :
    findTurnsNan s = (findTurns (clean s)).map (reidx (origIndex s)) :=
  findTurnsNan_reindex s

theorem lastIdx_map_reidx (g : Nat → Nat) (l : List Pt) (h : l ≠ []) :
    lastIdx (l.map (reidx g)) = g (lastIdx l) := by
  unfold lastIdx
  rw [List.getLast?_map, List.getLast?_eq_some_getLast h]
  rfl

theorem lastIdx_lt (p : List Int) (h : findTurns p ≠ []) : lastIdx (findTurns p) < p.length := by
  have hm : (findTurns p).getLast h ∈ findTurns p := List.getLast_mem h
  have := Sym.findTurns_index_lt p _ hm
  unfold lastIdx
  rw [List.getLast?_eq_some_getLast h]
  exact this

/-- The bookkeeping state of `_new_turns` after the signal `P` (with NaNs) has been fed in any
chunking: the ORIGINAL samples from the last decided turn on, and the number of samples. -/
def canonNanTs (P : List (Option Int)) : TurnStateNan :=
  { tail := P.drop (lastIdx (findTurnsNan P)), head := P.length }

theorem canonNanTs_nil : canonNanTs [] = {} := by
  simp [canonNanTs]

/-- original position of the last decided turn of `P` (0 if there is none) -/
theorem lastIdx_findTurnsNan (P : List (Option Int)) :
    lastIdx (findTurnsNan P) =
      if findTurns (clean P) = [] then 0 else origIndex P (lastIdx (findTurns (clean P))) := by
  rw [findTurnsNan_eq]
  split
  · rename_i h; rw [h]; rfl
  · rename_i h; exact lastIdx_map_reidx _ _ h

/-- One call of `_new_turns` with a non-empty chunk (NaNs allowed anywhere), started in the canonical
state of `P`: the canonical state of `P ++ ch`, and the reported turns are the newly decided turns
of the cleaned signal at their original positions. -/
theorem newTurnsNan_def (st : TurnStateNan) (samples : List (Option Int)) (h : samples ≠ []) :
    newTurnsNan st samples =
      ({ tail := (st.tail ++ samples).drop (lastIdx (findTurnsNan (st.tail ++ samples))),
         head := st.head + samples.length },
       (findTurnsNan (st.tail ++ samples)).map fun p => (p.1 + (st.head - st.tail.length), p.2)) := by
  have hemp : samples.isEmpty = false := by cases samples <;> simp_all
  unfold newTurnsNan
  simp only [hemp, Bool.false_eq_true, if_false]
  rfl

theorem newTurnsNan_canon (P ch : List (Option Int)) (hch : ch ≠ []) :
    newTurnsNan (canonNanTs P) ch =
      (canonNanTs (P ++ ch),
       (newTurnsOf (clean P) (clean ch)).map (reidx (origIndex (P ++ ch)))) := by
  rw [newTurnsNan_def _ _ hch]
  by_cases hT : findTurns (clean P) = []
  · -- no turn decided so far: the tail is the whole of `P`
    have ht : lastIdx (findTurnsNan P) = 0 := by rw [lastIdx_findTurnsNan, if_pos hT]
    have hN : newTurnsOf (clean P) (clean ch) = findTurns (clean (P ++ ch)) := by
      simp only [newTurnsOf, hT, lastIdx_nil, List.drop_zero, shiftPts_zero, clean_append]
    simp only [canonNanTs, ht, List.drop_zero, Nat.sub_self, Nat.add_zero]
    rw [hN, ← findTurnsNan_eq]
    simp [List.length_append]
  · -- the tail starts at the last decided turn
    have ht'lt : lastIdx (findTurns (clean P)) < (clean P).length := lastIdx_lt _ hT
    have ht : lastIdx (findTurnsNan P) = origIndex P (lastIdx (findTurns (clean P))) := by
      rw [lastIdx_findTurnsNan, if_neg hT]
    generalize ht'def : lastIdx (findTurns (clean P)) = t' at ht ht'lt
    generalize htdef : lastIdx (findTurnsNan P) = t at ht
    have htle : t ≤ P.length := by rw [ht]; exact origIndex_le P t' (by omega)
    have hswt : clean (P.drop t ++ ch) = (clean P).drop t' ++ clean ch := by
      rw [clean_append, ht, clean_drop_origIndex]
    have hdrop : (P ++ ch).drop t = P.drop t ++ ch := List.drop_append_of_le_length htle
    have hoPc : origIndex (P ++ ch) t' = t := by rw [origIndex_append P ch t' ht'lt, ht]
    -- index map of the local turns
    have hidx : ∀ j, origIndex (P ++ ch) (j + t') = origIndex (P.drop t ++ ch) j + t := by
      intro j
      have := origIndex_add (P ++ ch) t' j (by rw [clean_append, List.length_append]; omega)
      rw [Nat.add_comm j t', this, hoPc, hdrop]; omega
    let F := findTurns ((clean P).drop t' ++ clean ch)
    have hNew : newTurnsOf (clean P) (clean ch) = shiftPts t' F := by
      simp only [newTurnsOf, ht'def, F]
    have hturns : (findTurnsNan (P.drop t ++ ch)).map (fun p => (p.1 + t, p.2)) =
        (shiftPts t' F).map (reidx (origIndex (P ++ ch))) := by
      rw [findTurnsNan_eq, hswt]
      simp only [shiftPts, List.map_map]
      apply List.map_congr_left
      intro p _
      simp only [Function.comp, reidx, hidx]
    -- position of the last decided turn of `P ++ ch`
    have hlast : lastIdx (findTurnsNan (P ++ ch)) = t + lastIdx (findTurnsNan (P.drop t ++ ch)) := by
      rw [lastIdx_findTurnsNan, lastIdx_findTurnsNan, hswt, clean_append, findTurns_append_eq, hNew]
      have hne : ¬ (findTurns (clean P) ++ shiftPts t' F = []) := by simp [hT]
      rw [if_neg hne]
      show origIndex (P ++ ch) (lastIdx (findTurns (clean P) ++ shiftPts t' F)) =
        t + (if F = [] then 0 else origIndex (P.drop t ++ ch) (lastIdx F))
      by_cases hF : F = []
      · rw [hF]; simp only [shiftPts_nil, List.append_nil, if_true, ht'def, hoPc, Nat.add_zero]
      · rw [if_neg hF, lastIdx_append_of_ne_nil _ _ (by simpa [shiftPts] using hF),
          lastIdx_shiftPts _ _ hF, hidx]; omega
    have hoff : (canonNanTs P).head - (canonNanTs P).tail.length = t := by
      simp only [canonNanTs, htdef, List.length_drop]; omega
    rw [hoff]
    simp only [canonNanTs, htdef]
    rw [hturns, hNew, hlast, ← List.drop_drop, hdrop]
    simp [List.length_append]

/-! ### Part 3: stacks without NaN -/

def liftPt (g : Nat → Nat) (p : Pt) : PtN := (g p.1, some p.2)
def liftCyc (g : Nat → Nat) (c : Cycle) : Cycle := ((g c.1.1, c.1.2), (g c.2.1, c.2.2))

theorem fpCloseN_some (c b a : PtN) (rest : List PtN) (d : Option Int) (cyc : Cycle)
    (h : closeCondN a b c d = some cyc) :
    fpCloseN (c :: b :: a :: rest) d = (cyc :: (fpCloseN (a :: rest) d).1, (fpCloseN (a :: rest) d).2) := by
  rw [fpCloseN]; simp [h]

theorem fpCloseN_none (c b a : PtN) (rest : List PtN) (d : Option Int)
    (h : closeCondN a b c d = none) :
    fpCloseN (c :: b :: a :: rest) d = ([], c :: b :: a :: rest) := by
  rw [fpCloseN]; simp [h]

theorem closeCondN_nan (a b c : PtN) : closeCondN a b c none = none := by
  unfold closeCondN
  split <;> simp_all

/-- a NaN closes nothing -/
theorem fpCloseN_nan (st : List PtN) : fpCloseN st none = ([], st) := by
  match st with
  | [] => simp [fpCloseN]
  | [_] => simp [fpCloseN]
  | [_, _] => simp [fpCloseN]
  | c :: b :: a :: rest => exact fpCloseN_none c b a rest none (closeCondN_nan a b c)

theorem closeCondN_lift (g : Nat → Nat) (a b c : Pt) (d : Int) :
    closeCondN (liftPt g a) (liftPt g b) (liftPt g c) (some d) =
      if absDiff b.2 c.2 ≤ absDiff a.2 b.2 ∧ absDiff b.2 c.2 ≤ absDiff c.2 d then
        some (liftCyc g (b, c)) else none := by
  simp [closeCondN, liftPt, liftCyc]

theorem fpCloseN_lift (g : Nat → Nat) (st : List Pt) (d : Int) :
    fpCloseN (st.map (liftPt g)) (some d) =
      ((fpClose st d).1.map (liftCyc g), (fpClose st d).2.map (liftPt g)) := by
  fun_induction fpClose st d with
  | case1 c b a rest d h r ih =>
    simp only [List.map_cons] at ih ⊢
    rw [fpCloseN_some _ _ _ _ _ (liftCyc g (b, c)) (by rw [closeCondN_lift, if_pos h]), ih]
  | case2 c b a rest d h =>
    simp only [List.map_cons]
    rw [fpCloseN_none _ _ _ _ _ (by rw [closeCondN_lift, if_neg h])]
    simp
  | case3 st d h =>
    match st, h with
    | [], _ => simp [fpCloseN]
    | [_], _ => simp [fpCloseN]
    | [_, _], _ => simp [fpCloseN]
    | c :: b :: a :: rest, h => exact absurd rfl (h c b a rest)

theorem fpFeedN_lift (g : Nat → Nat) (N : List Pt) : ∀ st : List Pt,
    fpFeedN (st.map (liftPt g)) (N.map (liftPt g)) =
      ((fpFeed st N).1.map (liftCyc g), (fpFeed st N).2.map (liftPt g)) := by
  induction N with
  | nil => intro st; simp [fpFeedN, fpFeed]
  | cons p N ih =>
    intro st
    simp only [List.map_cons, fpFeedN, fpPushN, fpFeed, fpPush]
    have h1 : (liftPt g p).2 = some p.2 := rfl
    rw [h1, fpCloseN_lift]
    have := ih (p :: (fpClose st p.2).2)
    simp only [List.map_cons] at this
    rw [this]
    simp

/-- closing with a sample that may be NaN (`none`), or not closing at all -/
def closeOpt (st : List Pt) : Option Int → List Cycle × List Pt
  | none => ([], st)
  | some d => fpClose st d

theorem fpCloseN_lift_opt (g : Nat → Nat) (st : List Pt) (d : Option Int) :
    fpCloseN (st.map (liftPt g)) d =
      ((closeOpt st d).1.map (liftCyc g), (closeOpt st d).2.map (liftPt g)) := by
  cases d with
  | none => simp [closeOpt, fpCloseN_nan]
  | some d => exact fpCloseN_lift g st d


/-! ### Part 4: one `process` call in the clean world -/

/-- the provisional closing value that is pending after a chunk: the chunk's last sample if it is
not NaN; otherwise the old one if no new turn was decided, and none if one was -/
def nextW (w : Option Int) (N : List Pt) : Option Int → Option Int
  | some d' => some d'
  | none => if N.isEmpty then w else none

/-- **One call, clean world.**  The stack `st` holds the decided turns; a provisional closing with
`w` (the last non-NaN sample of an earlier chunk) may have been applied.  Feeding the newly decided
turns `N` and closing provisionally with the chunk's last sample `dl` (nothing if NaN) gives what
feeding `N` to `st` itself and one provisional closing with `nextW w N dl` gives. -/
theorem core_step (st : List Pt) (w : Option Int) (N : List Pt) (dl : Option Int) (dEnd : Int)
    (h : ∀ wv, w = some wv → ∃ up, ZZd up st ∧ TopLe up st wv ∧ dle up wv (nextVal N dEnd))
    (hdl : ∀ d', dl = some d' → d' = dEnd) :
    (closeOpt st w).1 ++ (fpFeed (closeOpt st w).2 N).1 ++
          (closeOpt (fpFeed (closeOpt st w).2 N).2 dl).1 =
        (fpFeed st N).1 ++ (closeOpt (fpFeed st N).2 (nextW w N dl)).1 ∧
      (closeOpt (fpFeed (closeOpt st w).2 N).2 dl).2 =
        (closeOpt (fpFeed st N).2 (nextW w N dl)).2 := by
  cases w with
  | none =>
    cases dl with
    | none => cases N <;> simp [closeOpt, nextW]
    | some d' => simp [closeOpt, nextW]
  | some wv =>
    obtain ⟨up, hz, ht, hd⟩ := h wv rfl
    cases dl with
    | some d' =>
      have hd' : d' = dEnd := hdl d' rfl
      subst hd'
      obtain ⟨h1, h2⟩ := fpClose_fpFeedClose st wv d' N up hz ht hd
      simp only [fpFeedClose] at h1 h2
      simp only [closeOpt, nextW]
      refine ⟨?_, h2⟩
      rw [← h1]; simp [List.append_assoc]
    | none =>
      cases N with
      | nil => simp [closeOpt, nextW, fpFeed]
      | cons p N' =>
        simp only [nextVal] at hd
        obtain ⟨h1, h2⟩ := fpClose_fpClose st wv p.2 up hz ht hd
        simp only [closeOpt, nextW, fpFeed, fpPush, List.isEmpty_cons, Bool.false_eq_true,
          if_false, List.append_nil, h2]
        refine ⟨?_, trivial⟩
        rw [← h1]; simp [List.append_assoc]

/-- A provisional closing with `w` after the signal `cp` is harmless for every continuation `c`. -/
def Harmless (x0 : Int) (cp : List Int) (w : Int) : Prop :=
  ∀ c : List Int, ∃ up, ZZd up (fpFeed [(0, x0)] (findTurns cp)).2 ∧
    TopLe up (fpFeed [(0, x0)] (findTurns cp)).2 w ∧
    dle up w (nextVal (newTurnsOf cp c) (cp ++ c).getLast!)

/-- the last sample of a signal is a harmless closing value (`fpFeed_findTurns_inv`) -/
theorem harmless_last (x0 : Int) (xs : List Int) : Harmless x0 (x0 :: xs) (x0 :: xs).getLast! :=
  fun c => fpFeed_findTurns_inv x0 xs c

theorem newTurnsOf_assoc (cp cc c' : List Int) (hN : newTurnsOf cp cc = []) :
    newTurnsOf (cp ++ cc) c' = newTurnsOf cp (cc ++ c') := by
  have h1 := findTurns_append_eq cp (cc ++ c')
  have h2 := findTurns_append_eq (cp ++ cc) c'
  have h3 := findTurns_append_eq cp cc
  rw [hN, List.append_nil] at h3
  rw [h3, List.append_assoc] at h2
  exact List.append_cancel_left (h2.symm.trans h1)

/-- a harmless closing value stays harmless while no new turn is decided -/
theorem harmless_extend (x0 : Int) (cp cc : List Int) (wv : Int) (hN : newTurnsOf cp cc = [])
    (h : Harmless x0 cp wv) : Harmless x0 (cp ++ cc) wv := by
  intro c'
  obtain ⟨up, hz, ht, hd⟩ := h (cc ++ c')
  have h3 := findTurns_append_eq cp cc
  rw [hN, List.append_nil] at h3
  rw [h3, newTurnsOf_assoc cp cc c' hN, List.append_assoc]
  exact ⟨up, hz, ht, hd⟩

theorem clean_getLast (s : List (Option Int)) (d : Int) (h : s.getLast? = some (some d)) :
    (clean s).getLast! = d := by
  obtain ⟨A, rfl⟩ := List.getLast?_eq_some_iff.mp h
  rw [clean_append]
  show (clean A ++ [d]).getLast! = d
  rw [getLast!_append_cons]; rfl

/-! ### Part 5: the invariant of `fpProcessNan` -/

/-- State of `fpProcessNan` after the samples `P` (a prefix of the whole signal, whose first sample
is `x0`, not NaN), in ANY chunking.  `g` maps clean positions to original positions.  Unlike for
NaN-free signals there is no canonical state: when `P` ends in NaN, a provisional closing with an
earlier sample `w` may or may not have taken place - but such a `w` is harmless. -/
structure Inv (g : Nat → Nat) (x0 : Int) (P : List (Option Int)) (st : DetStateNan) : Prop where
  ts : st.ts = canonNanTs P
  lastNone : P = [] → st.last = none
  lastSome : P ≠ [] → st.last = some (P.getLast?.getD none)
  body : ∃ w : Option Int, (∀ v, P.getLast? = some (some v) → w = some v) ∧
    (∀ wv, w = some wv → Harmless x0 (clean P) wv) ∧
    (if st.last.isNone then [((0 : Nat), some x0)] else st.stack) =
      (closeOpt (fpFeed [(0, x0)] (findTurns (clean P))).2 w).2.map (liftPt g) ∧
    st.cycles = ((fpFeed [(0, x0)] (findTurns (clean P))).1 ++
      (closeOpt (fpFeed [(0, x0)] (findTurns (clean P))).2 w).1).map (liftCyc g)

theorem inv_init (g : Nat → Nat) (hg : g 0 = 0) (x0 : Int) : Inv g x0 [] {} := by
  refine ⟨by simp [canonNanTs], fun _ => rfl, fun h => absurd rfl h, none, by simp, by simp, ?_, ?_⟩
  · simp [clean, findTurns, fpFeed, closeOpt, liftPt, hg]
  · simp [clean, findTurns, fpFeed, closeOpt]

theorem inv_step (flat : List (Option Int)) (x0 : Int) (F' : List (Option Int))
    (hflat : flat = some x0 :: F') (P ch R : List (Option Int)) (hPR : P ++ ch ++ R = flat)
    (hch : ch ≠ []) (st : DetStateNan) (h : Inv (origIndex flat) x0 P st) :
    Inv (origIndex flat) x0 (P ++ ch) (fpProcessNan st ch) := by
  obtain ⟨hts, hlN, hlS, w, hw1, hw2, hbase, hcyc⟩ := h
  cases ch with
  | nil => exact absurd rfl hch
  | cons s0 tl =>
    -- the cleaned prefix starts with `x0`
    have hne : P ++ s0 :: tl ≠ [] := by simp
    obtain ⟨xs', hxs'⟩ : ∃ xs', clean (P ++ s0 :: tl) = x0 :: xs' := by
      cases hP : P ++ s0 :: tl with
      | nil => exact absurd hP hne
      | cons y Y =>
        rw [hP, hflat] at hPR
        simp only [List.cons_append, List.cons.injEq] at hPR
        rw [hPR.1]
        exact ⟨clean Y, by simp [clean]⟩
    have hs0 : P = [] → s0 = some x0 := by
      intro hP
      rw [hP, hflat] at hPR
      simp only [List.nil_append, List.cons_append, List.cons.injEq] at hPR
      exact hPR.1
    -- base
    have hbase' : (if st.last.isNone then [((0 : Nat), s0)] else st.stack) =
        (closeOpt (fpFeed [(0, x0)] (findTurns (clean P))).2 w).2.map (liftPt (origIndex flat)) := by
      rw [← hbase]
      by_cases hP : P = []
      · rw [hs0 hP]
      · rw [hlS hP]; simp
    -- new turns
    let N := newTurnsOf (clean P) (clean (s0 :: tl))
    have hNsub : ∀ p ∈ N, p.1 < (clean (P ++ s0 :: tl)).length := by
      intro p hp
      apply Sym.findTurns_index_lt
      rw [clean_append, findTurns_append_eq]
      exact List.mem_append_right _ hp
    have hturns : newTurnsNan st.ts (s0 :: tl) =
        (canonNanTs (P ++ s0 :: tl), N.map (reidx (origIndex flat))) := by
      rw [hts, newTurnsNan_canon P (s0 :: tl) hch]
      congr 1
      apply List.map_congr_left
      intro p hp
      simp only [reidx]
      rw [← hPR, origIndex_append (P ++ s0 :: tl) R p.1 (hNsub p hp)]
    have hlift : (N.map (reidx (origIndex flat))).map (fun p => (p.1, some p.2)) =
        N.map (liftPt (origIndex flat)) := by
      simp [List.map_map, reidx, liftPt, Function.comp_def]
    -- last sample of the chunk
    let lastv : Option Int := (s0 :: tl).getLast?.getD none
    have hlastP : (P ++ s0 :: tl).getLast? = some lastv := by
      rw [List.getLast?_append_of_ne_nil _ (List.cons_ne_nil _ _)]
      simp only [lastv]
      rw [List.getLast?_eq_some_getLast (List.cons_ne_nil _ _)]; rfl
    have hdl : ∀ d', lastv = some d' → d' = (clean P ++ clean (s0 :: tl)).getLast! := by
      intro d' hd'
      rw [← clean_append, clean_getLast _ d' (by rw [hlastP, hd'])]
    -- the clean-world step
    let S := fpFeed [(0, x0)] (findTurns (clean P))
    have hcore := core_step S.2 w N lastv (clean P ++ clean (s0 :: tl)).getLast!
      (fun wv hwv => by
        obtain ⟨up, hz, ht, hd⟩ := hw2 wv hwv (clean (s0 :: tl))
        exact ⟨up, hz, ht, hd⟩) hdl
    have hS' : fpFeed [(0, x0)] (findTurns (clean (P ++ s0 :: tl))) =
        (S.1 ++ (fpFeed S.2 N).1, (fpFeed S.2 N).2) := by
      rw [clean_append, findTurns_append_eq, fpFeed_append]
    -- unfold the model
    have hproc : fpProcessNan st (s0 :: tl) =
        { ts := canonNanTs (P ++ s0 :: tl),
          stack := (closeOpt (fpFeed (closeOpt S.2 w).2 N).2 lastv).2.map (liftPt (origIndex flat)),
          last := some lastv,
          cycles := st.cycles ++ (fpFeed (closeOpt S.2 w).2 N).1.map (liftCyc (origIndex flat)) ++
            (closeOpt (fpFeed (closeOpt S.2 w).2 N).2 lastv).1.map (liftCyc (origIndex flat)),
          chunks := st.chunks ++ [(s0 :: tl).length] } := by
      simp only [fpProcessNan, hturns, hbase', hlift, fpFeedN_lift, fpCloseN_lift_opt]
      rfl
    rw [hproc]
    refine ⟨rfl, fun hP => absurd hP hne, fun _ => by simp [hlastP], nextW w N lastv, ?_, ?_, ?_, ?_⟩
    · intro v hv
      rw [hlastP] at hv
      have : lastv = some v := by simpa using hv
      rw [this]; rfl
    · intro wv hwv
      cases hl : lastv with
      | some d' =>
        rw [hl] at hwv
        simp only [nextW, Option.some.injEq] at hwv
        subst hwv
        have hd := hdl d' hl
        rw [← clean_append, hxs'] at hd
        rw [hxs', hd]
        exact harmless_last x0 xs'
      | none =>
        rw [hl] at hwv
        by_cases hN : N = []
        · simp only [nextW, hN, List.isEmpty_nil, if_true] at hwv
          rw [clean_append]
          exact harmless_extend x0 _ _ wv hN (hw2 wv hwv)
        · have : N.isEmpty = false := by cases hNN : N <;> simp_all
          simp [nextW, this] at hwv
    · simp only [Option.isNone_some, Bool.false_eq_true, if_false]
      rw [hS', hcore.2]
    · simp only
      rw [hS', hcyc, ← List.map_append, ← List.map_append]
      congr 1
      simp only [List.append_assoc]
      have := hcore.1
      simp only [List.append_assoc] at this
      rw [this]

theorem inv_run (flat : List (Option Int)) (x0 : Int) (F' : List (Option Int))
    (hflat : flat = some x0 :: F') (cs : List (List (Option Int))) (hne : ∀ c ∈ cs, c ≠ []) :
    ∀ (P R : List (Option Int)) (st : DetStateNan), P ++ cs.flatten ++ R = flat →
      Inv (origIndex flat) x0 P st →
      Inv (origIndex flat) x0 (P ++ cs.flatten) (cs.foldl fpProcessNan st) := by
  induction cs with
  | nil => intro P R st _ h; simpa using h
  | cons c cs ih =>
    intro P R st hPR h
    simp only [List.foldl_cons, List.flatten_cons]
    rw [← List.append_assoc]
    have hc := hne c (by simp)
    have hstep := inv_step flat x0 F' hflat P c (cs.flatten ++ R)
      (by rw [← hPR]; simp [List.append_assoc]) hc st h
    exact ih (fun c' hc' => hne c' (by simp [hc'])) (P ++ c) R _
      (by rw [← hPR]; simp [List.append_assoc]) hstep

theorem chunks_run (cs : List (List (Option Int))) : ∀ st : DetStateNan,
    (cs.foldl fpProcessNan st).chunks = st.chunks ++ (cs.filter (· ≠ [])).map List.length := by
  induction cs with
  | nil => intro st; simp
  | cons c cs ih =>
    intro st
    simp only [List.foldl_cons]
    rw [ih]
    cases c with
    | nil => simp [fpProcessNan]
    | cons s0 tl => simp [fpProcessNan, List.append_assoc]

end PylifeVerif.Rainflow.Nan
