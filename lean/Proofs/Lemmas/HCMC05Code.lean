/-
C05 for the CODE model (`twoPass` / `adjustFirstRun`: flush flag of the first run decided on
`findTurns (reps ++ reps)`).  Everything in `Proofs/Lemmas/HCMC05.lean` is generic in the flush flag;
this file only redoes the top-level assembly with the code's flag `flushBaseC` and shows that flag
invariant under positive scaling of the signal (`flushBaseC_scale`).
-/
import Proofs.Lemmas.HCMC05

namespace PylifeVerif.HCM.C05L
open PylifeVerif.Rainflow PylifeVerif.HCM

/-- the code's first-run flush flag as a function of the (zero-prefixed) first-point loads -/
def flushBaseC (reps : List Int) : Bool :=
  ((findTurns (reps ++ reps)).map (·.1)).contains (reps.length - 1)

theorem adjustFirstRun_mapC (f : Int → Vec) (L : List Int) (hL : L ≠ []) (n : Nat)
    (hn : ∀ x, (f x).length = n) (h0 : f 0 = List.replicate n 0) :
    adjustFirstRun (L.map f) = ((0 :: L).map f, flushBaseC ((0 :: L).map fun x => rep (f x))) := by
  cases L with
  | nil => exact absurd rfl hL
  | cons a L =>
    unfold adjustFirstRun flushBaseC
    simp only [List.map_cons, List.headD_cons, hn, ← h0, List.map_map, Function.comp_def, List.length_cons,
      List.length_map]

theorem twoPass_eqC (law : Law) (f : Int → Vec) (L : List Int) (hL : L ≠ []) (n : Nat)
    (hn : ∀ x, (f x).length = n) (h0 : f 0 = List.replicate n 0) :
    twoPass law (L.map f) =
      process law (process law {} ((0 :: dropBase (L.map fun x => rep (f x)) L).map f)
        (flushBaseC ((0 :: dropBase (L.map fun x => rep (f x)) L).map fun x => rep (f x))))
        ((dropBase (L.map fun x => rep (f x)) L).map f) true := by
  unfold twoPass
  simp only [dropTrailing_map]
  rw [adjustFirstRun_mapC f _ (dropBase_ne _ _ hL) n hn h0]

theorem twoPass_oneC (law : Law) (s : List Int) : ∃ ls1 ls2 : List Int,
    RelP (twoPass law (s.map fun x => [x])) (twoPass law (s.map fun x => [x])).prevLoad
      (Spec.guideline law ls1 ls2) ∧
    (twoPass law (s.map fun x => [x])).fed =
      ls1.map (fun x => (1, [x])) ++ ls2.map (fun x => (2, [x])) := by
  by_cases hs : s = []
  · subst hs
    exact ⟨[], [], ⟨⟨rfl, rfl, rfl, Nat.le_refl 1, rfl, rfl, rfl, rfl⟩, rfl, rfl⟩, rfl⟩
  · rw [twoPass_eqC law (fun x => [x]) s hs 1 (fun _ => rfl) rfl]
    simp only [rep_one]
    generalize dropBase (List.map (fun x => x) s) s = s', (dropBase_ne (List.map (fun x => x) s) s hs) = hs'
    generalize flushBaseC (List.map (fun x => x) (0 :: s')) = flush
    obtain ⟨ls1, h1, hrun1, hfed1, hts1, hlast1, hst1⟩ :=
      process_one law {} {} (0 :: s') flush relP_init (Nat.le_refl 0) (Or.inr rfl) (Or.inr ⟨rfl, rfl, rfl⟩) (by simp)
    obtain ⟨ls2, h2, hrun2, hfed2, -, -, -⟩ :=
      process_one law _ _ s' true h1 hts1 (Or.inl hlast1) (Or.inl hst1) hs'
    refine ⟨ls1, ls2, ?_, ?_⟩
    · rw [hrun1] at h2
      exact h2
    · rw [hfed2, hfed1, hrun1]; rfl

/-- the code's flush flag does not change when the signal is scaled by a non-zero factor -/
theorem flushBaseC_scale (c : Int) (hc : c ≠ 0) (S : List Int) : flushBaseC (S.map (c * ·)) = flushBaseC S := by
  unfold flushBaseC
  rw [← List.map_append, findTurns_scale c hc, List.map_map, List.length_map]
  rfl

section sim
variable (law : Law) (hl : SignPreserving' law) (cs : List Int) (hc : ∀ c ∈ cs, 0 < c) (k : Nat)
  (hk : k < cs.length)
include hl hc hk

theorem twoPass_simC (L : List Int) :
    (twoPass law (L.map (fA cs))).recs.map (proj' k) =
      (twoPass law (L.map (fB (cs.getD k 1)))).recs.map (proj' 0) := by
  have hn : 0 < cs.length := by omega
  have hc0 := rep_pos cs hc hn
  have hck := getD_pos cs hc k hk
  by_cases hL : L = []
  · subst hL; rfl
  · rw [twoPass_eqC law (fA cs) L hL cs.length (length_fA cs) (fA_zero cs),
      twoPass_eqC law (fB (cs.getD k 1)) L hL 1 (fun _ => rfl) (by simp [fB])]
    have hra : ∀ S : List Int, (S.map fun x => rep (fA cs x)) = S.map (rep cs * ·) := by
      intro S; apply List.map_congr_left; intro x _; exact rep_fA cs hn x
    have hrb : ∀ S : List Int, (S.map fun x => rep (fB (cs.getD k 1) x)) = S.map (cs.getD k 1 * ·) := by
      intro S; apply List.map_congr_left; intro x _; exact rep_fB _ x
    rw [hra, hra, hrb, hrb, dropBase_scale _ (by omega), dropBase_scale _ (by omega),
      flushBaseC_scale _ (by omega), flushBaseC_scale _ (by omega)]
    have hL' := dropBase_ne L L hL
    generalize dropBase L L = L' at hL'
    generalize flushBaseC (0 :: L') = flush
    have h0 : PSim law cs k {} {} :=
      ⟨⟨rfl, by intro p hp; simp at hp, trivial, rfl, rfl, rfl, Nat.le_refl 1, ⟨0, rfl, rfl⟩, rfl, rfl⟩,
        rfl, ⟨[], rfl, rfl⟩, Nat.le_refl 0, Or.inr rfl⟩
    have h1 := process_sim law hl cs hc k hk (0 :: L') flush _ _ h0 (by simp)
    have h2 := process_sim law hl cs hc k hk L' true _ _ h1 hL'
    exact h2.sim.recs

theorem twoPass_simLFC (L : List Int) :
    (twoPass law (L.map (fA cs))).recs.map (projLF' k) =
      (twoPass law (L.map (fB (cs.getD k 1)))).recs.map (projLF' 0) := by
  have hn : 0 < cs.length := by omega
  have hc0 := rep_pos cs hc hn
  have hck := getD_pos cs hc k hk
  by_cases hL : L = []
  · subst hL; rfl
  · rw [twoPass_eqC law (fA cs) L hL cs.length (length_fA cs) (fA_zero cs),
      twoPass_eqC law (fB (cs.getD k 1)) L hL 1 (fun _ => rfl) (by simp [fB])]
    have hra : ∀ S : List Int, (S.map fun x => rep (fA cs x)) = S.map (rep cs * ·) := by
      intro S; apply List.map_congr_left; intro x _; exact rep_fA cs hn x
    have hrb : ∀ S : List Int, (S.map fun x => rep (fB (cs.getD k 1) x)) = S.map (cs.getD k 1 * ·) := by
      intro S; apply List.map_congr_left; intro x _; exact rep_fB _ x
    rw [hra, hra, hrb, hrb, dropBase_scale _ (by omega), dropBase_scale _ (by omega),
      flushBaseC_scale _ (by omega), flushBaseC_scale _ (by omega)]
    exact twoProc_simLF law hl cs hc k hk _ _ (dropBase_ne L L hL)

end sim

end PylifeVerif.HCM.C05L
