/-
With the rank cut-off `rtol = 0` the rank-3 branch of `lstsq3` is taken exactly when `A` has full column rank:
a positive Gram determinant forces a positive sum of principal minors.
-/
import Proofs.Lemmas.MeshLstsq

namespace PylifeVerif.Mesh

/-- `det(AᵀA) > 0 → tr adj(AᵀA) > 0`. -/
theorem adjTrace_pos_of_det_pos (A : List (V3 ℝ)) (h : 0 < det3 (normalMatrix A)) :
    0 < adjTrace (normalMatrix A) := by
  have hs := normalMatrix_symm A
  have hnn := adjTrace_normalMatrix_nonneg A
  have c1 := adjQuad_nonneg A ⟨1, 0, 0⟩
  have c2 := adjQuad_nonneg A ⟨0, 1, 0⟩
  have c3 := adjQuad_nonneg A ⟨0, 0, 1⟩
  have q1 := quad_nonneg A ⟨1, 0, 0⟩
  have q2 := quad_nonneg A ⟨0, 1, 0⟩
  have q3 := quad_nonneg A ⟨0, 0, 1⟩
  by_contra hle
  have he : adjTrace (normalMatrix A) = 0 := le_antisymm (not_lt.1 hle) hnn
  generalize normalMatrix A = M at *
  obtain ⟨a, b0, c0, b, d, e0, c, e, f⟩ := M
  simp only at hs
  obtain ⟨rfl, rfl, rfl⟩ := hs
  simp only [adjQuad, adjTrace, det3, V3.dot, M3.mulVec] at *
  have h11 : d * f - e * e = 0 := by nlinarith
  have h22 : a * f - c * c = 0 := by nlinarith
  have h33 : a * d - b * b = 0 := by nlinarith
  have k12 : (c * e - b * f) ^ 2 = (d * f - e * e) * (a * f - c * c)
      - (a * (d * f - e * e) - b * (b * f - e * c) + c * (b * e - d * c)) * f := by ring
  have k13 : (b * e - c * d) ^ 2 = (d * f - e * e) * (a * d - b * b)
      - (a * (d * f - e * e) - b * (b * f - e * c) + c * (b * e - d * c)) * d := by ring
  rw [h11, h22] at k12
  rw [h11, h33] at k13
  have hf : 0 ≤ f := by nlinarith
  have hd : 0 ≤ d := by nlinarith
  have z12 : c * e - b * f = 0 := by
    have : (c * e - b * f) ^ 2 ≤ 0 := by nlinarith [mul_nonneg h.le hf]
    exact pow_eq_zero_iff (by norm_num) |>.1 (le_antisymm this (sq_nonneg _))
  have z13 : b * e - c * d = 0 := by
    have : (b * e - c * d) ^ 2 ≤ 0 := by nlinarith [mul_nonneg h.le hd]
    exact pow_eq_zero_iff (by norm_num) |>.1 (le_antisymm this (sq_nonneg _))
  have w12 : b * f - e * c = 0 := by linarith
  have w13 : b * e - d * c = 0 := by linarith
  rw [h11, w12, w13] at h
  simp at h

/-- Full column rank: rank-3 branch for the cut-off 0. -/
theorem lstsq3_full_rank (A : List (V3 ℝ)) (g : V3 ℝ)
    (hrank : ∀ v : V3 ℝ, (∀ a ∈ A, a.dot v = 0) → v = ⟨0, 0, 0⟩) :
    lstsq3 0 (A.map fun a => (a, a.dot g)) = g := by
  have hdet : 0 < det3 (normalMatrix A) :=
    lt_of_le_of_ne (det3_normalMatrix_nonneg A) (Ne.symm (det3_normalMatrix_ne_zero A hrank))
  have he := adjTrace_pos_of_det_pos A hdet
  exact lstsq3_rank3 0 le_rfl A g (by simpa using he) (by simpa using hdet)

end PylifeVerif.Mesh
