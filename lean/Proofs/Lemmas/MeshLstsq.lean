/-
The minimum-norm least-squares model `lstsq3` of `Model/Mesh.lean` over ℝ: what it returns for a right-hand side
`A g` when the rows of `A` span the space (rank 3), a plane of any orientation (rank 2) or a line (rank 1).
-/
import Proofs.Lemmas.Mesh
import Proofs.Lemmas.MeshRank
import Mathlib.Tactic.Ring
import Mathlib.Tactic.FieldSimp
import Mathlib.Tactic.Linarith
import Mathlib.Tactic.LinearCombination
import Mathlib.Tactic.Positivity
import Mathlib.Tactic.NormNum.Basic

namespace PylifeVerif.Mesh

/-! ### the normal matrix: symmetric, non-negative trace -/

theorem normalMatrix_symm (A : List (V3 ℝ)) :
    (normalMatrix A).a21 = (normalMatrix A).a12 ∧ (normalMatrix A).a31 = (normalMatrix A).a13 ∧
      (normalMatrix A).a32 = (normalMatrix A).a23 := by
  simp only [normalMatrix, sumMap_eq_sum]
  exact ⟨sum_map_congr _ _ _ (fun a => mul_comm _ _), sum_map_congr _ _ _ (fun a => mul_comm _ _),
    sum_map_congr _ _ _ (fun a => mul_comm _ _)⟩

example : (normalMatrix ([⟨1, 2, 3⟩, ⟨0, 1, 1⟩] : List (V3 ℝ))).a21 = 2 ∧
    (normalMatrix ([⟨1, 2, 3⟩, ⟨0, 1, 1⟩] : List (V3 ℝ))).a12 = 2 := by
  simp [normalMatrix, sumMap]

theorem sum_map_nonneg {β : Type} (f : β → ℝ) (l : List β) (h : ∀ a ∈ l, 0 ≤ f a) : 0 ≤ (l.map f).sum := by
  apply List.sum_nonneg
  intro x hx
  rw [List.mem_map] at hx
  obtain ⟨a, ha, rfl⟩ := hx
  exact h a ha

theorem normalMatrix_trace_nonneg (A : List (V3 ℝ)) : 0 ≤ (normalMatrix A).trace := by
  simp only [normalMatrix, M3.trace, sumMap_eq_sum]
  have h1 := sum_map_nonneg (fun a : V3 ℝ => a.x * a.x) A (fun a _ => mul_self_nonneg _)
  have h2 := sum_map_nonneg (fun a : V3 ℝ => a.y * a.y) A (fun a _ => mul_self_nonneg _)
  have h3 := sum_map_nonneg (fun a : V3 ℝ => a.z * a.z) A (fun a _ => mul_self_nonneg _)
  linarith

example : (normalMatrix ([⟨1, 2, 3⟩, ⟨0, 1, 1⟩] : List (V3 ℝ))).trace = 16 := by
  simp [normalMatrix, sumMap, M3.trace]; norm_num

/-! ### rank 3 -/

/-- rank 3 (above the cut-off): the normal equations reproduce g. -/
theorem lstsq3_rank3 (rtol : ℝ) (hr : 0 ≤ rtol) (A : List (V3 ℝ)) (g : V3 ℝ)
    (h2 : rtol * ((normalMatrix A).trace * (normalMatrix A).trace) < adjTrace (normalMatrix A))
    (h3 : rtol * (adjTrace (normalMatrix A) * (normalMatrix A).trace) < det3 (normalMatrix A)) :
    lstsq3 rtol (A.map fun a => (a, a.dot g)) = g := by
  have ht := normalMatrix_trace_nonneg A
  have he2 : 0 < adjTrace (normalMatrix A) :=
    lt_of_le_of_lt (mul_nonneg hr (mul_self_nonneg _)) h2
  have hdet : det3 (normalMatrix A) ≠ 0 :=
    ne_of_gt (lt_of_le_of_lt (mul_nonneg hr (mul_nonneg he2.le ht)) h3)
  simp only [lstsq3, List.map_map, Function.comp_def, List.map_id', normalRhs_linear]
  rw [if_neg (not_le.2 h2), if_neg (not_le.2 h3)]
  exact inv3_mulVec_mulVec _ hdet g

example : lstsq3 (1 / 1000000000000 : ℝ)
    ([⟨1, 0, 0⟩, ⟨0, 1, 0⟩, ⟨0, 0, 1⟩, ⟨1, 1, 1⟩].map fun a => (a, a.dot (⟨2, 3, -1⟩ : V3 ℝ))) = ⟨2, 3, -1⟩ := by
  apply lstsq3_rank3
  · norm_num
  · simp [normalMatrix, sumMap, adjTrace, M3.trace]; norm_num
  · simp [normalMatrix, sumMap, adjTrace, M3.trace, det3]; norm_num

/-! ### rank 2: rows in one plane -/

/-- `M n`, component-wise, as a sum over the rows. -/
theorem normalMatrix_mulVec_eq (A : List (V3 ℝ)) (n : V3 ℝ) :
    (normalMatrix A).mulVec n =
      ⟨(A.map fun a => a.x * a.dot n).sum, (A.map fun a => a.y * a.dot n).sum, (A.map fun a => a.z * a.dot n).sum⟩ := by
  apply V3.eq_of <;> simp only [normalMatrix, M3.mulVec, sumMap_eq_sum] <;>
  · induction A with
    | nil => simp
    | cons a A ih =>
      simp only [List.map_cons, List.sum_cons] at ih ⊢
      rw [← ih]; simp only [V3.dot]; ring

theorem normalMatrix_mulVec_normal (A : List (V3 ℝ)) (n : V3 ℝ) (hplane : ∀ a ∈ A, a.dot n = 0) :
    (normalMatrix A).mulVec n = ⟨0, 0, 0⟩ := by
  rw [normalMatrix_mulVec_eq]
  apply V3.eq_of <;> exact sum_map_eq_zero _ _ (fun a ha => by rw [hplane a ha]; ring)

/-- A symmetric matrix with a kernel vector `n ≠ 0` is singular. -/
theorem det3_eq_zero_of_kernel (a b c d e f p q r : ℝ) (hn : p * p + q * q + r * r ≠ 0)
    (E1 : a * p + b * q + c * r = 0) (E2 : b * p + d * q + e * r = 0) (E3 : c * p + e * q + f * r = 0) :
    det3 (⟨a, b, c, b, d, e, c, e, f⟩ : M3 ℝ) = 0 := by
  simp only [det3]
  have h : (a * (d * f - e * e) - b * (b * f - e * c) + c * (b * e - d * c)) * (p * p + q * q + r * r) = 0 := by
    linear_combination
      (p * (d * f - e * e) + q * (c * e - b * f) + r * (b * e - c * d)) * E1
      + (p * (c * e - b * f) + q * (a * f - c * c) + r * (b * c - a * e)) * E2
      + (p * (b * e - c * d) + q * (b * c - a * e) + r * (a * d - b * b)) * E3
  exact (mul_eq_zero.1 h).resolve_right hn

/-- The columns of the adjugate of a symmetric matrix with kernel vector `n` are multiples of `n`. -/
theorem adj_col1 (a b c d e f p q r : ℝ)
    (E1 : a * p + b * q + c * r = 0) (E2 : b * p + d * q + e * r = 0) (E3 : c * p + e * q + f * r = 0) :
    (d * f - e * e) * (p * p + q * q + r * r)
        = ((d * f - e * e) + (a * f - c * c) + (a * d - b * b)) * p * p ∧
    (c * e - b * f) * (p * p + q * q + r * r)
        = ((d * f - e * e) + (a * f - c * c) + (a * d - b * b)) * q * p ∧
    (b * e - c * d) * (p * p + q * q + r * r)
        = ((d * f - e * e) + (a * f - c * c) + (a * d - b * b)) * r * p := by
  refine ⟨?_, ?_, ?_⟩
  · linear_combination q * (f * E2 - e * E3) - p * (-c * E3 + f * E1) + r * (-e * E2 + d * E3) - p * (d * E1 - b * E2)
  · linear_combination -p * (f * E2 - e * E3) - q * (-c * E3 + f * E1) + r * (c * E2 - b * E3) - q * (d * E1 - b * E2)
  · linear_combination -p * (-e * E2 + d * E3) - r * (d * E1 - b * E2) - q * (c * E2 - b * E3) - r * (-c * E3 + f * E1)

/-- One component of `(t·I − M)(M g)/e₂` for a symmetric `M` with kernel vector `n`: `g` minus its part along `n`. -/
theorem planar_comp (a b c d e f p q r gx gy gz : ℝ) (hn : p * p + q * q + r * r ≠ 0)
    (he2 : (d * f - e * e) + (a * f - c * c) + (a * d - b * b) ≠ 0)
    (E1 : a * p + b * q + c * r = 0) (E2 : b * p + d * q + e * r = 0) (E3 : c * p + e * q + f * r = 0) :
    ((d + f) * (a * gx + b * gy + c * gz) - b * (b * gx + d * gy + e * gz) - c * (c * gx + e * gy + f * gz))
        / ((d * f - e * e) + (a * f - c * c) + (a * d - b * b))
      = gx - (gx * p + gy * q + gz * r) / (p * p + q * q + r * r) * p := by
  obtain ⟨h1, h2, h3⟩ := adj_col1 a b c d e f p q r E1 E2 E3
  have hk : (gx * p + gy * q + gz * r) / (p * p + q * q + r * r) * (p * p + q * q + r * r)
      = gx * p + gy * q + gz * r := div_mul_cancel₀ _ hn
  generalize (gx * p + gy * q + gz * r) / (p * p + q * q + r * r) = k at hk ⊢
  rw [div_eq_iff he2]
  apply mul_right_cancel₀ hn
  linear_combination (-gx) * h1 + (-gy) * h2 + (-gz) * h3
    + (p * ((d * f - e * e) + (a * f - c * c) + (a * d - b * b))) * hk

/-- rank 2: all rows orthogonal to n ≠ 0 (mesh in a plane of ANY orientation): minimum-norm solution = g minus its
normal component. -/
theorem lstsq3_planar (rtol : ℝ) (hr : 0 ≤ rtol) (A : List (V3 ℝ)) (g n : V3 ℝ)
    (hn : n.dot n ≠ 0) (hplane : ∀ a ∈ A, a.dot n = 0)
    (h2 : rtol * ((normalMatrix A).trace * (normalMatrix A).trace) < adjTrace (normalMatrix A)) :
    lstsq3 rtol (A.map fun a => (a, a.dot g)) =
      ⟨g.x - g.dot n / n.dot n * n.x, g.y - g.dot n / n.dot n * n.y, g.z - g.dot n / n.dot n * n.z⟩ := by
  have ht := normalMatrix_trace_nonneg A
  have he2 : 0 < adjTrace (normalMatrix A) :=
    lt_of_le_of_lt (mul_nonneg hr (mul_self_nonneg _)) h2
  have hs := normalMatrix_symm A
  have hk := normalMatrix_mulVec_normal A n hplane
  simp only [lstsq3, List.map_map, Function.comp_def, List.map_id', normalRhs_linear]
  rw [if_neg (not_le.2 h2)]
  generalize normalMatrix A = M at *
  obtain ⟨a, b, c, b', d, e, c', e', f⟩ := M
  obtain ⟨p, q, r⟩ := n
  obtain ⟨gx, gy, gz⟩ := g
  simp only at hs
  obtain ⟨rfl, rfl, rfl⟩ := hs
  simp only [M3.mulVec, V3.mk.injEq] at hk
  obtain ⟨E1, E2, E3⟩ := hk
  simp only [V3.dot] at hn
  have hdet := det3_eq_zero_of_kernel _ _ _ _ _ _ p q r hn E1 E2 E3
  rw [if_pos (by rw [hdet]; exact mul_nonneg hr (mul_nonneg he2.le ht))]
  simp only [adjTrace] at he2
  have he2' := ne_of_gt he2
  apply V3.eq_of <;> simp only [M3.mulVec, V3.dot, adjTrace]
  · have h := planar_comp _ _ _ _ _ _ p q r gx gy gz hn he2' E1 E2 E3
    linear_combination h
  · have h := planar_comp d b' e' a c' f q p r gy gx gz (by convert hn using 1; ring) (by convert he2' using 1; ring)
      (by linear_combination E2) (by linear_combination E1) (by linear_combination E3)
    linear_combination h
  · have h := planar_comp f e' c' d b' a r q p gz gy gx (by convert hn using 1; ring) (by convert he2' using 1; ring)
      (by linear_combination E3) (by linear_combination E2) (by linear_combination E1)
    linear_combination h

example : lstsq3 (1 / 1000000000000 : ℝ)
    ([⟨1, 0, 1⟩, ⟨0, 1, 1⟩, ⟨1, 1, 2⟩].map fun a => (a, a.dot (⟨2, 3, -1⟩ : V3 ℝ)))
      = ⟨2 - (2 * 1 + 3 * 1 + (-1) * (-1)) / (1 * 1 + 1 * 1 + (-1) * (-1)) * 1,
         3 - (2 * 1 + 3 * 1 + (-1) * (-1)) / (1 * 1 + 1 * 1 + (-1) * (-1)) * 1,
         -1 - (2 * 1 + 3 * 1 + (-1) * (-1)) / (1 * 1 + 1 * 1 + (-1) * (-1)) * (-1)⟩ := by
  apply lstsq3_planar _ (by norm_num) _ _ ⟨1, 1, -1⟩
  · simp [V3.dot]; norm_num
  · intro a ha; simp at ha; rcases ha with rfl | rfl | rfl <;> norm_num [V3.dot]
  · simp [normalMatrix, sumMap, adjTrace, M3.trace]; norm_num

/-- The same example with the numbers worked out: `g = (2,3,−1)`, `n = (1,1,−1)`, `g·n/n·n = 2`. -/
example : lstsq3 (0 : ℝ)
    ([⟨1, 0, 1⟩, ⟨0, 1, 1⟩, ⟨1, 1, 2⟩].map fun a => (a, a.dot (⟨2, 3, -1⟩ : V3 ℝ))) = ⟨0, 1, 1⟩ := by
  rw [lstsq3_planar 0 le_rfl _ _ ⟨1, 1, -1⟩]
  · simp [V3.dot]; norm_num
  · simp [V3.dot]; norm_num
  · intro a ha; simp at ha; rcases ha with rfl | rfl | rfl <;> norm_num [V3.dot]
  · simp [normalMatrix, sumMap, adjTrace, M3.trace]; norm_num

/-! ### rank 1: rows on one line -/

theorem sum_map_pos {β : Type} (f : β → ℝ) (l : List β) (h : ∀ a ∈ l, 0 ≤ f a) (hne : ∃ a ∈ l, f a ≠ 0) :
    0 < (l.map f).sum := by
  induction l with
  | nil => obtain ⟨a, ha, _⟩ := hne; simp at ha
  | cons b l ih =>
    simp only [List.map_cons, List.sum_cons]
    have hb : 0 ≤ f b := h b (by simp)
    have hl : 0 ≤ (l.map f).sum := sum_map_nonneg f l (fun a ha => h a (by simp [ha]))
    obtain ⟨a, ha, hfa⟩ := hne
    rcases List.mem_cons.1 ha with rfl | ha
    · have : 0 < f a := lt_of_le_of_ne hb (Ne.symm hfa)
      linarith
    · have := ih (fun a ha => h a (by simp [ha])) ⟨a, ha, hfa⟩
      linarith

theorem dot_self_nonneg (a : V3 ℝ) : 0 ≤ a.dot a := by
  simp only [V3.dot]
  linarith [mul_self_nonneg a.x, mul_self_nonneg a.y, mul_self_nonneg a.z]

theorem normalMatrix_trace_eq (A : List (V3 ℝ)) : (normalMatrix A).trace = (A.map fun a => a.dot a).sum := by
  simp only [normalMatrix, M3.trace, sumMap_eq_sum, V3.dot]
  induction A with
  | nil => simp
  | cons a A ih =>
    simp only [List.map_cons, List.sum_cons] at ih ⊢
    rw [← ih]; ring

/-- Rows on the line `ℝ d`: `(d·d) M = (tr M) d dᵀ`. -/
theorem normalMatrix_line (A : List (V3 ℝ)) (d : V3 ℝ)
    (hline : ∀ a ∈ A, ∃ s : ℝ, a = ⟨s * d.x, s * d.y, s * d.z⟩) :
    (normalMatrix A).a11 * d.dot d = (normalMatrix A).trace * (d.x * d.x) ∧
    (normalMatrix A).a12 * d.dot d = (normalMatrix A).trace * (d.x * d.y) ∧
    (normalMatrix A).a13 * d.dot d = (normalMatrix A).trace * (d.x * d.z) ∧
    (normalMatrix A).a22 * d.dot d = (normalMatrix A).trace * (d.y * d.y) ∧
    (normalMatrix A).a23 * d.dot d = (normalMatrix A).trace * (d.y * d.z) ∧
    (normalMatrix A).a33 * d.dot d = (normalMatrix A).trace * (d.z * d.z) := by
  simp only [normalMatrix, M3.trace, sumMap_eq_sum, V3.dot]
  induction A with
  | nil => simp
  | cons a A ih =>
    obtain ⟨s, rfl⟩ := hline a (by simp)
    obtain ⟨i1, i2, i3, i4, i5, i6⟩ := ih (fun b hb => hline b (by simp [hb]))
    simp only [List.map_cons, List.sum_cons]
    refine ⟨?_, ?_, ?_, ?_, ?_, ?_⟩
    · linear_combination i1
    · linear_combination i2
    · linear_combination i3
    · linear_combination i4
    · linear_combination i5
    · linear_combination i6

/-- One component of `M g / t` for `M = (t/δ) d dᵀ`. -/
theorem line_comp (m1 m2 m3 t δ d1 d2 d3 u gx gy gz : ℝ) (hδ : δ ≠ 0) (ht : t ≠ 0)
    (h1 : m1 * δ = t * (u * d1)) (h2 : m2 * δ = t * (u * d2)) (h3 : m3 * δ = t * (u * d3)) :
    (m1 * gx + m2 * gy + m3 * gz) / t = (gx * d1 + gy * d2 + gz * d3) / δ * u := by
  rw [div_eq_iff ht, div_mul_eq_mul_div, div_mul_eq_mul_div, eq_div_iff hδ]
  linear_combination gx * h1 + gy * h2 + gz * h3

/-- rank 1: all rows multiples of d ≠ 0, not all zero: the component of g along d. -/
theorem lstsq3_line (rtol : ℝ) (hr : 0 ≤ rtol) (A : List (V3 ℝ)) (g d : V3 ℝ) (hd : d.dot d ≠ 0)
    (hline : ∀ a ∈ A, ∃ s : ℝ, a = ⟨s * d.x, s * d.y, s * d.z⟩) (hne : ∃ a ∈ A, a.dot a ≠ 0) :
    lstsq3 rtol (A.map fun a => (a, a.dot g)) =
      ⟨g.dot d / d.dot d * d.x, g.dot d / d.dot d * d.y, g.dot d / d.dot d * d.z⟩ := by
  have ht : 0 < (normalMatrix A).trace := by
    rw [normalMatrix_trace_eq]
    exact sum_map_pos _ _ (fun a _ => dot_self_nonneg a) hne
  have hs := normalMatrix_symm A
  obtain ⟨l11, l12, l13, l22, l23, l33⟩ := normalMatrix_line A d hline
  simp only [lstsq3, List.map_map, Function.comp_def, List.map_id', normalRhs_linear, lit_zero]
  generalize normalMatrix A = M at *
  obtain ⟨a, b, c, b', e, f, c', f', k⟩ := M
  simp only at hs l11 l12 l13 l22 l23 l33
  obtain ⟨rfl, rfl, rfl⟩ := hs
  generalize hδ : d.dot d = δ at *
  have ht0 := ht
  simp only [M3.trace] at ht l11 l12 l13 l22 l23 l33
  have he2 : adjTrace (⟨a, b', c', b', e, f', c', f', k⟩ : M3 ℝ) = 0 := by
    simp only [adjTrace]
    have h : ((e * k - f' * f') + (a * k - c' * c') + (a * e - b' * b')) * (δ * δ) = 0 := by
      linear_combination (k * δ) * l22 + (a + e + k) * (d.y * d.y) * l33 - (f' * δ + (a + e + k) * (d.y * d.z)) * l23
        + (k * δ) * l11 + (a + e + k) * (d.x * d.x) * l33 - (c' * δ + (a + e + k) * (d.x * d.z)) * l13
        + (e * δ) * l11 + (a + e + k) * (d.x * d.x) * l22 - (b' * δ + (a + e + k) * (d.x * d.y)) * l12
    exact (mul_eq_zero.1 h).resolve_right (mul_ne_zero hd hd)
  rw [he2, if_pos (mul_nonneg hr (mul_self_nonneg _)), if_neg (not_le.2 ht0)]
  obtain ⟨gx, gy, gz⟩ := g
  obtain ⟨d1, d2, d3⟩ := d
  simp only [V3.dot] at hδ
  have ht' := ne_of_gt ht
  apply V3.eq_of <;> simp only [M3.mulVec, M3.trace, V3.dot]
  · exact line_comp _ _ _ _ δ d1 d2 d3 d1 gx gy gz hd ht' (by linear_combination l11) (by linear_combination l12)
      (by linear_combination l13)
  · exact line_comp _ _ _ _ δ d1 d2 d3 d2 gx gy gz hd ht' (by linear_combination l12) (by linear_combination l22)
      (by linear_combination l23)
  · exact line_comp _ _ _ _ δ d1 d2 d3 d3 gx gy gz hd ht' (by linear_combination l13) (by linear_combination l23)
      (by linear_combination l33)

example : lstsq3 (1 / 1000000000000 : ℝ)
    ([⟨1, 2, -1⟩, ⟨-2, -4, 2⟩, ⟨0, 0, 0⟩].map fun a => (a, a.dot (⟨2, 3, -1⟩ : V3 ℝ)))
      = ⟨(2 * 1 + 3 * 2 + (-1) * (-1)) / (1 * 1 + 2 * 2 + (-1) * (-1)) * 1,
         (2 * 1 + 3 * 2 + (-1) * (-1)) / (1 * 1 + 2 * 2 + (-1) * (-1)) * 2,
         (2 * 1 + 3 * 2 + (-1) * (-1)) / (1 * 1 + 2 * 2 + (-1) * (-1)) * (-1)⟩ := by
  apply lstsq3_line _ (by norm_num) _ _ ⟨1, 2, -1⟩
  · norm_num [V3.dot]
  · intro a ha
    simp only [List.mem_cons, List.not_mem_nil, or_false] at ha
    rcases ha with rfl | rfl | rfl
    · exact ⟨1, by norm_num⟩
    · exact ⟨-2, by norm_num⟩
    · exact ⟨0, by norm_num⟩
  · exact ⟨⟨1, 2, -1⟩, by simp, by norm_num [V3.dot]⟩

/-! ### the Gram determinant and the sum of the principal minors -/

theorem normalMatrix_cons (a : V3 ℝ) (A : List (V3 ℝ)) :
    normalMatrix (a :: A) =
      ⟨a.x * a.x + (normalMatrix A).a11, a.x * a.y + (normalMatrix A).a12, a.x * a.z + (normalMatrix A).a13,
       a.y * a.x + (normalMatrix A).a21, a.y * a.y + (normalMatrix A).a22, a.y * a.z + (normalMatrix A).a23,
       a.z * a.x + (normalMatrix A).a31, a.z * a.y + (normalMatrix A).a32, a.z * a.z + (normalMatrix A).a33⟩ := by
  simp only [normalMatrix, sumMap_eq_sum, List.map_cons, List.sum_cons]

/-- `wᵀ (AᵀA) w ≥ 0`. -/
theorem quad_nonneg (A : List (V3 ℝ)) (w : V3 ℝ) : 0 ≤ w.dot ((normalMatrix A).mulVec w) := by
  rw [← sum_sq_eq_quadform]
  exact sum_map_nonneg _ _ (fun a _ => sq_nonneg _)

/-- `wᵀ (AᵀA) w ≥ (y·w)²` for every row `y`. -/
theorem quad_ge (A : List (V3 ℝ)) (w y : V3 ℝ) (hy : y ∈ A) : (y.dot w) ^ 2 ≤ w.dot ((normalMatrix A).mulVec w) := by
  rw [← sum_sq_eq_quadform]
  apply List.single_le_sum
  · intro x hx
    rw [List.mem_map] at hx
    obtain ⟨a, _, rfl⟩ := hx
    exact sq_nonneg _
  · exact List.mem_map.2 ⟨y, hy, rfl⟩

/-- `wᵀ adj(M) w` (written with the upper triangle of a symmetric `M`). -/
def adjQuad (M : M3 ℝ) (w : V3 ℝ) : ℝ :=
  (M.a22 * M.a33 - M.a23 * M.a23) * (w.x * w.x) + (M.a11 * M.a33 - M.a13 * M.a13) * (w.y * w.y)
    + (M.a11 * M.a22 - M.a12 * M.a12) * (w.z * w.z) + 2 * (M.a13 * M.a23 - M.a12 * M.a33) * (w.x * w.y)
    + 2 * (M.a12 * M.a23 - M.a13 * M.a22) * (w.x * w.z) + 2 * (M.a12 * M.a13 - M.a11 * M.a23) * (w.y * w.z)

/-- `wᵀ adj(M + a aᵀ) w = wᵀ adj(M) w + (a×w)ᵀ M (a×w)`. -/
theorem adjQuad_cons (a : V3 ℝ) (A : List (V3 ℝ)) (w : V3 ℝ) :
    adjQuad (normalMatrix (a :: A)) w = adjQuad (normalMatrix A) w
      + (⟨a.y * w.z - a.z * w.y, a.z * w.x - a.x * w.z, a.x * w.y - a.y * w.x⟩ : V3 ℝ).dot
          ((normalMatrix A).mulVec ⟨a.y * w.z - a.z * w.y, a.z * w.x - a.x * w.z, a.x * w.y - a.y * w.x⟩) := by
  have hs := normalMatrix_symm A
  rw [normalMatrix_cons]
  generalize normalMatrix A = M at *
  obtain ⟨m11, m12, m13, m21, m22, m23, m31, m32, m33⟩ := M
  simp only at hs
  obtain ⟨rfl, rfl, rfl⟩ := hs
  simp only [adjQuad, V3.dot, M3.mulVec]
  ring

theorem adjQuad_nonneg (A : List (V3 ℝ)) (w : V3 ℝ) : 0 ≤ adjQuad (normalMatrix A) w := by
  induction A with
  | nil => simp [adjQuad, normalMatrix, sumMap]
  | cons a A ih =>
    rw [adjQuad_cons]
    exact add_nonneg ih (quad_nonneg A _)

/-- `det(M + a aᵀ) = det M + aᵀ adj(M) a`. -/
theorem det3_cons (a : V3 ℝ) (A : List (V3 ℝ)) :
    det3 (normalMatrix (a :: A)) = det3 (normalMatrix A) + adjQuad (normalMatrix A) a := by
  have hs := normalMatrix_symm A
  rw [normalMatrix_cons]
  generalize normalMatrix A = M at *
  obtain ⟨m11, m12, m13, m21, m22, m23, m31, m32, m33⟩ := M
  simp only at hs
  obtain ⟨rfl, rfl, rfl⟩ := hs
  simp only [adjQuad, det3]
  ring

/-- Gram determinant is non-negative, so with rtol = 0 "rank 3" is exactly det ≠ 0 -/
theorem det3_normalMatrix_nonneg (A : List (V3 ℝ)) : 0 ≤ det3 (normalMatrix A) := by
  induction A with
  | nil => simp [det3, normalMatrix, sumMap]
  | cons a A ih =>
    rw [det3_cons]
    exact add_nonneg ih (adjQuad_nonneg A a)

example : det3 (normalMatrix ([⟨1, 0, 0⟩, ⟨0, 1, 0⟩, ⟨0, 0, 1⟩, ⟨1, 1, 1⟩] : List (V3 ℝ))) = 4 := by
  simp [normalMatrix, sumMap, det3]; norm_num

/-- `tr adj(M + a aᵀ) = tr adj(M) + Σₖ (a×eₖ)ᵀ M (a×eₖ)`. -/
theorem adjTrace_cons (a : V3 ℝ) (A : List (V3 ℝ)) :
    adjTrace (normalMatrix (a :: A)) = adjTrace (normalMatrix A)
      + (⟨0, a.z, -a.y⟩ : V3 ℝ).dot ((normalMatrix A).mulVec ⟨0, a.z, -a.y⟩)
      + (⟨-a.z, 0, a.x⟩ : V3 ℝ).dot ((normalMatrix A).mulVec ⟨-a.z, 0, a.x⟩)
      + (⟨a.y, -a.x, 0⟩ : V3 ℝ).dot ((normalMatrix A).mulVec ⟨a.y, -a.x, 0⟩) := by
  have hs := normalMatrix_symm A
  rw [normalMatrix_cons]
  generalize normalMatrix A = M at *
  obtain ⟨m11, m12, m13, m21, m22, m23, m31, m32, m33⟩ := M
  simp only at hs
  obtain ⟨rfl, rfl, rfl⟩ := hs
  simp only [adjTrace, V3.dot, M3.mulVec]
  ring

/-- Adding the row `c` raises `tr adj(AᵀA)` by at least `|c × y|²` for every row `y` of `A`. -/
theorem adjTrace_cons_ge (c : V3 ℝ) (A : List (V3 ℝ)) (y : V3 ℝ) (hy : y ∈ A) :
    adjTrace (normalMatrix A)
      + ((c.y * y.z - c.z * y.y) ^ 2 + (c.z * y.x - c.x * y.z) ^ 2 + (c.x * y.y - c.y * y.x) ^ 2)
      ≤ adjTrace (normalMatrix (c :: A)) := by
  have h1 : (c.y * y.z - c.z * y.y) ^ 2 ≤ (⟨0, c.z, -c.y⟩ : V3 ℝ).dot ((normalMatrix A).mulVec ⟨0, c.z, -c.y⟩) := by
    have h := quad_ge A ⟨0, c.z, -c.y⟩ y hy
    have e : (c.y * y.z - c.z * y.y) ^ 2 = (y.dot ⟨0, c.z, -c.y⟩) ^ 2 := by simp only [V3.dot]; ring
    rw [e]; exact h
  have h2 : (c.z * y.x - c.x * y.z) ^ 2 ≤ (⟨-c.z, 0, c.x⟩ : V3 ℝ).dot ((normalMatrix A).mulVec ⟨-c.z, 0, c.x⟩) := by
    have h := quad_ge A ⟨-c.z, 0, c.x⟩ y hy
    have e : (c.z * y.x - c.x * y.z) ^ 2 = (y.dot ⟨-c.z, 0, c.x⟩) ^ 2 := by simp only [V3.dot]; ring
    rw [e]; exact h
  have h3 : (c.x * y.y - c.y * y.x) ^ 2 ≤ (⟨c.y, -c.x, 0⟩ : V3 ℝ).dot ((normalMatrix A).mulVec ⟨c.y, -c.x, 0⟩) := by
    have h := quad_ge A ⟨c.y, -c.x, 0⟩ y hy
    have e : (c.x * y.y - c.y * y.x) ^ 2 = (y.dot ⟨c.y, -c.x, 0⟩) ^ 2 := by simp only [V3.dot]; ring
    rw [e]; exact h
  rw [adjTrace_cons]
  linarith

theorem adjTrace_normalMatrix_nonneg (A : List (V3 ℝ)) : 0 ≤ adjTrace (normalMatrix A) := by
  induction A with
  | nil => simp [adjTrace, normalMatrix, sumMap]
  | cons a A ih =>
    rw [adjTrace_cons]
    have h1 := quad_nonneg A ⟨0, a.z, -a.y⟩
    have h2 := quad_nonneg A ⟨-a.z, 0, a.x⟩
    have h3 := quad_nonneg A ⟨a.y, -a.x, 0⟩
    linarith

/-- two independent rows make adjTrace positive -/
theorem adjTrace_normalMatrix_pos (A : List (V3 ℝ)) (a b : V3 ℝ) (ha : a ∈ A) (hb : b ∈ A)
    (hind : (a.y*b.z - a.z*b.y)^2 + (a.z*b.x - a.x*b.z)^2 + (a.x*b.y - a.y*b.x)^2 ≠ 0) :
    0 < adjTrace (normalMatrix A) := by
  have hpos : 0 < (a.y*b.z - a.z*b.y)^2 + (a.z*b.x - a.x*b.z)^2 + (a.x*b.y - a.y*b.x)^2 :=
    lt_of_le_of_ne (by positivity) (Ne.symm hind)
  induction A with
  | nil => simp at ha
  | cons c A ih =>
    have hnn := adjTrace_normalMatrix_nonneg A
    rcases List.mem_cons.1 ha with rfl | ha' <;> rcases List.mem_cons.1 hb with rfl | hb'
    · exfalso; apply hind; ring
    · have := adjTrace_cons_ge a A b hb'
      linarith
    · have := adjTrace_cons_ge b A a ha'
      have e : (b.y * a.z - b.z * a.y) ^ 2 + (b.z * a.x - b.x * a.z) ^ 2 + (b.x * a.y - b.y * a.x) ^ 2
          = (a.y*b.z - a.z*b.y)^2 + (a.z*b.x - a.x*b.z)^2 + (a.x*b.y - a.y*b.x)^2 := by ring
      linarith
    · have h := ih ha' hb'
      have := adjTrace_cons_ge c A a ha'
      have h0 : 0 ≤ (c.y * a.z - c.z * a.y) ^ 2 + (c.z * a.x - c.x * a.z) ^ 2 + (c.x * a.y - c.y * a.x) ^ 2 := by
        positivity
      linarith

example : 0 < adjTrace (normalMatrix ([⟨1, 0, 1⟩, ⟨0, 1, 1⟩, ⟨1, 1, 2⟩] : List (V3 ℝ))) := by
  apply adjTrace_normalMatrix_pos _ ⟨1, 0, 1⟩ ⟨0, 1, 1⟩ (by simp) (by simp)
  norm_num

end PylifeVerif.Mesh
