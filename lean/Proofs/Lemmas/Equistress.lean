/-
Helper lemmas for C17 (equivalent stresses): real semantics of the model functions, the symmetric
tensor of six components, trace invariants, the eigenvalue contract `IsEigTriple`.
-/
import Model.Equistress
import Proofs.RealNum
import Mathlib.Analysis.Matrix.Spectrum
import Mathlib.LinearAlgebra.Matrix.Charpoly.Basic
import Mathlib.LinearAlgebra.Matrix.Trace
import Mathlib.LinearAlgebra.Matrix.Notation
import Mathlib.Tactic.Ring
import Mathlib.Tactic.Linarith
import Mathlib.Tactic.NormNum

namespace PylifeVerif.Equistress
open Matrix

/-- the symmetric 3×3 tensor assembled by `eigenval` from the six components -/
def tensor (v : Voigt ℝ) : Matrix (Fin 3) (Fin 3) ℝ :=
  !![v.s11, v.s12, v.s13; v.s12, v.s22, v.s23; v.s13, v.s23, v.s33]

theorem tensor_symm (v : Voigt ℝ) : (tensor v)ᵀ = tensor v := by
  ext i j; fin_cases i <;> fin_cases j <;> rfl

theorem tensor_isHermitian (v : Voigt ℝ) : (tensor v).IsHermitian := by
  unfold Matrix.IsHermitian
  rw [conjTranspose_eq_transpose_of_trivial, tensor_symm]

theorem trace_tensor (v : Voigt ℝ) : (tensor v).trace = v.s11 + v.s22 + v.s33 := by
  simp [tensor, Matrix.trace_fin_three]

theorem trace_tensor_sq (v : Voigt ℝ) :
    (tensor v * tensor v).trace =
      v.s11 ^ 2 + v.s22 ^ 2 + v.s33 ^ 2 + 2 * (v.s12 ^ 2 + v.s13 ^ 2 + v.s23 ^ 2) := by
  simp [tensor, Matrix.trace_fin_three]
  ring

theorem misesRadicand_real (v : Voigt ℝ) :
    misesRadicand v = ((v.s11 - v.s22) ^ 2 + (v.s22 - v.s33) ^ 2 + (v.s33 - v.s11) ^ 2) / 2
      + 3 * (v.s12 ^ 2 + v.s13 ^ 2 + v.s23 ^ 2) := by
  simp only [misesRadicand, sq]
  norm_num
  ring

theorem misesRadicandExpanded_real (v : Voigt ℝ) :
    misesRadicandExpanded v = v.s11 ^ 2 + v.s22 ^ 2 + v.s33 ^ 2 - v.s11 * v.s22 - v.s11 * v.s33
      - v.s22 * v.s33 + 3 * (v.s12 ^ 2 + v.s13 ^ 2 + v.s23 ^ 2) := by
  simp only [misesRadicandExpanded, sq]
  norm_num
  ring


/-! ### trace invariants under an orthogonal change of basis -/

theorem orth_mul_transpose {Q : Matrix (Fin 3) (Fin 3) ℝ} (hQ : Qᵀ * Q = 1) : Q * Qᵀ = 1 :=
  mul_eq_one_comm.mp hQ

theorem trace_conj {Q : Matrix (Fin 3) (Fin 3) ℝ} (hQ : Qᵀ * Q = 1) (A : Matrix (Fin 3) (Fin 3) ℝ) :
    (Q * A * Qᵀ).trace = A.trace := by
  rw [Matrix.trace_mul_comm, ← Matrix.mul_assoc, hQ, Matrix.one_mul]

theorem conj_mul_conj {Q : Matrix (Fin 3) (Fin 3) ℝ} (hQ : Qᵀ * Q = 1) (A B : Matrix (Fin 3) (Fin 3) ℝ) :
    (Q * A * Qᵀ) * (Q * B * Qᵀ) = Q * (A * B) * Qᵀ := by
  calc (Q * A * Qᵀ) * (Q * B * Qᵀ) = Q * A * (Qᵀ * Q) * B * Qᵀ := by
        simp only [Matrix.mul_assoc]
    _ = Q * (A * B) * Qᵀ := by rw [hQ]; simp only [Matrix.mul_assoc, Matrix.one_mul]

theorem trace_sq_conj {Q : Matrix (Fin 3) (Fin 3) ℝ} (hQ : Qᵀ * Q = 1) (A : Matrix (Fin 3) (Fin 3) ℝ) :
    ((Q * A * Qᵀ) * (Q * A * Qᵀ)).trace = (A * A).trace := by
  rw [conj_mul_conj hQ, trace_conj hQ]

open Polynomial in
theorem charpoly_conj {Q : Matrix (Fin 3) (Fin 3) ℝ} (hQ : Qᵀ * Q = 1) (A : Matrix (Fin 3) (Fin 3) ℝ) :
    (Q * A * Qᵀ).charpoly = A.charpoly := by
  rw [Matrix.charpoly_mul_comm, ← Matrix.mul_assoc, hQ, Matrix.one_mul]

/-! ### the contract of `numpy.linalg.eigvalsh` -/

open Polynomial in
/-- `w` is the ascending triple of eigenvalues of `A` counted with multiplicity: the roots of the
characteristic polynomial. -/
def IsEigTriple (A : Matrix (Fin 3) (Fin 3) ℝ) (w : Principal ℝ) : Prop :=
  w.w0 ≤ w.w1 ∧ w.w1 ≤ w.w2 ∧ A.charpoly = (X - C w.w0) * (X - C w.w1) * (X - C w.w2)

open Polynomial in
theorem roots_of_triple (a b c : ℝ) :
    ((X - C a) * (X - C b) * (X - C c) : ℝ[X]).roots = ({a, b, c} : Multiset ℝ) := by
  have h1 : (X - C a : ℝ[X]) ≠ 0 := X_sub_C_ne_zero a
  have h2 : (X - C b : ℝ[X]) ≠ 0 := X_sub_C_ne_zero b
  have h3 : (X - C c : ℝ[X]) ≠ 0 := X_sub_C_ne_zero c
  rw [roots_mul (mul_ne_zero (mul_ne_zero h1 h2) h3), roots_mul (mul_ne_zero h1 h2)]
  simp only [roots_X_sub_C]
  rfl

theorem sorted_triple_unique {a b c a' b' c' : ℝ} (h1 : a ≤ b) (h2 : b ≤ c) (h1' : a' ≤ b')
    (h2' : b' ≤ c') (h : ({a, b, c} : Multiset ℝ) = {a', b', c'}) : a = a' ∧ b = b' ∧ c = c' := by
  have hp : List.Perm [a, b, c] [a', b', c'] := Multiset.coe_eq_coe.mp h
  have hs : List.Pairwise (· ≤ ·) [a, b, c] := by
    simp only [List.pairwise_cons, List.mem_cons, List.not_mem_nil, or_false, forall_eq_or_imp, forall_eq]
    simp; exact ⟨⟨h1, h1.trans h2⟩, h2⟩
  have hs' : List.Pairwise (· ≤ ·) [a', b', c'] := by
    simp; exact ⟨⟨h1', h1'.trans h2'⟩, h2'⟩
  have := hp.eq_of_pairwise (fun _ _ _ _ hab hba => le_antisymm hab hba) hs hs'
  simpa using this

/-- the ascending eigenvalue triple is unique -/
theorem IsEigTriple.unique {A : Matrix (Fin 3) (Fin 3) ℝ} {w w' : Principal ℝ}
    (h : IsEigTriple A w) (h' : IsEigTriple A w') : w = w' := by
  obtain ⟨h1, h2, h3⟩ := h
  obtain ⟨h1', h2', h3'⟩ := h'
  have hr := roots_of_triple w.w0 w.w1 w.w2
  rw [← h3, h3', roots_of_triple] at hr
  obtain ⟨e0, e1, e2⟩ := sorted_triple_unique h1' h2' h1 h2 hr
  cases w; cases w'; simp_all

/-- an orthogonal change of basis does not change the eigenvalue triple -/
theorem IsEigTriple.conj {A : Matrix (Fin 3) (Fin 3) ℝ} {w : Principal ℝ} (h : IsEigTriple A w)
    {Q : Matrix (Fin 3) (Fin 3) ℝ} (hQ : Qᵀ * Q = 1) : IsEigTriple (Q * A * Qᵀ) w := by
  obtain ⟨h1, h2, h3⟩ := h
  exact ⟨h1, h2, by rw [charpoly_conj hQ, h3]⟩


/-! ### existence (spectral theorem) and the trace invariants in terms of the eigenvalues -/

open Polynomial in
theorem sort_three (a b c : ℝ) : ∃ x y z : ℝ, x ≤ y ∧ y ≤ z ∧
    ((X - C a) * (X - C b) * (X - C c) : ℝ[X]) = (X - C x) * (X - C y) * (X - C z) := by
  rcases le_total a b with hab | hab <;> rcases le_total b c with hbc | hbc <;>
    rcases le_total a c with hac | hac
  · exact ⟨a, b, c, hab, hbc, rfl⟩
  · exact ⟨a, b, c, hab, hbc, rfl⟩
  · exact ⟨a, c, b, hac, hbc, by ring⟩
  · exact ⟨c, a, b, hac, hab, by ring⟩
  · exact ⟨b, a, c, hab, hac, by ring⟩
  · exact ⟨b, c, a, hbc, hac, by ring⟩
  · exact ⟨c, b, a, hbc, hab, by ring⟩
  · exact ⟨c, b, a, hbc, hab, by ring⟩

open Polynomial in
/-- every real symmetric 3×3 matrix has an ascending eigenvalue triple (spectral theorem) -/
theorem exists_eigTriple {A : Matrix (Fin 3) (Fin 3) ℝ} (hA : A.IsHermitian) :
    ∃ w : Principal ℝ, IsEigTriple A w := by
  have h := hA.charpoly_eq
  rw [Fin.prod_univ_three] at h
  obtain ⟨x, y, z, hxy, hyz, hp⟩ := sort_three (hA.eigenvalues 0) (hA.eigenvalues 1) (hA.eigenvalues 2)
  refine ⟨⟨x, y, z⟩, hxy, hyz, ?_⟩
  rw [h]
  simpa using hp

theorem IsEigTriple.multiset {A : Matrix (Fin 3) (Fin 3) ℝ} (hA : A.IsHermitian) {w : Principal ℝ}
    (h : IsEigTriple A w) :
    ({w.w0, w.w1, w.w2} : Multiset ℝ) = Multiset.map hA.eigenvalues Finset.univ.val := by
  have hr := hA.roots_charpoly_eq_eigenvalues
  rw [h.2.2, roots_of_triple] at hr
  rw [hr]
  simp

theorem IsEigTriple.sum_eq {A : Matrix (Fin 3) (Fin 3) ℝ} (hA : A.IsHermitian) {w : Principal ℝ}
    (h : IsEigTriple A w) (f : ℝ → ℝ) :
    f w.w0 + f w.w1 + f w.w2 = ∑ i, f (hA.eigenvalues i) := by
  have hm := congrArg (fun m => (Multiset.map f m).sum) (h.multiset hA)
  simp only [Multiset.map_map] at hm
  rw [Finset.sum_eq_multiset_sum]
  simp only [Function.comp_def] at hm
  rw [← hm]
  simp [Multiset.insert_eq_cons, add_assoc]

theorem trace_sq_eq_sum_eigenvalues {A : Matrix (Fin 3) (Fin 3) ℝ} (hA : A.IsHermitian) :
    (A * A).trace = ∑ i, hA.eigenvalues i ^ 2 := by
  have hs := hA.spectral_theorem
  rw [Unitary.conjStarAlgAut_apply] at hs
  set U : Matrix (Fin 3) (Fin 3) ℝ := (hA.eigenvectorUnitary : Matrix (Fin 3) (Fin 3) ℝ) with hU
  have hstar : star U = Uᵀ := by
    rw [Matrix.star_eq_conjTranspose, conjTranspose_eq_transpose_of_trivial]
  have hQ : Uᵀ * U = 1 := by
    rw [← hstar]; exact Unitary.coe_star_mul_self _
  have h1 := congrArg (fun M => (M * M).trace) hs
  rw [h1]
  simp only [hstar] 
  rw [trace_sq_conj hQ, Matrix.diagonal_mul_diagonal, Matrix.trace_diagonal]
  simp [pow_two]

theorem IsEigTriple.trace_eq {A : Matrix (Fin 3) (Fin 3) ℝ} (hA : A.IsHermitian) {w : Principal ℝ}
    (h : IsEigTriple A w) : A.trace = w.w0 + w.w1 + w.w2 := by
  have := h.sum_eq hA id
  simp only [id] at this
  rw [this, hA.trace_eq_sum_eigenvalues]
  simp

theorem IsEigTriple.trace_sq_eq {A : Matrix (Fin 3) (Fin 3) ℝ} (hA : A.IsHermitian) {w : Principal ℝ}
    (h : IsEigTriple A w) : (A * A).trace = w.w0 ^ 2 + w.w1 ^ 2 + w.w2 ^ 2 := by
  rw [trace_sq_eq_sum_eigenvalues hA, ← h.sum_eq hA (fun x => x ^ 2)]


open Polynomial in
theorem IsEigTriple.prod_eq {A : Matrix (Fin 3) (Fin 3) ℝ} (hA : A.IsHermitian) {w : Principal ℝ}
    (h : IsEigTriple A w) (f : ℝ → ℝ[X]) :
    f w.w0 * f w.w1 * f w.w2 = ∏ i, f (hA.eigenvalues i) := by
  have hm := congrArg (fun m => (Multiset.map f m).prod) (h.multiset hA)
  simp only [Multiset.map_map] at hm
  rw [Finset.prod_eq_multiset_prod]
  simp only [Function.comp_def] at hm
  rw [← hm]
  simp [Multiset.insert_eq_cons, mul_assoc]

open Polynomial in
/-- scaling the matrix by `c ≥ 0` scales the ascending eigenvalue triple by `c` -/
theorem IsEigTriple.smul {A : Matrix (Fin 3) (Fin 3) ℝ} (hA : A.IsHermitian) {w : Principal ℝ}
    (h : IsEigTriple A w) {c : ℝ} (hc : 0 ≤ c) :
    IsEigTriple (c • A) ⟨c * w.w0, c * w.w1, c * w.w2⟩ := by
  refine ⟨mul_le_mul_of_nonneg_left h.1 hc, mul_le_mul_of_nonneg_left h.2.1 hc, ?_⟩
  have hs := hA.spectral_theorem
  rw [Unitary.conjStarAlgAut_apply] at hs
  set U : Matrix (Fin 3) (Fin 3) ℝ := (hA.eigenvectorUnitary : Matrix (Fin 3) (Fin 3) ℝ) with hU
  have hstar : star U = Uᵀ := by
    rw [Matrix.star_eq_conjTranspose, conjTranspose_eq_transpose_of_trivial]
  have hQ : Uᵀ * U = 1 := by
    rw [← hstar]; exact Unitary.coe_star_mul_self _
  have h1 : c • A = U * diagonal (fun i => c * hA.eigenvalues i) * Uᵀ := by
    conv_lhs => rw [hs]
    rw [hstar, ← Matrix.smul_mul, ← Matrix.mul_smul]
    congr 2
    ext i j
    simp [Matrix.diagonal_apply, Matrix.smul_apply]
  rw [h1, charpoly_conj hQ, Matrix.charpoly_diagonal]
  exact (h.prod_eq hA (fun x => X - C (c * x))).symm

/-! ### real semantics of the model functions -/

theorem lit_one : (1.0 : ℝ) = 1 := by norm_num
theorem lit_zero : (0.0 : ℝ) = 0 := by norm_num
theorem lit_half : (0.5 : ℝ) = 1 / 2 := by norm_num
theorem lit_three : (3.0 : ℝ) = 3 := by norm_num

theorem isZero_real (x : ℝ) : isZero x = true ↔ x = 0 := by
  simp only [isZero, Bool.and_eq_true, decide_eq_true_eq]
  norm_num
  exact ⟨fun h => le_antisymm h.1 h.2, fun h => ⟨h.le, h.ge⟩⟩

theorem max2_real (a b : ℝ) : max2 a b = max a b := by
  unfold max2; split_ifs with h
  · exact (max_eq_right h.le).symm
  · exact (max_eq_left (not_lt.mp h)).symm

theorem min2_real (a b : ℝ) : min2 a b = min a b := by
  unfold min2; split_ifs with h
  · exact (min_eq_right h.le).symm
  · exact (min_eq_left (not_lt.mp h)).symm

theorem amax3_real (a b c : ℝ) : amax3 a b c = max (max a b) c := by
  simp [amax3, max2_real]

theorem amin3_real (a b c : ℝ) : amin3 a b c = min (min a b) c := by
  simp [amin3, min2_real]

theorem maxPrincipal_asc {w : Principal ℝ} (h1 : w.w0 ≤ w.w1) (h2 : w.w1 ≤ w.w2) :
    maxPrincipal w = w.w2 := by
  rw [maxPrincipal, amax3_real, max_eq_right h1, max_eq_right h2]

theorem minPrincipal_asc {w : Principal ℝ} (h1 : w.w0 ≤ w.w1) (h2 : w.w1 ≤ w.w2) :
    minPrincipal w = w.w0 := by
  rw [minPrincipal, amin3_real, min_eq_left h1, min_eq_left (h1.trans h2)]

theorem tresca_asc {w : Principal ℝ} (h1 : w.w0 ≤ w.w1) (h2 : w.w1 ≤ w.w2) :
    tresca w = w.w2 - w.w0 := by
  rw [tresca, amax3_real]
  simp only [transc_abs]
  rw [abs_of_nonpos (by linarith), abs_of_nonpos (by linarith), abs_of_nonpos (by linarith)]
  have e1 : max (-(w.w0 - w.w1)) (-(w.w0 - w.w2)) = -(w.w0 - w.w2) := max_eq_right (by linarith)
  rw [e1, max_eq_left (by linarith)]
  ring

/-- `sign x`, with `0 ↦ 1` -/
theorem signOrOne_real (x : ℝ) :
    (let sgn := (Transc.sign x : ℝ); if isZero sgn then (1.0 : ℝ) else sgn) = if 0 ≤ x then 1 else -1 := by
  simp only [transc_sign]
  rcases lt_trichotomy x 0 with h | h | h
  · have : ¬ (0 < x) := not_lt.mpr h.le
    have h0 : isZero (-1 : ℝ) = false := by
      rw [Bool.eq_false_iff]; intro hh; have := (isZero_real _).mp hh; norm_num at this
    simp [this, h, not_le.mpr h, h0]
  · subst h
    have h0 : isZero (0 : ℝ) = true := (isZero_real 0).mpr rfl
    simp [h0, lit_one]
  · have h0 : isZero (1 : ℝ) = false := by
      rw [Bool.eq_false_iff]; intro hh; have := (isZero_real _).mp hh; norm_num at this
    simp [h, h.le, h0]

theorem signTrace_real (v : Voigt ℝ) :
    signTrace v = if 0 ≤ v.s11 + v.s22 + v.s33 then 1 else -1 := by
  unfold signTrace
  exact signOrOne_real _

theorem signAbsMax_real (w : Principal ℝ) :
    signAbsMax w = if 0 ≤ maxPrincipal w + minPrincipal w then 1 else -1 := by
  unfold signAbsMax
  simp only [transc_sign]
  rcases lt_trichotomy (maxPrincipal w + minPrincipal w) 0 with h | h | h
  · have h0 : isZero (-1 : ℝ) = false := by
      rw [Bool.eq_false_iff]; intro hh; have := (isZero_real _).mp hh; norm_num at this
    simp [not_lt.mpr h.le, h, not_le.mpr h, h0, lit_zero]
  · have h0 : isZero (0 : ℝ) = true := (isZero_real 0).mpr rfl
    simp [h, h0, lit_one]
  · have h0 : isZero (1 : ℝ) = false := by
      rw [Bool.eq_false_iff]; intro hh; have := (isZero_real _).mp hh; norm_num at this
    simp [h, h.le, h0, lit_zero]

theorem absMaxPrincipal_real (w : Principal ℝ) :
    absMaxPrincipal w = if 0 ≤ maxPrincipal w + minPrincipal w then maxPrincipal w else minPrincipal w := by
  unfold absMaxPrincipal
  rw [signAbsMax_real]
  by_cases h : 0 ≤ maxPrincipal w + minPrincipal w
  · simp [h, lit_one, lit_zero]
  · have : ¬ ((1 : ℝ) ≤ 0) := by norm_num
    simp [h, lit_one, lit_zero, this]

theorem mises_real (v : Voigt ℝ) :
    mises v = Real.sqrt (((v.s11 - v.s22) ^ 2 + (v.s22 - v.s33) ^ 2 + (v.s33 - v.s11) ^ 2) / 2
      + 3 * (v.s12 ^ 2 + v.s13 ^ 2 + v.s23 ^ 2)) := by
  rw [mises, transc_sqrt, misesRadicand_real]

theorem misesRadicand_nonneg (v : Voigt ℝ) : 0 ≤ misesRadicand v := by
  rw [misesRadicand_real]; positivity

theorem mises_nonneg (v : Voigt ℝ) : 0 ≤ mises v := by
  rw [mises, transc_sqrt]; exact Real.sqrt_nonneg _


/-! ### scaling, principal form, examples -/

/-- the tensor scaled by `c` (every component) -/
def smulV (c : ℝ) (v : Voigt ℝ) : Voigt ℝ :=
  ⟨c * v.s11, c * v.s22, c * v.s33, c * v.s12, c * v.s13, c * v.s23⟩

def smulW (c : ℝ) (w : Principal ℝ) : Principal ℝ := ⟨c * w.w0, c * w.w1, c * w.w2⟩

theorem tensor_smulV (c : ℝ) (v : Voigt ℝ) : tensor (smulV c v) = c • tensor v := by
  ext i j; fin_cases i <;> fin_cases j <;> simp [tensor, smulV]

/-- von Mises stress from the principal stress differences -/
noncomputable def principalMises (w : Principal ℝ) : ℝ :=
  Real.sqrt (((w.w0 - w.w1) ^ 2 + (w.w1 - w.w2) ^ 2 + (w.w2 - w.w0) ^ 2) / 2)

theorem principalMises_nonneg (w : Principal ℝ) : 0 ≤ principalMises w := Real.sqrt_nonneg _

open Polynomial in
/-- a diagonal tensor with ascending entries has these entries as its eigenvalue triple -/
theorem isEigTriple_diag {a b c : ℝ} (h1 : a ≤ b) (h2 : b ≤ c) :
    IsEigTriple (tensor ⟨a, b, c, 0, 0, 0⟩) ⟨a, b, c⟩ := by
  refine ⟨h1, h2, ?_⟩
  have : tensor ⟨a, b, c, 0, 0, 0⟩ = diagonal ![a, b, c] := by
    ext i j; fin_cases i <;> fin_cases j <;> simp [tensor]
  rw [this, Matrix.charpoly_diagonal, Fin.prod_univ_three]
  simp

/-- a rotation about the third axis (3-4-5 triangle), used in the non-vacuity examples -/
noncomputable def exQ : Matrix (Fin 3) (Fin 3) ℝ := !![3/5, -4/5, 0; 4/5, 3/5, 0; 0, 0, 1]

theorem exQ_orth : exQᵀ * exQ = 1 := by
  ext i j; fin_cases i <;> fin_cases j <;>
    simp [exQ, Matrix.mul_apply, Fin.sum_univ_three] <;> norm_num

def exS : Voigt ℝ := ⟨1, 2, 3, 4, 5, 6⟩
noncomputable def exT : Voigt ℝ := ⟨-11/5, 26/5, 3, -8/5, -9/5, 38/5⟩

theorem exT_eq : tensor exT = exQ * tensor exS * exQᵀ := by
  ext i j; fin_cases i <;> fin_cases j <;>
    simp [exQ, exS, exT, tensor, Matrix.mul_apply, Fin.sum_univ_three] <;> norm_num


/-- the members of an eigenvalue triple are exactly the eigenvalues (there is a non-zero eigenvector) -/
theorem IsEigTriple.eigenvalue_iff {A : Matrix (Fin 3) (Fin 3) ℝ} {w : Principal ℝ}
    (h : IsEigTriple A w) (μ : ℝ) :
    (∃ x : Fin 3 → ℝ, x ≠ 0 ∧ A *ᵥ x = μ • x) ↔ μ = w.w0 ∨ μ = w.w1 ∨ μ = w.w2 := by
  have h1 : (∃ x : Fin 3 → ℝ, x ≠ 0 ∧ A *ᵥ x = μ • x) ↔
      ∃ x : Fin 3 → ℝ, x ≠ 0 ∧ (Matrix.scalar (Fin 3) μ - A) *ᵥ x = 0 := by
    refine exists_congr fun x => and_congr_right fun _ => ?_
    rw [Matrix.sub_mulVec, sub_eq_zero]
    have : (Matrix.scalar (Fin 3) μ) *ᵥ x = μ • x := by
      ext i; simp [Matrix.scalar_apply, Matrix.mulVec_diagonal]
    rw [this]; exact eq_comm
  rw [h1, Matrix.exists_mulVec_eq_zero_iff, ← Matrix.eval_charpoly, h.2.2]
  simp only [Polynomial.eval_mul, Polynomial.eval_sub, Polynomial.eval_X, Polynomial.eval_C,
    mul_eq_zero, sub_eq_zero, or_assoc]

/-! ### a superposed hydrostatic pressure (used to delimit the tie set of the sign indicators) -/

/-- the tensor with a hydrostatic pressure `p` superposed (every normal component lowered by `p`) -/
def hydroShift (p : ℝ) (v : Voigt ℝ) : Voigt ℝ :=
  ⟨v.s11 - p, v.s22 - p, v.s33 - p, v.s12, v.s13, v.s23⟩

def shiftW (p : ℝ) (w : Principal ℝ) : Principal ℝ := ⟨w.w0 - p, w.w1 - p, w.w2 - p⟩

theorem tensor_hydroShift (p : ℝ) (v : Voigt ℝ) :
    tensor (hydroShift p v) = tensor v - Matrix.scalar (Fin 3) p := by
  ext i j; fin_cases i <;> fin_cases j <;> simp [tensor, hydroShift, Matrix.scalar_apply]

open Polynomial in
/-- subtracting `p` times the unit matrix lowers every member of the ascending eigenvalue triple by `p` -/
theorem IsEigTriple.sub_scalar {A : Matrix (Fin 3) (Fin 3) ℝ} {w : Principal ℝ}
    (h : IsEigTriple A w) (p : ℝ) : IsEigTriple (A - Matrix.scalar (Fin 3) p) (shiftW p w) := by
  obtain ⟨h1, h2, h3⟩ := h
  refine ⟨by simp only [shiftW]; linarith, by simp only [shiftW]; linarith, ?_⟩
  rw [Matrix.charpoly_sub_scalar, h3]
  simp only [shiftW, mul_comp, sub_comp, X_comp, C_comp, C_sub]
  ring

/-- pure shear `τ` in the 1-2 plane has the principal stresses `-τ, 0, τ` -/
theorem pureShear_eigTriple (τ : ℝ) (hτ : 0 ≤ τ) :
    IsEigTriple (tensor ⟨0, 0, 0, τ, 0, 0⟩) ⟨-τ, 0, τ⟩ := by
  refine ⟨by simp only; linarith, hτ, ?_⟩
  simp [Matrix.charpoly, Matrix.charmatrix, Matrix.det_fin_three, tensor]
  ring

end PylifeVerif.Equistress
