/-
Helper lemmas for `Proofs/RainflowCorollaries.lean`: combinations of the C01–C03 theorems of the
rainflow detectors (chunk bookkeeping, chunked spec equality, insertion of a non-reversal sample).
-/
import Proofs.Lemmas.Common
import Proofs.C01Core
import Proofs.C02FourPoint
import Proofs.C02Fkm
import Proofs.C03Sym
import Proofs.ThreePoint
import Proofs.ThreePointC01
import Proofs.ThreePointC02
import Proofs.Lemmas.HCMInsert
import Mathlib.Data.List.Forall2

namespace PylifeVerif.RainflowCor
open PylifeVerif.Rainflow PylifeVerif.C01 PylifeVerif.C02

/-! ### A/B: chunked runs against the one-piece run -/

/-- All points a three-point or four-point detector state reports: the end points of the recorded cycles and
the residual points (decided residuals and the last sample). -/
def reportedPts (st : DetState) : List Pt :=
  (st.cycles.flatMap fun c => [c.1, c.2]) ++ residualPts st

theorem flatten_ne_nil (cs : List (List Int)) (hne : ∀ c ∈ cs, c ≠ []) (h0 : cs ≠ []) :
    cs.flatten ≠ [] := by
  cases cs with
  | nil => exact absurd rfl h0
  | cons c cs =>
    have := hne c (by simp)
    simp [this]

/-- cycles and residual points of a chunked run are those of the one-piece run -/
theorem fpRun_chunked (cs : List (List Int)) (hne : ∀ c ∈ cs, c ≠ []) (h0 : cs ≠ []) :
    (fpRun cs).cycles = (fpRun [cs.flatten]).cycles ∧
      residualPts (fpRun cs) = residualPts (fpRun [cs.flatten]) ∧
      (fpRun cs).chunks = cs.map List.length := by
  obtain ⟨hc, hs, hl, hts, _, _, hch⟩ := fourPoint_chunk_independent cs hne h0
  refine ⟨hc, ?_, hch⟩
  simp only [residualPts, hs, hl, hts]

/-- `fourPoint_index_valid` without the length restriction (a one-sample signal reports its only
sample twice: as first residual and as last sample). -/
theorem fourPoint_index_valid_ne (s : List Int) (hs : s ≠ []) :
    ∀ p ∈ reportedPts (fpRun [s]), s[p.1]? = some p.2 := by
  by_cases h : 2 ≤ s.length
  · exact fourPoint_index_valid s h
  · match s, hs, h with
    | [a], _, _ =>
      intro p hp
      simp [reportedPts, residualPts, fpRun, fpProcess, newTurns, findTurns, findTurnsAux, fpFeed,
        fpClose] at hp
      subst hp
      simp
    | a :: b :: t, _, h => simp at h

theorem chunk_addresses (cs : List (List Int)) (hne : ∀ c ∈ cs, c ≠ []) (h0 : cs ≠ []) :
    ∀ p ∈ reportedPts (fpRun cs),
      ∃ c, cs[(chunkLocalIndex (fpRun cs).chunks p.1).1]? = some c ∧
        c[(chunkLocalIndex (fpRun cs).chunks p.1).2]? = some p.2 := by
  obtain ⟨hc, hr, hch⟩ := fpRun_chunked cs hne h0
  intro p hp
  have hp' : p ∈ reportedPts (fpRun [cs.flatten]) := by
    simpa only [reportedPts, hc, hr] using hp
  have hv := fourPoint_index_valid_ne cs.flatten (flatten_ne_nil cs hne h0) p hp'
  have hlt : p.1 < cs.flatten.length := by
    by_contra hge
    rw [List.getElem?_eq_none (by omega)] at hv
    exact absurd hv (by simp)
  obtain ⟨c, h1, h2, _⟩ := chunkLocalIndex_correct cs hne p.1 hlt
  rw [hch]
  exact ⟨c, h1, h2.trans hv⟩

/-! ### C: the decisions of `fpClose` / `fpFeed` depend on the values only -/

/-- cycles related end point by end point -/
def RelC (R : Pt → Pt → Prop) (c c' : Cycle) : Prop := R c.1 c'.1 ∧ R c.2 c'.2

theorem fpClose_rel (R : Pt → Pt → Prop) (hR : ∀ p q, R p q → p.2 = q.2) (d : Int) :
    ∀ (n : Nat) (st st' : List Pt), st.length ≤ n → List.Forall₂ R st st' →
      List.Forall₂ (RelC R) (fpClose st d).1 (fpClose st' d).1 ∧
        List.Forall₂ R (fpClose st d).2 (fpClose st' d).2 := by
  intro n
  induction n with
  | zero =>
    intro st st' hn h
    cases h with
    | nil => simp [Common.fpClose_nil']
    | cons _ _ => simp at hn
  | succ n ih =>
    intro st st' hn h
    match st, st', h with
    | [], _, .nil => simp [Common.fpClose_nil']
    | [c], _, .cons hc .nil =>
      simp only [Common.fpClose_one']
      exact ⟨.nil, .cons hc .nil⟩
    | [c, b], _, .cons hc (.cons hb .nil) =>
      simp only [Common.fpClose_two']
      exact ⟨.nil, .cons hc (.cons hb .nil)⟩
    | c :: b :: a :: rest, _, .cons (b := c') hc (.cons (b := b') hb (.cons (b := a') (l₂ := rest') ha hrest)) =>
      have ec := hR _ _ hc
      have eb := hR _ _ hb
      have ea := hR _ _ ha
      by_cases hcond : absDiff b.2 c.2 ≤ absDiff a.2 b.2 ∧ absDiff b.2 c.2 ≤ absDiff c.2 d
      · have hcond' : absDiff b'.2 c'.2 ≤ absDiff a'.2 b'.2 ∧ absDiff b'.2 c'.2 ≤ absDiff c'.2 d := by
          rw [← ec, ← eb, ← ea]; exact hcond
        rw [Common.fpClose_pos' c b a rest d hcond, Common.fpClose_pos' c' b' a' rest' d hcond']
        obtain ⟨i1, i2⟩ := ih (a :: rest) (a' :: rest') (by simp only [List.length_cons] at hn ⊢; omega)
          (.cons ha hrest)
        exact ⟨.cons ⟨hb, hc⟩ i1, i2⟩
      · have hcond' : ¬ (absDiff b'.2 c'.2 ≤ absDiff a'.2 b'.2 ∧ absDiff b'.2 c'.2 ≤ absDiff c'.2 d) := by
          rw [← ec, ← eb, ← ea]; exact hcond
        rw [Common.fpClose_neg' c b a rest d hcond, Common.fpClose_neg' c' b' a' rest' d hcond']
        exact ⟨.nil, .cons hc (.cons hb (.cons ha hrest))⟩

/-- **`fpFeed` looks at values only.**  Feeding two point lists with pairwise equal values (and
arbitrary indices) into two stacks with pairwise equal values yields cycle lists and stacks that
correspond point by point. -/
theorem fpFeed_rel (R : Pt → Pt → Prop) (hR : ∀ p q, R p q → p.2 = q.2) (ps ps' : List Pt)
    (hps : List.Forall₂ R ps ps') : ∀ (st st' : List Pt), List.Forall₂ R st st' →
      List.Forall₂ (RelC R) (fpFeed st ps).1 (fpFeed st' ps').1 ∧
        List.Forall₂ R (fpFeed st ps).2 (fpFeed st' ps').2 := by
  induction hps with
  | nil => intro st st' h; exact ⟨.nil, h⟩
  | @cons p p' l l' hp _ ih =>
    intro st st' h
    simp only [fpFeed, fpPush]
    rw [← hR _ _ hp]
    obtain ⟨c1, c2⟩ := fpClose_rel R hR p.2 st.length st st' (Nat.le_refl _) h
    obtain ⟨i1, i2⟩ := ih _ _ (List.Forall₂.cons hp c2)
    exact ⟨List.rel_append c1 i1, i2⟩

/-- image of a cycle under a map of points -/
def mapC (g : Pt → Pt) (c : Cycle) : Cycle := (g c.1, g c.2)

theorem forall₂_map_iff {α : Type} (g : α → α) (l l' : List α) :
    List.Forall₂ (fun p q => g p = q) l l' ↔ l' = l.map g := by
  rw [← List.forall₂_map_left_iff (f := g) (R := Eq), List.forall₂_eq_eq_eq]
  exact eq_comm

theorem forall₂_map_self {α : Type} (g : α → α) (l : List α) :
    List.Forall₂ (fun p q => g p = q) l (l.map g) := (forall₂_map_iff g l _).2 rfl

theorem relC_map (g : Pt → Pt) : RelC (fun p q => g p = q) = fun c c' => mapC g c = c' := by
  funext c c'
  simp only [RelC, mapC]
  exact propext ⟨fun h => Prod.ext h.1 h.2, fun h => by rw [← h]; exact ⟨rfl, rfl⟩⟩

theorem fpClose_map (g : Pt → Pt) (hg : ∀ p, (g p).2 = p.2) (st : List Pt) (d : Int) :
    fpClose (st.map g) d = ((fpClose st d).1.map (mapC g), (fpClose st d).2.map g) := by
  obtain ⟨h1, h2⟩ := fpClose_rel (fun p q => g p = q) (fun p q h => by rw [← h, hg]) d st.length st
    (st.map g) (Nat.le_refl _) (forall₂_map_self g st)
  rw [relC_map, forall₂_map_iff] at h1
  rw [forall₂_map_iff] at h2
  exact Prod.ext h1 h2

theorem fpFeed_map (g : Pt → Pt) (hg : ∀ p, (g p).2 = p.2) (st ps : List Pt) :
    fpFeed (st.map g) (ps.map g) = ((fpFeed st ps).1.map (mapC g), (fpFeed st ps).2.map g) := by
  obtain ⟨h1, h2⟩ := fpFeed_rel (fun p q => g p = q) (fun p q h => by rw [← h, hg]) ps (ps.map g)
    (forall₂_map_self g ps) st (st.map g) (forall₂_map_self g st)
  rw [relC_map, forall₂_map_iff] at h1
  rw [forall₂_map_iff] at h2
  exact Prod.ext h1 h2

/-! ### C: insertion of a sample weakly between its neighbours -/

open PylifeVerif.HCM.Insert in
/-- Position from which on the reported indices move by one when `v` is inserted between `x` (at
position `|pre|`) and `y`: normally the position of `v` itself, `|pre| + 1`; but if `v = y` and `y`
is not the last sample, the plateau `v, y` is reported at its first sample, which sits at the old
position of `y`, so only the indices behind `y` move. -/
def insPos (pre : List Int) (v y : Int) (post : List Int) : Nat :=
  if v = y ∧ post ≠ [] then pre.length + 2 else pre.length + 1

/-- an interior reversal is never the last sample -/
theorem findTurns_index_succ_lt (s : List Int) : ∀ p ∈ findTurns s, 0 < p.1 ∧ p.1 + 1 < s.length := by
  intro p hp
  rw [findTurns_eq_reversals] at hp
  simp only [Spec.reversals, List.mem_map, List.mem_filter, List.mem_range] at hp
  obtain ⟨i, ⟨_, hi⟩, rfl⟩ := hp
  simp only [Spec.isReversal] at hi
  split at hi
  · exact absurd hi (by simp)
  · rename_i hc
    simp only [List.size_toArray] at hc
    simp only
    omega

open PylifeVerif.HCM.Insert in
/-- **Index form of the refinement insensitivity of `find_turns`.**  Inserting a sample `v` weakly
between its neighbours keeps all turning points; their indices are moved by `bump (insPos …)`. -/
theorem findTurns_insert_bump (pre post : List Int) (x y v : Int)
    (hv : (x ≤ v ∧ v ≤ y) ∨ (y ≤ v ∧ v ≤ x)) :
    findTurns (pre ++ x :: v :: y :: post) =
      (findTurns (pre ++ x :: y :: post)).map (bump (insPos pre v y post)) := by
  by_cases hvy : v = y
  · subst hvy
    have e1 : pre ++ x :: v :: v :: post = (pre ++ [x, v]) ++ v :: post := by simp
    have e2 : pre ++ x :: v :: post = (pre ++ [x, v]) ++ post := by simp
    have hins : InsOK (pre ++ [x, v]) v post := ⟨v, by simp, Or.inl rfl⟩
    rw [e1, findTurns_ins _ _ _ hins, ← e2]
    have hl : (pre ++ [x, v]).length = pre.length + 2 := by simp
    rw [hl]
    by_cases hpost : post = []
    · subst hpost
      apply List.map_congr_left
      intro p hp
      have := (findTurns_index_succ_lt _ p hp).2
      simp only [List.length_append, List.length_cons, List.length_nil] at this
      simp only [insPos, ne_eq, not_true_eq_false, and_false, if_false, bump, bumpN]
      rw [if_pos (by omega), if_pos (by omega)]
    · simp only [insPos, hpost, ne_eq, not_false_eq_true, and_self, if_true]
  · have e1 : pre ++ x :: v :: y :: post = (pre ++ [x]) ++ v :: (y :: post) := by simp
    have e2 : pre ++ x :: y :: post = (pre ++ [x]) ++ (y :: post) := by simp
    have hins : InsOK (pre ++ [x]) v (y :: post) := by
      refine ⟨x, by simp, ?_⟩
      by_cases hvx : v = x
      · exact Or.inl hvx
      · exact Or.inr ⟨y, post, rfl, by omega⟩
    rw [e1, findTurns_ins _ _ _ hins, ← e2]
    simp [insPos, hvy]

/-- The one-piece four-point run under a value preserving map of the turning points that fixes
the first sample and maps the last sample to the last sample. -/
theorem fpRun_single_map (s0 : Int) (tl tl' : List Int) (g : Pt → Pt) (hg : ∀ p, (g p).2 = p.2)
    (h0 : g (0, s0) = (0, s0))
    (hT : findTurns (s0 :: tl') = (findTurns (s0 :: tl)).map g)
    (hl : (s0 :: tl').getLast! = (s0 :: tl).getLast!)
    (hlen : g ((s0 :: tl).length - 1, (s0 :: tl).getLast!) =
      ((s0 :: tl').length - 1, (s0 :: tl).getLast!)) :
    (fpRun [s0 :: tl']).cycles = (fpRun [s0 :: tl]).cycles.map (mapC g) ∧
      residualPts (fpRun [s0 :: tl']) = (residualPts (fpRun [s0 :: tl])).map g := by
  obtain ⟨a1, a2⟩ := fpRun_single s0 tl
  obtain ⟨b1, b2⟩ := fpRun_single s0 tl'
  have hfeed := fpFeed_map g hg [(0, s0)] (findTurns (s0 :: tl))
  rw [List.map_cons, List.map_nil, h0] at hfeed
  rw [a1, a2, b1, b2, hT, hl, hfeed]
  simp only [fpClose_map g hg]
  constructor
  · simp only [List.map_append]
  · simp only [List.map_append, List.map_reverse, List.map_cons, List.map_nil, hlen]

open PylifeVerif.HCM.Insert in
/-- what `bumpN (insPos …)` does: positions up to `x` stay, positions behind `y` move by one, the
position of `y` moves unless `v = y` takes over as first sample of the plateau `v, y` -/
theorem bumpN_insPos (pre post : List Int) (v y : Int) (j : Nat) :
    (j ≤ pre.length → bumpN (insPos pre v y post) j = j) ∧
    (pre.length + 1 < j → bumpN (insPos pre v y post) j = j + 1) ∧
    (j = pre.length + 1 → bumpN (insPos pre v y post) j = if v = y ∧ post ≠ [] then j else j + 1) := by
  unfold bumpN insPos
  refine ⟨fun h => ?_, fun h => ?_, fun h => ?_⟩ <;> split_ifs <;> omega

open PylifeVerif.HCM.Insert in
theorem insert_core (pre post : List Int) (x y v : Int)
    (hv : (x ≤ v ∧ v ≤ y) ∨ (y ≤ v ∧ v ≤ x)) (s0 : Int) (tl tl' : List Int)
    (hs : pre ++ x :: y :: post = s0 :: tl) (hs' : pre ++ x :: v :: y :: post = s0 :: tl') :
    (fpRun [s0 :: tl']).cycles =
        (fpRun [s0 :: tl]).cycles.map (mapC (bump (insPos pre v y post))) ∧
      residualPts (fpRun [s0 :: tl']) =
        (residualPts (fpRun [s0 :: tl])).map (bump (insPos pre v y post)) := by
  apply fpRun_single_map s0 tl tl' (bump (insPos pre v y post)) (fun p => rfl)
  · simp only [bump, bumpN, insPos]
    split_ifs <;> first | rfl | omega
  · rw [← hs, ← hs']; exact findTurns_insert_bump pre post x y v hv
  · rw [← hs, ← hs']
    have e1 : pre ++ x :: v :: y :: post = (pre ++ [x, v]) ++ y :: post := by simp
    have e2 : pre ++ x :: y :: post = (pre ++ [x]) ++ y :: post := by simp
    rw [e1, e2, getLast!_append_cons, getLast!_append_cons]
  · rw [← hs, ← hs']
    simp only [bump, bumpN, insPos, List.length_append, List.length_cons]
    have hp : post ≠ [] → 0 < post.length := List.length_pos_of_ne_nil
    congr 1
    split_ifs with h1 h2 h2 <;> first | omega | (have := hp h1.2; omega)

open PylifeVerif.HCM.Insert in
/-- four-point, one piece: cycles and residual points after the insertion are those before it with
moved indices -/
theorem fp_insert_single (pre post : List Int) (x y v : Int)
    (hv : (x ≤ v ∧ v ≤ y) ∨ (y ≤ v ∧ v ≤ x)) :
    (fpRun [pre ++ x :: v :: y :: post]).cycles =
        (fpRun [pre ++ x :: y :: post]).cycles.map (mapC (bump (insPos pre v y post))) ∧
      residualPts (fpRun [pre ++ x :: v :: y :: post]) =
        (residualPts (fpRun [pre ++ x :: y :: post])).map (bump (insPos pre v y post)) := by
  cases pre with
  | nil => exact insert_core [] post x y v hv x (y :: post) (v :: y :: post) rfl rfl
  | cons a pre' =>
    exact insert_core (a :: pre') post x y v hv a (pre' ++ x :: y :: post)
      (pre' ++ x :: v :: y :: post) rfl rfl

theorem cs_ne_nil_of_flatten (cs : List (List Int)) (s : List Int) (h : cs.flatten = s)
    (hs : s ≠ []) : cs ≠ [] := by
  rintro rfl
  exact hs (by simpa using h.symm)

theorem residuals_eq_map (st : DetState) : st.residuals = (residualPts st).map (·.2) := by
  unfold DetState.residuals residualPts
  cases st.last <;> simp

/-- the FKM detector's cycles, residuals, `ir` and running maximum are a function of the turning
point values of the concatenated signal -/
theorem fkmRun_vals (cs : List (List Int)) (hne : ∀ c ∈ cs, c ≠ []) :
    (fkmRun cs).cycles = (((findTurns cs.flatten).map (·.2)).foldl fkmTurn {}).cycles ∧
    (fkmRun cs).res = (((findTurns cs.flatten).map (·.2)).foldl fkmTurn {}).res ∧
    (fkmRun cs).ir = (((findTurns cs.flatten).map (·.2)).foldl fkmTurn {}).ir ∧
    (fkmRun cs).maxTurn = (((findTurns cs.flatten).map (·.2)).foldl fkmTurn {}).maxTurn := by
  rw [fkmRun_eq, turnsRun_turns cs hne, List.foldl_map]
  exact ⟨rfl, rfl, rfl, rfl⟩

end PylifeVerif.RainflowCor
