/-
Property C15: density and distribution function of Mathlib's standard Gaussian measure.
`normPdf σ x` = `scipy.stats.norm.pdf(x, loc = 0, scale = σ)`; `∫ₗᵘ normPdf 1 = Φ(u) − Φ(l)`; `Φ' = normPdf 1`.
-/
import Proofs.Lemmas.GaussianOverlap
import Mathlib.MeasureTheory.Integral.IntervalIntegral.FundThmCalculus
namespace PylifeVerif.GaussianOverlap
open MeasureTheory ProbabilityTheory

noncomputable def normPdf (σ x : ℝ) : ℝ := (σ * Real.sqrt (2 * Real.pi))⁻¹ * Real.exp (-(x ^ 2) / (2 * σ ^ 2))

theorem normPdf_one_eq (x : ℝ) : normPdf 1 x = gaussianPDFReal 0 1 x := by
  simp [normPdf, gaussianPDFReal]

theorem continuous_normPdf (σ : ℝ) : Continuous (normPdf σ) := by
  unfold normPdf; fun_prop

private theorem integral_le (l u : ℝ) (h : l ≤ u) :
    ∫ t in l..u, normPdf 1 t = stdNormalCdf u - stdNormalCdf l := by
  rw [intervalIntegral.integral_of_le h]
  simp_rw [normPdf_one_eq]
  have hU : Set.Iic u = Set.Iic l ∪ Set.Ioc l u := (Set.Iic_union_Ioc_eq_Iic h).symm
  have hd : Disjoint (Set.Iic l) (Set.Ioc l u) := Set.Iic_disjoint_Ioc le_rfl
  have hreal : (gaussianReal 0 1).real (Set.Ioc l u) = ∫ x in Set.Ioc l u, gaussianPDFReal 0 1 x := by
    rw [Measure.real, gaussianReal_apply_eq_integral 0 one_ne_zero, ENNReal.toReal_ofReal]
    exact setIntegral_nonneg measurableSet_Ioc fun x _ => gaussianPDFReal_nonneg _ _ _
  unfold stdNormalCdf
  rw [hU, measureReal_union hd measurableSet_Ioc, hreal]
  ring

theorem integral_normPdf_one (l u : ℝ) : ∫ t in l..u, normPdf 1 t = stdNormalCdf u - stdNormalCdf l := by
  rcases le_total l u with h | h
  · exact integral_le l u h
  · rw [intervalIntegral.integral_symm, integral_le u l h]; ring

theorem hasDerivAt_stdNormalCdf (x : ℝ) : HasDerivAt stdNormalCdf (normPdf 1 x) x := by
  have heq : stdNormalCdf = fun u => stdNormalCdf 0 + ∫ t in (0:ℝ)..u, normPdf 1 t := by
    funext u; rw [integral_normPdf_one]; ring
  rw [heq]
  have hc := continuous_normPdf 1
  exact (intervalIntegral.integral_hasDerivAt_right (hc.intervalIntegrable _ _)
    (hc.stronglyMeasurableAtFilter _ _) hc.continuousAt).const_add _
end PylifeVerif.GaussianOverlap
