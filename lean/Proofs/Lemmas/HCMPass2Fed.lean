/-
Helper lemmas for C04 `pass2_eq_periodicRainflow`, part 5: what the two passes are fed, for a
trimmed signal `t = t0 ++ [z]` whose last sample `z` is a turning point of the repeated signal
(`CycEnd`): pass 1 gets `tv 0 0 t ++ [z]`, pass 2 gets `tv 0 z t ++ [z]`;
* `fed_zig`: the concatenation alternates strictly,
* `fed2_rot`: pass 2 is fed one period of the cyclic reversal word,
* `fed_split`: both passes end with the same values behind an occurrence of the first value of
  largest absolute value of pass 1.
-/
import Proofs.Lemmas.HCMPass2Turns
import Proofs.Lemmas.Periodic

namespace PylifeVerif.C04
open PylifeVerif.Rainflow PylifeVerif.HCM PylifeVerif.HCM.Spec PylifeVerif.Sym

/-- `t = t0 ++ [z]` ends with a turning point of the repeated signal: the last step `p → z` is a
proper step and the first sample different from `z` reverses it. -/
structure CycEnd (t t0 : List Int) (p z q : Int) : Prop where
  ht : t = t0 ++ [z]
  hp : t0.getLast? = some p
  hpz : p ≠ z
  hf : t0.find? (· ≠ z) = some q
  hq : sgn (q - z) ≠ sgn (z - p)

namespace CycEnd
variable {t t0 : List Int} {p z q : Int}

theorem dne (_ : CycEnd t t0 p z q) (hpz : p ≠ z) : sgn (z - p) ≠ 0 :=
  fun h => hpz (by have := PylifeVerif.Rainflow.sgn_eq_zero h; omega)

theorem find_t (h : CycEnd t t0 p z q) (ys : List Int) : (t ++ ys).find? (· ≠ z) = some q := by
  rw [h.ht, List.append_assoc, List.find?_append, h.hf]; rfl

/-- scan state after `t`, from any state -/
theorem st_end (h : CycEnd t t0 p z q) (dir a : Int) : tvSt dir a t = (sgn (z - p), z) := by
  rw [h.ht]; exact tvSt_end t0 p z h.hp h.hpz dir a

theorem tv_pending (h : CycEnd t t0 p z q) (ys : List Int) :
    tv (sgn (z - p)) z (t ++ ys) = z :: tv 0 z (t ++ ys) :=
  tv_first (t ++ ys) z q _ (h.find_t ys) h.hq (h.dne h.hpz)

/-- the turning points of the zero-prefixed tripled signal: pass 1, pass 2, and more -/
theorem tv_triple (h : CycEnd t t0 p z q) :
    tv 0 0 (t ++ (t ++ t)) = (tv 0 0 t ++ [z]) ++ (tv 0 z t ++ [z]) ++ tv 0 z t := by
  rw [tv_append, h.st_end 0 0]
  simp only []
  rw [h.tv_pending t, tv_append, h.st_end 0 z]
  simp only []
  have := h.tv_pending []
  simp only [List.append_nil] at this
  rw [this]
  simp

end CycEnd

theorem zigD_iff_alt (l : List Int) : ∀ (up : Bool) (a : Int), Fkm.ZigD up a l ↔ Alt up (a :: l) := by
  induction l with
  | nil => intro up a; simp [Fkm.ZigD, Alt]
  | cons b l ih =>
    intro up a
    simp only [Fkm.ZigD, Alt]
    rw [ih]

theorem zig_of_alternating (l : List Int) (h : Fkm.Alternating l) : Zig l := by
  cases l with
  | nil => exact ⟨true, trivial⟩
  | cons k rest =>
    rcases h with h | h
    · exact ⟨true, (zigD_iff_alt rest true k).1 h⟩
    · exact ⟨false, (zigD_iff_alt rest false k).1 h⟩

theorem CycEnd.fed_zig {t t0 : List Int} {p z q : Int} (h : CycEnd t t0 p z q) :
    Zig ((tv 0 0 t ++ [z]) ++ (tv 0 z t ++ [z])) := by
  have h1 := Fkm.findTurns_alternating (0 :: (t ++ (t ++ t)))
  rw [findTurns_vals, h.tv_triple] at h1
  exact zig_infix [] _ (tv 0 z t) (by simpa using zig_of_alternating _ h1)

theorem getLast?_dedup (l : List Int) : (dedup l).getLast? = l.getLast? := by
  fun_induction dedup l with
  | case1 a rest ih => rw [ih, List.getLast?_cons_cons]
  | case2 a b rest h ih =>
    obtain ⟨D, hD⟩ := dedup_head b rest
    rw [hD] at ih ⊢
    rw [List.getLast?_cons_cons, ih, List.getLast?_cons_cons]
  | case3 l h => rfl

/-- **Pass 2 is fed one period of the cyclic reversal word** (up to rotation). -/
theorem CycEnd.fed2_rot {t t0 : List Int} {p z q : Int} (h : CycEnd t t0 p z q) :
    (tv 0 z t ++ [z]) ~r cyclicReversals t := by
  obtain ⟨D, hD⟩ := dedup_head z t0
  have hne : t0 ≠ [] := by intro h0; have := h.hp; simp [h0] at this
  have hlast : (z :: t0).getLast? = some p := by
    cases t0 with
    | nil => exact absurd rfl hne
    | cons b r => rw [List.getLast?_cons_cons]; exact h.hp
  have hlD : (z :: D).getLast? = some p := by rw [← hD, getLast?_dedup, hlast]
  have hDne : D ≠ [] := by
    intro h0; rw [h0] at hlD; simp at hlD; exact h.hpz hlD.symm
  have hcd : cdedup (z :: t0) = z :: D := by
    rw [cdedup_eq, hD, cd_of_ne]
    rw [hlD]; simp; exact fun h' => h.hpz h'.symm
  have h1 := cyclicReversals_eq_ext3 (z :: t0) z D hcd hDne
  have hgl : (z :: D).getLast (by simp) = p := by
    have := List.getLast?_eq_some_getLast (l := z :: D) (by simp)
    rw [hlD] at this
    exact (Option.some.inj this).symm
  rw [hgl] at h1
  -- the same word from the scan with the pending candidate `z`
  have hded : dedup (z :: t) = (z :: D) ++ [z] := by
    have : z :: t = (z :: t0) ++ [z] := by rw [h.ht]; simp
    rw [this, dedup_snoc, hD, hlD, if_neg (by simp; exact h.hpz)]
  have hu : (sgn (z - p) = 1 ∧ p < z) ∨ (sgn (z - p) = -1 ∧ z < p) := by
    have := h.hpz
    rcases PylifeVerif.Rainflow.sgn_cases (z - p) with hs | hs | hs <;> omega
  have h2 := (tv_eq_ext3_aux t (sgn (z - p)) z).2 p hu
  rw [hded] at h2
  have h3 := h.tv_pending []
  simp only [List.append_nil] at h3
  have h4 : cyclicReversals (z :: t0) = z :: tv 0 z t := by
    simp only [List.cons_append] at h1 h2
    rw [h1, ← h2, h3]
  have h5 : cyclicReversals t ~r cyclicReversals (z :: t0) := by
    have := cyclicReversals_rotate t0 [z]
    rw [h.ht]; simpa using this
  rw [h4] at h5
  have h6 : (tv 0 z t ++ [z]) ~r (z :: tv 0 z t) := by
    have := List.isRotated_append (l := tv 0 z t) (l' := [z])
    simpa using this
  exact h6.trans h5.symm

theorem mem_of_mem_dedup (l : List Int) : ∀ x ∈ dedup l, x ∈ l := by
  fun_induction dedup l with
  | case1 a rest ih => exact fun x hx => List.mem_cons_of_mem _ (ih x hx)
  | case2 a b rest h ih =>
    intro x hx
    rcases List.mem_cons.1 hx with rfl | hx
    · simp
    · exact List.mem_cons_of_mem _ (ih x hx)
  | case3 l h => exact fun x hx => hx

/-- a non-empty list splits at its first element of largest absolute value -/
theorem first_max (l : List Int) (hl : l ≠ []) :
    ∃ q0 M r0, l = q0 ++ M :: r0 ∧ (∀ x ∈ q0, x.natAbs < M.natAbs) ∧
      ∀ x ∈ l, x.natAbs ≤ M.natAbs := by
  induction l with
  | nil => exact absurd rfl hl
  | cons a l ih =>
    by_cases hl' : l = []
    · subst hl'
      exact ⟨[], a, [], rfl, by simp, by simp⟩
    · obtain ⟨q0, M, r0, h1, h2, h3⟩ := ih hl'
      by_cases ha : M.natAbs ≤ a.natAbs
      · refine ⟨[], a, l, rfl, by simp, ?_⟩
        intro x hx
        rcases List.mem_cons.1 hx with rfl | hx
        · exact Nat.le_refl _
        · exact Nat.le_trans (h3 x hx) ha
      · refine ⟨a :: q0, M, r0, by rw [h1]; rfl, ?_, ?_⟩
        · intro x hx
          rcases List.mem_cons.1 hx with rfl | hx
          · omega
          · exact h2 x hx
        · intro x hx
          rcases List.mem_cons.1 hx with rfl | hx
          · omega
          · exact h3 x hx

/-- the turning points of `a :: t` are those of `t` alone, possibly preceded by the first value of
`t` (de-duplicated `e1 :: e2 :: …`) -/
theorem tv_common (t : List Int) (e1 e2 : Int) (E : List Int) (hE : dedup t = e1 :: e2 :: E) (a : Int) :
    tv 0 a t = (if a ≠ e1 ∧ ((a < e1 ∧ e2 < e1) ∨ (a > e1 ∧ e2 > e1)) then [e1] else []) ++
      ext3 (dedup t) := by
  have hh : t.head? = some e1 := by rw [← head?_dedup, hE]; rfl
  rw [tv_eq_ext3, dedup_cons, hh]
  by_cases ha : a = e1
  · subst ha
    simp
  · have : ¬ (some e1 = some a) := by simp; exact fun h => ha h.symm
    rw [if_neg this, hE, ext3]
    by_cases hc : (a < e1 ∧ e2 < e1) ∨ (a > e1 ∧ e2 > e1)
    · simp [ha, hc]
    · simp [hc]

/-- **Common tail of the two passes** behind an occurrence of the first value `M` of largest
absolute value of pass 1; `M` bounds everything that is fed. -/
theorem CycEnd.fed_split {t t0 : List Int} {p z q : Int} (h : CycEnd t t0 p z q) :
    ∃ M q0 r0 q1 q2 r, tv 0 0 t ++ [z] = q0 ++ M :: r0 ∧ (∀ x ∈ q0, x.natAbs < M.natAbs) ∧
      tv 0 0 t ++ [z] = q1 ++ M :: r ∧ tv 0 z t ++ [z] = q2 ++ M :: r ∧
      (∀ x ∈ (tv 0 0 t ++ [z]) ++ (tv 0 z t ++ [z]), x.natAbs ≤ M.natAbs) ∧ M ≠ 0 := by
  have hne : t0 ≠ [] := by intro h0; have := h.hp; simp [h0] at this
  have hpt : p ∈ t := by rw [h.ht]; exact List.mem_append_left _ (List.mem_of_getLast? h.hp)
  have hzt : z ∈ t := by rw [h.ht]; simp
  -- the de-duplicated signal has at least two elements
  obtain ⟨e1, e2, E, hE⟩ : ∃ e1 e2 E, dedup t = e1 :: e2 :: E := by
    have h1 : dedup t = dedup t0 ++ [z] := by
      rw [h.ht, dedup_snoc, getLast?_dedup, h.hp, if_neg (by simp; exact h.hpz)]
    cases hG : dedup t0 with
    | nil => exact absurd ((dedup_eq_nil t0).1 hG) hne
    | cons e1 G =>
      rw [hG] at h1
      cases G with
      | nil => exact ⟨e1, z, [], h1⟩
      | cons e2 G' => exact ⟨e1, e2, G' ++ [z], h1⟩
  have he12 : e1 ≠ e2 := by
    have := adjNe_dedup t
    rw [hE, AdjNe, List.isChain_cons_cons] at this
    exact this.1
  have he1t : e1 ∈ t := mem_of_mem_dedup t e1 (by rw [hE]; simp)
  have he2t : e2 ∈ t := mem_of_mem_dedup t e2 (by rw [hE]; simp)
  -- first value of largest absolute value in pass 1
  obtain ⟨q0, M, r0, h1, h2, h3⟩ := first_max (tv 0 0 t ++ [z]) (by simp)
  have tbound : ∀ y ∈ t, y.natAbs ≤ M.natAbs := by
    intro y hy
    obtain ⟨⟨hi, hhi, hyh⟩, ⟨lo, hlo, hyl⟩⟩ := tv_bound t 0 0 y (List.mem_cons_of_mem _ hy)
    rw [h.st_end 0 0] at hhi hlo
    have hb : ∀ w ∈ (0 : Int) :: (tv 0 0 t ++ [z]), w.natAbs ≤ M.natAbs := by
      intro w hw
      rcases List.mem_cons.1 hw with rfl | hw
      · simp
      · exact h3 w hw
    have := hb hi hhi
    have := hb lo hlo
    omega
  have hM0 : M ≠ 0 := by
    intro h0
    have := tbound p hpt
    have := tbound z hzt
    have := h.hpz
    subst h0
    simp at *
    omega
  have c0 := tv_common t e1 e2 E hE 0
  have cz := tv_common t e1 e2 E hE z
  have hF2 : ∀ x ∈ tv 0 z t ++ [z], x.natAbs ≤ M.natAbs := by
    intro x hx
    rw [cz, List.append_assoc] at hx
    rcases List.mem_append.1 hx with hx | hx
    · split_ifs at hx
      · simp only [List.mem_singleton] at hx; subst hx; exact tbound _ he1t
      · simp at hx
    · apply h3
      rw [c0, List.append_assoc]
      exact List.mem_append_right _ hx
  have hall : ∀ x ∈ (tv 0 0 t ++ [z]) ++ (tv 0 z t ++ [z]), x.natAbs ≤ M.natAbs := by
    intro x hx
    rcases List.mem_append.1 hx with hx | hx
    · exact h3 x hx
    · exact hF2 x hx
  have hMF : M ∈ tv 0 0 t ++ [z] := by rw [h1]; simp
  by_cases hMC : M ∈ ext3 (dedup t) ++ [z]
  · obtain ⟨c1, r, hc⟩ := List.append_of_mem hMC
    refine ⟨M, q0, r0,
      (if 0 ≠ e1 ∧ ((0 < e1 ∧ e2 < e1) ∨ (0 > e1 ∧ e2 > e1)) then [e1] else []) ++ c1,
      (if z ≠ e1 ∧ ((z < e1 ∧ e2 < e1) ∨ (z > e1 ∧ e2 > e1)) then [e1] else []) ++ c1, r,
      h1, h2, ?_, ?_, hall, hM0⟩
    · rw [c0, List.append_assoc, hc, List.append_assoc]
    · rw [cz, List.append_assoc, hc, List.append_assoc]
  · rw [c0, List.append_assoc] at hMF
    have hMpre := (List.mem_append.1 hMF).resolve_right hMC
    split_ifs at hMpre with hc0
    · simp only [List.mem_singleton] at hMpre
      subst hMpre
      have hzM : z ≠ M := fun hz => hMC (by rw [hz]; simp)
      have b1 := tbound z hzt
      have b2 := tbound e2 he2t
      have hcz : z ≠ M ∧ ((z < M ∧ e2 < M) ∨ (z > M ∧ e2 > M)) := by
        refine ⟨hzM, ?_⟩
        omega
      refine ⟨M, q0, r0, [], [], ext3 (dedup t) ++ [z], h1, h2, ?_, ?_, hall, hM0⟩
      · rw [c0, if_pos hc0]; simp
      · rw [cz, if_pos hcz]; simp
    · simp at hMpre

end PylifeVerif.C04
