/-
C18: the `Elementary` analysis of `Model/WoehlerAnalysis.lean` over ℝ – equivariance under load / cycle scaling,
permutation invariance, exact recovery of a Basquin line.
-/
import Model.WoehlerAnalysis
import Proofs.RealNum
import Proofs.Lemmas.WoehlerBasics
import Proofs.Lemmas.WoehlerZones
import Mathlib.Analysis.SpecialFunctions.Pow.Real
import Mathlib.Data.List.Perm.Basic
import Mathlib.Tactic.Linarith
import Mathlib.Tactic.Ring
import Mathlib.Tactic.FieldSimp

namespace PylifeVerif.WoehlerElementary

open PylifeVerif.WoehlerAnalysis PylifeVerif.WoehlerBasics


/-! ### small facts -/

theorem lit_10 : (10.0 : ℝ) = 10 := by norm_num

theorem log10_mul' {c x : ℝ} (hc : c ≠ 0) (hx : x ≠ 0) :
    (Transc.log10 (c * x) : ℝ) = Transc.log10 x + Transc.log10 c := by
  simp only [transc_log10, Real.log_mul hc hx]; ring

theorem ten_pow_log10 {c : ℝ} (hc : 0 < c) : (10 : ℝ) ^ (Real.log c / Real.log 10) = c := by
  have h10 : (0 : ℝ) < 10 := by norm_num
  have hl : Real.log 10 ≠ 0 := (Real.log_pos (by norm_num)).ne'
  rw [Real.rpow_def_of_pos h10, show Real.log 10 * (Real.log c / Real.log 10) = Real.log c by field_simp,
    Real.exp_log hc]

theorem sum_pos_of_pos (l : List ℝ) (hl : l ≠ []) (h : ∀ x ∈ l, 0 < x) : 0 < l.sum := by
  induction l with
  | nil => exact absurd rfl hl
  | cons x xs ih =>
    rw [List.sum_cons]
    have hx := h x List.mem_cons_self
    by_cases hxs : xs = []
    · subst hxs; simpa using hx
    · have := ih hxs (fun y hy => h y (List.mem_cons_of_mem _ hy)); linarith

theorem mean_pos (l : List ℝ) (hl : l ≠ []) (h : ∀ x ∈ l, 0 < x) : 0 < mean l := by
  rw [mean_eq]
  have hn : 0 < l.length := List.length_pos_iff.mpr hl
  exact div_pos (sum_pos_of_pos l hl h) (by exact_mod_cast hn)

theorem mem_of_mem_finiteZone {d : List (Test ℝ)} {t : Test ℝ} (h : t ∈ finiteZone d) : t ∈ d := by
  unfold finiteZone at h
  split at h
  · exact h
  · exact (WoehlerZones.mem_fractures.mp (List.mem_filter.mp h).1).1

theorem mem_of_mem_irrelevantRunoutsDropped {d : List (Test ℝ)} {t : Test ℝ}
    (h : t ∈ irrelevantRunoutsDropped d) : t ∈ d := by
  have hs := WoehlerZones.irrelevantRunoutsDropped_spec d
  dsimp only at hs
  by_cases hd : WoehlerZones.Drop
      (WoehlerZones.pureLevels ((runouts d).map (·.load)) ((fractures d).map (·.load))) ((fractures d).map (·.load))
  · rw [hs.1 hd] at h; exact (List.mem_filter.mp h).1
  · rw [hs.2 hd] at h; exact h

/-- the fractures of the finite zone (the regression sample of `_fit_slope`) are tests of the original data -/
theorem mem_of_mem_ff {d : List (Test ℝ)} {t : Test ℝ}
    (h : t ∈ (finiteZone (irrelevantRunoutsDropped d)).filter (·.fracture)) : t ∈ d :=
  mem_of_mem_irrelevantRunoutsDropped (mem_of_mem_finiteZone (List.mem_filter.mp h).1)

theorem ols_nil : ols ([] : List (ℝ × ℝ)) = (0, 0) := by
  simp [ols_eq, mean_eq]

/-- a shift of the abscissae only changes the intercept (also for the empty sample: `ols [] = (0, 0)`) -/
theorem ols_shift_x (pts : List (ℝ × ℝ)) (a : ℝ) :
    ols (pts.map fun p => (p.1 + a, p.2)) = ((ols pts).1, (ols pts).2 - (ols pts).1 * a) := by
  by_cases h : pts = []
  · subst h; simp [ols_nil]
  · have := ols_shift_equivariant pts h a 0
    simp only [add_zero] at this
    exact this

theorem ols_shift_y (pts : List (ℝ × ℝ)) (h : pts ≠ []) (b : ℝ) :
    ols (pts.map fun p => (p.1, p.2 + b)) = ((ols pts).1, (ols pts).2 + b) := by
  have := ols_shift_equivariant pts h 0 b
  simp only [add_zero, mul_zero, sub_zero] at this
  exact this

theorem rossow_length_eq {β γ : Type} {l₁ : List β} {l₂ : List γ} (h : l₁.length = l₂.length) :
    (rossow l₁ : List ℝ) = rossow l₂ := by
  unfold rossow; rw [lenα_eq, lenα_eq, h]

/-- `elementaryCore` with the pair of `fitSlope` projected -/
theorem elementaryCore_eq (Q : ℝ → ℝ) (d : List (Test ℝ)) : elementaryCore Q d =
    { k1 := -(fitSlope d).1
      ND := transitionCycles (fitSlope d).1 (fitSlope d).2 (transition d)
      SD := transition d
      TN := scatterOfSlope (pearlChainSlope Q ((finiteZone d).filter (·.fracture)) (fitSlope d).1)
      TS := Transc.pow (scatterOfSlope (pearlChainSlope Q ((finiteZone d).filter (·.fracture)) (fitSlope d).1))
        (1.0 / -(fitSlope d).1) } := rfl

/-! ### load scaling -/

theorem ff_scaleLoad {c : ℝ} (hc : 0 < c) (d : List (Test ℝ)) :
    (finiteZone (scaleLoad c d)).filter (·.fracture) = scaleLoad c ((finiteZone d).filter (·.fracture)) := by
  rw [WoehlerZones.finiteZone_scaleLoad hc]
  exact WoehlerZones.filter_scaleLoad c _ _ _ (fun t _ => rfl)

theorem fitSlope_scaleLoad {c : ℝ} (hc : 0 < c) (d : List (Test ℝ)) (hpos : ∀ t ∈ d, 0 < t.load) :
    fitSlope (scaleLoad c d) = ((fitSlope d).1, (fitSlope d).2 - (fitSlope d).1 * Transc.log10 c) := by
  unfold fitSlope
  rw [ff_scaleLoad hc]
  refine Eq.trans ?_ (ols_shift_x _ _)
  congr 1
  simp only [scaleLoad, List.map_map]
  apply List.map_congr_left
  intro t ht
  have htd : t ∈ d := mem_of_mem_finiteZone (List.mem_filter.mp ht).1
  simp only [Function.comp]
  rw [log10_mul' hc.ne' (hpos t htd).ne']

theorem transitionCycles_scaleLoad {c tr : ℝ} (hc : c ≠ 0) (htr : tr ≠ 0) (s i : ℝ) :
    transitionCycles s (i - s * Transc.log10 c) (c * tr) = transitionCycles s i tr := by
  have h1 : eqα (c * tr) (0.0 : ℝ) = false := by
    rw [Bool.eq_false_iff, Ne, eqα_iff, lit_0]; exact mul_ne_zero hc htr
  have h2 : eqα tr (0.0 : ℝ) = false := by
    rw [Bool.eq_false_iff, Ne, eqα_iff, lit_0]; exact htr
  unfold transitionCycles
  simp only [h1, h2, Bool.false_eq_true, if_false]
  rw [log10_mul' hc htr]
  congr 1
  ring

theorem normedCycles_scaleLoad {c : ℝ} (hc : c ≠ 0) (ff : List (Test ℝ)) (s : ℝ) :
    normedCycles (scaleLoad c ff) s = normedCycles ff s := by
  unfold normedCycles
  simp only []
  rw [WoehlerZones.loads_scaleLoad, mean_map_mul]
  congr 1
  simp only [scaleLoad, List.map_map]
  apply List.map_congr_left
  intro t _
  simp only [Function.comp, mul_div_mul_left _ _ hc]

theorem pearlChainSlope_scaleLoad (Q : ℝ → ℝ) {c : ℝ} (hc : c ≠ 0) (ff : List (Test ℝ)) (s : ℝ) :
    pearlChainSlope Q (scaleLoad c ff) s = pearlChainSlope Q ff s := by
  unfold pearlChainSlope
  rw [normedCycles_scaleLoad hc]

/-- load scaling of the core analysis (on already reduced data) -/
theorem elementaryCore_load_scale (Q : ℝ → ℝ) {c : ℝ} (hc : 0 < c) (d : List (Test ℝ)) (hpos : ∀ t ∈ d, 0 < t.load) :
    (elementaryCore Q (scaleLoad c d)).k1 = (elementaryCore Q d).k1 ∧
    (elementaryCore Q (scaleLoad c d)).SD = c * (elementaryCore Q d).SD ∧
    (elementaryCore Q (scaleLoad c d)).TN = (elementaryCore Q d).TN ∧
    (elementaryCore Q (scaleLoad c d)).TS = (elementaryCore Q d).TS ∧
    ((elementaryCore Q d).SD ≠ 0 → (elementaryCore Q (scaleLoad c d)).ND = (elementaryCore Q d).ND) := by
  simp only [elementaryCore_eq, fitSlope_scaleLoad hc d hpos, WoehlerZones.transition_scaleLoad hc, ff_scaleLoad hc,
    pearlChainSlope_scaleLoad Q hc.ne']
  refine ⟨trivial, trivial, trivial, trivial, fun h => ?_⟩
  exact transitionCycles_scaleLoad hc.ne' h _ _

/-- all loads multiplied by c > 0: SD scales by c; slope, TN, TS unchanged; ND unchanged when the reported SD is not 0 -/
theorem elementary_load_scale (Q : ℝ → ℝ) {c : ℝ} (hc : 0 < c) (d : List (Test ℝ)) (hpos : ∀ t ∈ d, 0 < t.load) :
    (elementary Q (scaleLoad c d)).k1 = (elementary Q d).k1 ∧
    (elementary Q (scaleLoad c d)).SD = c * (elementary Q d).SD ∧
    (elementary Q (scaleLoad c d)).TN = (elementary Q d).TN ∧
    (elementary Q (scaleLoad c d)).TS = (elementary Q d).TS ∧
    ((elementary Q d).SD ≠ 0 → (elementary Q (scaleLoad c d)).ND = (elementary Q d).ND) := by
  unfold elementary
  rw [WoehlerZones.irrelevantRunoutsDropped_scaleLoad hc]
  exact elementaryCore_load_scale Q hc _ (fun t ht => hpos t (mem_of_mem_irrelevantRunoutsDropped ht))

/-! ### cycle scaling -/

theorem ff_scaleCycles (c : ℝ) (d : List (Test ℝ)) :
    (finiteZone (scaleCycles c d)).filter (·.fracture) = scaleCycles c ((finiteZone d).filter (·.fracture)) := by
  rw [WoehlerZones.finiteZone_scaleCycles]
  exact WoehlerZones.filter_scaleCycles c _ _ _ (fun t _ => rfl)

theorem fitSlope_scaleCycles {c : ℝ} (hc : 0 < c) (d : List (Test ℝ)) (hpos : ∀ t ∈ d, 0 < t.cycles)
    (hne : (finiteZone d).filter (·.fracture) ≠ []) :
    fitSlope (scaleCycles c d) = ((fitSlope d).1, (fitSlope d).2 + Transc.log10 c) := by
  unfold fitSlope
  rw [ff_scaleCycles]
  refine Eq.trans ?_ (ols_shift_y _ (by simpa using hne) _)
  congr 1
  simp only [scaleCycles, List.map_map]
  apply List.map_congr_left
  intro t ht
  have htd : t ∈ d := mem_of_mem_finiteZone (List.mem_filter.mp ht).1
  simp only [Function.comp]
  rw [log10_mul' hc.ne' (hpos t htd).ne']

theorem transitionCycles_scaleCycles {c : ℝ} (hc : 0 < c) (s i tr : ℝ) :
    transitionCycles s (i + Transc.log10 c) tr = c * transitionCycles s i tr := by
  unfold transitionCycles
  simp only [transc_pow, lit_10]
  rw [add_assoc, add_comm, add_assoc, Real.rpow_add (by norm_num), transc_log10, ten_pow_log10 hc, add_comm]

theorem normedCycles_scaleCycles {c : ℝ} (hc : 0 < c) (ff : List (Test ℝ)) (s : ℝ) :
    normedCycles (scaleCycles c ff) s = (normedCycles ff s).map (c * ·) := by
  unfold normedCycles
  simp only []
  rw [WoehlerZones.loads_scaleCycles, ← sort_map_mul hc]
  congr 1
  simp only [scaleCycles, List.map_map]
  apply List.map_congr_left
  intro t _
  simp only [Function.comp, mul_assoc]

theorem normedCycles_pos (ff : List (Test ℝ)) (s : ℝ) (h : ∀ t ∈ ff, 0 < t.load ∧ 0 < t.cycles) :
    ∀ n ∈ normedCycles ff s, 0 < n := by
  intro n hn
  unfold normedCycles at hn
  simp only [] at hn
  rw [mem_sort] at hn
  obtain ⟨t, ht, rfl⟩ := List.mem_map.mp hn
  have hne : ff ≠ [] := List.ne_nil_of_mem ht
  have hm : 0 < mean (ff.map (·.load)) := by
    apply mean_pos _ (by simpa using hne)
    intro x hx
    obtain ⟨u, hu, rfl⟩ := List.mem_map.mp hx
    exact (h u hu).1
  simp only [transc_pow]
  exact mul_pos (h t ht).2 (Real.rpow_pos_of_pos (div_pos hm (h t ht).1) _)

theorem pearlChainSlope_scaleCycles (Q : ℝ → ℝ) {c : ℝ} (hc : 0 < c) (ff : List (Test ℝ)) (s : ℝ)
    (h : ∀ t ∈ ff, 0 < t.load ∧ 0 < t.cycles) :
    pearlChainSlope Q (scaleCycles c ff) s = pearlChainSlope Q ff s := by
  unfold pearlChainSlope
  simp only []
  rw [normedCycles_scaleCycles hc,
    rossow_length_eq (l₁ := (normedCycles ff s).map (c * ·)) (l₂ := normedCycles ff s) (List.length_map _)]
  have hlog : ((normedCycles ff s).map (c * ·)).map Transc.log10 =
      ((normedCycles ff s).map Transc.log10).map (· + Transc.log10 c) := by
    simp only [List.map_map]
    apply List.map_congr_left
    intro n hn
    simp only [Function.comp]
    exact log10_mul' hc.ne' (normedCycles_pos ff s h n hn).ne'
  rw [hlog, List.zip_map_left,
    show (Prod.map (· + Transc.log10 c) id : ℝ × ℝ → ℝ × ℝ) = fun p => (p.1 + Transc.log10 c, p.2) from rfl,
    ols_shift_x]

/-- cycle scaling of the core analysis (on already reduced data) -/
theorem elementaryCore_cycle_scale (Q : ℝ → ℝ) {c : ℝ} (hc : 0 < c) (d : List (Test ℝ))
    (hpos : ∀ t ∈ d, 0 < t.cycles) (hload : ∀ t ∈ d, 0 < t.load)
    (hne : (finiteZone d).filter (·.fracture) ≠ []) :
    (elementaryCore Q (scaleCycles c d)).k1 = (elementaryCore Q d).k1 ∧
    (elementaryCore Q (scaleCycles c d)).ND = c * (elementaryCore Q d).ND ∧
    (elementaryCore Q (scaleCycles c d)).SD = (elementaryCore Q d).SD ∧
    (elementaryCore Q (scaleCycles c d)).TN = (elementaryCore Q d).TN ∧
    (elementaryCore Q (scaleCycles c d)).TS = (elementaryCore Q d).TS := by
  have hff : ∀ t ∈ (finiteZone d).filter (·.fracture), 0 < t.load ∧ 0 < t.cycles := fun t ht =>
    have htd : t ∈ d := mem_of_mem_finiteZone (List.mem_filter.mp ht).1
    ⟨hload t htd, hpos t htd⟩
  simp only [elementaryCore_eq, fitSlope_scaleCycles hc d hpos hne, WoehlerZones.transition_scaleCycles,
    ff_scaleCycles, pearlChainSlope_scaleCycles Q hc _ _ hff]
  exact ⟨trivial, transitionCycles_scaleCycles hc _ _ _, trivial, trivial, trivial⟩

/-! ### permutations -/

theorem fitSlope_perm {d₁ d₂ : List (Test ℝ)} (h : d₁.Perm d₂) : fitSlope d₁ = fitSlope d₂ := by
  unfold fitSlope
  exact ols_perm_invariant (((WoehlerZones.finiteZone_perm h).filter _).map _)

theorem normedCycles_perm {f₁ f₂ : List (Test ℝ)} (h : f₁.Perm f₂) (s : ℝ) :
    normedCycles f₁ s = normedCycles f₂ s := by
  unfold normedCycles
  simp only []
  rw [mean_perm (h.map _)]
  exact sort_perm_eq (h.map _)

theorem pearlChainSlope_perm (Q : ℝ → ℝ) {f₁ f₂ : List (Test ℝ)} (h : f₁.Perm f₂) (s : ℝ) :
    pearlChainSlope Q f₁ s = pearlChainSlope Q f₂ s := by
  unfold pearlChainSlope
  rw [normedCycles_perm h]

theorem elementaryCore_perm_invariant (Q : ℝ → ℝ) {d₁ d₂ : List (Test ℝ)} (h : d₁.Perm d₂) :
    elementaryCore Q d₁ = elementaryCore Q d₂ := by
  rw [elementaryCore_eq, elementaryCore_eq, fitSlope_perm h, WoehlerZones.transition_perm h,
    pearlChainSlope_perm Q ((WoehlerZones.finiteZone_perm h).filter _)]

/-- row order is irrelevant -/
theorem elementary_perm_invariant (Q : ℝ → ℝ) {d₁ d₂ : List (Test ℝ)} (h : d₁.Perm d₂) :
    elementary Q d₁ = elementary Q d₂ :=
  elementaryCore_perm_invariant Q (WoehlerZones.irrelevantRunoutsDropped_perm h)


/-! ### cycle scaling of `elementary`

The statement without `hload` and `hne` is false:
* `d = []` (or any data without a fracture in the finite zone): the regression sample is empty, `ols [] = (0, 0)`, hence
  `ND = 10 ^ 0 = 1` for `d` and for `scaleCycles c d`, but `c * 1 ≠ 1` for `c ≠ 1`;
* without positive loads the shifted cycles `N * (nl / L) ^ slope` can vanish for some tests only (real `rpow` of a
  negative base, e.g. `d = [⟨-1, 2, true⟩, ⟨3, 2 * √3, true⟩]`: slope `1/2`, mean load `1`, `(-1) ^ (1/2) = 0`), then
  `log10 0 = 0` is not shifted by `log10 c` while the other abscissae are, and the pearl-chain slope (hence `TN`, `TS`)
  changes.
Both counterexamples are proved at the end of this file (`elementary_nil_ND`, `negLoadData`).  -/

/-- all cycle numbers multiplied by c > 0: ND scales by c, the rest is unchanged (added hypotheses: positive loads,
at least one fracture in the finite zone) -/
theorem elementary_cycle_scale (Q : ℝ → ℝ) {c : ℝ} (hc : 0 < c) (d : List (Test ℝ)) (hpos : ∀ t ∈ d, 0 < t.cycles)
    (hload : ∀ t ∈ d, 0 < t.load)
    (hne : (finiteZone (irrelevantRunoutsDropped d)).filter (·.fracture) ≠ []) :
    (elementary Q (scaleCycles c d)).k1 = (elementary Q d).k1 ∧
    (elementary Q (scaleCycles c d)).ND = c * (elementary Q d).ND ∧
    (elementary Q (scaleCycles c d)).SD = (elementary Q d).SD ∧
    (elementary Q (scaleCycles c d)).TN = (elementary Q d).TN ∧
    (elementary Q (scaleCycles c d)).TS = (elementary Q d).TS := by
  unfold elementary
  rw [WoehlerZones.irrelevantRunoutsDropped_scaleCycles]
  exact elementaryCore_cycle_scale Q hc _ (fun t ht => hpos t (mem_of_mem_irrelevantRunoutsDropped ht))
    (fun t ht => hload t (mem_of_mem_irrelevantRunoutsDropped ht)) hne

/-- the parts of the cycle-scaling statement that need no extra hypothesis: slope and endurance limit -/
theorem elementary_cycle_scale_k1_SD (Q : ℝ → ℝ) {c : ℝ} (hc : 0 < c) (d : List (Test ℝ))
    (hpos : ∀ t ∈ d, 0 < t.cycles) :
    (elementary Q (scaleCycles c d)).k1 = (elementary Q d).k1 ∧
    (elementary Q (scaleCycles c d)).SD = (elementary Q d).SD := by
  unfold elementary
  rw [WoehlerZones.irrelevantRunoutsDropped_scaleCycles]
  refine ⟨?_, ?_⟩
  · by_cases hne : (finiteZone (irrelevantRunoutsDropped d)).filter (·.fracture) = []
    · have h2 : (finiteZone (scaleCycles c (irrelevantRunoutsDropped d))).filter (·.fracture) = [] := by
        rw [ff_scaleCycles, hne]; rfl
      simp only [elementaryCore_eq, fitSlope, h2, hne]
    · simp only [elementaryCore_eq, fitSlope_scaleCycles hc _
        (fun t ht => hpos t (mem_of_mem_irrelevantRunoutsDropped ht)) hne]
  · simp only [elementaryCore_eq, WoehlerZones.transition_scaleCycles]

/-! ### data exactly on a Basquin line -/

/-- on a Basquin line `N = ND₀ (L/SD₀)^(-k)` the decadic logarithms are collinear -/
theorem log10_basquin {k SD₀ ND₀ L : ℝ} (hSD : 0 < SD₀) (hND : 0 < ND₀) (hL : 0 < L) :
    (Transc.log10 (ND₀ * (L / SD₀) ^ (-k)) : ℝ) =
      (Transc.log10 ND₀ + k * Transc.log10 SD₀) + (-k) * Transc.log10 L := by
  have hq : 0 < L / SD₀ := div_pos hL hSD
  simp only [transc_log10]
  rw [Real.log_mul hND.ne' (Real.rpow_pos_of_pos hq _).ne', Real.log_rpow hq, Real.log_div hL.ne' hSD.ne']
  ring

theorem log10_injOn_pos {x y : ℝ} (hx : 0 < x) (hy : 0 < y) (h : (Transc.log10 x : ℝ) = Transc.log10 y) : x = y := by
  have hl : Real.log 10 ≠ 0 := (Real.log_pos (by norm_num)).ne'
  simp only [transc_log10] at h
  have h' : Real.log x = Real.log y := by
    have := congrArg (· * Real.log 10) h
    simpa [div_mul_cancel₀ _ hl] using this
  exact Real.log_injOn_pos (Set.mem_Ioi.2 hx) (Set.mem_Ioi.2 hy) h'

/-- the regression of `_fit_slope` on exact Basquin data -/
theorem fitSlope_exact_basquin (d : List (Test ℝ)) {k SD₀ ND₀ : ℝ} (hSD : 0 < SD₀) (hND : 0 < ND₀)
    (hline : ∀ t ∈ (finiteZone d).filter (·.fracture), 0 < t.load ∧ t.cycles = ND₀ * (t.load / SD₀) ^ (-k))
    (hlev : ∃ t ∈ (finiteZone d).filter (·.fracture), ∃ u ∈ (finiteZone d).filter (·.fracture), t.load ≠ u.load) :
    fitSlope d = (-k, Transc.log10 ND₀ + k * Transc.log10 SD₀) := by
  unfold fitSlope
  apply ols_collinear
  · intro p hp
    obtain ⟨t, ht, rfl⟩ := List.mem_map.mp hp
    obtain ⟨hL, hN⟩ := hline t ht
    simp only []
    rw [hN]
    exact log10_basquin hSD hND hL
  · obtain ⟨t, ht, u, hu, htu⟩ := hlev
    refine ⟨_, List.mem_map_of_mem ht, _, List.mem_map_of_mem hu, ?_⟩
    intro h
    exact htu (log10_injOn_pos (hline t ht).1 (hline u hu).1 h)

/-- data exactly on a Basquin line N = ND₀ (L/SD₀)^(-k): the slope is recovered -/
theorem exact_basquin_slope (Q : ℝ → ℝ) (d : List (Test ℝ)) {k SD₀ ND₀ : ℝ} (hSD : 0 < SD₀) (hND : 0 < ND₀)
    (hline : ∀ t ∈ (finiteZone (irrelevantRunoutsDropped d)).filter (·.fracture),
      0 < t.load ∧ t.cycles = ND₀ * (t.load / SD₀) ^ (-k))
    (hlev : ∃ t ∈ (finiteZone (irrelevantRunoutsDropped d)).filter (·.fracture),
      ∃ u ∈ (finiteZone (irrelevantRunoutsDropped d)).filter (·.fracture), t.load ≠ u.load) :
    (elementary Q d).k1 = k := by
  unfold elementary
  rw [elementaryCore_eq]
  simp only [fitSlope_exact_basquin _ hSD hND hline hlev, neg_neg]

/-- … and the pearl chain collapses: all shifted cycles coincide, so the probability-net regression that yields TN is
degenerate (Sxx = 0: the code divides 0 by 0) -/
theorem exact_basquin_pearl_chain_degenerate (_Q : ℝ → ℝ) (d : List (Test ℝ)) {k SD₀ ND₀ : ℝ} (hSD : 0 < SD₀)
    (hND : 0 < ND₀)
    (hline : ∀ t ∈ (finiteZone (irrelevantRunoutsDropped d)).filter (·.fracture),
      0 < t.load ∧ t.cycles = ND₀ * (t.load / SD₀) ^ (-k))
    (hlev : ∃ t ∈ (finiteZone (irrelevantRunoutsDropped d)).filter (·.fracture),
      ∃ u ∈ (finiteZone (irrelevantRunoutsDropped d)).filter (·.fracture), t.load ≠ u.load) :
    let ff := (finiteZone (irrelevantRunoutsDropped d)).filter (·.fracture)
    ∃ N₀, ∀ n ∈ normedCycles ff (fitSlope (irrelevantRunoutsDropped d)).1, n = N₀ := by
  intro ff
  rw [fitSlope_exact_basquin _ hSD hND hline hlev]
  refine ⟨ND₀ * (mean (ff.map (·.load)) / SD₀) ^ (-k), ?_⟩
  intro n hn
  unfold normedCycles at hn
  simp only [] at hn
  rw [mem_sort] at hn
  obtain ⟨t, ht, rfl⟩ := List.mem_map.mp hn
  obtain ⟨hL, hN⟩ := hline t ht
  have hne : ff ≠ [] := List.ne_nil_of_mem ht
  have hm : 0 < mean (ff.map (·.load)) := by
    apply mean_pos _ (by simpa using hne)
    intro x hx
    obtain ⟨u, hu, rfl⟩ := List.mem_map.mp hx
    exact (hline u hu).1
  simp only [transc_pow]
  rw [hN, mul_assoc, ← Real.mul_rpow (div_pos hL hSD).le (div_pos hm hL).le]
  congr 2
  field_simp

/-- consequence: the abscissae of the probability-net regression coincide, its `Sxx` vanishes -/
theorem exact_basquin_pearl_chain_sxx_zero (Q : ℝ → ℝ) (d : List (Test ℝ)) {k SD₀ ND₀ : ℝ} (hSD : 0 < SD₀)
    (hND : 0 < ND₀)
    (hline : ∀ t ∈ (finiteZone (irrelevantRunoutsDropped d)).filter (·.fracture),
      0 < t.load ∧ t.cycles = ND₀ * (t.load / SD₀) ^ (-k))
    (hlev : ∃ t ∈ (finiteZone (irrelevantRunoutsDropped d)).filter (·.fracture),
      ∃ u ∈ (finiteZone (irrelevantRunoutsDropped d)).filter (·.fracture), t.load ≠ u.load) :
    let ff := (finiteZone (irrelevantRunoutsDropped d)).filter (·.fracture)
    let nc := normedCycles ff (fitSlope (irrelevantRunoutsDropped d)).1
    let pts := (nc.map Transc.log10).zip ((rossow nc).map Q)
    sum (pts.map fun p => (p.1 - mean (pts.map (·.1))) * (p.1 - mean (pts.map (·.1)))) = 0 ∧
    pearlChainSlope Q ff (fitSlope (irrelevantRunoutsDropped d)).1 = 0 := by
  intro ff nc pts
  obtain ⟨N₀, hN₀⟩ := exact_basquin_pearl_chain_degenerate Q d hSD hND hline hlev
  have hx : ∀ p ∈ pts, p.1 = Transc.log10 N₀ := by
    intro p hp
    have h1 : p.1 ∈ nc.map Transc.log10 := (List.of_mem_zip hp).1
    obtain ⟨n, hn, hn'⟩ := List.mem_map.mp h1
    rw [← hn', hN₀ n hn]
  refine ⟨ols_sxx_zero_of_const pts _ hx, ?_⟩
  have := ols_of_const_x pts _ hx
  show (ols pts).1 = 0
  rw [this]


/-! ### non-vacuity and the counterexample to the unconditioned cycle-scaling statement -/

/-- two fractures on the Basquin line `N = 100 · L^(-2)` -/
def exampleData : List (Test ℝ) := [⟨1, 100, true⟩, ⟨2, 25, true⟩]

theorem ff_exampleData :
    (finiteZone (irrelevantRunoutsDropped exampleData)).filter (·.fracture) = exampleData := by
  simp [exampleData, irrelevantRunoutsDropped, finiteZone, runouts, fractures]

example : (elementary (fun x => x) exampleData).k1 = 2 := by
  apply exact_basquin_slope (SD₀ := 1) (ND₀ := 100) _ _ one_pos (by norm_num)
  · rw [ff_exampleData]
    intro t ht
    simp only [exampleData, List.mem_cons, List.not_mem_nil, or_false] at ht
    rcases ht with rfl | rfl
    · norm_num
    · refine ⟨by norm_num, ?_⟩
      show (25 : ℝ) = 100 * (2 / 1) ^ (-(2 : ℝ))
      rw [Real.rpow_neg (by norm_num), Real.rpow_two]; norm_num
  · rw [ff_exampleData]
    exact ⟨⟨1, 100, true⟩, by simp [exampleData], ⟨2, 25, true⟩, by simp [exampleData], by norm_num⟩

/-- the hypotheses of `elementary_cycle_scale` / `elementary_load_scale` are satisfiable -/
example : (∀ t ∈ exampleData, 0 < t.cycles) ∧ (∀ t ∈ exampleData, 0 < t.load) ∧
    (finiteZone (irrelevantRunoutsDropped exampleData)).filter (·.fracture) ≠ [] := by
  rw [ff_exampleData]
  refine ⟨?_, ?_, by simp [exampleData]⟩ <;>
  · intro t ht
    simp only [exampleData, List.mem_cons, List.not_mem_nil, or_false] at ht
    rcases ht with rfl | rfl <;> norm_num

/-- counterexample to cycle scaling without `hne`: on empty data `ND = 1` before and after the scaling -/
theorem elementary_nil_ND (Q : ℝ → ℝ) : (elementary Q []).ND = 1 := by
  have h1 : irrelevantRunoutsDropped ([] : List (Test ℝ)) = [] := rfl
  have h2 : fitSlope ([] : List (Test ℝ)) = (0, 0) := by
    unfold fitSlope; exact ols_nil
  have h3 : transition ([] : List (Test ℝ)) = 0.0 := rfl
  unfold elementary
  rw [h1, elementaryCore_eq, h2, h3]
  simp [transitionCycles]

example (Q : ℝ → ℝ) :
    (elementary Q (scaleCycles 2 [])).ND ≠ 2 * (elementary Q []).ND := by
  have : scaleCycles (2 : ℝ) [] = [] := rfl
  rw [this, elementary_nil_ND]; norm_num


/-! counterexample to cycle scaling of the pearl chain without positive loads: with the loads `-1`, `3` (mean load 1)
and slope `1/2` the first shifted cycle number is `a · (-1)^(1/2) = 0` (real `rpow`), the second is `a`; the abscissae of
the probability net are `log10 0 = 0` and `log10 a`, so its slope depends on `a`. -/

/-- fractures at the loads `-1` and `3` on the line `N = a · |L|^(1/2)` -/
noncomputable def negLoadData (a : ℝ) : List (Test ℝ) := [⟨-1, a, true⟩, ⟨3, a * Real.sqrt 3, true⟩]

theorem normedCycles_negLoadData {a : ℝ} (ha : 0 < a) : normedCycles (negLoadData a) (1 / 2) = [0, a] := by
  have hm : mean ((negLoadData a).map (·.load)) = 1 := by
    rw [mean_eq]; simp [negLoadData]; norm_num
  have h1 : ((1 : ℝ) / (-1)) ^ ((1 : ℝ) / 2) = 0 := by
    rw [show (1 : ℝ) / (-1) = -1 by norm_num, Real.rpow_def_of_neg (by norm_num),
      show (1 : ℝ) / 2 * Real.pi = Real.pi / 2 by ring, Real.cos_pi_div_two, mul_zero]
  have h2 : Real.sqrt 3 * ((1 : ℝ) / 3) ^ ((1 : ℝ) / 2) = 1 := by
    rw [← Real.sqrt_eq_rpow, ← Real.sqrt_mul (by norm_num)]; norm_num
  unfold normedCycles
  simp only []
  rw [hm]
  simp only [negLoadData, List.map_cons, List.map_nil, transc_pow, h1, mul_zero, mul_assoc, h2, mul_one]
  simp [sort, insertSorted, ha.le]

theorem pearlChainSlope_negLoadData {a : ℝ} (ha : 0 < a) (ha1 : a ≠ 1) :
    pearlChainSlope (fun x => x) (negLoadData a) (1 / 2) = 3 / 7 / Transc.log10 a := by
  have hl : (Transc.log10 a : ℝ) ≠ 0 := by
    intro h
    have h0 : (Transc.log10 (1 : ℝ) : ℝ) = 0 := by simp
    exact ha1 (log10_injOn_pos ha one_pos (h.trans h0.symm))
  have hr : (rossow ([0, a] : List ℝ) : List ℝ) = [2 / 7, 5 / 7] := by
    simp only [rossow, rossowFrom, lenα_eq, lit_1, lit_3, List.length_cons, List.length_nil]
    norm_num
  unfold pearlChainSlope
  simp only []
  rw [normedCycles_negLoadData ha, hr]
  have hz : (Transc.log10 (0 : ℝ) : ℝ) = 0 := by simp
  simp only [List.map_cons, List.map_nil, List.zip_cons_cons, List.zip_nil_right, hz]
  rw [ols_collinear _ (2 / 7) (3 / 7 / Transc.log10 a)]
  · intro p hp
    simp only [List.mem_cons, List.not_mem_nil, or_false] at hp
    rcases hp with rfl | rfl
    · simp
    · simp only []; field_simp; norm_num
  · exact ⟨_, List.mem_cons_self, _, List.mem_cons_of_mem _ List.mem_cons_self, fun h => hl h.symm⟩

/-- the pearl-chain slope (hence `TN`, `TS`) is NOT invariant under cycle scaling when a load is negative -/
example : scaleCycles 2 (negLoadData 2) = negLoadData 4 ∧
    pearlChainSlope (fun x => x) (negLoadData 4) (1 / 2) ≠ pearlChainSlope (fun x => x) (negLoadData 2) (1 / 2) := by
  refine ⟨?_, ?_⟩
  · simp only [scaleCycles, negLoadData, List.map_cons, List.map_nil]
    rw [← mul_assoc]; norm_num
  · rw [pearlChainSlope_negLoadData (by norm_num) (by norm_num),
      pearlChainSlope_negLoadData (by norm_num) (by norm_num)]
    have h4 : (Transc.log10 (4 : ℝ) : ℝ) = 2 * Transc.log10 2 := by
      rw [show (4 : ℝ) = 2 * 2 by norm_num, log10_mul' (by norm_num) (by norm_num)]; ring
    have hl : (Transc.log10 (2 : ℝ) : ℝ) ≠ 0 := by
      intro h
      have h0 : (Transc.log10 (1 : ℝ) : ℝ) = 0 := by simp
      have := log10_injOn_pos (by norm_num : (0 : ℝ) < 2) one_pos (h.trans h0.symm)
      norm_num at this
    rw [h4]
    intro h
    field_simp at h
    norm_num at h


theorem ff_negLoadData (a : ℝ) :
    (finiteZone (irrelevantRunoutsDropped (negLoadData a))).filter (·.fracture) = negLoadData a := by
  simp [negLoadData, irrelevantRunoutsDropped, finiteZone, runouts, fractures]

theorem irrelevantRunoutsDropped_negLoadData (a : ℝ) :
    irrelevantRunoutsDropped (negLoadData a) = negLoadData a := by
  simp [negLoadData, irrelevantRunoutsDropped, runouts, fractures]

theorem fitSlope_negLoadData {a : ℝ} (ha : 0 < a) :
    fitSlope (negLoadData a) = (1 / 2, Transc.log10 a) := by
  have hff := ff_negLoadData a
  rw [irrelevantRunoutsDropped_negLoadData] at hff
  unfold fitSlope
  rw [hff]
  have hl3 : Real.log 3 ≠ 0 := (Real.log_pos (by norm_num)).ne'
  have hl10 : Real.log 10 ≠ 0 := (Real.log_pos (by norm_num)).ne'
  apply ols_collinear
  · intro p hp
    simp only [negLoadData, List.map_cons, List.map_nil, List.mem_cons, List.not_mem_nil, or_false] at hp
    rcases hp with rfl | rfl
    · simp
    · simp only [transc_log10]
      rw [Real.log_mul ha.ne' (Real.sqrt_pos.mpr (by norm_num)).ne', Real.log_sqrt (by norm_num)]
      ring
  · refine ⟨_, List.mem_map_of_mem (a := (⟨-1, a, true⟩ : Test ℝ)) (by simp [negLoadData]), _,
      List.mem_map_of_mem (a := (⟨3, a * Real.sqrt 3, true⟩ : Test ℝ)) (by simp [negLoadData]), ?_⟩
    simp only [transc_log10, Real.log_neg_eq_log, Real.log_one, zero_div]
    exact fun h => (div_ne_zero hl3 hl10) h.symm

theorem elementary_TN_negLoadData {a : ℝ} (ha : 0 < a) (ha1 : a ≠ 1) :
    (elementary (fun x => x) (negLoadData a)).TN =
      (10 : ℝ) ^ ((2.5631031310892007 : ℝ) * (1 / (3 / 7 / Transc.log10 a))) := by
  unfold elementary
  rw [irrelevantRunoutsDropped_negLoadData, elementaryCore_eq]
  have hff := ff_negLoadData a
  rw [irrelevantRunoutsDropped_negLoadData] at hff
  simp only []
  rw [hff, fitSlope_negLoadData ha]
  simp only []
  rw [pearlChainSlope_negLoadData ha ha1]
  simp only [scatterOfSlope, transc_pow, lit_10, lit_1]

/-- **counterexample** to `elementary_cycle_scale` without positive loads (real semantics of `rpow`) -/
example : (elementary (fun x => x) (scaleCycles 2 (negLoadData 2))).TN ≠ (elementary (fun x => x) (negLoadData 2)).TN := by
  have hs : scaleCycles 2 (negLoadData 2) = negLoadData 4 := by
    simp only [scaleCycles, negLoadData, List.map_cons, List.map_nil]
    rw [← mul_assoc]; norm_num
  rw [hs, elementary_TN_negLoadData (by norm_num) (by norm_num),
    elementary_TN_negLoadData (by norm_num) (by norm_num)]
  have h4 : (Transc.log10 (4 : ℝ) : ℝ) = 2 * Transc.log10 2 := by
    rw [show (4 : ℝ) = 2 * 2 by norm_num, log10_mul' (by norm_num) (by norm_num)]; ring
  have hl : 0 < (Transc.log10 (2 : ℝ) : ℝ) := by
    simp only [transc_log10]
    exact div_pos (Real.log_pos (by norm_num)) (Real.log_pos (by norm_num))
  rw [h4]
  apply ne_of_gt
  rw [Real.rpow_lt_rpow_left_iff (by norm_num)]
  have e : ∀ x : ℝ, x ≠ 0 → (1 : ℝ) / (3 / 7 / x) = 7 / 3 * x := fun x hx => by field_simp
  rw [e _ hl.ne', e _ (by positivity)]
  nlinarith

end PylifeVerif.WoehlerElementary
