/-
Helper lemmas for C04 `pass2_eq_periodicRainflow`, part 2: the load-only HCM machine
(`aLoop` / `aStep` / `aRun`: residual loads, `ir`, largest absolute load; emitted `(min, max)` ranges of
all recorded hystereses) and its analysis:
* `aLoop_sat`: above a base of largest absolute value the machine is the rooted machine `mStep`;
* `aLoop_gen`: general invariant (the residual at position `ir - 1` carries the largest absolute
  load; a turning point beyond the largest load so far ends up at that position with `iz = ir`);
* `abs_main`: the ranges emitted in pass 2 are the four-point count of one closed window.
-/
import Proofs.Lemmas.HCMPass2

namespace PylifeVerif.C04
open PylifeVerif.Rainflow PylifeVerif.HCM PylifeVerif.HCM.Spec

/-- The `while True` loop of `_hcm_process_sample` on loads only (stack top first).  Returns the
emitted ranges (Memory 3: `(-|j|, |j|)`), the stack and the new `ir`. -/
def aLoop (x : Int) (ir lmax : Nat) : List Int → List (Int × Int) × List Int × Nat
  | [] => ([], [], ir)
  | [j] =>
    if 1 = ir ∧ x.natAbs > lmax then ([(-(j.natAbs : Int), (j.natAbs : Int))], [j], ir + 1)
    else ([], [j], ir)
  | j :: i :: rest =>
    if rest.length + 2 = ir then
      (if x.natAbs > lmax then ([(-(j.natAbs : Int), (j.natAbs : Int))], j :: i :: rest, ir + 1)
       else ([], j :: i :: rest, ir))
    else if rest.length + 2 < ir then ([], j :: i :: rest, ir)
    else if absDiff x j < absDiff j i then ([], j :: i :: rest, ir)
    else if ir ≤ rest.length then
      let r := aLoop x ir lmax rest
      ((min i j, max i j) :: r.1, r.2)
    else ([(min i j, max i j)], rest, ir)

structure AState where
  stk : List Int
  ir : Nat
  lmax : Nat

def aInit : AState := ⟨[], 1, 0⟩

def aStep (σ : AState) (x : Int) : List (Int × Int) × AState :=
  let r := aLoop x σ.ir σ.lmax σ.stk
  (r.1, ⟨x :: r.2.1, r.2.2, max σ.lmax x.natAbs⟩)

def aRun : AState → List Int → List (Int × Int) × AState
  | σ, [] => ([], σ)
  | σ, x :: xs =>
    let r := aStep σ x
    let r' := aRun r.2 xs
    (r.1 ++ r'.1, r'.2)

theorem aRun_append (xs ys : List Int) : ∀ σ : AState,
    aRun σ (xs ++ ys) = ((aRun σ xs).1 ++ (aRun (aRun σ xs).2 ys).1, (aRun (aRun σ xs).2 ys).2) := by
  induction xs with
  | nil => intro σ; simp [aRun]
  | cons x xs ih => intro σ; simp [aRun, ih]

/-! ### saturated phase: the rooted machine -/

theorem aLoop_sat (M : Int) (A : List Int) (x : Int) (B : List Int) (hx : x.natAbs ≤ M.natAbs) :
    (aLoop x (B.length + 1) M.natAbs (A ++ M :: B)).1 = (mStep M A x).1 ∧
    (aLoop x (B.length + 1) M.natAbs (A ++ M :: B)).2.2 = B.length + 1 ∧
    ((mStep M A x).2 = [] → (aLoop x (B.length + 1) M.natAbs (A ++ M :: B)).2.1 = B) ∧
    ((mStep M A x).2 ≠ [] →
      x :: (aLoop x (B.length + 1) M.natAbs (A ++ M :: B)).2.1 = (mStep M A x).2 ++ M :: B) := by
  fun_induction mStep M A x with
  | case1 x =>
    have hn : ¬ x.natAbs > M.natAbs := by omega
    cases B with
    | nil => simp [aLoop, hn]
    | cons b B' => simp [aLoop, hn]
  | case2 j x h =>
    simp [aLoop, h]
  | case3 j x h =>
    have hB : ¬ (B.length + 1 ≤ B.length) := by omega
    simp [aLoop, h, hB]
  | case4 j i rest x h =>
    have e : (j :: i :: rest ++ M :: B) = j :: i :: (rest ++ M :: B) := rfl
    have h1 : ¬ ((rest ++ M :: B).length + 2 = B.length + 1) := by
      simp only [List.length_append, List.length_cons]; omega
    have h2 : ¬ ((rest ++ M :: B).length + 2 < B.length + 1) := by
      simp only [List.length_append, List.length_cons]; omega
    rw [e, aLoop, if_neg h1, if_neg h2, if_pos h]
    simp
  | case5 j i rest x h r ih =>
    have e : (j :: i :: rest ++ M :: B) = j :: i :: (rest ++ M :: B) := rfl
    have h1 : ¬ ((rest ++ M :: B).length + 2 = B.length + 1) := by
      simp only [List.length_append, List.length_cons]; omega
    have h2 : ¬ ((rest ++ M :: B).length + 2 < B.length + 1) := by
      simp only [List.length_append, List.length_cons]; omega
    have h3 : B.length + 1 ≤ (rest ++ M :: B).length := by
      simp only [List.length_append, List.length_cons]; omega
    rw [e, aLoop, if_neg h1, if_neg h2, if_neg h, if_pos h3]
    obtain ⟨i1, i2, i3, i4⟩ := ih hx
    exact ⟨by simp only [i1]; rfl, i2, i3, i4⟩

theorem mStep_nil_eq (M : Int) (A : List Int) (x : Int) (hz : Zig (M :: (A.reverse ++ [x])))
    (hD : Dec (A ++ [M])) (hb : ∀ a ∈ A, a.natAbs ≤ M.natAbs) (hx : x.natAbs ≤ M.natAbs)
    (h : (mStep M A x).2 = []) : x = M := by
  rcases mStep_spec_feed M A x hD with ⟨A', h1, _⟩ | ⟨E1, j, _, _, h3, h4, h5⟩
  · rw [h1] at h; cases h
  · exact close_base_eq M j x (h3.zig hz) (hb j h5) hx h4

theorem aStep_sat (M : Int) (A : List Int) (x : Int) (B : List Int)
    (hz : Zig (M :: (A.reverse ++ [x]))) (hD : Dec (A ++ [M]))
    (hb : ∀ a ∈ A, a.natAbs ≤ M.natAbs) (hx : x.natAbs ≤ M.natAbs) :
    aStep ⟨A ++ M :: B, B.length + 1, M.natAbs⟩ x =
      ((mStep M A x).1, ⟨(mStep M A x).2 ++ M :: B, B.length + 1, M.natAbs⟩) := by
  obtain ⟨i1, i2, i3, i4⟩ := aLoop_sat M A x B hx
  unfold aStep
  simp only [i1, i2, Nat.max_eq_left hx]
  congr 2
  by_cases h : (mStep M A x).2 = []
  · rw [i3 h, h, mStep_nil_eq M A x hz hD hb hx h]; rfl
  · exact i4 h

/-- In the saturated phase the load-only machine is the rooted machine above the base. -/
theorem aRun_sat (M : Int) (B : List Int) (xs : List Int) :
    ∀ (H : List Int) (Es : List (Int × Int)) (A : List Int),
    K M H Es A → Zig (H ++ xs) → Dec (A ++ [M]) → (∀ a ∈ A, a.natAbs ≤ M.natAbs) →
    (∀ x ∈ xs, x.natAbs ≤ M.natAbs) →
    aRun ⟨A ++ M :: B, B.length + 1, M.natAbs⟩ xs =
      ((mRun M A xs).1, ⟨(mRun M A xs).2 ++ M :: B, B.length + 1, M.natAbs⟩) := by
  induction xs with
  | nil => intro H Es A _ _ _ _ _; rfl
  | cons x xs ih =>
    intro H Es A hK hz hD hb hx
    have hz1 : Zig (H ++ [x]) := zig_infix [] (H ++ [x]) xs (by simpa using hz)
    obtain ⟨k1, k2, k3⟩ := K_step M H Es A x hK hz1 hD hb (hx x (by simp))
    have hs := aStep_sat M A x B (K_zig x hK hz1) hD hb (hx x (by simp))
    have := ih (H ++ [x]) (Es ++ (mStep M A x).1) (mStep M A x).2 k1 (by simpa using hz) k2 k3
      (fun y hy => hx y (by simp [hy]))
    simp only [aRun, mRun, hs, this]

/-! ### general phase -/

theorem alt_head_congr (up : Bool) (p : Int) (l l' : List Int) (hh : l.head? = l'.head?)
    (hl : Alt (!up) l → Alt (!up) l') (h : Alt up (p :: l)) : Alt up (p :: l') := by
  cases l with
  | nil =>
    cases l' with
    | nil => trivial
    | cons b r => simp at hh
  | cons a r =>
    cases l' with
    | nil => trivial
    | cons b r' =>
      simp only [List.head?_cons, Option.some.injEq] at hh
      subst hh
      exact ⟨h.1, hl h.2⟩

/-- popping a closed pair keeps the word alternating -/
theorem alt_pop (P : List Int) : ∀ (up : Bool) (h i j x : Int) (rem : List Int),
    Alt up (P ++ h :: i :: j :: x :: rem) → absDiff j i ≤ absDiff x j →
    Alt up (P ++ h :: x :: rem) := by
  induction P with
  | nil =>
    intro up h i j x rem hA hc
    obtain ⟨h1, h2, h3, h4⟩ := hA
    refine ⟨?_, by simpa only [Bool.not_not] using h4⟩
    unfold absDiff at hc
    cases up <;> simp at h1 h2 h3 ⊢ <;> omega
  | cons p P ih =>
    intro up h i j x rem hA hc
    apply alt_head_congr up p (P ++ h :: i :: j :: x :: rem) (P ++ h :: x :: rem) _ _ hA
    · cases P <;> rfl
    · exact fun hA' => ih (!up) h i j x rem hA' hc

theorem zig_pop (rest : List Int) (i j x : Int) (rem : List Int)
    (hz : Zig ((j :: i :: rest).reverse ++ x :: rem)) (hc : ¬ absDiff x j < absDiff j i) :
    Zig (rest.reverse ++ x :: rem) := by
  cases rest with
  | nil =>
    obtain ⟨up, hA⟩ := hz
    exact alt_suffix [i, j] (x :: rem) up (by simpa using hA)
  | cons h r =>
    obtain ⟨up, hA⟩ := hz
    refine ⟨up, ?_⟩
    have := alt_pop r.reverse up h i j x rem (by simpa using hA) (by omega)
    simpa using this

theorem aLoop_zig (x : Int) (ir lmax : Nat) (stk : List Int) (rem : List Int)
    (hz : Zig (stk.reverse ++ x :: rem)) : Zig ((aLoop x ir lmax stk).2.1.reverse ++ x :: rem) := by
  fun_induction aLoop x ir lmax stk with
  | case1 => exact hz
  | case2 j h => exact hz
  | case3 j h => exact hz
  | case4 j i rest h1 h2 => exact hz
  | case5 j i rest h1 h2 => exact hz
  | case6 j i rest h1 h2 => exact hz
  | case7 j i rest h1 h2 h3 => exact hz
  | case8 j i rest h1 h2 h3 h4 r ih => exact ih (zig_pop rest i j x rem hz h3)
  | case9 j i rest h1 h2 h3 h4 => exact zig_pop rest i j x rem hz h3

theorem aLoop_suffix (x : Int) (ir lmax : Nat) (stk : List Int) :
    ∃ P, stk = P ++ (aLoop x ir lmax stk).2.1 := by
  fun_induction aLoop x ir lmax stk with
  | case1 => exact ⟨[], rfl⟩
  | case2 j h => exact ⟨[], rfl⟩
  | case3 j h => exact ⟨[], rfl⟩
  | case4 j i rest h1 h2 => exact ⟨[], rfl⟩
  | case5 j i rest h1 h2 => exact ⟨[], rfl⟩
  | case6 j i rest h1 h2 => exact ⟨[], rfl⟩
  | case7 j i rest h1 h2 h3 => exact ⟨[], rfl⟩
  | case8 j i rest h1 h2 h3 h4 r ih =>
    obtain ⟨P, hP⟩ := ih
    exact ⟨j :: i :: P, by simp only [List.cons_append]; rw [← hP]⟩
  | case9 j i rest h1 h2 h3 h4 => exact ⟨[j, i], rfl⟩

/-- **General invariant of the HCM loop** (loads only): `ir` stays within the stack, the residual
at position `ir - 1` (from the bottom, after the push of `x`) carries the largest absolute load,
and a turning point beyond the largest load so far ends up exactly there (`iz = ir`). -/
theorem aLoop_gen (x : Int) (ir lmax : Nat) (stk : List Int)
    (h1 : 1 ≤ ir) (h2 : ir ≤ stk.length ∨ (stk = [] ∧ ir = 1 ∧ lmax = 0))
    (hz : Zig (stk.reverse ++ [x])) (hb : ∀ y ∈ stk, y.natAbs ≤ lmax)
    (hp : ir ≤ stk.length → ∃ M, stk.reverse[ir - 1]? = some M ∧ M.natAbs = lmax) :
    1 ≤ (aLoop x ir lmax stk).2.2 ∧
    (aLoop x ir lmax stk).2.2 ≤ (aLoop x ir lmax stk).2.1.length + 1 ∧
    (∃ M', ((aLoop x ir lmax stk).2.1.reverse ++ [x])[(aLoop x ir lmax stk).2.2 - 1]? = some M' ∧
        M'.natAbs = max lmax x.natAbs) ∧
    (x.natAbs > lmax → (aLoop x ir lmax stk).2.2 = (aLoop x ir lmax stk).2.1.length + 1) := by
  fun_induction aLoop x ir lmax stk with
  | case1 =>
    rcases h2 with h2 | ⟨_, h3, h4⟩
    · simp at h2; omega
    · subst h3 h4; simp
  | case2 j h =>
    obtain ⟨h3, h4⟩ := h
    subst h3
    dsimp only
    refine ⟨by omega, by simp, ⟨x, by simp, by omega⟩, fun _ => by simp⟩
  | case3 j h =>
    dsimp only
    rcases h2 with h2 | ⟨h3, _⟩
    · simp only [List.length_singleton] at h2
      have hir : ir = 1 := by omega
      subst hir
      have hx : ¬ x.natAbs > lmax := fun hx => h ⟨rfl, hx⟩
      obtain ⟨M, hM1, hM2⟩ := hp (by simp)
      simp at hM1
      subst hM1
      refine ⟨by omega, by simp, ⟨j, by simp, by omega⟩, fun h' => absurd h' hx⟩
    · cases h3
  | case4 j i rest hl hx =>
    dsimp only
    refine ⟨by omega, by simp; omega, ⟨x, ?_, by omega⟩, fun _ => by simp; omega⟩
    have : ir + 1 - 1 = (j :: i :: rest).reverse.length := by simp; omega
    rw [this, List.getElem?_append_right (Nat.le_refl _)]
    simp
  | case5 j i rest hl hx =>
    dsimp only
    obtain ⟨M, hM1, hM2⟩ := hp (by simp; omega)
    refine ⟨h1, by simp; omega, ⟨M, ?_, by omega⟩, fun h' => absurd h' hx⟩
    rw [List.getElem?_append_left (by simp; omega)]
    exact hM1
  | case6 j i rest hl hl2 =>
    rcases h2 with h2 | ⟨h3, _⟩
    · simp at h2; omega
    · cases h3
  | case7 j i rest hl hl2 hc =>
    dsimp only
    have hz3 : Zig [i, j, x] := zig_infix rest.reverse [i, j, x] [] (by simpa using hz)
    have hi := hb i (by simp)
    have hj := hb j (by simp)
    have hlen : ir ≤ rest.length + 2 := by
      rcases h2 with h2 | ⟨h3, _⟩
      · simpa using h2
      · cases h3
    have hx : ¬ x.natAbs > lmax := by
      intro hx
      clear hp h2 hz
      obtain ⟨up, a1, a2, _⟩ := hz3
      unfold absDiff at hc
      cases up <;> simp at a1 a2 <;> omega
    obtain ⟨M, hM1, hM2⟩ := hp (by simp; omega)
    refine ⟨h1, by simp; omega, ⟨M, ?_, by omega⟩, fun h' => absurd h' hx⟩
    rw [List.getElem?_append_left (by simp; omega)]
    exact hM1
  | case8 j i rest hl hl2 hc hr r ih =>
    dsimp only
    apply ih (Or.inl hr) (zig_pop rest i j x [] hz hc) (fun y hy => hb y (by simp [hy]))
    intro _
    obtain ⟨M, hM1, hM2⟩ := hp (by simp; omega)
    refine ⟨M, ?_, hM2⟩
    rw [← hM1]
    simp only [List.reverse_cons, List.append_assoc]
    rw [List.getElem?_append_left (by simp; omega)]
  | case9 j i rest hl hl2 hc hr =>
    dsimp only
    have hlen : rest.length + 1 = ir := by omega
    have hz3 : Zig [i, j, x] := zig_infix rest.reverse [i, j, x] [] (by simpa using hz)
    have hj := hb j (by simp)
    obtain ⟨M, hM1, hM2⟩ := hp (by simp; omega)
    have hMi : M = i := by
      have e : (j :: i :: rest).reverse = rest.reverse ++ [i, j] := by simp
      rw [e, List.getElem?_append_right (by simp; omega)] at hM1
      have : ir - 1 - rest.reverse.length = 0 := by simp; omega
      rw [this] at hM1
      simpa using hM1.symm
    subst hMi
    have hx : lmax ≤ x.natAbs := by
      clear hp h2 hz
      obtain ⟨up, a1, a2, _⟩ := hz3
      unfold absDiff at hc
      cases up <;> simp at a1 a2 <;> omega
    refine ⟨h1, by omega, ⟨x, ?_, by omega⟩, fun _ => by omega⟩
    have : ir - 1 = rest.reverse.length := by simp; omega
    rw [this, List.getElem?_append_right (Nat.le_refl _)]
    simp

/-- invariant of the load-only machine before the turning points `rem` are fed -/
def AInv (σ : AState) (rem : List Int) : Prop :=
  1 ≤ σ.ir ∧ (σ.ir ≤ σ.stk.length ∨ (σ.stk = [] ∧ σ.ir = 1 ∧ σ.lmax = 0)) ∧
  Zig (σ.stk.reverse ++ rem) ∧ (∀ y ∈ σ.stk, y.natAbs ≤ σ.lmax) ∧
  (σ.ir ≤ σ.stk.length → ∃ M, σ.stk.reverse[σ.ir - 1]? = some M ∧ M.natAbs = σ.lmax)

theorem AInv_step (σ : AState) (x : Int) (rem : List Int) (h : AInv σ (x :: rem)) :
    AInv (aStep σ x).2 rem ∧
      (x.natAbs > σ.lmax → (aStep σ x).2.ir = (aStep σ x).2.stk.length) := by
  obtain ⟨h1, h2, hz, hb, hp⟩ := h
  have hz1 : Zig (σ.stk.reverse ++ [x]) := zig_infix [] (σ.stk.reverse ++ [x]) rem (by simpa using hz)
  obtain ⟨g1, g2, g3, g4⟩ := aLoop_gen x σ.ir σ.lmax σ.stk h1 h2 hz1 hb hp
  have gz := aLoop_zig x σ.ir σ.lmax σ.stk rem hz
  obtain ⟨P, hP⟩ := aLoop_suffix x σ.ir σ.lmax σ.stk
  unfold aStep
  dsimp only
  refine ⟨⟨g1, Or.inl (by simpa using g2), by simpa using gz, ?_, ?_⟩, fun hx => by simpa using g4 hx⟩
  · intro y hy
    show y.natAbs ≤ max σ.lmax x.natAbs
    rcases List.mem_cons.1 hy with rfl | hy
    · omega
    · have := hb y (by rw [hP]; simp [hy])
      omega
  · intro _
    simpa using g3

theorem aRun_inv (xs : List Int) : ∀ (σ : AState) (rem : List Int), AInv σ (xs ++ rem) →
    AInv (aRun σ xs).2 rem := by
  induction xs with
  | nil => intro σ rem h; simpa [aRun] using h
  | cons x xs ih =>
    intro σ rem h
    simp only [aRun]
    exact ih _ rem (AInv_step σ x (xs ++ rem) (by simpa using h)).1

theorem aRun_lmax_lt (L : Nat) (xs : List Int) : ∀ (σ : AState), σ.lmax < L →
    (∀ x ∈ xs, x.natAbs < L) → (aRun σ xs).2.lmax < L := by
  induction xs with
  | nil => intro σ h _; simpa [aRun] using h
  | cons x xs ih =>
    intro σ h hx
    simp only [aRun]
    apply ih
    · have := hx x (by simp)
      show max σ.lmax x.natAbs < L
      omega
    · exact fun y hy => hx y (by simp [hy])

theorem aInv_init (rem : List Int) (hz : Zig rem) : AInv aInit rem :=
  ⟨Nat.le_refl _, Or.inr ⟨rfl, rfl, rfl⟩, by simpa [aInit] using hz, by simp [aInit],
    by simp [aInit]⟩

/-- **Return lemma, first part.**  When the first turning point `M` of largest absolute value has
been fed, it is the top of the stack, sits at position `ir - 1` (`iz = ir`) and the largest
absolute load is `|M|`. -/
theorem aRun_first_max (q0 : List Int) (M : Int) (rem : List Int) (hM : M ≠ 0)
    (hz : Zig (q0 ++ M :: rem)) (hq : ∀ x ∈ q0, x.natAbs < M.natAbs) :
    ∃ B, (aRun aInit (q0 ++ [M])).2 = ⟨M :: B, B.length + 1, M.natAbs⟩ := by
  have hI := aRun_inv q0 aInit (M :: rem) (aInv_init _ hz)
  have hl := aRun_lmax_lt M.natAbs q0 aInit (by simp [aInit]; omega) hq
  obtain ⟨_, h2⟩ := AInv_step _ M rem hI
  rw [aRun_append]
  simp only [aRun]
  refine ⟨(aLoop M (aRun aInit q0).2.ir (aRun aInit q0).2.lmax (aRun aInit q0).2.stk).2.1, ?_⟩
  have h3 := h2 hl
  unfold aStep at h3 ⊢
  dsimp only at h3 ⊢
  simp only [List.length_cons] at h3
  rw [h3, Nat.max_eq_right (by omega)]

theorem split_tail (q0 r0 q1 r : List Int) (M : Int) (h : q0 ++ M :: r0 = q1 ++ M :: r)
    (hq0 : ∀ x ∈ q0, x.natAbs < M.natAbs) : r0 = r ∨ ∃ u, r0 = u ++ M :: r := by
  rcases List.append_eq_append_iff.1 h with ⟨a, ha1, ha2⟩ | ⟨c, hc1, hc2⟩
  · cases a with
    | nil => left; simpa using ha2
    | cons a0 u =>
      right
      simp only [List.cons_append, List.cons.injEq] at ha2
      exact ⟨u, ha2.2⟩
  · cases c with
    | nil => left; simpa using hc2.symm
    | cons c0 cs =>
      exfalso
      simp only [List.cons_append, List.cons.injEq] at hc2
      have := hq0 M (by rw [hc1, ← hc2.1]; simp)
      omega

/-- **Abstract main theorem.**  Let `M` be the first turning point of largest absolute value of
pass 1, and let both passes end with the same turning points `r` behind an occurrence of `M`.
Then the ranges emitted in pass 2 are the four-point count of the closed window `M r q2 M`. -/
theorem abs_main (F1 F2 q0 r0 q1 q2 r : List Int) (M : Int)
    (h0 : F1 = q0 ++ M :: r0) (hq0 : ∀ x ∈ q0, x.natAbs < M.natAbs)
    (h1 : F1 = q1 ++ M :: r) (h2 : F2 = q2 ++ M :: r)
    (hz : Zig (F1 ++ F2)) (hb : ∀ x ∈ F1 ++ F2, x.natAbs ≤ M.natAbs) (hM : M ≠ 0) :
    (aRun (aRun aInit F1).2 F2).1.Perm (outOf (M :: (r ++ q2 ++ [M]))) := by
  have hbr0 : ∀ x ∈ r0, x.natAbs ≤ M.natAbs := fun x hx => hb x (by rw [h0]; simp [hx])
  have hbF2 : ∀ x ∈ F2, x.natAbs ≤ M.natAbs := fun x hx => hb x (by simp [hx])
  have hbr : ∀ x ∈ r, x.natAbs ≤ M.natAbs := fun x hx => hbF2 x (by rw [h2]; simp [hx])
  have hbq2 : ∀ x ∈ q2 ++ [M], x.natAbs ≤ M.natAbs := fun x hx => hbF2 x (by
    rw [h2]; simp only [List.mem_append, List.mem_cons, List.not_mem_nil, or_false] at hx ⊢; tauto)
  -- alternation facts
  have hzall : Zig (q0 ++ (([M] ++ r0) ++ F2)) := by rw [h0] at hz; simpa using hz
  have hz0 : Zig (([M] ++ r0) ++ F2) := zig_infix q0 _ [] (by simpa using hzall)
  have hzr0 : Zig ([M] ++ r0) := zig_infix [] _ F2 (by simpa using hz0)
  -- phase 1: up to the first largest turning point
  obtain ⟨B, hB⟩ := aRun_first_max q0 M (r0 ++ F2) hM (by simpa using hzall) hq0
  have hK0 : K M [M] [] [] := Or.inl ⟨[], Steps.refl _, List.Perm.refl _⟩
  have hF1 : (aRun aInit F1).2 = ⟨(mRun M [] r0).2 ++ M :: B, B.length + 1, M.natAbs⟩ := by
    have e : F1 = (q0 ++ [M]) ++ r0 := by rw [h0]; simp
    rw [e, aRun_append, hB]
    have := aRun_sat M B r0 [M] [] [] hK0 hzr0 trivial (by simp) hbr0
    simp only [List.nil_append] at this
    rw [this]
  obtain ⟨k1, k2, k3, k4⟩ := K_run M r0 [M] [] [] hK0 hzr0 trivial (by simp) hbr0
  have hF2 : (aRun (aRun aInit F1).2 F2).1 = (mRun M (mRun M [] r0).2 F2).1 := by
    rw [hF1, aRun_sat M B F2 _ _ _ k1 hz0 k2 k3 hbF2]
  -- the stack above the base after pass 1 is that of the common tail `r`
  have hA1 : (mRun M [] r0).2 = (mRun M [] r).2 := by
    rcases split_tail q0 r0 q1 r M (by rw [← h0, ← h1]) hq0 with e | ⟨u, e⟩
    · rw [e]
    · have e' : r0 = (u ++ [M]) ++ r := by rw [e]; simp
      have hzu : Zig ([M] ++ (u ++ [M])) := zig_infix [] _ r (by rw [e'] at hzr0; simpa using hzr0)
      obtain ⟨_, _, _, u4⟩ := K_run M (u ++ [M]) [M] [] [] hK0 hzu trivial (by simp)
        (fun x hx => hbr0 x (by rw [e']; simp only [List.mem_append] at hx ⊢; exact Or.inl hx))
      rw [e', mRun_append, u4 (by simp)]
  -- pass 2: back to the bare base at `M`, then the common tail
  have hzq2 : Zig (([M] ++ r0) ++ (q2 ++ [M])) := by
    apply zig_infix [] _ r
    rw [h2] at hz0
    simpa using hz0
  obtain ⟨_, _, _, q4⟩ := K_run M (q2 ++ [M]) _ _ _ k1 hzq2 k2 k3 hbq2
  have hq2 := q4 (by simp)
  have e2 : F2 = (q2 ++ [M]) ++ r := by rw [h2]; simp
  have hE2 : (mRun M (mRun M [] r0).2 F2).1 =
      (mRun M (mRun M [] r0).2 (q2 ++ [M])).1 ++ (mRun M [] r).1 := by
    rw [e2, mRun_append, hq2]
  -- the closed window
  have hzw : Zig (M :: (r ++ (q2 ++ [M]))) := by
    apply zig_infix q1 _ r
    rw [h1, h2] at hz
    simpa using hz
  obtain ⟨_, w2⟩ := window M (r ++ (q2 ++ [M])) hzw
    (fun y hy => by
      rcases List.mem_append.1 hy with hy | hy
      · exact hbr y hy
      · exact hbq2 y hy)
    (by simp)
  rw [mRun_append, ← hA1] at w2
  rw [hF2, hE2]
  have e3 : r ++ q2 ++ [M] = r ++ (q2 ++ [M]) := by simp
  rw [e3]
  exact (w2.trans List.perm_append_comm).symm

end PylifeVerif.C04
