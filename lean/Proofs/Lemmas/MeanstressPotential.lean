/-
C12 — general gap-free Haigh diagrams: explicit iso-damage potential and arrival at the target.

A diagram in standard form (`diagram`) is
  `(1, ∞] ↦ Minf`, `(-∞, r₁] ↦ M0`, `(r₁, r₂] ↦ M₁`, …, `(r_n, 1] ↦ M_n`   with `r₁ < r₂ < … < r_n < 1`
(exactly one segment beyond R = 1, no gaps; `HaighDiagram.fkm_goodman` and `HaighDiagram.five_segment` have this form).
-/
import Proofs.Lemmas.MeanstressGoodman
import Mathlib.Data.List.Basic
import Mathlib.Tactic.Positivity
import Mathlib.Topology.Algebra.Ring.Real
import Mathlib.Topology.Order.OrderClosed
import Mathlib.Topology.Algebra.Order.Field

namespace PylifeVerif.Meanstress
open ExtR

/-! ### The abscissa `x = (1+R)/(1-R)` -/

noncomputable def px (r : ℝ) : ℝ := (1 + r) / (1 - r)

theorem pos_fin (r : ℝ) : pos (fin r) = px r := rfl

theorem px_lt {a b : ℝ} (ha : a < 1) (hb : b < 1) : px a < px b ↔ a < b := by
  unfold px
  rw [div_lt_div_iff₀ (by linarith) (by linarith)]
  constructor <;> intro h <;> nlinarith

theorem px_le {a b : ℝ} (ha : a < 1) (hb : b < 1) : px a ≤ px b ↔ a ≤ b := by
  unfold px
  rw [div_le_div_iff₀ (by linarith) (by linarith)]
  constructor <;> intro h <;> nlinarith

theorem px_gt_m1 {a : ℝ} (ha : a < 1) : -1 < px a := m1_lt_key ha
theorem px_lt_m1 {a : ℝ} (ha : 1 < a) : px a < -1 := key_lt_m1 ha

/-! ### Insertion sort of a list that is sorted already -/

theorem insertAsc_head (x : Seg ℝ) (l : List (Seg ℝ))
    (h : ∀ y ∈ l.head?, ExtR.lt (segKey y) (segKey x) = false) : insertAsc x l = x :: l := by
  cases l with
  | nil => rfl
  | cons y ys =>
    have := h y (by simp)
    simp [insertAsc, this]

theorem foldr_insertAsc_sorted (l : List (Seg ℝ))
    (h : l.Pairwise fun s t => ExtR.lt (segKey t) (segKey s) = false) : l.foldr insertAsc [] = l := by
  induction l with
  | nil => rfl
  | cons x xs ih =>
    rw [List.pairwise_cons] at h
    rw [List.foldr_cons, ih h.2]
    apply insertAsc_head
    intro y hy
    exact h.1 y (List.mem_of_mem_head? hy)

theorem insertDesc_last (x : Seg ℝ) (l : List (Seg ℝ))
    (h : ∀ y ∈ l, ExtR.lt (segKey x) (segKey y) = true) : insertDesc x l = l ++ [x] := by
  induction l with
  | nil => rfl
  | cons y ys ih =>
    simp only [insertDesc, h y List.mem_cons_self, if_true, List.cons_append]
    rw [ih (fun z hz => h z (List.mem_cons_of_mem _ hz))]

theorem foldr_insertDesc_sorted (l : List (Seg ℝ))
    (h : l.Pairwise fun s t => ExtR.lt (segKey s) (segKey t) = true) : l.foldr insertDesc [] = l.reverse := by
  induction l with
  | nil => rfl
  | cons x xs ih =>
    rw [List.pairwise_cons] at h
    rw [List.foldr_cons, ih h.2, List.reverse_cons]
    apply insertDesc_last
    intro y hy
    exact h.1 y (List.mem_reverse.1 hy)

/-! ### Diagrams in standard form -/

/-- The segments `(b, r₁], (r₁, r₂], …, (r_n, 1]` with their slopes. -/
def chainR (b : ℝ) : List (ℝ × ℝ) → ℝ → List (Seg ℝ)
  | [], Mn => [⟨fin b, fin 1, Mn⟩]
  | (M, r) :: rest, Mn => ⟨fin b, fin r, M⟩ :: chainR r rest Mn

/-- Borders strictly increasing and below 1. -/
def SortedR (b : ℝ) : List (ℝ × ℝ) → Prop
  | [] => b < 1
  | (_, r) :: rest => b < r ∧ SortedR r rest

def Sinf (Minf : ℝ) : Seg ℝ := ⟨fin 1, pinf, Minf⟩
def S0 (M0 r1 : ℝ) : Seg ℝ := ⟨ninf, fin r1, M0⟩

/-- `(1, ∞] ↦ Minf`, `(-∞, r1] ↦ M0`, then the chain from `r1` up to `1`. -/
def diagram (Minf M0 r1 : ℝ) (bs : List (ℝ × ℝ)) (Mn : ℝ) : List (Seg ℝ) :=
  Sinf Minf :: S0 M0 r1 :: chainR r1 bs Mn

theorem goodman_diagram (M M2 : ℝ) : goodman M M2 = diagram 0 M 0 [] M2 := by
  simp [goodman, diagram, chainR, Sinf, S0]

theorem fiveSegment_diagram (M0 M1 M2 M3 M4 R12 R23 : ℝ) :
    fiveSegment M0 M1 M2 M3 M4 R12 R23 = diagram M4 M0 0 [(M1, R12), (M2, R23)] M3 := by
  simp [fiveSegment, diagram, chainR, Sinf, S0]

theorem sortedR_lt1 {b : ℝ} {bs : List (ℝ × ℝ)} (h : SortedR b bs) : b < 1 := by
  induction bs generalizing b with
  | nil => exact h
  | cons p rest ih => obtain ⟨M, r⟩ := p; exact lt_trans h.1 (ih h.2)

/-- Shape of the segments of a chain. -/
theorem mem_chainR {b : ℝ} {bs : List (ℝ × ℝ)} {Mn : ℝ} (hs : SortedR b bs) {s : Seg ℝ}
    (h : s ∈ chainR b bs Mn) : ∃ a c, s.lo = fin a ∧ s.hi = fin c ∧ b ≤ a ∧ a < c ∧ c ≤ 1 := by
  induction bs generalizing b with
  | nil =>
    simp only [chainR, List.mem_singleton] at h
    subst h
    exact ⟨b, 1, rfl, rfl, le_refl _, hs, le_refl _⟩
  | cons p rest ih =>
    obtain ⟨M, r⟩ := p
    simp only [chainR, List.mem_cons] at h
    rcases h with rfl | h
    · exact ⟨b, r, rfl, rfl, le_refl _, hs.1, (sortedR_lt1 hs.2).le⟩
    · obtain ⟨a, c, h1, h2, h3, h4, h5⟩ := ih hs.2 h
      exact ⟨a, c, h1, h2, by linarith [hs.1], h4, h5⟩

theorem segKey_fin (a c M : ℝ) : segKey (⟨fin a, fin c, M⟩ : Seg ℝ) = fin (px (1/2 * (a + c))) := by
  simp [segKey, mid, fake, px]

theorem segKey_fin' {s : Seg ℝ} {a c : ℝ} (h1 : s.lo = fin a) (h2 : s.hi = fin c) :
    segKey s = fin (px (1/2 * (a + c))) := by
  obtain ⟨lo, hi, M⟩ := s
  simp only at h1 h2
  subst h1 h2
  exact segKey_fin a c M

@[simp] theorem segKey_Sinf (M : ℝ) : segKey (Sinf M) = ninf := by simp [segKey, Sinf, mid]
@[simp] theorem segKey_S0 (M r : ℝ) : segKey (S0 M r) = fin (-1) := by simp [segKey, S0, mid, fake]

/-- Keys are real numbers and strictly increasing. -/
def KeyLt (s t : Seg ℝ) : Prop := ∃ x y, segKey s = fin x ∧ segKey t = fin y ∧ x < y

theorem chainR_key {b : ℝ} {bs : List (ℝ × ℝ)} {Mn : ℝ} (hs : SortedR b bs) {s : Seg ℝ}
    (h : s ∈ chainR b bs Mn) : ∃ a c, s.lo = fin a ∧ s.hi = fin c ∧ b ≤ a ∧ a < c ∧ c ≤ 1 ∧
      segKey s = fin (px (1/2 * (a + c))) := by
  obtain ⟨a, c, h1, h2, h3, h4, h5⟩ := mem_chainR hs h
  exact ⟨a, c, h1, h2, h3, h4, h5, segKey_fin' h1 h2⟩

theorem chainR_pairwise {b : ℝ} {bs : List (ℝ × ℝ)} {Mn : ℝ} (hs : SortedR b bs) :
    (chainR b bs Mn).Pairwise KeyLt := by
  induction bs generalizing b with
  | nil => simp [chainR]
  | cons p rest ih =>
    obtain ⟨M, r⟩ := p
    simp only [chainR, List.pairwise_cons]
    refine ⟨fun t ht => ?_, ih hs.2⟩
    obtain ⟨a, c, h1, h2, h3, h4, h5, hk⟩ := chainR_key hs.2 ht
    have hr := sortedR_lt1 hs.2
    have hb := hs.1
    refine ⟨_, _, segKey_fin b r M, hk, ?_⟩
    rw [px_lt (by linarith) (by linarith)]
    linarith

theorem diagram_pairwise (Minf M0 r1 : ℝ) {bs : List (ℝ × ℝ)} (Mn : ℝ) (hs : SortedR r1 bs) :
    (diagram Minf M0 r1 bs Mn).Pairwise
      (fun s t => ExtR.lt (segKey t) (segKey s) = false ∧ ExtR.lt (segKey s) (segKey t) = true) := by
  unfold diagram
  rw [List.pairwise_cons, List.pairwise_cons]
  have hc : ∀ t ∈ chainR r1 bs Mn, ∃ y, segKey t = fin y ∧ -1 < y := by
    intro t ht
    obtain ⟨a, c, h1, h2, h3, h4, h5, hk⟩ := chainR_key hs ht
    exact ⟨_, hk, px_gt_m1 (by linarith)⟩
  refine ⟨?_, ?_, ?_⟩
  · intro t ht
    rcases List.mem_cons.1 ht with rfl | ht
    · simp [ExtR.lt]
    · obtain ⟨y, hy, _⟩ := hc t ht
      simp [hy, ExtR.lt]
  · intro t ht
    obtain ⟨y, hy, hy1⟩ := hc t ht
    simp only [hy, segKey_S0, ExtR.lt, decide_eq_false_iff_not, decide_eq_true_eq]
    exact ⟨by linarith, hy1⟩
  · refine (chainR_pairwise hs).imp ?_
    rintro s t ⟨x, y, hx, hy, hxy⟩
    simp only [hx, hy, ExtR.lt, decide_eq_false_iff_not, decide_eq_true_eq]
    exact ⟨by linarith, hxy⟩

theorem segsLeft_diagram (Minf M0 r1 : ℝ) {bs : List (ℝ × ℝ)} (Mn : ℝ) (hs : SortedR r1 bs) (g : ExtR ℝ) :
    segsLeft (diagram Minf M0 r1 bs Mn) g
      = (diagram Minf M0 r1 bs Mn).filter fun s => ExtR.lt (segKey s) (goalKey g) := by
  unfold segsLeft
  exact foldr_insertAsc_sorted _ (((diagram_pairwise Minf M0 r1 Mn hs).imp (fun h => h.1)).filter _)

theorem segsRight_diagram (Minf M0 r1 : ℝ) {bs : List (ℝ × ℝ)} (Mn : ℝ) (hs : SortedR r1 bs) (g : ExtR ℝ) :
    segsRight (diagram Minf M0 r1 bs Mn) g
      = ((diagram Minf M0 r1 bs Mn).filter fun s => ExtR.lt (goalKey g) (segKey s)).reverse := by
  unfold segsRight
  exact foldr_insertDesc_sorted _ (((diagram_pairwise Minf M0 r1 Mn hs).imp (fun h => h.2)).filter _)

/-! ### The R value along a run -/

theorem foldl_step_R (f : Seg ℝ → ExtR ℝ) (l : List (Seg ℝ)) (c : Cyc ℝ) :
    (l.foldl (fun c s => step s (f s) c) c).R = l.foldl (fun R s => stepR s (f s) R) c.R := by
  induction l generalizing c with
  | nil => rfl
  | cons s ss ih => simp only [List.foldl_cons]; rw [ih, step_R]

theorem transform_R (D : List (Seg ℝ)) (g : ExtR ℝ) (c : Cyc ℝ) :
    (transform D g c).R = (segsContaining D g).foldl (fun R s => stepR s g R)
      ((segsRight D g).foldl (fun R s => stepR s s.lo R)
        ((segsLeft D g).foldl (fun R s => stepR s (leftBoundary s) R) c.R)) := by
  unfold transform
  rw [foldl_step_R (fun _ => g), foldl_step_R (fun s => s.lo), foldl_step_R leftBoundary]

theorem normGoal_fin {a : ℝ} (h : a ≠ 1) : normGoal (fin a) = fin a := normGoal_valid (g := fin a) h

theorem stepR_fin {s : Seg ℝ} {a c : ℝ} (h1 : s.lo = fin a) (h2 : s.hi = fin c) (g : ExtR ℝ) (r : ℝ) :
    stepR s g (fin r) = if a ≤ r ∧ r ≤ c then normGoal g else fin r := by
  unfold stepR push
  rw [h1, h2]
  simp [ExtR.le]

theorem stepR_ninf {s : Seg ℝ} {a c : ℝ} (h1 : s.lo = fin a) (h2 : s.hi = fin c) (g : ExtR ℝ) :
    stepR s g ninf = ninf := by
  unfold stepR
  rw [h1, h2]
  have : push ninf g = ninf ∨ push ninf g = pinf := by
    simp only [push]; split <;> simp
  rcases this with h | h <;> rw [h] <;> simp [ExtR.le]

/-- Chain segments never touch a cycle at `R = -∞`. -/
theorem chain_fold_ninf {b : ℝ} {bs : List (ℝ × ℝ)} {Mn : ℝ} (hs : SortedR b bs) (f : Seg ℝ → ExtR ℝ)
    (l : List (Seg ℝ)) (hl : ∀ s ∈ l, s ∈ chainR b bs Mn) :
    l.foldl (fun R s => stepR s (f s) R) ninf = ninf := by
  induction l with
  | nil => rfl
  | cons s ss ih =>
    obtain ⟨a, c, h1, h2, _⟩ := mem_chainR hs (hl s List.mem_cons_self)
    rw [List.foldl_cons, stepR_ninf h1 h2]
    exact ih (fun t ht => hl t (List.mem_cons_of_mem _ ht))

theorem chainR_head {b : ℝ} (bs : List (ℝ × ℝ)) (Mn : ℝ) : ∃ s ∈ chainR b bs Mn, s.lo = fin b := by
  cases bs with
  | nil => exact ⟨_, List.mem_cons_self, rfl⟩
  | cons p rest => obtain ⟨M, r⟩ := p; exact ⟨_, List.mem_cons_self, rfl⟩

/-- Left phase on the chain: afterwards the cycle is at or beyond the right end of every processed segment
that ends below `R = 1`. -/
theorem left_chain (κ : ℝ) (Mn : ℝ) : ∀ (bs : List (ℝ × ℝ)) (b r : ℝ), SortedR b bs → b ≤ r → r < 1 →
    ∃ r', ((chainR b bs Mn).filter fun s => ExtR.lt (segKey s) (fin κ)).foldl
        (fun R s => stepR s (leftBoundary s) R) (fin r) = fin r' ∧ b ≤ r' ∧ r' < 1 ∧
      ∀ s ∈ chainR b bs Mn, ExtR.lt (segKey s) (fin κ) = true → ∀ c, s.hi = fin c → c < 1 → c ≤ r' := by
  intro bs
  induction bs with
  | nil =>
    intro b r hs hbr hr
    simp only [chainR, List.filter_cons, List.filter_nil]
    split
    · refine ⟨b, ?_, le_refl _, hs, ?_⟩
      · simp only [List.foldl_cons, List.foldl_nil]
        rw [stepR_fin rfl rfl, if_pos ⟨hbr, hr.le⟩]
        simp only [leftBoundary, ExtR.lt, lit1, lt_irrefl, decide_false]
        exact normGoal_fin hs.ne
      · intro s hs' _ c hc hc1
        rw [List.mem_singleton] at hs'; subst hs'
        simp only [ExtR.fin.injEq] at hc; linarith
    · refine ⟨r, rfl, hbr, hr, ?_⟩
      intro s hs' hk
      rw [List.mem_singleton] at hs'; subst hs'
      simp_all
  | cons p rest ih =>
    obtain ⟨M, r1⟩ := p
    intro b r hs hbr hr
    have hr1 := sortedR_lt1 hs.2
    simp only [chainR, List.filter_cons]
    split
    · -- the head is processed
      rename_i hk
      have hlb : leftBoundary (⟨fin b, fin r1, M⟩ : Seg ℝ) = fin r1 := by
        simp [leftBoundary, ExtR.lt, hr1]
      obtain ⟨r0, h0, h0a, h0b⟩ : ∃ r0, stepR (⟨fin b, fin r1, M⟩ : Seg ℝ) (fin r1) (fin r) = fin r0 ∧ r1 ≤ r0 ∧ r0 < 1 := by
        rw [stepR_fin rfl rfl]
        split
        · exact ⟨r1, normGoal_fin hr1.ne, le_refl _, hr1⟩
        · rename_i hn
          refine ⟨r, rfl, ?_, hr⟩
          by_contra hh
          exact hn ⟨hbr, by linarith⟩
      obtain ⟨r', e, h1, h2, h3⟩ := ih r1 r0 hs.2 h0a h0b
      refine ⟨r', ?_, by linarith [hs.1], h2, ?_⟩
      · simp only [List.foldl_cons]; rw [hlb, h0]; exact e
      · intro s hs' hk' c hc hc1
        rcases List.mem_cons.1 hs' with rfl | hs'
        · simp only [ExtR.fin.injEq] at hc; linarith
        · exact h3 s hs' hk' c hc hc1
    · -- the head is not processed: nor is any later segment
      rename_i hk
      have hnil : (chainR r1 rest Mn).filter (fun s => ExtR.lt (segKey s) (fin κ)) = [] := by
        rw [List.filter_eq_nil_iff]
        intro t ht
        have hp := chainR_pairwise (Mn := Mn) hs
        simp only [chainR, List.pairwise_cons] at hp
        obtain ⟨x, y, hx, hy, hxy⟩ := hp.1 t ht
        rw [hx] at hk
        rw [hy]
        simp only [ExtR.lt, decide_eq_true_eq, not_lt] at hk ⊢
        linarith
      rw [hnil]
      refine ⟨r, rfl, hbr, hr, ?_⟩
      intro s hs' hk' c hc hc1
      rcases List.mem_cons.1 hs' with rfl | hs'
      · exact absurd hk' hk
      · have : s ∈ (chainR r1 rest Mn).filter (fun s => ExtR.lt (segKey s) (fin κ)) :=
          List.mem_filter.2 ⟨hs', hk'⟩
        rw [hnil] at this; exact absurd this (by simp)

/-- Right phase on the chain (the processed segments in descending order). -/
theorem right_chain (κ : ℝ) (Mn : ℝ) : ∀ (bs : List (ℝ × ℝ)) (b r : ℝ), SortedR b bs → r < 1 →
    ∃ r'', ((chainR b bs Mn).filter fun s => ExtR.lt (fin κ) (segKey s)).foldr
        (fun s R => stepR s s.lo R) (fin r) = fin r'' ∧ r'' < 1 ∧ r'' ≤ r ∧
      (r'' = r ∨ ∃ s ∈ chainR b bs Mn, ExtR.lt (fin κ) (segKey s) = true ∧ s.lo = fin r'') ∧
      ∀ s ∈ chainR b bs Mn, ExtR.lt (fin κ) (segKey s) = true → ∀ a, s.lo = fin a → r'' ≤ a := by
  intro bs
  induction bs with
  | nil =>
    intro b r hs hr
    simp only [chainR, List.filter_cons, List.filter_nil]
    split
    · rename_i hk
      simp only [List.foldr_cons, List.foldr_nil]
      rw [stepR_fin rfl rfl]
      split
      · rename_i hc
        refine ⟨b, normGoal_fin hs.ne, hs, hc.1, Or.inr ⟨_, List.mem_singleton.2 rfl, hk, rfl⟩, ?_⟩
        intro s hs' _ a ha
        rw [List.mem_singleton] at hs'; subst hs'
        simp only [ExtR.fin.injEq] at ha; linarith
      · rename_i hc
        refine ⟨r, rfl, hr, le_refl _, Or.inl rfl, ?_⟩
        intro s hs' _ a ha
        rw [List.mem_singleton] at hs'; subst hs'
        simp only [ExtR.fin.injEq] at ha
        by_contra hh
        exact hc ⟨by linarith, hr.le⟩
    · rename_i hk
      refine ⟨r, rfl, hr, le_refl _, Or.inl rfl, ?_⟩
      intro s hs' hk'
      rw [List.mem_singleton] at hs'; subst hs'
      exact absurd hk' hk
  | cons p rest ih =>
    obtain ⟨M, r1⟩ := p
    intro b r hs hr
    have hr1 := sortedR_lt1 hs.2
    have hb1 : b < 1 := lt_trans hs.1 hr1
    obtain ⟨r2, e, h1, h2, h3, h4⟩ := ih r1 r hs.2 hr
    simp only [chainR, List.filter_cons]
    split
    · rename_i hk
      simp only [List.foldr_cons]
      rw [e, stepR_fin rfl rfl]
      -- the first segment of the tail is processed, too
      have hr2 : r2 ≤ r1 := by
        obtain ⟨t, ht, htlo⟩ := chainR_head (b := r1) rest Mn
        have hp := chainR_pairwise (Mn := Mn) hs
        simp only [chainR, List.pairwise_cons] at hp
        obtain ⟨x, y, hx, hy, hxy⟩ := hp.1 t ht
        refine h4 t ht ?_ r1 htlo
        rw [hx] at hk
        rw [hy]
        simp only [ExtR.lt, decide_eq_true_eq] at hk ⊢
        linarith
      split
      · rename_i hc
        refine ⟨b, normGoal_fin hb1.ne, hb1, by linarith [hc.1], Or.inr ⟨_, List.mem_cons_self, hk, rfl⟩, ?_⟩
        intro s hs' hk' a ha
        rcases List.mem_cons.1 hs' with rfl | hs'
        · simp only [ExtR.fin.injEq] at ha; linarith
        · have := h4 s hs' hk' a ha
          linarith [hc.1]
      · rename_i hc
        have hlt : r2 < b := by
          by_contra hh
          exact hc ⟨by linarith, hr2⟩
        refine ⟨r2, rfl, h1, h2, ?_, ?_⟩
        · rcases h3 with h3 | ⟨s, hs', hk', hlo⟩
          · exact Or.inl h3
          · exact Or.inr ⟨s, List.mem_cons_of_mem _ hs', hk', hlo⟩
        · intro s hs' hk' a ha
          rcases List.mem_cons.1 hs' with rfl | hs'
          · simp only [ExtR.fin.injEq] at ha; linarith
          · exact h4 s hs' hk' a ha
    · rename_i hk
      refine ⟨r2, e, h1, h2, ?_, ?_⟩
      · rcases h3 with h3 | ⟨s, hs', hk', hlo⟩
        · exact Or.inl h3
        · exact Or.inr ⟨s, List.mem_cons_of_mem _ hs', hk', hlo⟩
      · intro s hs' hk' a ha
        rcases List.mem_cons.1 hs' with rfl | hs'
        · exact absurd hk' hk
        · exact h4 s hs' hk' a ha

/-- No gaps: a chain segment that ends below 1 has a successor. -/
theorem chain_succ : ∀ (bs : List (ℝ × ℝ)) (b Mn : ℝ) (s : Seg ℝ), s ∈ chainR b bs Mn → ∀ c, s.hi = fin c → c ≠ 1 →
    ∃ t ∈ chainR b bs Mn, t.lo = fin c := by
  intro bs
  induction bs with
  | nil =>
    intro b Mn s hs c hc hc1
    rw [chainR, List.mem_singleton] at hs; subst hs
    simp only [ExtR.fin.injEq] at hc; exact absurd hc.symm hc1
  | cons p rest ih =>
    obtain ⟨M, r1⟩ := p
    intro b Mn s hs c hc hc1
    rcases List.mem_cons.1 hs with rfl | hs
    · simp only [ExtR.fin.injEq] at hc; subst hc
      obtain ⟨t, ht, hlo⟩ := chainR_head (b := r1) rest Mn
      exact ⟨t, List.mem_cons_of_mem _ ht, hlo⟩
    · obtain ⟨t, ht, hlo⟩ := ih r1 Mn s hs c hc hc1
      exact ⟨t, List.mem_cons_of_mem _ ht, hlo⟩

/-- No gaps: a chain segment that does not start at the chain's left end has a predecessor. -/
theorem chain_pred : ∀ (bs : List (ℝ × ℝ)) (b Mn : ℝ) (s : Seg ℝ), s ∈ chainR b bs Mn → ∀ a, s.lo = fin a →
    a = b ∨ ∃ p ∈ chainR b bs Mn, p.hi = fin a := by
  intro bs
  induction bs with
  | nil =>
    intro b Mn s hs a ha
    rw [chainR, List.mem_singleton] at hs; subst hs
    simp only [ExtR.fin.injEq] at ha; exact Or.inl ha.symm
  | cons p rest ih =>
    obtain ⟨M, r1⟩ := p
    intro b Mn s hs a ha
    rcases List.mem_cons.1 hs with rfl | hs
    · simp only [ExtR.fin.injEq] at ha; exact Or.inl ha.symm
    · rcases ih r1 Mn s hs a ha with h | ⟨q, hq, hhi⟩
      · subst h; exact Or.inr ⟨_, List.mem_cons_self, rfl⟩
      · exact Or.inr ⟨q, List.mem_cons_of_mem _ hq, hhi⟩

/-- Chain segments are ordered: one that starts earlier ends before the other starts. -/
theorem chain_order : ∀ (bs : List (ℝ × ℝ)) (b Mn : ℝ), SortedR b bs → ∀ s ∈ chainR b bs Mn, ∀ t ∈ chainR b bs Mn,
    ∀ a a' c', s.lo = fin a → t.lo = fin a' → t.hi = fin c' → a' < a → c' ≤ a := by
  intro bs
  induction bs with
  | nil =>
    intro b Mn _ s hs t ht a a' c' h1 h2 h3 hlt
    rw [chainR, List.mem_singleton] at hs ht; subst hs; subst ht
    simp only [ExtR.fin.injEq] at h1 h2; linarith
  | cons p rest ih =>
    obtain ⟨M, r1⟩ := p
    intro b Mn hsort s hs t ht a a' c' h1 h2 h3 hlt
    rcases List.mem_cons.1 ht with rfl | ht
    · rcases List.mem_cons.1 hs with rfl | hs
      · simp only [ExtR.fin.injEq] at h1 h2; linarith
      · obtain ⟨a₀, c₀, e1, _, e3, _⟩ := mem_chainR hsort.2 hs
        rw [e1] at h1
        simp only [ExtR.fin.injEq] at h1 h3; linarith
    · rcases List.mem_cons.1 hs with rfl | hs
      · obtain ⟨a₀, c₀, e1, _, e3, _⟩ := mem_chainR hsort.2 ht
        rw [e1] at h2
        simp only [ExtR.fin.injEq] at h1 h2; linarith [hsort.1]
      · exact ih r1 Mn hsort.2 s hs t ht a a' c' h1 h2 h3 hlt

/-- The chain covers `(b, 1)`. -/
theorem chain_covers : ∀ (bs : List (ℝ × ℝ)) (b Mn q : ℝ), SortedR b bs → b < q → q < 1 →
    ∃ s ∈ chainR b bs Mn, ∃ a c, s.lo = fin a ∧ s.hi = fin c ∧ a < q ∧ q ≤ c := by
  intro bs
  induction bs with
  | nil =>
    intro b Mn q _ h1 h2
    exact ⟨_, List.mem_singleton.2 rfl, b, 1, rfl, rfl, h1, h2.le⟩
  | cons p rest ih =>
    obtain ⟨M, r1⟩ := p
    intro b Mn q hs h1 h2
    rcases le_or_gt q r1 with h | h
    · exact ⟨_, List.mem_cons_self, b, r1, rfl, rfl, h1, h⟩
    · obtain ⟨s, hs', a, c, e⟩ := ih r1 Mn q hs.2 h h2
      exact ⟨s, List.mem_cons_of_mem _ hs', a, c, e⟩

/-! ### Arrival at the target -/

/-- R values below 1 (incl. `-∞`). -/
def Below1 : ExtR ℝ → Prop
  | fin r => r < 1
  | ninf => True
  | _ => False

theorem filter_diagram (Minf M0 r1 : ℝ) (bs : List (ℝ × ℝ)) (Mn : ℝ) (p : Seg ℝ → Bool) :
    (diagram Minf M0 r1 bs Mn).filter p
      = (if p (Sinf Minf) then [Sinf Minf] else []) ++ ((if p (S0 M0 r1) then [S0 M0 r1] else []) ++
          (chainR r1 bs Mn).filter p) := by
  unfold diagram
  rw [List.filter_cons, List.filter_cons]
  split <;> split <;> simp

theorem goalKey_fin (q : ℝ) : goalKey (fin q) = fin (px q) := by simp [goalKey, fake, px]
theorem goalKey_ninf : goalKey (ninf : ExtR ℝ) = fin (-1) := by simp [goalKey]

theorem leftBoundary_Sinf (M : ℝ) : leftBoundary (Sinf M) = fin 1 := by simp [leftBoundary, Sinf, ExtR.lt]
theorem leftBoundary_S0 (M : ℝ) {r1 : ℝ} (h : r1 < 1) : leftBoundary (S0 M r1) = fin r1 := by
  simp [leftBoundary, S0, ExtR.lt, h]

/-- The segment beyond R = 1 sends every cycle with R > 1 to R = -∞. -/
theorem stepR_Sinf_left (M : ℝ) {R : ExtR ℝ} (hR : ValidR R) : Below1 (stepR (Sinf M) (fin 1) R) := by
  rcases R with r | _ | _ | _
  · simp only [ValidR] at hR
    unfold stepR push
    by_cases h : 1 ≤ r
    · simp [Sinf, ExtR.le, h, normGoal, ExtR.isOne, Below1]
    · simp only [Sinf, ExtR.le, h, decide_false, Bool.false_and]
      simpa [Below1] using h
  · exact absurd hR (by simp [ValidR])
  · simp [stepR, push, Sinf, ExtR.le, ExtR.lt, Below1]
  · exact absurd hR (by simp [ValidR])

theorem stepR_S0_left (M : ℝ) {r1 : ℝ} (h1 : r1 < 1) {R : ExtR ℝ} (hR : Below1 R) :
    ∃ r0, stepR (S0 M r1) (fin r1) R = fin r0 ∧ r1 ≤ r0 ∧ r0 < 1 := by
  have hn : ¬ (1 < r1) := by linarith
  rcases R with r | _ | _ | _
  · simp only [Below1] at hR
    by_cases h : r ≤ r1
    · exact ⟨r1, by simp [stepR, push, S0, ExtR.le, h, normGoal_fin h1.ne], le_refl _, h1⟩
    · exact ⟨r, by simp [stepR, push, S0, ExtR.le, h], by linarith, hR⟩
  · exact absurd hR (by simp [Below1])
  · exact ⟨r1, by simp [stepR, push, S0, ExtR.le, ExtR.lt, hn, normGoal_fin h1.ne], le_refl _, h1⟩
  · exact absurd hR (by simp [Below1])

/-- R value after the left and the right phase. -/
noncomputable def RafterRight (D : List (Seg ℝ)) (g R : ExtR ℝ) : ExtR ℝ :=
  (segsRight D g).foldl (fun R s => stepR s s.lo R)
    ((segsLeft D g).foldl (fun R s => stepR s (leftBoundary s) R) R)

theorem afterRight_R (D : List (Seg ℝ)) (g : ExtR ℝ) (c : Cyc ℝ) : (afterRight D g c).R = RafterRight D g c.R := by
  unfold afterRight afterLeft RafterRight
  rw [foldl_step_R (fun s => s.lo), foldl_step_R leftBoundary]

theorem fold_hits (g : ExtR ℝ) : ∀ (l : List (Seg ℝ)) (R : ExtR ℝ),
    (R = normGoal g ∨ ∃ s ∈ l, memSeg (push R g) s) → l.foldl (fun R s => stepR s g R) R = normGoal g := by
  intro l
  induction l with
  | nil => intro R h; rcases h with h | ⟨s, hs, _⟩
           · exact h
           · exact absurd hs (by simp)
  | cons t ts ih =>
    intro R h
    rw [List.foldl_cons]
    by_cases hf : (ExtR.le t.lo (push R g) && ExtR.le (push R g) t.hi) = true
    · have : stepR t g R = normGoal g := by unfold stepR; rw [if_pos hf]
      rw [this]; exact ih _ (Or.inl rfl)
    · have : stepR t g R = R := by unfold stepR; rw [if_neg hf]
      rw [this]
      rcases h with h | ⟨s, hs, hm⟩
      · exact ih _ (Or.inl h)
      · rcases List.mem_cons.1 hs with rfl | hs
        · exact absurd hm hf
        · exact ih _ (Or.inr ⟨s, hs, hm⟩)

theorem mem_containing_first {D : List (Seg ℝ)} {g : ExtR ℝ} {s : Seg ℝ} (hs : s ∈ D)
    (h : (ExtR.lt s.lo g && ExtR.le g s.hi) = true) : s ∈ segsContaining D g := by
  unfold segsContaining
  have hm : s ∈ D.filter fun s => ExtR.lt s.lo g && ExtR.le g s.hi := List.mem_filter.2 ⟨hs, h⟩
  simp only
  split
  · rename_i he
    rw [List.isEmpty_iff] at he
    rw [he] at hm; exact absurd hm (by simp)
  · exact hm

theorem mem_containing_ninf {D : List (Seg ℝ)} {s : Seg ℝ} (hs : s ∈ D)
    (h : (ExtR.le s.lo ninf && ExtR.lt ninf s.hi) = true) : s ∈ segsContaining D ninf := by
  unfold segsContaining
  have he : (D.filter fun s => ExtR.lt s.lo (ninf : ExtR ℝ) && ExtR.le ninf s.hi) = [] := by
    rw [List.filter_eq_nil_iff]
    intro t _
    cases t.lo <;> simp [ExtR.lt]
  simp only [he, List.isEmpty_nil, if_true]
  exact List.mem_filter.2 ⟨hs, h⟩

theorem stepR_pos {s : Seg ℝ} {g R : ExtR ℝ} (h : memSeg (push R g) s) : stepR s g R = normGoal g := by
  unfold memSeg at h; unfold stepR; rw [if_pos h]

theorem lt_fin_fin (a b : ℝ) : ExtR.lt (fin a) (fin b) = decide (a < b) := rfl
theorem lt_ninf_fin (b : ℝ) : ExtR.lt ninf (fin b) = true := rfl
theorem lt_fin_ninf (a : ℝ) : ExtR.lt (fin a) ninf = false := rfl

section Arrival
variable (Minf M0 r1 : ℝ) (bs : List (ℝ × ℝ)) (Mn : ℝ)

theorem mem_diagram_chain {s : Seg ℝ} (h : s ∈ chainR r1 bs Mn) : s ∈ diagram Minf M0 r1 bs Mn :=
  List.mem_cons_of_mem _ (List.mem_cons_of_mem _ h)

/-- Target `R = q < 1`. -/
theorem diagram_fires_lt1 (hs : SortedR r1 bs) {q : ℝ} (hq : q < 1) {R : ExtR ℝ} (hR : ValidR R) :
    ∃ s ∈ segsContaining (diagram Minf M0 r1 bs Mn) (fin q),
      memSeg (push (RafterRight (diagram Minf M0 r1 bs Mn) (fin q) R) (fin q)) s := by
  have hr1 := sortedR_lt1 hs
  have hκ := px_gt_m1 hq
  have hκ' : ¬ (px q < -1) := by linarith
  -- left phase
  obtain ⟨r0, e0, h0a, h0b⟩ := stepR_S0_left M0 hr1 (stepR_Sinf_left Minf hR)
  obtain ⟨r', e', h1a, h1b, h1c⟩ := left_chain (px q) Mn bs r1 r0 hs h0a h0b
  -- right phase
  obtain ⟨r'', e'', h2a, h2b, h2c, h2d⟩ := right_chain (px q) Mn bs r1 r' hs h1b
  have hRR : RafterRight (diagram Minf M0 r1 bs Mn) (fin q) R = fin r'' := by
    unfold RafterRight
    rw [segsLeft_diagram Minf M0 r1 Mn hs, segsRight_diagram Minf M0 r1 Mn hs, goalKey_fin,
      filter_diagram, filter_diagram]
    simp only [segKey_Sinf, segKey_S0, lt_fin_fin, lt_ninf_fin, lt_fin_ninf, decide_eq_true_eq, hκ, hκ', if_true,
      if_false, List.nil_append, List.cons_append, List.foldl_cons, Bool.false_eq_true]
    rw [leftBoundary_Sinf, leftBoundary_S0 M0 hr1, e0, e', List.foldl_reverse]
    exact e''
  rw [hRR]
  simp only [push]
  rcases le_or_gt q r1 with hq1 | hq1
  · -- the target lies in `(-∞, r1]`
    refine ⟨S0 M0 r1, mem_containing_first (List.mem_cons_of_mem _ List.mem_cons_self)
      (by simp [S0, ExtR.lt, ExtR.le, hq1]), ?_⟩
    obtain ⟨t, ht, htlo⟩ := chainR_head (b := r1) bs Mn
    obtain ⟨a, c, e1, e2, e3, e4, e5, ek⟩ := chainR_key hs ht
    have : r'' ≤ r1 := by
      refine h2d t ht ?_ r1 htlo
      rw [e1] at htlo
      simp only [ExtR.fin.injEq] at htlo; subst htlo
      rw [ek]
      simp only [ExtR.lt, decide_eq_true_eq]
      rw [px_lt hq (by linarith)]
      linarith
    simp [memSeg, S0, ExtR.le, this]
  · -- the target lies in a chain segment `(a, c]`
    obtain ⟨s, hsm, a, c, e1, e2, haq, hqc⟩ := chain_covers bs r1 Mn q hs hq1 hq
    obtain ⟨a₀, c₀, f1, f2, f3, f4, f5⟩ := mem_chainR hs hsm
    rw [e1] at f1; rw [e2] at f2
    simp only [ExtR.fin.injEq] at f1 f2; subst f1; subst f2
    refine ⟨s, mem_containing_first (mem_diagram_chain Minf M0 r1 bs Mn hsm)
      (by simp [e1, e2, ExtR.lt, ExtR.le, haq, hqc]), ?_⟩
    -- upper end
    have hup : r'' ≤ c := by
      rcases eq_or_lt_of_le f5 with hc1 | hc1
      · linarith
      · obtain ⟨t, ht, htlo⟩ := chain_succ bs r1 Mn s hsm c e2 hc1.ne
        obtain ⟨a', c', g1, g2, g3, g4, g5, gk⟩ := chainR_key hs ht
        refine h2d t ht ?_ c htlo
        rw [g1] at htlo
        simp only [ExtR.fin.injEq] at htlo; subst htlo
        rw [gk]
        simp only [ExtR.lt, decide_eq_true_eq]
        rw [px_lt hq (by linarith)]
        linarith
    -- lower end
    have hlo' : a ≤ r' := by
      rcases chain_pred bs r1 Mn s hsm a e1 with h | ⟨p, hp, hphi⟩
      · linarith
      · obtain ⟨a', c', g1, g2, g3, g4, g5, gk⟩ := chainR_key hs hp
        refine h1c p hp ?_ a hphi (by linarith)
        rw [g2] at hphi
        simp only [ExtR.fin.injEq] at hphi; subst hphi
        rw [gk]
        simp only [ExtR.lt, decide_eq_true_eq]
        rw [px_lt (by linarith) hq]
        linarith
    have hlo : a ≤ r'' := by
      rcases h2c with h | ⟨t, ht, hk, htlo⟩
      · rw [h]; exact hlo'
      · by_contra hh
        obtain ⟨a', c', g1, g2, g3, g4, g5, gk⟩ := chainR_key hs ht
        rw [g1] at htlo
        simp only [ExtR.fin.injEq] at htlo; subst htlo
        have := chain_order bs r1 Mn hs s hsm t ht a a' c' e1 g1 g2 (by linarith)
        rw [gk] at hk
        simp only [ExtR.lt, decide_eq_true_eq] at hk
        rw [px_lt hq (by linarith)] at hk
        linarith
    simp [memSeg, e1, e2, ExtR.le, hlo, hup]

/-- For a target at or beyond `R = ±∞` no chain segment lies left of the target. -/
theorem chain_filter_left_nil (hs : SortedR r1 bs) {κ : ℝ} (hκ : κ ≤ -1) :
    (chainR r1 bs Mn).filter (fun s => ExtR.lt (segKey s) (fin κ)) = [] := by
  rw [List.filter_eq_nil_iff]
  intro t ht
  obtain ⟨a, c, e1, e2, e3, e4, e5, ek⟩ := chainR_key hs ht
  rw [ek]
  have := px_gt_m1 (a := 1/2 * (a + c)) (by linarith)
  simp only [lt_fin_fin, decide_eq_true_eq, not_lt]
  linarith

/-- … and the right phase brings every cycle below `R = 1` into `[-∞, r1]`. -/
theorem right_all (hs : SortedR r1 bs) {κ : ℝ} (hκ : κ ≤ -1) {R0 : ExtR ℝ} (h0 : Below1 R0) :
    memSeg (((chainR r1 bs Mn).filter fun s => ExtR.lt (fin κ) (segKey s)).reverse.foldl
      (fun R s => stepR s s.lo R) R0) (S0 M0 r1) := by
  rcases R0 with r | _ | _ | _
  · simp only [Below1] at h0
    obtain ⟨r'', e'', h2a, h2b, h2c, h2d⟩ := right_chain κ Mn bs r1 r hs h0
    rw [List.foldl_reverse, e'']
    obtain ⟨t, ht, htlo⟩ := chainR_head (b := r1) bs Mn
    obtain ⟨a, c, e1, e2, e3, e4, e5, ek⟩ := chainR_key hs ht
    have : r'' ≤ r1 := by
      refine h2d t ht ?_ r1 htlo
      rw [ek]
      have := px_gt_m1 (a := 1/2 * (a + c)) (by linarith)
      simp only [lt_fin_fin, decide_eq_true_eq]
      linarith
    simp [memSeg, S0, ExtR.le, this]
  · exact absurd h0 (by simp [Below1])
  · rw [chain_fold_ninf hs (fun s => s.lo) _ (fun s h => (List.mem_filter.1 (List.mem_reverse.1 h)).1)]
    simp [memSeg, S0, ExtR.le]
  · exact absurd h0 (by simp [Below1])

theorem push_below1 {R : ExtR ℝ} (hR : Below1 R) {g : ExtR ℝ} (hg : ExtR.lt (fin 1) g = false) : push R g = R := by
  rcases R with r | _ | _ | _
  · rfl
  · exact absurd hR (by simp [Below1])
  · simp [push, hg]
  · exact absurd hR (by simp [Below1])

theorem memSeg_S0_below1 {R : ExtR ℝ} (h : memSeg R (S0 M0 r1)) (h1 : r1 < 1) : Below1 R := by
  rcases R with r | _ | _ | _
  · simp only [memSeg, S0, ExtR.le, Bool.true_and, decide_eq_true_eq] at h
    simp only [Below1]; linarith
  · simp [memSeg, S0, ExtR.le] at h
  · simp [Below1]
  · simp [memSeg, S0, ExtR.le] at h

/-- Target `R = -∞`. -/
theorem diagram_fires_ninf (hs : SortedR r1 bs) {R : ExtR ℝ} (hR : ValidR R) :
    ∃ s ∈ segsContaining (diagram Minf M0 r1 bs Mn) ninf,
      memSeg (push (RafterRight (diagram Minf M0 r1 bs Mn) ninf R) ninf) s := by
  have hr1 := sortedR_lt1 hs
  refine ⟨S0 M0 r1, mem_containing_ninf (List.mem_cons_of_mem _ List.mem_cons_self)
    (by simp [S0, ExtR.lt, ExtR.le]), ?_⟩
  have h := right_all M0 r1 bs Mn hs (le_refl (-1)) (stepR_Sinf_left Minf hR)
  have hRR : RafterRight (diagram Minf M0 r1 bs Mn) ninf R =
      ((chainR r1 bs Mn).filter fun s => ExtR.lt (fin (-1)) (segKey s)).reverse.foldl
        (fun R s => stepR s s.lo R) (stepR (Sinf Minf) (fin 1) R) := by
    unfold RafterRight
    rw [segsLeft_diagram Minf M0 r1 Mn hs, segsRight_diagram Minf M0 r1 Mn hs, goalKey_ninf,
      filter_diagram, filter_diagram, chain_filter_left_nil r1 bs Mn hs (le_refl _)]
    simp only [segKey_Sinf, segKey_S0, lt_fin_fin, lt_ninf_fin, lt_fin_ninf, lt_irrefl, decide_false, if_true,
      if_false, List.nil_append, List.foldl_cons, List.foldl_nil, Bool.false_eq_true, List.append_nil]
    rw [leftBoundary_Sinf]
  rw [hRR, push_below1 (memSeg_S0_below1 M0 r1 h hr1) (by simp [ExtR.lt])]
  exact h

/-- Target `R = q > 1`. -/
theorem diagram_fires_gt1 (hs : SortedR r1 bs) {q : ℝ} (hq : 1 < q) {R : ExtR ℝ} (hR : ValidR R) :
    ∃ s ∈ segsContaining (diagram Minf M0 r1 bs Mn) (fin q),
      memSeg (push (RafterRight (diagram Minf M0 r1 bs Mn) (fin q) R) (fin q)) s := by
  have hr1 := sortedR_lt1 hs
  have hκ := px_lt_m1 hq
  have hκ' : ¬ (-1 < px q) := by linarith
  refine ⟨Sinf Minf, mem_containing_first List.mem_cons_self (by simp [Sinf, ExtR.lt, ExtR.le, hq]), ?_⟩
  have h := right_all M0 r1 bs Mn hs hκ.le (stepR_Sinf_left Minf hR)
  have hRR : RafterRight (diagram Minf M0 r1 bs Mn) (fin q) R = ninf := by
    unfold RafterRight
    rw [segsLeft_diagram Minf M0 r1 Mn hs, segsRight_diagram Minf M0 r1 Mn hs, goalKey_fin,
      filter_diagram, filter_diagram, chain_filter_left_nil r1 bs Mn hs hκ.le]
    simp only [segKey_Sinf, segKey_S0, lt_fin_fin, lt_ninf_fin, lt_fin_ninf, hκ, hκ', decide_true, decide_false, if_true,
      if_false, List.nil_append, List.cons_append, List.foldl_cons, List.foldl_nil, Bool.false_eq_true, List.append_nil,
      List.reverse_cons, List.foldl_append]
    rw [leftBoundary_Sinf]
    have hb := memSeg_S0_below1 M0 r1 h hr1
    rw [stepR_pos (by rw [push_below1 hb (by simp [S0, ExtR.lt])]; exact h)]
    simp [S0, normGoal, ExtR.isOne]
  rw [hRR]
  simp [push, ExtR.lt, hq, memSeg, Sinf, ExtR.le]

/-- Every run ends with a segment shift that fires (at a segment containing the target). -/
theorem diagram_fires (hs : SortedR r1 bs) {g R : ExtR ℝ} (hg : ValidR g) (hR : ValidR R) :
    ∃ s ∈ segsContaining (diagram Minf M0 r1 bs Mn) g,
      memSeg (push (RafterRight (diagram Minf M0 r1 bs Mn) g R) g) s := by
  rcases g with q | _ | _ | _
  · simp only [ValidR] at hg
    rcases lt_or_gt_of_ne hg with h | h
    · exact diagram_fires_lt1 Minf M0 r1 bs Mn hs h hR
    · exact diagram_fires_gt1 Minf M0 r1 bs Mn hs h hR
  · exact absurd hg (by simp [ValidR])
  · exact diagram_fires_ninf Minf M0 r1 bs Mn hs hR
  · exact absurd hg (by simp [ValidR])

/-- ARRIVAL: for every diagram in standard form, every admissible target and every admissible cycle the run of
`HaighDiagram.transform` ends at the target R. -/
theorem diagram_arrives (hs : SortedR r1 bs) {g : ExtR ℝ} (c : Cyc ℝ) (hg : ValidR g) (hR : ValidR c.R) :
    (transform (diagram Minf M0 r1 bs Mn) g c).R = g := by
  rw [transform_R]
  have := fold_hits g (segsContaining (diagram Minf M0 r1 bs Mn) g) _
    (Or.inr (diagram_fires Minf M0 r1 bs Mn hs hg hR))
  rw [normGoal_valid hg] at this
  exact this

end Arrival

/-! ### The iso-damage potential of a diagram in standard form -/

/-- Potential on the chain that starts at the border `b`, where it has the value `v`: on each segment
`k·(1 + M·x)` with `k` fixed by continuity at the segment's left border. -/
noncomputable def hC (v b : ℝ) : List (ℝ × ℝ) → ℝ → ℝ → ℝ
  | [], Mn, x => v * (1 + Mn * x) / (1 + Mn * px b)
  | (M, r) :: rest, Mn, x =>
      if x ≤ px r then v * (1 + M * x) / (1 + M * px b)
      else hC (v * (1 + M * px r) / (1 + M * px b)) r rest Mn x

/-- The iso-damage potential of `diagram Minf M0 r1 bs Mn`, normalised to `h(0) = 1` (R = -1). -/
noncomputable def hD (Minf M0 r1 : ℝ) (bs : List (ℝ × ℝ)) (Mn : ℝ) (x : ℝ) : ℝ :=
  if x ≤ -1 then (1 - M0) * (1 + Minf * x) / (1 - Minf)
  else if x ≤ px r1 then 1 + M0 * x
  else hC (1 + M0 * px r1) r1 bs Mn x

/-- The iso-damage lines of each chain segment have positive amplitude at both ends of the segment. -/
def GoodC (b : ℝ) : List (ℝ × ℝ) → ℝ → Prop
  | [], Mn => 0 < 1 + Mn * px b
  | (M, r) :: rest, Mn => 0 < 1 + M * px b ∧ 0 < 1 + M * px r ∧ GoodC r rest Mn

/-- Non-degenerate diagram: at every kink both adjacent iso-damage lines have positive amplitude. -/
def GoodD (Minf M0 r1 : ℝ) (bs : List (ℝ × ℝ)) (Mn : ℝ) : Prop :=
  Minf < 1 ∧ M0 < 1 ∧ 0 < 1 + M0 * px r1 ∧ GoodC r1 bs Mn

theorem hC_left : ∀ (bs : List (ℝ × ℝ)) (v b Mn : ℝ), SortedR b bs → GoodC b bs Mn → hC v b bs Mn (px b) = v := by
  intro bs
  cases bs with
  | nil =>
    intro v b Mn _ hg
    simp only [GoodC] at hg
    simp only [hC]
    field_simp
  | cons p rest =>
    obtain ⟨M, r⟩ := p
    intro v b Mn hs hg
    have hr := sortedR_lt1 hs.2
    have : px b ≤ px r := (px_le (by linarith [hs.1]) hr).2 hs.1.le
    have h0 := hg.1
    simp only [hC, this, if_true]
    field_simp

theorem chain_pot (Mn : ℝ) : ∀ (bs : List (ℝ × ℝ)) (v b : ℝ), SortedR b bs → GoodC b bs Mn → 0 < v →
    ∀ s ∈ chainR b bs Mn, ∃ k, 0 < k ∧ ∀ x, (∀ a, s.lo = fin a → px a ≤ x) → (∀ c, s.hi = fin c → c < 1 → x ≤ px c) →
      hC v b bs Mn x = k * (1 + s.M * x) := by
  intro bs
  induction bs with
  | nil =>
    intro v b hs hg hv s hsm
    rw [chainR, List.mem_singleton] at hsm; subst hsm
    simp only [GoodC] at hg
    refine ⟨v / (1 + Mn * px b), by positivity, fun x _ _ => ?_⟩
    simp only [hC]; ring
  | cons p rest ih =>
    obtain ⟨M, r⟩ := p
    intro v b hs hg hv s hsm
    have hr := sortedR_lt1 hs.2
    obtain ⟨g1, g2, g3⟩ := hg
    rcases List.mem_cons.1 hsm with rfl | hsm
    · refine ⟨v / (1 + M * px b), by positivity, fun x _ hx => ?_⟩
      have := hx r rfl hr
      simp only [hC, this, if_true]; ring
    · have hv' : 0 < v * (1 + M * px r) / (1 + M * px b) := by positivity
      obtain ⟨k, hk, hf⟩ := ih _ r hs.2 g3 hv' s hsm
      obtain ⟨a, c, e1, e2, e3, e4, e5⟩ := mem_chainR hs.2 hsm
      refine ⟨k, hk, fun x hx1 hx2 => ?_⟩
      have hxa := hx1 a e1
      have hra : px r ≤ px a := (px_le hr (by linarith)).2 e3
      by_cases hc : x ≤ px r
      · have hx : x = px r := le_antisymm hc (le_trans hra hxa)
        have := hf (px r) (fun a' ha' => by rw [← hx]; exact hx1 a' ha') (fun c' hc' hc1 => by rw [← hx]; exact hx2 c' hc' hc1)
        rw [hC_left rest _ r Mn hs.2 g3] at this
        simp only [hC, hc, if_true]
        rw [hx]
        rw [← this]
      · simp only [hC, hc, if_false]
        exact hf x hx1 hx2

/-- `h` is an iso-damage potential of `D` for the target `g`, with a positive factor on every segment. -/
def CompatPos (h : ℝ → ℝ) (D : List (Seg ℝ)) (g : ExtR ℝ) : Prop :=
  ∀ s ∈ D, ∃ k, 0 < k ∧ (∀ R, memSeg R s → R.isOne = false → h (pos R) = k * (1 + s.M * pos R)) ∧
    h (pos (normGoal (leftBoundary s))) = k * (1 + s.M * pos (normGoal (leftBoundary s))) ∧
    h (pos (normGoal s.lo)) = k * (1 + s.M * pos (normGoal s.lo)) ∧
    (s ∈ segsContaining D g → h (pos (normGoal g)) = k * (1 + s.M * pos (normGoal g)))

theorem CompatPos.compat {h : ℝ → ℝ} {D : List (Seg ℝ)} {g : ExtR ℝ} (hc : CompatPos h D g) : Compat h D g := by
  intro s hs
  obtain ⟨k, _, h1, h2, h3, h4⟩ := hc s hs
  exact ⟨⟨k, h1, h2⟩, ⟨k, h1, h3⟩, fun hm => ⟨k, h1, h4 hm⟩⟩

theorem ExtR.lt_imp_le {a b : ExtR ℝ} (h : ExtR.lt a b = true) : ExtR.le a b = true := by
  cases a <;> cases b <;> simp_all [ExtR.lt, ExtR.le]
  exact le_of_lt h

theorem memSeg_of_containing {D : List (Seg ℝ)} {g : ExtR ℝ} {s : Seg ℝ} (h : s ∈ segsContaining D g) : memSeg g s := by
  unfold memSeg
  rcases mem_containing h with h | h <;> rw [Bool.and_eq_true] at h ⊢
  · exact ⟨ExtR.lt_imp_le h.1, h.2⟩
  · exact ⟨h.1, ExtR.lt_imp_le h.2⟩

section Potential
variable (Minf M0 r1 : ℝ) (bs : List (ℝ × ℝ)) (Mn : ℝ)

theorem hD_inf {x : ℝ} (hx : x ≤ -1) :
    hD Minf M0 r1 bs Mn x = (1 - M0) / (1 - Minf) * (1 + Minf * x) := by
  simp only [hD, hx, if_true]; ring

theorem hD_0 (hM : Minf < 1) (_h1 : r1 < 1) {x : ℝ} (hx1 : -1 ≤ x) (hx2 : x ≤ px r1) :
    hD Minf M0 r1 bs Mn x = 1 * (1 + M0 * x) := by
  unfold hD
  split_ifs with h
  · have : x = -1 := le_antisymm h hx1
    subst this
    have : (1 - Minf) ≠ 0 := by linarith
    field_simp
    ring
  · ring

theorem hD_chain (hs : SortedR r1 bs) (hg : GoodD Minf M0 r1 bs Mn) {s : Seg ℝ} (hsm : s ∈ chainR r1 bs Mn) :
    ∃ k, 0 < k ∧ ∀ x, (∀ a, s.lo = fin a → px a ≤ x) → (∀ c, s.hi = fin c → c < 1 → x ≤ px c) →
      hD Minf M0 r1 bs Mn x = k * (1 + s.M * x) := by
  obtain ⟨g1, g2, g3, g4⟩ := hg
  have hr1 := sortedR_lt1 hs
  obtain ⟨k, hk, hf⟩ := chain_pot Mn bs (1 + M0 * px r1) r1 hs g4 g3 s hsm
  obtain ⟨a, c, e1, e2, e3, e4, e5⟩ := mem_chainR hs hsm
  refine ⟨k, hk, fun x hx1 hx2 => ?_⟩
  have hxa := hx1 a e1
  have hra : px r1 ≤ px a := (px_le hr1 (by linarith)).2 e3
  have hm1 := px_gt_m1 hr1
  unfold hD
  rw [if_neg (by linarith)]
  split_ifs with hc
  · have hx : x = px r1 := le_antisymm hc (le_trans hra hxa)
    have := hf x hx1 hx2
    rw [hx, hC_left bs _ r1 Mn hs g4] at this
    rw [hx]; exact this
  · exact hf x hx1 hx2

/-- Where the cycles of a chain segment lie on the abscissa. -/
theorem chain_range {s : Seg ℝ} {a c : ℝ} (e1 : s.lo = fin a) (e2 : s.hi = fin c) (hc : c ≤ 1)
    {R : ExtR ℝ} (hm : memSeg R s) (h1 : R.isOne = false) :
    (∀ a', s.lo = fin a' → px a' ≤ pos R) ∧ (∀ c', s.hi = fin c' → c' < 1 → pos R ≤ px c') := by
  unfold memSeg at hm
  rw [e1, e2] at hm
  rcases R with r | _ | _ | _
  · simp only [ExtR.le, Bool.and_eq_true, decide_eq_true_eq] at hm
    simp only [ExtR.isOne, lit1, decide_eq_false_iff_not, not_and_or, not_le] at h1
    have hr : r < 1 := by rcases h1 with h | h <;> linarith [hm.2]
    constructor
    · intro a' ha'
      rw [e1] at ha'; simp only [ExtR.fin.injEq] at ha'; subst ha'
      exact (px_le (by linarith [hm.1]) hr).2 hm.1
    · intro c' hc' hc1
      rw [e2] at hc'; simp only [ExtR.fin.injEq] at hc'; subst hc'
      exact (px_le hr hc1).2 hm.2
  · simp [ExtR.le] at hm
  · simp [ExtR.le] at hm
  · simp [ExtR.le] at hm

theorem isOne_fin_lt {a : ℝ} (h : a < 1) : (fin a : ExtR ℝ).isOne = false := isOne_valid (g := fin a) h.ne

/-- `hD` is an iso-damage potential of the diagram for every admissible target, with positive factors. -/
theorem diagram_compat (hs : SortedR r1 bs) (hg : GoodD Minf M0 r1 bs Mn) {g : ExtR ℝ} (hv : ValidR g) :
    CompatPos (hD Minf M0 r1 bs Mn) (diagram Minf M0 r1 bs Mn) g := by
  have hr1 := sortedR_lt1 hs
  have hgood := hg
  obtain ⟨g1, g2, g3, g4⟩ := hg
  have nninf : normGoal (ninf : ExtR ℝ) = ninf := by simp [normGoal, ExtR.isOne]
  intro s hsD
  rcases List.mem_cons.1 hsD with rfl | hsD
  · -- (1, ∞]
    have key : ∀ R, memSeg R (Sinf Minf) → R.isOne = false →
        hD Minf M0 r1 bs Mn (pos R) = (1 - M0) / (1 - Minf) * (1 + (Sinf Minf).M * pos R) := by
      intro R hm h1
      apply hD_inf
      rcases R with r | _ | _ | _
      · simp only [memSeg, Sinf, ExtR.le, Bool.and_true, decide_eq_true_eq] at hm
        simp only [ExtR.isOne, lit1, decide_eq_false_iff_not, not_and_or, not_le] at h1
        have : 1 < r := by rcases h1 with h | h <;> linarith
        exact (px_lt_m1 this).le
      · simp [pos]
      · simp [memSeg, Sinf, ExtR.le] at hm
      · simp [memSeg, Sinf, ExtR.le] at hm
    have hb : hD Minf M0 r1 bs Mn (pos (normGoal (fin 1))) =
        (1 - M0) / (1 - Minf) * (1 + (Sinf Minf).M * pos (normGoal (fin 1))) := by
      have : normGoal (fin (1:ℝ)) = ninf := by simp [normGoal, ExtR.isOne]
      rw [this]; exact hD_inf Minf M0 r1 bs Mn (by simp [pos])
    refine ⟨(1 - M0) / (1 - Minf), div_pos (by linarith) (by linarith), key, ?_, hb, fun hc => ?_⟩
    · rw [leftBoundary_Sinf]; exact hb
    · rw [normGoal_valid hv]
      exact key g (memSeg_of_containing hc) (isOne_valid hv)
  rcases List.mem_cons.1 hsD with rfl | hsD
  · -- (-∞, r1]
    have key : ∀ R, memSeg R (S0 M0 r1) → R.isOne = false →
        hD Minf M0 r1 bs Mn (pos R) = 1 * (1 + (S0 M0 r1).M * pos R) := by
      intro R hm _
      rcases R with r | _ | _ | _
      · simp only [memSeg, S0, ExtR.le, Bool.true_and, decide_eq_true_eq] at hm
        have hr : r < 1 := by linarith
        exact hD_0 Minf M0 r1 bs Mn g1 hr1 (px_gt_m1 hr).le ((px_le hr hr1).2 hm)
      · simp [memSeg, S0, ExtR.le] at hm
      · exact hD_0 Minf M0 r1 bs Mn g1 hr1 (by simp [pos]) (by simpa [pos] using (px_gt_m1 hr1).le)
      · simp [memSeg, S0, ExtR.le] at hm
    refine ⟨1, one_pos, key, ?_, ?_, fun hc => ?_⟩
    · rw [leftBoundary_S0 M0 hr1, normGoal_fin hr1.ne]
      exact key _ (by simp [memSeg, S0, ExtR.le]) (isOne_fin_lt hr1)
    · show hD Minf M0 r1 bs Mn (pos (normGoal ninf)) = _
      rw [nninf]
      exact key _ (by simp [memSeg, S0, ExtR.le]) (by simp [ExtR.isOne])
    · rw [normGoal_valid hv]
      exact key g (memSeg_of_containing hc) (isOne_valid hv)
  · -- chain segment
    obtain ⟨k, hk, hf⟩ := hD_chain Minf M0 r1 bs Mn hs hgood hsD
    obtain ⟨a, c, e1, e2, e3, e4, e5⟩ := mem_chainR hs hsD
    have key : ∀ R, memSeg R s → R.isOne = false →
        hD Minf M0 r1 bs Mn (pos R) = k * (1 + s.M * pos R) := by
      intro R hm h1
      obtain ⟨h1', h2'⟩ := chain_range e1 e2 e5 hm h1
      exact hf _ h1' h2'
    have ha1 : a < 1 := by linarith
    have hlo : hD Minf M0 r1 bs Mn (pos (normGoal s.lo)) = k * (1 + s.M * pos (normGoal s.lo)) := by
      rw [e1, normGoal_fin ha1.ne]
      exact key _ (by simp [memSeg, e1, e2, ExtR.le, e4.le]) (isOne_fin_lt ha1)
    refine ⟨k, hk, key, ?_, hlo, fun hc => ?_⟩
    · unfold leftBoundary
      rw [e2]
      by_cases hc1 : c < 1
      · simp only [lt_fin_fin, lit1, hc1, decide_true, if_true]
        rw [normGoal_fin hc1.ne]
        exact key _ (by simp [memSeg, e1, e2, ExtR.le, e4.le]) (isOne_fin_lt hc1)
      · simp only [lt_fin_fin, lit1, hc1, decide_false]
        exact hlo
    · rw [normGoal_valid hv]
      exact key g (memSeg_of_containing hc) (isOne_valid hv)

end Potential

/-! ### The guard makes the potential positive at the target -/

theorem mem_segsContaining_D {D : List (Seg ℝ)} {g : ExtR ℝ} {s : Seg ℝ} (hs : s ∈ segsContaining D g) : s ∈ D := by
  unfold segsContaining at hs; simp only at hs; split at hs <;> exact (List.mem_filter.1 hs).1

theorem fold_guard_hits (g : ExtR ℝ) : ∀ (l : List (Seg ℝ)) (c : Cyc ℝ), FoldGuard (fun _ => g) l c →
    (∃ s ∈ l, memSeg (push c.R g) s) → ∃ t ∈ l, 0 < 1 + t.M * pos (normGoal g) := by
  intro l
  induction l with
  | nil => intro c _ h; obtain ⟨s, hs, _⟩ := h; exact absurd hs (by simp)
  | cons t ts ih =>
    intro c hG h
    by_cases hf : memSeg (push c.R g) t
    · exact ⟨t, List.mem_cons_self, (hG.1 hf).2.2.2⟩
    · have hst : step t g c = c := by
        unfold memSeg at hf; unfold step; simp only [hf]; rfl
      obtain ⟨s, hs, hm⟩ := h
      rcases List.mem_cons.1 hs with rfl | hs
      · exact absurd hm hf
      · have hG2 := hG.2
        rw [hst] at hG2
        obtain ⟨u, hu, hpos⟩ := ih c hG2 ⟨s, hs, hm⟩
        exact ⟨u, List.mem_cons_of_mem _ hu, hpos⟩

/-- If the last phase of the run fires, the guard makes the potential positive at the target. -/
theorem guard_goal_pos {h : ℝ → ℝ} {D : List (Seg ℝ)} {g : ExtR ℝ} {c : Cyc ℝ} (hc : CompatPos h D g)
    (hG : TransformGuard D g c) (hf : ∃ s ∈ segsContaining D g, memSeg (push (afterRight D g c).R g) s) :
    0 < h (pos (normGoal g)) := by
  obtain ⟨t, ht, hpos⟩ := fold_guard_hits g _ _ hG.2.2 hf
  obtain ⟨k, hk, _, _, _, h4⟩ := hc t (mem_segsContaining_D ht)
  rw [h4 ht]
  exact mul_pos hk hpos

/-! ### Amplitude at fixed mean: `a ↦ a·h(m/a)` is non-decreasing and Lipschitz -/

/-- On the rays `x = m/a` in `I`: `a ↦ a·h(m/a)` is non-decreasing with increments at most `L·Δa`. -/
def PerspMono (h : ℝ → ℝ) (L : ℝ) (I : ℝ → Prop) : Prop :=
  ∀ m a₁ a₂ : ℝ, 0 < a₁ → a₁ ≤ a₂ → I (m / a₁) → I (m / a₂) →
    a₁ * h (m / a₁) ≤ a₂ * h (m / a₂) ∧ a₂ * h (m / a₂) - a₁ * h (m / a₁) ≤ L * (a₂ - a₁)

theorem PerspMono.mono {h : ℝ → ℝ} {L L' : ℝ} {I J : ℝ → Prop} (H : PerspMono h L I) (hL : L ≤ L')
    (hJ : ∀ x, J x → I x) : PerspMono h L' J := by
  intro m a₁ a₂ h1 h2 i1 i2
  obtain ⟨p, q⟩ := H m a₁ a₂ h1 h2 (hJ _ i1) (hJ _ i2)
  exact ⟨p, le_trans q (mul_le_mul_of_nonneg_right hL (by linarith))⟩

theorem perspMono_linear (k M : ℝ) (hk : 0 ≤ k) : PerspMono (fun x => k * (1 + M * x)) k (fun _ => True) := by
  intro m a₁ a₂ h1 h2 _ _
  have e1 : a₁ * (k * (1 + M * (m / a₁))) = k * (a₁ + M * m) := by field_simp
  have e2 : a₂ * (k * (1 + M * (m / a₂))) = k * (a₂ + M * m) := by
    have : a₂ ≠ 0 := by linarith
    field_simp
  simp only [e1, e2]
  constructor
  · nlinarith
  · nlinarith

theorem perspMono_glue {h₁ h₂ : ℝ → ℝ} {β L : ℝ} (H1 : PerspMono h₁ L (fun x => x ≤ β))
    (H2 : PerspMono h₂ L (fun x => β ≤ x)) (hβ : h₁ β = h₂ β) :
    PerspMono (fun x => if x ≤ β then h₁ x else h₂ x) L (fun _ => True) := by
  intro m a₁ a₂ h1 h2 _ _
  have h2' : 0 < a₂ := by linarith
  by_cases c1 : m / a₁ ≤ β <;> by_cases c2 : m / a₂ ≤ β
  · simp only [c1, c2, if_true]; exact H1 m a₁ a₂ h1 h2 c1 c2
  · -- x₁ ≤ β < x₂ : m < 0, β < 0
    have c2' : β < m / a₂ := not_le.1 c2
    have c1o : m / a₁ ≤ β := c1
    have c2o : β ≤ m / a₂ := c2'.le
    rw [div_le_iff₀ h1] at c1
    rw [lt_div_iff₀ h2'] at c2'
    have hm : m < 0 := by
      by_contra hm
      have hm : 0 ≤ m := not_lt.1 hm
      have hb : β < 0 ∨ 0 ≤ β := lt_or_ge β 0
      rcases hb with hb | hb <;> nlinarith
    have hb : β < 0 := by
      by_contra hb
      have hb : 0 ≤ β := not_lt.1 hb
      nlinarith
    have hs : 0 < m / β := div_pos_of_neg_of_neg hm hb
    have hm0 : m ≠ 0 := hm.ne
    have e : m / (m / β) = β := by field_simp
    have hs1 : a₁ ≤ m / β := by rw [le_div_iff_of_neg hb]; linarith
    have hs2 : m / β ≤ a₂ := by rw [div_le_iff_of_neg hb]; linarith
    have A := H1 m a₁ (m / β) h1 hs1 c1o (by show m / (m / β) ≤ β; rw [e])
    have B := H2 m (m / β) a₂ hs hs2 (by show β ≤ m / (m / β); rw [e]) c2o
    rw [e] at A B
    rw [hβ] at A
    simp only [c1o, c2, if_true, if_false]
    constructor <;> nlinarith [A.1, A.2, B.1, B.2]
  · -- x₂ ≤ β < x₁ : m > 0, β > 0
    have c1' : β < m / a₁ := not_le.1 c1
    have c1o : β ≤ m / a₁ := c1'.le
    have c2o : m / a₂ ≤ β := c2
    rw [lt_div_iff₀ h1] at c1'
    rw [div_le_iff₀ h2'] at c2
    have hm : 0 < m := by
      by_contra hm
      have hm : m ≤ 0 := not_lt.1 hm
      have hb : β < 0 ∨ 0 ≤ β := lt_or_ge β 0
      rcases hb with hb | hb <;> nlinarith
    have hb : 0 < β := by
      by_contra hb
      have hb : β ≤ 0 := not_lt.1 hb
      nlinarith
    have hs : 0 < m / β := div_pos hm hb
    have hm0 : m ≠ 0 := hm.ne'
    have e : m / (m / β) = β := by field_simp
    have hs1 : a₁ ≤ m / β := by rw [le_div_iff₀ hb]; linarith
    have hs2 : m / β ≤ a₂ := by rw [div_le_iff₀ hb]; linarith
    have A := H2 m a₁ (m / β) h1 hs1 c1o (by show β ≤ m / (m / β); rw [e])
    have B := H1 m (m / β) a₂ hs hs2 (by show m / (m / β) ≤ β; rw [e]) c2o
    rw [e] at A B
    rw [← hβ] at A
    simp only [c1, c2o, if_true, if_false]
    constructor <;> nlinarith [A.1, A.2, B.1, B.2]
  · simp only [c1, c2, if_false]
    exact H2 m a₁ a₂ h1 h2 (not_le.1 c1).le (not_le.1 c2).le

theorem hC_persp (Mn : ℝ) : ∀ (bs : List (ℝ × ℝ)) (v b : ℝ), SortedR b bs → GoodC b bs Mn → 0 < v →
    ∃ L, 0 ≤ L ∧ PerspMono (hC v b bs Mn) L (fun _ => True) := by
  intro bs
  induction bs with
  | nil =>
    intro v b _ hg hv
    simp only [GoodC] at hg
    refine ⟨v / (1 + Mn * px b), by positivity, ?_⟩
    have : hC v b [] Mn = fun x => v / (1 + Mn * px b) * (1 + Mn * x) := by
      funext x; simp only [hC]; ring
    rw [this]
    exact perspMono_linear _ _ (by positivity)
  | cons p rest ih =>
    obtain ⟨M, r⟩ := p
    intro v b hs hg hv
    obtain ⟨g1, g2, g3⟩ := hg
    have hv' : 0 < v * (1 + M * px r) / (1 + M * px b) := by positivity
    obtain ⟨L2, hL2, H2⟩ := ih _ r hs.2 g3 hv'
    have hk : 0 ≤ v / (1 + M * px b) := by positivity
    have H1 := perspMono_linear (v / (1 + M * px b)) M hk
    have : hC v b ((M, r) :: rest) Mn = fun x => if x ≤ px r then v / (1 + M * px b) * (1 + M * x)
        else hC (v * (1 + M * px r) / (1 + M * px b)) r rest Mn x := by
      funext x; simp only [hC]; congr 1; ring
    rw [this]
    refine ⟨max (v / (1 + M * px b)) L2, le_max_of_le_left hk, ?_⟩
    apply perspMono_glue (H1.mono (le_max_left _ _) (fun _ _ => trivial)) (H2.mono (le_max_right _ _) (fun _ _ => trivial))
    rw [hC_left rest _ r Mn hs.2 g3]; ring

theorem hD_persp (Minf M0 r1 : ℝ) (bs : List (ℝ × ℝ)) (Mn : ℝ) (hs : SortedR r1 bs) (hg : GoodD Minf M0 r1 bs Mn) :
    ∃ L, 0 ≤ L ∧ PerspMono (hD Minf M0 r1 bs Mn) L (fun _ => True) := by
  obtain ⟨g1, g2, g3, g4⟩ := hg
  obtain ⟨L2, hL2, H2⟩ := hC_persp Mn bs (1 + M0 * px r1) r1 hs g4 g3
  have hk : 0 ≤ (1 - M0) / (1 - Minf) := (div_pos (by linarith) (by linarith)).le
  have Hi := perspMono_linear ((1 - M0) / (1 - Minf)) Minf hk
  have H0 := perspMono_linear 1 M0 zero_le_one
  have e : hD Minf M0 r1 bs Mn = fun x => if x ≤ -1 then (1 - M0) / (1 - Minf) * (1 + Minf * x)
      else (fun x => if x ≤ px r1 then 1 * (1 + M0 * x) else hC (1 + M0 * px r1) r1 bs Mn x) x := by
    funext x; simp only [hD]; congr 1
    · ring
    · congr 1; ring
  rw [e]
  refine ⟨max ((1 - M0) / (1 - Minf)) (max 1 L2), le_max_of_le_left hk, ?_⟩
  apply perspMono_glue (Hi.mono (le_max_left _ _) (fun _ _ => trivial))
  · refine PerspMono.mono ?_ (le_max_right _ _) (fun _ _ => trivial)
    apply perspMono_glue (H0.mono (le_max_left _ _) (fun _ _ => trivial)) (H2.mono (le_max_right _ _) (fun _ _ => trivial))
    rw [hC_left bs _ r1 Mn hs g4]; ring
  · have : (-1 : ℝ) ≤ px r1 := (px_gt_m1 (sortedR_lt1 hs)).le
    simp only [this, if_true]
    have : (1 - Minf) ≠ 0 := by linarith
    field_simp
    ring

/-! ### The guard makes the potential positive at the cycle's own ray -/

theorem fold_fire_pos {h : ℝ → ℝ} (goalOf : Seg ℝ → ExtR ℝ) : ∀ (l : List (Seg ℝ)) (c : Cyc ℝ),
    FoldGuard goalOf l c →
    (∀ s ∈ l, ∃ k, 0 < k ∧ ∀ R, memSeg R s → R.isOne = false → h (pos R) = k * (1 + s.M * pos R)) →
    (l.foldl (fun c s => step s (goalOf s) c) c = c ∧ ∀ s ∈ l, ¬ memSeg (push c.R (goalOf s)) s) ∨ 0 < h (pos c.R) := by
  intro l
  induction l with
  | nil => intro c _ _; exact Or.inl ⟨rfl, fun s hs => absurd hs (by simp)⟩
  | cons t ts ih =>
    intro c hG hp
    by_cases hf : memSeg (push c.R (goalOf t)) t
    · right
      obtain ⟨hR, _, h1, _⟩ := hG.1 hf
      obtain ⟨k, hk, hform⟩ := hp t List.mem_cons_self
      have := hform _ hf (by rw [isOne_push]; exact isOne_false_of_guard hR)
      rw [pos_push] at this
      rw [this]; exact mul_pos hk h1
    · have hst : step t (goalOf t) c = c := by
        unfold memSeg at hf; unfold step; simp only [hf]; rfl
      have hG2 := hG.2
      rw [hst] at hG2
      rcases ih c hG2 (fun s hs => hp s (List.mem_cons_of_mem _ hs)) with ⟨e, hn⟩ | hpos
      · left
        refine ⟨by rw [List.foldl_cons, hst]; exact e, fun s hs => ?_⟩
        rcases List.mem_cons.1 hs with rfl | hs
        · exact hf
        · exact hn s hs
      · exact Or.inr hpos

/-- If the last phase of the run fires, the guard makes the potential positive at the cycle's own ray. -/
theorem guard_cycle_pos {h : ℝ → ℝ} {D : List (Seg ℝ)} {g : ExtR ℝ} {c : Cyc ℝ} (hc : CompatPos h D g)
    (hG : TransformGuard D g c) (hf : ∃ s ∈ segsContaining D g, memSeg (push (afterRight D g c).R g) s) :
    0 < h (pos c.R) := by
  have hp : ∀ s ∈ D, ∃ k, 0 < k ∧ ∀ R, memSeg R s → R.isOne = false → h (pos R) = k * (1 + s.M * pos R) := by
    intro s hs; obtain ⟨k, hk, h1, _⟩ := hc s hs; exact ⟨k, hk, h1⟩
  rcases fold_fire_pos leftBoundary _ c hG.1 (fun s hs => hp s (mem_segsLeft hs)) with ⟨e1, _⟩ | h1
  · have eL : afterLeft D g c = c := e1
    have hG2 := hG.2.1
    rw [eL] at hG2
    rcases fold_fire_pos (fun s => s.lo) _ c hG2 (fun s hs => hp s (mem_segsRight hs)) with ⟨e2, _⟩ | h2
    · have eR : afterRight D g c = c := by unfold afterRight; rw [eL]; exact e2
      have hG3 := hG.2.2
      rw [eR] at hG3 hf
      rcases fold_fire_pos (fun _ => g) _ c hG3 (fun s hs => hp s (mem_segsContaining_D hs)) with ⟨_, hn⟩ | h3
      · obtain ⟨s, hs, hm⟩ := hf
        exact absurd hm (hn s hs)
      · exact h3
    · exact h2
  · exact h1

/-! ### The listing order of the segments does not matter -/

theorem ExtR.lt_trans' {a b c : ExtR ℝ} (h1 : ExtR.lt a b = true) (h2 : ExtR.lt b c = true) : ExtR.lt a c = true := by
  cases a <;> cases b <;> cases c <;> simp_all [ExtR.lt]
  exact lt_trans h1 h2

theorem ExtR.lt_asymm' {a b : ExtR ℝ} (h1 : ExtR.lt a b = true) (h2 : ExtR.lt b a = true) : False := by
  cases a <;> cases b <;> simp_all [ExtR.lt]
  exact lt_asymm h1 h2

/-- Strictly smaller sort key. -/
def KR (s t : Seg ℝ) : Prop := ExtR.lt (segKey s) (segKey t) = true

theorem insertAsc_perm (x : Seg ℝ) (l : List (Seg ℝ)) : (insertAsc x l).Perm (x :: l) := by
  induction l with
  | nil => exact List.Perm.refl _
  | cons y ys ih =>
    simp only [insertAsc]
    split
    · exact ((List.Perm.cons y ih).trans (List.Perm.swap x y ys))
    · exact List.Perm.refl _

theorem insertDesc_perm (x : Seg ℝ) (l : List (Seg ℝ)) : (insertDesc x l).Perm (x :: l) := by
  induction l with
  | nil => exact List.Perm.refl _
  | cons y ys ih =>
    simp only [insertDesc]
    split
    · exact ((List.Perm.cons y ih).trans (List.Perm.swap x y ys))
    · exact List.Perm.refl _

theorem sortAsc_perm (l : List (Seg ℝ)) : (l.foldr insertAsc []).Perm l := by
  induction l with
  | nil => exact List.Perm.refl _
  | cons x xs ih => exact (insertAsc_perm x _).trans (List.Perm.cons x ih)

theorem sortDesc_perm (l : List (Seg ℝ)) : (l.foldr insertDesc []).Perm l := by
  induction l with
  | nil => exact List.Perm.refl _
  | cons x xs ih => exact (insertDesc_perm x _).trans (List.Perm.cons x ih)

theorem insertAsc_pairwise (x : Seg ℝ) (l : List (Seg ℝ)) (hl : l.Pairwise KR) (ht : ∀ y ∈ l, KR x y ∨ KR y x) :
    (insertAsc x l).Pairwise KR := by
  induction l with
  | nil => simp [insertAsc]
  | cons y ys ih =>
    rw [List.pairwise_cons] at hl
    simp only [insertAsc]
    split
    · rename_i hyx
      rw [List.pairwise_cons]
      refine ⟨fun z hz => ?_, ih hl.2 (fun z hz => ht z (List.mem_cons_of_mem _ hz))⟩
      rcases mem_insertAsc hz with rfl | hz
      · exact hyx
      · exact hl.1 z hz
    · rename_i hyx
      have hxy : KR x y := by
        rcases ht y List.mem_cons_self with h | h
        · exact h
        · exact absurd h hyx
      rw [List.pairwise_cons]
      refine ⟨fun z hz => ?_, List.pairwise_cons.2 hl⟩
      rcases List.mem_cons.1 hz with rfl | hz
      · exact hxy
      · exact ExtR.lt_trans' hxy (hl.1 z hz)

theorem insertDesc_pairwise (x : Seg ℝ) (l : List (Seg ℝ)) (hl : l.Pairwise (fun s t => KR t s))
    (ht : ∀ y ∈ l, KR x y ∨ KR y x) : (insertDesc x l).Pairwise (fun s t => KR t s) := by
  induction l with
  | nil => simp [insertDesc]
  | cons y ys ih =>
    rw [List.pairwise_cons] at hl
    simp only [insertDesc]
    split
    · rename_i hxy
      rw [List.pairwise_cons]
      refine ⟨fun z hz => ?_, ih hl.2 (fun z hz => ht z (List.mem_cons_of_mem _ hz))⟩
      rcases mem_insertDesc hz with rfl | hz
      · exact hxy
      · exact hl.1 z hz
    · rename_i hxy
      have hyx : KR y x := by
        rcases ht y List.mem_cons_self with h | h
        · exact absurd h hxy
        · exact h
      rw [List.pairwise_cons]
      refine ⟨fun z hz => ?_, List.pairwise_cons.2 hl⟩
      rcases List.mem_cons.1 hz with rfl | hz
      · exact hyx
      · exact ExtR.lt_trans' (hl.1 z hz) hyx

theorem sortAsc_pairwise (l : List (Seg ℝ)) (ht : l.Pairwise fun s t => KR s t ∨ KR t s) :
    (l.foldr insertAsc []).Pairwise KR := by
  induction l with
  | nil => simp
  | cons x xs ih =>
    rw [List.pairwise_cons] at ht
    exact insertAsc_pairwise x _ (ih ht.2) (fun y hy => ht.1 y ((sortAsc_perm xs).subset hy))

theorem sortDesc_pairwise (l : List (Seg ℝ)) (ht : l.Pairwise fun s t => KR s t ∨ KR t s) :
    (l.foldr insertDesc []).Pairwise (fun s t => KR t s) := by
  induction l with
  | nil => simp
  | cons x xs ih =>
    rw [List.pairwise_cons] at ht
    exact insertDesc_pairwise x _ (ih ht.2) (fun y hy => ht.1 y ((sortDesc_perm xs).subset hy))

/-- Sorting a permutation of a strictly sorted list gives the sorted list. -/
theorem sortAsc_of_perm {l l' : List (Seg ℝ)} (hp : l'.Perm l) (hl : l.Pairwise KR) : l'.foldr insertAsc [] = l := by
  have ht : l'.Pairwise fun s t => KR s t ∨ KR t s :=
    (hl.imp (fun h => Or.inl h)).perm hp.symm (fun h => h.symm)
  exact List.Perm.eq_of_pairwise (fun a b _ _ h1 h2 => (ExtR.lt_asymm' h1 h2).elim) (sortAsc_pairwise l' ht) hl
    ((sortAsc_perm l').trans hp)

theorem sortDesc_of_perm {l l' : List (Seg ℝ)} (hp : l'.Perm l) (hl : l.Pairwise KR) :
    l'.foldr insertDesc [] = l.reverse := by
  have ht : l'.Pairwise fun s t => KR s t ∨ KR t s :=
    (hl.imp (fun h => Or.inl h)).perm hp.symm (fun h => h.symm)
  exact List.Perm.eq_of_pairwise (fun a b _ _ h1 h2 => (ExtR.lt_asymm' h2 h1).elim) (sortDesc_pairwise l' ht)
    (List.pairwise_reverse.2 hl) (((sortDesc_perm l').trans hp).trans (List.reverse_perm l).symm)

theorem chain_filter_le_one (Mn : ℝ) (p : Seg ℝ → Bool)
    (excl : ∀ s t : Seg ℝ, ∀ c a, s.hi = fin c → t.lo = fin a → c ≤ a → p s = true → p t = false) :
    ∀ (bs : List (ℝ × ℝ)) (b : ℝ), SortedR b bs → ((chainR b bs Mn).filter p).length ≤ 1 := by
  intro bs
  induction bs with
  | nil => intro b _; simp only [chainR]; exact le_trans (List.length_filter_le _ _) (by simp)
  | cons q rest ih =>
    obtain ⟨M, r⟩ := q
    intro b hs
    simp only [chainR, List.filter_cons]
    split
    · rename_i hp
      have : (chainR r rest Mn).filter p = [] := by
        rw [List.filter_eq_nil_iff]
        intro t ht
        obtain ⟨a, c, e1, _, e3, _⟩ := mem_chainR hs.2 ht
        rw [excl ⟨fin b, fin r, M⟩ t r a rfl e1 e3 hp]
        simp
      rw [this]; simp
    · exact ih r hs.2

section Perm
variable (Minf M0 r1 : ℝ) (bs : List (ℝ × ℝ)) (Mn : ℝ)

theorem diagram_filter_le_one (hs : SortedR r1 bs) (p : Seg ℝ → Bool)
    (excl : ∀ s t : Seg ℝ, ∀ c a, s.hi = fin c → t.lo = fin a → c ≤ a → p s = true → p t = false)
    (e2 : p (Sinf Minf) = true → p (S0 M0 r1) = false ∧ ∀ t ∈ chainR r1 bs Mn, p t = false)
    (e3 : p (S0 M0 r1) = true → ∀ t ∈ chainR r1 bs Mn, p t = false) :
    ((diagram Minf M0 r1 bs Mn).filter p).length ≤ 1 := by
  rw [filter_diagram]
  have hc := chain_filter_le_one Mn p excl bs r1 hs
  have nil_of : (∀ t ∈ chainR r1 bs Mn, p t = false) → (chainR r1 bs Mn).filter p = [] := by
    intro h; rw [List.filter_eq_nil_iff]; intro t ht; rw [h t ht]; simp
  by_cases h1 : p (Sinf Minf) = true
  · obtain ⟨a, b⟩ := e2 h1
    simp [h1, a, nil_of b]
  · by_cases h2 : p (S0 M0 r1) = true
    · simp [h1, h2, nil_of (e3 h2)]
    · simpa [h1, h2] using hc

theorem segsContaining_perm (hs : SortedR r1 bs) {D' : List (Seg ℝ)} (hp : D'.Perm (diagram Minf M0 r1 bs Mn))
    {g : ExtR ℝ} (hg : ValidR g) : segsContaining D' g = segsContaining (diagram Minf M0 r1 bs Mn) g := by
  have hr1 := sortedR_lt1 hs
  have eq_of : ∀ (p : Seg ℝ → Bool), ((diagram Minf M0 r1 bs Mn).filter p).length ≤ 1 →
      D'.filter p = (diagram Minf M0 r1 bs Mn).filter p := by
    intro p hl
    have hpf := hp.filter p
    have hlen := hpf.length_eq
    match hd : (diagram Minf M0 r1 bs Mn).filter p with
    | [] => rw [hd] at hpf; exact List.Perm.eq_nil hpf
    | [x] => rw [hd] at hpf; exact List.perm_singleton.1 hpf
    | x :: y :: zs => rw [hd] at hl; simp at hl
  have chain_lo : ∀ t ∈ chainR r1 bs Mn, ∃ a c, t.lo = fin a ∧ t.hi = fin c ∧ r1 ≤ a ∧ a < c ∧ c ≤ 1 :=
    fun t ht => mem_chainR hs ht
  have l1 : ((diagram Minf M0 r1 bs Mn).filter fun s => ExtR.lt s.lo g && ExtR.le g s.hi).length ≤ 1 := by
    apply diagram_filter_le_one Minf M0 r1 bs Mn hs
    · intro s t c a h1 h2 hca hps
      rcases g with q | _ | _ | _
      · rw [h1] at hps; rw [h2]
        simp only [ExtR.lt, ExtR.le, Bool.and_eq_true, decide_eq_true_eq] at hps
        have : ¬ a < q := by linarith [hps.2]
        simp [ExtR.lt, this]
      · exact absurd hg (by simp [ValidR])
      · rw [h2]; simp [ExtR.lt]
      · exact absurd hg (by simp [ValidR])
    · intro h
      rcases g with q | _ | _ | _
      · simp only [Sinf, ExtR.lt, ExtR.le, Bool.and_true, decide_eq_true_eq] at h
        refine ⟨by simp [S0, ExtR.lt, ExtR.le]; linarith, fun t ht => ?_⟩
        obtain ⟨a, c, e1, e2, e3, e4, e5⟩ := chain_lo t ht
        rw [e1, e2]
        have : ¬ q ≤ c := by linarith
        simp [ExtR.le, this]
      · exact absurd hg (by simp [ValidR])
      · simp [Sinf, ExtR.lt] at h
      · exact absurd hg (by simp [ValidR])
    · intro h t ht
      obtain ⟨a, c, e1, e2, e3, e4, e5⟩ := chain_lo t ht
      rcases g with q | _ | _ | _
      · simp only [S0, ExtR.lt, ExtR.le, Bool.true_and, decide_eq_true_eq] at h
        rw [e1, e2]
        have : ¬ a < q := by linarith
        simp [ExtR.lt, this]
      · exact absurd hg (by simp [ValidR])
      · simp [S0, ExtR.lt] at h
      · exact absurd hg (by simp [ValidR])
  have l2 : ((diagram Minf M0 r1 bs Mn).filter fun s => ExtR.le s.lo g && ExtR.lt g s.hi).length ≤ 1 := by
    apply diagram_filter_le_one Minf M0 r1 bs Mn hs
    · intro s t c a h1 h2 hca hps
      rcases g with q | _ | _ | _
      · rw [h1] at hps; rw [h2]
        simp only [ExtR.lt, ExtR.le, Bool.and_eq_true, decide_eq_true_eq] at hps
        have : ¬ a ≤ q := by linarith [hps.2]
        simp [ExtR.le, this]
      · exact absurd hg (by simp [ValidR])
      · rw [h2]; simp [ExtR.le]
      · exact absurd hg (by simp [ValidR])
    · intro h
      rcases g with q | _ | _ | _
      · simp only [Sinf, ExtR.lt, ExtR.le, Bool.and_true, decide_eq_true_eq] at h
        refine ⟨by simp [S0, ExtR.lt, ExtR.le]; linarith, fun t ht => ?_⟩
        obtain ⟨a, c, e1, e2, e3, e4, e5⟩ := chain_lo t ht
        rw [e1, e2]
        have : ¬ q < c := by linarith
        simp [ExtR.lt, this]
      · exact absurd hg (by simp [ValidR])
      · simp [Sinf, ExtR.le] at h
      · exact absurd hg (by simp [ValidR])
    · intro h t ht
      obtain ⟨a, c, e1, e2, e3, e4, e5⟩ := chain_lo t ht
      rcases g with q | _ | _ | _
      · simp only [S0, ExtR.lt, ExtR.le, Bool.true_and, decide_eq_true_eq] at h
        rw [e1, e2]
        have : ¬ a ≤ q := by linarith
        simp [ExtR.le, this]
      · exact absurd hg (by simp [ValidR])
      · rw [e1]; simp [ExtR.le]
      · exact absurd hg (by simp [ValidR])
  unfold segsContaining
  simp only
  rw [eq_of _ l1, eq_of _ l2]

theorem segsLeft_perm (hs : SortedR r1 bs) {D' : List (Seg ℝ)} (hp : D'.Perm (diagram Minf M0 r1 bs Mn))
    (g : ExtR ℝ) : segsLeft D' g = segsLeft (diagram Minf M0 r1 bs Mn) g := by
  rw [segsLeft_diagram Minf M0 r1 Mn hs]
  unfold segsLeft
  exact sortAsc_of_perm (hp.filter _) (((diagram_pairwise Minf M0 r1 Mn hs).imp (fun h => h.2)).filter _)

theorem segsRight_perm (hs : SortedR r1 bs) {D' : List (Seg ℝ)} (hp : D'.Perm (diagram Minf M0 r1 bs Mn))
    (g : ExtR ℝ) : segsRight D' g = segsRight (diagram Minf M0 r1 bs Mn) g := by
  rw [segsRight_diagram Minf M0 r1 Mn hs]
  unfold segsRight
  exact sortDesc_of_perm (hp.filter _) (((diagram_pairwise Minf M0 r1 Mn hs).imp (fun h => h.2)).filter _)

/-- `HaighDiagram.transform` does not depend on the order in which the segments are listed. -/
theorem transform_perm (hs : SortedR r1 bs) {D' : List (Seg ℝ)} (hp : D'.Perm (diagram Minf M0 r1 bs Mn))
    {g : ExtR ℝ} (hg : ValidR g) (c : Cyc ℝ) : transform D' g c = transform (diagram Minf M0 r1 bs Mn) g c := by
  unfold transform
  rw [segsLeft_perm Minf M0 r1 bs Mn hs hp, segsRight_perm Minf M0 r1 bs Mn hs hp,
    segsContaining_perm Minf M0 r1 bs Mn hs hp hg]

theorem transformGuard_perm (hs : SortedR r1 bs) {D' : List (Seg ℝ)} (hp : D'.Perm (diagram Minf M0 r1 bs Mn))
    {g : ExtR ℝ} (hg : ValidR g) (c : Cyc ℝ) :
    TransformGuard D' g c ↔ TransformGuard (diagram Minf M0 r1 bs Mn) g c := by
  unfold TransformGuard afterRight afterLeft
  rw [segsLeft_perm Minf M0 r1 bs Mn hs hp, segsRight_perm Minf M0 r1 bs Mn hs hp,
    segsContaining_perm Minf M0 r1 bs Mn hs hp hg]

end Perm

/-! ### The potential is continuous -/

theorem hC_continuous (Mn : ℝ) : ∀ (bs : List (ℝ × ℝ)) (v b : ℝ), SortedR b bs → GoodC b bs Mn →
    Continuous (hC v b bs Mn) := by
  intro bs
  induction bs with
  | nil =>
    intro v b _ _
    have : hC v b [] Mn = fun x => v * (1 + Mn * x) / (1 + Mn * px b) := by funext x; rfl
    rw [this]; fun_prop
  | cons p rest ih =>
    obtain ⟨M, r⟩ := p
    intro v b hs hg
    have : hC v b ((M, r) :: rest) Mn = fun x => if x ≤ px r then v * (1 + M * x) / (1 + M * px b)
        else hC (v * (1 + M * px r) / (1 + M * px b)) r rest Mn x := by funext x; rfl
    rw [this]
    refine Continuous.if_le (by fun_prop) (ih _ r hs.2 hg.2.2) continuous_id continuous_const ?_
    intro x hx
    rw [hx, hC_left rest _ r Mn hs.2 hg.2.2]

theorem hD_continuous (Minf M0 r1 : ℝ) (bs : List (ℝ × ℝ)) (Mn : ℝ) (hs : SortedR r1 bs) (hg : GoodD Minf M0 r1 bs Mn) :
    Continuous (hD Minf M0 r1 bs Mn) := by
  obtain ⟨g1, g2, g3, g4⟩ := hg
  have : hD Minf M0 r1 bs Mn = fun x => if x ≤ -1 then (1 - M0) * (1 + Minf * x) / (1 - Minf)
      else (fun x => if x ≤ px r1 then 1 + M0 * x else hC (1 + M0 * px r1) r1 bs Mn x) x := by funext x; rfl
  rw [this]
  refine Continuous.if_le (by fun_prop) ?_ continuous_id continuous_const ?_
  · refine Continuous.if_le (by fun_prop) (hC_continuous Mn bs _ r1 hs g4) continuous_id continuous_const ?_
    intro x hx
    rw [hx, hC_left bs _ r1 Mn hs g4]
  · intro x hx
    have h1 : (-1 : ℝ) ≤ px r1 := (px_gt_m1 (sortedR_lt1 hs)).le
    have : (1 - Minf) ≠ 0 := by linarith
    simp only [hx, h1, if_true]
    field_simp
    ring

end PylifeVerif.Meanstress
