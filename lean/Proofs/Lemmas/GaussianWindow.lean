/-
Property C15: the integral that `pf_norm_load` really evaluates is taken over a finite WINDOW of the standardised load
variable (`t ∈ [-16, 16]` by default) and, when the strength median lies below the load median, through the
complementary probability `Φ(u) − Φ(l) − ∫ pdf · sf`.  This file: density ↔ distribution function of Mathlib's
`gaussianReal 0 1`, the complement identity, the truncation error of a window, an explicit Gaussian tail bound.
-/
import Proofs.Lemmas.GaussianDensity
import Mathlib.Probability.Moments.Basic
import Mathlib.Analysis.Complex.ExponentialBounds

namespace PylifeVerif.GaussianOverlap

open MeasureTheory ProbabilityTheory

private lemma normPdf_scale {ls : ℝ} (hls : 0 < ls) (t : ℝ) : normPdf 1 t = ls * normPdf ls (ls * t) := by
  unfold normPdf
  have h2 : Real.sqrt (2 * Real.pi) ≠ 0 := (Real.sqrt_pos.mpr (by positivity)).ne'
  have e : -((ls * t) ^ 2) / (2 * ls ^ 2) = -(t ^ 2) / (2 * 1 ^ 2) := by
    field_simp
  rw [e]
  field_simp

private lemma normPdf_nonneg (σ : ℝ) (hσ : 0 ≤ σ) (x : ℝ) : 0 ≤ normPdf σ x := by
  unfold normPdf; positivity

private lemma integrable_normPdf_one : Integrable (normPdf 1) := by
  have h : normPdf 1 = gaussianPDFReal 0 1 := funext normPdf_one_eq
  rw [h]; exact integrable_gaussianPDFReal 0 1

private lemma integral_normPdf_one_univ : ∫ t, normPdf 1 t = 1 := by
  simp_rw [normPdf_one_eq]
  exact integral_gaussianPDFReal_eq_one 0 one_ne_zero

private lemma continuous_integrand (Δ ss ls : ℝ) :
    Continuous fun t : ℝ => normPdf 1 t * stdNormalCdf ((ls * t - Δ) / ss) :=
  (continuous_normPdf 1).mul (stdNormalCdf_continuous.comp (by fun_prop))

private lemma integrable_integrand (Δ ss ls : ℝ) :
    Integrable fun t : ℝ => normPdf 1 t * stdNormalCdf ((ls * t - Δ) / ss) := by
  refine Integrable.mono' integrable_normPdf_one
    (continuous_integrand Δ ss ls).aestronglyMeasurable (ae_of_all _ fun t => ?_)
  rw [Real.norm_eq_abs, abs_of_nonneg (mul_nonneg (normPdf_nonneg 1 zero_le_one t) (stdNormalCdf_nonneg _))]
  exact mul_le_of_le_one_right (normPdf_nonneg 1 zero_le_one t) (stdNormalCdf_le_one _)

/-- whole-line overlap integral in the standardised load variable `t = x / ls` -/
theorem gaussian_overlap_standardised (Δ ss ls : ℝ) (hss : 0 < ss) (hls : 0 < ls) :
    ∫ t, normPdf 1 t * stdNormalCdf ((ls * t - Δ) / ss) = stdNormalCdf (-Δ / Real.sqrt (ls ^ 2 + ss ^ 2)) := by
  have hσ : ∫ x, normPdf ls x * stdNormalCdf ((x - Δ) / ss)
      = stdNormalCdf (-Δ / Real.sqrt (ls ^ 2 + ss ^ 2)) := gaussian_overlap_sigma Δ ls ss hls hss
  rw [← hσ]
  have h := MeasureTheory.Measure.integral_comp_mul_left
    (fun x => normPdf ls x * stdNormalCdf ((x - Δ) / ss)) ls
  simp only [smul_eq_mul, abs_inv, abs_of_pos hls] at h
  have h' : ∫ t, normPdf 1 t * stdNormalCdf ((ls * t - Δ) / ss)
      = ls * ∫ t, normPdf ls (ls * t) * stdNormalCdf ((ls * t - Δ) / ss) := by
    rw [← MeasureTheory.integral_const_mul]
    congr 1
    funext t
    rw [normPdf_scale hls t]
    ring
  rw [h', h]
  field_simp

example : ∫ t, normPdf 1 t * stdNormalCdf ((0.1 * t - 0.1) / 0.05)
    = stdNormalCdf (-0.1 / Real.sqrt (0.1 ^ 2 + 0.05 ^ 2)) :=
  gaussian_overlap_standardised 0.1 0.05 0.1 (by norm_num) (by norm_num)

/-- the branch `loc < 0` of `pf_norm_load`: window mass minus the integral over the survival function is the integral
over the distribution function (no hypothesis on the parameters; `g` = any measurable argument map) -/
theorem window_sf_identity (Δ ss ls l u : ℝ) :
    (stdNormalCdf u - stdNormalCdf l) - ∫ t in l..u, normPdf 1 t * (1 - stdNormalCdf ((ls * t - Δ) / ss))
      = ∫ t in l..u, normPdf 1 t * stdNormalCdf ((ls * t - Δ) / ss) := by
  have h1 : IntervalIntegrable (normPdf 1) volume l u := (continuous_normPdf 1).intervalIntegrable _ _
  have h2 : IntervalIntegrable (fun t : ℝ => normPdf 1 t * stdNormalCdf ((ls * t - Δ) / ss)) volume l u :=
    (continuous_integrand Δ ss ls).intervalIntegrable _ _
  have e : ∫ t in l..u, normPdf 1 t * (1 - stdNormalCdf ((ls * t - Δ) / ss))
      = (∫ t in l..u, normPdf 1 t) - ∫ t in l..u, normPdf 1 t * stdNormalCdf ((ls * t - Δ) / ss) := by
    rw [← intervalIntegral.integral_sub h1 h2]
    congr 1
    funext t
    ring
  rw [e, integral_normPdf_one]
  ring

example : (stdNormalCdf 16 - stdNormalCdf (-16))
      - ∫ t in (-16:ℝ)..16, normPdf 1 t * (1 - stdNormalCdf ((0.1 * t - (-0.1)) / 0.05))
    = ∫ t in (-16:ℝ)..16, normPdf 1 t * stdNormalCdf ((0.1 * t - (-0.1)) / 0.05) :=
  window_sf_identity (-0.1) 0.05 0.1 (-16) 16

/-- truncation of the overlap integral to the window `[l, u]` of the standardised load variable: the window integral is
below the whole-line value by at most the load's probability mass outside the window -/
theorem window_truncation (Δ ss ls l u : ℝ) (hss : 0 < ss) (hls : 0 < ls) (hlu : l ≤ u) :
    0 ≤ stdNormalCdf (-Δ / Real.sqrt (ls ^ 2 + ss ^ 2))
          - ∫ t in l..u, normPdf 1 t * stdNormalCdf ((ls * t - Δ) / ss) ∧
    stdNormalCdf (-Δ / Real.sqrt (ls ^ 2 + ss ^ 2))
          - ∫ t in l..u, normPdf 1 t * stdNormalCdf ((ls * t - Δ) / ss) ≤ stdNormalCdf l + stdNormalCdf (-u) := by
  have hf := integrable_integrand Δ ss ls
  have hg := integrable_normPdf_one
  have hsplit := integral_add_compl (measurableSet_Ioc (a := l) (b := u)) hf
  have hsplit1 := integral_add_compl (measurableSet_Ioc (a := l) (b := u)) hg
  rw [gaussian_overlap_standardised Δ ss ls hss hls, ← intervalIntegral.integral_of_le hlu] at hsplit
  rw [integral_normPdf_one_univ, ← intervalIntegral.integral_of_le hlu, integral_normPdf_one] at hsplit1
  have hnonneg : 0 ≤ ∫ t in (Set.Ioc l u)ᶜ, normPdf 1 t * stdNormalCdf ((ls * t - Δ) / ss) :=
    setIntegral_nonneg measurableSet_Ioc.compl fun t _ =>
      mul_nonneg (normPdf_nonneg 1 zero_le_one t) (stdNormalCdf_nonneg _)
  have hle : ∫ t in (Set.Ioc l u)ᶜ, normPdf 1 t * stdNormalCdf ((ls * t - Δ) / ss)
      ≤ ∫ t in (Set.Ioc l u)ᶜ, normPdf 1 t :=
    setIntegral_mono hf.integrableOn hg.integrableOn fun t =>
      mul_le_of_le_one_right (normPdf_nonneg 1 zero_le_one t) (stdNormalCdf_le_one _)
  rw [stdNormalCdf_neg]
  constructor <;> linarith

example := window_truncation 0.1 0.05 0.1 (-16) 16 (by norm_num) (by norm_num) (by norm_num)

/-- the same for the unstandardised variable `x = ls · t` (window `[a, b]` in log10 load units relative to the load median) -/
theorem window_truncation_unstd (Δ ss ls a b : ℝ) (hss : 0 < ss) (hls : 0 < ls) (hab : a ≤ b) :
    0 ≤ stdNormalCdf (-Δ / Real.sqrt (ls ^ 2 + ss ^ 2))
          - ∫ x in a..b, normPdf ls x * stdNormalCdf ((x - Δ) / ss) ∧
    stdNormalCdf (-Δ / Real.sqrt (ls ^ 2 + ss ^ 2))
          - ∫ x in a..b, normPdf ls x * stdNormalCdf ((x - Δ) / ss) ≤ stdNormalCdf (a / ls) + stdNormalCdf (-(b / ls)) := by
  have h := window_truncation Δ ss ls (a / ls) (b / ls) hss hls (div_le_div_of_nonneg_right hab hls.le)
  have e : ∫ t in (a / ls)..(b / ls), normPdf 1 t * stdNormalCdf ((ls * t - Δ) / ss)
      = ∫ x in a..b, normPdf ls x * stdNormalCdf ((x - Δ) / ss) := by
    have h1 := intervalIntegral.smul_integral_comp_mul_left (a := a / ls) (b := b / ls)
      (fun x => normPdf ls x * stdNormalCdf ((x - Δ) / ss)) ls
    rw [smul_eq_mul, mul_div_cancel₀ a hls.ne', mul_div_cancel₀ b hls.ne'] at h1
    rw [← h1, ← intervalIntegral.integral_const_mul]
    congr 1
    funext t
    rw [normPdf_scale hls t]
    ring
  rw [e] at h
  exact h

example := window_truncation_unstd 0.1 0.05 0.1 (-1.6) 1.6 (by norm_num) (by norm_num) (by norm_num)

/-- Chernoff bound for the Gaussian tail -/
theorem stdNormalCdf_neg_le_exp {x : ℝ} (hx : 0 ≤ x) : stdNormalCdf (-x) ≤ Real.exp (-(x ^ 2) / 2) := by
  have h := measure_le_le_exp_mul_mgf (X := id) (μ := gaussianReal 0 1) (t := -x) (-x) (by linarith)
    (integrable_exp_mul_gaussianReal (-x))
  rw [mgf_id_gaussianReal, ← Real.exp_add] at h
  have e : -(-x) * (-x) + (0 * (-x) + ((1 : NNReal) : ℝ) * (-x) ^ 2 / 2) = -(x ^ 2) / 2 := by
    simp only [NNReal.coe_one]; ring
  rw [e] at h
  exact h

example : stdNormalCdf (-3) ≤ Real.exp (-(3 ^ 2) / 2) := stdNormalCdf_neg_le_exp (by norm_num)

/-- the mass neglected by the default window on each side -/
theorem stdNormalCdf_neg16_lt : stdNormalCdf (-16) < 1e-55 := by
  have h := stdNormalCdf_neg_le_exp (x := 16) (by norm_num)
  have e : Real.exp (-((16:ℝ) ^ 2) / 2) = (Real.exp 1)⁻¹ ^ 128 := by
    rw [← Real.exp_neg, ← Real.exp_nat_mul]
    norm_num
  rw [e] at h
  have h1 : (Real.exp 1)⁻¹ < (2.7 : ℝ)⁻¹ := by
    have := Real.exp_one_gt_d9
    exact inv_strictAnti₀ (by norm_num) (by linarith)
  have h2 : (Real.exp 1)⁻¹ ^ 128 < ((2.7 : ℝ)⁻¹) ^ 128 :=
    pow_lt_pow_left₀ h1 (inv_nonneg.2 (Real.exp_pos 1).le) (by norm_num)
  have h3 : ((2.7 : ℝ)⁻¹) ^ 128 < 1e-55 := by norm_num
  linarith

end PylifeVerif.GaussianOverlap
