/-
Helper lemmas for C06 (Seeger-Beste), analysis part: the function `φ(u) = 2/u² · ln(1/cos u)` on `(0, π/2)`
(`φ ≥ 1`, `φ` non-decreasing, `φ → 1` at `0⁺`, `φ → +∞` at `(π/2)⁻`), the `u`-term as a function of the stress ratio
`f = σ/L`, and the right-hand side of eq. 2.8-42 in the form `K_p · e*(L) · H(σ/L)` with
`H(f) = φ(u(f))/f + f − 1` (strictly decreasing on `(1/K_p, 1)`, `→ 1` at `1⁻`, `→ +∞` at `(1/K_p)⁺`).
-/
import Proofs.Lemmas.NotchSB
import Mathlib.Analysis.Calculus.Deriv.MeanValue
import Mathlib.Analysis.SpecialFunctions.Log.Deriv
import Mathlib.Analysis.SpecialFunctions.Trigonometric.Deriv
import Mathlib.Analysis.SpecialFunctions.Trigonometric.ArctanDeriv
import Mathlib.Topology.Algebra.Order.Field

namespace PylifeVerif.Notch
open Filter Topology Set

/-! ### `ℓ(u) = ln(1/cos u) = −ln cos u` -/

/-- `ℓ(u) = −ln cos u` -/
noncomputable def lc (u : ℝ) : ℝ := -Real.log (Real.cos u)

theorem log_one_div_cos (u : ℝ) : Real.log (1 / Real.cos u) = lc u := by
  unfold lc; rw [one_div, Real.log_inv]

theorem lc_zero : lc 0 = 0 := by simp [lc]

theorem cos_pos_of_Ico {u : ℝ} (h0 : 0 ≤ u) (h1 : u < Real.pi / 2) : 0 < Real.cos u :=
  Real.cos_pos_of_mem_Ioo ⟨by linarith [Real.pi_pos], h1⟩

theorem lc_hasDerivAt {u : ℝ} (hc : Real.cos u ≠ 0) : HasDerivAt lc (Real.tan u) u := by
  have h := ((Real.hasDerivAt_cos u).log hc).neg
  have e : -(-Real.sin u / Real.cos u) = Real.tan u := by rw [Real.tan_eq_sin_div_cos]; ring
  rw [e] at h
  exact h

theorem hasDerivAt_sq_half (x : ℝ) : HasDerivAt (fun x : ℝ => x * x / 2) x x := by
  have h := ((hasDerivAt_id' x).mul (hasDerivAt_id' x)).div_const 2
  exact h.congr_deriv (by ring)

/-- `u²/2 ≤ −ln cos u` on `[0, π/2)` (the derivative of the difference is `tan u − u ≥ 0`). -/
theorem half_sq_le_lc {u : ℝ} (h0 : 0 ≤ u) (h1 : u < Real.pi / 2) : u * u / 2 ≤ lc u := by
  have hpi := Real.pi_pos
  have hd : ∀ x ∈ Ico (0 : ℝ) (Real.pi / 2),
      HasDerivAt (fun x => lc x - x * x / 2) (Real.tan x - x) x := fun x hx =>
    (lc_hasDerivAt (cos_pos_of_Ico hx.1 hx.2).ne').sub (hasDerivAt_sq_half x)
  have hmono : MonotoneOn (fun x => lc x - x * x / 2) (Ico 0 (Real.pi / 2)) := by
    apply monotoneOn_of_hasDerivWithinAt_nonneg (convex_Ico _ _) (f' := fun x => Real.tan x - x)
    · intro x hx
      exact (hd x hx).continuousAt.continuousWithinAt
    · intro x hx
      rw [interior_Ico] at hx
      exact (hd x ⟨hx.1.le, hx.2⟩).hasDerivWithinAt
    · intro x hx
      rw [interior_Ico] at hx
      linarith [Real.lt_tan hx.1 hx.2]
  have := hmono (left_mem_Ico.mpr (by positivity)) ⟨h0, h1⟩ h0
  simp only [lc_zero] at this
  linarith

/-- `2·(−ln cos u) ≤ u · tan u` on `[0, π/2)` (the derivative of the difference is `(u − sin u cos u)/cos² u ≥ 0`). -/
theorem two_lc_le_mul_tan {u : ℝ} (h0 : 0 ≤ u) (h1 : u < Real.pi / 2) : 2 * lc u ≤ u * Real.tan u := by
  have hpi := Real.pi_pos
  have hd : ∀ x ∈ Ico (0 : ℝ) (Real.pi / 2),
      HasDerivAt (fun x => x * Real.tan x - 2 * lc x)
        (1 * Real.tan x + x * (1 / Real.cos x ^ 2) - 2 * Real.tan x) x := fun x hx => by
    have hc := (cos_pos_of_Ico hx.1 hx.2).ne'
    exact ((hasDerivAt_id' x).mul (Real.hasDerivAt_tan hc)).sub ((lc_hasDerivAt hc).const_mul 2)
  have hmono : MonotoneOn (fun x => x * Real.tan x - 2 * lc x) (Ico 0 (Real.pi / 2)) := by
    apply monotoneOn_of_hasDerivWithinAt_nonneg (convex_Ico _ _)
      (f' := fun x => 1 * Real.tan x + x * (1 / Real.cos x ^ 2) - 2 * Real.tan x)
    · intro x hx
      exact (hd x hx).continuousAt.continuousWithinAt
    · intro x hx
      rw [interior_Ico] at hx
      exact (hd x ⟨hx.1.le, hx.2⟩).hasDerivWithinAt
    · intro x hx
      rw [interior_Ico] at hx
      have hc := cos_pos_of_Ico hx.1.le hx.2
      have hs : Real.sin x ≤ x := Real.sin_le hx.1.le
      have hs0 : 0 ≤ Real.sin x := (Real.sin_pos_of_pos_of_lt_pi hx.1 (by linarith [hx.2])).le
      have hc1 : Real.cos x ≤ 1 := Real.cos_le_one x
      have e : 1 * Real.tan x + x * (1 / Real.cos x ^ 2) - 2 * Real.tan x
          = (x - Real.sin x * Real.cos x) / Real.cos x ^ 2 := by
        rw [Real.tan_eq_sin_div_cos]; field_simp; ring
      rw [e]
      apply div_nonneg _ (by positivity)
      nlinarith
  have := hmono (left_mem_Ico.mpr (by positivity)) ⟨h0, h1⟩ h0
  simp only [lc_zero, Real.tan_zero] at this
  linarith

theorem lc_nonneg {u : ℝ} (h0 : 0 ≤ u) (h1 : u < Real.pi / 2) : 0 ≤ lc u :=
  le_trans (by positivity) (half_sq_le_lc h0 h1)

/-! ### `φ(u) = 2/u² · ln(1/cos u)` -/

/-- `φ(u) = 2/u² · ln(1/cos u)`, the transcendental part of the Seeger-Beste middle term -/
noncomputable def sbPhi (u : ℝ) : ℝ := 2 / (u * u) * Real.log (1 / Real.cos u)

theorem sbPhi_eq (u : ℝ) : sbPhi u = 2 / (u * u) * lc u := by
  unfold sbPhi; rw [log_one_div_cos]

/-- `1 ≤ φ(u)` on `(0, π/2)` -/
theorem one_le_sbPhi {u : ℝ} (h0 : 0 < u) (h1 : u < Real.pi / 2) : 1 ≤ sbPhi u := by
  rw [sbPhi_eq]
  have h := half_sq_le_lc h0.le h1
  have huu : 0 < u * u := mul_pos h0 h0
  calc (1 : ℝ) = 2 / (u * u) * (u * u / 2) := by field_simp
    _ ≤ 2 / (u * u) * lc u := mul_le_mul_of_nonneg_left h (by positivity)

/-- `φ(u) ≤ 1/cos u` on `(0, π/2)` (from `2ℓ ≤ u tan u` and `sin u ≤ u`) -/
theorem sbPhi_le_inv_cos {u : ℝ} (h0 : 0 < u) (h1 : u < Real.pi / 2) : sbPhi u ≤ 1 / Real.cos u := by
  rw [sbPhi_eq]
  have h := two_lc_le_mul_tan h0.le h1
  have hc := cos_pos_of_Ico h0.le h1
  have hs : Real.sin u ≤ u := Real.sin_le h0.le
  have huu : 0 < u * u := mul_pos h0 h0
  have h2 : u * Real.tan u ≤ u * u / Real.cos u := by
    rw [Real.tan_eq_sin_div_cos, mul_div_assoc']
    exact div_le_div_of_nonneg_right (mul_le_mul_of_nonneg_left hs h0.le) hc.le
  calc 2 / (u * u) * lc u = (2 * lc u) / (u * u) := by ring
    _ ≤ (u * u / Real.cos u) / (u * u) := div_le_div_of_nonneg_right (le_trans h h2) huu.le
    _ = 1 / Real.cos u := by field_simp

/-- **`lim_{u→0⁺} 2/u² · ln(1/cos u) = 1`** (squeeze `1 ≤ φ(u) ≤ 1/cos u`). -/
theorem sbPhi_tendsto_one : Tendsto sbPhi (𝓝[>] 0) (𝓝 1) := by
  have hpi : (0 : ℝ) < Real.pi / 2 := by positivity
  have hmem : Ioo (0 : ℝ) (Real.pi / 2) ∈ 𝓝[>] (0 : ℝ) := Ioo_mem_nhdsGT hpi
  have hup : Tendsto (fun u : ℝ => 1 / Real.cos u) (𝓝[>] 0) (𝓝 1) := by
    have : Tendsto (fun u : ℝ => 1 / Real.cos u) (𝓝 0) (𝓝 (1 / Real.cos 0)) :=
      (tendsto_const_nhds.div Real.continuous_cos.continuousAt (by simp))
    rw [Real.cos_zero, div_one] at this
    exact this.mono_left nhdsWithin_le_nhds
  refine tendsto_of_tendsto_of_tendsto_of_le_of_le' tendsto_const_nhds hup ?_ ?_
  · filter_upwards [hmem] with u hu using one_le_sbPhi hu.1 hu.2
  · filter_upwards [hmem] with u hu using sbPhi_le_inv_cos hu.1 hu.2

theorem sbPhi_hasDerivAt {x : ℝ} (hx : x ∈ Ioo (0 : ℝ) (Real.pi / 2)) :
    HasDerivAt sbPhi (2 / (x * x * x) * (x * Real.tan x - 2 * lc x)) x := by
  have hc := (cos_pos_of_Ico hx.1.le hx.2).ne'
  have hx0 : x ≠ 0 := hx.1.ne'
  have hxx : x * x ≠ 0 := mul_ne_zero hx0 hx0
  have h1 := ((hasDerivAt_const x (2 : ℝ)).div ((hasDerivAt_id' x).mul (hasDerivAt_id' x)) hxx).mul
    (lc_hasDerivAt hc)
  have hfun : sbPhi = fun y => 2 / (y * y) * lc y := by
    funext y; rw [sbPhi_eq]
  rw [hfun]
  refine h1.congr_deriv ?_
  simp only [Pi.mul_apply, Pi.div_apply]
  field_simp; ring

theorem sbPhi_continuousOn : ContinuousOn sbPhi (Ioo 0 (Real.pi / 2)) := fun _ hx =>
  (sbPhi_hasDerivAt hx).continuousAt.continuousWithinAt

/-- `φ` is non-decreasing on `(0, π/2)`: `φ'(u) = 2/u³ · (u tan u − 2ℓ(u)) ≥ 0`. -/
theorem sbPhi_monotoneOn : MonotoneOn sbPhi (Ioo 0 (Real.pi / 2)) := by
  apply monotoneOn_of_hasDerivWithinAt_nonneg (convex_Ioo _ _)
    (f' := fun x => 2 / (x * x * x) * (x * Real.tan x - 2 * lc x))
  · exact sbPhi_continuousOn
  · intro x hx
    rw [interior_Ioo] at hx
    exact (sbPhi_hasDerivAt hx).hasDerivWithinAt
  · intro x hx
    rw [interior_Ioo] at hx
    have hx0 := hx.1
    have := two_lc_le_mul_tan hx.1.le hx.2
    exact mul_nonneg (by positivity) (by linarith)

/-- `φ(u) → +∞` for `u → (π/2)⁻`. -/
theorem sbPhi_tendsto_atTop : Tendsto sbPhi (𝓝[<] (Real.pi / 2)) atTop := by
  have hpi : (0 : ℝ) < Real.pi / 2 := by positivity
  have hlc : Tendsto lc (𝓝[<] (Real.pi / 2)) atTop := by
    have h := Real.tendsto_log_nhdsGT_zero.comp Real.tendsto_cos_pi_div_two
    exact tendsto_neg_atBot_atTop.comp h
  have hc : 0 < 2 / (Real.pi / 2 * (Real.pi / 2)) := by positivity
  have hlow := hlc.const_mul_atTop hc
  refine tendsto_atTop_mono' _ ?_ hlow
  filter_upwards [Ioo_mem_nhdsLT hpi] with u hu
  rw [sbPhi_eq]
  have hl := lc_nonneg hu.1.le hu.2
  have huu : 0 < u * u := mul_pos hu.1 hu.1
  have : u * u ≤ Real.pi / 2 * (Real.pi / 2) := by nlinarith [hu.1, hu.2]
  have : 2 / (Real.pi / 2 * (Real.pi / 2)) ≤ 2 / (u * u) := div_le_div_of_nonneg_left (by norm_num) huu this
  exact mul_le_mul_of_nonneg_right this hl

/-! ### the `u`-term as a function of the stress ratio `f = σ/L` -/

/-- `u(f) = π/2 · ((1/f − 1)/(K_p − 1))` -/
noncomputable def sbU (Kp f : ℝ) : ℝ := Real.pi / 2 * ((1 / f - 1) / (Kp - 1))

theorem sbU_mem {Kp f : ℝ} (hKp : 1 < Kp) (h1 : 1 / Kp < f) (h2 : f < 1) :
    sbU Kp f ∈ Ioo 0 (Real.pi / 2) := by
  have hK0 : 0 < Kp := by linarith
  have hf : 0 < f := lt_trans (by positivity) h1
  have hk : 0 < Kp - 1 := by linarith
  have hr1 : 1 < 1 / f := by rw [lt_div_iff₀ hf]; linarith
  have hr2 : 1 / f < Kp := by
    rw [div_lt_iff₀ hf]
    have := (div_lt_iff₀ hK0).mp h1
    linarith
  have hq0 : 0 < (1 / f - 1) / (Kp - 1) := div_pos (by linarith) hk
  have hq1 : (1 / f - 1) / (Kp - 1) < 1 := by rw [div_lt_one hk]; linarith
  have hpi : 0 < Real.pi / 2 := by positivity
  exact ⟨mul_pos hpi hq0, by unfold sbU; nlinarith⟩

theorem sbU_strictAntiOn {Kp : ℝ} (hKp : 1 < Kp) : StrictAntiOn (sbU Kp) (Ioi 0) := by
  intro a ha b hb hab
  have h1 : 1 / b < 1 / a := one_div_lt_one_div_of_lt ha hab
  have hk : 0 < Kp - 1 := by linarith
  have h2 : (1 / b - 1) / (Kp - 1) < (1 / a - 1) / (Kp - 1) := div_lt_div_of_pos_right (by linarith) hk
  exact mul_lt_mul_of_pos_left h2 (by positivity)

theorem sbU_continuousAt (Kp : ℝ) {f : ℝ} (hf : f ≠ 0) : ContinuousAt (sbU Kp) f :=
  continuousAt_const.mul (((continuousAt_const.div continuousAt_id hf).sub continuousAt_const).div_const _)

theorem sbU_one (Kp : ℝ) : sbU Kp 1 = 0 := by simp [sbU]

theorem sbU_inv {Kp : ℝ} (hKp : 1 < Kp) : sbU Kp (1 / Kp) = Real.pi / 2 := by
  unfold sbU
  rw [one_div_one_div, div_self (by linarith : Kp - 1 ≠ 0), mul_one]

theorem inv_Kp_lt_one {Kp : ℝ} (hKp : 1 < Kp) : 1 / Kp < 1 := by
  rw [div_lt_one (by linarith)]; exact hKp

/-- `u(f) → 0⁺` for `f → 1⁻` -/
theorem sbU_tendsto_zero {Kp : ℝ} (hKp : 1 < Kp) : Tendsto (sbU Kp) (𝓝[<] 1) (𝓝[>] 0) := by
  rw [tendsto_nhdsWithin_iff]
  constructor
  · have := (sbU_continuousAt Kp one_ne_zero).tendsto
    rw [sbU_one] at this
    exact this.mono_left nhdsWithin_le_nhds
  · filter_upwards [Ioo_mem_nhdsLT (inv_Kp_lt_one hKp)] with f hf using (sbU_mem hKp hf.1 hf.2).1

/-- `u(f) → (π/2)⁻` for `f → (1/K_p)⁺` -/
theorem sbU_tendsto_pi_div_two {Kp : ℝ} (hKp : 1 < Kp) :
    Tendsto (sbU Kp) (𝓝[>] (1 / Kp)) (𝓝[<] (Real.pi / 2)) := by
  have hK0 : 0 < Kp := by linarith
  rw [tendsto_nhdsWithin_iff]
  constructor
  · have := (sbU_continuousAt Kp (one_div_pos.mpr hK0).ne').tendsto
    rw [sbU_inv hKp] at this
    exact this.mono_left nhdsWithin_le_nhds
  · filter_upwards [Ioo_mem_nhdsGT (inv_Kp_lt_one hKp)] with f hf using (sbU_mem hKp hf.1 hf.2).2

/-! ### `H(f) = φ(u(f))/f + f − 1`: the right-hand side of eq. 2.8-42 divided by `K_p · e*(L)` -/

/-- `H(f) = φ(u(f))/f + f − 1` with `f = σ/L` -/
noncomputable def sbH (Kp f : ℝ) : ℝ := sbPhi (sbU Kp f) / f + f - 1

theorem sbH_pos {Kp f : ℝ} (hKp : 1 < Kp) (h1 : 1 / Kp < f) (h2 : f < 1) : 0 < sbH Kp f := by
  have hK0 : 0 < Kp := by linarith
  have hf : 0 < f := lt_trans (by positivity) h1
  have hu := sbU_mem hKp h1 h2
  have hp := one_le_sbPhi hu.1 hu.2
  have h3 : 1 ≤ sbPhi (sbU Kp f) / f := by
    rw [le_div_iff₀ hf]; linarith
  unfold sbH; linarith

/-- `H` is strictly decreasing on `(1/K_p, 1)`: `φ∘u` is non-increasing and `≥ 1`, and `p/f + f` is strictly decreasing
in `f ∈ (0, 1)` for `p ≥ 1`. -/
theorem sbH_strictAntiOn {Kp : ℝ} (hKp : 1 < Kp) : StrictAntiOn (sbH Kp) (Ioo (1 / Kp) 1) := by
  intro a ha b hb hab
  have hK0 : 0 < Kp := by linarith
  have ha0 : 0 < a := lt_trans (by positivity) ha.1
  have hb0 : 0 < b := lt_trans ha0 hab
  have hua := sbU_mem hKp ha.1 ha.2
  have hub := sbU_mem hKp hb.1 hb.2
  have hu : sbU Kp b ≤ sbU Kp a := (sbU_strictAntiOn hKp ha0 hb0 hab).le
  have hp : sbPhi (sbU Kp b) ≤ sbPhi (sbU Kp a) := sbPhi_monotoneOn hub hua hu
  have hp1 : 1 ≤ sbPhi (sbU Kp b) := one_le_sbPhi hub.1 hub.2
  show sbPhi (sbU Kp b) / b + b - 1 < sbPhi (sbU Kp a) / a + a - 1
  set p := sbPhi (sbU Kp b)
  set q := sbPhi (sbU Kp a)
  have h1 : p / a ≤ q / a := div_le_div_of_nonneg_right hp ha0.le
  have hab1 : a * b < 1 := by nlinarith [ha.2, hb.2]
  have h2 : b - a < 1 / a - 1 / b := by
    have e : 1 / a - 1 / b = (b - a) / (a * b) := by field_simp
    rw [e, lt_div_iff₀ (mul_pos ha0 hb0)]
    nlinarith
  have h3 : 1 / a - 1 / b ≤ p / a - p / b := by
    have e : p / a - p / b = p * (1 / a - 1 / b) := by ring
    rw [e]
    have : 0 < 1 / a - 1 / b := by linarith
    nlinarith
  linarith

theorem sbH_continuousOn {Kp : ℝ} (hKp : 1 < Kp) : ContinuousOn (sbH Kp) (Ioo (1 / Kp) 1) := by
  have hK0 : 0 < Kp := by linarith
  have hpos : ∀ f ∈ Ioo (1 / Kp) 1, f ≠ 0 := fun f hf => (lt_trans (by positivity) hf.1).ne'
  have hU : ContinuousOn (sbU Kp) (Ioo (1 / Kp) 1) := fun f hf =>
    (sbU_continuousAt Kp (hpos f hf)).continuousWithinAt
  have hP : ContinuousOn (fun f => sbPhi (sbU Kp f)) (Ioo (1 / Kp) 1) :=
    sbPhi_continuousOn.comp hU (fun f hf => sbU_mem hKp hf.1 hf.2)
  exact ((hP.div continuousOn_id hpos).add continuousOn_id).sub continuousOn_const

/-- `H(f) → 1` for `f → 1⁻` (this is where `lim_{u→0} φ(u) = 1` enters). -/
theorem sbH_tendsto_one {Kp : ℝ} (hKp : 1 < Kp) : Tendsto (sbH Kp) (𝓝[<] 1) (𝓝 1) := by
  have hid : Tendsto (fun f : ℝ => f) (𝓝[<] 1) (𝓝 1) := tendsto_id.mono_left nhdsWithin_le_nhds
  have hP : Tendsto (fun f => sbPhi (sbU Kp f)) (𝓝[<] 1) (𝓝 1) := sbPhi_tendsto_one.comp (sbU_tendsto_zero hKp)
  have := ((hP.div hid one_ne_zero).add hid).sub_const 1
  have e : (1 : ℝ) / 1 + 1 - 1 = 1 := by norm_num
  rw [e] at this
  exact this

/-- `H(f) → +∞` for `f → (1/K_p)⁺`. -/
theorem sbH_tendsto_atTop {Kp : ℝ} (hKp : 1 < Kp) : Tendsto (sbH Kp) (𝓝[>] (1 / Kp)) atTop := by
  have hK0 : 0 < Kp := by linarith
  have hP : Tendsto (fun f => sbPhi (sbU Kp f)) (𝓝[>] (1 / Kp)) atTop :=
    sbPhi_tendsto_atTop.comp (sbU_tendsto_pi_div_two hKp)
  have hlow := tendsto_atTop_add_const_right _ (-1 : ℝ) hP
  refine tendsto_atTop_mono' _ ?_ hlow
  filter_upwards [Ioo_mem_nhdsGT (inv_Kp_lt_one hKp)] with f hf
  have hf0 : 0 < f := lt_trans (by positivity) hf.1
  have hu := sbU_mem hKp hf.1 hf.2
  have hp := one_le_sbPhi hu.1 hu.2
  have h3 : sbPhi (sbU Kp f) ≤ sbPhi (sbU Kp f) / f := by
    rw [le_div_iff₀ hf0]; nlinarith [hf.2]
  show sbPhi (sbU Kp f) + -1 ≤ sbPhi (sbU Kp f) / f + f - 1
  linarith

/-! ### a root between a `−∞` end and a positive-limit end of an open interval -/

/-- `g` continuous on `(a, b)`, `g → −∞` at `a⁺`, `g → c > 0` at `b⁻`: sign change and a root inside. -/
theorem exists_root_Ioo_atBot_left {g : ℝ → ℝ} {a b c : ℝ} (hab : a < b) (hg : ContinuousOn g (Ioo a b))
    (hlo : Tendsto g (𝓝[>] a) atBot) (hhi : Tendsto g (𝓝[<] b) (𝓝 c)) (hc : 0 < c) :
    (∃ x₁ ∈ Ioo a b, ∃ x₂ ∈ Ioo a b, g x₁ < 0 ∧ 0 < g x₂) ∧ ∃ x ∈ Ioo a b, g x = 0 := by
  obtain ⟨x₁, hx₁, hg₁⟩ := ((hlo.eventually (eventually_lt_atBot 0)).and (Ioo_mem_nhdsGT hab)).exists.imp
    (fun x hx => And.symm hx)
  obtain ⟨x₂, hx₂, hg₂⟩ := ((hhi.eventually_const_lt hc).and (Ioo_mem_nhdsLT hab)).exists.imp
    (fun x hx => And.symm hx)
  refine ⟨⟨x₁, hx₁, x₂, hx₂, hg₁, hg₂⟩, ?_⟩
  obtain ⟨x, hx, hgx⟩ := isPreconnected_Ioo.intermediate_value hx₁ hx₂ hg ⟨hg₁.le, hg₂.le⟩
  exact ⟨x, hx, hgx⟩

/-- mirrored: `g → c > 0` at `a⁺`, `g → −∞` at `b⁻`. -/
theorem exists_root_Ioo_atBot_right {g : ℝ → ℝ} {a b c : ℝ} (hab : a < b) (hg : ContinuousOn g (Ioo a b))
    (hlo : Tendsto g (𝓝[>] a) (𝓝 c)) (hc : 0 < c) (hhi : Tendsto g (𝓝[<] b) atBot) :
    (∃ x₁ ∈ Ioo a b, ∃ x₂ ∈ Ioo a b, g x₁ < 0 ∧ 0 < g x₂) ∧ ∃ x ∈ Ioo a b, g x = 0 := by
  obtain ⟨x₁, hx₁, hg₁⟩ := ((hhi.eventually (eventually_lt_atBot 0)).and (Ioo_mem_nhdsLT hab)).exists.imp
    (fun x hx => And.symm hx)
  obtain ⟨x₂, hx₂, hg₂⟩ := ((hlo.eventually_const_lt hc).and (Ioo_mem_nhdsGT hab)).exists.imp
    (fun x hx => And.symm hx)
  refine ⟨⟨x₁, hx₁, x₂, hx₂, hg₁, hg₂⟩, ?_⟩
  obtain ⟨x, hx, hgx⟩ := isPreconnected_Ioo.intermediate_value hx₁ hx₂ hg ⟨hg₁.le, hg₂.le⟩
  exact ⟨x, hx, hgx⟩

/-! ### the model functions on the open bracket -/

/-- `K_p · ε(L / K_p) < ε(L)` for `K_p > 1`, `L > 0` (strict version of `kp_mul_estar_le`). -/
theorem kp_mul_estar_lt {m : Mat ℝ} (h : m.Adm) (hKp1 : 1 < m.Kp) {L : ℝ} (hL : 0 < L) :
    m.Kp * roStrain m (L / m.Kp) < roStrain m L := by
  have hKp := h.Kp_pos
  rw [roStrain_of_nonneg h hL.le, roStrain_of_nonneg h (div_pos hL hKp).le]
  have e1 : L / m.Kp / m.K = L / m.K / m.Kp := by ring
  rw [e1, Real.div_rpow (div_pos hL h.K_pos).le hKp.le]
  have hpow : m.Kp < m.Kp ^ (1 / m.n) := Real.self_lt_rpow_of_one_lt hKp1 h.p_gt
  have hpp : 0 < m.Kp ^ (1 / m.n) := Real.rpow_pos_of_pos hKp _
  have hx : 0 < (L / m.K) ^ (1 / m.n) := Real.rpow_pos_of_pos (div_pos hL h.K_pos) _
  have : m.Kp * ((L / m.K) ^ (1 / m.n) / m.Kp ^ (1 / m.n)) < (L / m.K) ^ (1 / m.n) := by
    rw [mul_div_assoc', div_lt_iff₀ hpp]
    nlinarith
  have e2 : m.Kp * (L / m.Kp / m.E) = L / m.E := by field_simp
  nlinarith [this, e2]

theorem uTerm_eq_sbU (m : Mat ℝ) {s : ℝ} (hs : s ≠ 0) (L : ℝ) : uTerm m s L = sbU m.Kp (s / L) := by
  rw [uTerm_eq, ratio_of_ne hs, sbU, one_div_div]

/-- the stress ratio of the open bracket: `L/K_p < σ < L ↔ 1/K_p < σ/L < 1` -/
theorem ratio_mem_iff {Kp s L : ℝ} (hL : 0 < L) :
    (L / Kp < s ∧ s < L) ↔ s / L ∈ Ioo (1 / Kp) 1 := by
  rw [mem_Ioo, lt_div_iff₀ hL, div_lt_one hL, one_div_mul_eq_div]

/-- the equation `ε(σ) = middle term · Neuber term` as one function of `(σ, L)` -/
noncomputable def sbG (m : Mat ℝ) (s L : ℝ) : ℝ := roStrain m s - middleTerm m s L * neuberStrain m s L

/-- on the open bracket the coded product `_middle_term · _neuber_strain` is `K_p · e*(L) · H(σ/L)` -/
theorem sb_product_eq {m : Mat ℝ} (hKp : 1 < m.Kp) {s L : ℝ} (hL : 0 < L) (h1 : L / m.Kp < s) (h2 : s < L) :
    middleTerm m s L * neuberStrain m s L = m.Kp * eStar m L * sbH m.Kp (s / L) := by
  have hK0 : 0 < m.Kp := by linarith
  have hs : 0 < s := lt_trans (div_pos hL hK0) h1
  have hr := (ratio_mem_iff hL).mp ⟨h1, h2⟩
  have hu := sbU_mem hKp hr.1 hr.2
  have hcos := cos_pos_of_Ico hu.1.le hu.2
  rw [middleTerm_eq, uTerm_eq_sbU m hs.ne', if_pos hu.1.ne', if_pos hcos, ratio_of_ne hL.ne']
  unfold neuberStrain sbH
  rw [ratio_of_ne hs.ne']
  change (sbPhi (sbU m.Kp (s / L)) + s / L * (s / L) - s / L) * (L / s * m.Kp * eStar m L) = _
  generalize sbPhi (sbU m.Kp (s / L)) = p
  generalize eStar m L = e
  field_simp

theorem sbG_eq {m : Mat ℝ} (hKp : 1 < m.Kp) {s L : ℝ} (hL : 0 < L) (h1 : L / m.Kp < s) (h2 : s < L) :
    sbG m s L = roStrain m s - m.Kp * eStar m L * sbH m.Kp (s / L) := by
  unfold sbG; rw [sb_product_eq hKp hL h1 h2]

theorem middleTerm_eq_on {m : Mat ℝ} (hKp : 1 < m.Kp) {s L : ℝ} (hL : 0 < L) (h1 : L / m.Kp < s) (h2 : s < L) :
    middleTerm m s L = sbPhi (sbU m.Kp (s / L)) + s / L * (s / L) - s / L := by
  have hK0 : 0 < m.Kp := by linarith
  have hs : 0 < s := lt_trans (div_pos hL hK0) h1
  have hr := (ratio_mem_iff hL).mp ⟨h1, h2⟩
  have hu := sbU_mem hKp hr.1 hr.2
  have hcos := cos_pos_of_Ico hu.1.le hu.2
  rw [middleTerm_eq, uTerm_eq_sbU m hs.ne', if_pos hu.1.ne', if_pos hcos, ratio_of_ne hL.ne']
  rfl

theorem bracket_lt {m : Mat ℝ} (hKp : 1 < m.Kp) {L : ℝ} (hL : 0 < L) : L / m.Kp < L :=
  div_lt_self hL hKp

theorem roStrain_continuousAt {m : Mat ℝ} (h : m.Adm) {s : ℝ} (hs : 0 < s) : ContinuousAt (roStrain m) s :=
  (roStrain_continuousOn h).continuousAt (Ici_mem_nhds hs)

theorem eStar_continuousAt {m : Mat ℝ} (h : m.Adm) {L : ℝ} (hL : 0 < L) : ContinuousAt (eStar m) L := by
  have h1 : ContinuousAt (fun L : ℝ => L / m.Kp) L := (continuous_id.div_const _).continuousAt
  exact ContinuousAt.comp (g := roStrain m) (roStrain_continuousAt h (div_pos hL h.Kp_pos)) h1

theorem eStar_strictMonoOn {m : Mat ℝ} (h : m.Adm) : StrictMonoOn (eStar m) (Ioi 0) := by
  intro a ha b hb hab
  exact roStrain_strictMonoOn h (mem_Ici.mpr (div_pos ha h.Kp_pos).le) (mem_Ici.mpr (div_pos hb h.Kp_pos).le)
    (div_lt_div_of_pos_right hab h.Kp_pos)

/-! ### `G(·, L)` on the open bracket `(L/K_p, L)` -/

section stress
variable {m : Mat ℝ} (h : m.Adm) (hKp : 1 < m.Kp) {L : ℝ} (hL : 0 < L)
include h hKp hL

theorem ratio_tendsto_inv_Kp : Tendsto (fun s => s / L) (𝓝[>] (L / m.Kp)) (𝓝[>] (1 / m.Kp)) := by
  rw [tendsto_nhdsWithin_iff]
  constructor
  · have := ((continuous_id.div_const L).tendsto (L / m.Kp)).mono_left
      (nhdsWithin_le_nhds (s := Ioi (L / m.Kp)))
    have e : id (L / m.Kp) / L = 1 / m.Kp := by
      have := h.Kp_pos
      simp only [id]; field_simp
    rw [e] at this
    exact this
  · filter_upwards [self_mem_nhdsWithin] with s hs
    rw [mem_Ioi, lt_div_iff₀ hL, one_div_mul_eq_div]
    exact hs

omit h hKp in
theorem ratio_tendsto_one_left : Tendsto (fun s => s / L) (𝓝[<] L) (𝓝[<] 1) := by
  rw [tendsto_nhdsWithin_iff]
  constructor
  · have := ((continuous_id.div_const L).tendsto L).mono_left (nhdsWithin_le_nhds (s := Iio L))
    have e : id L / L = 1 := by simp only [id]; exact div_self hL.ne'
    rw [e] at this
    exact this
  · filter_upwards [self_mem_nhdsWithin] with s hs
    rw [mem_Iio, div_lt_one hL]
    exact hs

theorem sbG_continuousOn_stress : ContinuousOn (fun s => sbG m s L) (Ioo (L / m.Kp) L) := by
  have hlo : 0 < L / m.Kp := div_pos hL h.Kp_pos
  have hH : ContinuousOn (fun s => sbH m.Kp (s / L)) (Ioo (L / m.Kp) L) :=
    (sbH_continuousOn hKp).comp (continuous_id.div_const L).continuousOn
      (fun s hs => (ratio_mem_iff hL).mp ⟨hs.1, hs.2⟩)
  have hc : ContinuousOn (fun s => roStrain m s - m.Kp * eStar m L * sbH m.Kp (s / L)) (Ioo (L / m.Kp) L) :=
    ((roStrain_continuousOn h).mono (fun s hs => mem_Ici.mpr (lt_trans hlo hs.1).le)).sub
      (continuousOn_const.mul hH)
  exact hc.congr (fun s hs => sbG_eq hKp hL hs.1 hs.2)

/-- `G(·, L)` is strictly increasing on the open bracket. -/
theorem sbG_strictMonoOn_stress : StrictMonoOn (fun s => sbG m s L) (Ioo (L / m.Kp) L) := by
  intro a ha b hb hab
  have hlo : 0 < L / m.Kp := div_pos hL h.Kp_pos
  have ha0 : 0 < a := lt_trans hlo ha.1
  show sbG m a L < sbG m b L
  rw [sbG_eq hKp hL ha.1 ha.2, sbG_eq hKp hL hb.1 hb.2]
  have he := roStrain_strictMonoOn h (mem_Ici.mpr ha0.le) (mem_Ici.mpr (lt_trans ha0 hab).le) hab
  have hH := sbH_strictAntiOn hKp ((ratio_mem_iff hL).mp ⟨ha.1, ha.2⟩) ((ratio_mem_iff hL).mp ⟨hb.1, hb.2⟩)
    (div_lt_div_of_pos_right hab hL)
  have hc : 0 < m.Kp * eStar m L := mul_pos h.Kp_pos (eStar_pos h hL)
  nlinarith

/-- `G(σ, L) → −∞` for `σ → (L/K_p)⁺`. -/
theorem sbG_tendsto_atBot_stress : Tendsto (fun s => sbG m s L) (𝓝[>] (L / m.Kp)) atBot := by
  have hlo : 0 < L / m.Kp := div_pos hL h.Kp_pos
  have hc : 0 < m.Kp * eStar m L := mul_pos h.Kp_pos (eStar_pos h hL)
  have hH : Tendsto (fun s => sbH m.Kp (s / L)) (𝓝[>] (L / m.Kp)) atTop :=
    (sbH_tendsto_atTop hKp).comp (ratio_tendsto_inv_Kp h hKp hL)
  have h1 := hH.const_mul_atTop hc
  have h2 : Tendsto (fun s => roStrain m L + -(m.Kp * eStar m L * sbH m.Kp (s / L))) (𝓝[>] (L / m.Kp)) atBot :=
    tendsto_atBot_add_const_left _ _ (tendsto_neg_atTop_atBot.comp h1)
  refine tendsto_atBot_mono' _ ?_ h2
  filter_upwards [Ioo_mem_nhdsGT (bracket_lt hKp hL)] with s hs
  rw [sbG_eq hKp hL hs.1 hs.2]
  have := (roStrain_strictMonoOn h (mem_Ici.mpr (lt_trans hlo hs.1).le) (mem_Ici.mpr hL.le) hs.2).le
  linarith

/-- `G(σ, L) → ε(L) − K_p·e*(L)` for `σ → L⁻`. -/
theorem sbG_tendsto_stress :
    Tendsto (fun s => sbG m s L) (𝓝[<] L) (𝓝 (roStrain m L - m.Kp * eStar m L)) := by
  have hε : Tendsto (roStrain m) (𝓝[<] L) (𝓝 (roStrain m L)) :=
    (roStrain_continuousAt h hL).tendsto.mono_left nhdsWithin_le_nhds
  have hH : Tendsto (fun s => sbH m.Kp (s / L)) (𝓝[<] L) (𝓝 1) :=
    (sbH_tendsto_one hKp).comp (ratio_tendsto_one_left hL)
  have h1 := hε.sub (hH.const_mul (m.Kp * eStar m L))
  rw [mul_one] at h1
  refine h1.congr' ?_
  filter_upwards [Ioo_mem_nhdsLT (bracket_lt hKp hL)] with s hs
  rw [sbG_eq hKp hL hs.1 hs.2]

end stress

/-! ### `G(σ, ·)` on the open bracket `(σ, K_p·σ)` of the load -/

section load
variable {m : Mat ℝ} (h : m.Adm) (hKp : 1 < m.Kp) {s : ℝ} (hs : 0 < s)
include h hKp hs

omit h in
theorem load_bracket_lt : s < m.Kp * s := by nlinarith

omit h hs in
/-- `σ < L < K_p·σ ↔ L/K_p < σ < L` -/
theorem load_mem_iff {L : ℝ} : L ∈ Ioo s (m.Kp * s) ↔ (L / m.Kp < s ∧ s < L) := by
  have hK0 : 0 < m.Kp := by linarith
  rw [mem_Ioo, div_lt_iff₀ hK0, mul_comm s m.Kp]
  exact and_comm

omit h hKp in
theorem load_ratio_tendsto_one : Tendsto (fun L => s / L) (𝓝[>] s) (𝓝[<] 1) := by
  rw [tendsto_nhdsWithin_iff]
  constructor
  · have hc : ContinuousAt (fun L : ℝ => s / L) s := continuousAt_const.div continuousAt_id hs.ne'
    have := hc.tendsto
    rw [div_self hs.ne'] at this
    exact this.mono_left nhdsWithin_le_nhds
  · filter_upwards [self_mem_nhdsWithin] with L hL
    have hL' : s < L := hL
    rw [mem_Iio, div_lt_one (lt_trans hs hL')]
    exact hL'

theorem load_ratio_tendsto_inv_Kp : Tendsto (fun L => s / L) (𝓝[<] (m.Kp * s)) (𝓝[>] (1 / m.Kp)) := by
  have hK0 := h.Kp_pos
  have hKs : 0 < m.Kp * s := mul_pos hK0 hs
  rw [tendsto_nhdsWithin_iff]
  constructor
  · have hc : ContinuousAt (fun L : ℝ => s / L) (m.Kp * s) := continuousAt_const.div continuousAt_id hKs.ne'
    have := hc.tendsto
    have e : s / (m.Kp * s) = 1 / m.Kp := by field_simp
    rw [e] at this
    exact this.mono_left nhdsWithin_le_nhds
  · filter_upwards [Ioo_mem_nhdsLT (load_bracket_lt hKp hs)] with L hL
    have hL0 : 0 < L := lt_trans hs hL.1
    rw [mem_Ioi, lt_div_iff₀ hL0, one_div_mul_eq_div, div_lt_iff₀ hK0, mul_comm]
    exact hL.2

theorem sbG_continuousOn_load : ContinuousOn (fun L => sbG m s L) (Ioo s (m.Kp * s)) := by
  have hpos : ∀ L ∈ Ioo s (m.Kp * s), 0 < L := fun L hL => lt_trans hs hL.1
  have hdiv : ContinuousOn (fun L : ℝ => s / L) (Ioo s (m.Kp * s)) :=
    continuousOn_const.div continuousOn_id (fun L hL => (hpos L hL).ne')
  have hH : ContinuousOn (fun L => sbH m.Kp (s / L)) (Ioo s (m.Kp * s)) :=
    (sbH_continuousOn hKp).comp hdiv (fun L hL =>
      (ratio_mem_iff (hpos L hL)).mp ((load_mem_iff hKp).mp hL))
  have he : ContinuousOn (eStar m) (Ioo s (m.Kp * s)) := fun L hL =>
    (eStar_continuousAt h (hpos L hL)).continuousWithinAt
  have hc : ContinuousOn (fun L => roStrain m s - m.Kp * eStar m L * sbH m.Kp (s / L)) (Ioo s (m.Kp * s)) :=
    continuousOn_const.sub ((continuousOn_const.mul he).mul hH)
  exact hc.congr (fun L hL => by
    have := (load_mem_iff hKp).mp hL
    exact sbG_eq hKp (hpos L hL) this.1 this.2)

/-- `G(σ, ·)` is strictly decreasing on `(σ, K_p·σ)`. -/
theorem sbG_strictAntiOn_load : StrictAntiOn (fun L => sbG m s L) (Ioo s (m.Kp * s)) := by
  intro a ha b hb hab
  have ha0 : 0 < a := lt_trans hs ha.1
  have hb0 : 0 < b := lt_trans ha0 hab
  have ha' := (load_mem_iff hKp).mp ha
  have hb' := (load_mem_iff hKp).mp hb
  show sbG m s b < sbG m s a
  rw [sbG_eq hKp ha0 ha'.1 ha'.2, sbG_eq hKp hb0 hb'.1 hb'.2]
  have hra := (ratio_mem_iff ha0).mp ha'
  have hrb := (ratio_mem_iff hb0).mp hb'
  have hH := sbH_strictAntiOn hKp hrb hra (div_lt_div_of_pos_left hs ha0 hab)
  have hHa := sbH_pos hKp hra.1 hra.2
  have he := eStar_strictMonoOn h (mem_Ioi.mpr ha0) (mem_Ioi.mpr hb0) hab
  have hea := eStar_pos h ha0
  have hK0 := h.Kp_pos
  have h1 : m.Kp * eStar m a < m.Kp * eStar m b := mul_lt_mul_of_pos_left he hK0
  have h2 : 0 < m.Kp * eStar m a := mul_pos hK0 hea
  have : m.Kp * eStar m a * sbH m.Kp (s / a) < m.Kp * eStar m b * sbH m.Kp (s / b) :=
    mul_lt_mul'' h1 hH h2.le hHa.le
  linarith

/-- `G(σ, L) → ε(σ) − K_p·e*(σ)` for `L → σ⁺`. -/
theorem sbG_tendsto_load :
    Tendsto (fun L => sbG m s L) (𝓝[>] s) (𝓝 (roStrain m s - m.Kp * eStar m s)) := by
  have he : Tendsto (eStar m) (𝓝[>] s) (𝓝 (eStar m s)) :=
    (eStar_continuousAt h hs).tendsto.mono_left nhdsWithin_le_nhds
  have hH : Tendsto (fun L => sbH m.Kp (s / L)) (𝓝[>] s) (𝓝 1) :=
    (sbH_tendsto_one hKp).comp (load_ratio_tendsto_one hs)
  have h1 := (tendsto_const_nhds (x := roStrain m s)).sub ((he.const_mul m.Kp).mul hH)
  rw [mul_one] at h1
  refine h1.congr' ?_
  filter_upwards [Ioo_mem_nhdsGT (load_bracket_lt hKp hs)] with L hL
  have := (load_mem_iff hKp).mp hL
  rw [sbG_eq hKp (lt_trans hs hL.1) this.1 this.2]

/-- `G(σ, L) → −∞` for `L → (K_p·σ)⁻`. -/
theorem sbG_tendsto_atBot_load : Tendsto (fun L => sbG m s L) (𝓝[<] (m.Kp * s)) atBot := by
  have hK0 := h.Kp_pos
  have hKs : 0 < m.Kp * s := mul_pos hK0 hs
  have he : Tendsto (eStar m) (𝓝[<] (m.Kp * s)) (𝓝 (eStar m (m.Kp * s))) :=
    (eStar_continuousAt h hKs).tendsto.mono_left nhdsWithin_le_nhds
  have hC : 0 < m.Kp * eStar m (m.Kp * s) := mul_pos hK0 (eStar_pos h hKs)
  have hH : Tendsto (fun L => sbH m.Kp (s / L)) (𝓝[<] (m.Kp * s)) atTop :=
    (sbH_tendsto_atTop hKp).comp (load_ratio_tendsto_inv_Kp h hKp hs)
  have h1 := Filter.Tendsto.pos_mul_atTop hC (he.const_mul m.Kp) hH
  have h2 : Tendsto (fun L => roStrain m s + -(m.Kp * eStar m L * sbH m.Kp (s / L))) (𝓝[<] (m.Kp * s)) atBot :=
    tendsto_atBot_add_const_left _ _ (tendsto_neg_atTop_atBot.comp h1)
  refine h2.congr' ?_
  filter_upwards [Ioo_mem_nhdsLT (load_bracket_lt hKp hs)] with L hL
  have := (load_mem_iff hKp).mp hL
  rw [sbG_eq hKp (lt_trans hs hL.1) this.1 this.2]
  ring

end load

end PylifeVerif.Notch
