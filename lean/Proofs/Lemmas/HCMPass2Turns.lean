/-
Helper lemmas for C04 `pass2_eq_periodicRainflow`, part 4: the values of the turning points
(`Sym.tv`, the value-only form of the scan `findTurns`):
* `tv_append`, `tvSt_snoc`: composition / final state of the scan,
* `tv_first`: a pending candidate whose next different sample reverses is reported first,
* `tv_eq_ext3`: the values of the turning points are the interior strict extrema of the de-duplicated
  signal (`ext3 ∘ dedup`, the vocabulary of `Proofs/Lemmas/PeriodicRev.lean`),
* `tv_bound`: every sample lies between values of `first :: turning points ++ [last]`.
-/
import Proofs.Lemmas.PeriodicRev
import Proofs.Lemmas.Sym
import Proofs.Lemmas.Turns
import Proofs.Lemmas.Fkm

namespace PylifeVerif.C04
open PylifeVerif.Rainflow PylifeVerif.HCM PylifeVerif.HCM.Spec PylifeVerif.Sym

/-- final state (direction, last sample) of the value scan -/
def tvSt (dir prev : Int) : List Int → Int × Int
  | [] => (dir, prev)
  | x :: xs =>
    let d := sgn (x - prev)
    if d = 0 then tvSt dir prev xs else tvSt d x xs

theorem tv_append (xs ys : List Int) : ∀ (dir prev : Int),
    tv dir prev (xs ++ ys) = tv dir prev xs ++ tv (tvSt dir prev xs).1 (tvSt dir prev xs).2 ys := by
  induction xs with
  | nil => intro dir prev; simp [tv, tvSt]
  | cons x xs ih =>
    intro dir prev
    simp only [List.cons_append, tv, tvSt]
    split_ifs <;> simp [ih]

theorem tvSt_snoc (xs : List Int) (y : Int) : ∀ (dir prev : Int),
    tvSt dir prev (xs ++ [y]) =
      if sgn (y - (tvSt dir prev xs).2) = 0 then tvSt dir prev xs
      else (sgn (y - (tvSt dir prev xs).2), y) := by
  induction xs with
  | nil => intro dir prev; rfl
  | cons x xs ih =>
    intro dir prev
    simp only [List.cons_append, tvSt]
    split_ifs <;> simp_all

theorem tvSt_prev (xs : List Int) : ∀ (dir prev : Int),
    (prev :: xs).getLast? = some (tvSt dir prev xs).2 := by
  induction xs with
  | nil => intro dir prev; simp [tvSt]
  | cons x xs ih =>
    intro dir prev
    simp only [tvSt]
    rw [List.getLast?_cons_cons]
    split_ifs with h
    · have hx : x = prev := by have := PylifeVerif.Rainflow.sgn_eq_zero h; omega
      rw [← ih dir prev, hx]
    · exact ih _ x

/-- scan state after a signal whose last step `p → z` is a proper step -/
theorem tvSt_end (t0 : List Int) (p z : Int) (hp : t0.getLast? = some p) (hpz : p ≠ z)
    (dir a : Int) : tvSt dir a (t0 ++ [z]) = (sgn (z - p), z) := by
  have h1 := tvSt_prev t0 dir a
  have h2 : (a :: t0).getLast? = some p := by
    cases t0 with
    | nil => simp at hp
    | cons b r => rw [List.getLast?_cons_cons]; exact hp
  rw [h2] at h1
  have h3 : (tvSt dir a t0).2 = p := (Option.some.inj h1).symm
  rw [tvSt_snoc, h3]
  have : sgn (z - p) ≠ 0 := fun h => hpz (by have := PylifeVerif.Rainflow.sgn_eq_zero h; omega)
  rw [if_neg this]

/-- A pending candidate `z` (direction `δ`) whose next different sample reverses the direction is
reported first; the rest is the scan restarted at `z`. -/
theorem tv_first (X : List Int) (z q δ : Int) (hf : X.find? (· ≠ z) = some q)
    (hq : sgn (q - z) ≠ δ) (hδ : δ ≠ 0) : tv δ z X = z :: tv 0 z X := by
  induction X with
  | nil => simp at hf
  | cons x X ih =>
    by_cases hx : x = z
    · subst hx
      have : sgn (x - x) = 0 := PylifeVerif.Rainflow.sgn_self x
      simp only [tv, this, if_true]
      apply ih
      simpa using hf
    · have hfx : x = q := by simpa [hx] using hf
      subst hfx
      have h0 : sgn (x - z) ≠ 0 := fun h => hx (by have := PylifeVerif.Rainflow.sgn_eq_zero h; omega)
      simp only [tv, h0, if_false]
      rw [if_pos ⟨hδ, hq⟩, if_neg (by simp)]

theorem dedup_head (x : Int) (xs : List Int) : ∃ D, dedup (x :: xs) = x :: D := by
  have h := head?_dedup (x :: xs)
  cases hd : dedup (x :: xs) with
  | nil => rw [hd] at h; simp at h
  | cons a D =>
    rw [hd] at h
    simp only [List.head?_cons, Option.some.injEq] at h
    exact ⟨D, by rw [h]⟩

/-- **The values of the turning points are the interior strict extrema of the de-duplicated
signal.**  With a pending direction the scan behaves as if a sample `u` on the far side preceded. -/
theorem tv_eq_ext3_aux (xs : List Int) : ∀ (dir prev : Int),
    (dir = 0 → tv dir prev xs = ext3 (dedup (prev :: xs))) ∧
    (∀ u, (dir = 1 ∧ u < prev) ∨ (dir = -1 ∧ prev < u) →
      tv dir prev xs = ext3 (u :: dedup (prev :: xs))) := by
  induction xs with
  | nil => intro dir prev; simp [tv]
  | cons x xs ih =>
    intro dir prev
    by_cases hx : x = prev
    · subst hx
      have h0 : sgn (x - x) = 0 := PylifeVerif.Rainflow.sgn_self x
      simp only [tv, h0, if_true]
      rw [dedup_cons_cons, if_pos rfl]
      exact ih dir x
    · have hne : prev ≠ x := fun h => hx h.symm
      obtain ⟨D, hD⟩ := dedup_head x xs
      rw [dedup_cons_cons, if_neg hne, hD]
      have ihx := fun d => (ih d x).2 prev
      rw [hD] at ihx
      have htv : ∀ dir, sgn (x - prev) ≠ 0 → tv dir prev (x :: xs) =
          if dir ≠ 0 ∧ sgn (x - prev) ≠ dir then prev :: tv (sgn (x - prev)) x xs
          else tv (sgn (x - prev)) x xs := by
        intro dir h0
        simp only [tv, if_neg h0]
      rcases PylifeVerif.Rainflow.sgn_cases (x - prev) with h | h | h
      · omega
      · have hd0 : sgn (x - prev) ≠ 0 := by omega
        have ih1 := ihx 1 (Or.inl ⟨rfl, by omega⟩)
        refine ⟨fun hdir => ?_, fun u hu => ?_⟩
        · subst hdir
          rw [htv 0 hd0, h.1, if_neg (by decide)]
          exact ih1
        · rcases hu with ⟨hdir, hu⟩ | ⟨hdir, hu⟩
          · subst hdir
            rw [htv 1 hd0, h.1, if_neg (by decide), ih1, ext3]
            have : ¬ ((u < prev ∧ x < prev) ∨ (u > prev ∧ x > prev)) := by omega
            simp [this]
          · subst hdir
            rw [htv (-1) hd0, h.1, if_pos (by decide), ih1, ext3]
            have : (u < prev ∧ x < prev) ∨ (u > prev ∧ x > prev) := by omega
            simp [this]
      · have hd0 : sgn (x - prev) ≠ 0 := by omega
        have ih1 := ihx (-1) (Or.inr ⟨rfl, by omega⟩)
        refine ⟨fun hdir => ?_, fun u hu => ?_⟩
        · subst hdir
          rw [htv 0 hd0, h.1, if_neg (by decide)]
          exact ih1
        · rcases hu with ⟨hdir, hu⟩ | ⟨hdir, hu⟩
          · subst hdir
            rw [htv 1 hd0, h.1, if_pos (by decide), ih1, ext3]
            have : (u < prev ∧ x < prev) ∨ (u > prev ∧ x > prev) := by omega
            simp [this]
          · subst hdir
            rw [htv (-1) hd0, h.1, if_neg (by decide), ih1, ext3]
            have : ¬ ((u < prev ∧ x < prev) ∨ (u > prev ∧ x > prev)) := by omega
            simp [this]

theorem tv_eq_ext3 (x : Int) (xs : List Int) : tv 0 x xs = ext3 (dedup (x :: xs)) :=
  (tv_eq_ext3_aux xs 0 x).1 rfl

/-- the next reported value (or the last sample) lies in the current direction -/
theorem tv_next (xs : List Int) : ∀ (dir prev h : Int),
    (tv dir prev xs ++ [(tvSt dir prev xs).2]).head? = some h →
    (dir = 1 → prev ≤ h) ∧ (dir = -1 → h ≤ prev) := by
  induction xs with
  | nil =>
    intro dir prev h hh
    simp only [tv, tvSt, List.nil_append, List.head?_cons, Option.some.injEq] at hh
    subst hh; omega
  | cons x xs ih =>
    intro dir prev h hh
    simp only [tv, tvSt] at hh
    rcases PylifeVerif.Rainflow.sgn_cases (x - prev) with hs | hs | hs
    · have hx : x = prev := by omega
      subst hx
      simp only [hs.1, if_true] at hh
      exact ih dir x h hh
    · have h0 : ¬ sgn (x - prev) = 0 := by omega
      simp only [if_neg h0] at hh
      by_cases hc : dir ≠ 0 ∧ sgn (x - prev) ≠ dir
      · simp only [if_pos hc, List.cons_append, List.head?_cons, Option.some.injEq] at hh
        subst hh; omega
      · simp only [if_neg hc] at hh
        have := ih _ x h hh
        rw [hs.1] at this hc
        omega
    · have h0 : ¬ sgn (x - prev) = 0 := by omega
      simp only [if_neg h0] at hh
      by_cases hc : dir ≠ 0 ∧ sgn (x - prev) ≠ dir
      · simp only [if_pos hc, List.cons_append, List.head?_cons, Option.some.injEq] at hh
        subst hh; omega
      · simp only [if_neg hc] at hh
        have := ih _ x h hh
        rw [hs.1] at this hc
        omega

/-- every sample lies between two of the values `first :: turning points ++ [last]` -/
theorem tv_bound (xs : List Int) : ∀ (dir prev y : Int), y ∈ prev :: xs →
    (∃ h ∈ prev :: (tv dir prev xs ++ [(tvSt dir prev xs).2]), y ≤ h) ∧
    (∃ l ∈ prev :: (tv dir prev xs ++ [(tvSt dir prev xs).2]), l ≤ y) := by
  induction xs with
  | nil =>
    intro dir prev y hy
    simp only [List.mem_singleton] at hy
    subst hy
    exact ⟨⟨y, by simp, Int.le_refl _⟩, ⟨y, by simp, Int.le_refl _⟩⟩
  | cons x xs ih =>
    intro dir prev y hy
    rcases List.mem_cons.1 hy with rfl | hy'
    · exact ⟨⟨y, by simp, Int.le_refl _⟩, ⟨y, by simp, Int.le_refl _⟩⟩
    · by_cases hx : x = prev
      · subst hx
        have h0 : sgn (x - x) = 0 := PylifeVerif.Rainflow.sgn_self x
        simp only [tv, tvSt, h0, if_true]
        exact ih dir x y hy'
      · have h0 : ¬ sgn (x - prev) = 0 := fun h => hx (by
          have := PylifeVerif.Rainflow.sgn_eq_zero h; omega)
        obtain ⟨⟨h, hh, hyh⟩, ⟨l, hl, hyl⟩⟩ := ih (sgn (x - prev)) x y hy'
        -- the recursive list is a sublist of ours, except for its head `x`
        have hsub : ∀ w ∈ tv (sgn (x - prev)) x xs ++ [(tvSt (sgn (x - prev)) x xs).2],
            w ∈ prev :: (tv dir prev (x :: xs) ++ [(tvSt dir prev (x :: xs)).2]) := by
          intro w hw
          simp only [tv, tvSt, if_neg h0]
          split_ifs
          · simp only [List.cons_append, List.mem_cons]; exact Or.inr (Or.inr hw)
          · exact List.mem_cons_of_mem _ hw
        obtain ⟨b, hb⟩ : ∃ b, (tv (sgn (x - prev)) x xs ++ [(tvSt (sgn (x - prev)) x xs).2]).head? = some b := by
          cases tv (sgn (x - prev)) x xs <;> simp
        have hbm : b ∈ tv (sgn (x - prev)) x xs ++ [(tvSt (sgn (x - prev)) x xs).2] :=
          List.mem_of_mem_head? hb
        have hn := tv_next xs (sgn (x - prev)) x b hb
        refine ⟨?_, ?_⟩
        · rcases List.mem_cons.1 hh with rfl | hh
          · rcases PylifeVerif.Rainflow.sgn_cases (h - prev) with hs | hs | hs
            · omega
            · exact ⟨b, hsub b hbm, by have := hn.1 hs.1; omega⟩
            · exact ⟨prev, by simp, by omega⟩
          · exact ⟨h, hsub h hh, hyh⟩
        · rcases List.mem_cons.1 hl with rfl | hl
          · rcases PylifeVerif.Rainflow.sgn_cases (l - prev) with hs | hs | hs
            · omega
            · exact ⟨prev, by simp, by omega⟩
            · exact ⟨b, hsub b hbm, by have := hn.2 hs.1; omega⟩
          · exact ⟨l, hsub l hl, hyl⟩

end PylifeVerif.C04
