/-
Full column rank of `A` ⇒ `det (AᵀA) ≠ 0` for the 3-column least-squares system of `Model/Mesh.lean`.
-/
import Proofs.Lemmas.Mesh
import Mathlib.LinearAlgebra.Matrix.ToLinearEquiv
import Mathlib.Tactic.Positivity

namespace PylifeVerif.Mesh

/-- The quadratic form of the normal matrix is the sum of the squared row products. -/
theorem sum_sq_eq_quadform (A : List (V3 ℝ)) (w : V3 ℝ) :
    (A.map fun a => (a.dot w) ^ 2).sum = w.dot ((normalMatrix A).mulVec w) := by
  simp only [normalMatrix, M3.mulVec, sumMap_eq_sum, V3.dot]
  induction A with
  | nil => simp
  | cons a A ih =>
    simp only [List.map_cons, List.sum_cons] at ih ⊢
    rw [ih]; ring

theorem sum_sq_eq_zero {β : Type} (f : β → ℝ) (l : List β) (h : (l.map fun a => (f a) ^ 2).sum = 0) :
    ∀ a ∈ l, f a = 0 := by
  induction l with
  | nil => simp
  | cons b l ih =>
    simp only [List.map_cons, List.sum_cons] at h
    have hnn : 0 ≤ (l.map fun a => (f a) ^ 2).sum := by
      apply List.sum_nonneg
      intro x hx
      rw [List.mem_map] at hx
      obtain ⟨a, _, rfl⟩ := hx
      positivity
    have h1 : (f b) ^ 2 = 0 := by nlinarith [sq_nonneg (f b)]
    have h2 : (l.map fun a => (f a) ^ 2).sum = 0 := by nlinarith [sq_nonneg (f b)]
    intro a ha
    rcases List.mem_cons.1 ha with rfl | ha
    · exact pow_eq_zero_iff (by norm_num) |>.1 h1
    · exact ih h2 a ha

def M3.toMatrix (m : M3 ℝ) : Matrix (Fin 3) (Fin 3) ℝ :=
  !![m.a11, m.a12, m.a13; m.a21, m.a22, m.a23; m.a31, m.a32, m.a33]

theorem det_toMatrix (m : M3 ℝ) : m.toMatrix.det = det3 m := by
  simp [M3.toMatrix, Matrix.det_fin_three, det3]; ring

theorem det3_normalMatrix_ne_zero (A : List (V3 ℝ))
    (hrank : ∀ v : V3 ℝ, (∀ a ∈ A, a.dot v = 0) → v = ⟨0, 0, 0⟩) :
    det3 (normalMatrix A) ≠ 0 := by
  intro hdet
  rw [← det_toMatrix] at hdet
  obtain ⟨v, hv0, hv⟩ := Matrix.exists_mulVec_eq_zero_iff.2 hdet
  set w : V3 ℝ := ⟨v 0, v 1, v 2⟩ with hw
  have h0 := congrFun hv 0
  have h1 := congrFun hv 1
  have h2 := congrFun hv 2
  simp [M3.toMatrix, Matrix.mulVec, dotProduct, Fin.sum_univ_three] at h0 h1 h2
  have hq : w.dot ((normalMatrix A).mulVec w) = 0 := by
    simp only [V3.dot, M3.mulVec, hw]
    rw [h0, h1, h2]; ring
  rw [← sum_sq_eq_quadform] at hq
  have hz := hrank w (sum_sq_eq_zero _ _ hq)
  apply hv0
  funext i
  have hx := congrArg V3.x hz
  have hy := congrArg V3.y hz
  have hzz := congrArg V3.z hz
  simp only [hw] at hx hy hzz
  fin_cases i <;> simp [hx, hy, hzz]

end PylifeVerif.Mesh
