import Proofs.Lemmas.Meanstress
namespace PylifeVerif.Meanstress
open ExtR

theorem key_lt_m1 {q : ℝ} (h : 1 < q) : (1 + q) / (1 - q) < -1 := by
  rw [div_lt_iff_of_neg (by linarith)]; linarith
theorem m1_lt_key {q : ℝ} (h : q < 1) : -1 < (1 + q) / (1 - q) := by
  rw [lt_div_iff₀ (by linarith)]; linarith
theorem key_lt_3 {q : ℝ} (h : q < 1) : (1 + q) / (1 - q) < 3 ↔ q < 1/2 := by
  rw [div_lt_iff₀ (by linarith)]; constructor <;> intro <;> linarith
theorem three_lt_key {q : ℝ} (h : q < 1) : 3 < (1 + q) / (1 - q) ↔ 1/2 < q := by
  rw [lt_div_iff₀ (by linarith)]; constructor <;> intro <;> linarith

def G0 : Seg ℝ := ⟨fin 1.0, pinf, 0.0⟩
def G1 (M : ℝ) : Seg ℝ := ⟨ninf, fin 0.0, M⟩
def G2 (M2 : ℝ) : Seg ℝ := ⟨fin 0.0, fin 1.0, M2⟩
theorem goodman_eq (M M2 : ℝ) : goodman M M2 = [G0, G1 M, G2 M2] := rfl
@[simp] theorem key0 : segKey G0 = ninf := by simp [segKey, G0, mid]
@[simp] theorem key1 (M : ℝ) : segKey (G1 M) = fin (-1) := by simp [segKey, G1, mid, fake]
@[simp] theorem key2 (M : ℝ) : segKey (G2 M) = fin 3 := by simp [segKey, G2, mid, fake]; norm_num


theorem left_ninf (M M2 : ℝ) : segsLeft (goodman M M2) ninf = [G0] := by
  norm_num [segsLeft, goodman_eq, goalKey, List.filter, ExtR.lt, insertAsc]
theorem right_ninf (M M2 : ℝ) : segsRight (goodman M M2) ninf = [G2 M2] := by
  norm_num [segsRight, goodman_eq, goalKey, List.filter, ExtR.lt, insertDesc]
theorem cont_ninf (M M2 : ℝ) : segsContaining (goodman M M2) ninf = [G1 M] := by
  norm_num [segsContaining, goodman_eq, List.filter, ExtR.lt, ExtR.le, G0, G1, G2]
-- q > 1
theorem left_gt1 (M M2 q : ℝ) (h : 1 < q) : segsLeft (goodman M M2) (fin q) = [G0] := by
  have := key_lt_m1 h
  have h1 : ¬ (-1 < (1 + q) / (1 - q)) := by linarith
  have h2 : ¬ (3 < (1 + q) / (1 - q)) := by linarith
  norm_num [segsLeft, goodman_eq, goalKey, fake, List.filter, ExtR.lt, insertAsc, h1, h2]
theorem right_gt1 (M M2 q : ℝ) (h : 1 < q) : segsRight (goodman M M2) (fin q) = [G2 M2, G1 M] := by
  have := key_lt_m1 h
  have h2 : (1 + q) / (1 - q) < 3 := by linarith
  norm_num [segsRight, goodman_eq, goalKey, fake, List.filter, ExtR.lt, insertDesc, this, h2]
theorem cont_gt1 (M M2 q : ℝ) (h : 1 < q) : segsContaining (goodman M M2) (fin q) = [G0] := by
  have h0 : ¬ q ≤ 0 := by linarith
  have h1 : ¬ q ≤ 1 := by linarith
  norm_num [segsContaining, goodman_eq, List.filter, ExtR.lt, ExtR.le, G0, G1, G2, h, h0, h1]
-- q < 1
theorem left_lt1 (M M2 q : ℝ) (h : q < 1) :
    segsLeft (goodman M M2) (fin q) = if 1/2 < q then [G0, G1 M, G2 M2] else [G0, G1 M] := by
  have h1 := m1_lt_key h
  by_cases h2 : 1/2 < q
  · have := (three_lt_key h).2 h2
    norm_num [segsLeft, goodman_eq, goalKey, fake, List.filter, ExtR.lt, insertAsc, h1, h2, this]
  · have : ¬ 3 < (1 + q) / (1 - q) := fun h' => h2 ((three_lt_key h).1 h')
    norm_num [segsLeft, goodman_eq, goalKey, fake, List.filter, ExtR.lt, insertAsc, h1, h2, this]
theorem right_lt1 (M M2 q : ℝ) (h : q < 1) :
    segsRight (goodman M M2) (fin q) = if q < 1/2 then [G2 M2] else [] := by
  have h1 := m1_lt_key h
  have h1' : ¬ (1 + q) / (1 - q) < -1 := by linarith
  by_cases h2 : q < 1/2
  · have := (key_lt_3 h).2 h2
    norm_num [segsRight, goodman_eq, goalKey, fake, List.filter, ExtR.lt, insertDesc, h1', h2, this]
  · have : ¬ (1 + q) / (1 - q) < 3 := fun h' => h2 ((key_lt_3 h).1 h')
    norm_num [segsRight, goodman_eq, goalKey, fake, List.filter, ExtR.lt, insertDesc, h1', h2, this]
theorem cont_lt1 (M M2 q : ℝ) (h : q < 1) :
    segsContaining (goodman M M2) (fin q) = if q ≤ 0 then [G1 M] else [G2 M2] := by
  have h1 : ¬ 1 < q := by linarith
  by_cases h2 : q ≤ 0
  · have : ¬ 0 < q := by linarith
    norm_num [segsContaining, goodman_eq, List.filter, ExtR.lt, ExtR.le, G0, G1, G2, h1, h2, this]
  · have : 0 < q := by linarith
    norm_num [segsContaining, goodman_eq, List.filter, ExtR.lt, ExtR.le, G0, G1, G2, h1, h2, this, h.le]

/-- The R value after a step depends on the R value before only. -/
noncomputable def stepR (s : Seg ℝ) (g R : ExtR ℝ) : ExtR ℝ :=
  if (ExtR.le s.lo (push R g) && ExtR.le (push R g) s.hi) = true then normGoal g else R

theorem step_R (s : Seg ℝ) (g : ExtR ℝ) (c : Cyc ℝ) : (step s g c).R = stepR s g c.R := by
  unfold step stepR
  by_cases h : (ExtR.le s.lo (push c.R g) && ExtR.le (push c.R g) s.hi) = true
  · simp only [h, if_true]; rfl
  · simp only [h]; rfl

def ValidR : ExtR ℝ → Prop | fin r => r ≠ 1 | ninf => True | _ => False

theorem goodman_arrives_ninf (M M2 a : ℝ) (R : ExtR ℝ) (hR : ValidR R) :
    (transform (goodman M M2) ninf ⟨a, R⟩).R = ninf := by
  rw [transform_eq, afterRight, afterLeft, left_ninf, right_ninf, cont_ninf]
  simp only [List.foldl, step_R]
  rcases R with r | _ | _ | _
  · simp only [ValidR] at hR
    rcases lt_trichotomy r 0 with h | h | h
    · have h1 : ¬ 1 ≤ r := by linarith
      have h0 : ¬ 0 ≤ r := by linarith
      norm_num [stepR, push, G0, G1, G2, leftBoundary, ExtR.le, ExtR.lt, normGoal, isOne, h1, h0, h.le]
    · subst h
      norm_num [stepR, push, G0, G1, G2, leftBoundary, ExtR.le, ExtR.lt, normGoal, isOne]
    · rcases lt_or_gt_of_ne hR with h1 | h1
      · have : ¬ 1 ≤ r := by linarith
        norm_num [stepR, push, G0, G1, G2, leftBoundary, ExtR.le, ExtR.lt, normGoal, isOne, this, h.le, h1.le]
      · norm_num [stepR, push, G0, G1, G2, leftBoundary, ExtR.le, ExtR.lt, normGoal, isOne, h1.le]
  · exact absurd hR (by simp [ValidR])
  · norm_num [stepR, push, G0, G1, G2, leftBoundary, ExtR.le, ExtR.lt, normGoal, isOne]
  · exact absurd hR (by simp [ValidR])

theorem goodman_arrives_gt1 (M M2 a q : ℝ) (hq : 1 < q) (R : ExtR ℝ) (hR : ValidR R) :
    (transform (goodman M M2) (fin q) ⟨a, R⟩).R = fin q := by
  rw [transform_eq, afterRight, afterLeft, left_gt1 _ _ _ hq, right_gt1 _ _ _ hq, cont_gt1 _ _ _ hq]
  have fqa : ¬ (q < 1) := by linarith
  have fqb : 1 < q := by linarith
  have fqc : ¬ (q ≤ 1) := by linarith
  have fqd : 1 ≤ q := by linarith
  have fqe : 0 ≤ q := by linarith
  have fqf : ¬ (q ≤ 0) := by linarith
  have fqg : ¬ (q ≤ 1 ∧ 1 ≤ q) := fun h => by linarith [h.1, h.2]
  simp only [List.foldl, step_R]
  rcases R with r | _ | _ | _
  · simp only [ValidR] at hR
    rcases lt_trichotomy r 0 with h | h | h
    · have fra : r < 1 := by linarith
      have frb : ¬ (1 < r) := by linarith
      have frc : r ≤ 1 := by linarith
      have frd : ¬ (1 ≤ r) := by linarith
      have fre : ¬ (0 ≤ r) := by linarith
      have frf : r ≤ 0 := by linarith
      have frg : ¬ (r ≤ 1 ∧ 1 ≤ r) := fun h => by linarith [h.1, h.2]
      norm_num [stepR, push, G0, G1, G2, leftBoundary, ExtR.le, ExtR.lt, normGoal, isOne, fra, frb, frc, frd, fre, frf, frg, fqa, fqb, fqc, fqd, fqe, fqf, fqg]
    · subst h
      norm_num [stepR, push, G0, G1, G2, leftBoundary, ExtR.le, ExtR.lt, normGoal, isOne, fqa, fqb, fqc, fqd, fqe, fqf, fqg]
    · rcases lt_or_gt_of_ne hR with h1 | h1
      · have fra : r < 1 := by linarith
        have frb : ¬ (1 < r) := by linarith
        have frc : r ≤ 1 := by linarith
        have frd : ¬ (1 ≤ r) := by linarith
        have fre : 0 ≤ r := by linarith
        have frf : ¬ (r ≤ 0) := by linarith
        have frg : ¬ (r ≤ 1 ∧ 1 ≤ r) := fun h => by linarith [h.1, h.2]
        norm_num [stepR, push, G0, G1, G2, leftBoundary, ExtR.le, ExtR.lt, normGoal, isOne, fra, frb, frc, frd, fre, frf, frg, fqa, fqb, fqc, fqd, fqe, fqf, fqg]
      · have fra : ¬ (r < 1) := by linarith
        have frb : 1 < r := by linarith
        have frc : ¬ (r ≤ 1) := by linarith
        have frd : 1 ≤ r := by linarith
        have fre : 0 ≤ r := by linarith
        have frf : ¬ (r ≤ 0) := by linarith
        have frg : ¬ (r ≤ 1 ∧ 1 ≤ r) := fun h => by linarith [h.1, h.2]
        norm_num [stepR, push, G0, G1, G2, leftBoundary, ExtR.le, ExtR.lt, normGoal, isOne, fra, frb, frc, frd, fre, frf, frg, fqa, fqb, fqc, fqd, fqe, fqf, fqg]
  · exact absurd hR (by simp [ValidR])
  · norm_num [stepR, push, G0, G1, G2, leftBoundary, ExtR.le, ExtR.lt, normGoal, isOne, fqa, fqb, fqc, fqd, fqe, fqf, fqg]
  · exact absurd hR (by simp [ValidR])

theorem goodman_arrives_le0 (M M2 a q : ℝ) (hq0 : q ≤ 0) (R : ExtR ℝ) (hR : ValidR R) :
    (transform (goodman M M2) (fin q) ⟨a, R⟩).R = fin q := by
  have hq1 : q < 1 := by linarith
  rw [transform_eq, afterRight, afterLeft, left_lt1 _ _ _ hq1, right_lt1 _ _ _ hq1, cont_lt1 _ _ _ hq1]
  rw [if_neg (by linarith : ¬ (1/2 < q)), if_pos (by linarith : q < 1/2), if_pos hq0]
  have fqa : q < 1 := by linarith
  have fqb : ¬ (1 < q) := by linarith
  have fqc : q ≤ 1 := by linarith
  have fqd : ¬ (1 ≤ q) := by linarith
  have fqf : q ≤ 0 := by linarith
  have fqg : ¬ (q ≤ 1 ∧ 1 ≤ q) := fun h => by linarith [h.1, h.2]
  simp only [List.foldl, step_R]
  rcases R with r | _ | _ | _
  · simp only [ValidR] at hR
    rcases lt_trichotomy r 0 with h | h | h
    · have fra : r < 1 := by linarith
      have frb : ¬ (1 < r) := by linarith
      have frc : r ≤ 1 := by linarith
      have frd : ¬ (1 ≤ r) := by linarith
      have fre : ¬ (0 ≤ r) := by linarith
      have frf : r ≤ 0 := by linarith
      have frg : ¬ (r ≤ 1 ∧ 1 ≤ r) := fun h => by linarith [h.1, h.2]
      norm_num [stepR, push, G0, G1, G2, leftBoundary, ExtR.le, ExtR.lt, normGoal, isOne, fra, frb, frc, frd, fre, frf, frg, fqa, fqb, fqc, fqd, fqf, fqg]
    · subst h
      norm_num [stepR, push, G0, G1, G2, leftBoundary, ExtR.le, ExtR.lt, normGoal, isOne, fqa, fqb, fqc, fqd, fqf, fqg]
    · rcases lt_or_gt_of_ne hR with h1 | h1
      · have fra : r < 1 := by linarith
        have frb : ¬ (1 < r) := by linarith
        have frc : r ≤ 1 := by linarith
        have frd : ¬ (1 ≤ r) := by linarith
        have fre : 0 ≤ r := by linarith
        have frf : ¬ (r ≤ 0) := by linarith
        have frg : ¬ (r ≤ 1 ∧ 1 ≤ r) := fun h => by linarith [h.1, h.2]
        norm_num [stepR, push, G0, G1, G2, leftBoundary, ExtR.le, ExtR.lt, normGoal, isOne, fra, frb, frc, frd, fre, frf, frg, fqa, fqb, fqc, fqd, fqf, fqg]
      · have fra : ¬ (r < 1) := by linarith
        have frb : 1 < r := by linarith
        have frc : ¬ (r ≤ 1) := by linarith
        have frd : 1 ≤ r := by linarith
        have fre : 0 ≤ r := by linarith
        have frf : ¬ (r ≤ 0) := by linarith
        have frg : ¬ (r ≤ 1 ∧ 1 ≤ r) := fun h => by linarith [h.1, h.2]
        norm_num [stepR, push, G0, G1, G2, leftBoundary, ExtR.le, ExtR.lt, normGoal, isOne, fra, frb, frc, frd, fre, frf, frg, fqa, fqb, fqc, fqd, fqf, fqg]
  · exact absurd hR (by simp [ValidR])
  · norm_num [stepR, push, G0, G1, G2, leftBoundary, ExtR.le, ExtR.lt, normGoal, isOne, fqa, fqb, fqc, fqd, fqf, fqg]
  · exact absurd hR (by simp [ValidR])

theorem goodman_arrives_c (M M2 a q : ℝ) (hq0 : 0 < q) (hq2 : q < 1/2) (R : ExtR ℝ) (hR : ValidR R) :
    (transform (goodman M M2) (fin q) ⟨a, R⟩).R = fin q := by
  have hq1 : q < 1 := by linarith
  rw [transform_eq, afterRight, afterLeft, left_lt1 _ _ _ hq1, right_lt1 _ _ _ hq1, cont_lt1 _ _ _ hq1]
  rw [if_neg (by linarith : ¬ (1/2 < q)), if_pos hq2, if_neg (by linarith : ¬ q ≤ 0)]
  have fqa : q < 1 := by linarith
  have fqb : ¬ (1 < q) := by linarith
  have fqc : q ≤ 1 := by linarith
  have fqd : ¬ (1 ≤ q) := by linarith
  have fqe : 0 ≤ q := by linarith
  have fqf : ¬ (q ≤ 0) := by linarith
  have fqg : ¬ (q ≤ 1 ∧ 1 ≤ q) := fun h => by linarith [h.1, h.2]
  simp only [List.foldl, step_R]
  rcases R with r | _ | _ | _
  · simp only [ValidR] at hR
    rcases lt_trichotomy r 0 with h | h | h
    · have fra : r < 1 := by linarith
      have frb : ¬ (1 < r) := by linarith
      have frc : r ≤ 1 := by linarith
      have frd : ¬ (1 ≤ r) := by linarith
      have fre : ¬ (0 ≤ r) := by linarith
      have frf : r ≤ 0 := by linarith
      have frg : ¬ (r ≤ 1 ∧ 1 ≤ r) := fun h => by linarith [h.1, h.2]
      norm_num [stepR, push, G0, G1, G2, leftBoundary, ExtR.le, ExtR.lt, normGoal, isOne, fra, frb, frc, frd, fre, frf, frg, fqa, fqb, fqc, fqd, fqe, fqf, fqg]
    · subst h
      norm_num [stepR, push, G0, G1, G2, leftBoundary, ExtR.le, ExtR.lt, normGoal, isOne, fqa, fqb, fqc, fqd, fqe, fqf, fqg]
    · rcases lt_or_gt_of_ne hR with h1 | h1
      · have fra : r < 1 := by linarith
        have frb : ¬ (1 < r) := by linarith
        have frc : r ≤ 1 := by linarith
        have frd : ¬ (1 ≤ r) := by linarith
        have fre : 0 ≤ r := by linarith
        have frf : ¬ (r ≤ 0) := by linarith
        have frg : ¬ (r ≤ 1 ∧ 1 ≤ r) := fun h => by linarith [h.1, h.2]
        norm_num [stepR, push, G0, G1, G2, leftBoundary, ExtR.le, ExtR.lt, normGoal, isOne, fra, frb, frc, frd, fre, frf, frg, fqa, fqb, fqc, fqd, fqe, fqf, fqg]
      · have fra : ¬ (r < 1) := by linarith
        have frb : 1 < r := by linarith
        have frc : ¬ (r ≤ 1) := by linarith
        have frd : 1 ≤ r := by linarith
        have fre : 0 ≤ r := by linarith
        have frf : ¬ (r ≤ 0) := by linarith
        have frg : ¬ (r ≤ 1 ∧ 1 ≤ r) := fun h => by linarith [h.1, h.2]
        norm_num [stepR, push, G0, G1, G2, leftBoundary, ExtR.le, ExtR.lt, normGoal, isOne, fra, frb, frc, frd, fre, frf, frg, fqa, fqb, fqc, fqd, fqe, fqf, fqg]
  · exact absurd hR (by simp [ValidR])
  · norm_num [stepR, push, G0, G1, G2, leftBoundary, ExtR.le, ExtR.lt, normGoal, isOne, fqa, fqb, fqc, fqd, fqe, fqf, fqg]
  · exact absurd hR (by simp [ValidR])

theorem goodman_arrives_e (M M2 a q : ℝ) (hq2 : 1/2 < q) (hq1 : q < 1) (R : ExtR ℝ) (hR : ValidR R) :
    (transform (goodman M M2) (fin q) ⟨a, R⟩).R = fin q := by
  rw [transform_eq, afterRight, afterLeft, left_lt1 _ _ _ hq1, right_lt1 _ _ _ hq1, cont_lt1 _ _ _ hq1]
  rw [if_pos hq2, if_neg (by linarith : ¬ q < 1/2), if_neg (by linarith : ¬ q ≤ 0)]
  have fqa : q < 1 := by linarith
  have fqb : ¬ (1 < q) := by linarith
  have fqc : q ≤ 1 := by linarith
  have fqd : ¬ (1 ≤ q) := by linarith
  have fqe : 0 ≤ q := by linarith
  have fqf : ¬ (q ≤ 0) := by linarith
  have fqg : ¬ (q ≤ 1 ∧ 1 ≤ q) := fun h => by linarith [h.1, h.2]
  simp only [List.foldl, step_R]
  rcases R with r | _ | _ | _
  · simp only [ValidR] at hR
    rcases lt_trichotomy r 0 with h | h | h
    · have fra : r < 1 := by linarith
      have frb : ¬ (1 < r) := by linarith
      have frc : r ≤ 1 := by linarith
      have frd : ¬ (1 ≤ r) := by linarith
      have fre : ¬ (0 ≤ r) := by linarith
      have frf : r ≤ 0 := by linarith
      have frg : ¬ (r ≤ 1 ∧ 1 ≤ r) := fun h => by linarith [h.1, h.2]
      norm_num [stepR, push, G0, G1, G2, leftBoundary, ExtR.le, ExtR.lt, normGoal, isOne, fra, frb, frc, frd, fre, frf, frg, fqa, fqb, fqc, fqd, fqe, fqf, fqg]
    · subst h
      norm_num [stepR, push, G0, G1, G2, leftBoundary, ExtR.le, ExtR.lt, normGoal, isOne, fqa, fqb, fqc, fqd, fqe, fqf, fqg]
    · rcases lt_or_gt_of_ne hR with h1 | h1
      · have fra : r < 1 := by linarith
        have frb : ¬ (1 < r) := by linarith
        have frc : r ≤ 1 := by linarith
        have frd : ¬ (1 ≤ r) := by linarith
        have fre : 0 ≤ r := by linarith
        have frf : ¬ (r ≤ 0) := by linarith
        have frg : ¬ (r ≤ 1 ∧ 1 ≤ r) := fun h => by linarith [h.1, h.2]
        norm_num [stepR, push, G0, G1, G2, leftBoundary, ExtR.le, ExtR.lt, normGoal, isOne, fra, frb, frc, frd, fre, frf, frg, fqa, fqb, fqc, fqd, fqe, fqf, fqg]
      · have fra : ¬ (r < 1) := by linarith
        have frb : 1 < r := by linarith
        have frc : ¬ (r ≤ 1) := by linarith
        have frd : 1 ≤ r := by linarith
        have fre : 0 ≤ r := by linarith
        have frf : ¬ (r ≤ 0) := by linarith
        have frg : ¬ (r ≤ 1 ∧ 1 ≤ r) := fun h => by linarith [h.1, h.2]
        norm_num [stepR, push, G0, G1, G2, leftBoundary, ExtR.le, ExtR.lt, normGoal, isOne, fra, frb, frc, frd, fre, frf, frg, fqa, fqb, fqc, fqd, fqe, fqf, fqg]
  · exact absurd hR (by simp [ValidR])
  · norm_num [stepR, push, G0, G1, G2, leftBoundary, ExtR.le, ExtR.lt, normGoal, isOne, fqa, fqb, fqc, fqd, fqe, fqf, fqg]
  · exact absurd hR (by simp [ValidR])

theorem goodman_arrives_half (M M2 a : ℝ) (R : ExtR ℝ) (hR : ValidR R) :
    (transform (goodman M M2) (fin (1/2)) ⟨a, R⟩).R = fin (1/2) := by
  have hq1 : (1/2 : ℝ) < 1 := by norm_num
  rw [transform_eq, afterRight, afterLeft, left_lt1 _ _ _ hq1, right_lt1 _ _ _ hq1, cont_lt1 _ _ _ hq1]
  rw [if_neg (by norm_num : ¬ ((1:ℝ)/2 < 1/2)), if_neg (by norm_num : ¬ ((1:ℝ)/2 < 1/2)), if_neg (by norm_num : ¬ ((1:ℝ)/2 ≤ 0))]
  simp only [List.foldl, step_R]
  rcases R with r | _ | _ | _
  · simp only [ValidR] at hR
    rcases lt_trichotomy r 0 with h | h | h
    · have fra : r < 1 := by linarith
      have frb : ¬ (1 < r) := by linarith
      have frc : r ≤ 1 := by linarith
      have frd : ¬ (1 ≤ r) := by linarith
      have fre : ¬ (0 ≤ r) := by linarith
      have frf : r ≤ 0 := by linarith
      have frg : ¬ (r ≤ 1 ∧ 1 ≤ r) := fun h => by linarith [h.1, h.2]
      norm_num [stepR, push, G0, G1, G2, leftBoundary, ExtR.le, ExtR.lt, normGoal, isOne, fra, frb, frc, frd, fre, frf, frg]
    · subst h
      norm_num [stepR, push, G0, G1, G2, leftBoundary, ExtR.le, ExtR.lt, normGoal, isOne, ]
    · rcases lt_or_gt_of_ne hR with h1 | h1
      · have fra : r < 1 := by linarith
        have frb : ¬ (1 < r) := by linarith
        have frc : r ≤ 1 := by linarith
        have frd : ¬ (1 ≤ r) := by linarith
        have fre : 0 ≤ r := by linarith
        have frf : ¬ (r ≤ 0) := by linarith
        have frg : ¬ (r ≤ 1 ∧ 1 ≤ r) := fun h => by linarith [h.1, h.2]
        norm_num [stepR, push, G0, G1, G2, leftBoundary, ExtR.le, ExtR.lt, normGoal, isOne, fra, frb, frc, frd, fre, frf, frg]
      · have fra : ¬ (r < 1) := by linarith
        have frb : 1 < r := by linarith
        have frc : ¬ (r ≤ 1) := by linarith
        have frd : 1 ≤ r := by linarith
        have fre : 0 ≤ r := by linarith
        have frf : ¬ (r ≤ 0) := by linarith
        have frg : ¬ (r ≤ 1 ∧ 1 ≤ r) := fun h => by linarith [h.1, h.2]
        norm_num [stepR, push, G0, G1, G2, leftBoundary, ExtR.le, ExtR.lt, normGoal, isOne, fra, frb, frc, frd, fre, frf, frg]
  · exact absurd hR (by simp [ValidR])
  · norm_num [stepR, push, G0, G1, G2, leftBoundary, ExtR.le, ExtR.lt, normGoal, isOne, ]
  · exact absurd hR (by simp [ValidR])


/-- `HaighDiagram.transform` with the FKM-Goodman diagram delivers every cycle at the target R. -/
theorem goodman_arrives (M M2 a : ℝ) (g R : ExtR ℝ) (hg : ValidR g) (hR : ValidR R) :
    (transform (goodman M M2) g ⟨a, R⟩).R = g := by
  rcases g with q | _ | _ | _
  · simp only [ValidR] at hg
    rcases lt_or_gt_of_ne hg with h | h
    · rcases le_or_gt q 0 with h0 | h0
      · exact goodman_arrives_le0 M M2 a q h0 R hR
      · rcases lt_trichotomy q (1/2) with h2 | h2 | h2
        · exact goodman_arrives_c M M2 a q h0 h2 R hR
        · subst h2; exact goodman_arrives_half M M2 a R hR
        · exact goodman_arrives_e M M2 a q h2 h R hR
    · exact goodman_arrives_gt1 M M2 a q h R hR
  · exact absurd hg (by simp [ValidR])
  · exact goodman_arrives_ninf M M2 a R hR
  · exact absurd hg (by simp [ValidR])

/-- The iso-damage potential of the FKM-Goodman diagram (normalised to 1 at R = -1). -/
noncomputable def hG (M M2 x : ℝ) : ℝ :=
  if x ≤ -1 then 1 - M else if x ≤ 1 then 1 + M * x else (1 + M) / (1 + M2) * (1 + M2 * x)

theorem hG_seg0 (M M2 : ℝ) {x : ℝ} (h : x ≤ -1) : hG M M2 x = 1 - M := by simp [hG, h]
theorem hG_seg1 (M M2 : ℝ) {x : ℝ} (h1 : -1 ≤ x) (h2 : x ≤ 1) : hG M M2 x = 1 + M * x := by
  unfold hG; split_ifs with h
  · have : x = -1 := le_antisymm h h1
    subst this; ring
  · rfl
theorem hG_seg2 (M M2 : ℝ) (hM2 : 1 + M2 ≠ 0) {x : ℝ} (h : 1 ≤ x) :
    hG M M2 x = (1 + M) / (1 + M2) * (1 + M2 * x) := by
  unfold hG; split_ifs with h1 h2
  · linarith
  · have : x = 1 := le_antisymm h2 h
    subst this; field_simp
  · rfl

theorem pos_lt_m1 {r : ℝ} (h : 1 < r) : pos (fin r) < -1 := key_lt_m1 h
theorem m1_lt_pos {r : ℝ} (h : r < 1) : -1 < pos (fin r) := m1_lt_key h
theorem pos_le_1 {r : ℝ} (h : r ≤ 0) : pos (fin r) ≤ 1 := by
  unfold pos; rw [div_le_iff₀ (by linarith)]; linarith
theorem one_le_pos {r : ℝ} (h0 : 0 ≤ r) (h1 : r < 1) : 1 ≤ pos (fin r) := by
  unfold pos; rw [le_div_iff₀ (by linarith)]; linarith

theorem pot0 (M M2 : ℝ) (R : ExtR ℝ) (hm : memSeg R G0) (h1 : R.isOne = false) :
    hG M M2 (pos R) = (1 - M) * (1 + G0.M * pos R) := by
  rcases R with r | _ | _ | _
  · simp only [memSeg, G0, ExtR.le, lit1, Bool.and_true, decide_eq_true_eq] at hm
    simp only [ExtR.isOne, lit1, decide_eq_false_iff_not, not_and_or, not_le] at h1
    have : 1 < r := by rcases h1 with h | h <;> linarith
    rw [hG_seg0 _ _ (pos_lt_m1 this).le]; simp [G0]
  · rw [hG_seg0 _ _ (by simp [pos])]; simp [G0]
  · simp [memSeg, G0, ExtR.le] at hm
  · simp [memSeg, G0, ExtR.le] at hm

theorem pot1 (M M2 : ℝ) (R : ExtR ℝ) (hm : memSeg R (G1 M)) :
    hG M M2 (pos R) = 1 * (1 + (G1 M).M * pos R) := by
  rcases R with r | _ | _ | _
  · simp only [memSeg, G1, ExtR.le, lit0, Bool.true_and, decide_eq_true_eq] at hm
    rw [hG_seg1 _ _ (m1_lt_pos (by linarith)).le (pos_le_1 hm)]; simp [G1]
  · simp [memSeg, G1, ExtR.le] at hm
  · rw [hG_seg1 _ _ (by simp [pos]) (by simp [pos])]; simp [G1]
  · simp [memSeg, G1, ExtR.le] at hm

theorem pot2 (M M2 : ℝ) (hM2 : 1 + M2 ≠ 0) (R : ExtR ℝ) (hm : memSeg R (G2 M2)) (h1 : R.isOne = false) :
    hG M M2 (pos R) = (1 + M) / (1 + M2) * (1 + (G2 M2).M * pos R) := by
  rcases R with r | _ | _ | _
  · simp only [memSeg, G2, ExtR.le, lit0, lit1, Bool.and_eq_true, decide_eq_true_eq] at hm
    simp only [ExtR.isOne, lit1, decide_eq_false_iff_not, not_and_or, not_le] at h1
    have : r < 1 := by rcases h1 with h | h <;> linarith [hm.2]
    rw [hG_seg2 _ _ hM2 (one_le_pos hm.1 this)]; simp [G2]
  · simp [memSeg, G2, ExtR.le] at hm
  · simp [memSeg, G2, ExtR.le] at hm
  · simp [memSeg, G2, ExtR.le] at hm


theorem mem_containing {D : List (Seg ℝ)} {g : ExtR ℝ} {s : Seg ℝ} (h : s ∈ segsContaining D g) :
    (ExtR.lt s.lo g && ExtR.le g s.hi) = true ∨ (ExtR.le s.lo g && ExtR.lt g s.hi) = true := by
  unfold segsContaining at h
  simp only at h
  split at h
  · exact Or.inr (List.mem_filter.1 h).2
  · exact Or.inl (List.mem_filter.1 h).2

theorem normGoal_valid {g : ExtR ℝ} (hg : ValidR g) : normGoal g = g := by
  rcases g with q | _ | _ | _ <;> simp [ValidR] at hg <;> simp [normGoal, ExtR.isOne]
  intro h1; exact lt_of_le_of_ne h1 hg

theorem isOne_valid {g : ExtR ℝ} (hg : ValidR g) : g.isOne = false := by
  rcases g with q | _ | _ | _ <;> simp [ValidR] at hg <;> simp [ExtR.isOne]
  intro h1; exact lt_of_le_of_ne h1 hg

/-- `hG` is an iso-damage potential of the FKM-Goodman diagram for every admissible target. -/
theorem goodman_compat (M M2 : ℝ) (hM2 : 1 + M2 ≠ 0) (g : ExtR ℝ) (hg : ValidR g) :
    Compat (hG M M2) (goodman M M2) g := by
  intro s hs
  rw [goodman_eq] at hs
  simp only [List.mem_cons, List.not_mem_nil, or_false] at hs
  have n1 : normGoal (fin (1:ℝ)) = ninf := by simp [normGoal, ExtR.isOne]
  have n0 : normGoal (fin (0:ℝ)) = fin 0 := by simp [normGoal, ExtR.isOne]
  rcases hs with rfl | rfl | rfl
  · -- (1, inf]
    have hb : SegPot (hG M M2) G0 (fin 1) :=
      ⟨1 - M, fun R hm h1 => pot0 M M2 R hm h1, by rw [n1, hG_seg0 _ _ (by simp [pos])]; simp [G0]⟩
    refine ⟨by simpa [leftBoundary, G0, ExtR.lt] using hb, by simpa [G0] using hb, fun hc => ?_⟩
    refine ⟨1 - M, fun R hm h1 => pot0 M M2 R hm h1, ?_⟩
    rw [normGoal_valid hg]
    have hm : memSeg g G0 := by
      rcases mem_containing hc with h | h
      · rcases g with q | _ | _ | _ <;> simp_all [memSeg, G0, ExtR.lt, ExtR.le, ValidR]
        exact h.le
      · rcases g with q | _ | _ | _ <;> simp_all [memSeg, G0, ExtR.lt, ExtR.le, ValidR]
    exact pot0 M M2 g hm (isOne_valid hg)
  · -- (-inf, 0]
    refine ⟨⟨1, fun R hm _ => pot1 M M2 R hm, ?_⟩, ⟨1, fun R hm _ => pot1 M M2 R hm, ?_⟩, fun hc => ⟨1, fun R hm _ => pot1 M M2 R hm, ?_⟩⟩
    · have : leftBoundary (G1 M) = fin 0 := by simp [leftBoundary, G1, ExtR.lt]
      rw [this, n0]; exact pot1 M M2 (fin 0) (by simp [memSeg, G1, ExtR.le])
    · have : (G1 M).lo = ninf := rfl
      rw [this, show normGoal (ninf : ExtR ℝ) = ninf by simp [normGoal, ExtR.isOne]]
      exact pot1 M M2 ninf (by simp [memSeg, G1, ExtR.le])
    · rw [normGoal_valid hg]
      have hm : memSeg g (G1 M) := by
        rcases mem_containing hc with h | h
        · rcases g with q | _ | _ | _ <;> simp_all [memSeg, G1, ExtR.lt, ExtR.le, ValidR]
        · rcases g with q | _ | _ | _ <;> simp_all [memSeg, G1, ExtR.lt, ExtR.le, ValidR]
          exact h.le
      exact pot1 M M2 g hm
  · -- (0, 1]
    have hb : SegPot (hG M M2) (G2 M2) (fin 0) :=
      ⟨(1 + M) / (1 + M2), fun R hm h1 => pot2 M M2 hM2 R hm h1, by
        rw [n0]; exact pot2 M M2 hM2 (fin 0) (by simp [memSeg, G2, ExtR.le]) (by simp [ExtR.isOne])⟩
    refine ⟨by simpa [leftBoundary, G2, ExtR.lt] using hb, by simpa [G2] using hb, fun hc => ?_⟩
    refine ⟨(1 + M) / (1 + M2), fun R hm h1 => pot2 M M2 hM2 R hm h1, ?_⟩
    rw [normGoal_valid hg]
    have hm : memSeg g (G2 M2) := by
      rcases mem_containing hc with h | h
      · rcases g with q | _ | _ | _ <;> simp_all [memSeg, G2, ExtR.lt, ExtR.le, ValidR]
        exact h.1.le
      · rcases g with q | _ | _ | _ <;> simp_all [memSeg, G2, ExtR.lt, ExtR.le, ValidR]
        exact h.2.le
    exact pot2 M M2 hM2 g hm (isOne_valid hg)

end PylifeVerif.Meanstress
