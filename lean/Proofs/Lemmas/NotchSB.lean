/-
Helper lemmas for C06 (Seeger-Beste): a lower bound of the middle term on the open bracket.
-/
import Proofs.Lemmas.Notch
import Mathlib.Analysis.SpecialFunctions.Trigonometric.Bounds
import Mathlib.Analysis.SpecialFunctions.Log.Basic
import Mathlib.Analysis.Real.Pi.Bounds

namespace PylifeVerif.Notch

/-- `1/(1+u²) ≤ 2/u² · ln(1/cos u)` for `0 < u < π/2` (from `cos u ≤ 1/√(1+u²)` and `1 − 1/y ≤ ln y`). -/
theorem log_term_lower {u : ℝ} (hu0 : 0 < u) (hu1 : u < Real.pi / 2) :
    1 / (1 + u * u) ≤ 2 / (u * u) * Real.log (1 / Real.cos u) := by
  have hpi := Real.pi_pos
  have hcos : 0 < Real.cos u := Real.cos_pos_of_mem_Ioo ⟨by linarith, hu1⟩
  have hle := Real.cos_le_one_div_sqrt_sq_add_one (x := u) (by linarith) (by linarith)
  have hq : 0 < u ^ 2 + 1 := by positivity
  have hsq : 0 < Real.sqrt (u ^ 2 + 1) := Real.sqrt_pos.mpr hq
  have h1 : Real.sqrt (u ^ 2 + 1) ≤ 1 / Real.cos u := by
    rw [le_div_iff₀ hcos]
    have := (le_div_iff₀ hsq).mp hle
    linarith
  have h2 : Real.log (Real.sqrt (u ^ 2 + 1)) ≤ Real.log (1 / Real.cos u) := Real.log_le_log hsq h1
  rw [Real.log_sqrt hq.le] at h2
  have h3 : 1 - (u ^ 2 + 1)⁻¹ ≤ Real.log (u ^ 2 + 1) := Real.one_sub_inv_le_log_of_pos hq
  have huu : 0 < u * u := mul_pos hu0 hu0
  have h4 : 1 - (u ^ 2 + 1)⁻¹ = u * u / (1 + u * u) := by field_simp; ring
  rw [h4] at h3
  have h5 : u * u / (1 + u * u) / 2 ≤ Real.log (1 / Real.cos u) := by linarith
  calc 1 / (1 + u * u) = 2 / (u * u) * (u * u / (1 + u * u) / 2) := by field_simp
    _ ≤ 2 / (u * u) * Real.log (1 / Real.cos u) := mul_le_mul_of_nonneg_left h5 (by positivity)

/-- on `0 < u < π/2` the middle term `2/u²·ln(1/cos u) + f² − f` is positive for every `f` -/
theorem middle_pos {u f : ℝ} (hu0 : 0 < u) (hu1 : u < Real.pi / 2) :
    0 < 2 / (u * u) * Real.log (1 / Real.cos u) + f * f - f := by
  have h := log_term_lower hu0 hu1
  have hpi : Real.pi < 3.15 := Real.pi_lt_d2
  have hu2 : u < 1.6 := by linarith
  have huu : u * u < 2.56 := by nlinarith
  have h1 : (1 : ℝ) / 3.56 < 1 / (1 + u * u) := by
    apply one_div_lt_one_div_of_lt (by positivity); linarith
  have h2 : -(1 / 4 : ℝ) ≤ f * f - f := by nlinarith [sq_nonneg (f - 1 / 2)]
  have h3 : (1 : ℝ) / 4 < 1 / 3.56 := by norm_num
  linarith

end PylifeVerif.Notch
