/-
Local characterisation of the turning points found by `findTurns` and its consequence for the HCM
detector: for a load sequence with two distinct values the first pass always flushes.
-/
import Proofs.Lemmas.HCMBasic

namespace PylifeVerif.HCM
open PylifeVerif.Rainflow

/-- first element different from `v` -/
def firstNe (v : Int) : List Int → Option Int
  | [] => none
  | y :: ys => if y = v then firstNe v ys else some y

theorem sgn_ne_zero_iff (x : Int) : sgn x ≠ 0 ↔ x ≠ 0 := by
  rcases Rainflow.sgn_cases x with h | h | h <;> omega

/-- reported indices: the candidate's or at least the current position -/
theorem findTurnsAux_idx (xs : List Int) : ∀ (dir : Int) (cand : Pt) (i : Nat) (prev : Int),
    ∀ p ∈ findTurnsAux dir cand i prev xs, p.1 = cand.1 ∨ i ≤ p.1 := by
  induction xs with
  | nil => intro dir cand i prev p hp; simp [findTurnsAux] at hp
  | cons y ys ih =>
    intro dir cand i prev p hp
    simp only [findTurnsAux] at hp
    split_ifs at hp with h1 h2
    · rcases ih _ _ _ _ p hp with h | h
      · exact Or.inl h
      · exact Or.inr (by omega)
    · rcases List.mem_cons.mp hp with h | h
      · exact Or.inl (by rw [h])
      · rcases ih _ _ _ _ p h with h | h
        · exact Or.inr (by simp only at h; omega)
        · exact Or.inr (by omega)
    · rcases ih _ _ _ _ p hp with h | h
      · exact Or.inr (by simp only at h; omega)
      · exact Or.inr (by omega)

/-- while no direction is known the candidate is not reported -/
theorem findTurnsAux_idx_zero (xs : List Int) : ∀ (cand : Pt) (i : Nat) (prev : Int),
    ∀ p ∈ findTurnsAux 0 cand i prev xs, i ≤ p.1 := by
  induction xs with
  | nil => intro cand i prev p hp; simp [findTurnsAux] at hp
  | cons y ys ih =>
    intro cand i prev p hp
    simp only [findTurnsAux] at hp
    split_ifs at hp with h1 h2
    · have := ih _ _ _ p hp; omega
    · exact absurd rfl h2.1
    · rcases findTurnsAux_idx ys _ _ _ _ p hp with h | h
      · simp only at h; omega
      · omega

theorem findTurns_idx_pos (l : List Int) : ∀ p ∈ findTurns l, 0 < p.1 := by
  cases l with
  | nil => intro p hp; simp [findTurns] at hp
  | cons x xs => intro p hp; have := findTurnsAux_idx_zero xs (0, x) 1 x p hp; omega

/-- the last sample is never reported -/
theorem findTurnsAux_idx_lt (xs : List Int) : ∀ (dir : Int) (cand : Pt) (i : Nat) (prev : Int),
    cand.1 < i → ∀ p ∈ findTurnsAux dir cand i prev xs, p.1 + 1 < i + xs.length := by
  induction xs with
  | nil => intro dir cand i prev _ p hp; simp [findTurnsAux] at hp
  | cons y ys ih =>
    intro dir cand i prev hc p hp
    simp only [findTurnsAux] at hp
    simp only [List.length_cons]
    split_ifs at hp with h1 h2
    · have := ih _ _ _ _ (by omega : cand.1 < i + 1) p hp; omega
    · rcases List.mem_cons.mp hp with h | h
      · rw [h]; omega
      · have := ih _ (i, y) (i+1) _ (by simp) p h; omega
    · have := ih _ (i, y) (i+1) _ (by simp) p hp; omega

theorem findTurns_idx_lt (l : List Int) : ∀ p ∈ findTurns l, p.1 + 1 < l.length := by
  cases l with
  | nil => intro p hp; simp [findTurns] at hp
  | cons x xs =>
    intro p hp
    have := findTurnsAux_idx_lt xs 0 (0, x) 1 x (by simp) p hp
    simp only [List.length_cons]; omega

/-- reported indices increase strictly -/
theorem findTurnsAux_sorted (xs : List Int) : ∀ (dir : Int) (cand : Pt) (i : Nat) (prev : Int),
    cand.1 < i → (findTurnsAux dir cand i prev xs).Pairwise (fun a b => a.1 < b.1) := by
  induction xs with
  | nil => intro dir cand i prev _; simp [findTurnsAux]
  | cons y ys ih =>
    intro dir cand i prev hc
    simp only [findTurnsAux]
    split_ifs with h1 h2
    · exact ih _ _ _ _ (by omega)
    · refine List.pairwise_cons.mpr ⟨?_, ih _ (i, y) (i+1) _ (by simp)⟩
      intro p hp
      rcases findTurnsAux_idx ys _ _ _ _ p hp with h | h
      · simp only at h; omega
      · omega
    · exact ih _ (i, y) (i+1) _ (by simp)

theorem findTurns_sorted (l : List Int) : (findTurns l).Pairwise (fun a b => a.1 < b.1) := by
  cases l with
  | nil => simp [findTurns]
  | cons x xs => exact findTurnsAux_sorted xs 0 (0, x) 1 x (by simp)

/-- Is the candidate `(k, v)` (current plateau value `v`, direction `d`) reported? -/
theorem findTurnsAux_cand_iff (S : List Int) : ∀ (k : Nat) (v : Int) (i : Nat) (d : Int), k < i → d ≠ 0 →
    ((∃ p ∈ findTurnsAux d (k, v) i v S, p.1 = k) ↔ ∃ b, firstNe v S = some b ∧ sgn (b - v) ≠ d) := by
  induction S with
  | nil => intro k v i d _ _; simp [findTurnsAux, firstNe]
  | cons y ys ih =>
    intro k v i d hk hd
    simp only [findTurnsAux, firstNe]
    by_cases hy : y = v
    · subst hy
      simp only [Rainflow.sgn_self, if_true]
      exact ih k y (i+1) d (by omega) hd
    · have hs : sgn (y - v) ≠ 0 := (sgn_ne_zero_iff _).mpr (by omega)
      rw [if_neg hs, if_neg hy]
      by_cases h2 : sgn (y - v) ≠ d
      · rw [if_pos ⟨hd, h2⟩]
        exact ⟨fun _ => ⟨y, rfl, h2⟩, fun _ => ⟨(k, v), List.mem_cons_self, rfl⟩⟩
      · rw [if_neg (fun h => h2 h.2)]
        constructor
        · rintro ⟨p, hp, hpk⟩
          rcases findTurnsAux_idx ys _ _ _ _ p hp with h | h
          · simp only at h; omega
          · omega
        · rintro ⟨b, hb, hsb⟩
          simp only [Option.some.injEq] at hb
          subst hb; exact absurd hsb h2

theorem scanSt_cand_lt (xs : List Int) : ∀ (dir : Int) (cand : Pt) (i : Nat) (prev : Int),
    cand.1 < i → (scanSt dir cand i prev xs).2.1.1 < (scanSt dir cand i prev xs).2.2.1 := by
  induction xs with
  | nil => intro dir cand i prev h; simpa [scanSt] using h
  | cons x xs ih =>
    intro dir cand i prev h
    simp only [scanSt]
    split_ifs
    · exact ih _ _ _ _ (by omega)
    · exact ih _ (i, x) (i+1) _ (by simp)

/-- **Local characterisation.**  The sample `v` behind the non-empty prefix `P` is (reported as) a
turning point iff it differs from its predecessor and the first later sample that differs from `v`
lies on the other side. -/
theorem findTurns_at_iff (P : List Int) (hP : P ≠ []) (v : Int) (S : List Int) :
    (∃ p ∈ findTurns (P ++ v :: S), p.1 = P.length) ↔
      sgn (v - P.getLast hP) ≠ 0 ∧ ∃ b, firstNe v S = some b ∧ sgn (b - v) ≠ sgn (v - P.getLast hP) := by
  obtain ⟨x0, P0, rfl⟩ := List.exists_cons_of_ne_nil hP
  simp only [List.cons_append, findTurns]
  rw [findTurnsAux_append]
  have hfirst : ∀ p ∈ findTurnsAux 0 (0, x0) 1 x0 P0, p.1 ≠ (x0 :: P0).length := by
    intro p hp
    have := Sym.findTurns_index_lt (x0 :: P0) p hp
    omega
  have hi := scanSt_i P0 0 (0, x0) 1 x0
  have hpv := scanSt_prev P0 0 (0, x0) 1 x0
  have hcl := scanSt_cand_lt P0 0 (0, x0) 1 x0 (by simp)
  generalize (scanSt 0 (0, x0) 1 x0 P0).1 = dirP at *
  generalize (scanSt 0 (0, x0) 1 x0 P0).2.1 = candP at *
  generalize (scanSt 0 (0, x0) 1 x0 P0).2.2.1 = iP at *
  generalize (scanSt 0 (0, x0) 1 x0 P0).2.2.2 = a at *
  subst hpv
  have hlen : (x0 :: P0).length = iP := by rw [hi]; simp; omega
  rw [hlen] at hfirst ⊢
  have split : ∀ L : List Pt, (∃ p ∈ findTurnsAux 0 (0, x0) 1 x0 P0 ++ L, p.1 = iP) ↔ ∃ p ∈ L, p.1 = iP := by
    intro L
    constructor
    · rintro ⟨p, hp, hk⟩
      rcases List.mem_append.mp hp with h | h
      · exact absurd hk (hfirst p h)
      · exact ⟨p, h, hk⟩
    · rintro ⟨p, hp, hk⟩; exact ⟨p, List.mem_append_right _ hp, hk⟩
  rw [split]
  simp only [findTurnsAux]
  by_cases hd : sgn (v - (x0 :: P0).getLast hP) = 0
  · rw [if_pos hd]
    constructor
    · rintro ⟨p, hp, hk⟩
      rcases findTurnsAux_idx S _ _ _ _ p hp with h | h <;> omega
    · rintro ⟨h, _⟩; exact absurd hd h
  · rw [if_neg hd]
    have key := findTurnsAux_cand_iff S iP v (iP + 1) _ (by omega) hd
    split_ifs with h2
    · constructor
      · rintro ⟨p, hp, hk⟩
        rcases List.mem_cons.mp hp with h | h
        · rw [h] at hk; omega
        · exact ⟨hd, key.mp ⟨p, h, hk⟩⟩
      · rintro ⟨_, h⟩
        obtain ⟨p, hp, hk⟩ := key.mpr h
        exact ⟨p, List.mem_cons_of_mem _ hp, hk⟩
    · exact ⟨fun h => ⟨hd, key.mp h⟩, fun h => key.mpr h.2⟩


/-! ### `firstNe` -/

theorem firstNe_append_some (v : Int) (X Y : List Int) (b : Int) (h : firstNe v X = some b) :
    firstNe v (X ++ Y) = some b := by
  induction X with
  | nil => simp [firstNe] at h
  | cons x X ih =>
    simp only [List.cons_append, firstNe] at h ⊢
    split_ifs at h ⊢ with hx
    · exact ih h
    · exact h

theorem firstNe_append_none (v : Int) (X Y : List Int) (h : firstNe v X = none) :
    firstNe v (X ++ Y) = firstNe v Y := by
  induction X with
  | nil => rfl
  | cons x X ih =>
    simp only [List.cons_append, firstNe] at h ⊢
    split_ifs at h ⊢ with hx
    exact ih h

theorem firstNe_replicate (v : Int) (m : Nat) (L : List Int) :
    firstNe v (List.replicate m v ++ L) = firstNe v L := by
  induction m with
  | zero => rfl
  | succ m ih => simp [List.replicate_succ, firstNe, ih]

theorem firstNe_some_decomp (v : Int) (L : List Int) (u : Int) (h : firstNe v L = some u) :
    u ≠ v ∧ ∃ m L2, L = List.replicate m v ++ u :: L2 := by
  induction L with
  | nil => simp [firstNe] at h
  | cons x L ih =>
    simp only [firstNe] at h
    split_ifs at h with hx
    · obtain ⟨h1, m, L2, h2⟩ := ih h
      exact ⟨h1, m + 1, L2, by rw [h2, hx, List.replicate_succ]; rfl⟩
    · simp only [Option.some.injEq] at h
      subst h
      exact ⟨hx, 0, L, rfl⟩

theorem firstNe_of_mem (v : Int) (L : List Int) (a : Int) (ha : a ∈ L) (hne : a ≠ v) :
    ∃ b, firstNe v L = some b := by
  induction L with
  | nil => simp at ha
  | cons x L ih =>
    simp only [firstNe]
    split_ifs with hx
    · rcases List.mem_cons.mp ha with h | h
      · exact absurd (h.trans hx) hne
      · exact ih h
    · exact ⟨x, rfl⟩

/-! ### no turning point: monotone -/

theorem findTurnsAux_nil_between (xs : List Int) : ∀ (dir : Int) (cand : Pt) (i : Nat) (prev : Int),
    findTurnsAux dir cand i prev xs = [] →
    (dir = 1 → prev ≤ xs.getLastD prev ∧ ∀ x ∈ xs, prev ≤ x ∧ x ≤ xs.getLastD prev) ∧
    (dir = -1 → xs.getLastD prev ≤ prev ∧ ∀ x ∈ xs, x ≤ prev ∧ xs.getLastD prev ≤ x) ∧
    (dir = 0 → (prev ≤ xs.getLastD prev ∧ ∀ x ∈ xs, prev ≤ x ∧ x ≤ xs.getLastD prev) ∨
      (xs.getLastD prev ≤ prev ∧ ∀ x ∈ xs, x ≤ prev ∧ xs.getLastD prev ≤ x)) := by
  induction xs with
  | nil =>
    intro dir cand i prev _
    simp
  | cons y ys ih =>
    intro dir cand i prev h
    simp only [findTurnsAux] at h
    simp only [List.getLastD_cons, List.mem_cons, forall_eq_or_imp]
    rcases Rainflow.sgn_cases (y - prev) with ⟨hs, hy⟩ | ⟨hs, hy⟩ | ⟨hs, hy⟩
    · have hyp : y = prev := by omega
      subst hyp
      rw [if_pos hs] at h
      obtain ⟨a, b, c⟩ := ih _ _ _ _ h
      refine ⟨fun hd => ?_, fun hd => ?_, fun hd => ?_⟩
      · have := a hd; exact ⟨this.1, ⟨Int.le_refl _, this.1⟩, this.2⟩
      · have := b hd; exact ⟨this.1, ⟨Int.le_refl _, this.1⟩, this.2⟩
      · rcases c hd with this | this
        · exact Or.inl ⟨this.1, ⟨Int.le_refl _, this.1⟩, this.2⟩
        · exact Or.inr ⟨this.1, ⟨Int.le_refl _, this.1⟩, this.2⟩
    · rw [if_neg (by rw [hs]; decide)] at h
      split_ifs at h with h2
      rw [hs] at h h2
      obtain ⟨a, _, _⟩ := ih _ _ _ _ h
      have a' := a rfl
      have key : prev ≤ ys.getLastD y ∧ (prev ≤ y ∧ y ≤ ys.getLastD y) ∧
          ∀ x ∈ ys, prev ≤ x ∧ x ≤ ys.getLastD y :=
        ⟨by omega, ⟨by omega, a'.1⟩, fun x hx => ⟨by have := (a'.2 x hx).1; omega, (a'.2 x hx).2⟩⟩
      refine ⟨fun _ => key, fun hd => ?_, fun _ => Or.inl key⟩
      exact absurd ⟨by omega, by omega⟩ h2
    · rw [if_neg (by rw [hs]; decide)] at h
      split_ifs at h with h2
      rw [hs] at h h2
      obtain ⟨_, b, _⟩ := ih _ _ _ _ h
      have b' := b rfl
      have key : ys.getLastD y ≤ prev ∧ (y ≤ prev ∧ ys.getLastD y ≤ y) ∧
          ∀ x ∈ ys, x ≤ prev ∧ ys.getLastD y ≤ x :=
        ⟨by omega, ⟨by omega, b'.1⟩, fun x hx => ⟨by have := (b'.2 x hx).1; omega, (b'.2 x hx).2⟩⟩
      refine ⟨fun hd => ?_, fun _ => key, fun _ => Or.inr key⟩
      exact absurd ⟨by omega, by omega⟩ h2

/-- A periodically repeated sequence with two distinct values has a turning point in the first
period. -/
theorem exists_turn_first_period (q : List Int) (h2 : ∃ a ∈ q, ∃ b ∈ q, a ≠ b) :
    ∃ p ∈ findTurns (q ++ q), p.1 < q.length := by
  cases q with
  | nil => obtain ⟨a, ha, _⟩ := h2; simp at ha
  | cons x0 q0 =>
    have hb : ∃ b ∈ q0, b ≠ x0 := by
      obtain ⟨a, ha, b, hb, hab⟩ := h2
      by_cases hax : a = x0
      · by_cases hbx : b = x0
        · exact absurd (hax.trans hbx.symm) hab
        · rcases List.mem_cons.mp hb with h | h
          · exact absurd h hbx
          · exact ⟨b, h, hbx⟩
      · rcases List.mem_cons.mp ha with h | h
        · exact absurd h hax
        · exact ⟨a, h, hax⟩
    obtain ⟨b, hbm, hbx⟩ := hb
    have hne : findTurns (x0 :: (q0 ++ [x0])) ≠ [] := by
      intro hnil
      simp only [findTurns] at hnil
      have hlast : (q0 ++ [x0]).getLastD x0 = x0 := by
        rw [List.getLastD_eq_getLast?]; simp
      obtain ⟨_, _, c⟩ := findTurnsAux_nil_between _ _ _ _ _ hnil
      rw [hlast] at c
      rcases c rfl with h | h
      · have := h.2 b (List.mem_append_left _ hbm); omega
      · have := h.2 b (List.mem_append_left _ hbm); omega
    obtain ⟨p, hp⟩ := List.exists_mem_of_ne_nil _ hne
    have hlt := findTurns_idx_lt _ p hp
    obtain ⟨X, hX⟩ := findTurns_append_prefix (x0 :: (q0 ++ [x0])) q0
    refine ⟨p, ?_, ?_⟩
    · have e : x0 :: q0 ++ x0 :: q0 = x0 :: (q0 ++ [x0]) ++ q0 := by simp
      rw [e, hX]; exact List.mem_append_left _ hp
    · simp only [List.length_cons, List.length_append, List.length_nil] at hlt ⊢; omega


/-! ### a stretch without turning points runs on in its direction -/

theorem getLast_append_cons_replicate (X : List Int) (e : Int) (m : Nat) :
    (X ++ e :: List.replicate m e).getLast (by simp) = e := by
  have h1 : e :: List.replicate m e = List.replicate (m + 1) e := by rw [List.replicate_succ]
  have h2 : (X ++ e :: List.replicate m e).getLast? = some e := by
    rw [List.getLast?_append_of_ne_nil _ (List.cons_ne_nil _ _), h1]
    simp [List.getLast?_replicate]
  have := List.getLast?_eq_some_getLast (l := X ++ e :: List.replicate m e) (by simp)
  rw [h2] at this
  exact (Option.some.inj this).symm

theorem no_turn_run (W : List Int) (lo N : Nat) (c : Int) (Z : List Int) (δ : Int)
    (hno : ∀ k, lo ≤ k → k < N → ¬ ∃ p ∈ findTurns W, p.1 = k) :
    ∀ (Y X : List Int) (hX : X ≠ []) (e : Int) (m : Nat),
      W = X ++ e :: (List.replicate m e ++ Y ++ c :: Z) → lo ≤ X.length →
      X.length + 1 + m + Y.length = N → sgn (e - X.getLast hX) = δ → δ ≠ 0 →
      sgn (c - e) = δ ∨ c = e := by
  intro Y
  induction Y with
  | nil =>
    intro X hX e m hW hlo hN hs hδ
    by_cases hce : c = e
    · exact Or.inr hce
    · left
      by_contra hcon
      apply hno X.length hlo (by omega)
      rw [hW]
      refine (findTurns_at_iff X hX e _).mpr ⟨by rw [hs]; exact hδ, c, ?_, by rw [hs]; exact hcon⟩
      simp only [List.append_nil]
      rw [firstNe_replicate]
      simp [firstNe, hce]
  | cons y Y ih =>
    intro X hX e m hW hlo hN hs hδ
    simp only [List.length_cons] at hN
    by_cases hye : y = e
    · subst hye
      refine ih X hX y (m + 1) ?_ hlo (by omega) hs hδ
      rw [hW]; simp [List.replicate_succ', List.append_assoc]
    · have hsy : sgn (y - e) = δ := by
        by_contra hcon
        apply hno X.length hlo (by omega)
        rw [hW]
        refine (findTurns_at_iff X hX e _).mpr ⟨by rw [hs]; exact hδ, y, ?_, by rw [hs]; exact hcon⟩
        rw [List.append_assoc, firstNe_replicate]
        simp [firstNe, hye]
      have := ih (X ++ e :: List.replicate m e) (by simp) y 0 (by rw [hW]; simp [List.append_assoc])
        (by simp only [List.length_append, List.length_cons, List.length_replicate]; omega)
        (by simp only [List.length_append, List.length_cons, List.length_replicate]; omega)
        (by rw [getLast_append_cons_replicate]; exact hsy) hδ
      rcases Rainflow.sgn_cases (y - e) with h1 | h1 | h1 <;>
      rcases Rainflow.sgn_cases (c - y) with h2 | h2 | h2 <;>
      rcases Rainflow.sgn_cases (c - e) with h3 | h3 | h3 <;>
      rcases this with h4 | h4 <;> omega

theorem take_succ_mid (A : List Int) (v : Int) (C : List Int) :
    (A ++ v :: C).take (A.length + 1) = A ++ [v] := by
  induction A with
  | nil => simp
  | cons a A ih => simp only [List.cons_append, List.length_cons, List.take_succ_cons, ih]

/-- **The first pass flushes** (on the level of the sample values): if `t` is the last turning point
in the first period of `q ++ q`, then the last sample of `q.take (t+1)` is a turning point of the
zero-prefixed trimmed sequence continued by the trimmed sequence. -/
theorem flush_flag_core (q : List Int) (t : Nat) (ht : t < q.length)
    (hturn : ∃ p ∈ findTurns (q ++ q), p.1 = t)
    (hlast : ∀ k, t + 1 ≤ k → k < q.length → ¬ ∃ p ∈ findTurns (q ++ q), p.1 = k) :
    ∃ p ∈ findTurns ((0 :: q.take (t+1)) ++ q.take (t+1)), p.1 = t + 1 := by
  have ht0 : 0 < t := by
    obtain ⟨p, hp, hk⟩ := hturn
    have := findTurns_idx_pos _ p hp; omega
  obtain ⟨A, v, C1, hq, hA⟩ : ∃ A v C1, q = A ++ v :: C1 ∧ A.length = t :=
    ⟨q.take t, q[t], q.drop (t+1), by rw [List.getElem_cons_drop, List.take_append_drop],
      by rw [List.length_take]; omega⟩
  subst hq
  subst hA
  have hAne : A ≠ [] := by intro h; rw [h] at ht0; simp at ht0
  rw [take_succ_mid]
  have e1 : (A ++ v :: C1) ++ (A ++ v :: C1) = A ++ v :: (C1 ++ (A ++ v :: C1)) := by simp
  rw [e1] at hturn
  obtain ⟨hd, b, hb, hsb⟩ := (findTurns_at_iff A hAne v _).mp hturn
  have e2 : (0 :: (A ++ [v])) ++ (A ++ [v]) = (0 :: A) ++ v :: (A ++ [v]) := by simp
  have e3 : (0 :: A).length = A.length + 1 := rfl
  rw [e2, ← e3]
  have hl : (0 :: A).getLast (List.cons_ne_nil _ _) = A.getLast hAne := List.getLast_cons hAne
  refine (findTurns_at_iff (0 :: A) (List.cons_ne_nil _ _) v _).mpr ?_
  rw [hl]
  refine ⟨hd, ?_⟩
  have hav : A.getLast hAne ≠ v := by
    intro h; apply hd; rw [h]; exact Rainflow.sgn_self v
  obtain ⟨b0, hb0⟩ := firstNe_of_mem v A _ (List.getLast_mem hAne) hav
  cases hC : firstNe v C1 with
  | none =>
    rw [firstNe_append_none _ _ _ hC, firstNe_append_some _ _ _ _ hb0] at hb
    simp only [Option.some.injEq] at hb
    subst hb
    exact ⟨b0, firstNe_append_some _ _ _ _ hb0, hsb⟩
  | some u =>
    rw [firstNe_append_some _ _ _ _ hC] at hb
    simp only [Option.some.injEq] at hb
    subst hb
    obtain ⟨huv, m0, C2, hC1⟩ := firstNe_some_decomp v C1 u hC
    subst hC1
    obtain ⟨c, A', rfl⟩ := List.exists_cons_of_ne_nil hAne
    have hδ : sgn (u - v) ≠ 0 := (sgn_ne_zero_iff _).mpr (by omega)
    have run := no_turn_run
      ((c :: A' ++ v :: (List.replicate m0 v ++ u :: C2)) ++ (c :: A' ++ v :: (List.replicate m0 v ++ u :: C2)))
      ((c :: A').length + 1) (c :: A' ++ v :: (List.replicate m0 v ++ u :: C2)).length c
      (A' ++ v :: (List.replicate m0 v ++ u :: C2)) (sgn (u - v)) hlast C2
      (c :: A' ++ v :: List.replicate m0 v) (by simp) u 0 (by simp [List.append_assoc])
      (by simp only [List.length_append, List.length_cons, List.length_replicate]; omega)
      (by simp only [List.length_append, List.length_cons, List.length_replicate]; omega)
      (by rw [getLast_append_cons_replicate]) hδ
    have hcv : sgn (c - v) = sgn (u - v) := by
      rcases Rainflow.sgn_cases (u - v) with h1 | h1 | h1 <;>
      rcases Rainflow.sgn_cases (c - u) with h2 | h2 | h2 <;>
      rcases Rainflow.sgn_cases (c - v) with h3 | h3 | h3 <;>
      rcases run with h4 | h4 <;> omega
    have hcne : c ≠ v := by
      intro h; rw [h, Rainflow.sgn_self] at hcv; exact hδ hcv.symm
    refine ⟨c, by simp [firstNe, hcne], by rw [hcv]; exact hsb⟩


/-! ### the model functions -/

theorem pairwise_le_getLast (l : List Nat) (hl : l.Pairwise (· < ·)) (t : Nat)
    (ht : l.getLast? = some t) : ∀ k ∈ l, k ≤ t := by
  induction l with
  | nil => intro k hk; simp at hk
  | cons a l ih =>
    intro k hk
    obtain ⟨h1, h2⟩ := List.pairwise_cons.mp hl
    cases l with
    | nil =>
      simp only [List.getLast?_singleton, Option.some.injEq] at ht
      simp only [List.mem_singleton] at hk
      omega
    | cons b l =>
      rw [List.getLast?_cons_cons] at ht
      rcases List.mem_cons.mp hk with h | h
      · have h3 := ih h2 ht b List.mem_cons_self
        have := h1 b List.mem_cons_self
        omega
      · exact ih h2 ht k h

theorem dropTrailing_eq (s : List Vec) (t : Nat)
    (h : (((findTurns (s.map rep ++ s.map rep)).map (·.1)).filter (· < (s.map rep).length)).getLast? = some t) :
    dropTrailingNonReversals s = if t = (s.map rep).length - 1 ∨ t = 0 then s else s.take (t + 1) := by
  unfold dropTrailingNonReversals
  simp only [h]

/-- **The first pass flushes** when the load sequence has two distinct values. -/
theorem flush_of_twoDistinct (s : List Vec) (h2 : ∃ a ∈ s.map rep, ∃ b ∈ s.map rep, a ≠ b) :
    (adjustFirstRunR (dropTrailingNonReversals s)).2 = true := by
  obtain ⟨p0, hp0, hp0n⟩ := exists_turn_first_period (s.map rep) h2
  have hsorted : (((findTurns (s.map rep ++ s.map rep)).map (·.1)).filter
      (· < (s.map rep).length)).Pairwise (· < ·) :=
    List.Pairwise.filter _ (List.Pairwise.map _ (fun _ _ h => h) (findTurns_sorted _))
  have hmem0 : p0.1 ∈ ((findTurns (s.map rep ++ s.map rep)).map (·.1)).filter
      (· < (s.map rep).length) := by
    rw [List.mem_filter]
    exact ⟨List.mem_map.mpr ⟨p0, hp0, rfl⟩, by simpa using hp0n⟩
  obtain ⟨t, hget⟩ : ∃ t, (((findTurns (s.map rep ++ s.map rep)).map (·.1)).filter
      (· < (s.map rep).length)).getLast? = some t := by
    cases hg : (((findTurns (s.map rep ++ s.map rep)).map (·.1)).filter
      (· < (s.map rep).length)).getLast? with
    | none => rw [List.getLast?_eq_none_iff] at hg; rw [hg] at hmem0; simp at hmem0
    | some t => exact ⟨t, rfl⟩
  have hle := pairwise_le_getLast _ hsorted t hget
  have htm := List.mem_of_getLast? hget
  rw [List.mem_filter] at htm
  obtain ⟨htm1, htn⟩ := htm
  have htn' : t < (s.map rep).length := by simpa using htn
  obtain ⟨pt, hpt, hptk⟩ := List.mem_map.mp htm1
  have hlast : ∀ k, t + 1 ≤ k → k < (s.map rep).length →
      ¬ ∃ p ∈ findTurns (s.map rep ++ s.map rep), p.1 = k := by
    rintro k hk1 hk2 ⟨p, hp, hpk⟩
    have : k ∈ ((findTurns (s.map rep ++ s.map rep)).map (·.1)).filter (· < (s.map rep).length) := by
      rw [List.mem_filter]
      exact ⟨List.mem_map.mpr ⟨p, hp, hpk⟩, by simpa using hk2⟩
    have := hle k this
    omega
  have core := flush_flag_core (s.map rep) t htn' ⟨pt, hpt, hptk⟩ hlast
  have ht0 : 0 < t := by have := findTurns_idx_pos _ pt hpt; omega
  have hdrop : dropTrailingNonReversals s = s.take (t + 1) := by
    rw [dropTrailing_eq s t hget]
    split_ifs with h
    · rcases h with h | h
      · rw [List.take_of_length_le]; simp only [List.length_map] at h htn'; omega
      · omega
    · rfl
  rw [hdrop]
  unfold adjustFirstRunR
  simp only [List.map_cons, rep_replicate_zero, List.tail_cons, List.map_take, List.length_cons,
    List.length_take, Nat.add_sub_cancel]
  have hmin : min (t + 1) s.length = t + 1 := by
    simp only [List.length_map] at htn'; omega
  rw [hmin]
  obtain ⟨p, hp, hpk⟩ := core
  rw [List.contains_iff_mem]
  exact List.mem_map.mpr ⟨p, hp, hpk⟩

end PylifeVerif.HCM
