/-
Lemmas for audit item C01-3: the literal `fourpoint_loop` (array, `ri` cursor, re-scan of the stored
residuals on every chunk) computes what the stack model `fpProcess` computes.

* `Irr`            : no four consecutive points of a stack satisfy the closing rule ("irreducible").
* `fpClose_irr`, `fpFeed_irr` : the stack model only ever stores irreducible stacks.
* `fpFeed_rescan`  : feeding an irreducible stack again, oldest point first, closes nothing and
                     rebuilds the stack - this is why the re-scan of the code is harmless.
* `fpLoopLit_spec` : the array loop is `fpFeed` on positions.
-/
import Proofs.Lemmas.Common
import Proofs.Lemmas.FourPointChunks
import Model.Rainflow.Literal

namespace PylifeVerif.Rainflow.Lit
open PylifeVerif.Rainflow PylifeVerif.Rainflow.Common

/-! ### Irreducible stacks -/

/-- the closing rule of `fourpoint_loop` for the four points `a b c` (stack) and value `d` -/
def CloseCond (a b c : Pt) (d : Int) : Prop :=
  absDiff b.2 c.2 ≤ absDiff a.2 b.2 ∧ absDiff b.2 c.2 ≤ absDiff c.2 d

/-- A stack (top first) none of whose windows of four consecutive points satisfies the closing rule. -/
def Irr : List Pt → Prop
  | d :: c :: b :: a :: rest => ¬ CloseCond a b c d.2 ∧ Irr (c :: b :: a :: rest)
  | _ => True

theorem irr_tail (p : Pt) (st : List Pt) (h : Irr (p :: st)) : Irr st := by
  match st, h with
  | [], _ => simp [Irr]
  | [_], _ => simp [Irr]
  | [_, _], _ => simp [Irr]
  | _ :: _ :: _ :: _, h => exact h.2

theorem irr_short (st : List Pt) (h : st.length < 4) : Irr st := by
  match st, h with
  | [], _ => simp [Irr]
  | [_], _ => simp [Irr]
  | [_, _], _ => simp [Irr]
  | [_, _, _], _ => simp [Irr]

/-- closing returns an irreducible stack on which the closing value cannot close any more -/
theorem fpClose_irr (st : List Pt) (d : Int) :
    Irr st → Irr (fpClose st d).2 ∧ ∀ x : Nat, Irr ((x, d) :: (fpClose st d).2) := by
  fun_induction fpClose st d with
  | case1 c b a rest d h r ih =>
    intro hi
    exact ih (irr_tail _ _ (irr_tail _ _ hi))
  | case2 c b a rest d h =>
    intro hi
    exact ⟨hi, fun x => ⟨h, hi⟩⟩
  | case3 st d h =>
    intro hi
    refine ⟨hi, fun x => ?_⟩
    match st, h with
    | [], _ => simp [Irr]
    | [_], _ => simp [Irr]
    | [_, _], _ => simp [Irr]
    | c :: b :: a :: rest, h => exact absurd rfl (h c b a rest)

theorem fpClose_ne_nil (st : List Pt) (d : Int) : st ≠ [] → (fpClose st d).2 ≠ [] := by
  fun_induction fpClose st d with
  | case1 c b a rest d h r ih => intro _; exact ih (by simp)
  | case2 c b a rest d h => intro h; exact h
  | case3 st d h => intro h; exact h

theorem fpPush_irr (st : List Pt) (p : Pt) (h : Irr st) : Irr (fpPush st p).2 := by
  have := (fpClose_irr st p.2 h).2 p.1
  simpa [fpPush] using this

theorem fpFeed_irr (N : List Pt) : ∀ st : List Pt, Irr st → Irr (fpFeed st N).2 := by
  induction N with
  | nil => intro st h; simpa [fpFeed] using h
  | cons p N ih =>
    intro st h
    simp only [fpFeed]
    exact ih _ (fpPush_irr st p h)

theorem fpFeed_ne_nil (N : List Pt) : ∀ st : List Pt, st ≠ [] → (fpFeed st N).2 ≠ [] := by
  induction N with
  | nil => intro st h; simpa [fpFeed] using h
  | cons p N ih =>
    intro st h
    simp only [fpFeed]
    exact ih _ (by simp [fpPush])

/-- on an irreducible stack `p :: st` the value of `p` closes nothing in `st` -/
theorem fpClose_of_irr (p : Pt) (st : List Pt) (h : Irr (p :: st)) : fpClose st p.2 = ([], st) := by
  match st, h with
  | [], _ => exact fpClose_nil' _
  | [_], _ => exact fpClose_one' _ _
  | [_, _], _ => exact fpClose_two' _ _ _
  | c :: b :: a :: rest, h => exact fpClose_neg' c b a rest p.2 h.1

/-- **Re-scan lemma.**  Feeding the points of an irreducible stack again, oldest first, records no
cycle and rebuilds the stack. -/
theorem fpFeed_rescan (S : List Pt) : Irr S → fpFeed [] S.reverse = ([], S) := by
  induction S with
  | nil => intro _; simp [fpFeed]
  | cons p S ih =>
    intro h
    rw [List.reverse_cons, fpFeed_append, ih (irr_tail p S h)]
    simp [fpFeed, fpPush, fpClose_of_irr p S h]

theorem fpFeed_cons_noclose (st : List Pt) (p : Pt) (ps : List Pt) (h : fpClose st p.2 = ([], st)) :
    fpFeed st (p :: ps) = fpFeed (p :: st) ps := by
  simp [fpFeed, fpPush, h]

theorem fpFeed_cons_close (c b a : Pt) (rest : List Pt) (p : Pt) (ps : List Pt)
    (h : CloseCond a b c p.2) :
    fpFeed (c :: b :: a :: rest) (p :: ps) =
      ((b, c) :: (fpFeed (a :: rest) (p :: ps)).1, (fpFeed (a :: rest) (p :: ps)).2) := by
  simp only [fpFeed, fpPush]
  rw [fpClose_pos' c b a rest p.2 h]
  simp

/-! ### The array loop -/

theorem take_set_succ (l : List Nat) (k v : Nat) (h : k < l.length) :
    (l.set k v).take (k+1) = l.take k ++ [v] := by
  rw [List.take_add_one, List.take_set_of_le (Nat.le_refl k)]; simp [h]

theorem take_rev_succ (l : List Nat) (k : Nat) (h : k < l.length) :
    (l.take (k+1)).reverse = l[k]! :: (l.take k).reverse := by
  rw [List.take_add_one]; simp [h]

/-- the abstract stack (top first, as points) of a loop state -/
def stackOf (P : Nat → Pt) (L : FpLoopSt) : List Pt :=
  ((L.resIdx.toList.take L.ri).reverse).map P

theorem stackOf_length (P : Nat → Pt) (L : FpLoopSt) (h : L.ri ≤ L.resIdx.size) :
    (stackOf P L).length = L.ri := by
  simp [stackOf]; omega

theorem stackOf_push (P : Nat → Pt) (L : FpLoopSt) (h : L.ri < L.resIdx.size) :
    stackOf P { L with resIdx := L.resIdx.setIfInBounds L.ri L.i, ri := L.ri + 1, i := L.i + 1 } =
      P L.i :: stackOf P L := by
  simp only [stackOf, Array.toList_setIfInBounds]
  rw [take_set_succ _ _ _ (by simpa using h)]
  simp

theorem stackOf_three (P : Nat → Pt) (L : FpLoopSt) (h : L.ri ≤ L.resIdx.size) (h3 : 3 ≤ L.ri) :
    stackOf P L = P L.resIdx[L.ri - 1]! :: P L.resIdx[L.ri - 2]! :: P L.resIdx[L.ri - 3]! ::
      stackOf P { L with ri := L.ri - 1 - 1 - 1 } := by
  obtain ⟨k, hk⟩ : ∃ k, L.ri = k + 3 := ⟨L.ri - 3, by omega⟩
  have hsz : k + 2 < L.resIdx.toList.length := by simp; omega
  simp only [stackOf, hk, ← Array.getElem!_toList]
  rw [take_rev_succ _ (k+2) hsz, take_rev_succ _ (k+1) (by omega), take_rev_succ _ k (by omega)]
  simp

theorem stackOf_drop2 (P : Nat → Pt) (L : FpLoopSt) (h : L.ri ≤ L.resIdx.size) (h3 : 3 ≤ L.ri) :
    stackOf P { L with ri := L.ri - 1 - 1 } =
      P L.resIdx[L.ri - 3]! :: stackOf P { L with ri := L.ri - 1 - 1 - 1 } := by
  obtain ⟨k, hk⟩ : ∃ k, L.ri = k + 3 := ⟨L.ri - 3, by omega⟩
  have hsz : k + 2 < L.resIdx.toList.length := by simp; omega
  simp only [stackOf, hk, ← Array.getElem!_toList]
  show (List.map P (List.take (k + 1) L.resIdx.toList).reverse) = _
  rw [take_rev_succ _ k (by omega)]
  simp

/-- **The array loop is `fpFeed` on positions.**  `P j = (turns_index[j], turns[j])`. -/
theorem fpLoopLit_spec (tnp : Array Int) (tidx : Array Nat) (P : Nat → Pt)
    (hP : ∀ j, P j = (tidx[j]!, tnp[j]!)) :
    ∀ (fuel : Nat) (L : FpLoopSt), L.resIdx.size = tnp.size → L.ri ≤ L.i → L.i ≤ tnp.size →
      3 * (tnp.size - L.i) + L.ri ≤ fuel →
      (fpLoopLit tnp tidx fuel L).out =
          L.out ++ (fpFeed (stackOf P L) ((List.range' L.i (tnp.size - L.i)).map P)).1 ∧
        stackOf P (fpLoopLit tnp tidx fuel L) =
          (fpFeed (stackOf P L) ((List.range' L.i (tnp.size - L.i)).map P)).2 := by
  intro fuel
  induction fuel with
  | zero =>
    intro L hsz hri hi hf
    have h1 : tnp.size - L.i = 0 := by omega
    simp [fpLoopLit, h1, fpFeed]
  | succ fuel ih =>
    intro L hsz hri hi hf
    by_cases hlt : L.i < tnp.size
    · obtain ⟨m, hm⟩ : ∃ m, tnp.size - L.i = m + 1 := ⟨tnp.size - L.i - 1, by omega⟩
      have hrange : (List.range' L.i (tnp.size - L.i)).map P =
          P L.i :: (List.range' (L.i + 1) (tnp.size - (L.i + 1))).map P := by
        rw [hm, List.range'_succ]
        have : tnp.size - (L.i + 1) = m := by omega
        rw [this]; simp
      have hpush : ∀ (hno : fpClose (stackOf P L) (P L.i).2 = ([], stackOf P L)),
          let L1 : FpLoopSt :=
            { L with resIdx := L.resIdx.setIfInBounds L.ri L.i, ri := L.ri + 1, i := L.i + 1 }
          (fpLoopLit tnp tidx fuel L1).out =
              L.out ++ (fpFeed (stackOf P L) ((List.range' L.i (tnp.size - L.i)).map P)).1 ∧
            stackOf P (fpLoopLit tnp tidx fuel L1) =
              (fpFeed (stackOf P L) ((List.range' L.i (tnp.size - L.i)).map P)).2 := by
        intro hno L1
        have := ih L1 (by simp [L1, hsz]) (by simp [L1]; omega) (by simp [L1]; omega)
          (by simp [L1]; omega)
        rw [hrange, fpFeed_cons_noclose _ _ _ hno]
        have hs : stackOf P L1 = P L.i :: stackOf P L := stackOf_push P L (by omega)
        rw [hs] at this
        exact this
      by_cases h3 : L.ri < 3
      · have hno : fpClose (stackOf P L) (P L.i).2 = ([], stackOf P L) := by
          have hl := stackOf_length P L (by omega)
          match hS : stackOf P L, hl with
          | [], _ => exact fpClose_nil' _
          | [_], _ => exact fpClose_one' _ _
          | [_, _], _ => exact fpClose_two' _ _ _
          | _ :: _ :: _ :: _, hl => simp at hl; omega
        have := hpush hno
        rw [fpLoopLit]
        simp only [hlt, h3, if_true]
        exact this
      · have h3' : 3 ≤ L.ri := by omega
        have hS := stackOf_three P L (by omega) h3'
        rw [fpLoopLit]
        simp only [hlt, h3, if_true, if_false]
        by_cases hc : CloseCond (P L.resIdx[L.ri - 3]!) (P L.resIdx[L.ri - 2]!) (P L.resIdx[L.ri - 1]!)
            (P L.i).2
        · have hc' := hc
          simp only [CloseCond, hP] at hc'
          rw [if_pos hc']
          let row : Cycle := ((tidx[L.resIdx[L.ri - 1 - 1]!]!, tnp[L.resIdx[L.ri - 2]!]!),
            (tidx[L.resIdx[L.ri - 1]!]!, tnp[L.resIdx[L.ri - 1]!]!))
          let L2 : FpLoopSt := { L with ri := L.ri - 1 - 1, out := L.out ++ [row] }
          have := ih L2 hsz (by simp [L2]; omega) hi (by simp [L2]; omega)
          have hd2 := stackOf_drop2 P L (by omega) h3'
          have hsame : stackOf P L2 = stackOf P { L with ri := L.ri - 1 - 1 } := rfl
          have hout : L2.out = L.out ++ [row] := rfl
          have hi2 : L2.i = L.i := rfl
          rw [hi2, hout] at this
          rw [hsame, hd2] at this
          rw [hS, hrange, fpFeed_cons_close _ _ _ _ _ _ hc, ← hrange]
          have e : L.ri - 1 - 1 = L.ri - 2 := by omega
          refine ⟨?_, this.2⟩
          rw [this.1]
          simp [hP, e, row]
        · have hc' := hc
          simp only [CloseCond, hP] at hc'
          rw [if_neg hc']
          apply hpush
          rw [hS]
          exact fpClose_neg' _ _ _ _ _ hc
    · have h1 : tnp.size - L.i = 0 := by omega
      rw [fpLoopLit]
      simp [hlt, h1, fpFeed]


/-! ### `fourpoint_loop` on the arrays built by `process` -/

theorem range'_map_pts (pts : List Pt) (d : Int) :
    (List.range' 0 (pts.length + 1)).map
        (fun j => (((pts.map (·.1)).toArray)[j]!, ((pts.map (·.2) ++ [d]).toArray)[j]!)) =
      pts ++ [((0 : Nat), d)] := by
  apply List.ext_getElem
  · simp
  · intro j h1 h2
    simp only [List.length_map, List.length_range'] at h1
    simp only [List.getElem_map, List.getElem_range', Nat.zero_add, Nat.one_mul]
    by_cases hj : j < pts.length
    · rw [List.getElem_append_left hj]
      simp [hj, List.getElem?_append_left]
    · have hj' : j = pts.length := by omega
      subst hj'
      simp

/-- the loop variables at the entry of the `while` loop -/
def initSt (n : Nat) : FpLoopSt :=
  { i := 2, ri := 2, resIdx := ((Array.replicate n 0).setIfInBounds 0 0).setIfInBounds 1 1, out := [] }

theorem fpLoopLitRun_def (tnp : Array Int) (tidx : Array Nat) :
    fpLoopLitRun tnp tidx =
      ((fpLoopLit tnp tidx (3 * tnp.size) (initSt tnp.size)).out,
       (fpLoopLit tnp tidx (3 * tnp.size) (initSt tnp.size)).resIdx.toList.take
         (fpLoopLit tnp tidx (3 * tnp.size) (initSt tnp.size)).ri) := rfl

theorem stackOf_initSt (P : Nat → Pt) (m : Nat) : stackOf P (initSt (m + 2)) = [P 1, P 0] := by
  simp [stackOf, initSt, Array.toList_setIfInBounds, List.replicate_succ]

/-- `fourpoint_loop` on arbitrary arrays with at least two entries. -/
theorem fpLoopLitRun_spec (tnp : Array Int) (tidx : Array Nat) (m : Nat) (hn : tnp.size = m + 2)
    (P : Nat → Pt) (hP : ∀ j, P j = (tidx[j]!, tnp[j]!)) :
    (fpLoopLitRun tnp tidx).1 = (fpFeed [] ((List.range' 0 (m + 2)).map P)).1 ∧
      (fpLoopLitRun tnp tidx).2.map P = (fpFeed [] ((List.range' 0 (m + 2)).map P)).2.reverse := by
  have hspec := fpLoopLit_spec tnp tidx P hP (3 * tnp.size) (initSt tnp.size) (by simp [initSt])
    (by simp [initSt]) (by simp [initSt]; omega) (by simp [initSt]; omega)
  have hsplit : (List.range' 0 (m + 2)).map P = P 0 :: P 1 :: (List.range' 2 m).map P := by
    rw [show m + 2 = (m + 1) + 1 from rfl, List.range'_succ, List.range'_succ]
    simp
  have hfeed : fpFeed [] ((List.range' 0 (m + 2)).map P) =
      fpFeed [P 1, P 0] ((List.range' 2 m).map P) := by
    rw [hsplit, fpFeed_cons_noclose _ _ _ (fpClose_nil' _),
      fpFeed_cons_noclose _ _ _ (fpClose_one' _ _)]
  have hi0 : (initSt tnp.size).i = 2 := rfl
  have ho0 : (initSt tnp.size).out = [] := rfl
  rw [hi0, ho0] at hspec
  rw [hn] at hspec
  rw [stackOf_initSt, show m + 2 - 2 = m from by omega, ← hfeed] at hspec
  obtain ⟨h1, h2⟩ := hspec
  rw [fpLoopLitRun_def, hn]
  refine ⟨by simpa using h1, ?_⟩
  have h2' := congrArg List.reverse h2
  simp only [stackOf, List.map_reverse, List.reverse_reverse] at h2'
  exact h2'

/-- `fourpoint_loop` on `turns_np = values of pts ++ [d]`, `turns_index = indices of pts`:
the recorded rows are the cycles of `fpFeed [] (pts ++ [(0, d)])` and `residual_index`, read through
the two arrays, is its stack (the index `0` of the last point stands for the out-of-range read
`turns_index[len]`, which the code never does: it uses `residual_index[:-1]`). -/
theorem fpLoopLitRun_eq (pts : List Pt) (d : Int) (hp : pts ≠ []) :
    (fpLoopLitRun (pts.map (·.2) ++ [d]).toArray (pts.map (·.1)).toArray).1 =
        (fpFeed [] (pts ++ [((0 : Nat), d)])).1 ∧
      (fpLoopLitRun (pts.map (·.2) ++ [d]).toArray (pts.map (·.1)).toArray).2.map
          (fun j => (((pts.map (·.1)).toArray)[j]!, ((pts.map (·.2) ++ [d]).toArray)[j]!)) =
        (fpFeed [] (pts ++ [((0 : Nat), d)])).2.reverse := by
  obtain ⟨m, hm⟩ : ∃ m, pts.length = m + 1 := by
    cases pts with
    | nil => exact absurd rfl hp
    | cons p ps => exact ⟨ps.length, rfl⟩
  have hall := range'_map_pts pts d
  rw [hm] at hall
  have := fpLoopLitRun_spec (pts.map (·.2) ++ [d]).toArray (pts.map (·.1)).toArray m
    (by simp [hm]) _ (fun _ => rfl)
  rw [hall] at this
  exact this

/-! ### One `process` call -/

/-- Correspondence between the attributes of the literal detector and the state of the stack model. -/
def LitRel (L : FpLitState) (st : DetState) : Prop :=
  L.ts = st.ts ∧ L.cycles = st.cycles ∧ L.chunks = st.chunks ∧
  match st.last with
  | none => L.residuals = [] ∧ L.residualIndex = [0] ∧ st.ts.head = 0 ∧ st.stack = []
  | some l => L.residuals = st.stack.reverse.map (·.2) ++ [l] ∧
      L.residualIndex = st.stack.reverse.map (·.1) ∧ st.stack ≠ [] ∧ Irr st.stack

theorem litRel_init : LitRel {} {} := by
  simp [LitRel]

theorem drop_last {α : Type} (l : List α) (h : l ≠ []) : l.drop (l.length - 1) = [l.getLast h] := by
  induction l with
  | nil => exact absurd rfl h
  | cons a l ih =>
    cases l with
    | nil => simp
    | cons b l =>
      have := ih (by simp)
      simp only [List.length_cons, Nat.add_sub_cancel] at this ⊢
      rw [List.drop_succ_cons, this]; simp

theorem drop_last_cons (s0 : Int) (tl : List Int) :
    (s0 :: tl).drop ((s0 :: tl).length - 1) = [(s0 :: tl).getLast!] := by
  rw [getLast!_cons, drop_last _ (List.cons_ne_nil _ _)]

theorem litRel_step (L : FpLitState) (st : DetState) (c : List Int) (hc : c ≠ [])
    (h : LitRel L st) : LitRel (fpProcessLit L c) (fpProcess st c) := by
  cases c with
  | nil => exact absurd rfl hc
  | cons s0 tl =>
    obtain ⟨hts, hcy, hch, hres⟩ := h
    -- the stack that is re-scanned
    let base : List Pt := if st.last.isNone then [(0, s0)] else st.stack
    have hbase : (if L.residuals.isEmpty then (s0 :: tl).take 1 else L.residuals.dropLast) =
          base.reverse.map (·.2) ∧ L.residualIndex = base.reverse.map (·.1) ∧ base ≠ [] ∧
          Irr base := by
      cases hl : st.last with
      | none =>
        rw [hl] at hres
        simp [base, hl, hres.1, hres.2.1, Irr]
      | some l =>
        rw [hl] at hres
        obtain ⟨h1, h2, h3, h4⟩ := hres
        have hne : (List.map (fun x => x.2) st.stack.reverse ++ [l]).isEmpty = false := by simp
        simp only [base, hl, h1, hne]
        exact ⟨by simp, h2, h3, h4⟩
    obtain ⟨hb1, hb2, hb3, hb4⟩ := hbase
    let turns := (newTurns st.ts (s0 :: tl)).2
    let lastv := (s0 :: tl).getLast!
    let pts := base.reverse ++ turns
    have hpts : pts ≠ [] := by simp [pts, hb3]
    obtain ⟨hr1, hr2⟩ := fpLoopLitRun_eq pts lastv hpts
    -- what `fpFeed [] (pts ++ [(0, lastv)])` is
    let S := (fpFeed base turns).2
    have hfeed : fpFeed [] (pts ++ [((0 : Nat), lastv)]) =
        ((fpFeed base turns).1 ++ (fpClose S lastv).1, (0, lastv) :: (fpClose S lastv).2) := by
      simp only [pts, List.append_assoc]
      rw [fpFeed_append, fpFeed_rescan base hb4, fpFeed_append]
      simp [fpFeed, fpPush, S]
    rw [hfeed] at hr1 hr2
    have hnp : (if L.residuals.isEmpty then (s0 :: tl).take 1 else L.residuals.dropLast) ++
          turns.map (·.2) ++ (s0 :: tl).drop ((s0 :: tl).length - 1) =
        pts.map (·.2) ++ [lastv] := by
      rw [hb1, drop_last_cons]; simp [pts, lastv]
    have hix : L.residualIndex ++ turns.map (·.1) = pts.map (·.1) := by
      rw [hb2]; simp [pts]
    have hSne : (fpClose S lastv).2 ≠ [] := fpClose_ne_nil _ _ (fpFeed_ne_nil _ _ hb3)
    have hSirr : Irr (fpClose S lastv).2 := (fpClose_irr _ _ (fpFeed_irr _ _ hb4)).1
    -- values and indices of `residual_index`
    have hv := congrArg (List.map (·.2)) hr2
    have hi := congrArg (fun l => (List.dropLast l).map (·.1)) hr2
    simp only [List.map_map, List.reverse_cons, List.dropLast_concat] at hv hi
    rw [← List.map_dropLast] at hi
    simp only [List.map_map] at hi
    simp only [fpProcessLit, fpProcess, hts]
    rw [hnp, hix]
    refine ⟨rfl, ?_, by simp [hch], ?_⟩
    · simp only [hcy, hr1, List.append_assoc]; rfl
    · simp only
      refine ⟨?_, ?_, hSne, hSirr⟩
      · have : (fun (j : Nat) => ((pts.map (·.2) ++ [lastv]).toArray)[j]!) =
            ((fun x : Pt => x.2) ∘ fun (j : Nat) => (((pts.map (·.1)).toArray)[j]!,
              ((pts.map (·.2) ++ [lastv]).toArray)[j]!)) := rfl
        rw [this, hv, List.map_append, List.map_reverse]; rfl
      · have : (fun (j : Nat) => ((pts.map (·.1)).toArray)[j]!) =
            ((fun x : Pt => x.1) ∘ fun (j : Nat) => (((pts.map (·.1)).toArray)[j]!,
              ((pts.map (·.2) ++ [lastv]).toArray)[j]!)) := rfl
        rw [this, hi]

theorem litRel_run (cs : List (List Int)) (hne : ∀ c ∈ cs, c ≠ []) :
    ∀ (L : FpLitState) (st : DetState), LitRel L st →
      LitRel (cs.foldl fpProcessLit L) (cs.foldl fpProcess st) := by
  induction cs with
  | nil => intro L st h; exact h
  | cons c cs ih =>
    intro L st h
    simp only [List.foldl_cons]
    exact ih (fun c' hc' => hne c' (by simp [hc'])) _ _ (litRel_step L st c (hne c (by simp)) h)

end PylifeVerif.Rainflow.Lit
