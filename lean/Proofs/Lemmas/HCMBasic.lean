/-
Helper lemmas about the HCM model (`Model/HCM.lean`): record invariants of `processSample`,
`turnStep`, `process`.
-/
import Proofs.Lemmas.HCMCommon
import Proofs.Lemmas.Turns
import Proofs.Lemmas.Sym
import Mathlib.Tactic.SplitIfs

namespace PylifeVerif.HCM
open PylifeVerif.Rainflow

/-! ### every record is a `halfHyst` or a `closedHyst` -/

/-- `processSample` keeps `run`, `loadMax`; every record it appends is a `closedHyst` or (only if the
load exceeds the largest load seen) a `halfHyst`, built from a state with the same `run`. -/
theorem processSample_recs (law : Law) (load : Vec) (P : Hyst → Prop) (fuel : Nat) (st : State)
    (run : Nat) (lm : Nat) (hrun : st.run = run) (hlm : st.loadMax = lm)
    (hH : (rep load).natAbs > lm → ∀ st' prev, st'.run = run → P (halfHyst st' prev))
    (hC : ∀ st' p0 p1, st'.run = run → P (closedHyst st' p0 p1))
    (h0 : ∀ h ∈ st.recs, P h) :
    (processSample law load fuel st).1.run = run ∧ (processSample law load fuel st).1.loadMax = lm ∧
    ∀ h ∈ (processSample law load fuel st).1.recs, P h := by
  fun_induction processSample law load fuel st with
  | case1 st => exact ⟨hrun, hlm, h0⟩
  | case2 fuel st cur hiz prev rest hres hgt p st' =>
    refine ⟨hrun, hlm, ?_⟩
    intro h hh
    simp only [noteStrain, st', List.mem_append, List.mem_singleton] at hh
    rcases hh with hh | hh
    · exact h0 h hh
    · subst hh; exact hH (by rw [← hlm]; exact hgt) st prev hrun
  | case3 fuel st cur hiz prev rest hres hgt p => exact ⟨hrun, hlm, h0⟩
  | case4 => exact ⟨hrun, hlm, h0⟩
  | case5 => exact ⟨hrun, hlm, h0⟩
  | case6 fuel st cur hne hlt p1 p0 rest hres curExt prevExt hlt2 p => exact ⟨hrun, hlm, h0⟩
  | case7 fuel st cur hne hlt p1 p0 rest hres curExt prevExt hge st' hge2 ih =>
    apply ih hrun hlm
    intro h hh
    simp only [st', List.mem_append, List.mem_singleton] at hh
    rcases hh with hh | hh
    · exact h0 h hh
    · subst hh; exact hC st p0 p1 hrun
  | case8 fuel st cur hne hlt p1 p0 rest hres curExt prevExt hge st' hlt2 p =>
    refine ⟨hrun, hlm, ?_⟩
    intro h hh
    simp only [noteStrain, st', List.mem_append, List.mem_singleton] at hh
    rcases hh with hh | hh
    · exact h0 h hh
    · subst hh; exact hC st p0 p1 hrun
  | case9 => exact ⟨hrun, hlm, h0⟩


theorem turnStep_recs (law : Law) (load : Vec) (P : Hyst → Prop) (st : State) (prev : Int)
    (run : Nat) (lm : Nat) (hrun : st.run = run) (hlm : st.loadMax = lm)
    (hH : (rep load).natAbs > lm → ∀ st' prev, st'.run = run → P (halfHyst st' prev))
    (hC : ∀ st' p0 p1, st'.run = run → P (closedHyst st' p0 p1))
    (h0 : ∀ h ∈ st.recs, P h) :
    (turnStep law (st, prev) load).1.run = run ∧
    (turnStep law (st, prev) load).1.loadMax = max lm (rep load).natAbs ∧
    (turnStep law (st, prev) load).2 = rep load ∧
    ∀ h ∈ (turnStep law (st, prev) load).1.recs, P h := by
  have key := processSample_recs law load P (st.res.length / 2 + 2)
    { st with fed := st.fed ++ [(st.run, load)] } run lm hrun hlm hH hC h0
  obtain ⟨k1, k2, k3⟩ := key
  simp only [turnStep, updateLF]
  split_ifs <;> simp only [k1, k2] <;> refine ⟨trivial, ?_, trivial, k3⟩ <;> omega


theorem turnStep_loadMax (law : Law) (load : Vec) (st : State) (prev : Int) :
    (turnStep law (st, prev) load).1.loadMax = max st.loadMax (rep load).natAbs :=
  (turnStep_recs law load (fun _ => True) st prev st.run st.loadMax rfl rfl
    (fun _ _ _ _ => trivial) (fun _ _ _ _ => trivial) (fun _ _ => trivial)).2.1

theorem foldl_turnStep_loadMax_mono (law : Law) (loads : List Vec) : ∀ (acc : State × Int),
    acc.1.loadMax ≤ (loads.foldl (turnStep law) acc).1.loadMax := by
  induction loads with
  | nil => intro acc; exact Nat.le_refl _
  | cons load loads ih =>
    intro acc
    obtain ⟨st, prev⟩ := acc
    have := ih (turnStep law (st, prev) load)
    rw [turnStep_loadMax] at this
    simp only [List.foldl_cons]; omega

/-- Fold of `turnStep` over the loads of one pass. -/
theorem foldl_turnStep_recs (law : Law) (P : Hyst → Prop) (run lm : Nat) (loads : List Vec) :
    ∀ (acc : State × Int), acc.1.run = run → lm ≤ acc.1.loadMax →
    ((∃ load ∈ loads, (rep load).natAbs > lm) → ∀ st' prev, st'.run = run → P (halfHyst st' prev)) →
    (∀ st' p0 p1, st'.run = run → P (closedHyst st' p0 p1)) →
    (∀ h ∈ acc.1.recs, P h) →
    (loads.foldl (turnStep law) acc).1.run = run ∧
    lm ≤ (loads.foldl (turnStep law) acc).1.loadMax ∧
    (∀ load ∈ loads, (rep load).natAbs ≤ (loads.foldl (turnStep law) acc).1.loadMax) ∧
    ∀ h ∈ (loads.foldl (turnStep law) acc).1.recs, P h := by
  induction loads with
  | nil => intro acc hrun hlm _ _ h0; exact ⟨hrun, hlm, by simp, h0⟩
  | cons load loads ih =>
    intro acc hrun hlm hH hC h0
    obtain ⟨st, prev⟩ := acc
    have hstep := turnStep_recs law load P st prev run st.loadMax hrun rfl
      (fun hgt => hH ⟨load, by simp, by simp only at hlm; omega⟩) hC h0
    obtain ⟨s1, s2, _, s4⟩ := hstep
    have hnext := ih (turnStep law (st, prev) load) s1
      (by rw [s2]; simp only at hlm; omega)
      (fun ⟨l, hl, hg⟩ => hH ⟨l, List.mem_cons_of_mem _ hl, hg⟩) hC s4
    obtain ⟨n1, n2, n3, n4⟩ := hnext
    simp only [List.foldl_cons]
    refine ⟨n1, n2, ?_, n4⟩
    intro l hl
    rcases List.mem_cons.mp hl with rfl | hl
    · have := (foldl_turnStep_loadMax_mono law loads (turnStep law (st, prev) l))
      rw [s2] at this; omega
    · exact n3 l hl


/-! ### `process` as a fold -/

/-- the state with which the loop of `process` starts -/
def procInit (st : State) (samples : List Vec) (flush : Bool) : State :=
  let nNodes := (samples.headD []).length
  let st := if st.started then st else
    { st with started := true, eMinLF := List.replicate nNodes 0, eMaxLF := List.replicate nNodes 0 }
  let st := { st with run := st.run + 1 }
  { st with ts := (newTurns st.ts (samples.map rep) flush).1,
            lastSample := samples.getLastD st.lastSample }

/-- the load vectors handed to the HCM loop by `process` -/
def procLoads (st : State) (samples : List Vec) (flush : Bool) : List Vec :=
  (newTurns st.ts (samples.map rep) flush).2.map fun p =>
    if p.1 < st.ts.head then st.lastSample else samples.toArray[p.1 - st.ts.head]!

theorem process_eq (law : Law) (st : State) (samples : List Vec) (flush : Bool) :
    process law st samples flush =
      { ((procLoads st samples flush).foldl (turnStep law)
            (procInit st samples flush, st.prevLoad)).1 with
        prevLoad := ((procLoads st samples flush).foldl (turnStep law)
            (procInit st samples flush, st.prevLoad)).2 } := by
  unfold process procInit procLoads
  by_cases h : st.started <;> simp [h]

theorem procInit_run (st : State) (samples : List Vec) (flush : Bool) :
    (procInit st samples flush).run = st.run + 1 := by
  unfold procInit; by_cases h : st.started <;> simp [h]

theorem procInit_loadMax (st : State) (samples : List Vec) (flush : Bool) :
    (procInit st samples flush).loadMax = st.loadMax := by
  unfold procInit; by_cases h : st.started <;> simp [h]

theorem procInit_recs (st : State) (samples : List Vec) (flush : Bool) :
    (procInit st samples flush).recs = st.recs := by
  unfold procInit; by_cases h : st.started <;> simp [h]

/-- One pass: run number, monotone `loadMax` that dominates every fed load, record invariant. -/
theorem process_recs (law : Law) (P : Hyst → Prop) (st : State) (samples : List Vec) (flush : Bool)
    (hH : (∃ load ∈ procLoads st samples flush, (rep load).natAbs > st.loadMax) →
      ∀ st' prev, st'.run = st.run + 1 → P (halfHyst st' prev))
    (hC : ∀ st' p0 p1, st'.run = st.run + 1 → P (closedHyst st' p0 p1))
    (h0 : ∀ h ∈ st.recs, P h) :
    (process law st samples flush).run = st.run + 1 ∧
    st.loadMax ≤ (process law st samples flush).loadMax ∧
    (∀ load ∈ procLoads st samples flush,
      (rep load).natAbs ≤ (process law st samples flush).loadMax) ∧
    ∀ h ∈ (process law st samples flush).recs, P h := by
  have := foldl_turnStep_recs law P (st.run + 1) st.loadMax (procLoads st samples flush)
    (procInit st samples flush, st.prevLoad) (procInit_run _ _ _)
    (by rw [procInit_loadMax]; exact Nat.le_refl _) hH hC (by rw [procInit_recs]; exact h0)
  rw [process_eq]
  exact this


/-! ### `vneg`, `vabs`, `rep` -/

theorem rep_vneg (v : Vec) : rep (vneg v) = - rep v := by
  cases v <;> simp [rep, vneg]

theorem vneg_vneg (v : Vec) : vneg (vneg v) = v := by
  simp [vneg, Function.comp_def]

theorem vabs_vneg (v : Vec) : vabs (vneg v) = vabs v := by
  simp [vabs, vneg, Function.comp_def]

theorem length_vneg (v : Vec) : (vneg v).length = v.length := by simp [vneg]

theorem vneg_replicate_zero (n : Nat) : vneg (List.replicate n 0) = List.replicate n 0 := by
  simp [vneg]

theorem vneg_nil : vneg [] = [] := rfl

theorem vzip_vneg (f : Int → Int → Int) (hf : ∀ a b, f (-a) (-b) = - f a b) (a : Vec) :
    ∀ b : Vec, vzip f (vneg a) (vneg b) = vneg (vzip f a b) := by
  induction a with
  | nil => intro b; simp [vzip, vneg]
  | cons x a ih =>
    intro b
    cases b with
    | nil => simp [vzip, vneg]
    | cons y b =>
      have := ih b
      simp only [vzip, vneg, List.map_cons, List.zipWith_cons_cons] at this ⊢
      rw [this, hf]

theorem map_vneg (f : Int → Int) (hf : ∀ a, f (-a) = - f a) (a : Vec) :
    (vneg a).map f = vneg (a.map f) := by
  simp [vneg, Function.comp_def, hf]


/-! ### turning points of the negated signal -/

theorem findTurns_neg (s : List Int) :
    findTurns (s.map (- ·)) = (findTurns s).map fun p => (p.1, -p.2) := by
  have h := Sym.findTurns_affine_ne (-1) 0 (by decide) s
  have e : (fun x : Int => -1 * x + 0) = (- ·) := by funext x; omega
  have e2 : (fun p : Pt => (p.1, -1 * p.2 + 0)) = fun p => (p.1, -p.2) := by
    funext p; simp
  rw [e, e2] at h; exact h

theorem getLast!_map_neg (l : List Int) (h : l ≠ []) :
    (l.map (- ·)).getLast! = - l.getLast! := by
  have hx : l.getLast? = some (l.getLast h) := List.getLast?_eq_some_getLast h
  simp [List.getLast!_eq_getLast?_getD, List.getLast?_map, hx]

theorem newTurns_neg (st : TurnState) (samples : List Int) (flush : Bool) :
    newTurns { tail := st.tail.map (- ·), head := st.head } (samples.map (- ·)) flush =
      ({ tail := (newTurns st samples flush).1.tail.map (- ·), head := (newTurns st samples flush).1.head },
        (newTurns st samples flush).2.map fun p => (p.1, -p.2)) := by
  unfold newTurns
  by_cases he : samples = []
  · subst he; simp
  · have hemp : samples.isEmpty = false := by cases samples <;> simp_all
    have hemp' : (samples.map (- ·)).isEmpty = false := by cases samples <;> simp_all
    simp only [hemp, hemp', Bool.false_eq_true, if_false, ← List.map_append, findTurns_neg,
      List.getLast?_map, List.length_map]
    have fin : ∀ k : Nat,
        (if (flush && !(List.drop k (List.map (fun x : Int => -x) (st.tail ++ samples))).isEmpty) = true then
          (({ tail := [(List.drop k (List.map (fun x : Int => -x) (st.tail ++ samples))).getLast!],
              head := st.head + samples.length } : TurnState),
            List.map (fun p : Pt => (p.fst + (st.head - st.tail.length), p.snd))
                (List.map (fun p : Pt => (p.fst, -p.snd)) (findTurns (st.tail ++ samples))) ++
              [(st.head + samples.length - 1,
                (List.drop k (List.map (fun x : Int => -x) (st.tail ++ samples))).getLast!)])
        else
          (({ tail := List.drop k (List.map (fun x : Int => -x) (st.tail ++ samples)),
              head := st.head + samples.length } : TurnState),
            List.map (fun p : Pt => (p.fst + (st.head - st.tail.length), p.snd))
              (List.map (fun p : Pt => (p.fst, -p.snd)) (findTurns (st.tail ++ samples))))) =
        (({ tail := List.map (fun x : Int => -x)
              (if (flush && !(List.drop k (st.tail ++ samples)).isEmpty) = true then
                (({ tail := [(List.drop k (st.tail ++ samples)).getLast!],
                    head := st.head + samples.length } : TurnState),
                  List.map (fun p : Pt => (p.fst + (st.head - st.tail.length), p.snd)) (findTurns (st.tail ++ samples)) ++
                    [(st.head + samples.length - 1, (List.drop k (st.tail ++ samples)).getLast!)])
              else
                (({ tail := List.drop k (st.tail ++ samples), head := st.head + samples.length } : TurnState),
                  List.map (fun p : Pt => (p.fst + (st.head - st.tail.length), p.snd))
                    (findTurns (st.tail ++ samples)))).fst.tail,
            head :=
              (if (flush && !(List.drop k (st.tail ++ samples)).isEmpty) = true then
                (({ tail := [(List.drop k (st.tail ++ samples)).getLast!],
                    head := st.head + samples.length } : TurnState),
                  List.map (fun p : Pt => (p.fst + (st.head - st.tail.length), p.snd)) (findTurns (st.tail ++ samples)) ++
                    [(st.head + samples.length - 1, (List.drop k (st.tail ++ samples)).getLast!)])
              else
                (({ tail := List.drop k (st.tail ++ samples), head := st.head + samples.length } : TurnState),
                  List.map (fun p : Pt => (p.fst + (st.head - st.tail.length), p.snd))
                    (findTurns (st.tail ++ samples)))).fst.head } : TurnState),
          List.map (fun p : Pt => (p.fst, -p.snd))
            (if (flush && !(List.drop k (st.tail ++ samples)).isEmpty) = true then
              (({ tail := [(List.drop k (st.tail ++ samples)).getLast!],
                  head := st.head + samples.length } : TurnState),
                List.map (fun p : Pt => (p.fst + (st.head - st.tail.length), p.snd)) (findTurns (st.tail ++ samples)) ++
                  [(st.head + samples.length - 1, (List.drop k (st.tail ++ samples)).getLast!)])
            else
              (({ tail := List.drop k (st.tail ++ samples), head := st.head + samples.length } : TurnState),
                List.map (fun p : Pt => (p.fst + (st.head - st.tail.length), p.snd))
                  (findTurns (st.tail ++ samples)))).snd) := by
      intro k
      rw [← List.map_drop]
      by_cases hd : (st.tail ++ samples).drop k = []
      · simp [hd]
      · have hd' : ((st.tail ++ samples).drop k).isEmpty = false := by
          cases h : (st.tail ++ samples).drop k <;> simp_all
        cases flush
        · simp
        · have hd2 : (((st.tail ++ samples).drop k).map (fun x : Int => -x)).isEmpty = false := by
            cases h : (st.tail ++ samples).drop k <;> simp_all
          simp only [Bool.true_and, hd', hd2, Bool.not_false, if_true, getLast!_map_neg _ hd]
          simp [Function.comp_def]
    cases hL : (findTurns (st.tail ++ samples)).getLast? with
    | none => simp only [Option.map_none]; exact fin 0
    | some q => simp only [Option.map_some]; exact fin q.1


/-! ### the decided turning points and the last sample dominate every sample (in absolute value) -/

/-- invariant of the scan: `B` bounds what has been passed, relative to the current direction -/
def ScanInv (dir prev : Int) (B : Nat) : Prop :=
  (dir = 1 → -(B : Int) ≤ prev) ∧ (dir = -1 → prev ≤ B) ∧ (dir ≠ 1 → dir ≠ -1 → prev.natAbs ≤ B)

theorem findTurnsAux_bound (xs : List Int) : ∀ (dir : Int) (cand : Pt) (i : Nat) (prev : Int) (B : Nat),
    cand.2 = prev → ScanInv dir prev B →
    ∀ x ∈ prev :: xs, x.natAbs ≤ B ∨ (∃ p ∈ findTurnsAux dir cand i prev xs, x.natAbs ≤ p.2.natAbs) ∨
      x.natAbs ≤ (xs.getLastD prev).natAbs := by
  induction xs with
  | nil =>
    intro dir cand i prev B _ _ x hx
    simp only [List.mem_singleton] at hx
    subst hx; exact Or.inr (Or.inr (Nat.le_refl _))
  | cons y ys ih =>
    intro dir cand i prev B hc hinv x hx
    obtain ⟨i1, i2, i3⟩ := hinv
    simp only [findTurnsAux, List.getLastD_cons]
    rcases Rainflow.sgn_cases (y - prev) with ⟨hs, hy⟩ | ⟨hs, hy⟩ | ⟨hs, hy⟩
    · -- plateau
      have hyp : y = prev := by omega
      subst hyp
      rw [if_pos hs]
      apply ih dir cand (i+1) y B hc ⟨i1, i2, i3⟩ x
      rcases List.mem_cons.mp hx with h | h
      · rw [h]; exact List.mem_cons_self
      · exact h
    · rw [if_neg (by rw [hs]; decide)]
      by_cases ht : dir ≠ 0 ∧ sgn (y - prev) ≠ dir
      · rw [if_pos ht]
        rcases List.mem_cons.mp hx with h | h
        · exact Or.inr (Or.inl ⟨cand, List.mem_cons_self, by rw [h, hc]; exact Nat.le_refl _⟩)
        · have := ih (sgn (y - prev)) (i, y) (i+1) y (max B prev.natAbs) rfl
            (by rw [hs]; refine ⟨fun _ => by omega, fun h => by omega, fun h => absurd rfl h⟩) x h
          rcases this with h1 | ⟨p, hp, h2⟩ | h3
          · by_cases hb : x.natAbs ≤ B
            · exact Or.inl hb
            · exact Or.inr (Or.inl ⟨cand, List.mem_cons_self, by rw [hc]; omega⟩)
          · exact Or.inr (Or.inl ⟨p, List.mem_cons_of_mem _ hp, h2⟩)
          · exact Or.inr (Or.inr h3)
      · rw [if_neg ht]
        rw [hs] at ht
        have hinv' : ScanInv (sgn (y - prev)) y B := by
          rw [hs]
          refine ⟨fun _ => ?_, fun h => by omega, fun h => absurd rfl h⟩
          by_cases hd : dir = 1
          · have := i1 hd; omega
          · have hd0 : dir = 0 := by
              by_cases h0 : dir = 0
              · exact h0
              · exact absurd ⟨h0, fun h => hd h.symm⟩ ht
            have := i3 (by omega) (by omega); omega
        rcases List.mem_cons.mp hx with h | h
        · have hy' := ih (sgn (y - prev)) (i, y) (i+1) y B rfl hinv' y List.mem_cons_self
          have hpy : prev.natAbs ≤ B ∨ prev.natAbs ≤ y.natAbs := by
            by_cases hd : dir = 1
            · have := i1 hd; omega
            · have hd0 : dir = 0 := by
                by_cases h0 : dir = 0
                · exact h0
                · exact absurd ⟨h0, fun h => hd h.symm⟩ ht
              have := i3 (by omega) (by omega); omega
          rw [h]
          rcases hpy with hp | hp
          · exact Or.inl hp
          · rcases hy' with h1 | ⟨p, hp', h2⟩ | h3
            · exact Or.inl (by omega)
            · exact Or.inr (Or.inl ⟨p, hp', by omega⟩)
            · exact Or.inr (Or.inr (by omega))
        · exact ih (sgn (y - prev)) (i, y) (i+1) y B rfl hinv' x h
    · rw [if_neg (by rw [hs]; decide)]
      by_cases ht : dir ≠ 0 ∧ sgn (y - prev) ≠ dir
      · rw [if_pos ht]
        rcases List.mem_cons.mp hx with h | h
        · exact Or.inr (Or.inl ⟨cand, List.mem_cons_self, by rw [h, hc]; exact Nat.le_refl _⟩)
        · have := ih (sgn (y - prev)) (i, y) (i+1) y (max B prev.natAbs) rfl
            (by rw [hs]; refine ⟨fun h => by omega, fun _ => by omega, fun _ h => absurd rfl h⟩) x h
          rcases this with h1 | ⟨p, hp, h2⟩ | h3
          · by_cases hb : x.natAbs ≤ B
            · exact Or.inl hb
            · exact Or.inr (Or.inl ⟨cand, List.mem_cons_self, by rw [hc]; omega⟩)
          · exact Or.inr (Or.inl ⟨p, List.mem_cons_of_mem _ hp, h2⟩)
          · exact Or.inr (Or.inr h3)
      · rw [if_neg ht]
        rw [hs] at ht
        have hinv' : ScanInv (sgn (y - prev)) y B := by
          rw [hs]
          refine ⟨fun h => by omega, fun _ => ?_, fun _ h => absurd rfl h⟩
          by_cases hd : dir = -1
          · have := i2 hd; omega
          · have hd0 : dir = 0 := by
              by_cases h0 : dir = 0
              · exact h0
              · exact absurd ⟨h0, fun h => hd h.symm⟩ ht
            have := i3 (by omega) (by omega); omega
        rcases List.mem_cons.mp hx with h | h
        · have hy' := ih (sgn (y - prev)) (i, y) (i+1) y B rfl hinv' y List.mem_cons_self
          have hpy : prev.natAbs ≤ B ∨ prev.natAbs ≤ y.natAbs := by
            by_cases hd : dir = -1
            · have := i2 hd; omega
            · have hd0 : dir = 0 := by
                by_cases h0 : dir = 0
                · exact h0
                · exact absurd ⟨h0, fun h => hd h.symm⟩ ht
              have := i3 (by omega) (by omega); omega
          rw [h]
          rcases hpy with hp | hp
          · exact Or.inl hp
          · rcases hy' with h1 | ⟨p, hp', h2⟩ | h3
            · exact Or.inl (by omega)
            · exact Or.inr (Or.inl ⟨p, hp', by omega⟩)
            · exact Or.inr (Or.inr (by omega))
        · exact ih (sgn (y - prev)) (i, y) (i+1) y B rfl hinv' x h

/-- In a signal that starts at `0`, every sample is dominated in absolute value by a turning point
or by the last sample. -/
theorem findTurns_bound (xs : List Int) :
    ∀ x ∈ (0 : Int) :: xs, (∃ p ∈ findTurns (0 :: xs), x.natAbs ≤ p.2.natAbs) ∨
      x.natAbs ≤ (xs.getLastD 0).natAbs := by
  intro x hx
  have := findTurnsAux_bound xs 0 (0, 0) 1 0 0 rfl
    ⟨fun h => by omega, fun h => by omega, fun _ _ => by simp⟩ x hx
  rcases this with h | h | h
  · exact Or.inr (by omega)
  · exact Or.inl h
  · exact Or.inr h


/-! ### fields the HCM loop does not touch -/

theorem processSample_frame (law : Law) (load : Vec) (fuel : Nat) (st : State) :
    (processSample law load fuel st).1.lastSample = st.lastSample ∧
    (processSample law load fuel st).1.ts = st.ts := by
  fun_induction processSample law load fuel st with
  | case7 fuel st cur hne hlt p1 p0 rest hres curExt prevExt hge st' hge2 ih => exact ih
  | _ => exact ⟨rfl, rfl⟩

theorem turnStep_frame (law : Law) (acc : State × Int) (load : Vec) :
    (turnStep law acc load).1.lastSample = acc.1.lastSample ∧
    (turnStep law acc load).1.ts = acc.1.ts := by
  obtain ⟨st, prev⟩ := acc
  have := processSample_frame law load (st.res.length / 2 + 2) { st with fed := st.fed ++ [(st.run, load)] }
  simp only [turnStep, updateLF]
  split_ifs <;> exact this

theorem foldl_turnStep_frame (law : Law) (loads : List Vec) : ∀ (acc : State × Int),
    (loads.foldl (turnStep law) acc).1.lastSample = acc.1.lastSample ∧
    (loads.foldl (turnStep law) acc).1.ts = acc.1.ts := by
  induction loads with
  | nil => intro acc; exact ⟨rfl, rfl⟩
  | cons l ls ih =>
    intro acc
    have h1 := ih (turnStep law acc l)
    have h2 := turnStep_frame law acc l
    simp only [List.foldl_cons]
    exact ⟨h1.1.trans h2.1, h1.2.trans h2.2⟩

theorem process_lastSample (law : Law) (st : State) (samples : List Vec) (flush : Bool) :
    (process law st samples flush).lastSample = samples.getLastD st.lastSample := by
  rw [process_eq]
  have := (foldl_turnStep_frame law (procLoads st samples flush) (procInit st samples flush, st.prevLoad)).1
  simp only at this ⊢
  rw [this]
  unfold procInit; by_cases h : st.started <;> simp [h]

theorem process_ts (law : Law) (st : State) (samples : List Vec) (flush : Bool) :
    (process law st samples flush).ts = (newTurns st.ts (samples.map rep) flush).1 := by
  rw [process_eq]
  have := (foldl_turnStep_frame law (procLoads st samples flush) (procInit st samples flush, st.prevLoad)).2
  simp only at this ⊢
  rw [this]
  unfold procInit; by_cases h : st.started <;> simp [h]


/-! ### what the first pass is fed -/

theorem lastIdx_findTurns_lt (xs : List Int) (hne : xs ≠ []) : lastIdx (findTurns xs) < xs.length := by
  unfold lastIdx
  cases h : (findTurns xs).getLast? with
  | none => exact List.length_pos_of_ne_nil hne
  | some p => exact Sym.findTurns_index_lt xs p (List.mem_of_getLast? h)

/-- the turning points handed out by a flushing first call: the decided ones and the last sample -/
theorem newTurns_init_flush (xs : List Int) (hne : xs ≠ []) :
    (newTurns {} xs true).2 = findTurns xs ++ [(xs.length - 1, xs.getLast hne)] := by
  have hemp : xs.isEmpty = false := by cases xs <;> simp_all
  have hk := lastIdx_findTurns_lt xs hne
  have hd : (xs.drop (lastIdx (findTurns xs))).isEmpty = false := by
    rw [List.isEmpty_eq_false_iff]; intro h; rw [List.drop_eq_nil_iff] at h; omega
  have hl : (xs.drop (lastIdx (findTurns xs))).getLast! = xs.getLast hne := by
    rw [List.getLast!_eq_getLast?_getD, List.getLast?_drop, if_neg (by omega),
      List.getLast?_eq_some_getLast hne]; rfl
  unfold newTurns
  simp only [hemp, Bool.false_eq_true, if_false, List.nil_append, Bool.true_and]
  change (if (!(xs.drop (lastIdx (findTurns xs))).isEmpty) = true then
      ((_ : TurnState), findTurns xs |>.map (fun p => (p.fst + (0 - ([] : List Int).length), p.snd)) |>.append
        [(0 + xs.length - 1, (xs.drop (lastIdx (findTurns xs))).getLast!)])
    else (_ : TurnState × List Pt)).2 = _
  rw [hd, hl]
  simp

theorem getElem!_of_getElem? {α : Type} [Inhabited α] (l : List α) (i : Nat) (v : α)
    (h : l[i]? = some v) : l.toArray[i]! = v := by
  simp [List.getElem!_toArray, List.getElem!_eq_getElem?_getD, h]

theorem pass1_fed_turn (samples : List Vec) (hne : samples ≠ []) :
    ∀ p ∈ findTurns (samples.map rep), ∃ load ∈ procLoads {} samples true, rep load = p.2 := by
  intro p hp
  have hv := Sym.findTurns_index_valid _ p hp
  rw [List.getElem?_map] at hv
  cases hs : samples[p.1]? with
  | none => rw [hs] at hv; cases hv
  | some v =>
    rw [hs] at hv
    simp only [Option.map_some, Option.some.injEq] at hv
    refine ⟨v, ?_, hv⟩
    unfold procLoads
    rw [show ({} : State).ts = {} from rfl, newTurns_init_flush _ (by simpa using hne)]
    refine List.mem_map.mpr ⟨p, List.mem_append_left _ hp, ?_⟩
    simp only [Nat.not_lt_zero, if_false, Nat.sub_zero]
    exact getElem!_of_getElem? samples p.1 v hs

theorem pass1_fed_last (samples : List Vec) (hne : samples ≠ []) :
    ∃ load ∈ procLoads {} samples true, rep load = (samples.map rep).getLast (by simpa using hne) := by
  refine ⟨samples.getLast hne, ?_, by simp [List.getLast_map]⟩
  unfold procLoads
  rw [show ({} : State).ts = {} from rfl, newTurns_init_flush _ (by simpa using hne)]
  refine List.mem_map.mpr ⟨_, List.mem_append_right _ List.mem_cons_self, ?_⟩
  simp only [Nat.not_lt_zero, if_false, Nat.sub_zero, List.length_map]
  apply getElem!_of_getElem?
  rw [List.getLast_eq_getElem, List.getElem?_eq_getElem]

theorem getLast_cons_eq_getLastD (l : List Int) : ∀ a : Int,
    (a :: l).getLast (List.cons_ne_nil _ _) = l.getLastD a := by
  induction l with
  | nil => intro a; rfl
  | cons b l ih => intro a; rw [List.getLast_cons_cons, List.getLastD_cons]; exact ih b

/-- A flushing first pass over samples starting at `0` is fed, for every sample, a load that is at
least as large in absolute value. -/
theorem pass1_dominates (samples : List Vec) (x0 : Vec) (h0 : rep x0 = 0) :
    ∀ x ∈ (x0 :: samples).map rep,
      ∃ load ∈ procLoads {} (x0 :: samples) true, x.natAbs ≤ (rep load).natAbs := by
  intro x hx
  simp only [List.map_cons, h0] at hx
  rcases findTurns_bound (samples.map rep) x hx with ⟨p, hp, hle⟩ | hle
  · obtain ⟨load, hl, hr⟩ := pass1_fed_turn (x0 :: samples) (by simp) p (by simpa [h0] using hp)
    exact ⟨load, hl, by rw [hr]; exact hle⟩
  · obtain ⟨load, hl, hr⟩ := pass1_fed_last (x0 :: samples) (by simp)
    refine ⟨load, hl, ?_⟩
    rw [hr]
    have : ((x0 :: samples).map rep).getLast (by simp) = (samples.map rep).getLastD 0 := by
      simp only [List.map_cons, h0]
      exact getLast_cons_eq_getLastD _ _
    rw [this]; exact hle


/-- every load vector handed to the loop is the stored last sample, a sample of the chunk, or the
default (out-of-range index; never happens) -/
theorem procLoads_mem (st : State) (samples : List Vec) (flush : Bool) :
    ∀ load ∈ procLoads st samples flush, load = st.lastSample ∨ load ∈ samples ∨ load = [] := by
  intro load hl
  unfold procLoads at hl
  obtain ⟨p, _, rfl⟩ := List.mem_map.mp hl
  split_ifs
  · exact Or.inl rfl
  · right
    simp only [List.getElem!_toArray, List.getElem!_eq_getElem?_getD]
    cases h : samples[p.1 - st.ts.head]? with
    | none => exact Or.inr rfl
    | some v => exact Or.inl (List.mem_of_getElem? h)

theorem twoPass_eq (law : Law) (s : List Vec) :
    twoPassR law s = process law (process law {} (adjustFirstRunR (dropTrailingNonReversals s)).1
      (adjustFirstRunR (dropTrailingNonReversals s)).2) (dropTrailingNonReversals s) true := rfl

theorem adjustFirstRun_fst (s : List Vec) :
    (adjustFirstRunR s).1 = List.replicate (s.headD []).length 0 :: s := rfl

theorem rep_replicate_zero (n : Nat) : rep (List.replicate n 0) = 0 := by
  cases n <;> simp [rep, List.replicate_succ]

end PylifeVerif.HCM
