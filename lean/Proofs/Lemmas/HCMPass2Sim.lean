/-
Helper lemmas for C04 `pass2_eq_periodicRainflow`, part 3: the detector model projected to loads
is the load-only machine of `HCMPass2Abs.lean` (simulation), whatever the notch law.
-/
import Proofs.Lemmas.HCMPass2Abs
import Proofs.Lemmas.HCMInsert

namespace PylifeVerif.C04
open PylifeVerif.Rainflow PylifeVerif.HCM PylifeVerif.HCM.Spec PylifeVerif.HCM.Insert

/-- `aLoop` in the shape of `processSample` -/
theorem aLoop_eq (x : Int) (ir lmax : Nat) (stk : List Int) :
    aLoop x ir lmax stk =
      if stk.length = ir then
        (match stk with
         | j :: _ => if x.natAbs > lmax then ([(-(j.natAbs : Int), (j.natAbs : Int))], stk, ir + 1)
                     else ([], stk, ir)
         | [] => ([], stk, ir))
      else if stk.length < ir then ([], stk, ir)
      else
        (match stk with
         | j :: i :: rest =>
           if absDiff x j < absDiff j i then ([], stk, ir)
           else if ir ≤ rest.length then
             ((min i j, max i j) :: (aLoop x ir lmax rest).1, (aLoop x ir lmax rest).2)
           else ([(min i j, max i j)], rest, ir)
         | _ => ([], stk, ir)) := by
  match stk with
  | [] => simp [aLoop]
  | [j] =>
    by_cases h1 : 1 = ir <;> by_cases h2 : x.natAbs > lmax <;> simp [aLoop, h1, h2]
  | j :: i :: rest =>
    simp only [aLoop, List.length_cons]

def range (h : Hyst) : Int × Int := (rep h.loadMin, rep h.loadMax)

def loadsOfRes (res : List HPoint) : List Int := res.map fun p => rep p.load

theorem rep_vabs (v : Vec) : rep (vabs v) = ((rep v).natAbs : Int) := by
  cases v <;> rfl

theorem rep_vneg_vabs (v : Vec) : rep (vneg (vabs v)) = -((rep v).natAbs : Int) := by
  cases v <;> rfl

theorem range_half (st : State) (prev : HPoint) :
    range (halfHyst st prev) = (-((rep prev.load).natAbs : Int), ((rep prev.load).natAbs : Int)) := by
  simp only [range, halfHyst, rep_vabs, rep_vneg_vabs]

theorem range_closed (st : State) (p0 p1 : HPoint) :
    range (closedHyst st p0 p1) =
      (min (rep p0.load) (rep p1.load), max (rep p0.load) (rep p1.load)) := by
  simp only [range, closedHyst, if_true, Bool.false_eq_true, if_false]
  refine Prod.ext ?_ ?_
  · simp only []
    split <;> omega
  · simp only []
    split <;> omega

theorem sim_ps (law : Law) (load : Vec) (fuel : Nat) (st : State)
    (hiz : st.iz = st.res.length) (hf : st.res.length / 2 + 1 ≤ fuel) :
    loadsOfRes (processSample law load fuel st).1.res =
        (aLoop (rep load) st.ir st.loadMax (loadsOfRes st.res)).2.1 ∧
    (processSample law load fuel st).1.ir = (aLoop (rep load) st.ir st.loadMax (loadsOfRes st.res)).2.2 ∧
    (processSample law load fuel st).1.iz = (processSample law load fuel st).1.res.length ∧
    (processSample law load fuel st).1.loadMax = st.loadMax ∧
    (processSample law load fuel st).1.run = st.run ∧
    ∃ new, (processSample law load fuel st).1.recs = st.recs ++ new ∧ (∀ h ∈ new, h.run = st.run) ∧
      new.map range = (aLoop (rep load) st.ir st.loadMax (loadsOfRes st.res)).1 := by
  fun_induction processSample law load fuel st
  case case1 => omega
  case case2 =>
    rename_i fuel st cur h1 prev tail hres hx p st'
    have hlen : (loadsOfRes st.res).length = st.ir := by simp [loadsOfRes]; omega
    have hx' : (rep load).natAbs > st.loadMax := hx
    rw [aLoop_eq, if_pos hlen]
    simp only [loadsOfRes, hres, List.map_cons, hx', if_true]
    refine ⟨?_, rfl, hiz, rfl, rfl, [halfHyst st prev], rfl, by simp [halfHyst], by simp [range_half]⟩
    show List.map _ st.res = _
    rw [hres]; rfl
  case case3 =>
    rename_i fuel st cur h1 prev tail hres hx p
    have hlen : (loadsOfRes st.res).length = st.ir := by simp [loadsOfRes]; omega
    have hx' : ¬ (rep load).natAbs > st.loadMax := hx
    rw [aLoop_eq, if_pos hlen]
    simp only [loadsOfRes, hres, List.map_cons, hx', if_false]
    refine ⟨?_, rfl, hiz, rfl, rfl, [], by simp [noteStrain], by simp, by simp⟩
    show List.map _ st.res = _
    rw [hres]; rfl
  case case4 =>
    rename_i fuel st h1 hres
    have hlen : (loadsOfRes st.res).length = st.ir := by simp [loadsOfRes]; omega
    rw [aLoop_eq, if_pos hlen]
    have hz0 : st.iz = 0 := by rw [hiz, hres]; rfl
    simp [loadsOfRes, hres, hz0]
  case case5 =>
    rename_i fuel st h1 h2 p
    have hlen : ¬ (loadsOfRes st.res).length = st.ir := by simp [loadsOfRes]; omega
    have hlen2 : (loadsOfRes st.res).length < st.ir := by simp [loadsOfRes]; omega
    rw [aLoop_eq, if_neg hlen, if_pos hlen2]
    exact ⟨rfl, rfl, hiz, rfl, rfl, [], by simp [noteStrain], by simp, by simp⟩
  case case6 =>
    rename_i fuel st cur h1 h2 p1 p0 rest hres curExt prevExt hc p
    have hlen : ¬ (loadsOfRes st.res).length = st.ir := by simp [loadsOfRes]; omega
    have hlen2 : ¬ (loadsOfRes st.res).length < st.ir := by simp [loadsOfRes]; omega
    have hc' : absDiff (rep load) (rep p1.load) < absDiff (rep p1.load) (rep p0.load) := hc
    rw [aLoop_eq, if_neg hlen, if_neg hlen2]
    simp only [loadsOfRes, hres, List.map_cons, hc', if_true]
    refine ⟨?_, rfl, hiz, rfl, rfl, [], by simp [noteStrain], by simp, by simp⟩
    show List.map _ st.res = _
    rw [hres]; rfl
  case case7 =>
    rename_i fuel st cur h1 h2 p1 p0 rest hres curExt prevExt hc st' hge ih
    have hlen : ¬ (loadsOfRes st.res).length = st.ir := by simp [loadsOfRes]; omega
    have hlen2 : ¬ (loadsOfRes st.res).length < st.ir := by simp [loadsOfRes]; omega
    have hc' : ¬ absDiff (rep load) (rep p1.load) < absDiff (rep p1.load) (rep p0.load) := hc
    have hl : st.res.length = rest.length + 2 := by rw [hres]; simp
    have hge' : st.ir ≤ (List.map (fun p => rep p.load) rest).length := by
      have : st.iz - 2 ≥ st.ir := hge
      simp only [List.length_map]; omega
    rw [aLoop_eq, if_neg hlen, if_neg hlen2]
    simp only [loadsOfRes, hres, List.map_cons, hc', if_false, hge', if_true]
    have hiz' : st'.iz = st'.res.length := by
      show st.iz - 2 = rest.length
      omega
    obtain ⟨i1, i2, i3, i4, i5, new, i6, i7, i8⟩ := ih hiz' (by show rest.length / 2 + 1 ≤ _; omega)
    refine ⟨i1, i2, i3, i4, i5, closedHyst st p0 p1 :: new, ?_, ?_, ?_⟩
    · rw [i6]; show (st.recs ++ [closedHyst st p0 p1]) ++ new = _; simp
    · intro h hh
      rcases List.mem_cons.1 hh with rfl | hh
      · rfl
      · exact i7 h hh
    · rw [List.map_cons, range_closed, i8]; rfl
  case case8 =>
    rename_i fuel st cur h1 h2 p1 p0 rest hres curExt prevExt hc st' hge p
    have hlen : ¬ (loadsOfRes st.res).length = st.ir := by simp [loadsOfRes]; omega
    have hlen2 : ¬ (loadsOfRes st.res).length < st.ir := by simp [loadsOfRes]; omega
    have hc' : ¬ absDiff (rep load) (rep p1.load) < absDiff (rep p1.load) (rep p0.load) := hc
    have hl : st.res.length = rest.length + 2 := by rw [hres]; simp
    have hge' : ¬ st.ir ≤ (List.map (fun p => rep p.load) rest).length := by
      have : ¬ st.iz - 2 ≥ st.ir := hge
      simp only [List.length_map]; omega
    rw [aLoop_eq, if_neg hlen, if_neg hlen2]
    simp only [loadsOfRes, hres, List.map_cons, hc', if_false, hge']
    refine ⟨rfl, rfl, ?_, rfl, rfl, [closedHyst st p0 p1], rfl, by simp [closedHyst], by simp [range_closed]⟩
    show st.iz - 2 = rest.length
    omega
  case case9 =>
    rename_i fuel st h1 h2 hres
    have hlen : ¬ (loadsOfRes st.res).length = st.ir := by simp [loadsOfRes]; omega
    have hlen2 : ¬ (loadsOfRes st.res).length < st.ir := by simp [loadsOfRes]; omega
    rw [aLoop_eq, if_neg hlen, if_neg hlen2]
    have : ∀ l : List Int, (∀ j i r, l = j :: i :: r → False) →
        (match l with
          | j :: i :: rest =>
            if absDiff (rep load) j < absDiff j i then (([] : List (Int × Int)), l, st.ir)
            else if st.ir ≤ rest.length then
              ((min i j, max i j) :: (aLoop (rep load) st.ir st.loadMax rest).1,
                (aLoop (rep load) st.ir st.loadMax rest).2)
            else ([(min i j, max i j)], rest, st.ir)
          | _ => ([], l, st.ir)) = ([], l, st.ir) := by
      intro l hl
      match l, hl with
      | [], _ => rfl
      | [_], _ => rfl
      | j :: i :: r, hl => exact (hl j i r rfl).elim
    rw [this]
    · exact ⟨rfl, rfl, hiz, rfl, rfl, [], by simp, by simp, by simp⟩
    · intro j i r hl
      unfold loadsOfRes at hl
      match hr : st.res, hl with
      | [], hl => simp at hl
      | [_], hl => simp at hl
      | a :: b :: c, _ => exact hres a b c hr

/-- projection of a detector state to the load-only machine -/
def absOf (st : State) : AState := ⟨loadsOfRes st.res, st.ir, st.loadMax⟩

theorem finish_abs (pl cur : Int) (s : State) (p : HPoint) :
    (finish pl cur (s, p)).1.recs = s.recs ∧ (finish pl cur (s, p)).1.iz = s.iz + 1 ∧
    (finish pl cur (s, p)).1.ir = s.ir ∧ (finish pl cur (s, p)).1.res = p :: s.res ∧
    (finish pl cur (s, p)).1.loadMax = max s.loadMax cur.natAbs ∧
    (finish pl cur (s, p)).1.run = s.run := by
  unfold finish
  by_cases h : cur.natAbs > s.loadMax
  · simp only [h, if_true]
    unfold updateLF
    by_cases h2 : pl < cur
    · simp [h2]; omega
    · simp [h2]; omega
  · simp only [h, if_false]
    unfold updateLF
    by_cases h2 : pl < cur
    · simp [h2]; omega
    · simp [h2]; omega

/-- one turning point: the model follows the load-only machine -/
theorem sim_turn (law : Law) (st : State) (pl : Int) (load : Vec) (hiz : st.iz = st.res.length) :
    absOf (turnStep law (st, pl) load).1 = (aStep (absOf st) (rep load)).2 ∧
    (turnStep law (st, pl) load).1.iz = (turnStep law (st, pl) load).1.res.length ∧
    (turnStep law (st, pl) load).1.run = st.run ∧
    ∃ new, (turnStep law (st, pl) load).1.recs = st.recs ++ new ∧ (∀ h ∈ new, h.run = st.run) ∧
      new.map range = (aStep (absOf st) (rep load)).1 := by
  rw [turnStep_eq]
  have hl := HCM.Common.processSample_load law load (st.res.length / 2 + 2) (addFed st load)
  obtain ⟨s1, s2, s3, s4, s5, new, s6, s7, s8⟩ :=
    sim_ps law load (st.res.length / 2 + 2) (addFed st load) hiz
      (by show st.res.length / 2 + 1 ≤ _; omega)
  obtain ⟨f1, f2, f3, f4, f5, f6⟩ := finish_abs pl (rep load)
    (processSample law load (st.res.length / 2 + 2) (addFed st load)).1
    (processSample law load (st.res.length / 2 + 2) (addFed st load)).2
  refine ⟨?_, ?_, ?_, new, ?_, s7, s8⟩
  · unfold absOf aStep
    simp only [f3, f4, f5, s2, s4]
    congr 1
    simp only [loadsOfRes, List.map_cons, hl] at s1 ⊢
    rw [s1]; rfl
  · rw [f2, f4, s3]; simp
  · rw [f6, s5]; rfl
  · rw [f1, s6]; rfl

theorem sim_fold (law : Law) (xs : List Int) : ∀ (st : State) (pl : Int), st.iz = st.res.length →
    absOf ((one xs).foldl (turnStep law) (st, pl)).1 = (aRun (absOf st) xs).2 ∧
    ((one xs).foldl (turnStep law) (st, pl)).1.iz = ((one xs).foldl (turnStep law) (st, pl)).1.res.length ∧
    ((one xs).foldl (turnStep law) (st, pl)).1.run = st.run ∧
    ∃ new, ((one xs).foldl (turnStep law) (st, pl)).1.recs = st.recs ++ new ∧
      (∀ h ∈ new, h.run = st.run) ∧ new.map range = (aRun (absOf st) xs).1 := by
  induction xs with
  | nil => intro st pl hiz; exact ⟨rfl, hiz, rfl, [], by simp [one], by simp, rfl⟩
  | cons x xs ih =>
    intro st pl hiz
    obtain ⟨t1, t2, t3, new1, t4, t5, t6⟩ := sim_turn law st pl [x] hiz
    have e : (one (x :: xs)).foldl (turnStep law) (st, pl) =
        (one xs).foldl (turnStep law) ((turnStep law (st, pl) [x]).1, (turnStep law (st, pl) [x]).2) := rfl
    obtain ⟨i1, i2, i3, new2, i4, i5, i6⟩ := ih (turnStep law (st, pl) [x]).1 (turnStep law (st, pl) [x]).2 t2
    rw [e]
    have hr : rep [x] = x := rfl
    rw [hr] at t1 t6
    refine ⟨?_, i2, by rw [i3, t3], new1 ++ new2, ?_, ?_, ?_⟩
    · rw [i1, t1]; rfl
    · rw [i4, t4]; simp
    · intro h hh
      rcases List.mem_append.1 hh with hh | hh
      · exact t5 h hh
      · rw [← t3]; exact i5 h hh
    · rw [List.map_append, t6, i6, t1]; rfl

theorem prep_abs (st : State) (n : Nat) :
    (prep st n).run = st.run + 1 ∧ (prep st n).recs = st.recs ∧ absOf (prep st n) = absOf st ∧
    (prep st n).iz = st.iz ∧ (prep st n).res = st.res := by
  obtain ⟨ts, res, iz, ir, loadMax, run, eMinLF, eMaxLF, started, lastSample, prevLoad, sv, nF, recs, fed⟩ := st
  cases started <;> exact ⟨rfl, rfl, rfl, rfl, rfl⟩

/-- one pass (`feed`) on a one-point sequence of turning points -/
theorem sim_feed (law : Law) (st : State) (xs : List Int) (hiz : st.iz = st.res.length) :
    absOf (feed law st 1 (one xs)) = (aRun (absOf st) xs).2 ∧
    (feed law st 1 (one xs)).iz = (feed law st 1 (one xs)).res.length ∧
    (feed law st 1 (one xs)).run = st.run + 1 ∧
    ∃ new, (feed law st 1 (one xs)).recs = st.recs ++ new ∧ (∀ h ∈ new, h.run = st.run + 1) ∧
      new.map range = (aRun (absOf st) xs).1 := by
  obtain ⟨p1, p2, p3, p4, p5⟩ := prep_abs st 1
  obtain ⟨f1, f2, f3, new, f4, f5, f6⟩ := sim_fold law xs (prep st 1) st.prevLoad (by rw [p4, p5]; exact hiz)
  rw [p3] at f1 f6
  rw [p1] at f3 f5
  rw [p2] at f4
  exact ⟨f1, f2, f3, new, f4, f5, f6⟩

/-- **Projection to the load-only machine.**  The `(min, max)` load ranges recorded in pass 2 are
the ranges that the load-only machine emits in pass 2 – for every notch law. -/
theorem pass2Ranges_feed (law : Law) (F1 F2 : List Int) :
    pass2Ranges (feed law (feed law {} 1 (one F1)) 1 (one F2)) = (aRun (aRun aInit F1).2 F2).1 := by
  obtain ⟨a1, a2, a3, new1, a4, a5, a6⟩ := sim_feed law {} F1 rfl
  obtain ⟨b1, b2, b3, new2, b4, b5, b6⟩ := sim_feed law (feed law {} 1 (one F1)) F2 a2
  have e0 : absOf ({} : State) = aInit := rfl
  rw [e0] at a1
  rw [a1] at b6
  rw [a3] at b5
  unfold pass2Ranges
  rw [b4, a4, List.filter_append, List.filter_append]
  have h1 : new1.filter (fun h => decide (h.run = 2)) = [] := by
    rw [List.filter_eq_nil_iff]
    intro h hh
    have := a5 h hh
    simp [this]
  have h2 : new2.filter (fun h => decide (h.run = 2)) = new2 := by
    rw [List.filter_eq_self]
    intro h hh
    have := b5 h hh
    simp [this]
  have h0 : (({} : State).recs).filter (fun h => decide (h.run = 2)) = [] := rfl
  rw [h0, h1, h2, ← b6]
  rfl

end PylifeVerif.C04
