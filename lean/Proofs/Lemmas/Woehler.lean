/-
Helper lemmas for C08 (Woehler curve algebra) over ℝ.
-/
import Model.Woehler
import Proofs.RealNum
import Mathlib.Tactic.Linarith
import Mathlib.Tactic.Ring
import Mathlib.Tactic.FieldSimp
import Mathlib.Tactic.NormNum
import Mathlib.Analysis.SpecialFunctions.Log.Basic

namespace PylifeVerif.Woehler
open Real

@[simp] theorem sci_one : (1.0 : ℝ) = 1 := by norm_num
@[simp] theorem sci_two : (2.0 : ℝ) = 2 := by norm_num
@[simp] theorem sci_zero : (0.0 : ℝ) = 0 := by norm_num
@[simp] theorem sci_ten : (10.0 : ℝ) = 10 := by norm_num

/-- Order on possibly infinite lives: `finite a ≤ finite b ↔ a ≤ b`, everything `≤ inf`. -/
def Life.le : Life ℝ → Life ℝ → Prop
  | _, Life.inf => True
  | Life.finite a, Life.finite b => a ≤ b
  | Life.inf, Life.finite _ => False

/-- The curves the property quantifies over: `k_1 > 1`, `k_2 ≥ k_1` or `inf`, `SD, ND > 0`,
`TN, TS ≥ 1`. -/
structure Valid (w : Curve ℝ) : Prop where
  k1 : 1 < w.k1
  k2 : ∀ k, w.k2 = Life.finite k → w.k1 ≤ k
  SD : 0 < w.SD
  ND : 0 < w.ND
  TN : 1 ≤ w.TN
  TS : 1 ≤ w.TS

theorem Curve.ext' {a b : Curve ℝ} (h1 : a.k1 = b.k1) (h2 : a.k2 = b.k2) (h3 : a.SD = b.SD)
    (h4 : a.ND = b.ND) (h5 : a.TN = b.TN) (h6 : a.TS = b.TS) (h7 : a.pf = b.pf) : a = b := by
  cases a; cases b; simp_all

/-! ### unfolding `cyclesAt` / `loadAt` -/

theorem cyclesAt_above {w : Curve ℝ} {L : ℝ} (h : w.SD ≤ L) :
    cyclesAt w L = Life.finite (w.ND * (L / w.SD) ^ (-w.k1)) := by
  simp [cyclesAt, makeK, not_lt.mpr h]

theorem cyclesAt_below {w : Curve ℝ} {L k : ℝ} (h : L < w.SD) (hk : w.k2 = Life.finite k) :
    cyclesAt w L = Life.finite (w.ND * (L / w.SD) ^ (-k)) := by
  simp [cyclesAt, makeK, h, hk]

theorem cyclesAt_below_inf {w : Curve ℝ} {L : ℝ} (h : L < w.SD) (hk : w.k2 = Life.inf) :
    cyclesAt w L = Life.inf := by
  simp [cyclesAt, makeK, h, hk]

theorem loadAt_above {w : Curve ℝ} {N : ℝ} (h : N ≤ w.ND) :
    loadAt w N = w.SD * (N / w.ND) ^ (-1 / w.k1) := by
  simp [loadAt, makeK, not_lt.mpr h]

theorem loadAt_below {w : Curve ℝ} {N k : ℝ} (h : w.ND < N) (hk : w.k2 = Life.finite k) :
    loadAt w N = w.SD * (N / w.ND) ^ (-1 / k) := by
  simp [loadAt, makeK, h, hk]

theorem loadAt_below_inf {w : Curve ℝ} {N : ℝ} (h : w.ND < N) (hk : w.k2 = Life.inf) :
    loadAt w N = w.SD := by
  simp [loadAt, makeK, h, hk]

/-! ### real powers -/

theorem rpow_neg_roundtrip {x k : ℝ} (hx : 0 < x) (hk : k ≠ 0) : (x ^ (-k)) ^ (-1 / k) = x := by
  rw [← Real.rpow_mul hx.le]
  have : -k * (-1 / k) = 1 := by field_simp
  rw [this, Real.rpow_one]

theorem rpow_inv_roundtrip {x k : ℝ} (hx : 0 < x) (hk : k ≠ 0) : (x ^ (-1 / k)) ^ (-k) = x := by
  rw [← Real.rpow_mul hx.le]
  have : -1 / k * -k = 1 := by field_simp
  rw [this, Real.rpow_one]

/-- `10^(a·log10 T) = T^a` -/
theorem ten_rpow_log10 {T : ℝ} (hT : 0 < T) (a : ℝ) :
    (10 : ℝ) ^ (a * (Real.log T / Real.log 10)) = T ^ a := by
  have h10 : (0 : ℝ) < 10 := by norm_num
  have hl : Real.log 10 ≠ 0 := by
    have : (0 : ℝ) < Real.log 10 := Real.log_pos (by norm_num)
    exact this.ne'
  rw [Real.rpow_def_of_pos h10, Real.rpow_def_of_pos hT]
  congr 1
  field_simp

/-- the Basquin line in logarithms: slope `-k` -/
theorem log_basquin {ND SD L : ℝ} (k : ℝ) (hND : 0 < ND) (hSD : 0 < SD) (hL : 0 < L) :
    Real.log (ND * (L / SD) ^ (-k)) = Real.log ND - k * (Real.log L - Real.log SD) := by
  have hx : 0 < L / SD := div_pos hL hSD
  rw [Real.log_mul hND.ne' (Real.rpow_pos_of_pos hx _).ne', Real.log_rpow hx,
    Real.log_div hL.ne' hSD.ne']
  ring

theorem basquin_pos {ND SD L : ℝ} (k : ℝ) (hND : 0 < ND) (hSD : 0 < SD) (hL : 0 < L) :
    0 < ND * (L / SD) ^ (-k) :=
  mul_pos hND (Real.rpow_pos_of_pos (div_pos hL hSD) _)

/-! ### `transform_to_failure_probability` -/

/-- the quantile shift `(z − z₀)·c` (in standard deviations per `log10 T`) -/
noncomputable def shift (ppf : ℝ → ℝ) (w : Curve ℝ) (p : ℝ) : ℝ := (ppf p - ppf w.pf) * cRange

theorem cRange_pos : (0 : ℝ) < cRange := by unfold cRange; norm_num

@[simp] theorem transform_k1 (ppf : ℝ → ℝ) (w : Curve ℝ) (p : ℝ) : (transform ppf w p).k1 = w.k1 := rfl
@[simp] theorem transform_k2 (ppf : ℝ → ℝ) (w : Curve ℝ) (p : ℝ) : (transform ppf w p).k2 = w.k2 := rfl
@[simp] theorem transform_TN (ppf : ℝ → ℝ) (w : Curve ℝ) (p : ℝ) : (transform ppf w p).TN = w.TN := rfl
@[simp] theorem transform_TS (ppf : ℝ → ℝ) (w : Curve ℝ) (p : ℝ) : (transform ppf w p).TS = w.TS := rfl
@[simp] theorem transform_pf (ppf : ℝ → ℝ) (w : Curve ℝ) (p : ℝ) : (transform ppf w p).pf = p := rfl

theorem scatter_pow {T : ℝ} (hT : 0 < T) (z0 z : ℝ) :
    (10.0 : ℝ) ^ ((z0 - z) * scatteringRangeToStd T) = T ^ ((z0 - z) * cRange) := by
  have : (z0 - z) * scatteringRangeToStd T = ((z0 - z) * cRange) * (Real.log T / Real.log 10) := by
    simp [scatteringRangeToStd, scatteringRangeToStdWith]; ring
  rw [this, sci_ten, ten_rpow_log10 hT]

theorem div_rpow_shift {T : ℝ} (hT : 0 < T) (x z0 z : ℝ) :
    x / T ^ ((z0 - z) * cRange) = x * T ^ ((z - z0) * cRange) := by
  have : (z - z0) * cRange = -((z0 - z) * cRange) := by ring
  rw [this, Real.rpow_neg hT.le, div_eq_mul_inv]

theorem transform_SD (ppf : ℝ → ℝ) (w : Curve ℝ) (p : ℝ) (hTS : 0 < w.TS) :
    (transform ppf w p).SD = w.SD * w.TS ^ shift ppf w p := by
  show w.SD / (10.0 : ℝ) ^ ((ppf w.pf - ppf p) * scatteringRangeToStd w.TS) = _
  rw [scatter_pow hTS, div_rpow_shift hTS]; rfl

theorem transform_SD_pos (ppf : ℝ → ℝ) (w : Curve ℝ) (p : ℝ) (hTS : 0 < w.TS) (hSD : 0 < w.SD) :
    0 < (transform ppf w p).SD := by
  rw [transform_SD ppf w p hTS]; exact mul_pos hSD (Real.rpow_pos_of_pos hTS _)

theorem transform_ND (ppf : ℝ → ℝ) (w : Curve ℝ) (p : ℝ) (hTS : 0 < w.TS) (hTN : 0 < w.TN)
    (hSD : 0 < w.SD) :
    (transform ppf w p).ND = w.ND * w.TN ^ shift ppf w p * (w.TS ^ shift ppf w p) ^ (-w.k1) := by
  have hpos := transform_SD_pos ppf w p hTS hSD
  have hsd := transform_SD ppf w p hTS
  have hND : (transform ppf w p).ND =
      w.ND / (10.0 : ℝ) ^ ((ppf w.pf - ppf p) * scatteringRangeToStd w.TN)
        * ((transform ppf w p).SD / w.SD) ^ (-w.k1) := by
    show (if (transform ppf w p).SD < (0.0 : ℝ) ∨ (0.0 : ℝ) < (transform ppf w p).SD then _ else _) = _
    rw [if_pos (Or.inr (by simpa using hpos))]; rfl
  rw [hND, scatter_pow hTN, div_rpow_shift hTN, hsd]
  have : w.SD * w.TS ^ shift ppf w p / w.SD = w.TS ^ shift ppf w p := by
    field_simp
  rw [this]; rfl

theorem transform_ND_pos (ppf : ℝ → ℝ) (w : Curve ℝ) (p : ℝ) (hTS : 0 < w.TS) (hTN : 0 < w.TN)
    (hSD : 0 < w.SD) (hND : 0 < w.ND) : 0 < (transform ppf w p).ND := by
  rw [transform_ND ppf w p hTS hTN hSD]
  exact mul_pos (mul_pos hND (Real.rpow_pos_of_pos hTN _))
    (Real.rpow_pos_of_pos (Real.rpow_pos_of_pos hTS _) _)

theorem Valid.TS_pos {w : Curve ℝ} (h : Valid w) : 0 < w.TS := lt_of_lt_of_le one_pos h.TS
theorem Valid.TN_pos {w : Curve ℝ} (h : Valid w) : 0 < w.TN := lt_of_lt_of_le one_pos h.TN
theorem Valid.k1_pos {w : Curve ℝ} (h : Valid w) : 0 < w.k1 := lt_trans one_pos h.k1

/-- a transformed valid curve is a valid curve -/
theorem Valid.transform {w : Curve ℝ} (h : Valid w) (ppf : ℝ → ℝ) (p : ℝ) :
    Valid (Woehler.transform ppf w p) where
  k1 := h.k1
  k2 := h.k2
  SD := transform_SD_pos ppf w p h.TS_pos h.SD
  ND := transform_ND_pos ppf w p h.TS_pos h.TN_pos h.SD h.ND
  TN := h.TN
  TS := h.TS

theorem log_transform_SD (ppf : ℝ → ℝ) {w : Curve ℝ} (h : Valid w) (p : ℝ) :
    Real.log (transform ppf w p).SD = Real.log w.SD + shift ppf w p * Real.log w.TS := by
  rw [transform_SD ppf w p h.TS_pos, Real.log_mul h.SD.ne' (Real.rpow_pos_of_pos h.TS_pos _).ne',
    Real.log_rpow h.TS_pos]

theorem log_transform_ND (ppf : ℝ → ℝ) {w : Curve ℝ} (h : Valid w) (p : ℝ) :
    Real.log (transform ppf w p).ND =
      Real.log w.ND + shift ppf w p * Real.log w.TN - w.k1 * (shift ppf w p * Real.log w.TS) := by
  have hTSp := Real.rpow_pos_of_pos h.TS_pos (shift ppf w p)
  rw [transform_ND ppf w p h.TS_pos h.TN_pos h.SD,
    Real.log_mul (mul_pos h.ND (Real.rpow_pos_of_pos h.TN_pos _)).ne' (Real.rpow_pos_of_pos hTSp _).ne',
    Real.log_mul h.ND.ne' (Real.rpow_pos_of_pos h.TN_pos _).ne', Real.log_rpow h.TN_pos,
    Real.log_rpow hTSp, Real.log_rpow h.TS_pos]
  ring

/-! ### cycles on a valid curve, in logarithms -/

/-- the slope that `_make_k` selects for a load -/
noncomputable def slopeAt (w : Curve ℝ) (L : ℝ) : Life ℝ := if L < w.SD then w.k2 else Life.finite w.k1

theorem cyclesAt_eq (w : Curve ℝ) (L : ℝ) :
    cyclesAt w L = match slopeAt w L with
      | Life.inf => Life.inf
      | Life.finite k => Life.finite (w.ND * (L / w.SD) ^ (-k)) := by
  unfold cyclesAt makeK slopeAt
  split <;> simp_all

theorem cyclesAt_finite_iff {w : Curve ℝ} {L N : ℝ} :
    cyclesAt w L = Life.finite N ↔
      ∃ k, slopeAt w L = Life.finite k ∧ N = w.ND * (L / w.SD) ^ (-k) := by
  rw [cyclesAt_eq]
  cases h : slopeAt w L with
  | inf => simp
  | finite k => simp [eq_comm]

theorem exp_log_ratio {a b t e : ℝ} (ha : 0 < a) (hb : 0 < b) (ht : 0 < t)
    (h : Real.log a - Real.log b = e * Real.log t) : a / b = t ^ e := by
  rw [Real.rpow_def_of_pos ht, mul_comm, ← h, ← Real.log_div ha.ne' hb.ne',
    Real.exp_log (div_pos ha hb)]

/-! ### the piecewise Basquin law on one (already transformed) curve -/

theorem Valid.k2_pos {w : Curve ℝ} (h : Valid w) {k : ℝ} (hk : w.k2 = Life.finite k) : 0 < k :=
  lt_of_lt_of_le h.k1_pos (h.k2 k hk)

/-- above the knee the life is at most `ND` -/
theorem above_le_ND {w : Curve ℝ} (h : Valid w) {L : ℝ} (hL : w.SD ≤ L) :
    w.ND * (L / w.SD) ^ (-w.k1) ≤ w.ND := by
  have h1 : 1 ≤ L / w.SD := (one_le_div h.SD).mpr hL
  have := Real.rpow_le_one_of_one_le_of_nonpos h1 (by linarith [h.k1_pos] : -w.k1 ≤ 0)
  nlinarith [h.ND]

/-- below the knee the life exceeds `ND` -/
theorem below_gt_ND {w : Curve ℝ} (h : Valid w) {L k : ℝ} (hL0 : 0 < L) (hL : L < w.SD) (hk : 0 < k) :
    w.ND < w.ND * (L / w.SD) ^ (-k) := by
  have h1 : L / w.SD < 1 := (div_lt_one h.SD).mpr hL
  have := Real.one_lt_rpow_of_pos_of_lt_one_of_neg (div_pos hL0 h.SD) h1 (by linarith : -k < 0)
  nlinarith [h.ND]

theorem loadAt_cyclesAt {w : Curve ℝ} (h : Valid w) {L N : ℝ} (hL : 0 < L)
    (hc : cyclesAt w L = Life.finite N) : loadAt w N = L := by
  have hx : 0 < L / w.SD := div_pos hL h.SD
  by_cases hle : w.SD ≤ L
  · rw [cyclesAt_above hle] at hc
    injection hc with hN
    have hNle : N ≤ w.ND := hN ▸ above_le_ND h hle
    rw [loadAt_above hNle, ← hN, mul_div_cancel_left₀ _ h.ND.ne', rpow_neg_roundtrip hx h.k1_pos.ne',
      mul_div_cancel₀ _ h.SD.ne']
  · have hlt : L < w.SD := not_le.mp hle
    cases hk2 : w.k2 with
    | inf => rw [cyclesAt_below_inf hlt hk2] at hc; exact absurd hc (by simp)
    | finite k =>
      rw [cyclesAt_below hlt hk2] at hc
      injection hc with hN
      have hkpos := h.k2_pos hk2
      have hNgt : w.ND < N := hN ▸ below_gt_ND h hL hlt hkpos
      rw [loadAt_below hNgt hk2, ← hN, mul_div_cancel_left₀ _ h.ND.ne',
        rpow_neg_roundtrip hx hkpos.ne', mul_div_cancel₀ _ h.SD.ne']

/-- `load` of a life `≤ ND` is at least `SD` -/
theorem loadAt_ge_SD {w : Curve ℝ} (h : Valid w) {N : ℝ} (hN : 0 < N) (hle : N ≤ w.ND) :
    w.SD ≤ w.SD * (N / w.ND) ^ (-1 / w.k1) := by
  have h1 : N / w.ND ≤ 1 := (div_le_one h.ND).mpr hle
  have hz : -1 / w.k1 ≤ 0 := by
    have := h.k1_pos
    rw [neg_div]; exact neg_nonpos.mpr (by positivity)
  have := Real.one_le_rpow_of_pos_of_le_one_of_nonpos (div_pos hN h.ND) h1 hz
  nlinarith [h.SD]

theorem loadAt_lt_SD {w : Curve ℝ} (h : Valid w) {N k : ℝ} (hgt : w.ND < N) (hk : 0 < k) :
    w.SD * (N / w.ND) ^ (-1 / k) < w.SD := by
  have h1 : 1 < N / w.ND := (one_lt_div h.ND).mpr hgt
  have hz : -1 / k < 0 := by
    rw [neg_div]; exact neg_neg_of_pos (by positivity)
  have := Real.rpow_lt_one_of_one_lt_of_neg h1 hz
  nlinarith [h.SD]

theorem cyclesAt_loadAt {w : Curve ℝ} (h : Valid w) {N : ℝ} (hN : 0 < N)
    (hfin : N ≤ w.ND ∨ ∃ k, w.k2 = Life.finite k) : cyclesAt w (loadAt w N) = Life.finite N := by
  have hy : 0 < N / w.ND := div_pos hN h.ND
  rcases le_or_gt N w.ND with hle | hgt
  · rw [loadAt_above hle, cyclesAt_above (loadAt_ge_SD h hN hle), mul_div_cancel_left₀ _ h.SD.ne',
      rpow_inv_roundtrip hy h.k1_pos.ne', mul_div_cancel₀ _ h.ND.ne']
  · rcases hfin with hle | ⟨k, hk⟩
    · exact absurd hle (not_le.mpr hgt)
    · have hkpos := h.k2_pos hk
      rw [loadAt_below hgt hk, cyclesAt_below (loadAt_lt_SD h hgt hkpos) hk,
        mul_div_cancel_left₀ _ h.SD.ne', rpow_inv_roundtrip hy hkpos.ne', mul_div_cancel₀ _ h.ND.ne']

theorem cyclesAt_knee {w : Curve ℝ} (h : Valid w) : cyclesAt w w.SD = Life.finite w.ND := by
  rw [cyclesAt_above le_rfl, div_self h.SD.ne', Real.one_rpow, mul_one]

theorem loadAt_knee {w : Curve ℝ} (h : Valid w) : loadAt w w.ND = w.SD := by
  rw [loadAt_above le_rfl, div_self h.ND.ne', Real.one_rpow, mul_one]

theorem knee_iff {w : Curve ℝ} (h : Valid w) {L N : ℝ} (hL : 0 < L)
    (hc : cyclesAt w L = Life.finite N) : w.SD ≤ L ↔ N ≤ w.ND := by
  constructor
  · intro hle
    rw [cyclesAt_above hle] at hc
    injection hc with hN
    exact hN ▸ above_le_ND h hle
  · intro hN
    by_contra hcon
    have hlt : L < w.SD := not_le.mp hcon
    cases hk2 : w.k2 with
    | inf => rw [cyclesAt_below_inf hlt hk2] at hc; exact absurd hc (by simp)
    | finite k =>
      rw [cyclesAt_below hlt hk2] at hc
      injection hc with hN'
      have := below_gt_ND h hL hlt (h.k2_pos hk2)
      rw [hN'] at this
      linarith

theorem cyclesAt_antitone {w : Curve ℝ} (h : Valid w) {L₁ L₂ : ℝ} (h1 : 0 < L₁) (h12 : L₁ ≤ L₂) :
    Life.le (cyclesAt w L₂) (cyclesAt w L₁) := by
  have hmono : ∀ k : ℝ, 0 < k → w.ND * (L₂ / w.SD) ^ (-k) ≤ w.ND * (L₁ / w.SD) ^ (-k) := by
    intro k hk
    have hx : 0 < L₁ / w.SD := div_pos h1 h.SD
    have hxy : L₁ / w.SD ≤ L₂ / w.SD := div_le_div_of_nonneg_right h12 h.SD.le
    have := Real.rpow_le_rpow_of_nonpos hx hxy (by linarith : -k ≤ 0)
    nlinarith [h.ND]
  by_cases hle : w.SD ≤ L₁
  · rw [cyclesAt_above hle, cyclesAt_above (le_trans hle h12)]
    exact hmono _ h.k1_pos
  · have hlt : L₁ < w.SD := not_le.mp hle
    cases hk2 : w.k2 with
    | inf => rw [cyclesAt_below_inf hlt hk2]; cases cyclesAt w L₂ <;> trivial
    | finite k =>
      have hkpos := h.k2_pos hk2
      rw [cyclesAt_below hlt hk2]
      by_cases hle2 : w.SD ≤ L₂
      · rw [cyclesAt_above hle2]
        exact le_trans (above_le_ND h hle2) (below_gt_ND h h1 hlt hkpos).le
      · rw [cyclesAt_below (not_le.mp hle2) hk2]
        exact hmono _ hkpos

/-! ### monotone in the failure probability: three linear-in-logs cases -/

theorem mono_case_above {n a τN τS k1 s1 s2 l : ℝ} (hs : s1 ≤ s2) (hτN : 0 ≤ τN) :
    (n + s1 * τN - k1 * (s1 * τS)) - k1 * (l - (a + s1 * τS))
      ≤ (n + s2 * τN - k1 * (s2 * τS)) - k1 * (l - (a + s2 * τS)) := by
  nlinarith [mul_nonneg (sub_nonneg.2 hs) hτN]

theorem mono_case_between {n a τN τS k1 k s1 s2 l : ℝ} (hs : s1 ≤ s2) (hτN : 0 ≤ τN)
    (hk : k1 ≤ k) (hl : l ≤ a + s2 * τS) :
    (n + s1 * τN - k1 * (s1 * τS)) - k1 * (l - (a + s1 * τS))
      ≤ (n + s2 * τN - k1 * (s2 * τS)) - k * (l - (a + s2 * τS)) := by
  nlinarith [mul_nonneg (sub_nonneg.2 hs) hτN, mul_nonneg (sub_nonneg.2 hk) (sub_nonneg.2 hl)]

theorem mono_case_below {n a τN τS k1 k s1 s2 l : ℝ} (hs : s1 ≤ s2) (hτN : 0 ≤ τN) (hτS : 0 ≤ τS)
    (hk : k1 ≤ k) :
    (n + s1 * τN - k1 * (s1 * τS)) - k * (l - (a + s1 * τS))
      ≤ (n + s2 * τN - k1 * (s2 * τS)) - k * (l - (a + s2 * τS)) := by
  nlinarith [mul_nonneg (sub_nonneg.2 hs) hτN,
    mul_nonneg (mul_nonneg (sub_nonneg.2 hk) (sub_nonneg.2 hs)) hτS]

/-- What the theorems use of `scipy.stats.norm.ppf` (the standard normal quantile function):
strictly increasing on `(0,1)` and odd about `1/2`. -/
structure IsQuantile (ppf : ℝ → ℝ) : Prop where
  strictMono : StrictMonoOn ppf (Set.Ioo 0 1)
  odd : ∀ p ∈ Set.Ioo (0 : ℝ) 1, ppf (1 - p) = -ppf p

theorem shift_mono {ppf : ℝ → ℝ} (hq : IsQuantile ppf) (w : Curve ℝ) {p₁ p₂ : ℝ}
    (hp1 : p₁ ∈ Set.Ioo (0 : ℝ) 1) (hp2 : p₂ ∈ Set.Ioo (0 : ℝ) 1) (h12 : p₁ ≤ p₂) :
    shift ppf w p₁ ≤ shift ppf w p₂ := by
  have hz : ppf p₁ ≤ ppf p₂ := hq.strictMono.monotoneOn hp1 hp2 h12
  unfold shift
  exact mul_le_mul_of_nonneg_right (sub_le_sub_right hz _) cRange_pos.le

theorem transform_SD_mono (ppf : ℝ → ℝ) {w : Curve ℝ} (h : Valid w) {p₁ p₂ : ℝ}
    (hs : shift ppf w p₁ ≤ shift ppf w p₂) : (transform ppf w p₁).SD ≤ (transform ppf w p₂).SD := by
  apply (Real.log_le_log_iff (h.transform ppf p₁).SD (h.transform ppf p₂).SD).mp
  rw [log_transform_SD ppf h, log_transform_SD ppf h]
  nlinarith [mul_nonneg (sub_nonneg.2 hs) (Real.log_nonneg h.TS)]

theorem cycles_mono_pf_core (ppf : ℝ → ℝ) {w : Curve ℝ} (h : Valid w) {p₁ p₂ L : ℝ}
    (hs : shift ppf w p₁ ≤ shift ppf w p₂) (hL : 0 < L) :
    Life.le (cyclesAt (transform ppf w p₁) L) (cyclesAt (transform ppf w p₂) L) := by
  have v1 := h.transform ppf p₁
  have v2 := h.transform ppf p₂
  have hτN : 0 ≤ Real.log w.TN := Real.log_nonneg h.TN
  have hτS : 0 ≤ Real.log w.TS := Real.log_nonneg h.TS
  have hSD12 := transform_SD_mono ppf h hs
  by_cases hA : (transform ppf w p₂).SD ≤ L
  · have hA1 : (transform ppf w p₁).SD ≤ L := le_trans hSD12 hA
    rw [cyclesAt_above hA1, cyclesAt_above hA]
    show _ ≤ _
    apply (Real.log_le_log_iff (basquin_pos _ v1.ND v1.SD hL) (basquin_pos _ v2.ND v2.SD hL)).mp
    rw [log_basquin _ v1.ND v1.SD hL, log_basquin _ v2.ND v2.SD hL, log_transform_SD ppf h,
      log_transform_SD ppf h, log_transform_ND ppf h, log_transform_ND ppf h]
    simp only [transform_k1]
    exact mono_case_above hs hτN
  · have hlt2 : L < (transform ppf w p₂).SD := not_le.mp hA
    cases hk2 : w.k2 with
    | inf =>
      rw [cyclesAt_below_inf hlt2 (by simpa using hk2)]
      cases cyclesAt (transform ppf w p₁) L <;> trivial
    | finite k =>
      have hk : w.k1 ≤ k := h.k2 k hk2
      rw [cyclesAt_below hlt2 (by simpa using hk2)]
      by_cases hB : (transform ppf w p₁).SD ≤ L
      · rw [cyclesAt_above hB]
        show _ ≤ _
        apply (Real.log_le_log_iff (basquin_pos _ v1.ND v1.SD hL) (basquin_pos _ v2.ND v2.SD hL)).mp
        have hl : Real.log L ≤ Real.log w.SD + shift ppf w p₂ * Real.log w.TS := by
          rw [← log_transform_SD ppf h]
          exact Real.log_le_log hL hlt2.le
        rw [log_basquin _ v1.ND v1.SD hL, log_basquin _ v2.ND v2.SD hL, log_transform_SD ppf h,
          log_transform_SD ppf h, log_transform_ND ppf h, log_transform_ND ppf h]
        simp only [transform_k1]
        exact mono_case_between hs hτN hk hl
      · rw [cyclesAt_below (not_le.mp hB) (by simpa using hk2)]
        show _ ≤ _
        apply (Real.log_le_log_iff (basquin_pos _ v1.ND v1.SD hL) (basquin_pos _ v2.ND v2.SD hL)).mp
        rw [log_basquin _ v1.ND v1.SD hL, log_basquin _ v2.ND v2.SD hL, log_transform_SD ppf h,
          log_transform_SD ppf h, log_transform_ND ppf h, log_transform_ND ppf h]
        exact mono_case_below hs hτN hτS hk

end PylifeVerif.Woehler
