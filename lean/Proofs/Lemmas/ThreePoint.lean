import Proofs.Lemmas.Common
import Model.Rainflow.Spec
import Proofs.Lemmas.Turns
import Mathlib.Tactic.Ring
import Mathlib.Tactic.Linarith

namespace PylifeVerif.C03
open PylifeVerif.Rainflow

/-- Map the value of a point (private copy of `C03.tpMapPt`). -/
def tpMapPt (f : Int → Int) (p : Pt) : Pt := (p.1, f p.2)
/-- Map the values of a cycle (private copy of `C03.tpMapCycle`). -/
def tpMapCycle (f : Int → Int) (c : Cycle) : Cycle := (tpMapPt f c.1, tpMapPt f c.2)

end PylifeVerif.C03

namespace PylifeVerif.ThreePoint
open PylifeVerif.Rainflow PylifeVerif.C03

/-! ### argmax / argmin -/

/-- The step function of `argmax`. -/
def amStep (acc : Option (Int × Nat)) (x : Int × Nat) : Option (Int × Nat) :=
  match acc with
  | none => some x
  | some a => if x.1 > a.1 then some x else some a

theorem argmax_eq (l : List Int) :
    argmax l = ((l.zipIdx.foldl amStep none).map (·.2)).getD 0 := rfl

theorem amFold_congr (g h : Int → Int) (hgh : ∀ x y, g x < g y ↔ h x < h y)
    (l : List (Int × Nat)) (acc : Option (Int × Nat)) :
    ∃ r : Option (Int × Nat),
      (l.map (Prod.map g id)).foldl amStep (acc.map (Prod.map g id)) = r.map (Prod.map g id) ∧
      (l.map (Prod.map h id)).foldl amStep (acc.map (Prod.map h id)) = r.map (Prod.map h id) := by
  induction l generalizing acc with
  | nil => exact ⟨acc, rfl, rfl⟩
  | cons x xs ih =>
    simp only [List.map_cons, List.foldl_cons]
    cases acc with
    | none => exact ih (some x)
    | some a =>
      by_cases hx : h a.1 < h x.1
      · have hx' : g a.1 < g x.1 := (hgh _ _).2 hx
        have := ih (some x)
        simpa [amStep, hx, hx'] using this
      · have hx' : ¬ g a.1 < g x.1 := fun c => hx ((hgh _ _).1 c)
        have := ih (some a)
        simpa [amStep, hx, hx'] using this

theorem argmax_map_congr (g h : Int → Int) (hgh : ∀ x y, g x < g y ↔ h x < h y) (l : List Int) :
    argmax (l.map g) = argmax (l.map h) := by
  obtain ⟨r, h1, h2⟩ := amFold_congr g h hgh l.zipIdx none
  simp only [argmax_eq, List.zipIdx_map]
  simp only [Option.map_none] at h1 h2
  rw [h1, h2]
  cases r <;> simp


def _root_.PylifeVerif.Rainflow.TpLoop.swap (L : TpLoop) : TpLoop := { L with hf := L.lf, lf := L.hf }

def _root_.PylifeVerif.Rainflow.TpLoop.Bnd (N : Nat) (L : TpLoop) : Prop := (∀ i ∈ L.ri, i < N) ∧ L.hf < N ∧ L.lf < N

theorem tpBack_congr (t t' : Array Int) (N : Nat)
    (hlt : ∀ i j, i < N → j < N → (t'[i]! < t'[j]! ↔ t[i]! < t[j]!))
    (habs : ∀ i j k, i < N → j < N → k < N →
      (absDiff t'[j]! t'[k]! ≤ absDiff t'[i]! t'[j]! ↔ absDiff t[j]! t[k]! ≤ absDiff t[i]! t[j]!))
    (back : Nat) (hb : back < N) : ∀ (fuel : Nat) (L : TpLoop), L.Bnd N →
      tpBack t' back fuel L = tpBack t back fuel L ∧ (tpBack t back fuel L).Bnd N := by
  intro fuel
  induction fuel with
  | zero =>
    intro L hL
    refine ⟨rfl, ?_⟩
    obtain ⟨h1, h2, h3⟩ := hL
    refine ⟨?_, h2, h3⟩
    intro i hi
    simp only [tpBack, List.mem_cons] at hi
    rcases hi with rfl | hi
    · exact hb
    · exact h1 i hi
  | succ fuel ih =>
    intro L hL
    obtain ⟨ri, hf, lf, cyc⟩ := L
    obtain ⟨h1, h2, h3⟩ := hL
    simp only at h1 h2 h3
    have hpush : TpLoop.Bnd N { ri := back :: ri, hf := hf, lf := lf, cycles := cyc } := by
      refine ⟨?_, h2, h3⟩
      intro i hi
      simp only [List.mem_cons] at hi
      rcases hi with rfl | hi
      · exact hb
      · exact h1 i hi
    match ri, h1, hpush with
    | [], _, hpush => exact ⟨rfl, hpush⟩
    | [_], _, hpush => exact ⟨rfl, hpush⟩
    | front :: start :: rest, h1, hpush =>
      have hfr : front < N := h1 front (by simp)
      have hst : start < N := h1 start (by simp)
      have hrest : ∀ i ∈ rest, i < N := fun i hi => h1 i (by simp [hi])
      simp only [tpBack, gt_iff_lt, ge_iff_le]
      simp only [hlt hf front h2 hfr, hlt front lf hfr h3, habs back front start hb hfr hst]
      by_cases c1 : t[hf]! < t[front]!
      · simp only [if_pos c1, true_and]
        refine ⟨?_, hfr, h3⟩
        intro i hi
        simp only [List.mem_cons] at hi
        rcases hi with rfl | rfl | rfl | hi
        · exact hb
        · exact hfr
        · exact hst
        · exact hrest i hi
      · simp only [if_neg c1]
        by_cases c2 : t[front]! < t[lf]!
        · simp only [if_pos c2, true_and]
          refine ⟨?_, h2, hfr⟩
          intro i hi
          simp only [List.mem_cons] at hi
          rcases hi with rfl | rfl | rfl | hi
          · exact hb
          · exact hfr
          · exact hst
          · exact hrest i hi
        · simp only [if_neg c2]
          by_cases c3 : max lf hf ≤ start ∧ absDiff t[front]! t[start]! ≤ absDiff t[back]! t[front]!
          · simp only [if_pos c3]
            exact ih _ ⟨hrest, h2, h3⟩
          · simp only [if_neg c3, true_and]
            exact hpush

theorem absDiff_neg (a b : Int) : absDiff (-a) (-b) = absDiff a b := by
  unfold absDiff; omega

theorem tpBack_neg (t t' : Array Int) (hneg : ∀ i : Nat, t'[i]! = - t[i]!) (back : Nat) :
    ∀ (fuel : Nat) (L : TpLoop), t[L.lf]! ≤ t[L.hf]! →
      tpBack t' back fuel L.swap = (tpBack t back fuel L).swap ∧
        t[(tpBack t back fuel L).lf]! ≤ t[(tpBack t back fuel L).hf]! := by
  intro fuel
  induction fuel with
  | zero => intro L hL; exact ⟨rfl, hL⟩
  | succ fuel ih =>
    intro L hL
    obtain ⟨ri, hf, lf, cyc⟩ := L
    simp only at hL
    match ri with
    | [] => exact ⟨rfl, hL⟩
    | [_] => exact ⟨rfl, hL⟩
    | front :: start :: rest =>
      simp only [tpBack, TpLoop.swap, gt_iff_lt, ge_iff_le, hneg, absDiff_neg]
      by_cases c1 : t[hf]! < t[front]!
      · have c2 : ¬ t[front]! < t[lf]! := by omega
        have c1' : ¬ (-t[lf]! < -t[front]!) := by omega
        have c1'' : -t[front]! < -t[hf]! := by omega
        simp only [if_pos c1, if_neg c1', if_pos c1'', true_and]
        omega
      · by_cases c2 : t[front]! < t[lf]!
        · have c1' : (-t[lf]! < -t[front]!) := by omega
          simp only [if_neg c1, if_pos c2, if_pos c1', true_and]
          omega
        · have c1' : ¬ (-t[lf]! < -t[front]!) := by omega
          have c1'' : ¬ -t[front]! < -t[hf]! := by omega
          simp only [if_neg c1, if_neg c2, if_neg c1', if_neg c1'', Nat.max_comm hf lf]
          by_cases c3 : max lf hf ≤ start ∧ absDiff t[front]! t[start]! ≤ absDiff t[back]! t[front]!
          · simp only [if_pos c3]
            exact ih { ri := rest, hf := hf, lf := lf, cycles := cyc ++ [(start, front)] } hL
          · simp only [if_neg c3, true_and]
            exact hL

/-- The loop body as a function. -/
def tpStep (t : Array Int) (L : TpLoop) (k : Nat) : TpLoop :=
  tpBack t (k + 2) (L.ri.length / 2 + 1) L

def tpInit (hf lf : Nat) : TpLoop := { ri := [1, 0], hf := hf, lf := lf, cycles := [] }

theorem tpLoop_eq (t : Array Int) (hf lf : Nat) :
    tpLoop t hf lf = (List.range (t.size - 2)).foldl (tpStep t) (tpInit hf lf) := rfl

theorem tpFold_congr (t t' : Array Int) (N : Nat)
    (hlt : ∀ i j, i < N → j < N → (t'[i]! < t'[j]! ↔ t[i]! < t[j]!))
    (habs : ∀ i j k, i < N → j < N → k < N →
      (absDiff t'[j]! t'[k]! ≤ absDiff t'[i]! t'[j]! ↔ absDiff t[j]! t[k]! ≤ absDiff t[i]! t[j]!))
    (ks : List Nat) (hks : ∀ k ∈ ks, k + 2 < N) : ∀ (L : TpLoop), L.Bnd N →
      ks.foldl (tpStep t') L = ks.foldl (tpStep t) L := by
  induction ks with
  | nil => intro L _; rfl
  | cons k ks ih =>
    intro L hL
    simp only [List.foldl_cons]
    have hk : k + 2 < N := hks k (by simp)
    obtain ⟨h1, h2⟩ := tpBack_congr t t' N hlt habs (k + 2) hk (L.ri.length / 2 + 1) L hL
    have : tpStep t' L k = tpStep t L k := h1
    rw [this]
    exact ih (fun k hk => hks k (by simp [hk])) _ h2

theorem tpLoop_congr (t t' : Array Int) (hsz : t'.size = t.size)
    (hlt : ∀ i j, i < t.size → j < t.size → (t'[i]! < t'[j]! ↔ t[i]! < t[j]!))
    (habs : ∀ i j k, i < t.size → j < t.size → k < t.size →
      (absDiff t'[j]! t'[k]! ≤ absDiff t'[i]! t'[j]! ↔ absDiff t[j]! t[k]! ≤ absDiff t[i]! t[j]!))
    (hf lf : Nat) (hhf : hf < t.size) (hlf : lf < t.size) :
    tpLoop t' hf lf = tpLoop t hf lf := by
  rw [tpLoop_eq, tpLoop_eq, hsz]
  by_cases h3 : t.size < 3
  · have : t.size - 2 = 0 := by omega
    rw [this]; rfl
  · apply tpFold_congr t t' t.size hlt habs
    · intro k hk; simp only [List.mem_range] at hk; omega
    · refine ⟨?_, hhf, hlf⟩
      intro i hi
      simp only [tpInit, List.mem_cons, List.not_mem_nil, or_false] at hi
      omega

theorem tpFold_neg (t t' : Array Int) (hneg : ∀ i : Nat, t'[i]! = - t[i]!) (ks : List Nat) :
    ∀ (L : TpLoop), t[L.lf]! ≤ t[L.hf]! →
      ks.foldl (tpStep t') L.swap = (ks.foldl (tpStep t) L).swap := by
  induction ks with
  | nil => intro L _; rfl
  | cons k ks ih =>
    intro L hL
    simp only [List.foldl_cons]
    obtain ⟨h1, h2⟩ := tpBack_neg t t' hneg (k + 2) (L.ri.length / 2 + 1) L hL
    have : tpStep t' L.swap k = (tpStep t L k).swap := h1
    rw [this]
    exact ih _ h2

theorem tpLoop_neg (t t' : Array Int) (hsz : t'.size = t.size) (hneg : ∀ i : Nat, t'[i]! = - t[i]!)
    (hf lf : Nat) (h : t[lf]! ≤ t[hf]!) :
    tpLoop t' lf hf = (tpLoop t hf lf).swap := by
  rw [tpLoop_eq, tpLoop_eq, hsz]
  exact tpFold_neg t t' hneg _ (tpInit hf lf) h

/-! ### Sortedness of the residual positions -/

def _root_.PylifeVerif.Rainflow.TpLoop.Srt (b bc : Nat) (L : TpLoop) : Prop :=
  L.ri.Pairwise (· > ·) ∧ (∀ i ∈ L.ri, i < b) ∧ (∀ c ∈ L.cycles, c.1 < bc ∧ c.2 < bc)

theorem tpBack_srt (t : Array Int) (b : Nat) : ∀ (fuel : Nat) (L : TpLoop), L.Srt b b →
    (tpBack t b fuel L).Srt (b + 1) b ∧ ∃ r, (tpBack t b fuel L).ri = b :: r := by
  intro fuel
  have hpush : ∀ L : TpLoop, L.Srt b b → ∀ hf lf, TpLoop.Srt (b + 1) b
      { ri := b :: L.ri, hf := hf, lf := lf, cycles := L.cycles } := by
    intro L ⟨h1, h2, h3⟩ hf lf
    refine ⟨?_, ?_, h3⟩
    · simp only [List.pairwise_cons]; exact ⟨fun a ha => h2 a ha, h1⟩
    · intro i hi
      simp only [List.mem_cons] at hi
      rcases hi with rfl | hi
      · omega
      · have := h2 i hi; omega
  induction fuel with
  | zero => intro L hL; exact ⟨hpush L hL _ _, _, rfl⟩
  | succ fuel ih =>
    intro L hL
    obtain ⟨ri, hf, lf, cyc⟩ := L
    match ri, hL with
    | [], hL => exact ⟨hpush _ hL _ _, _, rfl⟩
    | [_], hL => exact ⟨hpush _ hL _ _, _, rfl⟩
    | front :: start :: rest, hL =>
      simp only [tpBack]
      split
      · exact ⟨hpush _ hL _ _, _, rfl⟩
      · split
        · exact ⟨hpush _ hL _ _, _, rfl⟩
        · split
          · apply ih
            obtain ⟨h1, h2, h3⟩ := hL
            simp only [List.pairwise_cons] at h1
            refine ⟨h1.2.2, fun i hi => h2 i (by simp [hi]), ?_⟩
            intro c hc
            simp only [List.mem_append, List.mem_singleton] at hc
            rcases hc with hc | rfl
            · exact h3 c hc
            · exact ⟨h2 start (by simp), h2 front (by simp)⟩
          · exact ⟨hpush _ hL _ _, _, rfl⟩

theorem srt_mono {b bc bc' : Nat} {L : TpLoop} (h : L.Srt b bc) (hbc : bc ≤ bc') :
    L.Srt b bc' :=
  ⟨h.1, h.2.1, fun c hc => ⟨Nat.lt_of_lt_of_le (h.2.2 c hc).1 hbc, Nat.lt_of_lt_of_le (h.2.2 c hc).2 hbc⟩⟩

theorem tpFold_srt (t : Array Int) (n : Nat) (L : TpLoop) (hL : L.Srt 2 1) :
    ((List.range n).foldl (tpStep t) L).Srt (n + 2) (n + 1) ∧
      (0 < n → ∃ r, ((List.range n).foldl (tpStep t) L).ri = (n + 1) :: r) := by
  induction n with
  | zero => exact ⟨hL, fun h => absurd h (by omega)⟩
  | succ n ih =>
    rw [List.range_succ, List.foldl_append]
    simp only [List.foldl_cons, List.foldl_nil]
    obtain ⟨h1, h2⟩ := tpBack_srt t (n + 2) (((List.range n).foldl (tpStep t) L).ri.length / 2 + 1) _
      (srt_mono ih.1 (by omega))
    exact ⟨h1, fun _ => h2⟩

theorem tpInit_srt (hf lf : Nat) : (tpInit hf lf).Srt 2 1 := by
  refine ⟨by simp [tpInit], ?_, by simp [tpInit]⟩
  intro i hi
  simp only [tpInit, List.mem_cons, List.not_mem_nil, or_false] at hi
  omega

/-- Shape of the loop result: positions strictly decreasing, all cycle positions below the last
position, and (when the loop runs at all) the last position on top. -/
theorem tpLoop_srt (t : Array Int) (hf lf : Nat) :
    (tpLoop t hf lf).Srt (t.size - 2 + 2) (t.size - 2 + 1) ∧
      (3 ≤ t.size → ∃ r, (tpLoop t hf lf).ri = (t.size - 1) :: r) ∧
      (t.size < 3 → tpLoop t hf lf = tpInit hf lf) := by
  rw [tpLoop_eq]
  obtain ⟨h1, h2⟩ := tpFold_srt t (t.size - 2) (tpInit hf lf) (tpInit_srt hf lf)
  refine ⟨h1, fun h3 => ?_, fun h3 => ?_⟩
  · obtain ⟨r, hr⟩ := h2 (by omega)
    exact ⟨r, by rw [hr]; congr 1; omega⟩
  · have : t.size - 2 = 0 := by omega
    rw [this]; rfl

theorem amFold_spec (l : List (Int × Nat)) : ∀ (acc : Option (Int × Nat)), (acc ≠ none ∨ l ≠ []) →
    ∃ r, l.foldl amStep acc = some r ∧ (some r = acc ∨ r ∈ l) ∧
      (∀ a, acc = some a → a.1 ≤ r.1) ∧ ∀ x ∈ l, x.1 ≤ r.1 := by
  induction l with
  | nil =>
    intro acc h
    cases acc with
    | none => simp at h
    | some a => exact ⟨a, rfl, Or.inl rfl, fun b hb => by cases hb; exact Int.le_refl _, by simp⟩
  | cons x xs ih =>
    intro acc _
    simp only [List.foldl_cons]
    cases acc with
    | none =>
      obtain ⟨r, h1, h2, h3, h4⟩ := ih (some x) (Or.inl (by simp))
      refine ⟨r, h1, Or.inr ?_, by simp, ?_⟩
      · rcases h2 with h2 | h2
        · cases h2; simp
        · simp [h2]
      · intro y hy
        simp only [List.mem_cons] at hy
        rcases hy with rfl | hy
        · exact h3 _ rfl
        · exact h4 y hy
    | some a =>
      by_cases c : x.1 > a.1
      · obtain ⟨r, h1, h2, h3, h4⟩ := ih (some x) (Or.inl (by simp))
        refine ⟨r, by simpa [amStep, c] using h1, Or.inr ?_, ?_, ?_⟩
        · rcases h2 with h2 | h2
          · cases h2; simp
          · simp [h2]
        · intro b hb; cases hb; have := h3 _ rfl; omega
        · intro y hy
          simp only [List.mem_cons] at hy
          rcases hy with rfl | hy
          · exact h3 _ rfl
          · exact h4 y hy
      · obtain ⟨r, h1, h2, h3, h4⟩ := ih (some a) (Or.inl (by simp))
        refine ⟨r, by simpa [amStep, c] using h1, ?_, h3, ?_⟩
        · rcases h2 with h2 | h2
          · exact Or.inl h2
          · exact Or.inr (by simp [h2])
        · intro y hy
          simp only [List.mem_cons] at hy
          rcases hy with rfl | hy
          · have := h3 _ rfl; omega
          · exact h4 y hy

theorem argmax_spec (l : List Int) (hl : l ≠ []) :
    argmax l < l.length ∧ ∀ x ∈ l, x ≤ l[argmax l]! := by
  obtain ⟨r, h1, h2, _, h4⟩ := amFold_spec l.zipIdx none (Or.inr (by simpa using hl))
  have hr : r ∈ l.zipIdx := by
    rcases h2 with h2 | h2
    · cases h2
    · exact h2
  obtain ⟨v, i⟩ := r
  obtain ⟨_, hi, hv⟩ := List.mem_zipIdx hr
  have ha : argmax l = i := by simp [argmax_eq, h1]
  rw [ha]
  simp only [Nat.zero_add, Nat.sub_zero] at hi hv
  refine ⟨hi, ?_⟩
  intro x hx
  obtain ⟨j, hj, rfl⟩ := List.getElem_of_mem hx
  have : (l[j], j) ∈ l.zipIdx := by
    rw [List.mem_zipIdx_iff_getElem?]; simp [hj]
  have := h4 _ this
  simp only at this
  simpa [hi, ← hv] using this

theorem argmax_lt (l : List Int) (hl : l ≠ []) : argmax l < l.length := (argmax_spec l hl).1

theorem argmin_lt (l : List Int) (hl : l ≠ []) : argmin l < l.length := by
  have := argmax_lt (l.map fun x => -x) (by simpa using hl)
  simpa [argmin] using this

theorem argmin_le_argmax_val (l : List Int) : l[argmin l]! ≤ l[argmax l]! := by
  by_cases hl : l = []
  · subst hl; simp
  · obtain ⟨_, h2⟩ := argmax_spec l hl
    have h3 := argmin_lt l hl
    apply h2
    simp [h3]



theorem findTurnsAux_map (f : Int → Int) (σ : Int) (hσ : σ = 1 ∨ σ = -1)
    (hs : ∀ x y, sgn (f x - f y) = σ * sgn (x - y)) (xs : List Int) :
    ∀ (dir : Int) (cand : Pt) (i : Nat) (prev : Int),
      findTurnsAux (σ * dir) (tpMapPt f cand) i (f prev) (xs.map f) =
        (findTurnsAux dir cand i prev xs).map (tpMapPt f) := by
  induction xs with
  | nil => intro dir cand i prev; rfl
  | cons x xs ih =>
    intro dir cand i prev
    simp only [List.map_cons, findTurnsAux, hs]
    have e1 : (σ * sgn (x - prev) = 0) ↔ (sgn (x - prev) = 0) := by
      rcases hσ with rfl | rfl <;> omega
    have e2 : (σ * dir ≠ 0 ∧ σ * sgn (x - prev) ≠ σ * dir) ↔ (dir ≠ 0 ∧ sgn (x - prev) ≠ dir) := by
      rcases hσ with rfl | rfl <;> omega
    simp only [e1, e2]
    have ih1 := ih dir cand (i + 1) x
    have ih2 := ih (sgn (x - prev)) (i, x) (i + 1) x
    simp only [tpMapPt] at ih1 ih2 ⊢
    split
    · exact ih1
    · split
      · simp only [List.map_cons]; rw [ih2]; rfl
      · exact ih2

theorem findTurns_map (f : Int → Int) (σ : Int) (hσ : σ = 1 ∨ σ = -1)
    (hs : ∀ x y, sgn (f x - f y) = σ * sgn (x - y)) (s : List Int) :
    findTurns (s.map f) = (findTurns s).map (tpMapPt f) := by
  cases s with
  | nil => rfl
  | cons x xs =>
    have := findTurnsAux_map f σ hσ hs xs 0 (0, x) 1 x
    simpa [findTurns, tpMapPt] using this

def mapTs (f : Int → Int) (ts : TurnState) : TurnState := { tail := ts.tail.map f, head := ts.head }

theorem newTurns_map (f : Int → Int) (σ : Int) (hσ : σ = 1 ∨ σ = -1)
    (hs : ∀ x y, sgn (f x - f y) = σ * sgn (x - y)) (ts : TurnState) (samples : List Int) :
    newTurns (mapTs f ts) (samples.map f) =
      (mapTs f (newTurns ts samples).1, (newTurns ts samples).2.map (tpMapPt f)) := by
  unfold newTurns
  by_cases he : samples = []
  · subst he; simp
  · have he' : (samples.map f).isEmpty = false := by simpa using he
    have he'' : samples.isEmpty = false := by simpa using he
    simp only [he', he'', Bool.false_eq_true, if_false, Bool.false_and, mapTs, ← List.map_append,
      findTurns_map f σ hσ hs, List.length_map]
    congr 1
    · congr 1
      simp only [List.getLast?_map, ← List.map_drop]
      cases (findTurns (ts.tail ++ samples)).getLast? <;> rfl
    · simp [tpMapPt, List.map_map, Function.comp_def]



/-- The loop part of `tpProcess` as a function of the residual points, the new turns and the last
sample. -/
def tpCore (base turns : List Pt) (lastv : Int) : List Cycle × List Pt :=
  let pts : Array Pt := (base ++ turns).toArray
  let vals : Array Int := ((base ++ turns).map (·.2) ++ [lastv]).toArray
  let resid := base.map (·.2)
  let L := tpLoop vals (argmax resid) (argmin resid)
  (L.cycles.map fun (s, f) => (pts[s]!, pts[f]!), (L.ri.drop 1).map fun i => pts[i]!)

def tpBase (st : DetState) (s0 : Int) : List Pt :=
  if st.last.isNone then [(0, s0)] else st.stack.reverse

theorem tpProcess_cons (st : DetState) (s0 : Int) (tl : List Int) :
    tpProcess st (s0 :: tl) =
      { ts := (newTurns st.ts (s0 :: tl)).1,
        stack := (tpCore (tpBase st s0) (newTurns st.ts (s0 :: tl)).2 (s0 :: tl).getLast!).2,
        last := some (s0 :: tl).getLast!,
        cycles := st.cycles ++ (tpCore (tpBase st s0) (newTurns st.ts (s0 :: tl)).2 (s0 :: tl).getLast!).1,
        chunks := st.chunks ++ [(s0 :: tl).length] } := by
  simp [tpProcess, tpCore, tpBase]


theorem arr_neg_get! (t : Array Int) (i : Nat) :
    (t.map (fun x => -x))[i]! = - t[i]! := by
  by_cases hi : i < t.size <;> simp [hi]

theorem argmin_neg (l : List Int) : argmin (l.map fun x => -x) = argmax l := by
  simp [argmin, List.map_map]

theorem argmax_neg (l : List Int) : argmax (l.map fun x => -x) = argmin l := rfl

theorem pts_neg_get! (l : List Pt) (i : Nat) :
    (l.map (tpMapPt fun x => -x)).toArray[i]! = tpMapPt (fun x => -x) l.toArray[i]! := by
  by_cases hi : i < l.length
  · simp [hi]
  · simp [hi]; rfl

theorem vals_prefix_get! (base rest : List Int) (i : Nat) (hi : i < base.length) :
    (base ++ rest).toArray[i]! = base[i]! := by
  simp [hi, List.getElem?_append_left hi]

theorem tpCore_neg (base turns : List Pt) (lastv : Int) :
    tpCore (base.map (tpMapPt fun x => -x)) (turns.map (tpMapPt fun x => -x)) (-lastv) =
      ((tpCore base turns lastv).1.map (tpMapCycle fun x => -x),
       (tpCore base turns lastv).2.map (tpMapPt fun x => -x)) := by
  unfold tpCore
  simp only []
  have hvals : ((base.map (tpMapPt fun x => -x) ++ turns.map (tpMapPt fun x => -x)).map (·.2) ++ [-lastv]).toArray
      = (((base ++ turns).map (·.2) ++ [lastv]).toArray).map (fun x => -x) := by
    simp [tpMapPt, List.map_map, Function.comp_def]
  have hres : (base.map (tpMapPt fun x => -x)).map (·.2) = (base.map (·.2)).map (fun x => -x) := by
    simp [tpMapPt, List.map_map, Function.comp_def]
  rw [hvals, hres, argmin_neg, argmax_neg]
  have hinv : (((base ++ turns).map (·.2) ++ [lastv]).toArray)[argmin (base.map (·.2))]! ≤
      (((base ++ turns).map (·.2) ++ [lastv]).toArray)[argmax (base.map (·.2))]! := by
    by_cases hb : base = []
    · subst hb; simp [argmin, argmax]
    · have hb' : base.map (·.2) ≠ [] := by simpa using hb
      have h1 := argmax_lt _ hb'
      have h2 := argmin_lt _ hb'
      have h3 := argmin_le_argmax_val (base.map (·.2))
      simp only [List.map_append, List.append_assoc]
      rw [vals_prefix_get! _ _ _ h1, vals_prefix_get! _ _ _ h2]
      exact h3
  rw [tpLoop_neg _ _ (by simp) (arr_neg_get! _) _ _ hinv]
  simp only [TpLoop.swap, ← List.map_append, pts_neg_get!, List.map_map]
  rfl


def mapSt (f : Int → Int) (st : DetState) : DetState :=
  { ts := mapTs f st.ts, stack := st.stack.map (tpMapPt f), last := st.last.map f,
    cycles := st.cycles.map (tpMapCycle f), chunks := st.chunks }

theorem sgn_neg_sub (x y : Int) : sgn (-x - -y) = -1 * sgn (x - y) := by
  unfold sgn; split <;> split <;> (try split) <;> (try split) <;> omega

theorem getLast!_map (f : Int → Int) (l : List Int) (hl : l ≠ []) :
    (l.map f).getLast! = f l.getLast! := by
  cases l with
  | nil => exact absurd rfl hl
  | cons x xs =>
    rw [List.getLast!_eq_getLast?_getD, List.getLast!_eq_getLast?_getD, List.getLast?_map]
    cases h : (x :: xs).getLast? with
    | none => simp at h
    | some v => rfl

theorem tpBase_map (f : Int → Int) (st : DetState) (s0 : Int) :
    tpBase (mapSt f st) (f s0) = (tpBase st s0).map (tpMapPt f) := by
  unfold tpBase mapSt
  cases st.last <;> simp [tpMapPt]

theorem tpProcess_neg (st : DetState) (samples : List Int) :
    tpProcess (mapSt (fun x => -x) st) (samples.map fun x => -x) =
      mapSt (fun x => -x) (tpProcess st samples) := by
  cases samples with
  | nil => rfl
  | cons s0 tl =>
    have hm : (s0 :: tl).map (fun x => -x) = (-s0) :: tl.map (fun x => -x) := rfl
    have hnt := newTurns_map (fun x => -x) (-1) (Or.inr rfl) sgn_neg_sub st.ts (s0 :: tl)
    have hl := getLast!_map (fun x => -x) (s0 :: tl) (by simp)
    rw [hm] at hnt hl ⊢
    rw [tpProcess_cons, tpProcess_cons]
    have hts : (mapSt (fun x => -x) st).ts = mapTs (fun x => -x) st.ts := rfl
    rw [hts, hnt, hl, tpBase_map (fun x => -x) st s0, tpCore_neg]
    simp [mapSt]

theorem tpRun_neg (cs : List (List Int)) :
    tpRun (cs.map (List.map fun x => -x)) = mapSt (fun x => -x) (tpRun cs) := by
  unfold tpRun
  have key : ∀ (st : DetState), (cs.map (List.map fun x => -x)).foldl tpProcess (mapSt (fun x => -x) st) =
      mapSt (fun x => -x) (cs.foldl tpProcess st) := by
    induction cs with
    | nil => intro st; rfl
    | cons c cs ih =>
      intro st
      simp only [List.map_cons, List.foldl_cons, tpProcess_neg, ih]
  exact key {}

theorem affine_lt (a b : Int) (ha : 0 < a) (x y : Int) : a * x + b < a * y + b ↔ x < y := by
  constructor
  · intro h
    by_contra hc
    have : a * y ≤ a * x := Int.mul_le_mul_of_nonneg_left (by omega) (by omega)
    omega
  · intro h
    have : a * x < a * y := Int.mul_lt_mul_of_pos_left h ha
    omega

theorem affine_absDiff (a b : Int) (x y : Int) :
    absDiff (a * x + b) (a * y + b) = a.natAbs * absDiff x y := by
  unfold absDiff
  have : a * x + b - (a * y + b) = a * (x - y) := by ring
  rw [this, Int.natAbs_mul]

theorem affine_sgn (a b : Int) (ha : 0 < a) (x y : Int) :
    sgn (a * x + b - (a * y + b)) = 1 * sgn (x - y) := by
  have h1 := affine_lt a b ha x y
  have h2 := affine_lt a b ha y x
  unfold sgn
  split <;> split <;> (try split) <;> (try split) <;> omega

theorem argmax_affine (a b : Int) (ha : 0 < a) (l : List Int) :
    argmax (l.map fun x => a * x + b) = argmax l := by
  have := argmax_map_congr (fun x => a * x + b) id (fun x y => affine_lt a b ha x y) l
  simpa using this

theorem argmin_affine (a b : Int) (ha : 0 < a) (l : List Int) :
    argmin (l.map fun x => a * x + b) = argmin l := by
  unfold argmin
  rw [List.map_map]
  apply argmax_map_congr
  intro x y
  have := affine_lt a b ha y x
  simp only [Function.comp]
  omega

theorem arr_map_get! (f : Int → Int) (t : Array Int) (i : Nat) (hi : i < t.size) :
    (t.map f)[i]! = f t[i]! := by
  simp [hi]

theorem pts_map_get! (f : Int → Int) (l : List Pt) (i : Nat) (hi : i < l.length) :
    (l.map (tpMapPt f)).toArray[i]! = tpMapPt f l.toArray[i]! := by
  simp [hi]

theorem tpCore_affine (a b : Int) (ha : 0 < a) (base turns : List Pt) (lastv : Int)
    (hne : base ++ turns ≠ []) :
    tpCore (base.map (tpMapPt fun x => a * x + b)) (turns.map (tpMapPt fun x => a * x + b)) (a * lastv + b) =
      ((tpCore base turns lastv).1.map (tpMapCycle fun x => a * x + b),
       (tpCore base turns lastv).2.map (tpMapPt fun x => a * x + b)) := by
  unfold tpCore
  simp only []
  have hvals : ((base.map (tpMapPt fun x => a * x + b) ++ turns.map (tpMapPt fun x => a * x + b)).map (·.2)
        ++ [a * lastv + b]).toArray
      = (((base ++ turns).map (·.2) ++ [lastv]).toArray).map (fun x => a * x + b) := by
    simp [tpMapPt, List.map_map, Function.comp_def]
  have hres : (base.map (tpMapPt fun x => a * x + b)).map (·.2) =
      (base.map (·.2)).map (fun x => a * x + b) := by
    simp [tpMapPt, List.map_map, Function.comp_def]
  rw [hvals, hres, argmin_affine a b ha, argmax_affine a b ha]
  generalize hv : ((base ++ turns).map (·.2) ++ [lastv]).toArray = vals
  have hsz : vals.size = (base ++ turns).length + 1 := by rw [← hv]; simp; omega
  have hbnd : argmax (base.map (·.2)) < vals.size ∧ argmin (base.map (·.2)) < vals.size := by
    by_cases hb : base = []
    · subst hb; simp [argmin, argmax, hsz]
    · have hb' : base.map (·.2) ≠ [] := by simpa using hb
      have h1 := argmax_lt _ hb'
      have h2 := argmin_lt _ hb'
      simp only [List.length_map] at h1 h2
      simp only [hsz, List.length_append]
      omega
  have hloop : tpLoop (vals.map fun x => a * x + b) (argmax (base.map (·.2))) (argmin (base.map (·.2))) =
      tpLoop vals (argmax (base.map (·.2))) (argmin (base.map (·.2))) := by
    apply tpLoop_congr _ _ (by simp) _ _ _ _ hbnd.1 hbnd.2
    · intro i j hi hj
      rw [arr_map_get! _ _ _ hi, arr_map_get! _ _ _ hj]
      exact affine_lt a b ha _ _
    · intro i j k hi hj hk
      rw [arr_map_get! _ _ _ hi, arr_map_get! _ _ _ hj, arr_map_get! _ _ _ hk,
        affine_absDiff, affine_absDiff]
      exact Nat.mul_le_mul_left_iff (by omega)
  rw [hloop]
  obtain ⟨hs1, hs2, hs3⟩ := tpLoop_srt vals (argmax (base.map (·.2))) (argmin (base.map (·.2)))
  generalize tpLoop vals (argmax (base.map (·.2))) (argmin (base.map (·.2))) = L at hs1 hs2 hs3
  have hlen : 0 < (base ++ turns).length := List.length_pos_iff.mpr hne
  rw [← List.map_append]
  refine Prod.ext ?_ ?_
  · simp only [List.map_map]
    apply List.map_congr_left
    intro c hc
    obtain ⟨h1, h2⟩ := hs1.2.2 c hc
    simp only [Function.comp, tpMapCycle]
    rw [pts_map_get! _ _ _ (by omega), pts_map_get! _ _ _ (by omega)]
  · simp only [List.map_map]
    apply List.map_congr_left
    intro i hi
    simp only [Function.comp]
    apply pts_map_get!
    by_cases h3 : 3 ≤ vals.size
    · obtain ⟨r, hr⟩ := hs2 h3
      rw [hr] at hi
      simp only [List.drop_one, List.tail_cons] at hi
      have := hs1.1
      rw [hr] at this
      simp only [List.pairwise_cons] at this
      have := this.1 i hi
      omega
    · rw [hs3 (by omega)] at hi
      simp only [tpInit, List.drop_one, List.tail_cons, List.mem_singleton] at hi
      omega

/-- After the first sample the decided residual stack is never empty (needed because the model
reads `pts[0]!`). -/
def StackOk (st : DetState) : Prop := st.last.isSome → st.stack ≠ []

theorem tpBase_ne_nil (st : DetState) (s0 : Int) (h : StackOk st) : tpBase st s0 ≠ [] := by
  unfold tpBase
  cases hl : st.last with
  | none => simp
  | some l => simpa using h (by simp [hl])

theorem tpProcess_affine (a b : Int) (ha : 0 < a) (st : DetState) (samples : List Int)
    (hst : StackOk st) :
    tpProcess (mapSt (fun x => a * x + b) st) (samples.map fun x => a * x + b) =
      mapSt (fun x => a * x + b) (tpProcess st samples) := by
  cases samples with
  | nil => rfl
  | cons s0 tl =>
    have hm : (s0 :: tl).map (fun x => a * x + b) = (a * s0 + b) :: tl.map (fun x => a * x + b) := rfl
    have hnt := newTurns_map (fun x => a * x + b) 1 (Or.inl rfl) (affine_sgn a b ha) st.ts (s0 :: tl)
    have hl := getLast!_map (fun x => a * x + b) (s0 :: tl) (by simp)
    rw [hm] at hnt hl ⊢
    rw [tpProcess_cons, tpProcess_cons]
    have hts : (mapSt (fun x => a * x + b) st).ts = mapTs (fun x => a * x + b) st.ts := rfl
    rw [hts, hnt, hl, tpBase_map (fun x => a * x + b) st s0,
      tpCore_affine a b ha _ _ _ (by simp [tpBase_ne_nil st s0 hst])]
    simp [mapSt]

theorem tpRun_affine_of_inv (a b : Int) (ha : 0 < a) (J : DetState → Prop)
    (hJ0 : J {}) (hJstep : ∀ st samples, J st → J (tpProcess st samples))
    (hJok : ∀ st, J st → StackOk st) (cs : List (List Int)) :
    tpRun (cs.map (List.map fun x => a * x + b)) = mapSt (fun x => a * x + b) (tpRun cs) := by
  unfold tpRun
  have key : ∀ (st : DetState), J st →
      (cs.map (List.map fun x => a * x + b)).foldl tpProcess (mapSt (fun x => a * x + b) st) =
      mapSt (fun x => a * x + b) (cs.foldl tpProcess st) := by
    induction cs with
    | nil => intro st _; rfl
    | cons c cs ih =>
      intro st hst
      simp only [List.map_cons, List.foldl_cons, tpProcess_affine a b ha st c (hJok st hst)]
      exact ih _ (hJstep st c hst)
  exact key {} hJ0

/-! ### Strict alternation of a value list (newest value first) -/

/-- `AltR up l`: the list `l` (newest first) alternates strictly; `up` tells whether the step
into the head was upwards. -/
def AltR : Bool → List Int → Prop
  | _, [] => True
  | _, [_] => True
  | up, x :: y :: r => (if up then y < x else x < y) ∧ AltR (!up) (y :: r)

theorem altR_head (u : Bool) (x x' : Int) (S : List Int) (h : AltR u (x :: S))
    (hx : if u then x ≤ x' else x' ≤ x) : AltR u (x' :: S) := by
  cases S with
  | nil => trivial
  | cons y r =>
    simp only [AltR] at h ⊢
    refine ⟨?_, h.2⟩
    cases u <;> simp at h hx ⊢ <;> omega

theorem altR_adj (pre : List Int) (x y : Int) (rest : List Int) :
    ∀ u, AltR u (pre ++ x :: y :: rest) → x ≠ y := by
  induction pre with
  | nil =>
    intro u h
    simp only [List.nil_append, AltR] at h
    cases u <;> simp at h <;> omega
  | cons p pre ih =>
    intro u h
    cases pre with
    | nil =>
      simp only [List.cons_append, List.nil_append, AltR] at h
      exact ih (!u) h.2
    | cons q pre' =>
      simp only [List.cons_append, AltR] at h
      exact ih (!u) h.2

theorem altR_remove0 (u : Bool) (b f s r : Int) (rest : List Int)
    (h : AltR u (b :: f :: s :: r :: rest)) (hc : absDiff f s ≤ absDiff b f) :
    AltR u (b :: r :: rest) := by
  simp only [AltR, Bool.not_not] at h ⊢
  obtain ⟨h1, h2, h3, h4⟩ := h
  refine ⟨?_, h4⟩
  unfold absDiff at hc
  cases u <;> simp at h1 h2 h3 ⊢ <;> omega

theorem altR_remove (pre : List Int) (b f s r : Int) (rest : List Int) :
    ∀ u, AltR u (pre ++ b :: f :: s :: r :: rest) → absDiff f s ≤ absDiff b f →
      AltR u (pre ++ b :: r :: rest) := by
  induction pre with
  | nil => intro u h hc; exact altR_remove0 u b f s r rest h hc
  | cons p pre ih =>
    intro u h hc
    cases pre with
    | nil =>
      simp only [List.cons_append, List.nil_append, AltR] at h ⊢
      exact ⟨h.1, ih (!u) h.2 hc⟩
    | cons q pre' =>
      simp only [List.cons_append, AltR] at h ⊢
      exact ⟨h.1, ih (!u) h.2 hc⟩

/-- If the values at `pre`, `back`, residual positions alternate strictly and position `0` is at
the bottom of the residual positions, `tpBack` keeps both facts: position `0` is never closed. -/
theorem tpBack_alt (t : Array Int) (b : Nat) (pre : List Int) (u : Bool) :
    ∀ (fuel : Nat) (L : TpLoop),
      AltR u (pre ++ t[b]! :: L.ri.map (fun i => t[i]!)) → L.ri.getLast? = some 0 →
      AltR u (pre ++ (tpBack t b fuel L).ri.map (fun i => t[i]!)) ∧
        (tpBack t b fuel L).ri.getLast? = some 0 := by
  intro fuel
  have hpush : ∀ (ri : List Nat), AltR u (pre ++ t[b]! :: ri.map (fun i => t[i]!)) →
      ri.getLast? = some 0 → AltR u (pre ++ (b :: ri).map (fun i => t[i]!)) ∧
        (b :: ri).getLast? = some 0 := by
    intro ri h1 h2
    refine ⟨by simpa using h1, ?_⟩
    cases ri with
    | nil => simp at h2
    | cons x xs => simpa [List.getLast?_cons_cons] using h2
  induction fuel with
  | zero => intro L h1 h2; exact hpush L.ri h1 h2
  | succ fuel ih =>
    intro L h1 h2
    obtain ⟨ri, hf, lf, cyc⟩ := L
    simp only at h1 h2
    match ri, h1, h2 with
    | [], h1, h2 => exact hpush _ h1 h2
    | [_], h1, h2 => exact hpush _ h1 h2
    | front :: start :: rest, h1, h2 =>
      simp only [tpBack]
      split
      · exact hpush _ h1 h2
      · split
        · exact hpush _ h1 h2
        · rename_i c1 c2
          split
          · rename_i c3
            simp only [List.map_cons] at h1
            cases rest with
            | nil =>
              exfalso
              have hne := altR_adj (pre ++ [t[b]!]) t[front]! t[start]! [] u (by simpa using h1)
              simp only [List.getLast?_cons_cons, List.getLast?_singleton, Option.some.injEq] at h2
              subst h2
              have : max lf hf ≤ 0 := c3.1
              have hl : lf = 0 := by omega
              have hh : hf = 0 := by omega
              subst hl hh
              omega
            | cons r rest' =>
              apply ih
              · simp only [List.map_cons] at h1 ⊢
                exact altR_remove pre _ _ _ _ _ u h1 c3.2
              · simpa [List.getLast?_cons_cons] using h2
          · exact hpush _ h1 h2

theorem range_map_get! (vl : List Int) :
    (List.range' 0 vl.length).map (fun i => vl.toArray[i]!) = vl := by
  apply List.ext_getElem
  · simp
  · intro i h1 h2
    simp at h1
    simp [h1]

/-- values of the positions `b, b+1, …, N-1`, newest first -/
def futRev (vl : List Int) (b : Nat) : List Int :=
  ((List.range' b (vl.length - b)).map (fun i => vl.toArray[i]!)).reverse

theorem futRev_succ (vl : List Int) (b : Nat) (hb : b < vl.length) :
    futRev vl b = futRev vl (b + 1) ++ [vl.toArray[b]!] := by
  unfold futRev
  have : vl.length - b = (vl.length - (b + 1)) + 1 := by omega
  rw [this, List.range'_succ]
  simp

theorem futRev_len (vl : List Int) : futRev vl vl.length = [] := by
  simp [futRev]

theorem futRev_two (vl : List Int) (h2 : 2 ≤ vl.length) :
    futRev vl 2 ++ [vl.toArray[1]!, vl.toArray[0]!] = vl.reverse := by
  have h := range_map_get! vl
  have e : vl.length = (vl.length - 2) + 1 + 1 := by omega
  rw [e, List.range'_succ, List.range'_succ] at h
  conv_rhs => rw [← h]
  simp [futRev]

theorem tpFold_alt (vl : List Int) (u : Bool) (h : AltR u vl.reverse) (h2 : 2 ≤ vl.length)
    (hf lf : Nat) (n : Nat) (hn : n + 2 ≤ vl.length) :
    AltR u (futRev vl (n + 2) ++
        ((List.range n).foldl (tpStep vl.toArray) (tpInit hf lf)).ri.map (fun i => vl.toArray[i]!)) ∧
      ((List.range n).foldl (tpStep vl.toArray) (tpInit hf lf)).ri.getLast? = some 0 := by
  induction n with
  | zero =>
    simp only [List.range_zero, List.foldl_nil, tpInit, List.map_cons, List.map_nil]
    rw [futRev_two vl h2]
    exact ⟨h, rfl⟩
  | succ n ih =>
    obtain ⟨i1, i2⟩ := ih (by omega)
    rw [List.range_succ, List.foldl_append]
    simp only [List.foldl_cons, List.foldl_nil]
    rw [futRev_succ vl (n + 2) (by omega), List.append_assoc, List.singleton_append] at i1
    exact tpBack_alt vl.toArray (n + 2) (futRev vl (n + 2 + 1)) u _ _ i1 i2

theorem tpLoop_alt (vl : List Int) (u : Bool) (h : AltR u vl.reverse) (h2 : 2 ≤ vl.length)
    (hf lf : Nat) :
    AltR u ((tpLoop vl.toArray hf lf).ri.map (fun i => vl.toArray[i]!)) ∧
      (tpLoop vl.toArray hf lf).ri.getLast? = some 0 := by
  have := tpFold_alt vl u h h2 hf lf (vl.length - 2) (by omega)
  have e : vl.length - 2 + 2 = vl.length := by omega
  rw [e, futRev_len, List.nil_append] at this
  rw [tpLoop_eq]
  simpa using this

/-- The scan direction agrees with the alternation of `prev :: S` (`S`: values of the residual
stack below, newest first). -/
def DirOk (dir : Int) (prev : Int) (S : List Int) : Prop :=
  (dir = 1 ∧ AltR true (prev :: S)) ∨ (dir = -1 ∧ AltR false (prev :: S)) ∨ (dir = 0 ∧ S = [prev])

theorem scan_dirOk (c : List Int) : ∀ (dir : Int) (cand : Pt) (i : Nat) (prev : Int) (S : List Int),
    cand.2 = prev → DirOk dir prev S →
    DirOk (scanSt dir cand i prev c).1 (scanSt dir cand i prev c).2.2.2
      ((findTurnsAux dir cand i prev c).reverse.map (·.2) ++ S) := by
  induction c with
  | nil => intro dir cand i prev S _ h; simpa [scanSt, findTurnsAux] using h
  | cons x xs ih =>
    intro dir cand i prev S hc h
    simp only [scanSt, findTurnsAux]
    rcases sgn_cases (x - prev) with hs | hs | hs
    · have hx : x = prev := by omega
      subst hx
      simp only [hs.1, if_true]
      exact ih dir cand (i + 1) x S hc h
    · simp only [hs.1, show ¬ ((1 : Int) = 0) by omega, if_false]
      rcases h with ⟨hd, h⟩ | ⟨hd, h⟩ | ⟨hd, h⟩
      · subst hd
        simp only [ne_eq, not_true_eq_false, and_false, if_false]
        apply ih 1 (i, x) (i + 1) x S rfl
        exact Or.inl ⟨rfl, altR_head true prev x S h (by simp; omega)⟩
      · subst hd
        simp only [ne_eq, show ¬ ((-1 : Int) = 0) by omega, not_false_eq_true,
          show ¬ ((1 : Int) = -1) by omega, and_self, if_true, List.reverse_cons, List.map_append,
          List.map_cons, List.map_nil, List.append_assoc, List.singleton_append]
        apply ih 1 (i, x) (i + 1) x (cand.2 :: S) rfl
        refine Or.inl ⟨rfl, ?_⟩
        rw [hc]
        simp only [AltR, Bool.not_true]
        exact ⟨by simp; omega, h⟩
      · subst hd
        simp only [ne_eq, not_true_eq_false, false_and, if_false]
        apply ih 1 (i, x) (i + 1) x S rfl
        subst h
        refine Or.inl ⟨rfl, ?_⟩
        simp only [AltR]
        exact ⟨by simp; omega, trivial⟩
    · simp only [hs.1, show ¬ ((-1 : Int) = 0) by omega, if_false]
      rcases h with ⟨hd, h⟩ | ⟨hd, h⟩ | ⟨hd, h⟩
      · subst hd
        simp only [ne_eq, show ¬ ((1 : Int) = 0) by omega, not_false_eq_true,
          show ¬ ((-1 : Int) = 1) by omega, and_self, if_true, List.reverse_cons, List.map_append,
          List.map_cons, List.map_nil, List.append_assoc, List.singleton_append]
        apply ih (-1) (i, x) (i + 1) x (cand.2 :: S) rfl
        refine Or.inr (Or.inl ⟨rfl, ?_⟩)
        rw [hc]
        simp only [AltR, Bool.not_false]
        exact ⟨by simp; omega, h⟩
      · subst hd
        simp only [ne_eq, not_true_eq_false, and_false, if_false]
        apply ih (-1) (i, x) (i + 1) x S rfl
        exact Or.inr (Or.inl ⟨rfl, altR_head false prev x S h (by simp; omega)⟩)
      · subst hd
        simp only [ne_eq, not_true_eq_false, false_and, if_false]
        apply ih (-1) (i, x) (i + 1) x S rfl
        subst h
        refine Or.inr (Or.inl ⟨rfl, ?_⟩)
        simp only [AltR]
        exact ⟨by simp; omega, trivial⟩

theorem tpLoop_top (t : Array Int) (hf lf : Nat) (h2 : 2 ≤ t.size) :
    ∃ r, (tpLoop t hf lf).ri = (t.size - 1) :: r ∧ ∀ i ∈ r, i < t.size - 1 := by
  obtain ⟨h1, h3, h4⟩ := tpLoop_srt t hf lf
  by_cases hs : 3 ≤ t.size
  · obtain ⟨r, hr⟩ := h3 hs
    refine ⟨r, hr, ?_⟩
    have := h1.1
    rw [hr, List.pairwise_cons] at this
    exact fun i hi => this.1 i hi
  · rw [h4 (by omega)]
    have : t.size - 1 = 1 := by omega
    refine ⟨[0], by simp [tpInit, this], ?_⟩
    intro i hi
    simp only [List.mem_singleton] at hi
    omega

theorem tpCore_alt (base turns : List Pt) (lastv : Int) (hb : base ≠ []) (u : Bool)
    (h : AltR u (lastv :: (turns.reverse.map (·.2) ++ base.reverse.map (·.2)))) :
    (tpCore base turns lastv).2 ≠ [] ∧ AltR u (lastv :: (tpCore base turns lastv).2.map (·.2)) := by
  unfold tpCore
  simp only []
  generalize hvl : (base ++ turns).map (·.2) ++ [lastv] = vl
  have hrev : vl.reverse = lastv :: (turns.reverse.map (·.2) ++ base.reverse.map (·.2)) := by
    rw [← hvl]; simp
  have hlen : vl.length = (base ++ turns).length + 1 := by rw [← hvl]; simp; omega
  have hblen : 0 < base.length := List.length_pos_iff.mpr hb
  have h2 : 2 ≤ vl.length := by rw [hlen]; simp; omega
  obtain ⟨a1, a2⟩ := tpLoop_alt vl u (by rw [hrev]; exact h) h2
    (argmax (base.map (·.2))) (argmin (base.map (·.2)))
  obtain ⟨r, hr, hrb⟩ := tpLoop_top vl.toArray (argmax (base.map (·.2))) (argmin (base.map (·.2)))
    (by simpa using h2)
  rw [hr] at a1 a2 ⊢
  simp only [List.drop_one, List.tail_cons]
  have hr0 : r ≠ [] := by
    intro hr0
    subst hr0
    simp at a2
    omega
  refine ⟨by simpa using hr0, ?_⟩
  simp only [List.map_cons] at a1
  have e1 : vl.toArray[vl.toArray.size - 1]! = lastv := by
    rw [← hvl]; simp
  have e2 : r.map (fun i => vl.toArray[i]!) = (r.map fun i => (base ++ turns).toArray[i]!).map (·.2) := by
    rw [List.map_map]
    apply List.map_congr_left
    intro i hi
    have hi' := hrb i hi
    simp only [List.size_toArray] at hi'
    have hi2 : i < (base ++ turns).length := by omega
    have hi3 : i < ((base ++ turns).map (·.2)).length := by simpa using hi2
    rw [← hvl]
    simp only [Function.comp, List.getElem!_toArray, List.getElem!_eq_getElem?_getD]
    rw [List.getElem?_append_left hi3, List.getElem?_map, List.getElem?_eq_getElem hi2]
    rfl
  rw [e1, e2] at a1
  exact a1

theorem tpCore_dirOk (base turns : List Pt) (lastv : Int) (dir : Int) (hb : base ≠ [])
    (h : DirOk dir lastv (turns.reverse.map (·.2) ++ base.reverse.map (·.2))) :
    (tpCore base turns lastv).2 ≠ [] ∧ DirOk dir lastv ((tpCore base turns lastv).2.map (·.2)) := by
  rcases h with ⟨hd, h⟩ | ⟨hd, h⟩ | ⟨hd, h⟩
  · obtain ⟨a, b⟩ := tpCore_alt base turns lastv hb true h
    exact ⟨a, Or.inl ⟨hd, b⟩⟩
  · obtain ⟨a, b⟩ := tpCore_alt base turns lastv hb false h
    exact ⟨a, Or.inr (Or.inl ⟨hd, b⟩)⟩
  · -- constant signal so far: no turns, one residual point
    have hl : (turns.reverse.map (·.2) ++ base.reverse.map (·.2)).length = 1 := by rw [h]; rfl
    simp only [List.length_append, List.length_map, List.length_reverse] at hl
    have hbl : 0 < base.length := List.length_pos_iff.mpr hb
    have ht : turns = [] := List.eq_nil_of_length_eq_zero (by omega)
    subst ht
    match base, hb, hl with
    | [p], _, _ =>
      simp only [List.reverse_nil, List.map_nil, List.nil_append, List.reverse_cons,
        List.map_cons, List.cons.injEq, and_true] at h
      have : tpCore [p] [] lastv = ([], [p]) := by
        simp [tpCore, tpLoop]
      rw [this]
      exact ⟨by simp, Or.inr (Or.inr ⟨hd, by simp [h]⟩)⟩

theorem scanSt_append (xs ys : List Int) : ∀ (dir : Int) (cand : Pt) (i : Nat) (prev : Int),
    scanSt dir cand i prev (xs ++ ys) =
      scanSt (scanSt dir cand i prev xs).1 (scanSt dir cand i prev xs).2.1
        (scanSt dir cand i prev xs).2.2.1 (scanSt dir cand i prev xs).2.2.2 ys := by
  induction xs with
  | nil => intros; rfl
  | cons x xs ih =>
    intro dir cand i prev
    simp only [List.cons_append, scanSt]
    split <;> exact ih _ _ _ _

theorem getLast!_eq (l : List Int) (h : l ≠ []) : l.getLast! = l.getLast h := by
  cases l with
  | nil => exact absurd rfl h
  | cons x xs => rfl

theorem getLast_cons_append (s0 : Int) (xs ys : List Int) (hy : ys ≠ []) :
    (s0 :: (xs ++ ys)).getLast (List.cons_ne_nil _ _) = ys.getLast hy := by
  exact List.getLast_append_of_ne_nil (l := s0 :: xs) (List.cons_ne_nil _ _) hy

/-- Invariant of the three-point detector state, in terms of the signal `s0 :: xs` seen so far:
bookkeeping in canonical form, non-empty stack, and the values `last :: stack` alternate in the
direction of the turn scan. -/
def HistInv (st : DetState) : Prop :=
  st = {} ∨ ∃ (s0 : Int) (xs : List Int), st.ts = canonTs (s0 :: xs) ∧
    st.last = some ((s0 :: xs).getLast (List.cons_ne_nil _ _)) ∧ st.stack ≠ [] ∧
    DirOk (scanSt 0 (0, s0) 1 s0 xs).1 ((s0 :: xs).getLast (List.cons_ne_nil _ _))
      (st.stack.map (·.2))

theorem histInv_stackOk (st : DetState) (h : HistInv st) : StackOk st := by
  rcases h with rfl | ⟨s0, xs, _, _, h3, _⟩
  · intro h; simp at h
  · exact fun _ => h3

theorem histInv_step (st : DetState) (c : List Int) (h : HistInv st) : HistInv (tpProcess st c) := by
  cases c with
  | nil => exact h
  | cons c0 tl =>
    rw [tpProcess_cons]
    rcases h with rfl | ⟨s0, xs, h1, h2, h3, h4⟩
    · -- first chunk
      refine Or.inr ⟨c0, tl, ?_, ?_, ?_⟩
      · have := newTurns_canon [] (c0 :: tl) (by simp)
        rw [canonTs_nil] at this
        simp only [this, List.nil_append]
      · simp only [getLast!_eq _ (List.cons_ne_nil c0 tl)]
      · have hnt : (newTurns {} (c0 :: tl)).2 = findTurnsAux 0 (0, c0) 1 c0 tl := by
          have := newTurns_canon [] (c0 :: tl) (by simp)
          rw [canonTs_nil] at this
          rw [this]
          simp [newTurnsOf, findTurns, shiftPts]
        have hb : tpBase {} c0 = [(0, c0)] := rfl
        have key := scan_dirOk tl 0 (0, c0) 1 c0 [c0] rfl (Or.inr (Or.inr ⟨rfl, rfl⟩))
        rw [scanSt_prev] at key
        simp only [hnt, hb, getLast!_eq _ (List.cons_ne_nil c0 tl)]
        exact tpCore_dirOk [(0, c0)] _ _ _ (by simp) (by simpa using key)
    · -- later chunk
      refine Or.inr ⟨s0, xs ++ c0 :: tl, ?_, ?_, ?_⟩
      · simp only [h1]
        rw [newTurns_canon (s0 :: xs) (c0 :: tl) (by simp)]
        rfl
      · simp only [getLast!_eq _ (List.cons_ne_nil c0 tl)]
        rw [getLast_cons_append s0 xs (c0 :: tl) (List.cons_ne_nil _ _)]
      · have hnt : (newTurns st.ts (c0 :: tl)).2 =
            findTurnsAux (scanSt 0 (0, s0) 1 s0 xs).1 (scanSt 0 (0, s0) 1 s0 xs).2.1
              (scanSt 0 (0, s0) 1 s0 xs).2.2.1 (scanSt 0 (0, s0) 1 s0 xs).2.2.2 (c0 :: tl) := by
          rw [h1, newTurns_canon (s0 :: xs) (c0 :: tl) (by simp)]
          exact newTurnsOf_eq_aux s0 xs (c0 :: tl)
        have hb : tpBase st c0 = st.stack.reverse := by
          simp [tpBase, h2]
        have hprev : (scanSt 0 (0, s0) 1 s0 xs).2.2.2 = (s0 :: xs).getLast (List.cons_ne_nil _ _) :=
          scanSt_prev xs 0 (0, s0) 1 s0
        have key := scan_dirOk (c0 :: tl) (scanSt 0 (0, s0) 1 s0 xs).1 (scanSt 0 (0, s0) 1 s0 xs).2.1
          (scanSt 0 (0, s0) 1 s0 xs).2.2.1 (scanSt 0 (0, s0) 1 s0 xs).2.2.2 (st.stack.map (·.2))
          (scanSt_cand xs 0 (0, s0) 1 s0 rfl) (by rw [hprev]; exact h4)
        rw [← scanSt_append, scanSt_prev] at key
        have hlast2 := getLast_cons_append s0 xs (c0 :: tl) (List.cons_ne_nil _ _)
        rw [hlast2] at key
        simp only [hnt, hb, getLast!_eq _ (List.cons_ne_nil c0 tl), hlast2]
        have hbne : st.stack.reverse ≠ [] := by simpa using h3
        exact tpCore_dirOk st.stack.reverse _ _ _ hbne (by simpa using key)

end PylifeVerif.ThreePoint
