import Proofs.Lemmas.Common
import Model.Rainflow.Spec
import Proofs.Lemmas.Turns
import Mathlib.Tactic.Ring
import Mathlib.Tactic.Linarith


/-
Helper lemmas for the three-point rainflow detector model (`tpBack`, `tpLoop`, `tpProcess`, `tpRun`).

Contents
* `argmax` / `argmin`: invariance under order-preserving maps, specification (position of the first
  maximum / minimum).
* Equivariance of the loop under increasing affine maps (`tpBack_congr`, `tpLoop_congr`) and under
  negation (`tpBack_neg`, `tpLoop_neg`: highest and lowest front swap), of `findTurns` / `newTurns`
  and of `tpProcess` / `tpRun` (`tpRun_neg`, `tpRun_affine_of_inv`).
* `HistInv`: invariant of the detector state in terms of the signal seen so far (bookkeeping state
  canonical, stack non-empty, `last :: stack` alternates strictly in the direction of the turn scan).
* Lockstep with the four-point rule: `Uni` (no four consecutive residual values satisfy the
  four-point closing condition), `Nest` (dropped positions lie between their residual neighbours),
  `claim_fwd` / `claim_bwd` (position test `start ≥ max lf hf` ⇔ range test `|b-c| ≤ |a-b|`),
  `tpBack_inner`, `tpBack_step`, `main_fold`, `rescan_step` (re-scanning a stored residual closes
  nothing), `tpCore_eq_fp`, `tp_eq_fp_step` and finally `tpRun_eq_fpRun : tpRun cs = fpRun cs`.
-/

namespace PylifeVerif.C03
open PylifeVerif.Rainflow

/-- Map the value of a point (private copy of `C03.mapPt`, same definition). -/
def tpMapPt (f : Int → Int) (p : Pt) : Pt := (p.1, f p.2)
/-- Map the values of a cycle (private copy of `C03.mapCycle`, same definition). -/
def tpMapCycle (f : Int → Int) (c : Cycle) : Cycle := (tpMapPt f c.1, tpMapPt f c.2)

end PylifeVerif.C03

namespace PylifeVerif.ThreePoint
open PylifeVerif.Rainflow PylifeVerif.C03

/-! ### argmax / argmin -/

/-- The step function of `argmax`. -/
def amStep (acc : Option (Int × Nat)) (x : Int × Nat) : Option (Int × Nat) :=
  match acc with
  | none => some x
  | some a => if x.1 > a.1 then some x else some a

theorem argmax_eq (l : List Int) :
    argmax l = ((l.zipIdx.foldl amStep none).map (·.2)).getD 0 := rfl

theorem amFold_congr (g h : Int → Int) (hgh : ∀ x y, g x < g y ↔ h x < h y)
    (l : List (Int × Nat)) (acc : Option (Int × Nat)) :
    ∃ r : Option (Int × Nat),
      (l.map (Prod.map g id)).foldl amStep (acc.map (Prod.map g id)) = r.map (Prod.map g id) ∧
      (l.map (Prod.map h id)).foldl amStep (acc.map (Prod.map h id)) = r.map (Prod.map h id) := by
  induction l generalizing acc with
  | nil => exact ⟨acc, rfl, rfl⟩
  | cons x xs ih =>
    simp only [List.map_cons, List.foldl_cons]
    cases acc with
    | none => exact ih (some x)
    | some a =>
      by_cases hx : h a.1 < h x.1
      · have hx' : g a.1 < g x.1 := (hgh _ _).2 hx
        have := ih (some x)
        simpa [amStep, hx, hx'] using this
      · have hx' : ¬ g a.1 < g x.1 := fun c => hx ((hgh _ _).1 c)
        have := ih (some a)
        simpa [amStep, hx, hx'] using this

theorem argmax_map_congr (g h : Int → Int) (hgh : ∀ x y, g x < g y ↔ h x < h y) (l : List Int) :
    argmax (l.map g) = argmax (l.map h) := by
  obtain ⟨r, h1, h2⟩ := amFold_congr g h hgh l.zipIdx none
  simp only [argmax_eq, List.zipIdx_map]
  simp only [Option.map_none] at h1 h2
  rw [h1, h2]
  cases r <;> simp


def _root_.PylifeVerif.Rainflow.TpLoop.swap (L : TpLoop) : TpLoop := { L with hf := L.lf, lf := L.hf }

def _root_.PylifeVerif.Rainflow.TpLoop.Bnd (N : Nat) (L : TpLoop) : Prop := (∀ i ∈ L.ri, i < N) ∧ L.hf < N ∧ L.lf < N

theorem tpBack_congr (t t' : Array Int) (N : Nat)
    (hlt : ∀ i j, i < N → j < N → (t'[i]! < t'[j]! ↔ t[i]! < t[j]!))
    (habs : ∀ i j k, i < N → j < N → k < N →
      (absDiff t'[j]! t'[k]! ≤ absDiff t'[i]! t'[j]! ↔ absDiff t[j]! t[k]! ≤ absDiff t[i]! t[j]!))
    (back : Nat) (hb : back < N) : ∀ (fuel : Nat) (L : TpLoop), L.Bnd N →
      tpBack t' back fuel L = tpBack t back fuel L ∧ (tpBack t back fuel L).Bnd N := by
  intro fuel
  induction fuel with
  | zero =>
    intro L hL
    refine ⟨rfl, ?_⟩
    obtain ⟨h1, h2, h3⟩ := hL
    refine ⟨?_, h2, h3⟩
    intro i hi
    simp only [tpBack, List.mem_cons] at hi
    rcases hi with rfl | hi
    · exact hb
    · exact h1 i hi
  | succ fuel ih =>
    intro L hL
    obtain ⟨ri, hf, lf, cyc⟩ := L
    obtain ⟨h1, h2, h3⟩ := hL
    simp only at h1 h2 h3
    have hpush : TpLoop.Bnd N { ri := back :: ri, hf := hf, lf := lf, cycles := cyc } := by
      refine ⟨?_, h2, h3⟩
      intro i hi
      simp only [List.mem_cons] at hi
      rcases hi with rfl | hi
      · exact hb
      · exact h1 i hi
    match ri, h1, hpush with
    | [], _, hpush => exact ⟨rfl, hpush⟩
    | [_], _, hpush => exact ⟨rfl, hpush⟩
    | front :: start :: rest, h1, hpush =>
      have hfr : front < N := h1 front (by simp)
      have hst : start < N := h1 start (by simp)
      have hrest : ∀ i ∈ rest, i < N := fun i hi => h1 i (by simp [hi])
      simp only [tpBack, gt_iff_lt, ge_iff_le]
      simp only [hlt hf front h2 hfr, hlt front lf hfr h3, habs back front start hb hfr hst]
      by_cases c1 : t[hf]! < t[front]!
      · simp only [if_pos c1, true_and]
        refine ⟨?_, hfr, h3⟩
        intro i hi
        simp only [List.mem_cons] at hi
        rcases hi with rfl | rfl | rfl | hi
        · exact hb
        · exact hfr
        · exact hst
        · exact hrest i hi
      · simp only [if_neg c1]
        by_cases c2 : t[front]! < t[lf]!
        · simp only [if_pos c2, true_and]
          refine ⟨?_, h2, hfr⟩
          intro i hi
          simp only [List.mem_cons] at hi
          rcases hi with rfl | rfl | rfl | hi
          · exact hb
          · exact hfr
          · exact hst
          · exact hrest i hi
        · simp only [if_neg c2]
          by_cases c3 : max lf hf ≤ start ∧ absDiff t[front]! t[start]! ≤ absDiff t[back]! t[front]!
          · simp only [if_pos c3]
            exact ih _ ⟨hrest, h2, h3⟩
          · simp only [if_neg c3, true_and]
            exact hpush

theorem absDiff_neg (a b : Int) : absDiff (-a) (-b) = absDiff a b := by
  unfold absDiff; omega

theorem tpBack_neg (t t' : Array Int) (hneg : ∀ i : Nat, t'[i]! = - t[i]!) (back : Nat) :
    ∀ (fuel : Nat) (L : TpLoop), t[L.lf]! ≤ t[L.hf]! →
      tpBack t' back fuel L.swap = (tpBack t back fuel L).swap ∧
        t[(tpBack t back fuel L).lf]! ≤ t[(tpBack t back fuel L).hf]! := by
  intro fuel
  induction fuel with
  | zero => intro L hL; exact ⟨rfl, hL⟩
  | succ fuel ih =>
    intro L hL
    obtain ⟨ri, hf, lf, cyc⟩ := L
    simp only at hL
    match ri with
    | [] => exact ⟨rfl, hL⟩
    | [_] => exact ⟨rfl, hL⟩
    | front :: start :: rest =>
      simp only [tpBack, TpLoop.swap, gt_iff_lt, ge_iff_le, hneg, absDiff_neg]
      by_cases c1 : t[hf]! < t[front]!
      · have c2 : ¬ t[front]! < t[lf]! := by omega
        have c1' : ¬ (-t[lf]! < -t[front]!) := by omega
        have c1'' : -t[front]! < -t[hf]! := by omega
        simp only [if_pos c1, if_neg c1', if_pos c1'', true_and]
        omega
      · by_cases c2 : t[front]! < t[lf]!
        · have c1' : (-t[lf]! < -t[front]!) := by omega
          simp only [if_neg c1, if_pos c2, if_pos c1', true_and]
          omega
        · have c1' : ¬ (-t[lf]! < -t[front]!) := by omega
          have c1'' : ¬ -t[front]! < -t[hf]! := by omega
          simp only [if_neg c1, if_neg c2, if_neg c1', if_neg c1'', Nat.max_comm hf lf]
          by_cases c3 : max lf hf ≤ start ∧ absDiff t[front]! t[start]! ≤ absDiff t[back]! t[front]!
          · simp only [if_pos c3]
            exact ih { ri := rest, hf := hf, lf := lf, cycles := cyc ++ [(start, front)] } hL
          · simp only [if_neg c3, true_and]
            exact hL

/-- The loop body as a function. -/
def tpStep (t : Array Int) (L : TpLoop) (k : Nat) : TpLoop :=
  tpBack t (k + 2) (L.ri.length / 2 + 1) L

def tpInit (hf lf : Nat) : TpLoop := { ri := [1, 0], hf := hf, lf := lf, cycles := [] }

theorem tpLoop_eq (t : Array Int) (hf lf : Nat) :
    tpLoop t hf lf = (List.range (t.size - 2)).foldl (tpStep t) (tpInit hf lf) := rfl

theorem tpFold_congr (t t' : Array Int) (N : Nat)
    (hlt : ∀ i j, i < N → j < N → (t'[i]! < t'[j]! ↔ t[i]! < t[j]!))
    (habs : ∀ i j k, i < N → j < N → k < N →
      (absDiff t'[j]! t'[k]! ≤ absDiff t'[i]! t'[j]! ↔ absDiff t[j]! t[k]! ≤ absDiff t[i]! t[j]!))
    (ks : List Nat) (hks : ∀ k ∈ ks, k + 2 < N) : ∀ (L : TpLoop), L.Bnd N →
      ks.foldl (tpStep t') L = ks.foldl (tpStep t) L := by
  induction ks with
  | nil => intro L _; rfl
  | cons k ks ih =>
    intro L hL
    simp only [List.foldl_cons]
    have hk : k + 2 < N := hks k (by simp)
    obtain ⟨h1, h2⟩ := tpBack_congr t t' N hlt habs (k + 2) hk (L.ri.length / 2 + 1) L hL
    have : tpStep t' L k = tpStep t L k := h1
    rw [this]
    exact ih (fun k hk => hks k (by simp [hk])) _ h2

theorem tpLoop_congr (t t' : Array Int) (hsz : t'.size = t.size)
    (hlt : ∀ i j, i < t.size → j < t.size → (t'[i]! < t'[j]! ↔ t[i]! < t[j]!))
    (habs : ∀ i j k, i < t.size → j < t.size → k < t.size →
      (absDiff t'[j]! t'[k]! ≤ absDiff t'[i]! t'[j]! ↔ absDiff t[j]! t[k]! ≤ absDiff t[i]! t[j]!))
    (hf lf : Nat) (hhf : hf < t.size) (hlf : lf < t.size) :
    tpLoop t' hf lf = tpLoop t hf lf := by
  rw [tpLoop_eq, tpLoop_eq, hsz]
  by_cases h3 : t.size < 3
  · have : t.size - 2 = 0 := by omega
    rw [this]; rfl
  · apply tpFold_congr t t' t.size hlt habs
    · intro k hk; simp only [List.mem_range] at hk; omega
    · refine ⟨?_, hhf, hlf⟩
      intro i hi
      simp only [tpInit, List.mem_cons, List.not_mem_nil, or_false] at hi
      omega

theorem tpFold_neg (t t' : Array Int) (hneg : ∀ i : Nat, t'[i]! = - t[i]!) (ks : List Nat) :
    ∀ (L : TpLoop), t[L.lf]! ≤ t[L.hf]! →
      ks.foldl (tpStep t') L.swap = (ks.foldl (tpStep t) L).swap := by
  induction ks with
  | nil => intro L _; rfl
  | cons k ks ih =>
    intro L hL
    simp only [List.foldl_cons]
    obtain ⟨h1, h2⟩ := tpBack_neg t t' hneg (k + 2) (L.ri.length / 2 + 1) L hL
    have : tpStep t' L.swap k = (tpStep t L k).swap := h1
    rw [this]
    exact ih _ h2

theorem tpLoop_neg (t t' : Array Int) (hsz : t'.size = t.size) (hneg : ∀ i : Nat, t'[i]! = - t[i]!)
    (hf lf : Nat) (h : t[lf]! ≤ t[hf]!) :
    tpLoop t' lf hf = (tpLoop t hf lf).swap := by
  rw [tpLoop_eq, tpLoop_eq, hsz]
  exact tpFold_neg t t' hneg _ (tpInit hf lf) h

/-! ### Sortedness of the residual positions -/

def _root_.PylifeVerif.Rainflow.TpLoop.Srt (b bc : Nat) (L : TpLoop) : Prop :=
  L.ri.Pairwise (· > ·) ∧ (∀ i ∈ L.ri, i < b) ∧ (∀ c ∈ L.cycles, c.1 < bc ∧ c.2 < bc)

theorem tpBack_srt (t : Array Int) (b : Nat) : ∀ (fuel : Nat) (L : TpLoop), L.Srt b b →
    (tpBack t b fuel L).Srt (b + 1) b ∧ ∃ r, (tpBack t b fuel L).ri = b :: r := by
  intro fuel
  have hpush : ∀ L : TpLoop, L.Srt b b → ∀ hf lf, TpLoop.Srt (b + 1) b
      { ri := b :: L.ri, hf := hf, lf := lf, cycles := L.cycles } := by
    intro L ⟨h1, h2, h3⟩ hf lf
    refine ⟨?_, ?_, h3⟩
    · simp only [List.pairwise_cons]; exact ⟨fun a ha => h2 a ha, h1⟩
    · intro i hi
      simp only [List.mem_cons] at hi
      rcases hi with rfl | hi
      · omega
      · have := h2 i hi; omega
  induction fuel with
  | zero => intro L hL; exact ⟨hpush L hL _ _, _, rfl⟩
  | succ fuel ih =>
    intro L hL
    obtain ⟨ri, hf, lf, cyc⟩ := L
    match ri, hL with
    | [], hL => exact ⟨hpush _ hL _ _, _, rfl⟩
    | [_], hL => exact ⟨hpush _ hL _ _, _, rfl⟩
    | front :: start :: rest, hL =>
      simp only [tpBack]
      split
      · exact ⟨hpush _ hL _ _, _, rfl⟩
      · split
        · exact ⟨hpush _ hL _ _, _, rfl⟩
        · split
          · apply ih
            obtain ⟨h1, h2, h3⟩ := hL
            simp only [List.pairwise_cons] at h1
            refine ⟨h1.2.2, fun i hi => h2 i (by simp [hi]), ?_⟩
            intro c hc
            simp only [List.mem_append, List.mem_singleton] at hc
            rcases hc with hc | rfl
            · exact h3 c hc
            · exact ⟨h2 start (by simp), h2 front (by simp)⟩
          · exact ⟨hpush _ hL _ _, _, rfl⟩

theorem srt_mono {b bc bc' : Nat} {L : TpLoop} (h : L.Srt b bc) (hbc : bc ≤ bc') :
    L.Srt b bc' :=
  ⟨h.1, h.2.1, fun c hc => ⟨Nat.lt_of_lt_of_le (h.2.2 c hc).1 hbc, Nat.lt_of_lt_of_le (h.2.2 c hc).2 hbc⟩⟩

theorem tpFold_srt (t : Array Int) (n : Nat) (L : TpLoop) (hL : L.Srt 2 1) :
    ((List.range n).foldl (tpStep t) L).Srt (n + 2) (n + 1) ∧
      (0 < n → ∃ r, ((List.range n).foldl (tpStep t) L).ri = (n + 1) :: r) := by
  induction n with
  | zero => exact ⟨hL, fun h => absurd h (by omega)⟩
  | succ n ih =>
    rw [List.range_succ, List.foldl_append]
    simp only [List.foldl_cons, List.foldl_nil]
    obtain ⟨h1, h2⟩ := tpBack_srt t (n + 2) (((List.range n).foldl (tpStep t) L).ri.length / 2 + 1) _
      (srt_mono ih.1 (by omega))
    exact ⟨h1, fun _ => h2⟩

theorem tpInit_srt (hf lf : Nat) : (tpInit hf lf).Srt 2 1 := by
  refine ⟨by simp [tpInit], ?_, by simp [tpInit]⟩
  intro i hi
  simp only [tpInit, List.mem_cons, List.not_mem_nil, or_false] at hi
  omega

/-- Shape of the loop result: positions strictly decreasing, all cycle positions below the last
position, and (when the loop runs at all) the last position on top. -/
theorem tpLoop_srt (t : Array Int) (hf lf : Nat) :
    (tpLoop t hf lf).Srt (t.size - 2 + 2) (t.size - 2 + 1) ∧
      (3 ≤ t.size → ∃ r, (tpLoop t hf lf).ri = (t.size - 1) :: r) ∧
      (t.size < 3 → tpLoop t hf lf = tpInit hf lf) := by
  rw [tpLoop_eq]
  obtain ⟨h1, h2⟩ := tpFold_srt t (t.size - 2) (tpInit hf lf) (tpInit_srt hf lf)
  refine ⟨h1, fun h3 => ?_, fun h3 => ?_⟩
  · obtain ⟨r, hr⟩ := h2 (by omega)
    exact ⟨r, by rw [hr]; congr 1; omega⟩
  · have : t.size - 2 = 0 := by omega
    rw [this]; rfl

theorem amFold_spec (l : List (Int × Nat)) : ∀ (acc : Option (Int × Nat)), (acc ≠ none ∨ l ≠ []) →
    ∃ r, l.foldl amStep acc = some r ∧ (some r = acc ∨ r ∈ l) ∧
      (∀ a, acc = some a → a.1 ≤ r.1) ∧ ∀ x ∈ l, x.1 ≤ r.1 := by
  induction l with
  | nil =>
    intro acc h
    cases acc with
    | none => simp at h
    | some a => exact ⟨a, rfl, Or.inl rfl, fun b hb => by cases hb; exact Int.le_refl _, by simp⟩
  | cons x xs ih =>
    intro acc _
    simp only [List.foldl_cons]
    cases acc with
    | none =>
      obtain ⟨r, h1, h2, h3, h4⟩ := ih (some x) (Or.inl (by simp))
      refine ⟨r, h1, Or.inr ?_, by simp, ?_⟩
      · rcases h2 with h2 | h2
        · cases h2; simp
        · simp [h2]
      · intro y hy
        simp only [List.mem_cons] at hy
        rcases hy with rfl | hy
        · exact h3 _ rfl
        · exact h4 y hy
    | some a =>
      by_cases c : x.1 > a.1
      · obtain ⟨r, h1, h2, h3, h4⟩ := ih (some x) (Or.inl (by simp))
        refine ⟨r, by simpa [amStep, c] using h1, Or.inr ?_, ?_, ?_⟩
        · rcases h2 with h2 | h2
          · cases h2; simp
          · simp [h2]
        · intro b hb; cases hb; have := h3 _ rfl; omega
        · intro y hy
          simp only [List.mem_cons] at hy
          rcases hy with rfl | hy
          · exact h3 _ rfl
          · exact h4 y hy
      · obtain ⟨r, h1, h2, h3, h4⟩ := ih (some a) (Or.inl (by simp))
        refine ⟨r, by simpa [amStep, c] using h1, ?_, h3, ?_⟩
        · rcases h2 with h2 | h2
          · exact Or.inl h2
          · exact Or.inr (by simp [h2])
        · intro y hy
          simp only [List.mem_cons] at hy
          rcases hy with rfl | hy
          · have := h3 _ rfl; omega
          · exact h4 y hy

theorem argmax_spec (l : List Int) (hl : l ≠ []) :
    argmax l < l.length ∧ ∀ x ∈ l, x ≤ l[argmax l]! := by
  obtain ⟨r, h1, h2, _, h4⟩ := amFold_spec l.zipIdx none (Or.inr (by simpa using hl))
  have hr : r ∈ l.zipIdx := by
    rcases h2 with h2 | h2
    · cases h2
    · exact h2
  obtain ⟨v, i⟩ := r
  obtain ⟨_, hi, hv⟩ := List.mem_zipIdx hr
  have ha : argmax l = i := by simp [argmax_eq, h1]
  rw [ha]
  simp only [Nat.zero_add, Nat.sub_zero] at hi hv
  refine ⟨hi, ?_⟩
  intro x hx
  obtain ⟨j, hj, rfl⟩ := List.getElem_of_mem hx
  have : (l[j], j) ∈ l.zipIdx := by
    rw [List.mem_zipIdx_iff_getElem?]; simp [hj]
  have := h4 _ this
  simp only at this
  simpa [hi, ← hv] using this

theorem argmax_lt (l : List Int) (hl : l ≠ []) : argmax l < l.length := (argmax_spec l hl).1

theorem argmin_lt (l : List Int) (hl : l ≠ []) : argmin l < l.length := by
  have := argmax_lt (l.map fun x => -x) (by simpa using hl)
  simpa [argmin] using this

theorem argmin_le_argmax_val (l : List Int) : l[argmin l]! ≤ l[argmax l]! := by
  by_cases hl : l = []
  · subst hl; simp
  · obtain ⟨_, h2⟩ := argmax_spec l hl
    have h3 := argmin_lt l hl
    apply h2
    simp [h3]



theorem findTurnsAux_map (f : Int → Int) (σ : Int) (hσ : σ = 1 ∨ σ = -1)
    (hs : ∀ x y, sgn (f x - f y) = σ * sgn (x - y)) (xs : List Int) :
    ∀ (dir : Int) (cand : Pt) (i : Nat) (prev : Int),
      findTurnsAux (σ * dir) (tpMapPt f cand) i (f prev) (xs.map f) =
        (findTurnsAux dir cand i prev xs).map (tpMapPt f) := by
  induction xs with
  | nil => intro dir cand i prev; rfl
  | cons x xs ih =>
    intro dir cand i prev
    simp only [List.map_cons, findTurnsAux, hs]
    have e1 : (σ * sgn (x - prev) = 0) ↔ (sgn (x - prev) = 0) := by
      rcases hσ with rfl | rfl <;> omega
    have e2 : (σ * dir ≠ 0 ∧ σ * sgn (x - prev) ≠ σ * dir) ↔ (dir ≠ 0 ∧ sgn (x - prev) ≠ dir) := by
      rcases hσ with rfl | rfl <;> omega
    simp only [e1, e2]
    have ih1 := ih dir cand (i + 1) x
    have ih2 := ih (sgn (x - prev)) (i, x) (i + 1) x
    simp only [tpMapPt] at ih1 ih2 ⊢
    split
    · exact ih1
    · split
      · simp only [List.map_cons]; rw [ih2]; rfl
      · exact ih2

theorem findTurns_map (f : Int → Int) (σ : Int) (hσ : σ = 1 ∨ σ = -1)
    (hs : ∀ x y, sgn (f x - f y) = σ * sgn (x - y)) (s : List Int) :
    findTurns (s.map f) = (findTurns s).map (tpMapPt f) := by
  cases s with
  | nil => rfl
  | cons x xs =>
    have := findTurnsAux_map f σ hσ hs xs 0 (0, x) 1 x
    simpa [findTurns, tpMapPt] using this

def mapTs (f : Int → Int) (ts : TurnState) : TurnState := { tail := ts.tail.map f, head := ts.head }

theorem newTurns_map (f : Int → Int) (σ : Int) (hσ : σ = 1 ∨ σ = -1)
    (hs : ∀ x y, sgn (f x - f y) = σ * sgn (x - y)) (ts : TurnState) (samples : List Int) :
    newTurns (mapTs f ts) (samples.map f) =
      (mapTs f (newTurns ts samples).1, (newTurns ts samples).2.map (tpMapPt f)) := by
  unfold newTurns
  by_cases he : samples = []
  · subst he; simp
  · have he' : (samples.map f).isEmpty = false := by simpa using he
    have he'' : samples.isEmpty = false := by simpa using he
    simp only [he', he'', Bool.false_eq_true, if_false, Bool.false_and, mapTs, ← List.map_append,
      findTurns_map f σ hσ hs, List.length_map]
    congr 1
    · congr 1
      simp only [List.getLast?_map, ← List.map_drop]
      cases (findTurns (ts.tail ++ samples)).getLast? <;> rfl
    · simp [tpMapPt, List.map_map, Function.comp_def]



/-- The loop part of `tpProcess` as a function of the residual points, the new turns and the last
sample. -/
def tpCore (base turns : List Pt) (lastv : Int) : List Cycle × List Pt :=
  let pts : Array Pt := (base ++ turns).toArray
  let vals : Array Int := ((base ++ turns).map (·.2) ++ [lastv]).toArray
  let resid := base.map (·.2)
  let L := tpLoop vals (argmax resid) (argmin resid)
  (L.cycles.map fun (s, f) => (pts[s]!, pts[f]!), (L.ri.drop 1).map fun i => pts[i]!)

def tpBase (st : DetState) (s0 : Int) : List Pt :=
  if st.last.isNone then [(0, s0)] else st.stack.reverse

theorem tpProcess_cons (st : DetState) (s0 : Int) (tl : List Int) :
    tpProcess st (s0 :: tl) =
      { ts := (newTurns st.ts (s0 :: tl)).1,
        stack := (tpCore (tpBase st s0) (newTurns st.ts (s0 :: tl)).2 (s0 :: tl).getLast!).2,
        last := some (s0 :: tl).getLast!,
        cycles := st.cycles ++ (tpCore (tpBase st s0) (newTurns st.ts (s0 :: tl)).2 (s0 :: tl).getLast!).1,
        chunks := st.chunks ++ [(s0 :: tl).length] } := by
  simp [tpProcess, tpCore, tpBase]


theorem arr_neg_get! (t : Array Int) (i : Nat) :
    (t.map (fun x => -x))[i]! = - t[i]! := by
  by_cases hi : i < t.size <;> simp [hi]

theorem argmin_neg (l : List Int) : argmin (l.map fun x => -x) = argmax l := by
  simp [argmin, List.map_map]

theorem argmax_neg (l : List Int) : argmax (l.map fun x => -x) = argmin l := rfl

theorem pts_neg_get! (l : List Pt) (i : Nat) :
    (l.map (tpMapPt fun x => -x)).toArray[i]! = tpMapPt (fun x => -x) l.toArray[i]! := by
  by_cases hi : i < l.length
  · simp [hi]
  · simp [hi]; rfl

theorem vals_prefix_get! (base rest : List Int) (i : Nat) (hi : i < base.length) :
    (base ++ rest).toArray[i]! = base[i]! := by
  simp [hi, List.getElem?_append_left hi]

theorem tpCore_neg (base turns : List Pt) (lastv : Int) :
    tpCore (base.map (tpMapPt fun x => -x)) (turns.map (tpMapPt fun x => -x)) (-lastv) =
      ((tpCore base turns lastv).1.map (tpMapCycle fun x => -x),
       (tpCore base turns lastv).2.map (tpMapPt fun x => -x)) := by
  unfold tpCore
  simp only []
  have hvals : ((base.map (tpMapPt fun x => -x) ++ turns.map (tpMapPt fun x => -x)).map (·.2) ++ [-lastv]).toArray
      = (((base ++ turns).map (·.2) ++ [lastv]).toArray).map (fun x => -x) := by
    simp [tpMapPt, List.map_map, Function.comp_def]
  have hres : (base.map (tpMapPt fun x => -x)).map (·.2) = (base.map (·.2)).map (fun x => -x) := by
    simp [tpMapPt, List.map_map, Function.comp_def]
  rw [hvals, hres, argmin_neg, argmax_neg]
  have hinv : (((base ++ turns).map (·.2) ++ [lastv]).toArray)[argmin (base.map (·.2))]! ≤
      (((base ++ turns).map (·.2) ++ [lastv]).toArray)[argmax (base.map (·.2))]! := by
    by_cases hb : base = []
    · subst hb; simp [argmin, argmax]
    · have hb' : base.map (·.2) ≠ [] := by simpa using hb
      have h1 := argmax_lt _ hb'
      have h2 := argmin_lt _ hb'
      have h3 := argmin_le_argmax_val (base.map (·.2))
      simp only [List.map_append, List.append_assoc]
      rw [vals_prefix_get! _ _ _ h1, vals_prefix_get! _ _ _ h2]
      exact h3
  rw [tpLoop_neg _ _ (by simp) (arr_neg_get! _) _ _ hinv]
  simp only [TpLoop.swap, ← List.map_append, pts_neg_get!, List.map_map]
  rfl


def mapSt (f : Int → Int) (st : DetState) : DetState :=
  { ts := mapTs f st.ts, stack := st.stack.map (tpMapPt f), last := st.last.map f,
    cycles := st.cycles.map (tpMapCycle f), chunks := st.chunks }

theorem sgn_neg_sub (x y : Int) : sgn (-x - -y) = -1 * sgn (x - y) := by
  unfold sgn; split <;> split <;> (try split) <;> (try split) <;> omega

theorem getLast!_map (f : Int → Int) (l : List Int) (hl : l ≠ []) :
    (l.map f).getLast! = f l.getLast! := by
  cases l with
  | nil => exact absurd rfl hl
  | cons x xs =>
    rw [List.getLast!_eq_getLast?_getD, List.getLast!_eq_getLast?_getD, List.getLast?_map]
    cases h : (x :: xs).getLast? with
    | none => simp at h
    | some v => rfl

theorem tpBase_map (f : Int → Int) (st : DetState) (s0 : Int) :
    tpBase (mapSt f st) (f s0) = (tpBase st s0).map (tpMapPt f) := by
  unfold tpBase mapSt
  cases st.last <;> simp [tpMapPt]

theorem tpProcess_neg (st : DetState) (samples : List Int) :
    tpProcess (mapSt (fun x => -x) st) (samples.map fun x => -x) =
      mapSt (fun x => -x) (tpProcess st samples) := by
  cases samples with
  | nil => rfl
  | cons s0 tl =>
    have hm : (s0 :: tl).map (fun x => -x) = (-s0) :: tl.map (fun x => -x) := rfl
    have hnt := newTurns_map (fun x => -x) (-1) (Or.inr rfl) sgn_neg_sub st.ts (s0 :: tl)
    have hl := getLast!_map (fun x => -x) (s0 :: tl) (by simp)
    rw [hm] at hnt hl ⊢
    rw [tpProcess_cons, tpProcess_cons]
    have hts : (mapSt (fun x => -x) st).ts = mapTs (fun x => -x) st.ts := rfl
    rw [hts, hnt, hl, tpBase_map (fun x => -x) st s0, tpCore_neg]
    simp [mapSt]

theorem tpRun_neg (cs : List (List Int)) :
    tpRun (cs.map (List.map fun x => -x)) = mapSt (fun x => -x) (tpRun cs) := by
  unfold tpRun
  have key : ∀ (st : DetState), (cs.map (List.map fun x => -x)).foldl tpProcess (mapSt (fun x => -x) st) =
      mapSt (fun x => -x) (cs.foldl tpProcess st) := by
    induction cs with
    | nil => intro st; rfl
    | cons c cs ih =>
      intro st
      simp only [List.map_cons, List.foldl_cons, tpProcess_neg, ih]
  exact key {}

theorem affine_lt (a b : Int) (ha : 0 < a) (x y : Int) : a * x + b < a * y + b ↔ x < y := by
  constructor
  · intro h
    by_contra hc
    have : a * y ≤ a * x := Int.mul_le_mul_of_nonneg_left (by omega) (by omega)
    omega
  · intro h
    have : a * x < a * y := Int.mul_lt_mul_of_pos_left h ha
    omega

theorem affine_absDiff (a b : Int) (x y : Int) :
    absDiff (a * x + b) (a * y + b) = a.natAbs * absDiff x y := by
  unfold absDiff
  have : a * x + b - (a * y + b) = a * (x - y) := by ring
  rw [this, Int.natAbs_mul]

theorem affine_sgn (a b : Int) (ha : 0 < a) (x y : Int) :
    sgn (a * x + b - (a * y + b)) = 1 * sgn (x - y) := by
  have h1 := affine_lt a b ha x y
  have h2 := affine_lt a b ha y x
  unfold sgn
  split <;> split <;> (try split) <;> (try split) <;> omega

theorem argmax_affine (a b : Int) (ha : 0 < a) (l : List Int) :
    argmax (l.map fun x => a * x + b) = argmax l := by
  have := argmax_map_congr (fun x => a * x + b) id (fun x y => affine_lt a b ha x y) l
  simpa using this

theorem argmin_affine (a b : Int) (ha : 0 < a) (l : List Int) :
    argmin (l.map fun x => a * x + b) = argmin l := by
  unfold argmin
  rw [List.map_map]
  apply argmax_map_congr
  intro x y
  have := affine_lt a b ha y x
  simp only [Function.comp]
  omega

theorem arr_map_get! (f : Int → Int) (t : Array Int) (i : Nat) (hi : i < t.size) :
    (t.map f)[i]! = f t[i]! := by
  simp [hi]

theorem pts_map_get! (f : Int → Int) (l : List Pt) (i : Nat) (hi : i < l.length) :
    (l.map (tpMapPt f)).toArray[i]! = tpMapPt f l.toArray[i]! := by
  simp [hi]

theorem tpCore_affine (a b : Int) (ha : 0 < a) (base turns : List Pt) (lastv : Int)
    (hne : base ++ turns ≠ []) :
    tpCore (base.map (tpMapPt fun x => a * x + b)) (turns.map (tpMapPt fun x => a * x + b)) (a * lastv + b) =
      ((tpCore base turns lastv).1.map (tpMapCycle fun x => a * x + b),
       (tpCore base turns lastv).2.map (tpMapPt fun x => a * x + b)) := by
  unfold tpCore
  simp only []
  have hvals : ((base.map (tpMapPt fun x => a * x + b) ++ turns.map (tpMapPt fun x => a * x + b)).map (·.2)
        ++ [a * lastv + b]).toArray
      = (((base ++ turns).map (·.2) ++ [lastv]).toArray).map (fun x => a * x + b) := by
    simp [tpMapPt, List.map_map, Function.comp_def]
  have hres : (base.map (tpMapPt fun x => a * x + b)).map (·.2) =
      (base.map (·.2)).map (fun x => a * x + b) := by
    simp [tpMapPt, List.map_map, Function.comp_def]
  rw [hvals, hres, argmin_affine a b ha, argmax_affine a b ha]
  generalize hv : ((base ++ turns).map (·.2) ++ [lastv]).toArray = vals
  have hsz : vals.size = (base ++ turns).length + 1 := by rw [← hv]; simp; omega
  have hbnd : argmax (base.map (·.2)) < vals.size ∧ argmin (base.map (·.2)) < vals.size := by
    by_cases hb : base = []
    · subst hb; simp [argmin, argmax, hsz]
    · have hb' : base.map (·.2) ≠ [] := by simpa using hb
      have h1 := argmax_lt _ hb'
      have h2 := argmin_lt _ hb'
      simp only [List.length_map] at h1 h2
      simp only [hsz, List.length_append]
      omega
  have hloop : tpLoop (vals.map fun x => a * x + b) (argmax (base.map (·.2))) (argmin (base.map (·.2))) =
      tpLoop vals (argmax (base.map (·.2))) (argmin (base.map (·.2))) := by
    apply tpLoop_congr _ _ (by simp) _ _ _ _ hbnd.1 hbnd.2
    · intro i j hi hj
      rw [arr_map_get! _ _ _ hi, arr_map_get! _ _ _ hj]
      exact affine_lt a b ha _ _
    · intro i j k hi hj hk
      rw [arr_map_get! _ _ _ hi, arr_map_get! _ _ _ hj, arr_map_get! _ _ _ hk,
        affine_absDiff, affine_absDiff]
      exact Nat.mul_le_mul_left_iff (by omega)
  rw [hloop]
  obtain ⟨hs1, hs2, hs3⟩ := tpLoop_srt vals (argmax (base.map (·.2))) (argmin (base.map (·.2)))
  generalize tpLoop vals (argmax (base.map (·.2))) (argmin (base.map (·.2))) = L at hs1 hs2 hs3
  have hlen : 0 < (base ++ turns).length := List.length_pos_iff.mpr hne
  rw [← List.map_append]
  refine Prod.ext ?_ ?_
  · simp only [List.map_map]
    apply List.map_congr_left
    intro c hc
    obtain ⟨h1, h2⟩ := hs1.2.2 c hc
    simp only [Function.comp, tpMapCycle]
    rw [pts_map_get! _ _ _ (by omega), pts_map_get! _ _ _ (by omega)]
  · simp only [List.map_map]
    apply List.map_congr_left
    intro i hi
    simp only [Function.comp]
    apply pts_map_get!
    by_cases h3 : 3 ≤ vals.size
    · obtain ⟨r, hr⟩ := hs2 h3
      rw [hr] at hi
      simp only [List.drop_one, List.tail_cons] at hi
      have := hs1.1
      rw [hr] at this
      simp only [List.pairwise_cons] at this
      have := this.1 i hi
      omega
    · rw [hs3 (by omega)] at hi
      simp only [tpInit, List.drop_one, List.tail_cons, List.mem_singleton] at hi
      omega

/-- After the first sample the decided residual stack is never empty (needed because the model
reads `pts[0]!`). -/
def StackOk (st : DetState) : Prop := st.last.isSome → st.stack ≠ []

theorem tpBase_ne_nil (st : DetState) (s0 : Int) (h : StackOk st) : tpBase st s0 ≠ [] := by
  unfold tpBase
  cases hl : st.last with
  | none => simp
  | some l => simpa using h (by simp [hl])

theorem tpProcess_affine (a b : Int) (ha : 0 < a) (st : DetState) (samples : List Int)
    (hst : StackOk st) :
    tpProcess (mapSt (fun x => a * x + b) st) (samples.map fun x => a * x + b) =
      mapSt (fun x => a * x + b) (tpProcess st samples) := by
  cases samples with
  | nil => rfl
  | cons s0 tl =>
    have hm : (s0 :: tl).map (fun x => a * x + b) = (a * s0 + b) :: tl.map (fun x => a * x + b) := rfl
    have hnt := newTurns_map (fun x => a * x + b) 1 (Or.inl rfl) (affine_sgn a b ha) st.ts (s0 :: tl)
    have hl := getLast!_map (fun x => a * x + b) (s0 :: tl) (by simp)
    rw [hm] at hnt hl ⊢
    rw [tpProcess_cons, tpProcess_cons]
    have hts : (mapSt (fun x => a * x + b) st).ts = mapTs (fun x => a * x + b) st.ts := rfl
    rw [hts, hnt, hl, tpBase_map (fun x => a * x + b) st s0,
      tpCore_affine a b ha _ _ _ (by simp [tpBase_ne_nil st s0 hst])]
    simp [mapSt]

theorem tpRun_affine_of_inv (a b : Int) (ha : 0 < a) (J : DetState → Prop)
    (hJ0 : J {}) (hJstep : ∀ st samples, J st → J (tpProcess st samples))
    (hJok : ∀ st, J st → StackOk st) (cs : List (List Int)) :
    tpRun (cs.map (List.map fun x => a * x + b)) = mapSt (fun x => a * x + b) (tpRun cs) := by
  unfold tpRun
  have key : ∀ (st : DetState), J st →
      (cs.map (List.map fun x => a * x + b)).foldl tpProcess (mapSt (fun x => a * x + b) st) =
      mapSt (fun x => a * x + b) (cs.foldl tpProcess st) := by
    induction cs with
    | nil => intro st _; rfl
    | cons c cs ih =>
      intro st hst
      simp only [List.map_cons, List.foldl_cons, tpProcess_affine a b ha st c (hJok st hst)]
      exact ih _ (hJstep st c hst)
  exact key {} hJ0

/-! ### Strict alternation of a value list (newest value first) -/

/-- `AltR up l`: the list `l` (newest first) alternates strictly; `up` tells whether the step
into the head was upwards. -/
def AltR : Bool → List Int → Prop
  | _, [] => True
  | _, [_] => True
  | up, x :: y :: r => (if up then y < x else x < y) ∧ AltR (!up) (y :: r)

theorem altR_head (u : Bool) (x x' : Int) (S : List Int) (h : AltR u (x :: S))
    (hx : if u then x ≤ x' else x' ≤ x) : AltR u (x' :: S) := by
  cases S with
  | nil => trivial
  | cons y r =>
    simp only [AltR] at h ⊢
    refine ⟨?_, h.2⟩
    cases u <;> simp at h hx ⊢ <;> omega

theorem altR_adj (pre : List Int) (x y : Int) (rest : List Int) :
    ∀ u, AltR u (pre ++ x :: y :: rest) → x ≠ y := by
  induction pre with
  | nil =>
    intro u h
    simp only [List.nil_append, AltR] at h
    cases u <;> simp at h <;> omega
  | cons p pre ih =>
    intro u h
    cases pre with
    | nil =>
      simp only [List.cons_append, List.nil_append, AltR] at h
      exact ih (!u) h.2
    | cons q pre' =>
      simp only [List.cons_append, AltR] at h
      exact ih (!u) h.2

theorem altR_remove0 (u : Bool) (b f s r : Int) (rest : List Int)
    (h : AltR u (b :: f :: s :: r :: rest)) (hc : absDiff f s ≤ absDiff b f) :
    AltR u (b :: r :: rest) := by
  simp only [AltR, Bool.not_not] at h ⊢
  obtain ⟨h1, h2, h3, h4⟩ := h
  refine ⟨?_, h4⟩
  unfold absDiff at hc
  cases u <;> simp at h1 h2 h3 ⊢ <;> omega

theorem altR_remove (pre : List Int) (b f s r : Int) (rest : List Int) :
    ∀ u, AltR u (pre ++ b :: f :: s :: r :: rest) → absDiff f s ≤ absDiff b f →
      AltR u (pre ++ b :: r :: rest) := by
  induction pre with
  | nil => intro u h hc; exact altR_remove0 u b f s r rest h hc
  | cons p pre ih =>
    intro u h hc
    cases pre with
    | nil =>
      simp only [List.cons_append, List.nil_append, AltR] at h ⊢
      exact ⟨h.1, ih (!u) h.2 hc⟩
    | cons q pre' =>
      simp only [List.cons_append, AltR] at h ⊢
      exact ⟨h.1, ih (!u) h.2 hc⟩

/-- If the values at `pre`, `back`, residual positions alternate strictly and position `0` is at
the bottom of the residual positions, `tpBack` keeps both facts: position `0` is never closed. -/
theorem tpBack_alt (t : Array Int) (b : Nat) (pre : List Int) (u : Bool) :
    ∀ (fuel : Nat) (L : TpLoop),
      AltR u (pre ++ t[b]! :: L.ri.map (fun i => t[i]!)) → L.ri.getLast? = some 0 →
      AltR u (pre ++ (tpBack t b fuel L).ri.map (fun i => t[i]!)) ∧
        (tpBack t b fuel L).ri.getLast? = some 0 := by
  intro fuel
  have hpush : ∀ (ri : List Nat), AltR u (pre ++ t[b]! :: ri.map (fun i => t[i]!)) →
      ri.getLast? = some 0 → AltR u (pre ++ (b :: ri).map (fun i => t[i]!)) ∧
        (b :: ri).getLast? = some 0 := by
    intro ri h1 h2
    refine ⟨by simpa using h1, ?_⟩
    cases ri with
    | nil => simp at h2
    | cons x xs => simpa [List.getLast?_cons_cons] using h2
  induction fuel with
  | zero => intro L h1 h2; exact hpush L.ri h1 h2
  | succ fuel ih =>
    intro L h1 h2
    obtain ⟨ri, hf, lf, cyc⟩ := L
    simp only at h1 h2
    match ri, h1, h2 with
    | [], h1, h2 => exact hpush _ h1 h2
    | [_], h1, h2 => exact hpush _ h1 h2
    | front :: start :: rest, h1, h2 =>
      simp only [tpBack]
      split
      · exact hpush _ h1 h2
      · split
        · exact hpush _ h1 h2
        · rename_i c1 c2
          split
          · rename_i c3
            simp only [List.map_cons] at h1
            cases rest with
            | nil =>
              exfalso
              have hne := altR_adj (pre ++ [t[b]!]) t[front]! t[start]! [] u (by simpa using h1)
              simp only [List.getLast?_cons_cons, List.getLast?_singleton, Option.some.injEq] at h2
              subst h2
              have : max lf hf ≤ 0 := c3.1
              have hl : lf = 0 := by omega
              have hh : hf = 0 := by omega
              subst hl hh
              omega
            | cons r rest' =>
              apply ih
              · simp only [List.map_cons] at h1 ⊢
                exact altR_remove pre _ _ _ _ _ u h1 c3.2
              · simpa [List.getLast?_cons_cons] using h2
          · exact hpush _ h1 h2

theorem range_map_get! (vl : List Int) :
    (List.range' 0 vl.length).map (fun i => vl.toArray[i]!) = vl := by
  apply List.ext_getElem
  · simp
  · intro i h1 h2
    simp at h1
    simp [h1]

/-- values of the positions `b, b+1, …, N-1`, newest first -/
def futRev (vl : List Int) (b : Nat) : List Int :=
  ((List.range' b (vl.length - b)).map (fun i => vl.toArray[i]!)).reverse

theorem futRev_succ (vl : List Int) (b : Nat) (hb : b < vl.length) :
    futRev vl b = futRev vl (b + 1) ++ [vl.toArray[b]!] := by
  unfold futRev
  have : vl.length - b = (vl.length - (b + 1)) + 1 := by omega
  rw [this, List.range'_succ]
  simp

theorem futRev_len (vl : List Int) : futRev vl vl.length = [] := by
  simp [futRev]

theorem futRev_two (vl : List Int) (h2 : 2 ≤ vl.length) :
    futRev vl 2 ++ [vl.toArray[1]!, vl.toArray[0]!] = vl.reverse := by
  have h := range_map_get! vl
  have e : vl.length = (vl.length - 2) + 1 + 1 := by omega
  rw [e, List.range'_succ, List.range'_succ] at h
  conv_rhs => rw [← h]
  simp [futRev]

theorem tpFold_alt (vl : List Int) (u : Bool) (h : AltR u vl.reverse) (h2 : 2 ≤ vl.length)
    (hf lf : Nat) (n : Nat) (hn : n + 2 ≤ vl.length) :
    AltR u (futRev vl (n + 2) ++
        ((List.range n).foldl (tpStep vl.toArray) (tpInit hf lf)).ri.map (fun i => vl.toArray[i]!)) ∧
      ((List.range n).foldl (tpStep vl.toArray) (tpInit hf lf)).ri.getLast? = some 0 := by
  induction n with
  | zero =>
    simp only [List.range_zero, List.foldl_nil, tpInit, List.map_cons, List.map_nil]
    rw [futRev_two vl h2]
    exact ⟨h, rfl⟩
  | succ n ih =>
    obtain ⟨i1, i2⟩ := ih (by omega)
    rw [List.range_succ, List.foldl_append]
    simp only [List.foldl_cons, List.foldl_nil]
    rw [futRev_succ vl (n + 2) (by omega), List.append_assoc, List.singleton_append] at i1
    exact tpBack_alt vl.toArray (n + 2) (futRev vl (n + 2 + 1)) u _ _ i1 i2

theorem tpLoop_alt (vl : List Int) (u : Bool) (h : AltR u vl.reverse) (h2 : 2 ≤ vl.length)
    (hf lf : Nat) :
    AltR u ((tpLoop vl.toArray hf lf).ri.map (fun i => vl.toArray[i]!)) ∧
      (tpLoop vl.toArray hf lf).ri.getLast? = some 0 := by
  have := tpFold_alt vl u h h2 hf lf (vl.length - 2) (by omega)
  have e : vl.length - 2 + 2 = vl.length := by omega
  rw [e, futRev_len, List.nil_append] at this
  rw [tpLoop_eq]
  simpa using this

/-- The scan direction agrees with the alternation of `prev :: S` (`S`: values of the residual
stack below, newest first). -/
def DirOk (dir : Int) (prev : Int) (S : List Int) : Prop :=
  (dir = 1 ∧ AltR true (prev :: S)) ∨ (dir = -1 ∧ AltR false (prev :: S)) ∨ (dir = 0 ∧ S = [prev])

theorem scan_dirOk (c : List Int) : ∀ (dir : Int) (cand : Pt) (i : Nat) (prev : Int) (S : List Int),
    cand.2 = prev → DirOk dir prev S →
    DirOk (scanSt dir cand i prev c).1 (scanSt dir cand i prev c).2.2.2
      ((findTurnsAux dir cand i prev c).reverse.map (·.2) ++ S) := by
  induction c with
  | nil => intro dir cand i prev S _ h; simpa [scanSt, findTurnsAux] using h
  | cons x xs ih =>
    intro dir cand i prev S hc h
    simp only [scanSt, findTurnsAux]
    rcases sgn_cases (x - prev) with hs | hs | hs
    · have hx : x = prev := by omega
      subst hx
      simp only [hs.1, if_true]
      exact ih dir cand (i + 1) x S hc h
    · simp only [hs.1, show ¬ ((1 : Int) = 0) by omega, if_false]
      rcases h with ⟨hd, h⟩ | ⟨hd, h⟩ | ⟨hd, h⟩
      · subst hd
        simp only [ne_eq, not_true_eq_false, and_false, if_false]
        apply ih 1 (i, x) (i + 1) x S rfl
        exact Or.inl ⟨rfl, altR_head true prev x S h (by simp; omega)⟩
      · subst hd
        simp only [ne_eq, show ¬ ((-1 : Int) = 0) by omega, not_false_eq_true,
          show ¬ ((1 : Int) = -1) by omega, and_self, if_true, List.reverse_cons, List.map_append,
          List.map_cons, List.map_nil, List.append_assoc, List.singleton_append]
        apply ih 1 (i, x) (i + 1) x (cand.2 :: S) rfl
        refine Or.inl ⟨rfl, ?_⟩
        rw [hc]
        simp only [AltR, Bool.not_true]
        exact ⟨by simp; omega, h⟩
      · subst hd
        simp only [ne_eq, not_true_eq_false, false_and, if_false]
        apply ih 1 (i, x) (i + 1) x S rfl
        subst h
        refine Or.inl ⟨rfl, ?_⟩
        simp only [AltR]
        exact ⟨by simp; omega, trivial⟩
    · simp only [hs.1, show ¬ ((-1 : Int) = 0) by omega, if_false]
      rcases h with ⟨hd, h⟩ | ⟨hd, h⟩ | ⟨hd, h⟩
      · subst hd
        simp only [ne_eq, show ¬ ((1 : Int) = 0) by omega, not_false_eq_true,
          show ¬ ((-1 : Int) = 1) by omega, and_self, if_true, List.reverse_cons, List.map_append,
          List.map_cons, List.map_nil, List.append_assoc, List.singleton_append]
        apply ih (-1) (i, x) (i + 1) x (cand.2 :: S) rfl
        refine Or.inr (Or.inl ⟨rfl, ?_⟩)
        rw [hc]
        simp only [AltR, Bool.not_false]
        exact ⟨by simp; omega, h⟩
      · subst hd
        simp only [ne_eq, not_true_eq_false, and_false, if_false]
        apply ih (-1) (i, x) (i + 1) x S rfl
        exact Or.inr (Or.inl ⟨rfl, altR_head false prev x S h (by simp; omega)⟩)
      · subst hd
        simp only [ne_eq, not_true_eq_false, false_and, if_false]
        apply ih (-1) (i, x) (i + 1) x S rfl
        subst h
        refine Or.inr (Or.inl ⟨rfl, ?_⟩)
        simp only [AltR]
        exact ⟨by simp; omega, trivial⟩

theorem tpLoop_top (t : Array Int) (hf lf : Nat) (h2 : 2 ≤ t.size) :
    ∃ r, (tpLoop t hf lf).ri = (t.size - 1) :: r ∧ ∀ i ∈ r, i < t.size - 1 := by
  obtain ⟨h1, h3, h4⟩ := tpLoop_srt t hf lf
  by_cases hs : 3 ≤ t.size
  · obtain ⟨r, hr⟩ := h3 hs
    refine ⟨r, hr, ?_⟩
    have := h1.1
    rw [hr, List.pairwise_cons] at this
    exact fun i hi => this.1 i hi
  · rw [h4 (by omega)]
    have : t.size - 1 = 1 := by omega
    refine ⟨[0], by simp [tpInit, this], ?_⟩
    intro i hi
    simp only [List.mem_singleton] at hi
    omega

theorem tpCore_alt (base turns : List Pt) (lastv : Int) (hb : base ≠ []) (u : Bool)
    (h : AltR u (lastv :: (turns.reverse.map (·.2) ++ base.reverse.map (·.2)))) :
    (tpCore base turns lastv).2 ≠ [] ∧ AltR u (lastv :: (tpCore base turns lastv).2.map (·.2)) := by
  unfold tpCore
  simp only []
  generalize hvl : (base ++ turns).map (·.2) ++ [lastv] = vl
  have hrev : vl.reverse = lastv :: (turns.reverse.map (·.2) ++ base.reverse.map (·.2)) := by
    rw [← hvl]; simp
  have hlen : vl.length = (base ++ turns).length + 1 := by rw [← hvl]; simp; omega
  have hblen : 0 < base.length := List.length_pos_iff.mpr hb
  have h2 : 2 ≤ vl.length := by rw [hlen]; simp; omega
  obtain ⟨a1, a2⟩ := tpLoop_alt vl u (by rw [hrev]; exact h) h2
    (argmax (base.map (·.2))) (argmin (base.map (·.2)))
  obtain ⟨r, hr, hrb⟩ := tpLoop_top vl.toArray (argmax (base.map (·.2))) (argmin (base.map (·.2)))
    (by simpa using h2)
  rw [hr] at a1 a2 ⊢
  simp only [List.drop_one, List.tail_cons]
  have hr0 : r ≠ [] := by
    intro hr0
    subst hr0
    simp at a2
    omega
  refine ⟨by simpa using hr0, ?_⟩
  simp only [List.map_cons] at a1
  have e1 : vl.toArray[vl.toArray.size - 1]! = lastv := by
    rw [← hvl]; simp
  have e2 : r.map (fun i => vl.toArray[i]!) = (r.map fun i => (base ++ turns).toArray[i]!).map (·.2) := by
    rw [List.map_map]
    apply List.map_congr_left
    intro i hi
    have hi' := hrb i hi
    simp only [List.size_toArray] at hi'
    have hi2 : i < (base ++ turns).length := by omega
    have hi3 : i < ((base ++ turns).map (·.2)).length := by simpa using hi2
    rw [← hvl]
    simp only [Function.comp, List.getElem!_toArray, List.getElem!_eq_getElem?_getD]
    rw [List.getElem?_append_left hi3, List.getElem?_map, List.getElem?_eq_getElem hi2]
    rfl
  rw [e1, e2] at a1
  exact a1

theorem tpCore_dirOk (base turns : List Pt) (lastv : Int) (dir : Int) (hb : base ≠ [])
    (h : DirOk dir lastv (turns.reverse.map (·.2) ++ base.reverse.map (·.2))) :
    (tpCore base turns lastv).2 ≠ [] ∧ DirOk dir lastv ((tpCore base turns lastv).2.map (·.2)) := by
  rcases h with ⟨hd, h⟩ | ⟨hd, h⟩ | ⟨hd, h⟩
  · obtain ⟨a, b⟩ := tpCore_alt base turns lastv hb true h
    exact ⟨a, Or.inl ⟨hd, b⟩⟩
  · obtain ⟨a, b⟩ := tpCore_alt base turns lastv hb false h
    exact ⟨a, Or.inr (Or.inl ⟨hd, b⟩)⟩
  · -- constant signal so far: no turns, one residual point
    have hl : (turns.reverse.map (·.2) ++ base.reverse.map (·.2)).length = 1 := by rw [h]; rfl
    simp only [List.length_append, List.length_map, List.length_reverse] at hl
    have hbl : 0 < base.length := List.length_pos_iff.mpr hb
    have ht : turns = [] := List.eq_nil_of_length_eq_zero (by omega)
    subst ht
    match base, hb, hl with
    | [p], _, _ =>
      simp only [List.reverse_nil, List.map_nil, List.nil_append, List.reverse_cons,
        List.map_cons, List.cons.injEq, and_true] at h
      have : tpCore [p] [] lastv = ([], [p]) := by
        simp [tpCore, tpLoop]
      rw [this]
      exact ⟨by simp, Or.inr (Or.inr ⟨hd, by simp [h]⟩)⟩

theorem scanSt_append (xs ys : List Int) : ∀ (dir : Int) (cand : Pt) (i : Nat) (prev : Int),
    scanSt dir cand i prev (xs ++ ys) =
      scanSt (scanSt dir cand i prev xs).1 (scanSt dir cand i prev xs).2.1
        (scanSt dir cand i prev xs).2.2.1 (scanSt dir cand i prev xs).2.2.2 ys := by
  induction xs with
  | nil => intros; rfl
  | cons x xs ih =>
    intro dir cand i prev
    simp only [List.cons_append, scanSt]
    split <;> exact ih _ _ _ _

theorem getLast!_eq (l : List Int) (h : l ≠ []) : l.getLast! = l.getLast h := by
  cases l with
  | nil => exact absurd rfl h
  | cons x xs => rfl

theorem getLast_cons_append (s0 : Int) (xs ys : List Int) (hy : ys ≠ []) :
    (s0 :: (xs ++ ys)).getLast (List.cons_ne_nil _ _) = ys.getLast hy := by
  exact List.getLast_append_of_ne_nil (l := s0 :: xs) (List.cons_ne_nil _ _) hy

/-- Invariant of the three-point detector state, in terms of the signal `s0 :: xs` seen so far:
bookkeeping in canonical form, non-empty stack, and the values `last :: stack` alternate in the
direction of the turn scan. -/
def HistInv (st : DetState) : Prop :=
  st = {} ∨ ∃ (s0 : Int) (xs : List Int), st.ts = canonTs (s0 :: xs) ∧
    st.last = some ((s0 :: xs).getLast (List.cons_ne_nil _ _)) ∧ st.stack ≠ [] ∧
    DirOk (scanSt 0 (0, s0) 1 s0 xs).1 ((s0 :: xs).getLast (List.cons_ne_nil _ _))
      (st.stack.map (·.2))

theorem histInv_stackOk (st : DetState) (h : HistInv st) : StackOk st := by
  rcases h with rfl | ⟨s0, xs, _, _, h3, _⟩
  · intro h; simp at h
  · exact fun _ => h3

theorem histInv_step (st : DetState) (c : List Int) (h : HistInv st) : HistInv (tpProcess st c) := by
  cases c with
  | nil => exact h
  | cons c0 tl =>
    rw [tpProcess_cons]
    rcases h with rfl | ⟨s0, xs, h1, h2, h3, h4⟩
    · -- first chunk
      refine Or.inr ⟨c0, tl, ?_, ?_, ?_⟩
      · have := newTurns_canon [] (c0 :: tl) (by simp)
        rw [canonTs_nil] at this
        simp only [this, List.nil_append]
      · simp only [getLast!_eq _ (List.cons_ne_nil c0 tl)]
      · have hnt : (newTurns {} (c0 :: tl)).2 = findTurnsAux 0 (0, c0) 1 c0 tl := by
          have := newTurns_canon [] (c0 :: tl) (by simp)
          rw [canonTs_nil] at this
          rw [this]
          simp [newTurnsOf, findTurns, shiftPts]
        have hb : tpBase {} c0 = [(0, c0)] := rfl
        have key := scan_dirOk tl 0 (0, c0) 1 c0 [c0] rfl (Or.inr (Or.inr ⟨rfl, rfl⟩))
        rw [scanSt_prev] at key
        simp only [hnt, hb, getLast!_eq _ (List.cons_ne_nil c0 tl)]
        exact tpCore_dirOk [(0, c0)] _ _ _ (by simp) (by simpa using key)
    · -- later chunk
      refine Or.inr ⟨s0, xs ++ c0 :: tl, ?_, ?_, ?_⟩
      · simp only [h1]
        rw [newTurns_canon (s0 :: xs) (c0 :: tl) (by simp)]
        rfl
      · simp only [getLast!_eq _ (List.cons_ne_nil c0 tl)]
        rw [getLast_cons_append s0 xs (c0 :: tl) (List.cons_ne_nil _ _)]
      · have hnt : (newTurns st.ts (c0 :: tl)).2 =
            findTurnsAux (scanSt 0 (0, s0) 1 s0 xs).1 (scanSt 0 (0, s0) 1 s0 xs).2.1
              (scanSt 0 (0, s0) 1 s0 xs).2.2.1 (scanSt 0 (0, s0) 1 s0 xs).2.2.2 (c0 :: tl) := by
          rw [h1, newTurns_canon (s0 :: xs) (c0 :: tl) (by simp)]
          exact newTurnsOf_eq_aux s0 xs (c0 :: tl)
        have hb : tpBase st c0 = st.stack.reverse := by
          simp [tpBase, h2]
        have hprev : (scanSt 0 (0, s0) 1 s0 xs).2.2.2 = (s0 :: xs).getLast (List.cons_ne_nil _ _) :=
          scanSt_prev xs 0 (0, s0) 1 s0
        have key := scan_dirOk (c0 :: tl) (scanSt 0 (0, s0) 1 s0 xs).1 (scanSt 0 (0, s0) 1 s0 xs).2.1
          (scanSt 0 (0, s0) 1 s0 xs).2.2.1 (scanSt 0 (0, s0) 1 s0 xs).2.2.2 (st.stack.map (·.2))
          (scanSt_cand xs 0 (0, s0) 1 s0 rfl) (by rw [hprev]; exact h4)
        rw [← scanSt_append, scanSt_prev] at key
        have hlast2 := getLast_cons_append s0 xs (c0 :: tl) (List.cons_ne_nil _ _)
        rw [hlast2] at key
        simp only [hnt, hb, getLast!_eq _ (List.cons_ne_nil c0 tl), hlast2]
        have hbne : st.stack.reverse ≠ [] := by simpa using h3
        exact tpCore_dirOk st.stack.reverse _ _ _ hbne (by simpa using key)

/-! ### Lockstep with the four-point rule: shape invariants -/

/-- `z` lies (weakly) between `x` and `y`. -/
def Btw (x y z : Int) : Prop := (x ≤ z ∧ z ≤ y) ∨ (y ≤ z ∧ z ≤ x)

/-- No four consecutive values (newest first) satisfy the four-point closing condition. -/
def Uni : List Int → Prop
  | x3 :: x2 :: x1 :: x0 :: rest =>
    ¬(absDiff x1 x2 ≤ absDiff x0 x1 ∧ absDiff x1 x2 ≤ absDiff x2 x3) ∧ Uni (x2 :: x1 :: x0 :: rest)
  | _ => True

/-- Ranges strictly increasing towards the newest value. -/
def Inc : List Int → Prop
  | y :: x :: w :: r => absDiff w x < absDiff x y ∧ Inc (x :: w :: r)
  | _ => True

/-- Every position strictly between two neighbouring residual positions has a value between
their values. -/
def Nest (v : Nat → Int) : List Nat → Prop
  | p :: q :: r => (∀ i, q < i → i < p → Btw (v q) (v p) (v i)) ∧ Nest v (q :: r)
  | _ => True

/-- `h` is the first position of the maximum of `v` on `[0, m)`. -/
def IsMaxPos (v : Nat → Int) (m h : Nat) : Prop :=
  h < m ∧ (∀ i, i < m → v i ≤ v h) ∧ (∀ i, i < h → v i < v h)

def IsMinPos (v : Nat → Int) (m h : Nat) : Prop :=
  h < m ∧ (∀ i, i < m → v h ≤ v i) ∧ (∀ i, i < h → v h < v i)

theorem uni_tail (x : Int) (l : List Int) (h : Uni (x :: l)) : Uni l := by
  match l, h with
  | [], _ => trivial
  | [_], _ => trivial
  | [_, _], _ => trivial
  | x2 :: x1 :: x0 :: rest, h => exact h.2

theorem uni_inc (rest : List Int) : ∀ (c b a : Int), Uni (c :: b :: a :: rest) →
    absDiff a b < absDiff b c → Inc (c :: b :: a :: rest) := by
  induction rest with
  | nil => intro c b a _ h; exact ⟨h, trivial⟩
  | cons a' r ih =>
    intro c b a hu h
    refine ⟨h, ?_⟩
    have h1 := hu.1
    have : absDiff a' a < absDiff a b := by
      by_contra hc
      exact h1 ⟨by omega, by omega⟩
    exact ih b a a' hu.2 this

theorem hull_below (v : Nat → Int) (prest : List Nat) : ∀ (u : Bool) (py px : Nat),
    AltR u ((py :: px :: prest).map v) → Inc ((py :: px :: prest).map v) →
    Nest v (py :: px :: prest) → (py :: px :: prest).getLast? = some 0 →
    ∀ q, q ≤ py → Btw (v px) (v py) (v q) := by
  induction prest with
  | nil =>
    intro u py px _ _ hn hl q hq
    simp only [List.getLast?_cons_cons, List.getLast?_singleton, Option.some.injEq] at hl
    subst hl
    by_cases h1 : q = py
    · subst h1; unfold Btw; omega
    · by_cases h2 : q = 0
      · subst h2; unfold Btw; omega
      · exact hn.1 q (by omega) (by omega)
  | cons pw r ih =>
    intro u py px ha hi hn hl q hq
    by_cases h1 : q = py
    · subst h1; unfold Btw; omega
    · by_cases h2 : px < q
      · exact hn.1 q h2 (by omega)
      · simp only [List.map_cons] at ha hi
        have ha2 : AltR (!u) (v px :: v pw :: r.map v) := ha.2
        have key := ih (!u) px pw (by simpa using ha2) (by simpa using hi.2) hn.2
          (by simpa [List.getLast?_cons_cons] using hl) q (by omega)
        have hi1 := hi.1
        have ha1 := ha.1
        have ha3 := ha2.1
        unfold Btw at key ⊢
        unfold absDiff at hi1
        cases u <;> simp at ha1 ha3 <;> omega

/-- Three-point position test implies the first four-point range test. -/
theorem claim_fwd (v : Nat → Int) (u : Bool) (front start : Nat) (rest : List Nat) (m hf lf : Nat)
    (ha : AltR u ((front :: start :: rest).map v)) (hu : Uni ((front :: start :: rest).map v))
    (hn : Nest v (start :: rest)) (hl : (front :: start :: rest).getLast? = some 0)
    (hmax : IsMaxPos v m hf) (hmin : IsMinPos v m lf) (hfm : front < m)
    (hpos : max lf hf ≤ start) :
    ∃ a rest', rest = a :: rest' ∧ absDiff (v start) (v front) ≤ absDiff (v a) (v start) := by
  have h1 := hmax.2.1 front hfm
  have h2 := hmin.2.1 front hfm
  cases rest with
  | nil =>
    exfalso
    simp only [List.getLast?_cons_cons, List.getLast?_singleton, Option.some.injEq] at hl
    subst hl
    have e1 : lf = 0 := by omega
    have e2 : hf = 0 := by omega
    subst e1 e2
    simp only [List.map_cons, List.map_nil, AltR] at ha
    have := ha.1
    cases u <;> simp at this <;> omega
  | cons a rest' =>
    refine ⟨a, rest', rfl, ?_⟩
    by_contra hc
    have hinc := uni_inc (rest'.map v) (v front) (v start) (v a) (by simpa using hu) (by omega)
    simp only [List.map_cons] at ha
    have ha2 : AltR (!u) (v start :: v a :: rest'.map v) := ha.2
    have hb := hull_below v rest' (!u) start a (by simpa using ha2) (by simpa using hinc.2) hn
      (by simpa [List.getLast?_cons_cons] using hl)
    have b1 := hb lf (by omega)
    have b2 := hb hf (by omega)
    have ha1 := ha.1
    have ha3 := ha2.1
    unfold Btw at b1 b2
    unfold absDiff at hc
    cases u <;> simp at ha1 ha3 <;> omega

/-- What is known about the positions above the current front inside one `tpBack` run:
either there are none, or their values lie between the front and the start `upv` of the cycle
closed last, which itself lies between the front and the new point. -/
def WInv (v : Nat → Int) (k : Nat) (d : Int) (u : Bool) (ri : List Nat) (above : Option Int) : Prop :=
  match ri, above with
  | front :: _, none => front + 1 = k
  | front :: _, some upv =>
    (∀ i, front < i → i < k → Btw (v front) upv (v i)) ∧ Btw (v front) d upv ∧
      Uni (upv :: ri.map v) ∧ AltR u (upv :: ri.map v)
  | [], _ => False

/-- The four-point range test implies the three-point position test. -/
theorem claim_bwd (v : Nat → Int) (u : Bool) (k : Nat) (d : Int) (front start a : Nat)
    (rest : List Nat) (hf lf : Nat) (above : Option Int)
    (ha : AltR u (d :: (front :: start :: a :: rest).map v))
    (hn : Nest v (front :: start :: a :: rest))
    (hs1 : start < front) (hs2 : a < start)
    (hw : WInv v k d u (front :: start :: a :: rest) above)
    (hmax : IsMaxPos v k hf) (hmin : IsMinPos v k lf)
    (hc : absDiff (v start) (v front) ≤ absDiff (v a) (v start)) :
    max lf hf ≤ start := by
  simp only [List.map_cons, AltR] at ha
  obtain ⟨ha1, ha2, ha3, _⟩ := ha
  have hn1 := hn.1
  obtain ⟨hx1, hx2, hx3⟩ := hmax
  obtain ⟨hy1, hy2, hy3⟩ := hmin
  unfold absDiff at hc
  by_contra hcon
  have hcases : start < hf ∨ start < lf := by omega
  rcases hcases with hh | hh
  · have e1 := hx3 start hh
    have e2 := hx3 a (by omega)
    by_cases c1 : hf < front
    · have := hn1 hf hh c1
      unfold Btw at this
      cases u <;> simp at ha1 ha2 ha3 <;> omega
    · by_cases c2 : hf = front
      · subst c2
        cases u <;> simp at ha1 ha2 ha3 <;> omega
      · cases above with
        | none => simp only [WInv] at hw; omega
        | some upv =>
          simp only [WInv, List.map_cons] at hw
          obtain ⟨w1, _, w3, w4⟩ := hw
          have w1' := w1 hf (by omega) hx1
          have w3' := w3.1
          have w4' := w4.1
          unfold Btw at w1'
          unfold absDiff at w3'
          cases u <;> simp at ha1 ha2 ha3 w4' <;> omega
  · have e1 := hy3 start hh
    have e2 := hy3 a (by omega)
    by_cases c1 : lf < front
    · have := hn1 lf hh c1
      unfold Btw at this
      cases u <;> simp at ha1 ha2 ha3 <;> omega
    · by_cases c2 : lf = front
      · subst c2
        cases u <;> simp at ha1 ha2 ha3 <;> omega
      · cases above with
        | none => simp only [WInv] at hw; omega
        | some upv =>
          simp only [WInv, List.map_cons] at hw
          obtain ⟨w1, _, w3, w4⟩ := hw
          have w1' := w1 lf (by omega) hy1
          have w3' := w3.1
          have w4' := w4.1
          unfold Btw at w1'
          unfold absDiff at w3'
          cases u <;> simp at ha1 ha2 ha3 w4' <;> omega

theorem fpClose_pos' (c b a : Pt) (rest : List Pt) (d : Int)
    (h : absDiff b.2 c.2 ≤ absDiff a.2 b.2 ∧ absDiff b.2 c.2 ≤ absDiff c.2 d) :
    fpClose (c :: b :: a :: rest) d =
      ((b, c) :: (fpClose (a :: rest) d).1, (fpClose (a :: rest) d).2) := by
  rw [fpClose]; simp [h]

theorem fpClose_neg' (c b a : Pt) (rest : List Pt) (d : Int)
    (h : ¬ (absDiff b.2 c.2 ≤ absDiff a.2 b.2 ∧ absDiff b.2 c.2 ≤ absDiff c.2 d)) :
    fpClose (c :: b :: a :: rest) d = ([], c :: b :: a :: rest) := by
  rw [fpClose]; simp [h]

theorem fpClose_one (c : Pt) (d : Int) : fpClose [c] d = ([], [c]) := by
  rw [fpClose]; simp

theorem fpClose_two (c b : Pt) (d : Int) : fpClose [c, b] d = ([], [c, b]) := by
  rw [fpClose]; simp

theorem winv_nest (v : Nat → Int) (k : Nat) (d : Int) (u : Bool) (front : Nat) (r : List Nat)
    (above : Option Int) (hw : WInv v k d u (front :: r) above) :
    ∀ i, front < i → i < k → Btw (v front) d (v i) := by
  intro i h1 h2
  cases above with
  | none => simp only [WInv] at hw; omega
  | some upv =>
    simp only [WInv] at hw
    have a1 := hw.1 i h1 h2
    have a2 := hw.2.1
    unfold Btw at a1 a2 ⊢
    omega

/-- The closing loop of `tpBack` at position `k`, once the extreme positions `hf`, `lf` cover all
positions below `k`, does exactly what `fpClose` does on the corresponding stack of points. -/
theorem tpBack_inner (t : Array Int) (P : Nat → Pt) (k : Nat)
    (hP : ∀ i, i < k → (P i).2 = t[i]!) (u : Bool) (hf lf : Nat)
    (hmax : IsMaxPos (fun i => t[i]!) k hf) (hmin : IsMinPos (fun i => t[i]!) k lf) :
    ∀ (fuel : Nat) (ri : List Nat) (cyc : List (Nat × Nat)) (above : Option Int),
      ri.length / 2 + 1 ≤ fuel → ri.Pairwise (· > ·) → (∀ i ∈ ri, i < k) → ri.getLast? = some 0 →
      AltR u (t[k]! :: ri.map (fun i => t[i]!)) → Uni (ri.map (fun i => t[i]!)) →
      Nest (fun i => t[i]!) ri → WInv (fun i => t[i]!) k t[k]! u ri above →
      ∃ (ri' : List Nat) (cyc' : List (Nat × Nat)),
        tpBack t k fuel ⟨ri, hf, lf, cyc⟩ = ⟨k :: ri', hf, lf, cyc ++ cyc'⟩ ∧
        fpClose (ri.map P) t[k]! = (cyc'.map (fun c => (P c.1, P c.2)), ri'.map P) ∧
        Uni (t[k]! :: ri'.map (fun i => t[i]!)) ∧ Nest (fun i => t[i]!) (k :: ri') ∧
        ∃ pre, ri = pre ++ ri' := by
  intro fuel
  induction fuel with
  | zero => intro ri cyc above h; omega
  | succ fuel ih =>
    intro ri cyc above hfuel hsrt hbnd hlast ha hu hn hw
    match ri, hfuel, hsrt, hbnd, hlast, ha, hu, hn, hw with
    | [], _, _, _, hlast, _, _, _, _ => simp at hlast
    | [x], _, _, _, hlast, _, _, _, hw =>
      simp only [List.getLast?_singleton, Option.some.injEq] at hlast
      subst hlast
      refine ⟨[0], [], by simp [tpBack], by simp [fpClose_one], trivial, ?_, [], rfl⟩
      exact ⟨winv_nest _ k _ u 0 [] above hw, trivial⟩
    | front :: start :: rest, hfuel, hsrt, hbnd, hlast, ha, hu, hn, hw =>
      have hfk : front < k := hbnd front (by simp)
      have hsk : start < k := hbnd start (by simp)
      have hsf : start < front := by
        simp only [List.pairwise_cons] at hsrt
        exact hsrt.1 start (by simp)
      have c1 : ¬ t[front]! > t[hf]! := by have := hmax.2.1 front hfk; simp only at this; omega
      have c2 : ¬ t[front]! < t[lf]! := by have := hmin.2.1 front hfk; simp only at this; omega
      have hnestTop : Nest (fun i => t[i]!) (k :: front :: start :: rest) :=
        ⟨winv_nest _ k _ u front _ above hw, hn⟩
      have ha' : AltR (!u) ((front :: start :: rest).map (fun i => t[i]!)) := by
        simp only [List.map_cons, AltR] at ha ⊢
        exact ha.2
      simp only [tpBack, if_neg c1, if_neg c2]
      cases rest with
      | nil =>
        -- two residual positions: nothing can be closed
        have c3 : ¬ (start ≥ max lf hf ∧ absDiff t[k]! t[front]! ≥ absDiff t[front]! t[start]!) := by
          intro hc
          obtain ⟨a, r', h1, _⟩ := claim_fwd _ (!u) front start [] k hf lf ha' hu hn.2 hlast hmax hmin
            hfk hc.1
          simp at h1
        simp only [if_neg c3]
        exact ⟨[front, start], [], by simp, by simp [fpClose_two], trivial, hnestTop, [], rfl⟩
      | cons a rest' =>
        have hak : a < k := hbnd a (by simp)
        have has : a < start := by
          simp only [List.pairwise_cons] at hsrt
          exact hsrt.2.1 a (by simp)
        have hcond : (start ≥ max lf hf ∧ absDiff t[k]! t[front]! ≥ absDiff t[front]! t[start]!) ↔
            (absDiff (P start).2 (P front).2 ≤ absDiff (P a).2 (P start).2 ∧
              absDiff (P start).2 (P front).2 ≤ absDiff (P front).2 t[k]!) := by
          rw [hP front hfk, hP start hsk, hP a hak]
          have e1 : absDiff t[k]! t[front]! = absDiff t[front]! t[k]! := by unfold absDiff; omega
          have e2 : absDiff t[front]! t[start]! = absDiff t[start]! t[front]! := by unfold absDiff; omega
          rw [e1, e2]
          constructor
          · intro ⟨h1, h2⟩
            obtain ⟨a', r', h3, h4⟩ := claim_fwd _ (!u) front start (a :: rest') k hf lf ha' hu hn.2
              hlast hmax hmin hfk h1
            simp only [List.cons.injEq] at h3
            obtain ⟨rfl, _⟩ := h3
            exact ⟨h4, h2⟩
          · intro ⟨h1, h2⟩
            exact ⟨claim_bwd _ u k _ front start a rest' hf lf above ha hn hsf has hw hmax hmin h1, h2⟩
        by_cases hc : (start ≥ max lf hf ∧ absDiff t[k]! t[front]! ≥ absDiff t[front]! t[start]!)
        · -- both rules close (start, front)
          have hc4 := hcond.1 hc
          simp only [if_pos hc, List.map_cons]
          rw [fpClose_pos' _ _ _ _ _ hc4]
          have hc4' := hc4
          rw [hP front hfk, hP start hsk, hP a hak] at hc4'
          simp only [List.map_cons] at ha hu
          have hsrt' : (a :: rest').Pairwise (· > ·) := by
            simp only [List.pairwise_cons] at hsrt ⊢
            exact hsrt.2.2
          have haR : AltR u (t[k]! :: (a :: rest').map (fun i => t[i]!)) := by
            simp only [List.map_cons]
            apply altR_remove0 u _ _ _ _ _ ha
            have := hc.2
            unfold absDiff at this ⊢
            omega
          have hwR : WInv (fun i => t[i]!) k t[k]! u (a :: rest') (some t[start]!) := by
            simp only [WInv, List.map_cons]
            have z1 := ha.1
            have z2 := ha.2.1
            have z3 := ha.2.2.1
            have q1 := hc4'.1
            have q2 := hc4'.2
            unfold absDiff at q1 q2
            refine ⟨?_, ?_, uni_tail _ _ hu, ?_⟩
            · intro i hi1 hi2
              by_cases g1 : i < start
              · exact hn.2.1 i hi1 g1
              · by_cases g2 : i = start
                · subst g2; unfold Btw; omega
                · by_cases g3 : i < front
                  · have := hn.1 i (by omega) g3
                    unfold Btw at this ⊢
                    beta_reduce at this ⊢
                    cases u <;> simp at z1 z2 z3 <;> omega
                  · by_cases g4 : i = front
                    · subst g4
                      unfold Btw
                      cases u <;> simp at z1 z2 z3 <;> omega
                    · cases above with
                      | none => simp only [WInv] at hw; omega
                      | some upv =>
                        simp only [WInv, List.map_cons] at hw
                        obtain ⟨w1, _, w3, w4⟩ := hw
                        have w1' := w1 i (by omega) hi2
                        have w3' := w3.1
                        have w4' := w4.1
                        unfold Btw at w1' ⊢
                        unfold absDiff at w3'
                        beta_reduce at w1' w3' w4' ⊢
                        cases u <;> simp at z1 z2 z3 w4' <;> omega
            · unfold Btw
              cases u <;> simp at z1 z2 z3 <;> omega
            · have := ha.2.2
              simpa using this
          obtain ⟨ri', cyc'', r1, r2, r3, r4, pre, r5⟩ := ih (a :: rest') (cyc ++ [(start, front)])
            (some t[start]!) (by simp only [List.length_cons] at hfuel ⊢; omega) hsrt'
            (fun i hi => hbnd i (by simp [hi])) (by simpa [List.getLast?_cons_cons] using hlast)
            haR (uni_tail _ _ (uni_tail _ _ hu)) hn.2.2 hwR
          refine ⟨ri', (start, front) :: cyc'', ?_, ?_, r3, r4, front :: start :: pre, by simp [r5]⟩
          · rw [r1]; simp
          · simp only [List.map_cons] at r2
            rw [r2]; simp
        · -- neither rule closes
          have hc4 : ¬ _ := fun h => hc (hcond.2 h)
          simp only [if_neg hc, List.map_cons]
          rw [fpClose_neg' _ _ _ _ _ hc4]
          refine ⟨front :: start :: a :: rest', [], by simp, by simp, ?_, hnestTop, [], rfl⟩
          rw [hP front hfk, hP start hsk, hP a hak] at hc4
          exact ⟨hc4, hu⟩

/-- One full `tpBack` at position `k` (examination of the front `k-1` for a new extreme, then the
closing loop) against `fpClose`. -/
theorem tpBack_step (t : Array Int) (P : Nat → Pt) (k : Nat)
    (hP : ∀ i, i < k → (P i).2 = t[i]!) (u : Bool) (hf lf : Nat)
    (hext : (IsMaxPos (fun i => t[i]!) (k - 1) hf ∧ IsMinPos (fun i => t[i]!) (k - 1) lf) ∨
      (IsMaxPos (fun i => t[i]!) k hf ∧ IsMinPos (fun i => t[i]!) k lf))
    (fuel : Nat) (ri : List Nat) (cyc : List (Nat × Nat))
    (hfuel : ri.length / 2 + 1 ≤ fuel) (hsrt : ri.Pairwise (· > ·)) (hbnd : ∀ i ∈ ri, i < k)
    (htop : ∃ r, ri = (k - 1) :: r) (hk : 1 ≤ k)
    (hlast : ri.getLast? = some 0)
    (ha : AltR u (t[k]! :: ri.map (fun i => t[i]!))) (hu : Uni (ri.map (fun i => t[i]!)))
    (hn : Nest (fun i => t[i]!) ri) :
    ∃ (ri' : List Nat) (cyc' : List (Nat × Nat)) (hf' lf' : Nat),
      tpBack t k fuel ⟨ri, hf, lf, cyc⟩ = ⟨k :: ri', hf', lf', cyc ++ cyc'⟩ ∧
      fpClose (ri.map P) t[k]! = (cyc'.map (fun c => (P c.1, P c.2)), ri'.map P) ∧
      Uni (t[k]! :: ri'.map (fun i => t[i]!)) ∧ Nest (fun i => t[i]!) (k :: ri') ∧
      IsMaxPos (fun i => t[i]!) k hf' ∧ IsMinPos (fun i => t[i]!) k lf' ∧
      ∃ pre, ri = pre ++ ri' := by
  obtain ⟨r, hr⟩ := htop
  have hw : WInv (fun i => t[i]!) k t[k]! u ri none := by
    rw [hr]; simp only [WInv]; omega
  have inner : ∀ (hmax : IsMaxPos (fun i => t[i]!) k hf) (hmin : IsMinPos (fun i => t[i]!) k lf), _ :=
    fun hmax hmin => tpBack_inner t P k hP u hf lf hmax hmin fuel ri cyc none hfuel hsrt hbnd hlast
      ha hu hn hw
  rcases hext with ⟨hmax, hmin⟩ | ⟨hmax, hmin⟩
  · obtain ⟨hx1, hx2, hx3⟩ := hmax
    obtain ⟨hy1, hy2, hy3⟩ := hmin
    simp only at hx2 hx3 hy2 hy3
    have hlh : t[lf]! ≤ t[hf]! := hx2 lf hy1
    by_cases c1 : t[k - 1]! > t[hf]!
    · -- new highest front
      have hmax' : IsMaxPos (fun i => t[i]!) k (k - 1) := by
        refine ⟨by omega, ?_, ?_⟩
        · intro i hi
          simp only
          by_cases hi' : i < k - 1
          · have := hx2 i hi'; omega
          · have : i = k - 1 := by omega
            subst this; omega
        · intro i hi
          simp only
          have := hx2 i hi; omega
      have hmin' : IsMinPos (fun i => t[i]!) k lf := by
        refine ⟨by omega, ?_, hy3⟩
        intro i hi
        simp only
        by_cases hi' : i < k - 1
        · exact hy2 i hi'
        · have : i = k - 1 := by omega
          subst this; omega
      subst hr
      match r, hfuel, hlast, ha, hu, hn, hsrt, hbnd with
      | [], _, hlast, _, _, _, _, _ =>
        simp only [List.getLast?_singleton, Option.some.injEq] at hlast
        omega
      | [start], hfuel, _, _, _, hn, _, _ =>
        have : fuel = (fuel - 1) + 1 := by simp only [List.length_cons] at hfuel; omega
        rw [this]
        refine ⟨[k - 1, start], [], k - 1, lf, by simp [tpBack, c1], by simp [fpClose_two], trivial,
          ⟨?_, hn⟩, hmax', hmin', [], rfl⟩
        intro i h1 h2; omega
      | start :: a :: rest, hfuel, _, ha, hu, hn, hsrt, hbnd =>
        have : fuel = (fuel - 1) + 1 := by simp only [List.length_cons] at hfuel; omega
        rw [this]
        have hsk : start < k - 1 := by
          simp only [List.pairwise_cons] at hsrt
          exact hsrt.1 start (by simp)
        have hak : a < k - 1 := by
          simp only [List.pairwise_cons] at hsrt
          exact hsrt.1 a (by simp)
        have e1 := hx2 start hsk
        have e2 := hx2 a hak
        have hc4 : ¬ (absDiff (P start).2 (P (k - 1)).2 ≤ absDiff (P a).2 (P start).2 ∧
            absDiff (P start).2 (P (k - 1)).2 ≤ absDiff (P (k - 1)).2 t[k]!) := by
          rw [hP (k - 1) (by omega), hP start (by omega), hP a (by omega)]
          simp only [List.map_cons, AltR] at ha
          have z2 := ha.2.1
          have z3 := ha.2.2.1
          unfold absDiff
          cases u <;> simp at z2 z3 <;> omega
        refine ⟨(k - 1) :: start :: a :: rest, [], k - 1, lf, by simp [tpBack, c1],
          by simp [fpClose_neg' _ _ _ _ _ hc4], ?_, ⟨?_, hn⟩, hmax', hmin', [], rfl⟩
        · rw [hP (k - 1) (by omega), hP start (by omega), hP a (by omega)] at hc4
          exact ⟨hc4, hu⟩
        · intro i h1 h2; omega
    · by_cases c2 : t[k - 1]! < t[lf]!
      · -- new lowest front
        have hmin' : IsMinPos (fun i => t[i]!) k (k - 1) := by
          refine ⟨by omega, ?_, ?_⟩
          · intro i hi
            simp only
            by_cases hi' : i < k - 1
            · have := hy2 i hi'; omega
            · have : i = k - 1 := by omega
              subst this; omega
          · intro i hi
            simp only
            have := hy2 i hi; omega
        have hmax' : IsMaxPos (fun i => t[i]!) k hf := by
          refine ⟨by omega, ?_, hx3⟩
          intro i hi
          simp only
          by_cases hi' : i < k - 1
          · exact hx2 i hi'
          · have : i = k - 1 := by omega
            subst this; omega
        subst hr
        match r, hfuel, hlast, ha, hu, hn, hsrt, hbnd with
        | [], _, hlast, _, _, _, _, _ =>
          simp only [List.getLast?_singleton, Option.some.injEq] at hlast
          omega
        | [start], hfuel, _, _, _, hn, _, _ =>
          have : fuel = (fuel - 1) + 1 := by simp only [List.length_cons] at hfuel; omega
          rw [this]
          refine ⟨[k - 1, start], [], hf, k - 1, by simp [tpBack, c1, c2], by simp [fpClose_two],
            trivial, ⟨?_, hn⟩, hmax', hmin', [], rfl⟩
          intro i h1 h2; omega
        | start :: a :: rest, hfuel, _, ha, hu, hn, hsrt, hbnd =>
          have : fuel = (fuel - 1) + 1 := by simp only [List.length_cons] at hfuel; omega
          rw [this]
          have hsk : start < k - 1 := by
            simp only [List.pairwise_cons] at hsrt
            exact hsrt.1 start (by simp)
          have hak : a < k - 1 := by
            simp only [List.pairwise_cons] at hsrt
            exact hsrt.1 a (by simp)
          have e1 := hy2 start hsk
          have e2 := hy2 a hak
          have hc4 : ¬ (absDiff (P start).2 (P (k - 1)).2 ≤ absDiff (P a).2 (P start).2 ∧
              absDiff (P start).2 (P (k - 1)).2 ≤ absDiff (P (k - 1)).2 t[k]!) := by
            rw [hP (k - 1) (by omega), hP start (by omega), hP a (by omega)]
            simp only [List.map_cons, AltR] at ha
            have z2 := ha.2.1
            have z3 := ha.2.2.1
            unfold absDiff
            cases u <;> simp at z2 z3 <;> omega
          refine ⟨(k - 1) :: start :: a :: rest, [], hf, k - 1, by simp [tpBack, c1, c2],
            by simp [fpClose_neg' _ _ _ _ _ hc4], ?_, ⟨?_, hn⟩, hmax', hmin', [], rfl⟩
          · rw [hP (k - 1) (by omega), hP start (by omega), hP a (by omega)] at hc4
            exact ⟨hc4, hu⟩
          · intro i h1 h2; omega
      · -- no new extreme
        have hmax' : IsMaxPos (fun i => t[i]!) k hf := by
          refine ⟨by omega, ?_, hx3⟩
          intro i hi
          simp only
          by_cases hi' : i < k - 1
          · exact hx2 i hi'
          · have : i = k - 1 := by omega
            subst this; omega
        have hmin' : IsMinPos (fun i => t[i]!) k lf := by
          refine ⟨by omega, ?_, hy3⟩
          intro i hi
          simp only
          by_cases hi' : i < k - 1
          · exact hy2 i hi'
          · have : i = k - 1 := by omega
            subst this; omega
        obtain ⟨ri', cyc', h1, h2, h3, h4, h5⟩ := inner hmax' hmin'
        exact ⟨ri', cyc', hf, lf, h1, h2, h3, h4, hmax', hmin', h5⟩
  · obtain ⟨ri', cyc', h1, h2, h3, h4, h5⟩ := inner hmax hmin
    exact ⟨ri', cyc', hf, lf, h1, h2, h3, h4, hmax, hmin, h5⟩

theorem altR_drop (pre l : List Int) : ∀ u, AltR u (pre ++ l) → ∃ u', AltR u' l := by
  induction pre with
  | nil => intro u h; exact ⟨u, h⟩
  | cons p pre ih =>
    intro u h
    cases hpl : pre ++ l with
    | nil =>
      have : l = [] := by
        cases pre <;> simp_all
      exact ⟨u, by rw [this]; trivial⟩
    | cons q r =>
      rw [List.cons_append, hpl] at h
      exact ih (!u) (by rw [hpl]; exact h.2)

/-- Invariant of the three-point loop before position `k` is processed (`vl`: all values,
oldest first). -/
structure Stage (vl : List Int) (k : Nat) (L : TpLoop) : Prop where
  srt : L.ri.Pairwise (· > ·)
  bnd : ∀ i ∈ L.ri, i < k
  top : ∃ r, L.ri = (k - 1) :: r
  last : L.ri.getLast? = some 0
  alt : ∃ u, AltR u (futRev vl k ++ L.ri.map (fun i => vl.toArray[i]!))
  uni : Uni (L.ri.map (fun i => vl.toArray[i]!))
  nest : Nest (fun i => vl.toArray[i]!) L.ri
  ext : (IsMaxPos (fun i => vl.toArray[i]!) (k - 1) L.hf ∧ IsMinPos (fun i => vl.toArray[i]!) (k - 1) L.lf) ∨
      (IsMaxPos (fun i => vl.toArray[i]!) k L.hf ∧ IsMinPos (fun i => vl.toArray[i]!) k L.lf)

theorem stage_step (vl : List Int) (P : Nat → Pt) (k : Nat) (hk1 : 1 ≤ k) (hkN : k < vl.length)
    (hP : ∀ i, i < k → (P i).2 = vl.toArray[i]!) (L : TpLoop) (hS : Stage vl k L) :
    ∃ (ri' : List Nat) (cyc' : List (Nat × Nat)),
      (tpBack vl.toArray k (L.ri.length / 2 + 1) L).ri = k :: ri' ∧
      (tpBack vl.toArray k (L.ri.length / 2 + 1) L).cycles = L.cycles ++ cyc' ∧
      fpClose (L.ri.map P) vl.toArray[k]! = (cyc'.map (fun c => (P c.1, P c.2)), ri'.map P) ∧
      Stage vl (k + 1) (tpBack vl.toArray k (L.ri.length / 2 + 1) L) := by
  obtain ⟨hsrt, hbnd, htop, hlast, ⟨u, halt⟩, huni, hnest, hext⟩ := hS
  rw [futRev_succ vl k hkN, List.append_assoc, List.singleton_append] at halt
  obtain ⟨u', halt'⟩ := altR_drop _ _ u halt
  obtain ⟨ri, hf, lf, cyc⟩ := L
  simp only at hsrt hbnd htop hlast halt huni hnest hext halt'
  obtain ⟨ri', cyc', hf', lf', e1, e2, e3, e4, e5, e6, pre, e7⟩ :=
    tpBack_step vl.toArray P k hP u' hf lf hext (ri.length / 2 + 1) ri cyc (Nat.le_refl _) hsrt hbnd
      htop hk1 hlast halt' huni hnest
  obtain ⟨a1, a2⟩ := tpBack_alt vl.toArray k (futRev vl (k + 1)) u (ri.length / 2 + 1)
    ⟨ri, hf, lf, cyc⟩ halt hlast
  have hsub : ri'.Sublist ri := by rw [e7]; exact List.sublist_append_right _ _
  refine ⟨ri', cyc', by rw [e1], by rw [e1], e2, ?_⟩
  simp only at a1 a2 ⊢
  rw [e1] at a1 a2 ⊢
  exact {
    srt := by
      simp only [List.pairwise_cons]
      exact ⟨fun i hi => hbnd i (hsub.subset hi), hsrt.sublist hsub⟩
    bnd := by
      intro i hi
      simp only [List.mem_cons] at hi
      rcases hi with rfl | hi
      · omega
      · have := hbnd i (hsub.subset hi); omega
    top := ⟨ri', by simp⟩
    last := a2
    alt := ⟨u, a1⟩
    uni := by simpa using e3
    nest := e4
    ext := Or.inl (by rw [Nat.add_sub_cancel]; exact ⟨e5, e6⟩) }

/-- position cycle to point cycle -/
def posCyc (P : Nat → Pt) (c : Nat × Nat) : Cycle := (P c.1, P c.2)

/-- Processing the turn positions `k0, …, k0+j-1` with the three-point loop is `fpFeed` on the
corresponding points. -/
theorem main_fold (vl : List Int) (P : Nat → Pt)
    (hP : ∀ i, i + 1 < vl.length → (P i).2 = vl.toArray[i]!) :
    ∀ (j k0 : Nat) (L : TpLoop), 2 ≤ k0 → k0 + j < vl.length → Stage vl k0 L →
      Stage vl (k0 + j) ((List.range' (k0 - 2) j).foldl (tpStep vl.toArray) L) ∧
      ((List.range' (k0 - 2) j).foldl (tpStep vl.toArray) L).ri.map P =
        (fpFeed (L.ri.map P) ((List.range' k0 j).map P)).2 ∧
      ((List.range' (k0 - 2) j).foldl (tpStep vl.toArray) L).cycles.map (posCyc P) =
        L.cycles.map (posCyc P) ++ (fpFeed (L.ri.map P) ((List.range' k0 j).map P)).1 := by
  intro j
  induction j with
  | zero => intro k0 L _ _ hS; simpa [fpFeed] using hS
  | succ j ih =>
    intro k0 L hk0 hlen hS
    simp only [List.range'_succ, List.foldl_cons, List.map_cons, fpFeed, fpPush]
    have hstep : tpStep vl.toArray L (k0 - 2) = tpBack vl.toArray k0 (L.ri.length / 2 + 1) L := by
      unfold tpStep
      have : k0 - 2 + 2 = k0 := by omega
      rw [this]
    obtain ⟨ri', cyc', e1, e2, e3, e4⟩ := stage_step vl P k0 (by omega) (by omega)
      (fun i hi => hP i (by omega)) L hS
    rw [← hstep] at e1 e2 e4
    have hk : k0 - 2 + 1 = (k0 + 1) - 2 := by omega
    obtain ⟨i1, i2, i3⟩ := ih (k0 + 1) (tpStep vl.toArray L (k0 - 2)) (by omega) (by omega) e4
    rw [hk]
    have hPk : (P k0).2 = vl.toArray[k0]! := hP k0 (by omega)
    have hst : (tpStep vl.toArray L (k0 - 2)).ri.map P =
        P k0 :: (fpClose (L.ri.map P) (P k0).2).2 := by
      rw [e1, hPk, e3]; rfl
    rw [hst] at i2 i3
    refine ⟨by rw [show k0 + (j + 1) = k0 + 1 + j by omega]; exact i1, i2, ?_⟩
    rw [i3, e2, hPk, e3]
    simp [posCyc, List.map_append]

theorem amFold_first (l : List Int) : ∀ (k : Nat) (acc : Option (Int × Nat)),
    (∀ a, acc = some a → a.2 < k) → (acc ≠ none ∨ l ≠ []) →
    ∃ r, (l.zipIdx k).foldl amStep acc = some r ∧
      (∀ x i, (x, i) ∈ l.zipIdx k → i < r.2 → x < r.1) ∧
      (∀ a, acc = some a → r = a ∨ a.1 < r.1) := by
  induction l with
  | nil =>
    intro k acc _ h
    cases acc with
    | none => simp at h
    | some a => exact ⟨a, rfl, by simp, fun b hb => by cases hb; exact Or.inl rfl⟩
  | cons x xs ih =>
    intro k acc hacc _
    simp only [List.zipIdx_cons, List.foldl_cons]
    cases acc with
    | none =>
      obtain ⟨r, h1, h2, h3⟩ := ih (k + 1) (some (x, k)) (by intro a ha; cases ha; simp) (Or.inl (by simp))
      refine ⟨r, h1, ?_, by simp⟩
      intro y i hy hi
      simp only [List.mem_cons, Prod.mk.injEq] at hy
      rcases hy with ⟨rfl, rfl⟩ | hy
      · rcases h3 _ rfl with h | h
        · subst h; simp at hi
        · exact h
      · exact h2 y i hy hi
    | some a =>
      have hak : a.2 < k := hacc a rfl
      by_cases c : x > a.1
      · obtain ⟨r, h1, h2, h3⟩ := ih (k + 1) (some (x, k)) (by intro a ha; cases ha; simp) (Or.inl (by simp))
        refine ⟨r, by simpa [amStep, c] using h1, ?_, ?_⟩
        · intro y i hy hi
          simp only [List.mem_cons, Prod.mk.injEq] at hy
          rcases hy with ⟨rfl, rfl⟩ | hy
          · rcases h3 _ rfl with h | h
            · subst h; simp at hi
            · exact h
          · exact h2 y i hy hi
        · intro b hb; cases hb
          rcases h3 _ rfl with h | h
          · subst h; exact Or.inr c
          · simp only at h; exact Or.inr (by omega)
      · obtain ⟨r, h1, h2, h3⟩ := ih (k + 1) (some a) (by intro b hb; cases hb; omega) (Or.inl (by simp))
        refine ⟨r, by simpa [amStep, c] using h1, ?_, h3⟩
        intro y i hy hi
        simp only [List.mem_cons, Prod.mk.injEq] at hy
        rcases hy with ⟨rfl, rfl⟩ | hy
        · rcases h3 _ rfl with h | h
          · subst h; omega
          · omega
        · exact h2 y i hy hi

theorem argmax_first (l : List Int) (i : Nat) (hi : i < argmax l) : l[i]! < l[argmax l]! := by
  by_cases hl : l = []
  · subst hl; simp [argmax] at hi
  obtain ⟨r, h1, h2, _⟩ := amFold_first l 0 none (by simp) (Or.inr hl)
  obtain ⟨hlt, _⟩ := argmax_spec l hl
  obtain ⟨r', h1', h2', _, _⟩ := amFold_spec l.zipIdx none (Or.inr (by simpa using hl))
  rw [h1] at h1'
  cases h1'
  have hr : r ∈ l.zipIdx := by
    rcases h2' with h | h
    · cases h
    · exact h
  obtain ⟨v, j⟩ := r
  obtain ⟨_, hj, hv⟩ := List.mem_zipIdx hr
  have ha : argmax l = j := by simp [argmax_eq, h1]
  rw [ha] at hi ⊢
  simp only [Nat.zero_add, Nat.sub_zero] at hj hv
  have hil : i < l.length := by omega
  have hmem : (l[i], i) ∈ l.zipIdx := by
    rw [List.mem_zipIdx_iff_getElem?]; simp [hil]
  have := h2 _ _ hmem hi
  simp only at this
  simpa [hil, hj, ← hv] using this

theorem isMaxPos_argmax (l rest : List Int) (hl : l ≠ []) :
    IsMaxPos (fun i => (l ++ rest).toArray[i]!) l.length (argmax l) := by
  obtain ⟨h1, h2⟩ := argmax_spec l hl
  refine ⟨h1, ?_, ?_⟩
  · intro i hi
    simp only
    rw [vals_prefix_get! l rest i hi, vals_prefix_get! l rest _ h1]
    apply h2
    simp [hi]
  · intro i hi
    simp only
    rw [vals_prefix_get! l rest i (by omega), vals_prefix_get! l rest _ h1]
    exact argmax_first l i hi

theorem isMinPos_argmin (l rest : List Int) (hl : l ≠ []) :
    IsMinPos (fun i => (l ++ rest).toArray[i]!) l.length (argmin l) := by
  have hl' : l.map (fun x => -x) ≠ [] := by simpa using hl
  obtain ⟨h1, h2⟩ := argmax_spec _ hl'
  have h3 := argmax_first (l.map (fun x => -x))
  simp only [List.length_map] at h1
  have e : argmax (l.map fun x => -x) = argmin l := rfl
  rw [e] at h1 h2 h3
  have hneg : ∀ i, i < l.length → (l.map (fun x => -x))[i]! = - l[i]! := by
    intro i hi; simp [hi]
  refine ⟨h1, ?_, ?_⟩
  · intro i hi
    simp only
    rw [vals_prefix_get! l rest i hi, vals_prefix_get! l rest _ h1]
    have := h2 (-l[i]!) (by simp only [List.mem_map]; exact ⟨l[i]!, by simp [hi], rfl⟩)
    rw [hneg _ h1] at this
    omega
  · intro i hi
    simp only
    rw [vals_prefix_get! l rest i (by omega), vals_prefix_get! l rest _ h1]
    have := h3 i hi
    rw [hneg _ h1, hneg i (by omega)] at this
    omega

/-- positions `m-1, …, 0` -/
def downTo (m : Nat) : List Nat := (List.range m).reverse

theorem downTo_succ (m : Nat) : downTo (m + 1) = m :: downTo m := by
  simp [downTo, List.range_succ]

theorem downTo_last (m : Nat) (hm : 1 ≤ m) : (downTo m).getLast? = some 0 := by
  obtain ⟨m', rfl⟩ : ∃ m', m = m' + 1 := ⟨m - 1, by omega⟩
  simp [downTo, List.getLast?_reverse, List.range_succ_eq_map]

theorem downTo_mem (m i : Nat) : i ∈ downTo m ↔ i < m := by simp [downTo]

theorem downTo_srt (m : Nat) : (downTo m).Pairwise (· > ·) := by
  induction m with
  | zero => simp [downTo]
  | succ m ih =>
    rw [downTo_succ, List.pairwise_cons]
    exact ⟨fun i hi => (downTo_mem m i).1 hi, ih⟩

theorem nest_downTo (v : Nat → Int) (m : Nat) : Nest v (downTo m) := by
  induction m with
  | zero => simp [downTo, Nest]
  | succ m ih =>
    rw [downTo_succ]
    cases m with
    | zero => simp [downTo, Nest]
    | succ m' =>
      rw [downTo_succ] at ih ⊢
      exact ⟨fun i h1 h2 => by omega, ih⟩

/-- Re-scanning a stored residual position `k` (all positions below are residual positions, the
extreme positions refer to the whole stored residual) closes nothing. -/
theorem rescan_step (t : Array Int) (k n hf lf : Nat) (cyc : List (Nat × Nat)) (fuel : Nat) (u : Bool)
    (hk : 2 ≤ k) (hkn : k < n)
    (hmax : IsMaxPos (fun i => t[i]!) n hf) (hmin : IsMinPos (fun i => t[i]!) n lf)
    (ha : AltR u ((downTo (k + 1)).map (fun i => t[i]!)))
    (hu : Uni ((downTo (k + 1)).map (fun i => t[i]!))) :
    tpBack t k fuel ⟨downTo k, hf, lf, cyc⟩ = ⟨downTo (k + 1), hf, lf, cyc⟩ := by
  cases fuel with
  | zero => simp [tpBack, downTo_succ]
  | succ fuel =>
    obtain ⟨k', rfl⟩ : ∃ k', k = k' + 2 := ⟨k - 2, by omega⟩
    rw [downTo_succ (k' + 2), downTo_succ (k' + 1), downTo_succ k'] at ha hu ⊢
    have c1 : ¬ t[k' + 1]! > t[hf]! := by have := hmax.2.1 (k' + 1) (by omega); simp only at this; omega
    have c2 : ¬ t[k' + 1]! < t[lf]! := by have := hmin.2.1 (k' + 1) (by omega); simp only at this; omega
    have c3 : ¬ (k' ≥ max lf hf ∧ absDiff t[k' + 2]! t[k' + 1]! ≥ absDiff t[k' + 1]! t[k']!) := by
      intro hc
      simp only [List.map_cons] at ha hu
      have hlast : ((k' + 1) :: k' :: downTo k').getLast? = some 0 := by
        have := downTo_last (k' + 2) (by omega)
        rwa [downTo_succ, downTo_succ] at this
      have hnest : Nest (fun i => t[i]!) (k' :: downTo k') := by
        have := nest_downTo (fun i => t[i]!) (k' + 1)
        rwa [downTo_succ] at this
      obtain ⟨a, r', h1, h2⟩ := claim_fwd (fun i => t[i]!) (!u) (k' + 1) k' (downTo k') n hf lf
        (by simpa using ha.2) (by simpa using uni_tail _ _ hu) hnest hlast hmax hmin (by omega) hc.1
      rw [h1] at hu
      simp only [List.map_cons] at hu
      have hu1 := hu.1
      apply hu1
      refine ⟨h2, ?_⟩
      have := hc.2
      unfold absDiff at this ⊢
      omega
    simp only [tpBack, if_neg c1, if_neg c2, if_neg c3]

theorem uni_drop (pre l : List Int) (h : Uni (pre ++ l)) : Uni l := by
  induction pre with
  | nil => exact h
  | cons p pre ih => exact ih (uni_tail p _ h)

theorem downTo_add (m j : Nat) : downTo (m + j) = (List.range' m j).reverse ++ downTo m := by
  induction j with
  | zero => simp
  | succ j ih =>
    rw [← Nat.add_assoc, downTo_succ, ih, List.range'_concat]
    simp

/-- From a stage `k0` on, the remaining loop is `fpFeed` on the remaining turn points followed by
`fpClose` with the last value. -/
theorem loop_from_stage (vl : List Int) (P : Nat → Pt)
    (hP : ∀ i, i + 1 < vl.length → (P i).2 = vl.toArray[i]!)
    (k0 : Nat) (h2 : 2 ≤ k0) (hk : k0 + 1 ≤ vl.length) (L0 : TpLoop) (hS : Stage vl k0 L0) :
    let Lf := (List.range' (k0 - 2) (vl.length - k0)).foldl (tpStep vl.toArray) L0
    let r := fpFeed (L0.ri.map P) ((List.range' k0 (vl.length - 1 - k0)).map P)
    let r2 := fpClose r.2 vl.toArray[vl.length - 1]!
    Lf.cycles.map (posCyc P) = L0.cycles.map (posCyc P) ++ r.1 ++ r2.1 ∧
      (Lf.ri.drop 1).map P = r2.2 ∧ Stage vl vl.length Lf := by
  intro Lf r r2
  have hsplit : List.range' (k0 - 2) (vl.length - k0) =
      List.range' (k0 - 2) (vl.length - 1 - k0) ++ [vl.length - 3] := by
    have : vl.length - k0 = (vl.length - 1 - k0) + 1 := by omega
    rw [this, List.range'_concat]
    congr 2
    omega
  obtain ⟨m1, m2, m3⟩ := main_fold vl P hP (vl.length - 1 - k0) k0 L0 h2 (by omega) hS
  have hk1 : k0 + (vl.length - 1 - k0) = vl.length - 1 := by omega
  rw [hk1] at m1
  have hLf : Lf = tpBack vl.toArray (vl.length - 1)
      (((List.range' (k0 - 2) (vl.length - 1 - k0)).foldl (tpStep vl.toArray) L0).ri.length / 2 + 1)
      ((List.range' (k0 - 2) (vl.length - 1 - k0)).foldl (tpStep vl.toArray) L0) := by
    show (List.range' (k0 - 2) (vl.length - k0)).foldl (tpStep vl.toArray) L0 = _
    rw [hsplit, List.foldl_append]
    simp only [List.foldl_cons, List.foldl_nil, tpStep]
    have : vl.length - 3 + 2 = vl.length - 1 := by omega
    rw [this]
  obtain ⟨ri', cyc', e1, e2, e3, e4⟩ := stage_step vl P (vl.length - 1) (by omega) (by omega)
    (fun i hi => hP i (by omega)) _ m1
  rw [← hLf] at e1 e2 e4
  have hN : vl.length - 1 + 1 = vl.length := by omega
  rw [hN] at e4
  refine ⟨?_, ?_, e4⟩
  · rw [e2, List.map_append, m3]
    show _ = _ ++ r.1 ++ (fpClose r.2 _).1
    rw [show r.2 = _ from m2.symm, e3]
    rfl
  · rw [e1]
    show _ = (fpClose r.2 _).2
    rw [show r.2 = _ from m2.symm, e3]
    rfl

theorem rescan_fold (t : Array Int) (n hf lf : Nat) (u : Bool)
    (hmax : IsMaxPos (fun i => t[i]!) n hf) (hmin : IsMinPos (fun i => t[i]!) n lf)
    (ha : AltR u ((downTo n).map (fun i => t[i]!)))
    (hu : Uni ((downTo n).map (fun i => t[i]!))) :
    ∀ j, j + 2 ≤ n →
      (List.range j).foldl (tpStep t) (tpInit hf lf) = ⟨downTo (j + 2), hf, lf, []⟩ := by
  intro j
  induction j with
  | zero => intro _; rfl
  | succ j ih =>
    intro hj
    rw [List.range_succ, List.foldl_append, ih (by omega)]
    simp only [List.foldl_cons, List.foldl_nil, tpStep]
    have hsplit : downTo n = (List.range' (j + 2 + 1) (n - (j + 2 + 1))).reverse ++ downTo (j + 2 + 1) := by
      rw [← downTo_add]; congr 1; omega
    rw [hsplit, List.map_append] at ha hu
    obtain ⟨u', ha'⟩ := altR_drop _ _ u ha
    exact rescan_step t (j + 2) n hf lf [] _ u' (by omega) (by omega) hmax hmin ha' (uni_drop _ _ hu)

theorem stage_rescan (vl : List Int) (n hf lf : Nat) (u : Bool) (hn : 2 ≤ n) (hnN : n ≤ vl.length)
    (hmax : IsMaxPos (fun i => vl.toArray[i]!) n hf) (hmin : IsMinPos (fun i => vl.toArray[i]!) n lf)
    (ha : AltR u vl.reverse) (hu : Uni ((downTo n).map (fun i => vl.toArray[i]!))) :
    (List.range (n - 2)).foldl (tpStep vl.toArray) (tpInit hf lf) = ⟨downTo n, hf, lf, []⟩ ∧
      Stage vl n ⟨downTo n, hf, lf, []⟩ := by
  obtain ⟨f1, f2⟩ := tpFold_alt vl u ha (by omega) hf lf (n - 2) (by omega)
  have hn2 : n - 2 + 2 = n := by omega
  rw [hn2] at f1
  have ha' : ∃ u', AltR u' ((downTo n).map (fun i => vl.toArray[i]!)) := by
    have h0 := tpFold_alt vl u ha (by omega) hf lf 0 (by omega)
    -- values of all positions, newest first
    have hall : vl.reverse = futRev vl n ++ (downTo n).map (fun i => vl.toArray[i]!) := by
      have e := range_map_get! vl
      have hsp : List.range' 0 vl.length = List.range' 0 n ++ List.range' n (vl.length - n) := by
        have := List.range'_append (s := 0) (m := n) (n := vl.length - n) (step := 1)
        simp only [Nat.zero_add, Nat.one_mul] at this
        rw [this]; congr 1; omega
      rw [hsp, List.map_append] at e
      conv_lhs => rw [← e]
      simp [futRev, downTo, List.range_eq_range']
    rw [hall] at ha
    exact altR_drop _ _ u ha
  obtain ⟨u', ha'⟩ := ha'
  have hfold := rescan_fold vl.toArray n hf lf u' hmax hmin ha' hu (n - 2) (by omega)
  rw [hn2] at hfold
  rw [hfold] at f1 f2
  refine ⟨hfold, ?_⟩
  obtain ⟨n', rfl⟩ : ∃ n', n = n' + 1 := ⟨n - 1, by omega⟩
  exact {
    srt := downTo_srt _
    bnd := fun i hi => (downTo_mem _ i).1 hi
    top := ⟨downTo n', by simp [downTo_succ]⟩
    last := downTo_last _ (by omega)
    alt := ⟨u, f1⟩
    uni := hu
    nest := nest_downTo _ _
    ext := Or.inr ⟨hmax, hmin⟩ }

theorem stage_init1 (vl : List Int) (u : Bool) (h3 : 3 ≤ vl.length) (ha : AltR u vl.reverse) :
    Stage vl 2 (tpInit 0 0) := by
  obtain ⟨f1, f2⟩ := tpFold_alt vl u ha (by omega) 0 0 0 (by omega)
  simp only [List.range_zero, List.foldl_nil] at f1 f2
  exact {
    srt := by simp [tpInit]
    bnd := by intro i hi; simp [tpInit] at hi; omega
    top := ⟨[0], rfl⟩
    last := rfl
    alt := ⟨u, f1⟩
    uni := trivial
    nest := ⟨fun i h1 h2 => by omega, trivial⟩
    ext := by
      have h1 : IsMaxPos (fun i => vl.toArray[i]!) (2 - 1) 0 := by
        refine ⟨by omega, ?_, fun i hi => by omega⟩
        intro i hi
        have : i = 0 := by omega
        subst this; simp
      have h2 : IsMinPos (fun i => vl.toArray[i]!) (2 - 1) 0 := by
        refine ⟨by omega, ?_, fun i hi => by omega⟩
        intro i hi
        have : i = 0 := by omega
        subst this; simp
      exact Or.inl ⟨h1, h2⟩ }

theorem range'_map_get! {α : Type} [Inhabited α] (pre l post : List α) :
    (List.range' pre.length l.length).map (fun i => (pre ++ l ++ post).toArray[i]!) = l := by
  apply List.ext_getElem
  · simp
  · intro i h1 h2
    simp only [List.length_map, List.length_range'] at h1
    simp only [List.getElem_map, List.getElem_range', Nat.one_mul, List.getElem!_toArray,
      List.getElem!_eq_getElem?_getD]
    rw [List.append_assoc, List.getElem?_append_right (by omega)]
    simp only [Nat.add_sub_cancel_left]
    rw [List.getElem?_append_left h1, List.getElem?_eq_getElem h1]
    rfl

theorem tpCore_eq_fp (base turns : List Pt) (d : Int) (hb : base ≠ []) (u : Bool)
    (halt : AltR u (d :: (turns.reverse.map (·.2) ++ base.reverse.map (·.2))))
    (huni : Uni (base.reverse.map (·.2))) :
    tpCore base turns d =
        ((fpFeed base.reverse turns).1 ++ (fpClose (fpFeed base.reverse turns).2 d).1,
         (fpClose (fpFeed base.reverse turns).2 d).2) ∧
      Uni (d :: (tpCore base turns d).2.map (·.2)) := by
  unfold tpCore
  simp only []
  generalize hvl : (base ++ turns).map (·.2) ++ [d] = vl
  generalize hPdef : (fun (i : Nat) => (base ++ turns).toArray[i]!) = P
  have hPa : ∀ i : Nat, (base ++ turns).toArray[i]! = P i := fun i => by rw [← hPdef]
  simp only [hPa]
  have hrev : vl.reverse = d :: (turns.reverse.map (·.2) ++ base.reverse.map (·.2)) := by
    rw [← hvl]; simp
  have hlen : vl.length = base.length + turns.length + 1 := by rw [← hvl]; simp; omega
  have hbl : 1 ≤ base.length := List.length_pos_iff.mpr hb
  have hP : ∀ i, i + 1 < vl.length → (P i).2 = vl.toArray[i]! := by
    intro i hi
    have hi2 : i < (base ++ turns).length := by simp; omega
    have hi3 : i < ((base ++ turns).map (·.2)).length := by simpa using hi2
    rw [← hvl, ← hPdef]
    simp only [List.getElem!_toArray, List.getElem!_eq_getElem?_getD]
    rw [List.getElem?_append_left hi3, List.getElem?_map, List.getElem?_eq_getElem hi2]
    rfl
  have hlastv : vl.toArray[vl.length - 1]! = d := by rw [← hvl]; simp
  have hPbase : (downTo base.length).map P = base.reverse := by
    have := range'_map_get! [] base turns
    simp only [List.length_nil, List.nil_append] at this
    rw [← hPdef, downTo, List.map_reverse, List.range_eq_range', this]
  have hPturns : (List.range' base.length turns.length).map P = turns := by
    have := range'_map_get! base turns []
    simp only [List.append_nil] at this
    rw [← hPdef]; exact this
  have hvbase : (downTo base.length).map (fun i => vl.toArray[i]!) = base.reverse.map (·.2) := by
    have := range'_map_get! [] (base.map (·.2)) (turns.map (·.2) ++ [d])
    simp only [List.length_nil, List.nil_append, List.length_map] at this
    rw [← hvl, downTo, List.map_reverse, List.range_eq_range']
    simp only [List.map_append, List.append_assoc] at this ⊢
    rw [this, List.map_reverse]
  have haltv : AltR u vl.reverse := by rw [hrev]; exact halt
  -- the common final part
  have fin : ∀ (k0 : Nat) (L0 : TpLoop), 2 ≤ k0 → k0 + 1 ≤ vl.length → Stage vl k0 L0 →
      L0.cycles = [] →
      (List.range (k0 - 2)).foldl (tpStep vl.toArray) (tpInit (argmax (base.map (·.2))) (argmin (base.map (·.2)))) = L0 →
      fpFeed (L0.ri.map P) ((List.range' k0 (vl.length - 1 - k0)).map P) = fpFeed base.reverse turns →
      ((tpLoop vl.toArray (argmax (base.map (·.2))) (argmin (base.map (·.2)))).cycles.map
          (fun x => (P x.1, P x.2)),
        ((tpLoop vl.toArray (argmax (base.map (·.2))) (argmin (base.map (·.2)))).ri.drop 1).map P) =
        ((fpFeed base.reverse turns).1 ++ (fpClose (fpFeed base.reverse turns).2 d).1,
          (fpClose (fpFeed base.reverse turns).2 d).2) ∧
      Uni (d :: (((tpLoop vl.toArray (argmax (base.map (·.2))) (argmin (base.map (·.2)))).ri.drop 1).map P).map (·.2)) := by
    intro k0 L0 h2 hk hS hc0 hfold hfeed
    obtain ⟨r1, r2, r3⟩ := loop_from_stage vl P hP k0 h2 hk L0 hS
    have hloop : tpLoop vl.toArray (argmax (base.map (·.2))) (argmin (base.map (·.2))) =
        (List.range' (k0 - 2) (vl.length - k0)).foldl (tpStep vl.toArray) L0 := by
      rw [tpLoop_eq, ← hfold, ← List.foldl_append, List.range_eq_range', List.range_eq_range']
      simp only [List.size_toArray]
      have := List.range'_append (s := 0) (m := k0 - 2) (n := vl.length - k0) (step := 1)
      simp only [Nat.zero_add, Nat.one_mul] at this
      rw [this]; congr 2; omega
    rw [hfeed, hlastv, hc0] at r1
    rw [hfeed, hlastv] at r2
    rw [hloop]
    have hpc : posCyc P = fun x => (P x.1, P x.2) := rfl
    rw [hpc] at r1
    refine ⟨Prod.ext ?_ r2, ?_⟩
    · simpa using r1
    · have hu := r3.uni
      obtain ⟨r, hr⟩ := r3.top
      have hbnd := r3.bnd
      have hsrt := r3.srt
      rw [hr] at hu hbnd hsrt ⊢
      simp only [List.drop_one, List.tail_cons, List.map_cons, List.map_map] at hu ⊢
      rw [hlastv] at hu
      have : r.map (fun i => vl.toArray[i]!) = r.map ((·.2) ∘ P) := by
        apply List.map_congr_left
        intro i hi
        simp only [List.pairwise_cons] at hsrt
        have := hsrt.1 i hi
        simp only [Function.comp]
        exact (hP i (by omega)).symm
      rw [← this]; exact hu
  by_cases hn2 : 2 ≤ base.length
  · -- a stored residual with at least two points is re-scanned first
    have hmax := isMaxPos_argmax (base.map (·.2)) (turns.map (·.2) ++ [d]) (by simpa using hb)
    have hmin := isMinPos_argmin (base.map (·.2)) (turns.map (·.2) ++ [d]) (by simpa using hb)
    have hvl' : base.map (·.2) ++ (turns.map (·.2) ++ [d]) = vl := by rw [← hvl]; simp
    rw [hvl', List.length_map] at hmax hmin
    obtain ⟨s1, s2⟩ := stage_rescan vl base.length _ _ u hn2 (by omega) hmax hmin haltv
      (by rw [hvbase]; exact huni)
    apply fin base.length _ hn2 (by omega) s2 rfl s1
    simp only
    rw [hPbase]
    have : vl.length - 1 - base.length = turns.length := by omega
    rw [this, hPturns]
  · have hb1 : base.length = 1 := by omega
    obtain ⟨b0, rfl⟩ : ∃ b0, base = [b0] := by
      match base, hb1 with
      | [b0], _ => exact ⟨b0, rfl⟩
    cases turns with
    | nil =>
      have : vl.length = 2 := by rw [hlen]; simp
      have hl : tpLoop vl.toArray (argmax ([b0].map (·.2))) (argmin ([b0].map (·.2))) =
          tpInit (argmax ([b0].map (·.2))) (argmin ([b0].map (·.2))) := by
        rw [tpLoop_eq]; simp [this]
      rw [hl]
      have hP0 : P 0 = b0 := by rw [← hPdef]; simp
      simp [tpInit, fpFeed, fpClose_one, hP0, Uni]
    | cons t0 turns' =>
      have ham : argmax ([b0].map (·.2)) = 0 := by simp [argmax]
      have hami : argmin ([b0].map (·.2)) = 0 := by simp [argmin, argmax]
      rw [ham, hami]
      have h3 : 3 ≤ vl.length := by rw [hlen]; simp; omega
      have s2 := stage_init1 vl u h3 haltv
      have := fin 2 (tpInit 0 0) (by omega) (by omega) s2 rfl
        (by rw [ham, hami]; rfl)
      rw [ham, hami] at this
      apply this
      have hP0 : P 0 = b0 := by rw [← hPdef]; simp
      have hP1 : P 1 = t0 := by rw [← hPdef]; simp
      have hr := range'_map_get! [b0, t0] turns' []
      simp only [List.append_nil, List.length_cons, List.length_nil] at hr
      have hPt : (List.range' 2 (vl.length - 1 - 2)).map P = turns' := by
        have : vl.length - 1 - 2 = turns'.length := by rw [hlen]; simp; omega
        rw [this, ← hPdef]
        exact hr
      rw [hPt]
      simp [tpInit, hP0, hP1, fpFeed, fpPush, fpClose_one]

/-- What `HistInv` says about the inputs of the loop for the next chunk. -/
theorem histInv_key (st : DetState) (c0 : Int) (tl : List Int) (h : HistInv st) :
    tpBase st c0 ≠ [] ∧ ∃ dir, DirOk dir (c0 :: tl).getLast!
      ((newTurns st.ts (c0 :: tl)).2.reverse.map (·.2) ++ (tpBase st c0).reverse.map (·.2)) := by
  rcases h with rfl | ⟨s0, xs, h1, h2, h3, h4⟩
  · have hnt : (newTurns {} (c0 :: tl)).2 = findTurnsAux 0 (0, c0) 1 c0 tl := by
      have := newTurns_canon [] (c0 :: tl) (by simp)
      rw [canonTs_nil] at this
      rw [this]
      simp [newTurnsOf, findTurns, shiftPts]
    have hb : tpBase {} c0 = [(0, c0)] := rfl
    have key := scan_dirOk tl 0 (0, c0) 1 c0 [c0] rfl (Or.inr (Or.inr ⟨rfl, rfl⟩))
    rw [scanSt_prev] at key
    refine ⟨by simp [hb], (scanSt 0 (0, c0) 1 c0 tl).1, ?_⟩
    simp only [hnt, hb, getLast!_eq _ (List.cons_ne_nil c0 tl)]
    simpa using key
  · have hnt : (newTurns st.ts (c0 :: tl)).2 =
        findTurnsAux (scanSt 0 (0, s0) 1 s0 xs).1 (scanSt 0 (0, s0) 1 s0 xs).2.1
          (scanSt 0 (0, s0) 1 s0 xs).2.2.1 (scanSt 0 (0, s0) 1 s0 xs).2.2.2 (c0 :: tl) := by
      rw [h1, newTurns_canon (s0 :: xs) (c0 :: tl) (by simp)]
      exact newTurnsOf_eq_aux s0 xs (c0 :: tl)
    have hb : tpBase st c0 = st.stack.reverse := by
      simp [tpBase, h2]
    have hprev : (scanSt 0 (0, s0) 1 s0 xs).2.2.2 = (s0 :: xs).getLast (List.cons_ne_nil _ _) :=
      scanSt_prev xs 0 (0, s0) 1 s0
    have key := scan_dirOk (c0 :: tl) (scanSt 0 (0, s0) 1 s0 xs).1 (scanSt 0 (0, s0) 1 s0 xs).2.1
      (scanSt 0 (0, s0) 1 s0 xs).2.2.1 (scanSt 0 (0, s0) 1 s0 xs).2.2.2 (st.stack.map (·.2))
      (scanSt_cand xs 0 (0, s0) 1 s0 rfl) (by rw [hprev]; exact h4)
    rw [← scanSt_append, scanSt_prev] at key
    have hlast2 := getLast_cons_append s0 xs (c0 :: tl) (List.cons_ne_nil _ _)
    rw [hlast2] at key
    refine ⟨by rw [hb]; simpa using h3, (scanSt 0 (0, s0) 1 s0 (xs ++ c0 :: tl)).1, ?_⟩
    simp only [hnt, hb, getLast!_eq _ (List.cons_ne_nil c0 tl)]
    simpa using key

theorem fpProcess_cons (st : DetState) (s0 : Int) (tl : List Int) :
    fpProcess st (s0 :: tl) =
      { ts := (newTurns st.ts (s0 :: tl)).1,
        stack := (fpClose (fpFeed (tpBase st s0).reverse (newTurns st.ts (s0 :: tl)).2).2
          (s0 :: tl).getLast!).2,
        last := some (s0 :: tl).getLast!,
        cycles := st.cycles ++ (fpFeed (tpBase st s0).reverse (newTurns st.ts (s0 :: tl)).2).1 ++
          (fpClose (fpFeed (tpBase st s0).reverse (newTurns st.ts (s0 :: tl)).2).2
            (s0 :: tl).getLast!).1,
        chunks := st.chunks ++ [(s0 :: tl).length] } := by
  have hb : (tpBase st s0).reverse = if st.last.isNone then [(0, s0)] else st.stack := by
    unfold tpBase; split <;> simp
  simp only [fpProcess, hb]

/-- One chunk: the three-point detector does exactly what the four-point detector does. -/
theorem tp_eq_fp_step (st : DetState) (c : List Int) (h : HistInv st)
    (hu : Uni (st.stack.map (·.2))) :
    tpProcess st c = fpProcess st c ∧ Uni ((tpProcess st c).stack.map (·.2)) := by
  cases c with
  | nil => exact ⟨rfl, hu⟩
  | cons c0 tl =>
    obtain ⟨hb, dir, key⟩ := histInv_key st c0 tl h
    have hub : Uni ((tpBase st c0).reverse.map (·.2)) := by
      unfold tpBase; split
      · trivial
      · simpa using hu
    rw [tpProcess_cons, fpProcess_cons]
    have main : tpCore (tpBase st c0) (newTurns st.ts (c0 :: tl)).2 (c0 :: tl).getLast! =
        ((fpFeed (tpBase st c0).reverse (newTurns st.ts (c0 :: tl)).2).1 ++
          (fpClose (fpFeed (tpBase st c0).reverse (newTurns st.ts (c0 :: tl)).2).2
            (c0 :: tl).getLast!).1,
         (fpClose (fpFeed (tpBase st c0).reverse (newTurns st.ts (c0 :: tl)).2).2
            (c0 :: tl).getLast!).2) ∧
        Uni ((tpCore (tpBase st c0) (newTurns st.ts (c0 :: tl)).2 (c0 :: tl).getLast!).2.map (·.2)) := by
      rcases key with ⟨_, ha⟩ | ⟨_, ha⟩ | ⟨_, hx⟩
      · obtain ⟨e1, e2⟩ := tpCore_eq_fp _ _ _ hb true ha hub
        exact ⟨e1, uni_tail _ _ e2⟩
      · obtain ⟨e1, e2⟩ := tpCore_eq_fp _ _ _ hb false ha hub
        exact ⟨e1, uni_tail _ _ e2⟩
      · have hl : ((newTurns st.ts (c0 :: tl)).2.reverse.map (·.2) ++
            (tpBase st c0).reverse.map (·.2)).length = 1 := by rw [hx]; rfl
        simp only [List.length_append, List.length_map, List.length_reverse] at hl
        have hbl : 0 < (tpBase st c0).length := List.length_pos_iff.mpr hb
        have ht : (newTurns st.ts (c0 :: tl)).2 = [] := List.eq_nil_of_length_eq_zero (by omega)
        rw [ht]
        match hbase : tpBase st c0, hb, hl with
        | [p], _, _ =>
          have : tpCore [p] [] (c0 :: tl).getLast! = ([], [p]) := by simp [tpCore, tpLoop]
          rw [this]
          simp [fpFeed, fpClose_one, Uni]
    obtain ⟨m1, m2⟩ := main
    refine ⟨?_, m2⟩
    rw [m1]
    simp [List.append_assoc]

/-- The three-point detector model and the four-point detector model compute the same state on
every sequence of chunks. -/
theorem tpRun_eq_fpRun (cs : List (List Int)) : tpRun cs = fpRun cs := by
  unfold tpRun fpRun
  have key : ∀ (st : DetState), HistInv st → Uni (st.stack.map (·.2)) →
      cs.foldl tpProcess st = cs.foldl fpProcess st := by
    induction cs with
    | nil => intro st _ _; rfl
    | cons c cs ih =>
      intro st h hu
      obtain ⟨e1, e2⟩ := tp_eq_fp_step st c h hu
      simp only [List.foldl_cons]
      rw [← e1]
      exact ih _ (histInv_step st c h) e2
  exact key {} (Or.inl rfl) trivial

end PylifeVerif.ThreePoint
