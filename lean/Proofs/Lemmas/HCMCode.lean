/-
Helper lemmas for the CODE variant of the HCM first-run flush decision (`adjustFirstRun`, `twoPass`;
the flag is taken from `findTurns (reps ++ reps)`), as opposed to the repaired variant
(`adjustFirstRunR`, `twoPassR`).
-/
import Proofs.Lemmas.HCMFed

namespace PylifeVerif.HCM.Code
open PylifeVerif.HCM PylifeVerif.Rainflow

theorem twoPass_code_eq (law : Law) (s : List Vec) :
    twoPass law s = process law (process law {} (adjustFirstRun (dropTrailingNonReversals s)).1
      (adjustFirstRun (dropTrailingNonReversals s)).2) (dropTrailingNonReversals s) true := rfl

theorem adjust_fst_eq (s : List Vec) : (adjustFirstRun s).1 = (adjustFirstRunR s).1 := rfl

theorem adjust_code_fst (s : List Vec) :
    (adjustFirstRun s).1 = List.replicate (s.headD []).length 0 :: s := rfl

theorem adjust_code_reps (s' : List Vec) : (adjustFirstRun s').1.map rep = 0 :: s'.map rep := by
  rw [adjust_code_fst, List.map_cons, rep_replicate_zero]

/-! ### a first pass that does not flush is fed exactly the decided turning points -/

theorem newTurns_init_noflush (xs : List Int) (hne : xs ≠ []) :
    newTurns {} xs false = (canonTs xs, findTurns xs) := by
  have := newTurns_canon [] xs hne
  have e : findTurns ([] : List Int) = [] := rfl
  simpa [canonTs_nil, newTurnsOf, e] using this

theorem procLoads_init_noflush (samples : List Vec) (hne : samples ≠ []) :
    (procLoads {} samples false).map rep = (findTurns (samples.map rep)).map (·.2) := by
  unfold procLoads
  rw [show ({} : State).ts = {} from rfl, newTurns_init_noflush _ (by simpa using hne)]
  simp only [List.map_map, Nat.not_lt_zero, if_false, Nat.sub_zero, Function.comp_def]
  apply List.map_congr_left
  intro p hp
  have hv := Sym.findTurns_index_valid _ p hp
  rw [List.getElem?_map] at hv
  cases hs : samples[p.1]? with
  | none => rw [hs] at hv; cases hv
  | some v =>
    rw [hs] at hv
    simp only [Option.map_some, Option.some.injEq] at hv
    rw [getElem!_of_getElem? samples p.1 v hs]; exact hv

/-! ### the code's flag -/

theorem split_last_zero (Q : List Int) (hQ : Q ≠ []) :
    (0 :: Q) ++ (0 :: Q) = (0 :: Q.dropLast) ++ Q.getLast hQ :: (0 :: Q) := by
  have h : 0 :: Q = (0 :: Q.dropLast) ++ [Q.getLast hQ] := by
    rw [List.cons_append, List.dropLast_append_getLast]
  calc (0 :: Q) ++ (0 :: Q) = ((0 :: Q.dropLast) ++ [Q.getLast hQ]) ++ (0 :: Q) := by rw [← h]
    _ = _ := by rw [List.append_assoc]; rfl

theorem length_cons_dropLast (Q : List Int) (hQ : Q ≠ []) : (0 :: Q.dropLast).length = Q.length := by
  have := congrArg List.length (List.dropLast_append_getLast hQ)
  simp only [List.length_append, List.length_cons, List.length_nil] at this ⊢
  omega

/-- the code's flag in terms of turning points -/
theorem code_flag_iff (s' : List Vec) :
    (adjustFirstRun s').2 = true ↔
      ∃ p ∈ findTurns ((0 :: s'.map rep) ++ (0 :: s'.map rep)), p.1 = s'.length := by
  unfold adjustFirstRun
  simp only [List.map_cons, rep_replicate_zero, List.length_cons, Nat.add_sub_cancel]
  rw [List.contains_iff_mem, List.mem_map]

theorem repaired_flag_iff (s' : List Vec) :
    (adjustFirstRunR s').2 = true ↔
      ∃ p ∈ findTurns ((0 :: s'.map rep) ++ s'.map rep), p.1 = s'.length := by
  unfold adjustFirstRunR
  simp only [List.map_cons, rep_replicate_zero, List.tail_cons, List.length_cons, Nat.add_sub_cancel]
  rw [List.contains_iff_mem, List.mem_map]

/-- if the code's first pass flushes, the last step of the zero-prefixed sequence is not zero -/
theorem code_flag_last_step (s' : List Vec) (hf : (adjustFirstRun s').2 = true) :
    ∃ w0 a l, a ≠ l ∧ (0 :: s'.map rep) = w0 ++ [a, l] := by
  obtain ⟨p, hp, hpk⟩ := (code_flag_iff s').mp hf
  by_cases hq : s'.map rep = []
  · have hs : s' = [] := by simpa using hq
    subst hs
    simp [findTurns, findTurnsAux, sgn] at hp
  · rw [split_last_zero _ hq] at hp
    have hlen : (0 :: (s'.map rep).dropLast).length = s'.length := by
      rw [length_cons_dropLast _ hq, List.length_map]
    have := (findTurns_at_iff (0 :: (s'.map rep).dropLast) (List.cons_ne_nil _ _)
      ((s'.map rep).getLast hq) _).mp ⟨p, hp, by rw [hlen]; exact hpk⟩
    have hne : (0 :: (s'.map rep).dropLast).getLast (List.cons_ne_nil _ _) ≠ (s'.map rep).getLast hq := by
      intro h; apply this.1; rw [h]; exact Rainflow.sgn_self _
    exact ⟨_, _, _, hne, split_last2 _ hq⟩

/-- **Deferred last sample.**  When the repaired decision flushes but the code's does not, the last
sample lies strictly between its predecessor and `0`; every sample of the zero-prefixed sequence is
then dominated in absolute value by a decided turning point. -/
theorem code_noflush_dominated (s' : List Vec) (hR : (adjustFirstRunR s').2 = true)
    (hC : (adjustFirstRun s').2 = false) :
    ∀ x ∈ (0 : Int) :: s'.map rep, ∃ p ∈ findTurns (0 :: s'.map rep), x.natAbs ≤ p.2.natAbs := by
  obtain ⟨p, hp, hpk⟩ := (repaired_flag_iff s').mp hR
  have hC' : ¬ ∃ p ∈ findTurns ((0 :: s'.map rep) ++ (0 :: s'.map rep)), p.1 = s'.length := by
    intro h; rw [(code_flag_iff s').mpr h] at hC; cases hC
  have hq : s'.map rep ≠ [] := by
    intro hq
    have hs : s' = [] := by simpa using hq
    subst hs
    simp [findTurns, findTurnsAux] at hp
  have hlen : (0 :: (s'.map rep).dropLast).length = s'.length := by
    rw [length_cons_dropLast _ hq, List.length_map]
  rw [split_last _ hq] at hp
  rw [split_last_zero _ hq] at hC'
  generalize hz : (s'.map rep).getLast hq = z at hp hC'
  generalize ha : (0 :: (s'.map rep).dropLast).getLast (List.cons_ne_nil _ _) = a
  have hRc := (findTurns_at_iff (0 :: (s'.map rep).dropLast) (List.cons_ne_nil _ _) z _).mp
    ⟨p, hp, by rw [hlen]; exact hpk⟩
  rw [ha] at hRc
  obtain ⟨hd, b', hb', hsb'⟩ := hRc
  have hCc : ¬ (sgn (z - a) ≠ 0 ∧ ∃ b, firstNe z (0 :: s'.map rep) = some b ∧ sgn (b - z) ≠ sgn (z - a)) := by
    intro h
    apply hC'
    have := (findTurns_at_iff (0 :: (s'.map rep).dropLast) (List.cons_ne_nil _ _) z _).mpr
      (by rw [ha]; exact h)
    rw [hlen] at this; exact this
  have hz0 : z ≠ 0 := by
    intro h0
    apply hCc
    refine ⟨hd, b', ?_, hsb'⟩
    simp only [firstNe, h0, if_true]
    rw [← h0]; exact hb'
  have hsz : sgn (0 - z) = sgn (z - a) := by
    by_contra hne
    exact hCc ⟨hd, 0, by simp [firstNe, Ne.symm hz0], hne⟩
  have hza : z.natAbs < a.natAbs := by
    rcases Rainflow.sgn_cases (0 - z) with h1 | h1 | h1 <;>
    rcases Rainflow.sgn_cases (z - a) with h2 | h2 | h2 <;> omega
  -- `a` and `z` are samples
  have hr : (0 : Int) :: s'.map rep = (0 :: (s'.map rep).dropLast) ++ [z] := by
    rw [← hz, List.cons_append, List.dropLast_append_getLast]
  have ha_mem : a ∈ (0 : Int) :: s'.map rep := by
    rw [hr, ← ha]; exact List.mem_append_left _ (List.getLast_mem _)
  have hlastD : (s'.map rep).getLastD 0 = z := by
    rw [← hz, List.getLastD_eq_getLast?, List.getLast?_eq_some_getLast hq]; rfl
  have hbound := findTurns_bound (s'.map rep)
  rw [hlastD] at hbound
  obtain ⟨pa, hpa, hpale⟩ : ∃ p ∈ findTurns (0 :: s'.map rep), a.natAbs ≤ p.2.natAbs := by
    rcases hbound a ha_mem with h | h
    · exact h
    · omega
  intro x hx
  rcases hbound x hx with h | h
  · exact h
  · exact ⟨pa, hpa, by omega⟩


/-! ### no ties, flushing case (code flag) -/

theorem chains_of_code_flush (law : Law) (s' : List Vec) (hf : (adjustFirstRun s').2 = true) :
    chainNe 0 ((procLoads {} (adjustFirstRun s').1 true).map rep) ∧
    chainNe (process law {} (adjustFirstRun s').1 true).prevLoad
      (((procLoads (process law {} (adjustFirstRun s').1 true) s' true).map rep).dropLast) := by
  obtain ⟨w0, a, l, hal, hw⟩ := code_flag_last_step s' hf
  have hne1 : (adjustFirstRun s').1 ≠ [] := by rw [adjust_code_fst]; exact List.cons_ne_nil _ _
  have hq : s' ≠ [] := by
    intro h; rw [h] at hw
    have := congrArg List.length hw
    simp at this
  have hlast : ((adjustFirstRun s').1.map rep).getLast (by simpa using hne1) = l := by
    simp only [adjust_code_reps, hw]; simp
  have hl1 := procLoads_init_flush (adjustFirstRun s').1 hne1
  rw [hlast] at hl1
  have hval : ((findTurns ((adjustFirstRun s').1.map rep)).map (·.2)).getLastD 0 ≠ l := by
    rw [adjust_code_reps]
    exact last_turn_ne_last 0 (s'.map rep) w0 a l hal hw
  refine ⟨?_, ?_⟩
  · rw [hl1, chainNe_append_singleton]
    refine ⟨?_, hval⟩
    rw [adjust_code_reps]; exact findTurns_chainNe 0 _
  · have hprev : (process law {} (adjustFirstRun s').1 true).prevLoad = l := by
      rw [process_prevLoad, hl1, List.getLastD_eq_getLast?]; simp
    have hts : (process law {} (adjustFirstRun s').1 true).ts =
        { tail := [l], head := ((adjustFirstRun s').1.map rep).length } := by
      rw [process_ts, show ({} : State).ts = {} from rfl,
        newTurns_init_flush_fst _ (by simpa using hne1), hlast]
    have hl2 := procLoads_tail1_flush (process law {} (adjustFirstRun s').1 true) l _
      (by rw [adjust_code_reps]; simp) hts s' hq
    rw [hprev, hl2, List.dropLast_concat]
    exact findTurns_chainNe l _

/-! ### the stretch behind the last decided turning point -/

theorem findTurns_drop_lastIdx (w : List Int) :
    findTurns (w.drop (lastIdx (findTurns w))) = [] := by
  have hrest := findTurns_restart w []
  simp only [List.append_nil] at hrest
  have : shiftPts (lastIdx (findTurns w)) (findTurns (w.drop (lastIdx (findTurns w)))) = [] := by
    have h := congrArg List.length hrest
    simp only [List.length_append] at h
    exact List.eq_nil_of_length_eq_zero (by omega)
  simpa [shiftPts] using this

/-- it starts with the value of the last turning point (the first sample if there is none) -/
theorem drop_lastIdx_head (x0 : Int) (xs : List Int) :
    ∃ rest, (x0 :: xs).drop (lastIdx (findTurns (x0 :: xs))) =
      ((findTurns (x0 :: xs)).map (·.2)).getLastD x0 :: rest := by
  cases hT : (findTurns (x0 :: xs)).getLast? with
  | none =>
    rw [List.getLast?_eq_none_iff] at hT
    rw [hT]; exact ⟨xs, rfl⟩
  | some p =>
    have hp := List.mem_of_getLast? hT
    have hv := Sym.findTurns_index_valid _ p hp
    have hlt := findTurns_idx_lt _ p hp
    have hLp : lastIdx (findTurns (x0 :: xs)) = p.1 := by unfold lastIdx; rw [hT]
    have hval : ((findTurns (x0 :: xs)).map (·.2)).getLastD x0 = p.2 := by
      rw [List.getLastD_eq_getLast?, List.getLast?_map, hT]; rfl
    rw [hLp, hval]
    have hlt' : p.1 < (x0 :: xs).length := by omega
    refine ⟨(x0 :: xs).drop (p.1 + 1), ?_⟩
    rw [← List.getElem_cons_drop (h := hlt')]
    congr 1
    rw [List.getElem?_eq_getElem hlt'] at hv
    exact Option.some.inj hv

/-! ### a flushing pass started from an arbitrary tail -/

theorem scanSt_cand_valid (xs : List Int) : ∀ (pre : List Int) (dir : Int) (cand : Pt) (prev : Int),
    pre[cand.1]? = some cand.2 →
    (pre ++ xs)[(scanSt dir cand pre.length prev xs).2.1.1]? =
      some (scanSt dir cand pre.length prev xs).2.1.2 := by
  induction xs with
  | nil => intro pre dir cand prev h; simpa [scanSt] using h
  | cons x xs ih =>
    intro pre dir cand prev h
    have hlen : (pre ++ [x]).length = pre.length + 1 := by simp
    have happ : pre ++ x :: xs = (pre ++ [x]) ++ xs := by simp
    simp only [scanSt]
    rw [happ, ← hlen]
    split_ifs
    · apply ih
      have hlt : cand.1 < pre.length := by
        rcases Nat.lt_or_ge cand.1 pre.length with h' | h'
        · exact h'
        · rw [List.getElem?_eq_none h'] at h; cases h
      rw [List.getElem?_append_left hlt]; exact h
    · apply ih; simp

/-- a turning point reported inside a tail without turning points has the tail's last value -/
theorem tail_turn_value (T : List Int) (hT : T ≠ []) (hnil : findTurns T = []) (xs : List Int) :
    ∀ p ∈ findTurns (T ++ xs), p.1 < T.length → p.2 = T.getLast hT := by
  obtain ⟨x0, T0, rfl⟩ := List.exists_cons_of_ne_nil hT
  intro p hp hlt
  have hv := Sym.findTurns_index_valid _ p hp
  simp only [List.cons_append, findTurns] at hp hnil
  rw [findTurnsAux_append, hnil, List.nil_append] at hp
  have hi := scanSt_i T0 0 (0, x0) 1 x0
  have hpv := scanSt_prev T0 0 (0, x0) 1 x0
  have hcl := scanSt_cand_lt T0 0 (0, x0) 1 x0 (by simp)
  have hcv := scanSt_cand T0 0 (0, x0) 1 x0 rfl
  have hval := scanSt_cand_valid T0 [x0] 0 (0, x0) x0 (by simp)
  simp only [List.length_singleton, List.singleton_append] at hval
  rcases findTurnsAux_idx xs _ _ _ _ p hp with h | h
  · have hlt2 : (scanSt 0 (0, x0) 1 x0 T0).2.1.1 < (x0 :: T0).length := by
      rw [hi] at hcl; simp only [List.length_cons]; omega
    rw [h, List.getElem?_append_left hlt2, hval] at hv
    rw [← Option.some.inj hv, hcv, hpv]
  · rw [hi] at h; simp only [List.length_cons] at hlt; omega

theorem newTurns_tail_flush (T : List Int) (h : Nat) (xs : List Int) (hxs : xs ≠ []) :
    (newTurns { tail := T, head := h } xs true).2 =
      (findTurns (T ++ xs)).map (fun p => (p.1 + (h - T.length), p.2)) ++
        [(h + xs.length - 1, xs.getLast hxs)] := by
  have hemp : xs.isEmpty = false := by cases xs <;> simp_all
  have hne : T ++ xs ≠ [] := by simp [hxs]
  have hk := lastIdx_findTurns_lt (T ++ xs) hne
  have hd : ((T ++ xs).drop (lastIdx (findTurns (T ++ xs)))).isEmpty = false := by
    rw [List.isEmpty_eq_false_iff]; intro h; rw [List.drop_eq_nil_iff] at h; omega
  have hl : ((T ++ xs).drop (lastIdx (findTurns (T ++ xs)))).getLast! = xs.getLast hxs := by
    rw [List.getLast!_eq_getLast?_getD, List.getLast?_drop, if_neg (by omega),
      List.getLast?_append_of_ne_nil _ hxs, List.getLast?_eq_some_getLast hxs]; rfl
  unfold newTurns
  simp only [hemp, Bool.false_eq_true, if_false, Bool.true_and]
  change (if (!((T ++ xs).drop (lastIdx (findTurns (T ++ xs)))).isEmpty) = true then
      ((_ : TurnState), ((findTurns (T ++ xs)).map (fun p => (p.fst + (h - T.length), p.snd))) ++
        [(h + xs.length - 1, ((T ++ xs).drop (lastIdx (findTurns (T ++ xs)))).getLast!)])
    else (_ : TurnState × List Pt)).2 = _
  rw [hd, hl]
  simp

/-- a flushing pass started from a tail without turning points whose last value is the first-node
load of the stored last sample: the turning points of `tail ++ chunk`, then the last sample -/
theorem procLoads_tail_flush (st : State) (T : List Int) (h : Nat) (hT : T ≠ []) (hle : T.length ≤ h)
    (hnil : findTurns T = []) (hts : st.ts = { tail := T, head := h })
    (hls : rep st.lastSample = T.getLast hT) (samples : List Vec) (hne : samples ≠ []) :
    (procLoads st samples true).map rep =
      (findTurns (T ++ samples.map rep)).map (·.2) ++
        [(samples.map rep).getLast (by simpa using hne)] := by
  unfold procLoads
  rw [hts, newTurns_tail_flush T h _ (by simpa using hne)]
  simp only [List.map_append, List.map_map, List.map_cons, List.map_nil, Function.comp_def]
  congr 1
  · apply List.map_congr_left
    intro p hp
    by_cases hin : p.1 < T.length
    · rw [if_pos (by omega), hls]
      exact (tail_turn_value T hT hnil _ p hp hin).symm
    · have hv := Sym.findTurns_index_valid _ p hp
      rw [List.getElem?_append_right (by omega), List.getElem?_map] at hv
      rw [if_neg (by omega), show p.1 + (h - T.length) - h = p.1 - T.length by omega]
      cases hs : samples[p.1 - T.length]? with
      | none => rw [hs] at hv; cases hv
      | some v =>
        rw [hs] at hv
        simp only [Option.map_some, Option.some.injEq] at hv
        rw [getElem!_of_getElem? samples _ v hs]; exact hv
  · simp only [List.length_map, List.cons.injEq, and_true]
    have hlen : 0 < samples.length := List.length_pos_of_ne_nil hne
    rw [if_neg (by omega), show h + samples.length - 1 - h = samples.length - 1 by omega,
      getElem!_of_getElem? samples (samples.length - 1) (samples.getLast hne)
      (by rw [List.getLast_eq_getElem, List.getElem?_eq_getElem])]
    simp [List.getLast_map]


/-! ### no ties, non-flushing case -/

theorem procLoads_nil (st : State) (flush : Bool) : procLoads st [] flush = [] := by
  unfold procLoads; simp [newTurns]

/-- If the first pass does not flush, it is fed the decided turning points of the zero-prefixed
sequence; the second pass starts from the tail behind the last of them, so its first turning point
differs from the last one fed. -/
theorem chains_of_code_noflush (law : Law) (s' : List Vec) :
    chainNe 0 ((procLoads {} (adjustFirstRun s').1 false).map rep) ∧
    chainNe (process law {} (adjustFirstRun s').1 false).prevLoad
      (((procLoads (process law {} (adjustFirstRun s').1 false) s' true).map rep).dropLast) := by
  have hne1 : (adjustFirstRun s').1 ≠ [] := by rw [adjust_code_fst]; exact List.cons_ne_nil _ _
  have hl1 := procLoads_init_noflush (adjustFirstRun s').1 hne1
  rw [adjust_code_reps] at hl1
  refine ⟨by rw [hl1]; exact findTurns_chainNe 0 _, ?_⟩
  by_cases hq : s' = []
  · subst hq; rw [procLoads_nil]; trivial
  · have hprev : (process law {} (adjustFirstRun s').1 false).prevLoad =
        ((findTurns (0 :: s'.map rep)).map (·.2)).getLastD 0 := by
      rw [process_prevLoad, hl1]
    have hts : (process law {} (adjustFirstRun s').1 false).ts = canonTs (0 :: s'.map rep) := by
      rw [process_ts, show ({} : State).ts = {} from rfl,
        newTurns_init_noflush _ (by simpa using hne1), adjust_code_reps]
    obtain ⟨rest, hdrop⟩ := drop_lastIdx_head 0 (s'.map rep)
    have hTne : (0 :: s'.map rep).drop (lastIdx (findTurns (0 :: s'.map rep))) ≠ [] := by
      rw [hdrop]; exact List.cons_ne_nil _ _
    have hk := lastIdx_findTurns_lt (0 :: s'.map rep) (List.cons_ne_nil _ _)
    have hls : rep (process law {} (adjustFirstRun s').1 false).lastSample =
        ((0 :: s'.map rep).drop (lastIdx (findTurns (0 :: s'.map rep)))).getLast hTne := by
      rw [process_lastSample, adjust_code_fst, List.getLastD_cons, List.getLast_drop]
      rw [List.getLast_cons (by simpa using hq), List.getLast_map (by simpa using hq)]
      rw [List.getLastD_eq_getLast?, List.getLast?_eq_some_getLast hq]; rfl
    have hl2 := procLoads_tail_flush (process law {} (adjustFirstRun s').1 false)
      ((0 :: s'.map rep).drop (lastIdx (findTurns (0 :: s'.map rep)))) (0 :: s'.map rep).length hTne
      (by rw [List.length_drop]; omega) (findTurns_drop_lastIdx _) hts hls s' hq
    rw [hprev, hl2, List.dropLast_concat, hdrop, List.cons_append]
    exact findTurns_chainNe _ _

end PylifeVerif.HCM.Code
