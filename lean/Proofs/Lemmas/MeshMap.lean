/-
`Meshmapper.process` = `griddata(method='linear')` on a triangulation (`mapMesh3` / `mapMesh2` of `Model/Mesh.lean`):
barycentric weights at the vertices, linear fields, point location.
-/
import Proofs.Lemmas.Mesh

namespace PylifeVerif.Mesh

/-! ### one tetrahedron -/

/-- The matrix `T` of `baryWeights3`: columns `p₁−p₀, p₂−p₀, p₃−p₀`. -/
def edgeMatrix (p0 p1 p2 p3 : V3 ℝ) : M3 ℝ :=
  ⟨(p1.sub p0).x, (p2.sub p0).x, (p3.sub p0).x, (p1.sub p0).y, (p2.sub p0).y, (p3.sub p0).y,
   (p1.sub p0).z, (p2.sub p0).z, (p3.sub p0).z⟩

/-- Six times the signed volume of the tetrahedron. -/
def Tet.det (t : Tet ℝ) : ℝ := det3 (edgeMatrix t.c1.p t.c2.p t.c3.p t.c4.p)

theorem baryWeights3_eq (p0 p1 p2 p3 p : V3 ℝ) :
    baryWeights3 p0 p1 p2 p3 p =
      (1 - ((inv3 (edgeMatrix p0 p1 p2 p3)).mulVec (p.sub p0)).x - ((inv3 (edgeMatrix p0 p1 p2 p3)).mulVec (p.sub p0)).y
          - ((inv3 (edgeMatrix p0 p1 p2 p3)).mulVec (p.sub p0)).z,
       (inv3 (edgeMatrix p0 p1 p2 p3)).mulVec (p.sub p0)) := by
  simp [baryWeights3, edgeMatrix]

/-- The weights at the four vertices are the unit vectors. -/
theorem baryWeights3_vertices (p0 p1 p2 p3 : V3 ℝ) (hdet : det3 (edgeMatrix p0 p1 p2 p3) ≠ 0) :
    baryWeights3 p0 p1 p2 p3 p0 = (1, ⟨0, 0, 0⟩) ∧ baryWeights3 p0 p1 p2 p3 p1 = (0, ⟨1, 0, 0⟩) ∧
    baryWeights3 p0 p1 p2 p3 p2 = (0, ⟨0, 1, 0⟩) ∧ baryWeights3 p0 p1 p2 p3 p3 = (0, ⟨0, 0, 1⟩) := by
  set T := edgeMatrix p0 p1 p2 p3 with hT
  have e0 : p0.sub p0 = T.mulVec ⟨0, 0, 0⟩ := by apply V3.eq_of <;> simp [hT, edgeMatrix, M3.mulVec, V3.sub]
  have e1 : p1.sub p0 = T.mulVec ⟨1, 0, 0⟩ := by apply V3.eq_of <;> simp [hT, edgeMatrix, M3.mulVec, V3.sub]
  have e2 : p2.sub p0 = T.mulVec ⟨0, 1, 0⟩ := by apply V3.eq_of <;> simp [hT, edgeMatrix, M3.mulVec, V3.sub]
  have e3 : p3.sub p0 = T.mulVec ⟨0, 0, 1⟩ := by apply V3.eq_of <;> simp [hT, edgeMatrix, M3.mulVec, V3.sub]
  refine ⟨?_, ?_, ?_, ?_⟩ <;> rw [baryWeights3_eq, ← hT]
  · rw [e0, inv3_mulVec_mulVec T hdet]; simp
  · rw [e1, inv3_mulVec_mulVec T hdet]; simp
  · rw [e2, inv3_mulVec_mulVec T hdet]; simp
  · rw [e3, inv3_mulVec_mulVec T hdet]; simp

/-- Interpolation inside a non-degenerate tetrahedron reproduces `f = g·x + c` (at every point, inside or not). -/
theorem baryInterp3_linear (p0 p1 p2 p3 p g : V3 ℝ) (c : ℝ) (hdet : det3 (edgeMatrix p0 p1 p2 p3) ≠ 0) :
    baryInterp3 p0 p1 p2 p3 (g.dot p0 + c) (g.dot p1 + c) (g.dot p2 + c) (g.dot p3 + c) p = g.dot p + c := by
  set T : M3 ℝ := edgeMatrix p0 p1 p2 p3 with hT
  have key := mulVec_inv3_mulVec T hdet (p.sub p0)
  simp only [baryInterp3, baryWeights3_eq, ← hT]
  generalize (inv3 T).mulVec (p.sub p0) = l at key ⊢
  have kx := congrArg V3.x key
  have ky := congrArg V3.y key
  have kz := congrArg V3.z key
  simp only [hT, edgeMatrix, M3.mulVec, V3.sub] at kx ky kz
  simp only [V3.dot]
  linear_combination g.x * kx + g.y * ky + g.z * kz

/-- At a vertex the interpolated value is that vertex' value (any nodal values). -/
theorem baryInterp3_vertices (p0 p1 p2 p3 : V3 ℝ) (f0 f1 f2 f3 : ℝ) (hdet : det3 (edgeMatrix p0 p1 p2 p3) ≠ 0) :
    baryInterp3 p0 p1 p2 p3 f0 f1 f2 f3 p0 = f0 ∧ baryInterp3 p0 p1 p2 p3 f0 f1 f2 f3 p1 = f1 ∧
    baryInterp3 p0 p1 p2 p3 f0 f1 f2 f3 p2 = f2 ∧ baryInterp3 p0 p1 p2 p3 f0 f1 f2 f3 p3 = f3 := by
  obtain ⟨h0, h1, h2, h3⟩ := baryWeights3_vertices p0 p1 p2 p3 hdet
  refine ⟨?_, ?_, ?_, ?_⟩ <;> simp only [baryInterp3]
  · rw [h0]; simp
  · rw [h1]; simp
  · rw [h2]; simp
  · rw [h3]; simp

/-! ### a triangulation of tetrahedra -/

theorem mapMesh3_eq_some (tol : ℝ) (tets : List (Tet ℝ)) (p : V3 ℝ) (v : ℝ) (h : mapMesh3 tol tets p = some v) :
    ∃ t ∈ tets, inTet tol t p = true ∧ tetInterp t p = v := by
  simp only [mapMesh3, Option.map_eq_some_iff] at h
  obtain ⟨t, hfind, hv⟩ := h
  exact ⟨t, List.mem_of_find?_eq_some hfind, by simpa using List.find?_some hfind, hv⟩

/-- NaN (outside) exactly when no simplex contains the point. -/
theorem mapMesh3_eq_none_iff (tol : ℝ) (tets : List (Tet ℝ)) (p : V3 ℝ) :
    mapMesh3 tol tets p = none ↔ ∀ t ∈ tets, inTet tol t p = false := by
  simp [mapMesh3, List.find?_eq_none]

theorem tetInterp_linear (t : Tet ℝ) (g p : V3 ℝ) (c : ℝ) (hdet : t.det ≠ 0)
    (hlin : ∀ q ∈ t.corners, q.f = g.dot q.p + c) : tetInterp t p = g.dot p + c := by
  simp only [Tet.corners, List.mem_cons, List.not_mem_nil, or_false, forall_eq_or_imp, forall_eq] at hlin
  obtain ⟨h1, h2, h3, h4⟩ := hlin
  simp only [tetInterp, h1, h2, h3, h4]
  exact baryInterp3_linear _ _ _ _ p g c hdet

/-- A larger tolerance accepts more points. -/
theorem inTet_mono (tol tol' : ℝ) (h : tol ≤ tol') (t : Tet ℝ) (p : V3 ℝ) (hin : inTet tol t p = true) :
    inTet tol' t p = true := by
  simp only [inTet, Bool.and_eq_true, decide_eq_true_eq] at hin ⊢
  obtain ⟨⟨⟨a, b⟩, c⟩, d⟩ := hin
  exact ⟨⟨⟨by linarith, by linarith⟩, by linarith⟩, by linarith⟩

/-- A vertex of a non-degenerate tetrahedron lies in it (weights 0 and 1). -/
theorem inTet_vertex (tol : ℝ) (htol : 0 ≤ tol) (t : Tet ℝ) (hdet : t.det ≠ 0) (q : Corner ℝ) (hq : q ∈ t.corners) :
    inTet tol t q.p = true ∧ tetInterp t q.p = q.f := by
  obtain ⟨w0, w1, w2, w3⟩ := baryWeights3_vertices t.c1.p t.c2.p t.c3.p t.c4.p hdet
  obtain ⟨v0, v1, v2, v3⟩ := baryInterp3_vertices t.c1.p t.c2.p t.c3.p t.c4.p t.c1.f t.c2.f t.c3.f t.c4.f hdet
  simp only [Tet.corners, List.mem_cons, List.not_mem_nil, or_false] at hq
  rcases hq with rfl | rfl | rfl | rfl
  · refine ⟨?_, v0⟩; simp only [inTet, w0, Bool.and_eq_true, decide_eq_true_eq]; refine ⟨⟨⟨?_, ?_⟩, ?_⟩, ?_⟩ <;> linarith
  · refine ⟨?_, v1⟩; simp only [inTet, w1, Bool.and_eq_true, decide_eq_true_eq]; refine ⟨⟨⟨?_, ?_⟩, ?_⟩, ?_⟩ <;> linarith
  · refine ⟨?_, v2⟩; simp only [inTet, w2, Bool.and_eq_true, decide_eq_true_eq]; refine ⟨⟨⟨?_, ?_⟩, ?_⟩, ?_⟩ <;> linarith
  · refine ⟨?_, v3⟩; simp only [inTet, w3, Bool.and_eq_true, decide_eq_true_eq]; refine ⟨⟨⟨?_, ?_⟩, ?_⟩, ?_⟩ <;> linarith


/-- A point inside some simplex of a triangulation of non-degenerate simplices gets the value of the linear field. -/
theorem mapMesh3_linear_interior (tol : ℝ) (htol : 0 ≤ tol) (tets : List (Tet ℝ)) (g p : V3 ℝ) (c : ℝ)
    (hnd : ∀ t ∈ tets, t.det ≠ 0) (hlin : ∀ t ∈ tets, ∀ q ∈ t.corners, q.f = g.dot q.p + c)
    (hin : ∃ t ∈ tets, inTet 0 t p = true) :
    mapMesh3 tol tets p = some (g.dot p + c) := by
  obtain ⟨t, ht, hp⟩ := hin
  cases hm : mapMesh3 tol tets p with
  | none =>
    have := (mapMesh3_eq_none_iff tol tets p).1 hm t ht
    rw [inTet_mono 0 tol htol t p hp] at this
    exact absurd this (by simp)
  | some v =>
    obtain ⟨t', ht', _, hv⟩ := mapMesh3_eq_some tol tets p v hm
    rw [← hv, tetInterp_linear t' g p c (hnd t' ht') (hlin t' ht')]

/-- Mapping onto a source point returns the source value: `p` is a vertex of the triangulation, the nodal values are a
function of the position, and the triangulation is conforming at `p` (a simplex that contains `p` has `p` as a vertex). -/
theorem mapMesh3_same_point (tol : ℝ) (htol : 0 ≤ tol) (tets : List (Tet ℝ)) (f : V3 ℝ → ℝ) (p : V3 ℝ)
    (hnd : ∀ t ∈ tets, t.det ≠ 0) (hval : ∀ t ∈ tets, ∀ q ∈ t.corners, q.f = f q.p)
    (hvert : ∃ t ∈ tets, ∃ q ∈ t.corners, q.p = p)
    (hconf : ∀ t ∈ tets, inTet tol t p = true → ∃ q ∈ t.corners, q.p = p) :
    mapMesh3 tol tets p = some (f p) := by
  obtain ⟨t, ht, q, hq, rfl⟩ := hvert
  cases hm : mapMesh3 tol tets q.p with
  | none =>
    have := (mapMesh3_eq_none_iff tol tets q.p).1 hm t ht
    rw [(inTet_vertex tol htol t (hnd t ht) q hq).1] at this
    exact absurd this (by simp)
  | some v =>
    obtain ⟨t', ht', hin, hv⟩ := mapMesh3_eq_some tol tets q.p v hm
    obtain ⟨q', hq', hpq⟩ := hconf t' ht' hin
    rw [← hv, ← hpq, (inTet_vertex tol htol t' (hnd t' ht') q' hq').2, hval t' ht' q' hq']

/-! ### triangles (2-D meshes) -/

def Tri.det (t : Tri ℝ) : ℝ := det2 (t.x1 - t.x0) (t.x2 - t.x0) (t.y1 - t.y0) (t.y2 - t.y0)

theorem baryWeights2_vertices (x0 y0 x1 y1 x2 y2 : ℝ) (hdet : det2 (x1 - x0) (x2 - x0) (y1 - y0) (y2 - y0) ≠ 0) :
    baryWeights2 x0 y0 x1 y1 x2 y2 x0 y0 = (1, 0, 0) ∧ baryWeights2 x0 y0 x1 y1 x2 y2 x1 y1 = (0, 1, 0) ∧
    baryWeights2 x0 y0 x1 y1 x2 y2 x2 y2 = (0, 0, 1) := by
  have hd : (x1 - x0) * (y2 - y0) - (x2 - x0) * (y1 - y0) ≠ 0 := by simpa [det2] using hdet
  refine ⟨?_, ?_, ?_⟩ <;> simp only [baryWeights2, det2, lit_one, Prod.mk.injEq]
  · refine ⟨?_, ?_, ?_⟩ <;> simp
  · have h1 : ((x1 - x0) * (y2 - y0) - (x2 - x0) * (y1 - y0)) / ((x1 - x0) * (y2 - y0) - (x2 - x0) * (y1 - y0)) = 1 :=
      div_self hd
    have h2 : ((x1 - x0) * (y1 - y0) - (x1 - x0) * (y1 - y0)) / ((x1 - x0) * (y2 - y0) - (x2 - x0) * (y1 - y0)) = 0 := by
      rw [sub_self, zero_div]
    refine ⟨?_, h1, h2⟩
    rw [h1, h2]; ring
  · have h1 : ((x2 - x0) * (y2 - y0) - (x2 - x0) * (y2 - y0)) / ((x1 - x0) * (y2 - y0) - (x2 - x0) * (y1 - y0)) = 0 := by
      rw [sub_self, zero_div]
    have h2 : ((x1 - x0) * (y2 - y0) - (x2 - x0) * (y1 - y0)) / ((x1 - x0) * (y2 - y0) - (x2 - x0) * (y1 - y0)) = 1 :=
      div_self hd
    refine ⟨?_, h1, h2⟩
    rw [h1, h2]; ring

theorem baryInterp2_linear (x0 y0 x1 y1 x2 y2 px py gx gy c : ℝ)
    (hdet : det2 (x1 - x0) (x2 - x0) (y1 - y0) (y2 - y0) ≠ 0) :
    baryInterp2 x0 y0 x1 y1 x2 y2 (gx * x0 + gy * y0 + c) (gx * x1 + gy * y1 + c) (gx * x2 + gy * y2 + c) px py
      = gx * px + gy * py + c := by
  simp only [baryInterp2, baryWeights2, lit_one]
  generalize hd : det2 (x1 - x0) (x2 - x0) (y1 - y0) (y2 - y0) = d at hdet ⊢
  field_simp
  rw [← hd]; simp only [det2]; ring

theorem mapMesh2_eq_some (tol : ℝ) (tris : List (Tri ℝ)) (px py v : ℝ) (h : mapMesh2 tol tris px py = some v) :
    ∃ t ∈ tris, inTri tol t px py = true ∧ triInterp t px py = v := by
  simp only [mapMesh2, Option.map_eq_some_iff] at h
  obtain ⟨t, hfind, hv⟩ := h
  exact ⟨t, List.mem_of_find?_eq_some hfind, by simpa using List.find?_some hfind, hv⟩

theorem mapMesh2_eq_none_iff (tol : ℝ) (tris : List (Tri ℝ)) (px py : ℝ) :
    mapMesh2 tol tris px py = none ↔ ∀ t ∈ tris, inTri tol t px py = false := by
  simp [mapMesh2, List.find?_eq_none]

/-- The three corners of a triangle as `(x, y, f)`. -/
def Tri.corners (t : Tri ℝ) : List (ℝ × ℝ × ℝ) := [(t.x0, t.y0, t.f0), (t.x1, t.y1, t.f1), (t.x2, t.y2, t.f2)]

theorem inTri_vertex (tol : ℝ) (htol : 0 ≤ tol) (t : Tri ℝ) (hdet : t.det ≠ 0) (q : ℝ × ℝ × ℝ) (hq : q ∈ t.corners) :
    inTri tol t q.1 q.2.1 = true ∧ triInterp t q.1 q.2.1 = q.2.2 := by
  obtain ⟨w0, w1, w2⟩ := baryWeights2_vertices t.x0 t.y0 t.x1 t.y1 t.x2 t.y2 hdet
  simp only [Tri.corners, List.mem_cons, List.not_mem_nil, or_false] at hq
  rcases hq with rfl | rfl | rfl
  · simp only [inTri, triInterp, baryInterp2, w0, Bool.and_eq_true, decide_eq_true_eq]
    refine ⟨⟨⟨?_, ?_⟩, ?_⟩, ?_⟩ <;> linarith
  · simp only [inTri, triInterp, baryInterp2, w1, Bool.and_eq_true, decide_eq_true_eq]
    refine ⟨⟨⟨?_, ?_⟩, ?_⟩, ?_⟩ <;> linarith
  · simp only [inTri, triInterp, baryInterp2, w2, Bool.and_eq_true, decide_eq_true_eq]
    refine ⟨⟨⟨?_, ?_⟩, ?_⟩, ?_⟩ <;> linarith


theorem triInterp_linear (t : Tri ℝ) (gx gy c px py : ℝ) (hdet : t.det ≠ 0)
    (hlin : ∀ q ∈ t.corners, q.2.2 = gx * q.1 + gy * q.2.1 + c) : triInterp t px py = gx * px + gy * py + c := by
  simp only [Tri.corners, List.mem_cons, List.not_mem_nil, or_false, forall_eq_or_imp, forall_eq] at hlin
  obtain ⟨h0, h1, h2⟩ := hlin
  simp only [triInterp, h0, h1, h2]
  exact baryInterp2_linear _ _ _ _ _ _ px py gx gy c hdet

theorem inTri_mono (tol tol' : ℝ) (h : tol ≤ tol') (t : Tri ℝ) (px py : ℝ) (hin : inTri tol t px py = true) :
    inTri tol' t px py = true := by
  simp only [inTri, Bool.and_eq_true, decide_eq_true_eq] at hin ⊢
  obtain ⟨⟨a, b⟩, c⟩ := hin
  exact ⟨⟨by linarith, by linarith⟩, by linarith⟩

theorem mapMesh2_linear_interior (tol : ℝ) (htol : 0 ≤ tol) (tris : List (Tri ℝ)) (gx gy c px py : ℝ)
    (hnd : ∀ t ∈ tris, t.det ≠ 0) (hlin : ∀ t ∈ tris, ∀ q ∈ t.corners, q.2.2 = gx * q.1 + gy * q.2.1 + c)
    (hin : ∃ t ∈ tris, inTri 0 t px py = true) :
    mapMesh2 tol tris px py = some (gx * px + gy * py + c) := by
  obtain ⟨t, ht, hp⟩ := hin
  cases hm : mapMesh2 tol tris px py with
  | none =>
    have := (mapMesh2_eq_none_iff tol tris px py).1 hm t ht
    rw [inTri_mono 0 tol htol t px py hp] at this
    exact absurd this (by simp)
  | some v =>
    obtain ⟨t', ht', _, hv⟩ := mapMesh2_eq_some tol tris px py v hm
    rw [← hv, triInterp_linear t' gx gy c px py (hnd t' ht') (hlin t' ht')]

theorem mapMesh2_same_point (tol : ℝ) (htol : 0 ≤ tol) (tris : List (Tri ℝ)) (f : ℝ → ℝ → ℝ) (px py : ℝ)
    (hnd : ∀ t ∈ tris, t.det ≠ 0) (hval : ∀ t ∈ tris, ∀ q ∈ t.corners, q.2.2 = f q.1 q.2.1)
    (hvert : ∃ t ∈ tris, ∃ q ∈ t.corners, q.1 = px ∧ q.2.1 = py)
    (hconf : ∀ t ∈ tris, inTri tol t px py = true → ∃ q ∈ t.corners, q.1 = px ∧ q.2.1 = py) :
    mapMesh2 tol tris px py = some (f px py) := by
  obtain ⟨t, ht, q, hq, rfl, rfl⟩ := hvert
  cases hm : mapMesh2 tol tris q.1 q.2.1 with
  | none =>
    have := (mapMesh2_eq_none_iff tol tris q.1 q.2.1).1 hm t ht
    rw [(inTri_vertex tol htol t (hnd t ht) q hq).1] at this
    exact absurd this (by simp)
  | some v =>
    obtain ⟨t', ht', hin, hv⟩ := mapMesh2_eq_some tol tris q.1 q.2.1 v hm
    obtain ⟨q', hq', hx, hy⟩ := hconf t' ht' hin
    rw [← hv, ← hx, ← hy, (inTri_vertex tol htol t' (hnd t' ht') q' hq').2, hval t' ht' q' hq']

end PylifeVerif.Mesh
