/-
`surfaceFlags` (the function the driver runs on `(node_id, element_id)` rows) on the hexahedral block mesh
`blockRows`: the number of distinct element ids among the rows of a grid node is `incidentCount`, hence a node
is flagged exactly when it is not interior — for rows in any order and any injective numbering of nodes/elements.
-/
import Proofs.Lemmas.Mesh
import Proofs.Lemmas.MeshPipeline
import Mathlib.Data.List.Basic
import Mathlib.Data.List.Nodup
import Mathlib.Data.List.ProdSigma
import Mathlib.Tactic.IntervalCases

namespace PylifeVerif.Mesh

/-! ### `sortedUnique` is strictly ascending -/

theorem insertSorted_pairwise (x : Int) (l : List Int) (h : l.Pairwise (· < ·)) :
    (insertSorted x l).Pairwise (· < ·) := by
  induction l with
  | nil => simp [insertSorted]
  | cons a l ih =>
    unfold insertSorted
    split_ifs with h1 h2
    · refine List.pairwise_cons.2 ⟨?_, h⟩
      intro y hy
      rcases List.mem_cons.1 hy with rfl | hy
      · exact h1
      · exact lt_trans h1 ((List.pairwise_cons.1 h).1 y hy)
    · exact h
    · obtain ⟨ha, hl⟩ := List.pairwise_cons.1 h
      refine List.pairwise_cons.2 ⟨?_, ih hl⟩
      intro y hy
      rcases (mem_insertSorted x y l).1 hy with rfl | hy
      · have : ¬ y = a := by simpa using h2
        omega
      · exact ha y hy

theorem foldl_insertSorted_pairwise (l acc : List Int) (h : acc.Pairwise (· < ·)) :
    (l.foldl (fun acc x => insertSorted x acc) acc).Pairwise (· < ·) := by
  induction l generalizing acc with
  | nil => simpa using h
  | cons a l ih => exact ih _ (insertSorted_pairwise a acc h)

/-- `sortedUnique` returns a strictly ascending list. -/
theorem sortedUnique_pairwise (l : List Int) : (sortedUnique l).Pairwise (· < ·) :=
  foldl_insertSorted_pairwise l [] List.Pairwise.nil

/-- `sortedUnique` returns a duplicate-free list (strictly ascending). -/
theorem sortedUnique_nodup (l : List Int) : (sortedUnique l).Nodup :=
  (sortedUnique_pairwise l).imp (fun h => ne_of_lt h)

/-- so its length only depends on the set of members -/
theorem sortedUnique_length_eq_of_mem_iff (l l' : List Int) (h : ∀ x, x ∈ l ↔ x ∈ l') :
    (sortedUnique l).length = (sortedUnique l').length := by
  apply List.Perm.length_eq
  rw [List.perm_ext_iff_of_nodup (sortedUnique_nodup l) (sortedUnique_nodup l')]
  intro x
  rw [mem_sortedUnique, mem_sortedUnique, h]

/-- Length of `sortedUnique l` through any duplicate-free list with the same members. -/
theorem sortedUnique_length_eq_of_nodup (l m : List Int) (hm : m.Nodup) (h : ∀ x, x ∈ l ↔ x ∈ m) :
    (sortedUnique l).length = m.length := by
  apply List.Perm.length_eq
  rw [List.perm_ext_iff_of_nodup (sortedUnique_nodup l) hm]
  intro x
  rw [mem_sortedUnique, h]

/-! ### grid numbering -/

theorem add_mul_inj (n a a' q q' : Nat) (ha : a < n) (ha' : a' < n) (h : a + n * q = a' + n * q') :
    a = a' ∧ q = q' := by
  have h1 : (a + n * q) % n = (a' + n * q') % n := by rw [h]
  rw [Nat.add_mul_mod_self_left, Nat.add_mul_mod_self_left, Nat.mod_eq_of_lt ha, Nat.mod_eq_of_lt ha'] at h1
  subst h1
  refine ⟨rfl, ?_⟩
  have h2 : n * q = n * q' := by omega
  exact Nat.eq_of_mul_eq_mul_left (by omega) h2

theorem gridNode_inj (nx ny i j k i' j' k' : Nat) (hi : i ≤ nx) (hj : j ≤ ny) (hi' : i' ≤ nx) (hj' : j' ≤ ny)
    (h : gridNode nx ny i j k = gridNode nx ny i' j' k') : i = i' ∧ j = j' ∧ k = k' := by
  unfold gridNode at h
  obtain ⟨h1, h2⟩ := add_mul_inj (nx + 1) i i' _ _ (by omega) (by omega) h
  obtain ⟨h3, h4⟩ := add_mul_inj (ny + 1) j j' _ _ (by omega) (by omega) h2
  exact ⟨h1, h3, h4⟩

theorem gridElem_inj (nx ny a b c a' b' c' : Nat) (ha : a < nx) (hb : b < ny) (ha' : a' < nx) (hb' : b' < ny)
    (h : gridElem nx ny a b c = gridElem nx ny a' b' c') : a = a' ∧ b = b' ∧ c = c' := by
  unfold gridElem at h
  obtain ⟨h1, h2⟩ := add_mul_inj nx a a' _ _ ha ha' h
  obtain ⟨h3, h4⟩ := add_mul_inj ny b b' _ _ hb hb' h2
  exact ⟨h1, h3, h4⟩

/-! ### rows of the block -/

theorem mem_hexOffsets (d : Nat × Nat × Nat) : d ∈ hexOffsets ↔ d.1 ≤ 1 ∧ d.2.1 ≤ 1 ∧ d.2.2 ≤ 1 := by
  obtain ⟨d1, d2, d3⟩ := d
  constructor
  · intro h
    simp only [hexOffsets, List.mem_cons, Prod.mk.injEq, List.mem_nil_iff, or_false] at h
    simp only
    omega
  · rintro ⟨h1, h2, h3⟩
    simp only at h1 h2 h3
    interval_cases d1 <;> interval_cases d2 <;> interval_cases d3 <;> simp [hexOffsets]

theorem mem_blockRows (nx ny nz : Nat) (nid eid : Nat → Int) (r : Int × Int) :
    r ∈ blockRows nx ny nz nid eid ↔
      ∃ c, c < nz ∧ ∃ b, b < ny ∧ ∃ a, a < nx ∧ ∃ d1 d2 d3, d1 ≤ 1 ∧ d2 ≤ 1 ∧ d3 ≤ 1 ∧
        r = (nid (gridNode nx ny (a + d1) (b + d2) (c + d3)), eid (gridElem nx ny a b c)) := by
  simp only [blockRows, List.mem_flatMap, List.mem_range, List.mem_map, mem_hexOffsets]
  constructor
  · rintro ⟨c, hc, b, hb, a, ha, ⟨d1, d2, d3⟩, ⟨h1, h2, h3⟩, rfl⟩
    exact ⟨c, hc, b, hb, a, ha, d1, d2, d3, h1, h2, h3, rfl⟩
  · rintro ⟨c, hc, b, hb, a, ha, d1, d2, d3, h1, h2, h3, rfl⟩
    exact ⟨c, hc, b, hb, a, ha, (d1, d2, d3), ⟨h1, h2, h3⟩, rfl⟩

/-- The cells of one axis that touch grid line `i` (the list counted by `axisCount`). -/
def axisCells (n i : Nat) : List Nat := (List.range n).filter (fun a => a == i || a + 1 == i)

theorem axisCells_length (n i : Nat) : (axisCells n i).length = axisCount n i := rfl

theorem axisCells_nodup (n i : Nat) : (axisCells n i).Nodup := List.nodup_range.filter _

theorem mem_axisCells (n i a : Nat) : a ∈ axisCells n i ↔ a < n ∧ (a = i ∨ a + 1 = i) := by
  simp [axisCells]

/-- The cells of the block that meet at grid node `(i, j, k)`, as `(c, b, a)` triples. -/
def incidentCells (nx ny nz i j k : Nat) : List (Nat × Nat × Nat) :=
  axisCells nz k ×ˢ (axisCells ny j ×ˢ axisCells nx i)

theorem incidentCells_length (nx ny nz i j k : Nat) :
    (incidentCells nx ny nz i j k).length = incidentCount nx ny nz i j k := by
  simp only [incidentCells, List.length_product, axisCells_length, incidentCount]
  rw [Nat.mul_comm (axisCount ny j), Nat.mul_comm (axisCount nz k)]

theorem incidentCells_nodup (nx ny nz i j k : Nat) : (incidentCells nx ny nz i j k).Nodup :=
  (axisCells_nodup nz k).product ((axisCells_nodup ny j).product (axisCells_nodup nx i))

theorem mem_incidentCells (nx ny nz i j k : Nat) (t : Nat × Nat × Nat) :
    t ∈ incidentCells nx ny nz i j k ↔
      (t.1 < nz ∧ (t.1 = k ∨ t.1 + 1 = k)) ∧ (t.2.1 < ny ∧ (t.2.1 = j ∨ t.2.1 + 1 = j)) ∧
        (t.2.2 < nx ∧ (t.2.2 = i ∨ t.2.2 + 1 = i)) := by
  obtain ⟨c, b, a⟩ := t
  simp only [incidentCells, List.mem_product, mem_axisCells]

/-- The element ids of the cells that meet at `(i, j, k)`. -/
def incidentElems (nx ny nz : Nat) (eid : Nat → Int) (i j k : Nat) : List Int :=
  (incidentCells nx ny nz i j k).map fun t => eid (gridElem nx ny t.2.2 t.2.1 t.1)

theorem incidentElems_nodup (nx ny nz : Nat) (eid : Nat → Int) (he : Function.Injective eid) (i j k : Nat) :
    (incidentElems nx ny nz eid i j k).Nodup := by
  apply List.Nodup.map_on _ (incidentCells_nodup nx ny nz i j k)
  rintro ⟨c, b, a⟩ h ⟨c', b', a'⟩ h' heq
  rw [mem_incidentCells] at h h'
  simp only at h h' heq
  obtain ⟨h1, h2, h3⟩ := gridElem_inj nx ny a b c a' b' c' h.2.2.1 h.2.1.1 h'.2.2.1 h'.2.1.1 (he heq)
  subst h1 h2 h3
  rfl

theorem incidentElems_length (nx ny nz : Nat) (eid : Nat → Int) (i j k : Nat) :
    (incidentElems nx ny nz eid i j k).length = incidentCount nx ny nz i j k := by
  simp only [incidentElems, List.length_map, incidentCells_length]

/-- The element ids among the rows of grid node `(i, j, k)` are those of the incident cells. -/
theorem mem_rows_of_node (nx ny nz : Nat) (nid eid : Nat → Int) (hn : Function.Injective nid)
    (i j k : Nat) (hi : i ≤ nx) (hj : j ≤ ny) (e : Int) :
    e ∈ ((blockRows nx ny nz nid eid).filter (·.1 == nid (gridNode nx ny i j k))).map (·.2) ↔
      e ∈ incidentElems nx ny nz eid i j k := by
  simp only [List.mem_map, List.mem_filter, mem_blockRows, incidentElems, mem_incidentCells, beq_iff_eq]
  constructor
  · rintro ⟨⟨n, e'⟩, ⟨⟨c, hc, b, hb, a, ha, d1, d2, d3, h1, h2, h3, hr⟩, hnode⟩, rfl⟩
    simp only [Prod.mk.injEq] at hr
    obtain ⟨rfl, rfl⟩ := hr
    simp only at hnode
    obtain ⟨e1, e2, e3⟩ := gridNode_inj nx ny _ _ _ _ _ _ (by omega) (by omega) hi hj (hn hnode)
    refine ⟨(c, b, a), ?_, rfl⟩
    simp only
    omega
  · rintro ⟨⟨c, b, a⟩, ⟨⟨hc, hck⟩, ⟨hb, hbj⟩, ⟨ha, hai⟩⟩, rfl⟩
    simp only at hc hck hb hbj ha hai
    refine ⟨(nid (gridNode nx ny i j k), eid (gridElem nx ny a b c)),
      ⟨⟨c, hc, b, hb, a, ha, i - a, j - b, k - c, by omega, by omega, by omega, ?_⟩, rfl⟩, rfl⟩
    have e1 : a + (i - a) = i := by omega
    have e2 : b + (j - b) = j := by omega
    have e3 : c + (k - c) = k := by omega
    rw [e1, e2, e3]

/-- KEY: the number of distinct element ids among the rows of grid node (i,j,k) of the block is
`incidentCount`. -/
theorem blockRows_incident (nx ny nz : Nat) (nid eid : Nat → Int)
    (hn : Function.Injective nid) (he : Function.Injective eid)
    (i j k : Nat) (hi : i ≤ nx) (hj : j ≤ ny) (hk : k ≤ nz) :
    (sortedUnique (((blockRows nx ny nz nid eid).filter (·.1 == nid (gridNode nx ny i j k))).map (·.2))).length
      = incidentCount nx ny nz i j k := by
  have _ := hk
  rw [sortedUnique_length_eq_of_nodup _ _ (incidentElems_nodup nx ny nz eid he i j k)
    (mem_rows_of_node nx ny nz nid eid hn i j k hi hj), incidentElems_length]

/-! ### interior nodes -/

theorem axisCount_le_two (n i : Nat) : axisCount n i ≤ 2 := by
  rw [axisCount_eq]; split_ifs <;> omega

theorem axisCount_eq_two_iff (n i : Nat) : axisCount n i = 2 ↔ 0 < i ∧ i < n := by
  rw [axisCount_eq]; split_ifs <;> omega

theorem incidentCount_le (nx ny nz i j k : Nat) : incidentCount nx ny nz i j k ≤ 8 := by
  unfold incidentCount
  calc axisCount nx i * axisCount ny j * axisCount nz k ≤ 2 * 2 * 2 :=
        Nat.mul_le_mul (Nat.mul_le_mul (axisCount_le_two _ _) (axisCount_le_two _ _)) (axisCount_le_two _ _)
    _ = 8 := rfl

/-- Eight elements meet exactly at the interior nodes (restated from `C19.surface_block_interior_iff_partial`). -/
theorem incidentCount_eq_eight_iff (nx ny nz i j k : Nat) :
    incidentCount nx ny nz i j k = 8 ↔ (0 < i ∧ i < nx) ∧ (0 < j ∧ j < ny) ∧ (0 < k ∧ k < nz) := by
  rw [← axisCount_eq_two_iff, ← axisCount_eq_two_iff, ← axisCount_eq_two_iff]
  unfold incidentCount
  have hx := axisCount_le_two nx i
  have hy := axisCount_le_two ny j
  have hz := axisCount_le_two nz k
  generalize axisCount nx i = x at *
  generalize axisCount ny j = y at *
  generalize axisCount nz k = z at *
  constructor
  · intro h
    interval_cases x <;> interval_cases y <;> interval_cases z <;> omega
  · rintro ⟨rfl, rfl, rfl⟩; rfl

/-! ### the surface flags -/

theorem mem_surfaceFlags (rows : List (Int × Int)) (id : Int) (b : Bool) :
    (id, b) ∈ surfaceFlags rows ↔
      id ∈ rows.map (·.1) ∧ b = decide ((sortedUnique ((rows.filter (·.1 == id)).map (·.2))).length < 8) := by
  simp only [surfaceFlags, List.mem_map, mem_sortedUnique, Prod.mk.injEq]
  constructor
  · rintro ⟨id', ⟨r, hr, rfl⟩, rfl, rfl⟩
    exact ⟨⟨r, hr, rfl⟩, rfl⟩
  · rintro ⟨⟨r, hr, rfl⟩, rfl⟩
    exact ⟨r.1, ⟨r, hr, rfl⟩, rfl, rfl⟩

/-- The count of distinct element ids of a node does not depend on the order of the rows. -/
theorem incident_length_perm (rows rows' : List (Int × Int)) (hperm : rows.Perm rows') (id : Int) :
    (sortedUnique ((rows.filter (·.1 == id)).map (·.2))).length =
      (sortedUnique ((rows'.filter (·.1 == id)).map (·.2))).length := by
  apply sortedUnique_length_eq_of_mem_iff
  intro x
  exact ((hperm.filter _).map _).mem_iff

/-- The model's surface flags on a block mesh, rows in ANY order: the node at grid position (i,j,k) is flagged
iff it is not interior. -/
theorem surfaceFlags_block (nx ny nz : Nat) (nid eid : Nat → Int)
    (hn : Function.Injective nid) (he : Function.Injective eid)
    (rows : List (Int × Int)) (hperm : rows.Perm (blockRows nx ny nz nid eid))
    (i j k : Nat) (hi : i ≤ nx) (hj : j ≤ ny) (hk : k ≤ nz) (b : Bool)
    (hmem : (nid (gridNode nx ny i j k), b) ∈ surfaceFlags rows) :
    b = true ↔ ¬ ((0 < i ∧ i < nx) ∧ (0 < j ∧ j < ny) ∧ (0 < k ∧ k < nz)) := by
  obtain ⟨_, hb⟩ := (mem_surfaceFlags rows _ b).1 hmem
  rw [incident_length_perm rows _ hperm, blockRows_incident nx ny nz nid eid hn he i j k hi hj hk] at hb
  rw [← incidentCount_eq_eight_iff, hb, decide_eq_true_eq]
  have := incidentCount_le nx ny nz i j k
  omega

/-- every grid node of a block with at least one cell per axis has a row in the result -/
theorem surfaceFlags_block_covers (nx ny nz : Nat) (nid eid : Nat → Int)
    (rows : List (Int × Int)) (hperm : rows.Perm (blockRows nx ny nz nid eid))
    (hx : 0 < nx) (hy : 0 < ny) (hz : 0 < nz)
    (i j k : Nat) (hi : i ≤ nx) (hj : j ≤ ny) (hk : k ≤ nz) :
    ∃ b, (nid (gridNode nx ny i j k), b) ∈ surfaceFlags rows := by
  refine ⟨_, (mem_surfaceFlags rows _ _).2 ⟨?_, rfl⟩⟩
  refine List.mem_map.2 ⟨(nid (gridNode nx ny i j k), eid (gridElem nx ny (min i (nx - 1)) (min j (ny - 1))
    (min k (nz - 1)))), ?_, rfl⟩
  rw [hperm.mem_iff, mem_blockRows]
  refine ⟨min k (nz - 1), by omega, min j (ny - 1), by omega, min i (nx - 1), by omega,
    i - min i (nx - 1), j - min j (ny - 1), k - min k (nz - 1), by omega, by omega, by omega, ?_⟩
  have e1 : min i (nx - 1) + (i - min i (nx - 1)) = i := by omega
  have e2 : min j (ny - 1) + (j - min j (ny - 1)) = j := by omega
  have e3 : min k (nz - 1) + (k - min k (nz - 1)) = k := by omega
  rw [e1, e2, e3]

/-- The rows of the result are exactly one per grid node id: every flagged id is the id of a grid node. -/
theorem surfaceFlags_block_ids (nx ny nz : Nat) (nid eid : Nat → Int)
    (rows : List (Int × Int)) (hperm : rows.Perm (blockRows nx ny nz nid eid))
    (id : Int) (b : Bool) (hmem : (id, b) ∈ surfaceFlags rows) :
    ∃ i j k, i ≤ nx ∧ j ≤ ny ∧ k ≤ nz ∧ id = nid (gridNode nx ny i j k) := by
  obtain ⟨hid, _⟩ := (mem_surfaceFlags rows _ b).1 hmem
  obtain ⟨r, hr, rfl⟩ := List.mem_map.1 hid
  rw [hperm.mem_iff, mem_blockRows] at hr
  obtain ⟨c, hc, b', hb, a, ha, d1, d2, d3, h1, h2, h3, rfl⟩ := hr
  exact ⟨a + d1, b' + d2, c + d3, by omega, by omega, by omega, rfl⟩

/-! ### non-vacuity -/

/-- A 2×2×2 block with node ids `3 n + 7` and element ids `100 − e` (descending!): 27 nodes, exactly one of them
(the centre, grid number 13, id 46) is not flagged. -/
example :
    (surfaceFlags (blockRows 2 2 2 (fun n => 3 * (n : Int) + 7) (fun e => 100 - (e : Int)))).length = 27 ∧
    (surfaceFlags (blockRows 2 2 2 (fun n => 3 * (n : Int) + 7) (fun e => 100 - (e : Int)))).filter (!·.2)
      = [(46, false)] ∧ gridNode 2 2 1 1 1 = 13 := by
  decide +kernel

/-- the same block with the rows reversed gives the same flags -/
example :
    surfaceFlags (blockRows 2 2 2 (fun n => 3 * (n : Int) + 7) (fun e => 100 - (e : Int))).reverse
      = surfaceFlags (blockRows 2 2 2 (fun n => 3 * (n : Int) + 7) (fun e => 100 - (e : Int))) := by
  decide +kernel

theorem nid_example_inj : Function.Injective (fun n : Nat => 3 * (n : Int) + 7) := by
  intro a b h; simp only at h; omega

theorem eid_example_inj : Function.Injective (fun e : Nat => 100 - (e : Int)) := by
  intro a b h; simp only at h; omega

/-- `surfaceFlags_block` instantiated: reversed rows of a 3×2×4 block; the node (1,1,2) is interior, the node
(3,1,2) is not, whatever Boolean the result carries for them. -/
example (b : Bool)
    (h : ((fun n : Nat => 3 * (n : Int) + 7) (gridNode 3 2 1 1 2), b) ∈
      surfaceFlags (blockRows 3 2 4 (fun n => 3 * (n : Int) + 7) (fun e => 100 - (e : Int))).reverse) :
    b = false := by
  have := surfaceFlags_block 3 2 4 _ _ nid_example_inj eid_example_inj _ (List.reverse_perm _) 1 1 2
    (by omega) (by omega) (by omega) b h
  cases b
  · rfl
  · exact absurd (this.1 rfl) (by omega)

example (b : Bool)
    (h : ((fun n : Nat => 3 * (n : Int) + 7) (gridNode 3 2 3 1 2), b) ∈
      surfaceFlags (blockRows 3 2 4 (fun n => 3 * (n : Int) + 7) (fun e => 100 - (e : Int))).reverse) :
    b = true :=
  (surfaceFlags_block 3 2 4 _ _ nid_example_inj eid_example_inj _ (List.reverse_perm _) 3 1 2
    (by omega) (by omega) (by omega) b h).2 (by omega)

/-- and such rows exist (`surfaceFlags_block_covers`) -/
example : ∃ b, ((fun n : Nat => 3 * (n : Int) + 7) (gridNode 3 2 1 1 2), b) ∈
    surfaceFlags (blockRows 3 2 4 (fun n => 3 * (n : Int) + 7) (fun e => 100 - (e : Int))).reverse :=
  surfaceFlags_block_covers 3 2 4 _ _ _ (List.reverse_perm _) (by omega) (by omega) (by omega) 1 1 2
    (by omega) (by omega) (by omega)

end PylifeVerif.Mesh
