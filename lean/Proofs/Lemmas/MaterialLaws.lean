/-
Real-analysis lemmas for C16: the Ramberg-Osgood curve  σ ↦ σ/E + sgn σ · (|σ|/K)^p  with p > 1
(p = 1/n, 0 < n < 1): derivative everywhere, strict monotonicity, oddness, continuity, surjectivity.
-/
import Proofs.RealNum
import Mathlib.Analysis.SpecialFunctions.Pow.Deriv
import Mathlib.Analysis.Calculus.Deriv.MeanValue
import Mathlib.Analysis.Calculus.Deriv.Inverse
import Mathlib.Topology.Order.IntermediateValue
import Mathlib.Tactic.Ring
import Mathlib.Tactic.Linarith
import Mathlib.Tactic.FieldSimp
import Mathlib.Tactic.NormNum

namespace PylifeVerif.C16L

open Filter Topology

/-- `np.sign` over the reals. -/
noncomputable def rsign (x : ℝ) : ℝ := if 0 < x then 1 else if x < 0 then -1 else 0

theorem rsign_pos {x : ℝ} (h : 0 < x) : rsign x = 1 := by simp [rsign, h]
theorem rsign_neg {x : ℝ} (h : x < 0) : rsign x = -1 := by simp [rsign, h, not_lt.mpr h.le]
@[simp] theorem rsign_zero : rsign 0 = 0 := by simp [rsign]
theorem rsign_neg_arg (x : ℝ) : rsign (-x) = -rsign x := by
  rcases lt_trichotomy x 0 with h | h | h
  · rw [rsign_neg h, rsign_pos (by linarith)]; ring
  · subst h; simp
  · rw [rsign_pos h, rsign_neg (by linarith)]
theorem rsign_mul_abs (x : ℝ) : rsign x * |x| = x := by
  rcases lt_trichotomy x 0 with h | h | h
  · rw [rsign_neg h, abs_of_neg h]; ring
  · subst h; simp
  · rw [rsign_pos h, abs_of_pos h]; ring

/-- the plastic branch -/
noncomputable def plast (K p σ : ℝ) : ℝ := rsign σ * (|σ| / K) ^ p

/-- the Ramberg-Osgood curve with exponent `p = 1/n` -/
noncomputable def curve (E K p σ : ℝ) : ℝ := σ / E + plast K p σ

/-- its tangential compliance -/
noncomputable def compl (E K p σ : ℝ) : ℝ := 1 / E + p / K * (|σ| / K) ^ (p - 1)

theorem plast_neg_arg (K p σ : ℝ) : plast K p (-σ) = -plast K p σ := by
  simp [plast, rsign_neg_arg]

theorem curve_neg_arg (E K p σ : ℝ) : curve E K p (-σ) = -curve E K p σ := by
  simp only [curve, plast_neg_arg]; ring

@[simp] theorem plast_zero {K p : ℝ} : plast K p 0 = 0 := by simp [plast]
@[simp] theorem curve_zero {E K p : ℝ} : curve E K p 0 = 0 := by simp [curve]

theorem plast_nonneg {K p σ : ℝ} (hK : 0 < K) (h : 0 ≤ σ) : 0 ≤ plast K p σ := by
  rcases h.eq_or_lt with h | h
  · subst h; simp
  · rw [plast, rsign_pos h, one_mul]; positivity

theorem plast_nonpos {K p σ : ℝ} (hK : 0 < K) (h : σ ≤ 0) : plast K p σ ≤ 0 := by
  have := plast_nonneg (p := p) hK (neg_nonneg.mpr h)
  rw [plast_neg_arg] at this; linarith

theorem compl_pos {E K p σ : ℝ} (hE : 0 < E) (hK : 0 < K) (hp : 0 < p) : 0 < compl E K p σ := by
  unfold compl
  have : 0 ≤ (|σ| / K) ^ (p - 1) := Real.rpow_nonneg (by positivity) _
  have h1 : 0 < 1 / E := by positivity
  have h2 : 0 ≤ p / K * (|σ| / K) ^ (p - 1) := by positivity
  linarith

/-- derivative of the plastic branch for σ > 0 -/
theorem plast_hasDerivAt_pos {K p σ : ℝ} (hK : 0 < K) (hσ : 0 < σ) :
    HasDerivAt (plast K p) (p / K * (|σ| / K) ^ (p - 1)) σ := by
  have h1 : HasDerivAt (fun x : ℝ => x / K) (1 / K) σ := (hasDerivAt_id σ).div_const K
  have h2 := h1.rpow_const (p := p) (Or.inl (by positivity : σ / K ≠ 0))
  have h3 : HasDerivAt (fun x : ℝ => (x / K) ^ p) (p / K * (|σ| / K) ^ (p - 1)) σ := by
    rw [abs_of_pos hσ]; exact h2.congr_deriv (by ring)
  refine h3.congr_of_eventuallyEq ?_
  filter_upwards [lt_mem_nhds hσ] with x hx
  simp [plast, rsign_pos hx, abs_of_pos hx]

theorem plast_hasDerivAt_neg {K p σ : ℝ} (hK : 0 < K) (hσ : σ < 0) :
    HasDerivAt (plast K p) (p / K * (|σ| / K) ^ (p - 1)) σ := by
  have h1 : HasDerivAt (fun x : ℝ => (-x) / K) (-1 / K) σ := ((hasDerivAt_id σ).neg).div_const K
  have h2 := h1.rpow_const (p := p) (Or.inl (by
    have : 0 < -σ / K := by apply div_pos <;> linarith
    exact this.ne'))
  have h3 : HasDerivAt (fun x : ℝ => -((-x) / K) ^ p) (p / K * (|σ| / K) ^ (p - 1)) σ := by
    rw [abs_of_neg hσ]; exact h2.fun_neg.congr_deriv (by ring)
  refine h3.congr_of_eventuallyEq ?_
  filter_upwards [gt_mem_nhds hσ] with x hx
  simp [plast, rsign_neg hx, abs_of_neg hx]

/-- `plast x = x · h x` with `h` continuous and `h 0 = 0`: the derivative at 0 is 0 (needs p > 1). -/
theorem plast_eq_mul {K p : ℝ} (hK : 0 < K) (x : ℝ) :
    plast K p x = x * ((|x| / K) ^ (p - 1) / K) := by
  rcases eq_or_ne x 0 with h | h
  · subst h; simp
  · have hpos : 0 < |x| / K := by have := abs_pos.mpr h; positivity
    have : (|x| / K) ^ p = (|x| / K) * (|x| / K) ^ (p - 1) := by
      conv_lhs => rw [show p = 1 + (p - 1) by ring, Real.rpow_add hpos, Real.rpow_one]
    rw [plast, this]
    calc rsign x * (|x| / K * (|x| / K) ^ (p - 1))
        = (rsign x * |x|) * ((|x| / K) ^ (p - 1) / K) := by ring
      _ = x * ((|x| / K) ^ (p - 1) / K) := by rw [rsign_mul_abs]

theorem plast_hasDerivAt_zero {K p : ℝ} (hK : 0 < K) (hp : 1 < p) :
    HasDerivAt (plast K p) 0 0 := by
  rw [hasDerivAt_iff_tendsto_slope]
  have hcont : Continuous (fun x : ℝ => (|x| / K) ^ (p - 1) / K) :=
    ((continuous_abs.div_const K).rpow_const (fun _ => Or.inr (by linarith))).div_const K
  have h0 : (|(0:ℝ)| / K) ^ (p - 1) / K = 0 := by
    simp [Real.zero_rpow (by linarith : p - 1 ≠ 0)]
  have ht : Tendsto (fun x : ℝ => (|x| / K) ^ (p - 1) / K) (𝓝[≠] 0) (𝓝 0) := by
    have := (hcont.tendsto 0).mono_left (nhdsWithin_le_nhds (s := {0}ᶜ))
    rwa [h0] at this
  refine ht.congr' ?_
  filter_upwards [self_mem_nhdsWithin] with x hx
  have hx : x ≠ 0 := hx
  rw [slope_def_field, plast_zero, sub_zero, sub_zero, plast_eq_mul hK]
  field_simp

theorem compl_zero {E K p : ℝ} (hp : 1 < p) : compl E K p 0 = 1 / E := by
  simp [compl, Real.zero_rpow (by linarith : p - 1 ≠ 0)]

theorem plast_hasDerivAt {K p : ℝ} (hK : 0 < K) (hp : 1 < p) (σ : ℝ) :
    HasDerivAt (plast K p) (p / K * (|σ| / K) ^ (p - 1)) σ := by
  rcases lt_trichotomy σ 0 with h | h | h
  · exact plast_hasDerivAt_neg hK h
  · subst h
    have : p / K * (|(0:ℝ)| / K) ^ (p - 1) = 0 := by
      simp [Real.zero_rpow (by linarith : p - 1 ≠ 0)]
    rw [this]; exact plast_hasDerivAt_zero hK hp
  · exact plast_hasDerivAt_pos hK h

/-- The tangential compliance is the derivative of the curve, at every stress (including 0). -/
theorem curve_hasDerivAt {E K p : ℝ} (hK : 0 < K) (hp : 1 < p) (σ : ℝ) :
    HasDerivAt (curve E K p) (compl E K p σ) σ := by
  have h1 : HasDerivAt (fun x : ℝ => x / E) (1 / E) σ := (hasDerivAt_id σ).div_const E
  exact h1.add (plast_hasDerivAt hK hp σ)

theorem curve_strictMono {E K p : ℝ} (hE : 0 < E) (hK : 0 < K) (hp : 1 < p) : StrictMono (curve E K p) := by
  apply strictMono_of_deriv_pos
  intro x
  rw [(curve_hasDerivAt hK hp x).deriv]
  exact compl_pos hE hK (by linarith)

theorem curve_continuous {E K p : ℝ} (hK : 0 < K) (hp : 1 < p) : Continuous (curve E K p) :=
  continuous_iff_continuousAt.mpr fun x => (curve_hasDerivAt hK hp x).continuousAt

theorem curve_ge {E K p σ : ℝ} (hK : 0 < K) (h : 0 ≤ σ) : σ / E ≤ curve E K p σ := by
  have := plast_nonneg (p := p) hK h
  unfold curve; linarith

theorem curve_le {E K p σ : ℝ} (hK : 0 < K) (h : σ ≤ 0) : curve E K p σ ≤ σ / E := by
  have := plast_nonpos (p := p) hK h
  unfold curve; linarith

theorem curve_surjective {E K p : ℝ} (hE : 0 < E) (hK : 0 < K) (hp : 1 < p) :
    Function.Surjective (curve E K p) := by
  apply (curve_continuous hK hp).surjective
  · refine tendsto_atTop_mono' atTop ?_ (tendsto_id.atTop_div_const hE)
    filter_upwards [eventually_ge_atTop 0] with x hx using curve_ge hK hx
  · refine tendsto_atBot_mono' atBot ?_ (tendsto_id.atBot_div_const hE)
    filter_upwards [eventually_le_atBot 0] with x hx using curve_le hK hx

theorem curve_bijective {E K p : ℝ} (hE : 0 < E) (hK : 0 < K) (hp : 1 < p) :
    Function.Bijective (curve E K p) :=
  ⟨(curve_strictMono hE hK hp).injective, curve_surjective hE hK hp⟩

/-- the exact inverse of the curve, as an order isomorphism of ℝ -/
noncomputable def curveIso {E K p : ℝ} (hE : 0 < E) (hK : 0 < K) (hp : 1 < p) : ℝ ≃o ℝ :=
  (curve_strictMono hE hK hp).orderIsoOfSurjective _ (curve_surjective hE hK hp)

end PylifeVerif.C16L

namespace PylifeVerif.C16L
open Filter Topology

/-- The exact inverse of the curve as a total function (no proof arguments): `Function.invFun`. -/
noncomputable def curveInv (E K p : ℝ) : ℝ → ℝ := Function.invFun (curve E K p)

theorem curve_curveInv {E K p : ℝ} (hE : 0 < E) (hK : 0 < K) (hp : 1 < p) (ε : ℝ) :
    curve E K p (curveInv E K p ε) = ε :=
  Function.rightInverse_invFun (curve_surjective hE hK hp) ε

theorem curveInv_curve {E K p : ℝ} (hE : 0 < E) (hK : 0 < K) (hp : 1 < p) (σ : ℝ) :
    curveInv E K p (curve E K p σ) = σ :=
  Function.leftInverse_invFun (curve_strictMono hE hK hp).injective σ

theorem curveInv_unique {E K p : ℝ} (hE : 0 < E) (hK : 0 < K) (hp : 1 < p) {σ ε : ℝ}
    (h : curve E K p σ = ε) : σ = curveInv E K p ε := by
  rw [← h, curveInv_curve hE hK hp]

theorem curveInv_eq_symm {E K p : ℝ} (hE : 0 < E) (hK : 0 < K) (hp : 1 < p) :
    curveInv E K p = (curveIso hE hK hp).symm := by
  funext ε
  symm
  apply curveInv_unique hE hK hp
  exact (curveIso hE hK hp).apply_symm_apply ε

theorem curveInv_strictMono {E K p : ℝ} (hE : 0 < E) (hK : 0 < K) (hp : 1 < p) :
    StrictMono (curveInv E K p) := by
  rw [curveInv_eq_symm hE hK hp]; exact (curveIso hE hK hp).symm.strictMono

theorem curveInv_continuous {E K p : ℝ} (hE : 0 < E) (hK : 0 < K) (hp : 1 < p) :
    Continuous (curveInv E K p) := by
  rw [curveInv_eq_symm hE hK hp]; exact (curveIso hE hK hp).symm.continuous

theorem curveInv_neg_arg {E K p : ℝ} (hE : 0 < E) (hK : 0 < K) (hp : 1 < p) (ε : ℝ) :
    curveInv E K p (-ε) = -curveInv E K p ε := by
  symm
  apply curveInv_unique hE hK hp
  rw [curve_neg_arg, curve_curveInv hE hK hp]

/-- derivative of the inverse = reciprocal of the compliance at the corresponding stress -/
theorem curveInv_hasDerivAt {E K p : ℝ} (hE : 0 < E) (hK : 0 < K) (hp : 1 < p) (ε : ℝ) :
    HasDerivAt (curveInv E K p) (compl E K p (curveInv E K p ε))⁻¹ ε :=
  HasDerivAt.of_local_left_inverse (curveInv_continuous hE hK hp).continuousAt
    (curve_hasDerivAt hK hp _) (compl_pos hE hK (by linarith)).ne'
    (Filter.Eventually.of_forall (curve_curveInv hE hK hp))

end PylifeVerif.C16L
