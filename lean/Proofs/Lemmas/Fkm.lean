/-
Helper lemmas for the FKM (Clormann–Seeger HCM) detector model: C02 (equality with the reference
HCM rule, partition of the turning points) and C03 (sign flip).
-/
import Proofs.Lemmas.Common
import Model.Rainflow.Spec

namespace PylifeVerif.Rainflow.Fkm
open PylifeVerif.Rainflow

/-! ### Strict alternation -/

/-- `ZigD up a l`: the sequence `a :: l` strictly alternates, the first step going up iff `up`. -/
def ZigD : Bool → Int → List Int → Prop
  | _, _, [] => True
  | up, a, b :: rest => (if up then a < b else b < a) ∧ ZigD (!up) b rest

/-- A list of integers strictly alternates (zig-zag). -/
def Alternating : List Int → Prop
  | [] => True
  | k :: rest => ZigD true k rest ∨ ZigD false k rest

instance instDecidableZigD : ∀ up a l, Decidable (ZigD up a l)
  | _, _, [] => isTrue trivial
  | up, a, b :: rest =>
    have := instDecidableZigD (!up) b rest
    by unfold ZigD; exact inferInstance

instance : ∀ l, Decidable (Alternating l)
  | [] => isTrue trivial
  | k :: rest => by unfold Alternating; exact inferInstance

/-! ### The two closing loops agree -/

/-- The residual at position `ir - 1` counted from the bottom (if present) carries the running
maximum. -/
def PrimMax (res : List Int) (ir maxTurn : Nat) : Prop :=
  ∀ M, res.reverse[ir - 1]? = some M → M.natAbs = maxTurn

theorem primMax_pop {j i : Int} {rest : List Int} {ir m : Nat}
    (h : PrimMax (j :: i :: rest) ir m) (hlen : ir ≤ rest.length) (hir : 1 ≤ ir) :
    PrimMax rest ir m := by
  intro M hM
  apply h M
  have : ir - 1 < rest.reverse.length := by simp; omega
  simp only [List.reverse_cons, List.append_assoc]
  rw [List.getElem?_append_left this]
  exact hM

theorem primMax_top {j : Int} {t : List Int} {ir m : Nat}
    (h : PrimMax (j :: t) ir m) (hlen : t.length + 1 = ir) : j.natAbs = m := by
  apply h j
  subst hlen
  simp

theorem fkmLoop_eq_hcmLoop (cur : Int) (m : Nat) (fuel : Nat) (res : List Int) (ir : Nat)
    (acc : List (Int × Int)) (hir : 1 ≤ ir) (h2 : PrimMax res ir m) :
    fkmLoop cur m fuel res ir acc = Spec.hcmLoop cur fuel res ir acc := by
  induction fuel generalizing res acc with
  | zero => simp [fkmLoop, Spec.hcmLoop]
  | succ fuel ih =>
    unfold fkmLoop Spec.hcmLoop
    simp only
    by_cases h1 : res.length < ir
    · have h3 : ¬ res.length > ir := by omega
      have h4 : ¬ res.length = ir := by omega
      simp [h1, h3, h4]
    · by_cases h3 : res.length > ir
      · simp only [h1, h3, if_true, if_false]
        match res, h2, h3 with
        | [], _, h3 => simp at h3; 
        | [_], _, h3 => simp at h3; omega
        | j :: i :: rest, h2, h3 =>
          simp only
          split
          · by_cases h5 : ir ≤ rest.length
            · exact ih rest _ (primMax_pop h2 h5 hir)
            · -- next iteration stops at once
              cases fuel with
              | zero => simp [fkmLoop, Spec.hcmLoop]
              | succ f =>
                unfold fkmLoop Spec.hcmLoop
                have : rest.length < ir := by omega
                have h3 : ¬ rest.length > ir := by omega
                have h4 : ¬ rest.length = ir := by omega
                simp [this, h3, h4]
          · rfl
      · have h4 : res.length = ir := by omega
        simp only [h4, if_true]
        match res, h2, h4 with
        | [], _, h4 => simp at h4; omega
        | j :: t, h2, h4 =>
          have := primMax_top h2 h4
          simp [this]

/-! ### Invariant of the model loop (needs strict alternation of the turning points) -/

theorem primMax_pop' {j i : Int} {rest : List Int} {ir m : Nat}
    (h : PrimMax (j :: i :: rest) ir m) (hir : 1 ≤ ir) : PrimMax rest ir m := by
  by_cases hlen : ir ≤ rest.length
  · exact primMax_pop h hlen hir
  · intro M hM
    have : rest.reverse[ir - 1]? = none := by
      apply List.getElem?_eq_none; simp; omega
    rw [this] at hM; cases hM

theorem primMax_second {j i : Int} {rest : List Int} {ir m : Nat}
    (h : PrimMax (j :: i :: rest) ir m) (hlen : rest.length + 1 = ir) : i.natAbs = m := by
  apply h i
  subst hlen
  simp

theorem fkmLoop_post (cur : Int) (m : Nat) (d : Bool) (fuel : Nat) (res : List Int) (ir : Nat)
    (acc : List (Int × Int)) (hir : 1 ≤ ir) (hlen : ir ≤ res.length + 1)
    (hb : ∀ r ∈ res, r.natAbs ≤ m) (h2 : PrimMax res ir m) (hz : ZigD d cur res)
    (hfuel : res.length / 2 < fuel) (hlt : res.length < ir → m ≤ cur.natAbs) :
    1 ≤ (fkmLoop cur m fuel res ir acc).2.1 ∧
    (fkmLoop cur m fuel res ir acc).2.1 ≤ (fkmLoop cur m fuel res ir acc).1.length + 1 ∧
    ZigD d cur (fkmLoop cur m fuel res ir acc).1 ∧
    PrimMax (cur :: (fkmLoop cur m fuel res ir acc).1) (fkmLoop cur m fuel res ir acc).2.1
      (max cur.natAbs m) ∧
    (∀ x ∈ (fkmLoop cur m fuel res ir acc).1, x ∈ res) := by
  induction fuel generalizing res acc with
  | zero => omega
  | succ fuel ih =>
    unfold fkmLoop
    simp only
    by_cases h1 : res.length < ir
    · simp only [h1, if_true]
      refine ⟨hir, hlen, hz, ?_, fun x hx => hx⟩
      intro M hM
      have hl : ir - 1 = res.reverse.length := by simp; omega
      simp only [List.reverse_cons] at hM
      rw [hl, List.getElem?_append_right (Nat.le_refl _)] at hM
      simp at hM
      have := hlt h1
      omega
    · by_cases h3 : res.length > ir
      · simp only [h1, h3, if_true, if_false]
        match res, hlen, hb, h2, hz, hfuel, hlt, h1, h3 with
        | [], _, _, _, _, _, _, _, h3 => simp at h3
        | [_], _, _, _, _, _, _, _, h3 => simp at h3; omega
        | j :: i :: rest, hlen, hb, h2, hz, hfuel, hlt, h1, h3 =>
          simp only
          have hbj : j.natAbs ≤ m := hb j (by simp)
          have hbi : i.natAbs ≤ m := hb i (by simp)
          split
          · rename_i hclose
            have hz' : ZigD d cur rest := by
              cases rest with
              | nil => trivial
              | cons r0 rest' =>
                unfold absDiff at hclose
                simp only [ZigD] at hz ⊢
                cases d <;> simp at hz ⊢ <;> refine ⟨by omega, hz.2.2.2⟩
            have := ih rest (acc ++ [(i, j)]) (by simp at h3; omega)
              (fun r hr => hb r (by simp [hr])) (primMax_pop' h2 hir) hz'
              (by simp at hfuel; omega)
              (by
                intro hl
                have hi := primMax_second h2 (by simp at h3; omega)
                unfold absDiff at hclose
                simp only [ZigD] at hz
                cases d <;> simp at hz <;> omega)
            refine ⟨this.1, this.2.1, this.2.2.1, this.2.2.2.1, ?_⟩
            intro x hx
            have := this.2.2.2.2 x hx
            simp [this]
          · rename_i hclose
            refine ⟨hir, hlen, hz, ?_, fun x hx => hx⟩
            intro M hM
            have hl : ir - 1 < (j :: i :: rest).reverse.length := by simp at h3 ⊢; omega
            rw [List.reverse_cons (a := cur), List.getElem?_append_left hl] at hM
            have := h2 M hM
            unfold absDiff at hclose
            simp only [ZigD] at hz
            cases d <;> simp at hz <;> omega
      · have h4 : res.length = ir := by omega
        simp only [h1, h3, if_false]
        split
        · rename_i hgt
          refine ⟨Nat.le_add_left 1 ir, (by show ir + 1 ≤ res.length + 1; omega), hz, ?_,
            fun x hx => hx⟩
          intro M hM
          have hl : ir + 1 - 1 = res.reverse.length := by simp; omega
          simp only [List.reverse_cons] at hM
          rw [hl, List.getElem?_append_right (Nat.le_refl _)] at hM
          simp at hM
          omega
        · rename_i hgt
          refine ⟨hir, hlen, hz, ?_, fun x hx => hx⟩
          intro M hM
          have hl : ir - 1 < res.reverse.length := by simp; omega
          rw [List.reverse_cons, List.getElem?_append_left hl] at hM
          have := h2 M hM
          omega

/-! ### One turning point, and the fold over a turn list -/

theorem fkmTurn_def (st : FkmState) (cur : Int) :
    fkmTurn st cur =
      { st with
        res := cur :: (fkmLoop cur st.maxTurn (st.res.length / 2 + 2) st.res st.ir []).1,
        ir := (fkmLoop cur st.maxTurn (st.res.length / 2 + 2) st.res st.ir []).2.1,
        maxTurn := max cur.natAbs st.maxTurn,
        cycles := st.cycles ++ (fkmLoop cur st.maxTurn (st.res.length / 2 + 2) st.res st.ir []).2.2 } :=
  rfl

theorem hcmTurn_def (st : Spec.HcmState) (k : Int) :
    Spec.hcmTurn st k =
      { res := k :: (Spec.hcmLoop k (st.res.length / 2 + 2) st.res st.ir []).1,
        ir := (Spec.hcmLoop k (st.res.length / 2 + 2) st.res st.ir []).2.1,
        cycles := st.cycles ++ (Spec.hcmLoop k (st.res.length / 2 + 2) st.res st.ir []).2.2 } :=
  rfl

/-- Invariant of the model state with respect to the turning points still to come. -/
structure Inv (st : FkmState) (turns : List Int) : Prop where
  hir : 1 ≤ st.ir
  hlen : st.ir ≤ st.res.length + 1
  hb : ∀ r ∈ st.res, r.natAbs ≤ st.maxTurn
  prim : PrimMax st.res st.ir st.maxTurn
  first : st.res.length < st.ir → st.maxTurn = 0
  zig : match turns with
    | [] => True
    | k :: rest => ∃ d, ZigD d k rest ∧ ZigD d k st.res

theorem inv_init (t : TurnState) (turns : List Int) (h : Alternating turns) :
    Inv { ts := t } turns := by
  refine ⟨Nat.le_refl _, by simp, by simp, ?_, fun _ => rfl, ?_⟩
  · intro M hM; simp at hM
  · cases turns with
    | nil => trivial
    | cons k rest =>
      rcases h with h | h
      · exact ⟨true, h, trivial⟩
      · exact ⟨false, h, trivial⟩

theorem inv_step (st : FkmState) (cur : Int) (rest : List Int) (h : Inv st (cur :: rest)) :
    Inv (fkmTurn st cur) rest := by
  obtain ⟨hir, hlen, hb, prim, first, d, hzt, hzr⟩ := h
  have post := fkmLoop_post cur st.maxTurn d (st.res.length / 2 + 2) st.res st.ir [] hir hlen hb
    prim hzr (by omega) (fun hl => by have := first hl; omega)
  obtain ⟨p1, p2, p3, p4, p5⟩ := post
  rw [fkmTurn_def]
  refine ⟨p1, ?_, ?_, p4, ?_, ?_⟩
  · simp only [List.length_cons]; omega
  · intro r hr
    simp only [List.mem_cons] at hr
    rcases hr with rfl | hr
    · exact Nat.le_max_left _ _
    · exact Nat.le_trans (hb r (p5 r hr)) (Nat.le_max_right _ _)
  · intro hl; simp only [List.length_cons] at hl; omega
  · cases rest with
    | nil => trivial
    | cons k2 rest2 =>
      simp only [ZigD] at hzt
      refine ⟨!d, hzt.2, ?_⟩
      simp only [ZigD, Bool.not_not]
      refine ⟨?_, p3⟩
      cases d <;> simp at hzt ⊢ <;> exact hzt.1

/-- Correspondence between a model state and a reference state. -/
def Rel (st : FkmState) (h : Spec.HcmState) : Prop :=
  st.res = h.res ∧ st.ir = h.ir ∧ st.cycles = h.cycles

theorem rel_step (st : FkmState) (h : Spec.HcmState) (cur : Int) (hir : 1 ≤ st.ir)
    (prim : PrimMax st.res st.ir st.maxTurn) (hr : Rel st h) :
    Rel (fkmTurn st cur) (Spec.hcmTurn h cur) := by
  obtain ⟨h1, h2, h3⟩ := hr
  rw [fkmTurn_def, hcmTurn_def, ← h1, ← h2, ← h3,
    ← fkmLoop_eq_hcmLoop cur st.maxTurn _ st.res st.ir [] hir prim]
  exact ⟨rfl, rfl, rfl⟩

theorem rel_fold (turns : List Int) (st : FkmState) (h : Spec.HcmState) (hi : Inv st turns)
    (hr : Rel st h) : Rel (turns.foldl fkmTurn st) (turns.foldl Spec.hcmTurn h) := by
  induction turns generalizing st h with
  | nil => exact hr
  | cons k rest ih =>
    simp only [List.foldl_cons]
    exact ih _ _ (inv_step st k rest hi) (rel_step st h k hi.hir hi.prim hr)

/-- The model loop, run over an alternating list of turning-point values from the initial state,
agrees with the reference HCM rule. -/
theorem fkmFold_eq_hcm (t : TurnState) (turns : List Int) (h : Alternating turns) :
    (turns.foldl fkmTurn { ts := t }).res = (Spec.hcm turns).res ∧
    (turns.foldl fkmTurn { ts := t }).ir = (Spec.hcm turns).ir ∧
    (turns.foldl fkmTurn { ts := t }).cycles = (Spec.hcm turns).cycles :=
  rel_fold turns _ _ (inv_init t turns h) ⟨rfl, rfl, rfl⟩

/-! ### The values reported by `findTurns` strictly alternate -/

theorem sgn_cases (y : Int) :
    (y = 0 ∧ sgn y = 0) ∨ (0 < y ∧ sgn y = 1) ∨ (y < 0 ∧ sgn y = -1) := by
  unfold sgn
  by_cases h1 : 0 < y
  · simp [h1]
  · by_cases h2 : y < 0
    · simp [h1, h2]
    · simp [h1, h2]; omega

/-- Shape of the values emitted by the scan from a state with direction `dir` and candidate
value `c`. -/
def Start (dir : Int) (c : Int) : List Int → Prop
  | [] => True
  | v :: rest =>
    (dir = 1 → c ≤ v ∧ ZigD false v rest) ∧ (dir = -1 → v ≤ c ∧ ZigD true v rest) ∧
    (dir = 0 → ZigD true v rest ∨ ZigD false v rest)

theorem findTurnsAux_start (xs : List Int) (dir : Int) (cand : Pt) (i : Nat) (prev : Int)
    (hp : prev = cand.2) (hd : dir = 1 ∨ dir = -1 ∨ dir = 0) :
    Start dir cand.2 ((findTurnsAux dir cand i prev xs).map (·.2)) := by
  induction xs generalizing dir cand i prev with
  | nil => simp [findTurnsAux, Start]
  | cons x xs ih =>
    unfold findTurnsAux
    simp only
    rcases sgn_cases (x - prev) with ⟨h0, hs⟩ | ⟨h0, hs⟩ | ⟨h0, hs⟩
    · simp only [hs, if_true]
      exact ih dir cand (i+1) x (by omega) hd
    · have ih' := ih 1 (i, x) (i+1) x rfl (Or.inl rfl)
      simp only [hs]
      rcases hd with rfl | rfl | rfl
      · simp only [show ¬ ((1:Int) = 0) by decide, if_false, ne_eq, not_true, and_false]
        generalize (List.map (·.2) (findTurnsAux 1 (i, x) (i + 1) x xs)) = L at ih' ⊢
        cases L with
        | nil => trivial
        | cons v rest =>
          simp only [Start]
          have := ih'.1 rfl
          refine ⟨fun _ => ⟨by omega, this.2⟩, fun h => by omega, fun h => by omega⟩
      · simp only [show ¬ ((1:Int) = 0) by decide, show ¬ ((-1:Int) = 0) by decide,
          show ¬ ((1:Int) = -1) by decide, if_false, ne_eq, not_false_eq_true, and_self, if_true,
          List.map_cons]
        generalize (List.map (·.2) (findTurnsAux 1 (i, x) (i + 1) x xs)) = L at ih' ⊢
        simp only [Start]
        refine ⟨fun h => by omega, fun _ => ⟨Int.le_refl _, ?_⟩, fun h => by omega⟩
        cases L with
        | nil => trivial
        | cons v rest =>
          have := ih'.1 rfl
          simp only [ZigD, if_true, Bool.not_true]
          exact ⟨by omega, this.2⟩
      · simp only [show ¬ ((1:Int) = 0) by decide, if_false, ne_eq, not_true, false_and]
        generalize (List.map (·.2) (findTurnsAux 1 (i, x) (i + 1) x xs)) = L at ih' ⊢
        cases L with
        | nil => trivial
        | cons v rest =>
          simp only [Start]
          have := ih'.1 rfl
          refine ⟨fun h => by omega, fun h => by omega, fun _ => Or.inr this.2⟩
    · have ih' := ih (-1) (i, x) (i+1) x rfl (Or.inr (Or.inl rfl))
      simp only [hs]
      rcases hd with rfl | rfl | rfl
      · simp only [show ¬ ((1:Int) = 0) by decide, show ¬ ((-1:Int) = 0) by decide,
          show ¬ ((-1:Int) = 1) by decide, if_false, ne_eq, not_false_eq_true, and_self, if_true,
          List.map_cons]
        generalize (List.map (·.2) (findTurnsAux (-1) (i, x) (i + 1) x xs)) = L at ih' ⊢
        simp only [Start]
        refine ⟨fun _ => ⟨Int.le_refl _, ?_⟩, fun h => by omega, fun h => by omega⟩
        cases L with
        | nil => trivial
        | cons v rest =>
          have := ih'.2.1 rfl
          simp only [ZigD, Bool.false_eq_true, if_false, Bool.not_false]
          exact ⟨by omega, this.2⟩
      · simp only [show ¬ ((-1:Int) = 0) by decide, if_false, ne_eq, not_true, and_false]
        generalize (List.map (·.2) (findTurnsAux (-1) (i, x) (i + 1) x xs)) = L at ih' ⊢
        cases L with
        | nil => trivial
        | cons v rest =>
          simp only [Start]
          have := ih'.2.1 rfl
          refine ⟨fun h => by omega, fun _ => ⟨by omega, this.2⟩, fun h => by omega⟩
      · simp only [show ¬ ((-1:Int) = 0) by decide, if_false, ne_eq, not_true, false_and]
        generalize (List.map (·.2) (findTurnsAux (-1) (i, x) (i + 1) x xs)) = L at ih' ⊢
        cases L with
        | nil => trivial
        | cons v rest =>
          simp only [Start]
          have := ih'.2.1 rfl
          refine ⟨fun h => by omega, fun h => by omega, fun _ => Or.inl this.2⟩

theorem findTurns_alternating (s : List Int) : Alternating ((findTurns s).map (·.2)) := by
  cases s with
  | nil => simp [findTurns, Alternating]
  | cons x xs =>
    have := findTurnsAux_start xs 0 (0, x) 1 x rfl (Or.inr (Or.inr rfl))
    unfold findTurns
    generalize (List.map (·.2) (findTurnsAux 0 (0, x) 1 x xs)) = L at this ⊢
    cases L with
    | nil => trivial
    | cons v rest => exact this.2.2 rfl

/-! ### From `fkmRun [s]` to the fold over the turn values -/

theorem fkmProcess_def (st : FkmState) (samples : List Int) :
    fkmProcess st samples =
      ((newTurns st.ts samples).2.map (·.2)).foldl fkmTurn
        { st with ts := (newTurns st.ts samples).1 } := by
  rw [List.foldl_map]; rfl

theorem newTurns_vals (st : TurnState) (s : List Int) (hs : s ≠ []) :
    (newTurns st s).2.map (·.2) = (findTurns (st.tail ++ s)).map (·.2) := by
  unfold newTurns
  have : s.isEmpty = false := by cases s <;> simp_all
  simp [this]

theorem newTurns_vals_init (s : List Int) :
    (newTurns {} s).2.map (·.2) = (findTurns s).map (·.2) := by
  cases s with
  | nil => simp [newTurns, findTurns]
  | cons x xs => simpa using newTurns_vals {} (x :: xs) (by simp)

theorem fkmRun_single (s : List Int) :
    fkmRun [s] = ((findTurns s).map (·.2)).foldl fkmTurn { ts := (newTurns {} s).1 } := by
  show fkmProcess {} s = _
  rw [fkmProcess_def, newTurns_vals_init]

/-! ### Partition of the turning points into closed pairs and residuals -/

/-- The two points of a closed cycle. -/
abbrev pair : Int × Int → List Int := fun c => [c.1, c.2]

theorem fkmLoop_perm (cur : Int) (m : Nat) (fuel : Nat) (res : List Int) (ir : Nat)
    (acc : List (Int × Int)) :
    (((fkmLoop cur m fuel res ir acc).2.2.flatMap pair) ++ (fkmLoop cur m fuel res ir acc).1).Perm
      (acc.flatMap pair ++ res) := by
  induction fuel generalizing res acc with
  | zero => exact List.Perm.refl _
  | succ fuel ih =>
    unfold fkmLoop
    simp only
    split
    · exact List.Perm.refl _
    · split
      · split
        · rename_i last0 last1 rest _ _
          split
          · refine (ih rest (acc ++ [(last1, last0)])).trans ?_
            rw [List.flatMap_append, List.append_assoc]
            refine List.Perm.append_left _ ?_
            simp only [List.flatMap_cons, List.flatMap_nil, List.append_nil, List.cons_append,
              List.nil_append]
            exact List.Perm.swap _ _ _
          · exact List.Perm.refl _
        · exact List.Perm.refl _
      · split <;> exact List.Perm.refl _

theorem fkmTurn_perm (st : FkmState) (cur : Int) :
    (((fkmTurn st cur).cycles.flatMap pair) ++ (fkmTurn st cur).res).Perm
      ((st.cycles.flatMap pair ++ st.res) ++ [cur]) := by
  rw [fkmTurn_def]
  simp only
  have h := fkmLoop_perm cur st.maxTurn (st.res.length / 2 + 2) st.res st.ir []
  simp only [List.flatMap_nil, List.nil_append] at h
  rw [List.flatMap_append, List.append_assoc, List.append_assoc]
  refine List.Perm.append_left _ ?_
  refine List.perm_middle.trans ?_
  refine (List.Perm.cons cur h).trans ?_
  exact (List.perm_append_singleton cur st.res).symm

theorem fkmFold_perm (turns : List Int) (st : FkmState) :
    (((turns.foldl fkmTurn st).cycles.flatMap pair) ++ (turns.foldl fkmTurn st).res).Perm
      ((st.cycles.flatMap pair ++ st.res) ++ turns) := by
  induction turns generalizing st with
  | nil => simp
  | cons k rest ih =>
    simp only [List.foldl_cons]
    refine (ih (fkmTurn st k)).trans ?_
    refine ((fkmTurn_perm st k).append_right rest).trans ?_
    simp

/-- Every turning point ends up in exactly one closed pair or in the residual. -/
theorem fkmRun_single_perm (s : List Int) :
    (((fkmRun [s]).cycles.flatMap fun c => [c.1, c.2]) ++ (fkmRun [s]).res).Perm
      ((findTurns s).map (·.2)) := by
  rw [fkmRun_single]
  simpa using fkmFold_perm ((findTurns s).map (·.2)) { ts := (newTurns {} s).1 }

/-! ### Sign flip (C03) -/

abbrev negPt : Pt → Pt := fun p => (p.1, -p.2)
abbrev negPair : Int × Int → Int × Int := fun c => (-c.1, -c.2)

def negTs (t : TurnState) : TurnState := { tail := t.tail.map (- ·), head := t.head }

def negSt (st : FkmState) : FkmState :=
  { ts := negTs st.ts, res := st.res.map (- ·), ir := st.ir, maxTurn := st.maxTurn,
    cycles := st.cycles.map negPair }

theorem sgn_neg (y : Int) : sgn (-y) = - sgn y := by
  rcases sgn_cases y with ⟨h, hs⟩ | ⟨h, hs⟩ | ⟨h, hs⟩ <;>
  rcases sgn_cases (-y) with ⟨h', hs'⟩ | ⟨h', hs'⟩ | ⟨h', hs'⟩ <;> omega

theorem findTurnsAux_neg (xs : List Int) (dir : Int) (cand : Pt) (i : Nat) (prev : Int) :
    findTurnsAux (-dir) (negPt cand) i (-prev) (xs.map (- ·)) =
      (findTurnsAux dir cand i prev xs).map negPt := by
  induction xs generalizing dir cand i prev with
  | nil => simp [findTurnsAux]
  | cons x xs ih =>
    simp only [List.map_cons]
    unfold findTurnsAux
    have hs : sgn (-x - -prev) = - sgn (x - prev) := by
      rw [← sgn_neg]; congr 1; omega
    simp only [hs]
    have e0 : (- sgn (x - prev) = 0) ↔ (sgn (x - prev) = 0) := by omega
    have e1 : (-dir ≠ 0 ∧ - sgn (x - prev) ≠ -dir) ↔ (dir ≠ 0 ∧ sgn (x - prev) ≠ dir) := by omega
    simp only [e0, e1]
    have ihc := ih (sgn (x - prev)) (i, x) (i + 1) x
    have ihd := ih dir cand (i + 1) x
    simp only [negPt] at ihc ihd
    split
    · exact ihd
    · split
      · simp only [List.map_cons]; rw [ihc]
      · exact ihc

theorem findTurns_neg' (s : List Int) :
    findTurns (s.map (- ·)) = (findTurns s).map negPt := by
  cases s with
  | nil => simp [findTurns]
  | cons x xs =>
    simp only [List.map_cons, findTurns]
    have := findTurnsAux_neg xs 0 (0, x) 1 x
    simpa using this

theorem newTurns_neg (t : TurnState) (s : List Int) :
    newTurns (negTs t) (s.map (- ·)) = (negTs (newTurns t s).1, (newTurns t s).2.map negPt) := by
  unfold newTurns
  by_cases hs : s.isEmpty = true
  · simp [hs]
  · have hs' : (s.map (- ·)).isEmpty = false := by cases s <;> simp_all
    have hs : s.isEmpty = false := by simpa using hs
    simp only [hs, hs', Bool.false_and, Bool.false_eq_true, if_false, negTs]
    rw [← List.map_append, findTurns_neg']
    simp only [List.getLast?_map, List.length_map, List.map_map, List.map_drop]
    refine Prod.ext ?_ ?_
    · simp only
      cases (findTurns (t.tail ++ s)).getLast? <;> simp
    · simp [Function.comp_def]

theorem fkmLoop_neg (cur : Int) (m : Nat) (fuel : Nat) (res : List Int) (ir : Nat)
    (acc : List (Int × Int)) :
    fkmLoop (-cur) m fuel (res.map (- ·)) ir (acc.map negPair) =
      (((fkmLoop cur m fuel res ir acc).1).map (- ·), (fkmLoop cur m fuel res ir acc).2.1,
        ((fkmLoop cur m fuel res ir acc).2.2).map negPair) := by
  induction fuel generalizing res acc with
  | zero => rfl
  | succ fuel ih =>
    unfold fkmLoop
    simp only [List.length_map, Int.natAbs_neg]
    split
    · rfl
    · split
      · match res with
        | [] => rfl
        | [_] => rfl
        | j :: i :: rest =>
          simp only [List.map_cons]
          have e : absDiff (-cur) (-j) = absDiff cur j ∧ absDiff (-j) (-i) = absDiff j i := by
            unfold absDiff; omega
          simp only [e.1, e.2]
          split
          · have := ih rest (acc ++ [(i, j)])
            simp only [List.map_append, List.map_cons, List.map_nil, negPair] at this
            exact this
          · rfl
      · split <;> rfl

theorem fkmTurn_neg (st : FkmState) (cur : Int) :
    fkmTurn (negSt st) (-cur) = negSt (fkmTurn st cur) := by
  rw [fkmTurn_def, fkmTurn_def]
  have := fkmLoop_neg cur st.maxTurn (st.res.length / 2 + 2) st.res st.ir []
  simp only [List.map_nil] at this
  simp only [negSt, List.length_map, this, Int.natAbs_neg, List.map_cons, List.map_append]

theorem fkmFold_neg (turns : List Int) (st : FkmState) :
    (turns.map (- ·)).foldl fkmTurn (negSt st) = negSt (turns.foldl fkmTurn st) := by
  induction turns generalizing st with
  | nil => rfl
  | cons k rest ih =>
    simp only [List.map_cons, List.foldl_cons, fkmTurn_neg, ih]

theorem fkmProcess_neg (st : FkmState) (s : List Int) :
    fkmProcess (negSt st) (s.map (- ·)) = negSt (fkmProcess st s) := by
  rw [fkmProcess_def, fkmProcess_def]
  have h : (negSt st).ts = negTs st.ts := rfl
  rw [h, newTurns_neg]
  simp only [List.map_map]
  have e : ((·.2) ∘ negPt : Pt → Int) = (- ·) ∘ (·.2) := rfl
  rw [e, ← List.map_map, ← fkmFold_neg]
  rfl

theorem fkmRun_neg_gen (cs : List (List Int)) (st : FkmState) :
    (cs.map (List.map (- ·))).foldl fkmProcess (negSt st) = negSt (cs.foldl fkmProcess st) := by
  induction cs generalizing st with
  | nil => rfl
  | cons c cs ih =>
    simp only [List.map_cons, List.foldl_cons, fkmProcess_neg, ih]

theorem fkmRun_neg (cs : List (List Int)) :
    fkmRun (cs.map (List.map (- ·))) = negSt (fkmRun cs) :=
  fkmRun_neg_gen cs {}

end PylifeVerif.Rainflow.Fkm
