/-
Helper lemmas for C09: the FKM-nonlinear model functions specialised to ℝ.
-/
import Model.FkmNonlinear
import Proofs.RealNum
import Mathlib.Analysis.SpecialFunctions.Pow.Real
import Mathlib.Analysis.SpecialFunctions.Pow.Continuity
import Mathlib.Tactic.Linarith
import Mathlib.Tactic.NormNum
import Mathlib.Tactic.Ring
import Mathlib.Tactic.FieldSimp

namespace PylifeVerif.FkmNl

/-! ### literals -/
theorem lit_1e3 : (1.0e3 : ℝ) = 1000 := by norm_num
theorem lit_1em3 : (1.0e-3 : ℝ) = 1 / 1000 := by norm_num
theorem lit_1 : (1.0 : ℝ) = 1 := by norm_num
theorem lit_0 : (0.0 : ℝ) = 0 := by norm_num
theorem lit_05 : (0.5 : ℝ) = 1 / 2 := by norm_num
theorem lit_2 : (2.0 : ℝ) = 2 := by norm_num
theorem lit_3 : (3.0 : ℝ) = 3 := by norm_num

/-- admissible P_RAM curve: what `_validate` accepts plus a positive endurance value -/
def PramCurve.Adm (c : PramCurve ℝ) : Prop := 0 < c.PD ∧ c.PD < c.PZ ∧ c.d1 < 0 ∧ c.d2 < 0

theorem pramN_eq (c : PramCurve ℝ) (P : ℝ) :
    pramN c P = if c.PZ ≤ P then 1000 * (P / c.PZ) ^ (c.d1)⁻¹ else 1000 * (P / c.PZ) ^ (c.d2)⁻¹ := by
  simp only [pramN, transc_pow, lit_1e3, lit_1, one_div]

theorem pramLifeLimit_eq (c : PramCurve ℝ) : pramLifeLimit c = 1000 * (c.PD / c.PZ) ^ (c.d2)⁻¹ := by
  simp only [pramLifeLimit, transc_pow, lit_1e3, lit_1, one_div]

theorem pramCalcP_eq (c : PramCurve ℝ) (N : ℝ) :
    pramCalcP c N = if N < 1000 then c.PZ * (N / 1000) ^ c.d1
      else if N < pramLifeLimit c then c.PZ * (N / 1000) ^ c.d2 else c.PD := by
  simp only [pramCalcP, transc_pow, lit_1e3, lit_1em3, mul_one_div]


/-! ### real powers with a negative exponent -/
section rpow
variable {x y d : ℝ}

theorem rpow_inv_lt_one (hx : 1 < x) (hd : d < 0) : x ^ d⁻¹ < 1 :=
  Real.rpow_lt_one_of_one_lt_of_neg hx (inv_lt_zero.mpr hd)

theorem one_lt_rpow_inv (hx0 : 0 < x) (hx : x < 1) (hd : d < 0) : 1 < x ^ d⁻¹ :=
  Real.one_lt_rpow_of_pos_of_lt_one_of_neg hx0 hx (inv_lt_zero.mpr hd)

theorem rpow_neg_lt_one (hx : 1 < x) (hd : d < 0) : x ^ d < 1 :=
  Real.rpow_lt_one_of_one_lt_of_neg hx hd

theorem one_lt_rpow_neg (hx0 : 0 < x) (hx : x < 1) (hd : d < 0) : 1 < x ^ d :=
  Real.one_lt_rpow_of_pos_of_lt_one_of_neg hx0 hx hd

theorem rpow_inv_rpow' (hx : 0 ≤ x) (hd : d < 0) : (x ^ d⁻¹) ^ d = x := Real.rpow_inv_rpow hx hd.ne

theorem rpow_rpow_inv' (hx : 0 ≤ x) (hd : d < 0) : (x ^ d) ^ d⁻¹ = x := Real.rpow_rpow_inv hx hd.ne

theorem rpow_anti (hx : 0 < x) (hxy : x < y) (hd : d < 0) : y ^ d < x ^ d :=
  Real.rpow_lt_rpow_of_neg hx hxy hd

theorem rpow_inv_anti (hx : 0 < x) (hxy : x < y) (hd : d < 0) : y ^ d⁻¹ < x ^ d⁻¹ :=
  Real.rpow_lt_rpow_of_neg hx hxy (inv_lt_zero.mpr hd)

end rpow

/-! ### the P_RAM curve -/
section pram
variable {c : PramCurve ℝ}

theorem PramCurve.Adm.PZ_pos (h : c.Adm) : 0 < c.PZ := lt_trans h.1 h.2.1

theorem PramCurve.Adm.ratio_pos (h : c.Adm) : 0 < c.PD / c.PZ := div_pos h.1 h.PZ_pos

theorem PramCurve.Adm.ratio_lt_one (h : c.Adm) : c.PD / c.PZ < 1 := (div_lt_one h.PZ_pos).mpr h.2.1

/-- the knee at the endurance value lies to the right of `N = 10³` -/
theorem PramCurve.Adm.knee_lt_limit (h : c.Adm) : 1000 < pramLifeLimit c := by
  rw [pramLifeLimit_eq]
  have := one_lt_rpow_inv h.ratio_pos h.ratio_lt_one h.2.2.2
  linarith

theorem pramN_at_PZ (h : c.Adm) : pramN c c.PZ = 1000 := by
  rw [pramN_eq, if_pos le_rfl, div_self h.PZ_pos.ne', Real.one_rpow, mul_one]

theorem pramN_above (h : c.Adm) {P : ℝ} (hP : c.PZ < P) :
    pramN c P = 1000 * (P / c.PZ) ^ (c.d1)⁻¹ ∧ pramN c P < 1000 ∧ 0 < pramN c P := by
  have hx : 1 < P / c.PZ := (one_lt_div h.PZ_pos).mpr hP
  have h1 := rpow_inv_lt_one hx h.2.2.1
  have h2 : 0 < (P / c.PZ) ^ (c.d1)⁻¹ := Real.rpow_pos_of_pos (by linarith) _
  rw [pramN_eq, if_pos hP.le]
  exact ⟨rfl, by linarith, by linarith⟩

theorem pramN_below (h : c.Adm) {P : ℝ} (hP0 : 0 < P) (hP : P < c.PZ) :
    pramN c P = 1000 * (P / c.PZ) ^ (c.d2)⁻¹ ∧ 1000 < pramN c P := by
  have hx0 : 0 < P / c.PZ := div_pos hP0 h.PZ_pos
  have hx : P / c.PZ < 1 := (div_lt_one h.PZ_pos).mpr hP
  have h1 := one_lt_rpow_inv hx0 hx h.2.2.2
  rw [pramN_eq, if_neg (not_le.mpr hP)]
  exact ⟨rfl, by linarith⟩

/-- below the knee at `P_RAM_Z` and above the endurance value the life is below the life limit -/
theorem pramN_lt_limit (h : c.Adm) {P : ℝ} (hPD : c.PD < P) (hP : P < c.PZ) :
    pramN c P < pramLifeLimit c := by
  rw [(pramN_below h (lt_trans h.1 hPD) hP).1, pramLifeLimit_eq]
  have : c.PD / c.PZ < P / c.PZ := div_lt_div_of_pos_right hPD h.PZ_pos
  have := rpow_inv_anti h.ratio_pos this h.2.2.2
  linarith

theorem pramN_pos (h : c.Adm) {P : ℝ} (hP : 0 < P) : 0 < pramN c P := by
  rcases lt_trichotomy P c.PZ with hlt | heq | hgt
  · have := (pramN_below h hP hlt).2; linarith
  · rw [heq, pramN_at_PZ h]; norm_num
  · exact (pramN_above h hgt).2.2

theorem pramN_lt_limit' (h : c.Adm) {P : ℝ} (hPD : c.PD < P) : pramN c P < pramLifeLimit c := by
  rcases lt_trichotomy P c.PZ with hlt | heq | hgt
  · exact pramN_lt_limit h hPD hlt
  · rw [heq, pramN_at_PZ h]; exact h.knee_lt_limit
  · exact lt_trans (pramN_above h hgt).2.1 h.knee_lt_limit

/-- `calc_P_RAM ∘ N = id` on `P > 0` as long as the life stays below the life limit -/
theorem pramCalcP_pramN (h : c.Adm) {P : ℝ} (hPD : c.PD < P) : pramCalcP c (pramN c P) = P := by
  have hP0 : 0 < P := lt_trans h.1 hPD
  have hz := h.PZ_pos
  rcases lt_trichotomy P c.PZ with hlt | heq | hgt
  · obtain ⟨e, h1⟩ := pramN_below h hP0 hlt
    have h2 := pramN_lt_limit h hPD hlt
    rw [pramCalcP_eq, if_neg (not_lt.mpr h1.le), if_pos h2, e, mul_div_cancel_left₀ _ (by norm_num : (1000:ℝ) ≠ 0),
      rpow_inv_rpow' (div_pos hP0 hz).le h.2.2.2, mul_div_cancel₀ _ hz.ne']
  · rw [heq, pramN_at_PZ h, pramCalcP_eq, if_neg (lt_irrefl _), if_pos h.knee_lt_limit, div_self (by norm_num),
      Real.one_rpow, mul_one]
  · obtain ⟨e, h1, _⟩ := pramN_above h hgt
    rw [pramCalcP_eq, if_pos h1, e, mul_div_cancel_left₀ _ (by norm_num : (1000:ℝ) ≠ 0),
      rpow_inv_rpow' (div_pos hP0 hz).le h.2.2.1, mul_div_cancel₀ _ hz.ne']

/-- the `d_2` branch formula of `calc_P_RAM` at the life limit gives the endurance value -/
theorem pramCalcP_branch_at_limit (h : c.Adm) : c.PZ * (pramLifeLimit c / 1000) ^ c.d2 = c.PD := by
  rw [pramLifeLimit_eq, mul_div_cancel_left₀ _ (by norm_num : (1000:ℝ) ≠ 0),
    rpow_inv_rpow' h.ratio_pos.le h.2.2.2, mul_div_cancel₀ _ h.PZ_pos.ne']

theorem pramCalcP_lo (h : c.Adm) {N : ℝ} (hN0 : 0 < N) (hN : N < 1000) :
    pramCalcP c N = c.PZ * (N / 1000) ^ c.d1 ∧ c.PZ < pramCalcP c N := by
  have hx0 : 0 < N / 1000 := by positivity
  have hx : N / 1000 < 1 := by rw [div_lt_one (by norm_num)]; exact hN
  have := one_lt_rpow_neg hx0 hx h.2.2.1
  rw [pramCalcP_eq, if_pos hN]
  refine ⟨rfl, ?_⟩
  have hz := h.PZ_pos
  nlinarith

theorem pramCalcP_mid (h : c.Adm) {N : ℝ} (hN1 : 1000 ≤ N) (hN : N < pramLifeLimit c) :
    pramCalcP c N = c.PZ * (N / 1000) ^ c.d2 ∧ c.PD < pramCalcP c N ∧ pramCalcP c N ≤ c.PZ := by
  have hx0 : 0 < N / 1000 := by positivity
  rw [pramCalcP_eq, if_neg (not_lt.mpr hN1), if_pos hN]
  refine ⟨rfl, ?_, ?_⟩
  · rw [← pramCalcP_branch_at_limit h]
    have : N / 1000 < pramLifeLimit c / 1000 := div_lt_div_of_pos_right hN (by norm_num)
    have := rpow_anti hx0 this h.2.2.2
    have hz := h.PZ_pos
    nlinarith
  · rcases eq_or_lt_of_le hN1 with heq | hlt
    · rw [← heq, div_self (by norm_num), Real.one_rpow, mul_one]
    · have hx : 1 < N / 1000 := by rw [one_lt_div (by norm_num)]; exact hlt
      have := rpow_neg_lt_one hx h.2.2.2
      have hz := h.PZ_pos
      nlinarith

theorem pramCalcP_hi {N : ℝ} (hN : pramLifeLimit c ≤ N) (h : c.Adm) : pramCalcP c N = c.PD := by
  rw [pramCalcP_eq, if_neg (not_lt.mpr (le_trans h.knee_lt_limit.le hN)), if_neg (not_lt.mpr hN)]

/-- `N ∘ calc_P_RAM = id` on `0 < N < N_D` -/
theorem pramN_pramCalcP (h : c.Adm) {N : ℝ} (hN0 : 0 < N) (hN : N < pramLifeLimit c) :
    pramN c (pramCalcP c N) = N := by
  have hz := h.PZ_pos
  rcases lt_or_ge N 1000 with hlt | hge
  · obtain ⟨e, h1⟩ := pramCalcP_lo h hN0 hlt
    have hx0 : 0 < N / 1000 := by positivity
    rw [pramN_eq, if_pos h1.le, e, mul_div_cancel_left₀ _ hz.ne', rpow_rpow_inv' hx0.le h.2.2.1]
    field_simp
  · obtain ⟨e, h1, h2⟩ := pramCalcP_mid h hge hN
    have hx0 : 0 < N / 1000 := by positivity
    rcases eq_or_lt_of_le hge with heq | hgt
    · rw [← heq] at e ⊢
      rw [e, div_self (by norm_num), Real.one_rpow, mul_one, pramN_at_PZ h]
    · have hx : 1 < N / 1000 := by rw [one_lt_div (by norm_num)]; exact hgt
      have h3 := rpow_neg_lt_one hx h.2.2.2
      have h4 : pramCalcP c N < c.PZ := by rw [e]; nlinarith
      rw [pramN_eq, if_neg (not_le.mpr h4), e, mul_div_cancel_left₀ _ hz.ne', rpow_rpow_inv' hx0.le h.2.2.2]
      field_simp


/-- `N(P)` is strictly decreasing on `P > 0` -/
theorem pramN_strictAnti (h : c.Adm) {P₁ P₂ : ℝ} (h0 : 0 < P₁) (h12 : P₁ < P₂) : pramN c P₂ < pramN c P₁ := by
  have hz := h.PZ_pos
  have hx : P₁ / c.PZ < P₂ / c.PZ := div_lt_div_of_pos_right h12 hz
  have hx0 : 0 < P₁ / c.PZ := div_pos h0 hz
  rcases lt_or_ge P₂ c.PZ with h2 | h2
  · rw [(pramN_below h h0 (lt_trans h12 h2)).1, (pramN_below h (lt_trans h0 h12) h2).1]
    have := rpow_inv_anti hx0 hx h.2.2.2
    linarith
  · rcases lt_or_ge P₁ c.PZ with h1 | h1
    · have a := (pramN_below h h0 h1).2
      rcases eq_or_lt_of_le h2 with heq | hlt
      · rw [← heq, pramN_at_PZ h]; exact a
      · have b := (pramN_above h hlt).2.1
        linarith
    · rw [pramN_eq, pramN_eq, if_pos h2, if_pos h1]
      have := rpow_inv_anti hx0 hx h.2.2.1
      linarith

/-- `P(N)` is strictly decreasing on `0 < N ≤ N_D` -/
theorem pramCalcP_strictAnti (h : c.Adm) {N₁ N₂ : ℝ} (h0 : 0 < N₁) (h12 : N₁ < N₂) (h2 : N₂ ≤ pramLifeLimit c) :
    pramCalcP c N₂ < pramCalcP c N₁ := by
  have hz := h.PZ_pos
  have hx : N₁ / 1000 < N₂ / 1000 := div_lt_div_of_pos_right h12 (by norm_num)
  have hx0 : 0 < N₁ / 1000 := by positivity
  have hN1 : N₁ < pramLifeLimit c := lt_of_lt_of_le h12 h2
  rcases lt_or_ge N₂ 1000 with hb | hb
  · rw [(pramCalcP_lo h h0 (lt_trans h12 hb)).1, (pramCalcP_lo h (lt_trans h0 h12) hb).1]
    have := rpow_anti hx0 hx h.2.2.1
    nlinarith
  · have top : pramCalcP c N₂ ≤ c.PZ := by
      rcases eq_or_lt_of_le h2 with heq | hlt
      · rw [pramCalcP_hi (le_of_eq heq.symm) h]; exact h.2.1.le
      · exact (pramCalcP_mid h hb hlt).2.2
    rcases lt_or_ge N₁ 1000 with ha | ha
    · have := (pramCalcP_lo h h0 ha).2
      linarith
    · obtain ⟨e1, g1, _⟩ := pramCalcP_mid h ha hN1
      rcases eq_or_lt_of_le h2 with heq | hlt
      · rw [pramCalcP_hi (le_of_eq heq.symm) h]; exact g1
      · rw [e1, (pramCalcP_mid h hb hlt).1]
        have := rpow_anti hx0 hx h.2.2.2
        nlinarith

/-- `calc_P_RAM` with the conditions turned round (pointwise equal) -/
theorem pramCalcP_eq' (c : PramCurve ℝ) (N : ℝ) :
    pramCalcP c N = if 1000 ≤ N then (if pramLifeLimit c ≤ N then c.PD else c.PZ * (N / 1000) ^ c.d2)
      else c.PZ * (N / 1000) ^ c.d1 := by
  rw [pramCalcP_eq]
  split_ifs <;> first | rfl | (exfalso; linarith)

theorem pramN_eq' (c : PramCurve ℝ) (P : ℝ) :
    pramN c P = if c.PZ ≤ P then 1000 * (P / c.PZ) ^ (c.d1)⁻¹ else 1000 * (P / c.PZ) ^ (c.d2)⁻¹ := pramN_eq c P

theorem pramCalcP_continuousOn (h : c.Adm) : ContinuousOn (pramCalcP c) (Set.Ioi 0) := by
  rw [continuousOn_iff_continuous_domRestrict]
  have hfun : (Set.Ioi (0:ℝ)).domRestrict (pramCalcP c) = fun x : Set.Ioi (0:ℝ) =>
      if (1000:ℝ) ≤ x.1 then (if pramLifeLimit c ≤ x.1 then c.PD else c.PZ * (x.1 / 1000) ^ c.d2)
      else c.PZ * (x.1 / 1000) ^ c.d1 := by
    funext x; exact pramCalcP_eq' c x.1
  rw [hfun]
  have hne : ∀ x : Set.Ioi (0:ℝ), x.1 / 1000 ≠ 0 ∨ (0:ℝ) ≤ c.d1 := fun x => Or.inl (by
    have : 0 < x.1 := x.2
    positivity)
  have hne2 : ∀ x : Set.Ioi (0:ℝ), x.1 / 1000 ≠ 0 ∨ (0:ℝ) ≤ c.d2 := fun x => Or.inl (by
    have : 0 < x.1 := x.2
    positivity)
  have hv : Continuous fun x : Set.Ioi (0:ℝ) => x.1 := continuous_subtype_val
  have hdiv : Continuous fun x : Set.Ioi (0:ℝ) => x.1 / 1000 := hv.div_const _
  have hf1 : Continuous fun x : Set.Ioi (0:ℝ) => c.PZ * (x.1 / 1000) ^ c.d1 :=
    continuous_const.mul (hdiv.rpow_const hne)
  have hf2 : Continuous fun x : Set.Ioi (0:ℝ) => c.PZ * (x.1 / 1000) ^ c.d2 :=
    continuous_const.mul (hdiv.rpow_const hne2)
  have hinner : Continuous fun x : Set.Ioi (0:ℝ) =>
      if pramLifeLimit c ≤ x.1 then c.PD else c.PZ * (x.1 / 1000) ^ c.d2 := by
    refine Continuous.if_le continuous_const hf2 continuous_const hv ?_
    intro x hx
    rw [← hx, pramCalcP_branch_at_limit h]
  refine Continuous.if_le hinner hf1 continuous_const hv ?_
  intro x hx
  rw [← hx, if_neg (not_le.mpr h.knee_lt_limit), div_self (by norm_num), Real.one_rpow, Real.one_rpow]

theorem pramN_continuousOn (h : c.Adm) : ContinuousOn (pramN c) (Set.Ioi 0) := by
  rw [continuousOn_iff_continuous_domRestrict]
  have hfun : (Set.Ioi (0:ℝ)).domRestrict (pramN c) = fun x : Set.Ioi (0:ℝ) =>
      if c.PZ ≤ x.1 then 1000 * (x.1 / c.PZ) ^ (c.d1)⁻¹ else 1000 * (x.1 / c.PZ) ^ (c.d2)⁻¹ := by
    funext x; exact pramN_eq c x.1
  rw [hfun]
  have hz := h.PZ_pos
  have hne : ∀ (e : ℝ) (x : Set.Ioi (0:ℝ)), x.1 / c.PZ ≠ 0 ∨ (0:ℝ) ≤ e := fun e x => Or.inl (by
    have : 0 < x.1 := x.2
    positivity)
  have hv : Continuous fun x : Set.Ioi (0:ℝ) => x.1 := continuous_subtype_val
  have hdiv : Continuous fun x : Set.Ioi (0:ℝ) => x.1 / c.PZ := hv.div_const _
  refine Continuous.if_le (continuous_const.mul (hdiv.rpow_const (hne _)))
    (continuous_const.mul (hdiv.rpow_const (hne _))) continuous_const hv ?_
  intro x hx
  rw [← hx, div_self hz.ne', Real.one_rpow, Real.one_rpow]

end pram


/-! ### the P_RAJ curve -/
section praj
variable {c : PrajCurve ℝ}

/-- admissible P_RAJ curve: what `_validate` accepts plus a positive endurance value -/
def PrajCurve.Adm (c : PrajCurve ℝ) : Prop := 0 < c.PD0 ∧ c.PD0 < c.PZ ∧ c.d < 0

theorem prajN_eq (c : PrajCurve ℝ) (P : ℝ) : prajN c P = (P / c.PZ) ^ (c.d)⁻¹ := by
  simp only [prajN, transc_pow, lit_1, one_div]

theorem prajLifeLimit_eq (c : PrajCurve ℝ) : prajLifeLimit c = (c.PD0 / c.PZ) ^ (c.d)⁻¹ := by
  simp only [prajLifeLimit, transc_pow, lit_1, one_div]

theorem prajCalcP_eq (c : PrajCurve ℝ) (N : ℝ) :
    prajCalcP c N = if N < prajLifeLimit c then c.PZ * N ^ c.d else c.PD0 := by
  simp only [prajCalcP, transc_pow]

theorem PrajCurve.Adm.PZ_pos (h : c.Adm) : 0 < c.PZ := lt_trans h.1 h.2.1

theorem PrajCurve.Adm.limit_pos (h : c.Adm) : 0 < prajLifeLimit c := by
  rw [prajLifeLimit_eq]; exact Real.rpow_pos_of_pos (div_pos h.1 h.PZ_pos) _

/-- `P_RAJ_Z` is the value at `N = 1`, and the endurance knee lies to the right of it -/
theorem PrajCurve.Adm.one_lt_limit (h : c.Adm) : 1 < prajLifeLimit c := by
  rw [prajLifeLimit_eq]
  exact one_lt_rpow_inv (div_pos h.1 h.PZ_pos) ((div_lt_one h.PZ_pos).mpr h.2.1) h.2.2

theorem prajN_at_PZ (h : c.Adm) : prajN c c.PZ = 1 := by
  rw [prajN_eq, div_self h.PZ_pos.ne', Real.one_rpow]

theorem prajN_pos (h : c.Adm) {P : ℝ} (hP : 0 < P) : 0 < prajN c P := by
  rw [prajN_eq]; exact Real.rpow_pos_of_pos (div_pos hP h.PZ_pos) _

theorem prajN_strictAnti (h : c.Adm) {P₁ P₂ : ℝ} (h0 : 0 < P₁) (h12 : P₁ < P₂) : prajN c P₂ < prajN c P₁ := by
  rw [prajN_eq, prajN_eq]
  exact rpow_inv_anti (div_pos h0 h.PZ_pos) (div_lt_div_of_pos_right h12 h.PZ_pos) h.2.2

theorem prajN_lt_limit (h : c.Adm) {P : ℝ} (hP : c.PD0 < P) : prajN c P < prajLifeLimit c := by
  rw [prajN_eq, prajLifeLimit_eq]
  exact rpow_inv_anti (div_pos h.1 h.PZ_pos) (div_lt_div_of_pos_right hP h.PZ_pos) h.2.2

theorem prajCalcP_prajN (h : c.Adm) {P : ℝ} (hP : c.PD0 < P) : prajCalcP c (prajN c P) = P := by
  rw [prajCalcP_eq, if_pos (prajN_lt_limit h hP), prajN_eq,
    rpow_inv_rpow' (div_pos (lt_trans h.1 hP) h.PZ_pos).le h.2.2, mul_div_cancel₀ _ h.PZ_pos.ne']

theorem prajCalcP_branch_at_limit (h : c.Adm) : c.PZ * (prajLifeLimit c) ^ c.d = c.PD0 := by
  rw [prajLifeLimit_eq, rpow_inv_rpow' (div_pos h.1 h.PZ_pos).le h.2.2, mul_div_cancel₀ _ h.PZ_pos.ne']

theorem prajCalcP_lo (h : c.Adm) {N : ℝ} (hN0 : 0 < N) (hN : N < prajLifeLimit c) :
    prajCalcP c N = c.PZ * N ^ c.d ∧ c.PD0 < prajCalcP c N := by
  rw [prajCalcP_eq, if_pos hN]
  refine ⟨rfl, ?_⟩
  rw [← prajCalcP_branch_at_limit h]
  have := rpow_anti hN0 hN h.2.2
  have hz := h.PZ_pos
  nlinarith

theorem prajCalcP_hi {N : ℝ} (hN : prajLifeLimit c ≤ N) : prajCalcP c N = c.PD0 := by
  rw [prajCalcP_eq, if_neg (not_lt.mpr hN)]

theorem prajN_prajCalcP (h : c.Adm) {N : ℝ} (hN0 : 0 < N) (hN : N < prajLifeLimit c) :
    prajN c (prajCalcP c N) = N := by
  rw [(prajCalcP_lo h hN0 hN).1, prajN_eq, mul_div_cancel_left₀ _ h.PZ_pos.ne', rpow_rpow_inv' hN0.le h.2.2]

theorem prajCalcP_strictAnti (h : c.Adm) {N₁ N₂ : ℝ} (h0 : 0 < N₁) (h12 : N₁ < N₂) (h2 : N₂ ≤ prajLifeLimit c) :
    prajCalcP c N₂ < prajCalcP c N₁ := by
  have hN1 : N₁ < prajLifeLimit c := lt_of_lt_of_le h12 h2
  rcases eq_or_lt_of_le h2 with heq | hlt
  · rw [prajCalcP_hi (le_of_eq heq.symm)]; exact (prajCalcP_lo h h0 hN1).2
  · rw [(prajCalcP_lo h h0 hN1).1, (prajCalcP_lo h (lt_trans h0 h12) hlt).1]
    have := rpow_anti h0 h12 h.2.2
    have hz := h.PZ_pos
    nlinarith

theorem prajCalcP_continuousOn (h : c.Adm) : ContinuousOn (prajCalcP c) (Set.Ioi 0) := by
  rw [continuousOn_iff_continuous_domRestrict]
  have hfun : (Set.Ioi (0:ℝ)).domRestrict (prajCalcP c) = fun x : Set.Ioi (0:ℝ) =>
      if prajLifeLimit c ≤ x.1 then c.PD0 else c.PZ * x.1 ^ c.d := by
    funext x
    show prajCalcP c x.1 = _
    rw [prajCalcP_eq]
    split_ifs <;> first | rfl | (exfalso; linarith)
  rw [hfun]
  have hv : Continuous fun x : Set.Ioi (0:ℝ) => x.1 := continuous_subtype_val
  have hne : ∀ x : Set.Ioi (0:ℝ), x.1 ≠ 0 ∨ (0:ℝ) ≤ c.d := fun x => Or.inl (ne_of_gt x.2)
  refine Continuous.if_le continuous_const (continuous_const.mul (hv.rpow_const hne)) continuous_const hv ?_
  intro x hx
  rw [← hx, prajCalcP_branch_at_limit h]

theorem prajN_continuousOn (h : c.Adm) : ContinuousOn (prajN c) (Set.Ioi 0) := by
  rw [continuousOn_iff_continuous_domRestrict]
  have hfun : (Set.Ioi (0:ℝ)).domRestrict (prajN c) = fun x : Set.Ioi (0:ℝ) => (x.1 / c.PZ) ^ (c.d)⁻¹ := by
    funext x; exact prajN_eq c x.1
  rw [hfun]
  have hz := h.PZ_pos
  have hv : Continuous fun x : Set.Ioi (0:ℝ) => x.1 := continuous_subtype_val
  refine (hv.div_const _).rpow_const fun x => Or.inl ?_
  have : 0 < x.1 := x.2
  positivity

end praj

/-! ### the P_RAM row function -/

theorem mSigma_eq (aM bM Rm : ℝ) : mSigma aM bM Rm = aM / 1000 * Rm + bM := by
  simp only [mSigma, lit_1em3, mul_one_div]

theorem kFactor_eq (M Sm : ℝ) : kFactor M Sm = if 0 ≤ Sm then M * (M + 2) else M / 3 * (M / 3 + 2) := by
  simp only [kFactor, lit_0, lit_2, lit_3]

theorem pRAM_eq (M E Sa Sm ea : ℝ) :
    pRAM M E Sa Sm ea = if 0 ≤ Sa + kFactor M Sm * Sm then Real.sqrt ((Sa + kFactor M Sm * Sm) * ea * E) else 0 := by
  simp only [pRAM, pramDisc, lit_0, transc_sqrt]

/-! ### lists of damages -/
section lists

theorem firstGe_cumsum_le (v : ℝ) : ∀ (l : List ℝ) (acc : ℝ), firstGe v (cumsumFrom acc l) ≤ l.length
  | [], _ => by simp [cumsumFrom, firstGe]
  | x :: xs, acc => by
    simp only [cumsumFrom, firstGe, List.length_cons]
    split_ifs
    · have := firstGe_cumsum_le v xs (acc + x); omega
    · omega

/-- every prefix sum before the returned index is below `v` -/
theorem firstGe_cumsum_before (v : ℝ) : ∀ (l : List ℝ) (acc : ℝ) (j : Nat),
    j < firstGe v (cumsumFrom acc l) → acc + (l.take (j + 1)).sum < v
  | [], _, j => by simp [cumsumFrom, firstGe]
  | x :: xs, acc, j => by
    simp only [cumsumFrom, firstGe]
    split_ifs with hx
    · intro hj
      cases j with
      | zero => simpa using hx
      | succ j' =>
        have := firstGe_cumsum_before v xs (acc + x) j' (by omega)
        simp only [List.take_succ_cons, List.sum_cons]
        linarith
    · intro hj; omega

/-- the prefix sum at the returned index (if it is an index) has reached `v` -/
theorem firstGe_cumsum_at (v : ℝ) : ∀ (l : List ℝ) (acc : ℝ),
    firstGe v (cumsumFrom acc l) < l.length →
      v ≤ acc + (l.take (firstGe v (cumsumFrom acc l) + 1)).sum
  | [], _ => by simp [cumsumFrom, firstGe]
  | x :: xs, acc => by
    simp only [cumsumFrom, firstGe, List.length_cons]
    split_ifs with hx
    · intro hj
      have := firstGe_cumsum_at v xs (acc + x) (by omega)
      simp only [List.take_succ_cons, List.sum_cons]
      linarith
    · intro _
      simp only [zero_add, List.take_succ_cons, List.take_zero, List.sum_cons, List.sum_nil, add_zero]
      linarith

/-- with non-negative terms an index is returned exactly when the total reaches `v` -/
theorem firstGe_cumsum_lt_iff (v : ℝ) : ∀ (l : List ℝ) (acc : ℝ), acc < v → (∀ d ∈ l, 0 ≤ d) →
    (firstGe v (cumsumFrom acc l) < l.length ↔ v ≤ acc + l.sum)
  | [], acc, hacc, _ => by simp [cumsumFrom, firstGe, hacc]
  | x :: xs, acc, hacc, hnn => by
    have hxs : ∀ d ∈ xs, 0 ≤ d := fun d hd => hnn d (List.mem_cons_of_mem _ hd)
    have hsum : 0 ≤ xs.sum := List.sum_nonneg hxs
    simp only [cumsumFrom, firstGe, List.length_cons, List.sum_cons]
    split_ifs with hx
    · have := firstGe_cumsum_lt_iff v xs (acc + x) hx hxs
      rw [← add_assoc, ← this]; omega
    · constructor
      · intro _; linarith
      · intro _; omega

theorem firstGeNum_eq (v : ℝ) : ∀ l : List ℝ, firstGeNum v l = (firstGe v l : ℝ)
  | [] => by simp [firstGeNum, firstGe, lit_0]
  | x :: xs => by
    simp only [firstGeNum, firstGe, lit_0, lit_1]
    split_ifs
    · rw [firstGeNum_eq v xs]; push_cast; ring
    · simp

theorem countRun_eq (r : Nat) : ∀ ds : List (ℝ × Nat), countRun r ds = ((ds.filter (fun p => p.2 = r)).length : ℝ)
  | [] => by simp [countRun, lit_0]
  | (d, q) :: rest => by
    simp only [countRun, lit_1]
    by_cases h : q = r
    · simp [h, countRun_eq r rest]
    · simp [h, countRun_eq r rest]

theorem sumRun_split : ∀ ds : List (ℝ × Nat), (∀ p ∈ ds, p.2 = 1 ∨ p.2 = 2) →
    (ds.map (·.1)).sum = sumRun 1 ds + sumRun 2 ds
  | [], _ => by simp [sumRun, lit_0]
  | (d, q) :: rest, h => by
    have hr := sumRun_split rest (fun p hp => h p (List.mem_cons_of_mem _ hp))
    have hq := h (d, q) List.mem_cons_self
    simp only [List.map_cons, List.sum_cons, sumRun, hr]
    rcases hq with hq | hq <;> simp at hq <;> subst hq <;> simp <;> ring

theorem sumRun_nonneg (r : Nat) : ∀ ds : List (ℝ × Nat), (∀ p ∈ ds, 0 ≤ p.1) → 0 ≤ sumRun r ds
  | [], _ => by simp [sumRun, lit_0]
  | (d, q) :: rest, h => by
    have hr := sumRun_nonneg r rest (fun p hp => h p (List.mem_cons_of_mem _ hp))
    have hd : 0 ≤ d := h (d, q) List.mem_cons_self
    simp only [sumRun]
    split_ifs
    · linarith
    · exact hr

theorem xOf_eq (D1 D2 : ℝ) : xOf D1 D2 = (1 - D1) / D2 := by
  simp only [xOf, lit_0, lit_1]
  split_ifs with h
  · have : D1 = 0 := le_antisymm h.1 h.2
    rw [this, sub_zero]
  · rfl

end lists

/-! ### `np.isclose` and the β table -/

theorem isclose_iff (a b : ℝ) : isclose a b ↔ |a - b| ≤ 1 / 100000000 + 1 / 100000 * |b| := by
  simp only [isclose, transc_abs]
  norm_num

theorem isclose_self_pos (a : ℝ) : isclose a a := by
  rw [isclose_iff, sub_self, abs_zero]; positivity


theorem isclose_num (a b : ℝ) (hb : 0 ≤ b) : isclose a b ↔
    (-(1 / 100000000 + 1 / 100000 * b) ≤ a - b ∧ a - b ≤ 1 / 100000000 + 1 / 100000 * b) := by
  rw [isclose_iff, abs_of_nonneg hb, abs_le]

end PylifeVerif.FkmNl
