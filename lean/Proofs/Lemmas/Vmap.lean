/-
Helper lemmas for C20 (VMAP round trip): sorted distinct keys, grouping by element, association lists.
-/
import Model.Vmap
import Mathlib.Data.List.Nodup
import Mathlib.Data.List.Perm.Basic

set_option linter.unusedSimpArgs false

namespace PylifeVerif.Vmap

/-! ### `sortU`: sorted distinct keys -/

theorem mem_insertU {a x : Int} {l : List Int} : x ∈ insertU a l ↔ x = a ∨ x ∈ l := by
  induction l with
  | nil => simp [insertU]
  | cons b l ih =>
    unfold insertU
    split
    · simp
    · split
      · subst_vars; simp
      · simp [ih]; tauto

theorem insertU_sorted {a : Int} {l : List Int} (h : l.Pairwise (· < ·)) : (insertU a l).Pairwise (· < ·) := by
  induction l with
  | nil => simp [insertU]
  | cons b l ih =>
    unfold insertU
    rw [List.pairwise_cons] at h
    split
    · rename_i hab
      refine List.pairwise_cons.2 ⟨?_, List.pairwise_cons.2 h⟩
      intro x hx
      rcases List.mem_cons.1 hx with rfl | hx
      · exact hab
      · exact Int.lt_trans hab (h.1 x hx)
    · split
      · exact List.pairwise_cons.2 h
      · rename_i h1 h2
        refine List.pairwise_cons.2 ⟨?_, ih h.2⟩
        intro x hx
        rcases mem_insertU.1 hx with rfl | hx
        · omega
        · exact h.1 x hx

theorem mem_sortU {x : Int} {l : List Int} : x ∈ sortU l ↔ x ∈ l := by
  induction l with
  | nil => simp [sortU]
  | cons a l ih =>
    have : sortU (a :: l) = insertU a (sortU l) := rfl
    rw [this, mem_insertU, ih]; simp

theorem sortU_sorted (l : List Int) : (sortU l).Pairwise (· < ·) := by
  induction l with
  | nil => simp [sortU]
  | cons a l ih =>
    have : sortU (a :: l) = insertU a (sortU l) := rfl
    rw [this]; exact insertU_sorted ih

theorem sortU_nodup (l : List Int) : (sortU l).Nodup :=
  (sortU_sorted l).imp (fun h => Int.ne_of_lt h)

/-! ### grouping by element -/

variable {V : Type}

theorem mem_elemRows {rows : List (Row V)} {e : Int} {r : Row V} :
    r ∈ elemRows rows e ↔ r ∈ rows ∧ r.eid = e := by
  simp [elemRows]

theorem elemRows_filter_ne {rows : List (Row V)} {a b : Int} (h : b ≠ a) :
    elemRows (rows.filter (fun r => !(r.eid == a))) b = elemRows rows b := by
  unfold elemRows
  rw [List.filter_filter]
  apply List.filter_congr
  intro r _
  by_cases hb : r.eid = b
  · simp [hb, h]
  · simp [hb]

/-- The groups of all occurring element ids, concatenated, are a rearrangement of the frame. -/
theorem flatMap_elemRows_perm (ids : List Int) : ∀ (rows : List (Row V)), ids.Nodup →
    (∀ r ∈ rows, r.eid ∈ ids) → (ids.flatMap (elemRows rows)).Perm rows := by
  induction ids with
  | nil =>
    intro rows _ h
    cases rows with
    | nil => simp
    | cons r rs => exact absurd (h r (by simp)) (by simp)
  | cons a ids ih =>
    intro rows hnd h
    rw [List.nodup_cons] at hnd
    have hrest : ids.flatMap (elemRows rows) = ids.flatMap (elemRows (rows.filter (fun r => !(r.eid == a)))) := by
      apply List.flatMap_congr
      intro b hb
      rw [elemRows_filter_ne]
      rintro rfl; exact hnd.1 hb
    rw [List.flatMap_cons, hrest]
    have h2 : (ids.flatMap (elemRows (rows.filter (fun r => !(r.eid == a))))).Perm
        (rows.filter (fun r => !(r.eid == a))) := by
      apply ih _ hnd.2
      intro r hr
      rw [List.mem_filter] at hr
      have := h r hr.1
      rcases List.mem_cons.1 this with h' | h'
      · simp [h'] at hr
      · exact h'
    exact (List.Perm.append_left _ h2).trans (List.filter_append_perm _ rows)

theorem byElement_perm (rows : List (Row V)) : (byElement rows).Perm rows :=
  flatMap_elemRows_perm _ rows (sortU_nodup _) (fun _ hr => mem_sortU.2 (List.mem_map_of_mem hr))

theorem mem_byElement {rows : List (Row V)} {r : Row V} : r ∈ byElement rows ↔ r ∈ rows :=
  (byElement_perm rows).mem_iff

theorem filter_flatMap_elemRows (rows : List (Row V)) (e : Int) : ∀ (ids : List Int), ids.Nodup →
    (ids.flatMap (elemRows rows)).filter (fun r => r.eid == e) = if e ∈ ids then elemRows rows e else [] := by
  intro ids
  induction ids with
  | nil => simp
  | cons a ids ih =>
    intro hnd
    rw [List.nodup_cons] at hnd
    rw [List.flatMap_cons, List.filter_append, ih hnd.2]
    by_cases hae : a = e
    · subst hae
      have : (elemRows rows a).filter (fun r => r.eid == a) = elemRows rows a := by
        apply List.filter_eq_self.2
        intro r hr
        simp [(mem_elemRows.1 hr).2]
      simp [this, hnd.1]
    · have : (elemRows rows a).filter (fun r => r.eid == e) = [] := by
        apply List.filter_eq_nil_iff.2
        intro r hr
        have := (mem_elemRows.1 hr).2
        simp [this, hae]
      have hea : ¬ e = a := fun h => hae h.symm
      simp [this, hea]

/-- Stability: the rows of every element keep their frame order. -/
theorem byElement_filter (rows : List (Row V)) (e : Int) :
    (byElement rows).filter (fun r => r.eid == e) = elemRows rows e := by
  unfold byElement
  rw [filter_flatMap_elemRows rows e _ (sortU_nodup _)]
  split
  · rfl
  · rename_i h
    symm
    apply List.filter_eq_nil_iff.2
    intro r hr hre
    apply h
    rw [mem_sortU]
    have : r.eid = e := by simpa using hre
    exact this ▸ List.mem_map_of_mem hr

/-- Ordered by element id. -/
theorem byElement_sorted (rows : List (Row V)) : (byElement rows).Pairwise (fun a b => a.eid ≤ b.eid) := by
  unfold byElement
  have hs := sortU_sorted (rows.map (·.eid))
  generalize sortU (rows.map (·.eid)) = ids at hs
  induction ids with
  | nil => simp
  | cons a ids ih =>
    rw [List.pairwise_cons] at hs
    rw [List.flatMap_cons, List.pairwise_append]
    refine ⟨?_, ih hs.2, ?_⟩
    · apply List.Pairwise.imp_of_mem (R := fun _ _ => True)
      · intro x y hx hy _
        have hx := (mem_elemRows.1 hx).2
        have hy := (mem_elemRows.1 hy).2
        omega
      · exact List.pairwise_of_forall (fun _ _ => trivial)
    · intro x hx y hy
      have hx := (mem_elemRows.1 hx).2
      obtain ⟨b, hb, hy⟩ := List.mem_flatMap.1 hy
      have hy := (mem_elemRows.1 hy).2
      have := hs.1 b hb
      omega

/-! ### association lists -/

section assoc
variable {α β : Type} [BEq α] [LawfulBEq α]

theorem lookup_none_iff {k : α} {l : List (α × β)} : l.lookup k = none ↔ ∀ p ∈ l, p.1 ≠ k := by
  induction l with
  | nil => simp
  | cons p l ih =>
    obtain ⟨a, b⟩ := p
    by_cases h : k = a
    · subst h; simp [List.lookup_cons]
    · have h' : (k == a) = false := by simpa using h
      rw [List.lookup_cons, h']
      simp only [ih, List.mem_cons, forall_eq_or_imp, ne_eq]
      constructor
      · intro hh; exact ⟨fun e => h e.symm, hh⟩
      · intro hh; exact hh.2

theorem eraseKey_append_self {k : α} {v : β} {l : List (α × β)} (h : l.lookup k = none) :
    eraseKey k (l ++ [(k, v)]) = l := by
  unfold eraseKey
  rw [List.filter_append]
  have h1 : l.filter (fun p => !(p.1 == k)) = l := by
    apply List.filter_eq_self.2
    intro p hp
    have := lookup_none_iff.1 h p hp
    simpa using this
  simp [h1]

theorem lookup_setKey_append {k : α} {v w : β} (l : List (α × β)) :
    (setKey k v (l ++ [(k, w)])).lookup k = some v := by
  induction l with
  | nil => simp [setKey, List.lookup_cons]
  | cons p l ih =>
    obtain ⟨a, b⟩ := p
    by_cases h : a = k
    · subst h; simp [setKey, List.lookup_cons]
    · have h' : (a == k) = false := by simpa using h
      have h'' : (k == a) = false := by simpa using fun e : k = a => h e.symm
      have : setKey k v ((a, b) :: l ++ [(k, w)]) = (a, b) :: setKey k v (l ++ [(k, w)]) := by
        simp [setKey, h']
      rw [this, List.lookup_cons, h'']
      exact ih

theorem lookup_setKey_self {k : α} {v w : β} {l : List (α × β)} (h : l.lookup k = some w) :
    (setKey k v l).lookup k = some v := by
  induction l with
  | nil => simp at h
  | cons p l ih =>
    obtain ⟨a, b⟩ := p
    by_cases hak : a = k
    · subst hak; simp [setKey, List.lookup_cons]
    · have h' : (a == k) = false := by simpa using hak
      have h'' : (k == a) = false := by simpa using fun e : k = a => hak e.symm
      have : setKey k v ((a, b) :: l) = (a, b) :: setKey k v l := by simp [setKey, h']
      rw [this, List.lookup_cons, h'']
      rw [List.lookup_cons, h''] at h
      exact ih h

theorem lookup_setKey_ne {k k' : α} {v : β} (l : List (α × β)) (h : k' ≠ k) :
    (setKey k v l).lookup k' = l.lookup k' := by
  induction l with
  | nil => simp [setKey]
  | cons p l ih =>
    obtain ⟨a, b⟩ := p
    by_cases hak : a = k
    · subst hak
      have h' : (k' == a) = false := by simpa using h
      have : setKey a v ((a, b) :: l) = (a, v) :: setKey a v l := by simp [setKey]
      rw [this, List.lookup_cons, List.lookup_cons, h', ih]
    · have h' : (a == k) = false := by simpa using hak
      have : setKey k v ((a, b) :: l) = (a, b) :: setKey k v l := by simp [setKey, h']
      rw [this, List.lookup_cons, List.lookup_cons, ih]

omit [LawfulBEq α] in
theorem lookup_append_of_some {k : α} {w : β} {l l' : List (α × β)} (h : l.lookup k = some w) :
    (l ++ l').lookup k = some w := by
  induction l with
  | nil => simp at h
  | cons p l ih =>
    obtain ⟨a, b⟩ := p
    rw [List.cons_append, List.lookup_cons]
    rw [List.lookup_cons] at h
    cases hka : k == a with
    | true => simpa [hka] using h
    | false => rw [hka] at h; exact ih h

theorem lookup_zip_map (l : List α) (g : α → β) (a : α) :
    (l.zip (l.map g)).lookup a = if a ∈ l then some (g a) else none := by
  induction l with
  | nil => simp
  | cons b l ih =>
    by_cases h : a = b
    · subst h; simp [List.lookup_cons]
    · have h' : (a == b) = false := by simpa using h
      simp only [List.map_cons, List.zip_cons_cons, List.lookup_cons, h', ih, List.mem_cons, h, false_or]

theorem lookup_zip_map_map {γ : Type} (l : List γ) (f : γ → α) (g : γ → β) (k : α) :
    ((l.map f).zip (l.map g)).lookup k = (l.find? (fun x => f x == k)).map g := by
  induction l with
  | nil => simp
  | cons b l ih =>
    by_cases h : k = f b
    · subst h; simp [List.lookup_cons]
    · have h' : (k == f b) = false := by simpa using h
      have h'' : (f b == k) = false := by simpa using fun e : f b = k => h e.symm
      simp only [List.map_cons, List.zip_cons_cons, List.lookup_cons, h', ih, List.find?_cons, h'']

end assoc

/-- In a frame with distinct (element, node) pairs a key finds its own row. -/
theorem find_key_of_nodup {rows l : List (Row V)} (hnd : (rows.map Row.key).Nodup)
    (hl : ∀ x, x ∈ l ↔ x ∈ rows) {r : Row V} (hr : r ∈ rows) :
    l.find? (fun x => x.key == r.key) = some r := by
  cases hf : l.find? (fun x => x.key == r.key) with
  | none =>
    rw [List.find?_eq_none] at hf
    have := hf r ((hl r).2 hr)
    simp at this
  | some r' =>
    have hmem := (hl r').1 (List.mem_of_find?_eq_some hf)
    have hkey : r'.key = r.key := by simpa using List.find?_some hf
    rw [List.inj_on_of_nodup_map hnd hmem hr hkey]

/-! ### what a successful export stores -/

/-- The link between a stored geometry and the frame it was exported from. -/
structure ExportedFrom [Cell V] (g : Geometry V) (fr : Frame V) (idx : List Nat) : Prop where
  mesh : meshIndex g = (byElement fr.rows).map Row.key
  ids : g.pointIds = nodeIds fr
  coords : g.coords = g.pointIds.map (nodeValue fr.rows idx)
  ncoord : ["x", "y", "z"].take g.ncoord = coordNames fr
  ncoord_len : g.ncoord = (coordNames fr).length
  cidx : colIdx fr.cols (coordNames fr) = some idx
  /-- the stored elements are the frame's connectivity (element ids ascending, nodes in frame order) -/
  elems : g.elements.map (fun el => (el.1, el.2.2)) = connectivity fr.rows

theorem coordNames_take (fr : Frame V) : ["x", "y", "z"].take (coordNames fr).length = coordNames fr := by
  unfold coordNames
  split <;> rfl

theorem buildPoints_ok [Cell V] {fr : Frame V} {ids : List Int} {nc : Nat}
    {coords : List (List V)} (h : buildPoints fr = .ok (ids, nc, coords)) :
    ids = nodeIds fr ∧ nc = (coordNames fr).length ∧ (nodeIds fr).all fits32 = true ∧
      (fr.cols.contains "z" = true → nodeIds fr ≠ []) ∧
      (coordNames fr).any (fun c => fr.objCols.contains c) = false ∧
      ∃ idx, colIdx fr.cols (coordNames fr) = some idx ∧ coords = ids.map (nodeValue fr.rows idx) := by
  unfold buildPoints at h
  dsimp only at h
  split at h
  · simp at h
  · rename_i hfit
    split at h
    · simp at h
    · rename_i hz
      split at h
      · simp at h
      · rename_i idx hidx
        split at h
        · simp at h
        · rename_i hobj
          simp only [Except.ok.injEq, Prod.mk.injEq] at h
          obtain ⟨h1, h2, h3⟩ := h
          subst h1 h2 h3
          refine ⟨rfl, rfl, by simpa using hfit, ?_, by simpa using hobj, idx, hidx, rfl⟩
          intro hzt hnil
          apply hz
          rw [hzt, hnil]; rfl

theorem meshIndex_connectivity (rows : List (Row V)) (t : Int × List Int → Nat) (ids : List Int) (nc : Nat)
    (coords : List (List V)) (sets : List GSet) :
    meshIndex ⟨ids, nc, coords, (connectivity rows).map (fun c => (c.1, t c, c.2)), sets⟩
      = (byElement rows).map Row.key := by
  unfold meshIndex connectivity byElement
  simp only [List.flatMap_map, List.map_flatMap, List.map_map]
  apply List.flatMap_congr
  intro e _
  simp only [Function.comp_def, List.map_map]
  apply List.map_congr_left
  intro r hr
  simp [Row.key, (mem_elemRows.1 hr).2]

theorem buildElements_ok {dim : Nat} {fr : Frame V} {els : List (Int × Nat × List Int)}
    (h : buildElements dim fr = .ok els) :
    els = (connectivity fr.rows).map (fun c => (c.1, (elemType dim c.2.length).getD 0, c.2)) ∧
      (elemIds fr).all fits32 = true ∧
      (connectivity fr.rows).all (fun c => (elemType dim c.2.length).isSome) = true := by
  unfold buildElements at h
  dsimp only at h
  split at h
  · simp at h
  · rename_i hfit
    split at h
    · rename_i hall
      exact ⟨by simpa using h.symm, by simpa using hfit, hall⟩
    · simp at h

theorem lookup_isSome_false {α β : Type} [BEq α] {k : α} {l : List (α × β)} (h : ¬ (l.lookup k).isSome = true) :
    l.lookup k = none := by
  cases hh : l.lookup k with
  | none => rfl
  | some x => simp [hh] at h

/-- A successful `add_geometry`: the name was free and the stored geometry is linked to the frame. -/
theorem addGeometry_ok [Cell V] {f : File V} {name : String} {fr : Frame V}
    (h : (addGeometry f name fr).2 = none) :
    f.geoms.lookup name = none ∧ ∃ g idx, (addGeometry f name fr).1.geoms.lookup name = some g ∧
      ExportedFrom g fr idx ∧ g.sets = [] ∧
      (addGeometry f name fr).1.groups = f.groups ∧ (addGeometry f name fr).1.vars = f.vars ∧
      g.elements = (connectivity fr.rows).map (fun c => (c.1, (elemType (ownDim fr) c.2.length).getD 0, c.2)) ∧
      (nodeIds fr).all fits32 = true ∧ (elemIds fr).all fits32 = true ∧
      (connectivity fr.rows).all (fun c => (elemType (ownDim fr) c.2.length).isSome) = true := by
  unfold addGeometry at h ⊢
  split at h
  · simp at h
  · rename_i hl
    have hl' : f.geoms.lookup name = none := lookup_isSome_false hl
    simp only [hl, if_false, Bool.false_eq_true]
    split at h
    · simp at h
    · rename_i ids nc coords hbp
      split at h
      · simp at h
      · rename_i els hbe
        obtain ⟨h1, h2, h3, _, _, idx, h5, h6⟩ := buildPoints_ok hbp
        obtain ⟨h7, h8, h9⟩ := buildElements_ok hbe
        refine ⟨hl', ⟨ids, nc, coords, els, []⟩, idx, ?_, ?_, rfl, ?_, ?_, h7, h3, h8, h9⟩
        · simp only [hbe]
          exact lookup_setKey_append _
        · subst h7
          exact ⟨meshIndex_connectivity _ _ _ _ _ _, h1, h6, by subst h2; exact coordNames_take fr, h2, h5,
            by simp [List.map_map, Function.comp_def]⟩
        · simp only [hbe]
        · simp only [hbe]

/-- A failed `add_geometry` returns the file it was given. -/
theorem addGeometry_err [Cell V] {f : File V} {name : String} {fr : Frame V} {e : Err}
    (h : (addGeometry f name fr).2 = some e) : (addGeometry f name fr).1 = f := by
  unfold addGeometry at h ⊢
  split
  · rfl
  · rename_i hl
    have hl' : f.geoms.lookup name = none := lookup_isSome_false hl
    split
    · simp [eraseKey_append_self hl']
    · split
      · simp [eraseKey_append_self hl']
      · rename_i hbp _ _ hbe
        simp [hl, hbp, hbe] at h

theorem colIdx_length {cols names : List String} {idx : List Nat} (h : colIdx cols names = some idx) :
    idx.length = names.length := by
  unfold colIdx at h
  split at h
  · simp only [Option.some.injEq] at h; subst h; simp
  · simp at h

theorem ensureGroup_facts (f : File V) (state geom : String) :
    (ensureGroup f state geom).geoms = f.geoms ∧ (ensureGroup f state geom).vars = f.vars ∧
      (ensureGroup f state geom).groups.contains (state, geom) = true ∧
      (∀ p ∈ (ensureGroup f state geom).groups, p ∈ f.groups ∨ p = (state, geom)) ∧
      ∀ p ∈ f.groups, p ∈ (ensureGroup f state geom).groups := by
  unfold ensureGroup
  split
  · rename_i h
    exact ⟨rfl, rfl, h, fun p hp => Or.inl hp, fun p hp => hp⟩
  · refine ⟨rfl, rfl, by simp, fun p hp => ?_, fun p hp => by simp [hp]⟩
    simpa using hp

/-! ### element nodal variables: the stored (element, node) pairs -/

theorem allDistinct_iff {l : List (Int × Int)} : allDistinct l = true ↔ l.Nodup := by
  induction l with
  | nil => simp [allDistinct]
  | cons a l ih => simp [allDistinct, ih]

theorem connectivity_ids (rows : List (Row V)) : (connectivity rows).map (·.1) = sortU (rows.map (·.eid)) := by
  simp [connectivity, List.map_map, Function.comp_def]

/-- The element ids of an exported geometry are the frame's element ids (ascending, distinct). -/
theorem exported_elem_ids [Cell V] {g : Geometry V} {fr : Frame V} {cidx : List Nat} (hx : ExportedFrom g fr cidx) :
    g.elements.map (·.1) = elemIds fr := by
  have h := congrArg (List.map (·.1)) hx.elems
  rw [connectivity_ids] at h
  simp only [List.map_map, Function.comp_def] at h
  exact h

theorem exported_elem_ids_nodup [Cell V] {g : Geometry V} {fr : Frame V} {cidx : List Nat} (hx : ExportedFrom g fr cidx) :
    (g.elements.map (·.1)).Nodup := by
  rw [exported_elem_ids hx]; exact sortU_nodup _

theorem filter_block_self (e : Int) (l : List Int) :
    (l.map (fun n => (e, n))).filter (fun k => k.1 == e) = l.map (fun n => (e, n)) := by
  apply List.filter_eq_self.2
  intro k hk
  obtain ⟨n, _, rfl⟩ := List.mem_map.1 hk
  simp

theorem filter_block_ne {e e' : Int} (h : e ≠ e') (l : List Int) :
    (l.map (fun n => (e, n))).filter (fun k => k.1 == e') = [] := by
  apply List.filter_eq_nil_iff.2
  intro k hk
  obtain ⟨n, _, rfl⟩ := List.mem_map.1 hk
  simpa using h

/-- In a list of elements with distinct ids the index entries of one element are its own block. -/
theorem filter_blocks (els : List (Int × Nat × List Int)) (hnd : (els.map (·.1)).Nodup)
    {el : Int × Nat × List Int} (hel : el ∈ els) :
    (els.flatMap (fun el => el.2.2.map (fun n => (el.1, n)))).filter (fun k => k.1 == el.1)
      = el.2.2.map (fun n => (el.1, n)) := by
  induction els with
  | nil => cases hel
  | cons a els ih =>
    rw [List.map_cons, List.nodup_cons] at hnd
    rw [List.flatMap_cons, List.filter_append]
    rcases List.mem_cons.1 hel with rfl | hel'
    · rw [filter_block_self]
      have : (els.flatMap (fun el => el.2.2.map (fun n => (el.1, n)))).filter (fun k => k.1 == el.1) = [] := by
        apply List.filter_eq_nil_iff.2
        intro k hk
        obtain ⟨b, hb, hk⟩ := List.mem_flatMap.1 hk
        obtain ⟨n, _, rfl⟩ := List.mem_map.1 hk
        have : b.1 ≠ el.1 := by
          intro heq
          exact hnd.1 (heq ▸ List.mem_map_of_mem hb)
        simpa using this
      rw [this, List.append_nil]
    · have hne : a.1 ≠ el.1 := by
        intro heq
        exact hnd.1 (heq ▸ List.mem_map_of_mem hel')
      rw [filter_block_ne hne, List.nil_append]
      exact ih hnd.2 hel'

/-- The index the importer rebuilds for an element nodal variable is the exporter's target order. -/
theorem varIndex_eq_enTarget (g : Geometry V) (vfr : Frame V) (v : Variable V)
    (hnd : (g.elements.map (·.1)).Nodup) (hids : v.ids = (enElements g vfr).map (·.1)) :
    varIndex g v = enTarget g vfr := by
  unfold varIndex enTarget meshIndex
  rw [hids, List.flatMap_map]
  apply List.flatMap_congr
  intro el hel
  exact filter_blocks g.elements hnd (List.mem_of_mem_filter hel)

theorem rowAt_of_mem {rows : List (Row V)} {k : Int × Int} (hk : k ∈ rows.map Row.key) :
    ∃ r, rowAt rows k = some r ∧ r ∈ rows ∧ r.key = k := by
  unfold rowAt
  cases hf : rows.find? (fun r => r.key == k) with
  | none =>
    rw [List.find?_eq_none] at hf
    obtain ⟨r, hr, rfl⟩ := List.mem_map.1 hk
    have := hf r hr
    simp at this
  | some r =>
    exact ⟨r, rfl, List.mem_of_find?_eq_some hf, by simpa using List.find?_some hf⟩

theorem rowAt_own {rows : List (Row V)} (hnd : (rows.map Row.key).Nodup) {r : Row V} (hr : r ∈ rows) :
    rowAt rows r.key = some r :=
  find_key_of_nodup hnd (fun _ => Iff.rfl) hr

theorem length_filterMap_of_isSome {α β : Type} (F : α → Option β) (l : List α) (h : ∀ k ∈ l, (F k).isSome = true) :
    (l.filterMap F).length = l.length := by
  induction l with
  | nil => rfl
  | cons a l ih =>
    obtain ⟨b, hb⟩ := Option.isSome_iff_exists.1 (h a (by simp))
    rw [List.filterMap_cons_some hb, List.length_cons, List.length_cons, ih (fun k hk => h k (by simp [hk]))]

theorem lookup_zip_filterMap {α β : Type} [BEq α] [LawfulBEq α] (F : α → Option β) (l : List α)
    (h : ∀ k ∈ l, (F k).isSome = true) (k : α) :
    (l.zip (l.filterMap F)).lookup k = if k ∈ l then F k else none := by
  induction l with
  | nil => simp
  | cons a l ih =>
    obtain ⟨b, hb⟩ := Option.isSome_iff_exists.1 (h a (by simp))
    have ih' := ih (fun k hk => h k (by simp [hk]))
    rw [List.filterMap_cons_some hb, List.zip_cons_cons, List.lookup_cons]
    by_cases hka : k = a
    · subst hka; simp [hb]
    · have h' : (k == a) = false := by simpa using hka
      rw [h', ih']
      simp [hka]

/-- What `buildVariable` returns for ELEMENT_NODAL, and what it has checked. -/
theorem buildVariable_six_some [Cell V] {g : Geometry V} {vfr : Frame V} {idx : List Nat} {v : Variable V}
    (h : buildVariable 6 g vfr idx = some v) :
    v = ⟨6, idx.length, (enElements g vfr).map (·.1),
          (enTarget g vfr).filterMap (fun k => (rowAt vfr.rows k).map (selRow idx))⟩ ∧
      (vfr.rows.map Row.key).Nodup ∧ (∀ k ∈ enTarget g vfr, k ∈ vfr.rows.map Row.key) ∧
      (vfr.rows.map Row.key).length = (enTarget g vfr).length := by
  unfold buildVariable at h
  rw [if_neg (by decide)] at h
  dsimp only at h
  split at h
  · rename_i hc
    simp only [Bool.and_eq_true, List.all_eq_true, beq_iff_eq] at hc
    obtain ⟨⟨h1, h2⟩, h3⟩ := hc
    refine ⟨(Option.some.inj h).symm, allDistinct_iff.1 h1, fun k hk => ?_, h3⟩
    simpa using h2 k hk
  · cases h

theorem buildVariable_six_of_perm [Cell V] {g : Geometry V} {vfr : Frame V} (idx : List Nat)
    (hnd : (vfr.rows.map Row.key).Nodup) (hp : (vfr.rows.map Row.key).Perm (enTarget g vfr)) :
    buildVariable 6 g vfr idx = some ⟨6, idx.length, (enElements g vfr).map (·.1),
          (enTarget g vfr).filterMap (fun k => (rowAt vfr.rows k).map (selRow idx))⟩ := by
  have h1 := allDistinct_iff.2 hnd
  have h2 : (enTarget g vfr).all (fun k => (vfr.rows.map Row.key).contains k) = true := by
    rw [List.all_eq_true]
    intro k hk
    simpa using hp.mem_iff.2 hk
  have h3 : ((vfr.rows.map Row.key).length == (enTarget g vfr).length) = true := by
    simpa using hp.length_eq
  unfold buildVariable
  rw [if_neg (by decide)]
  simp only [h1, h2, h3, Bool.and_self, if_true]

/-- `buildVariable` looks at the geometry's elements only through their ids and connectivities. -/
theorem enElements_map (g : Geometry V) (vfr : Frame V) :
    (enElements g vfr).map (fun el => (el.1, el.2.2))
      = (g.elements.map (fun el => (el.1, el.2.2))).filter (fun c => (vfr.rows.map (·.eid)).contains c.1) := by
  unfold enElements
  rw [List.filter_map]
  rfl

theorem enTarget_via_map (g : Geometry V) (vfr : Frame V) :
    enTarget g vfr = ((enElements g vfr).map (fun el => (el.1, el.2.2))).flatMap (fun c => c.2.map (fun n => (c.1, n))) := by
  unfold enTarget
  rw [List.flatMap_map]

theorem buildVariable_congr [Cell V] {g g' : Geometry V}
    (h : g.elements.map (fun el => (el.1, el.2.2)) = g'.elements.map (fun el => (el.1, el.2.2)))
    (l : Nat) (vfr : Frame V) (idx : List Nat) : buildVariable l g vfr idx = buildVariable l g' vfr idx := by
  have h1 : (enElements g vfr).map (fun el => (el.1, el.2.2)) = (enElements g' vfr).map (fun el => (el.1, el.2.2)) := by
    rw [enElements_map, enElements_map, h]
  have h2 : enTarget g vfr = enTarget g' vfr := by rw [enTarget_via_map, enTarget_via_map, h1]
  have h3 : (enElements g vfr).map (·.1) = (enElements g' vfr).map (·.1) := by
    have := congrArg (List.map (·.1)) h1
    simpa [List.map_map, Function.comp_def] using this
  unfold buildVariable
  rw [h2, h3]

/-- When every element of the geometry's frame occurs in the variable's frame, the target order is the whole mesh index. -/
theorem enTarget_of_covering [Cell V] {g : Geometry V} {fr vfr : Frame V} {cidx : List Nat} (hx : ExportedFrom g fr cidx)
    (hsub : ∀ r ∈ fr.rows, r.eid ∈ vfr.rows.map (·.eid)) :
    enElements g vfr = g.elements ∧ enTarget g vfr = (byElement fr.rows).map Row.key := by
  have h1 : enElements g vfr = g.elements := by
    unfold enElements
    apply List.filter_eq_self.2
    intro el hel
    have : el.1 ∈ elemIds fr := by
      rw [← exported_elem_ids hx]; exact List.mem_map_of_mem hel
    unfold elemIds at this
    rw [mem_sortU] at this
    obtain ⟨r, hr, hre⟩ := List.mem_map.1 this
    have := hsub r hr
    rw [hre] at this
    simpa using this
  refine ⟨h1, ?_⟩
  rw [← hx.mesh]
  unfold enTarget meshIndex
  rw [h1]

theorem eids_of_keys_perm {fr vfr : Frame V} (hperm : (vfr.rows.map Row.key).Perm (fr.rows.map Row.key)) :
    ∀ r ∈ fr.rows, r.eid ∈ vfr.rows.map (·.eid) := by
  intro r hr
  have : r.key ∈ vfr.rows.map Row.key := hperm.mem_iff.2 (List.mem_map_of_mem hr)
  obtain ⟨r', hr', hk⟩ := List.mem_map.1 this
  have : r'.eid = r.eid := congrArg Prod.fst hk
  exact this ▸ List.mem_map_of_mem hr'

/-- A variable frame whose keys are a rearrangement of the (valid) geometry frame's keys passes the checks of
`buildVariable` (`buildVariable_six_of_perm`). -/
theorem buildVariable_six_of_keys_perm [Cell V] {g : Geometry V} {fr vfr : Frame V} {cidx : List Nat}
    (hx : ExportedFrom g fr cidx) (hvalid : (fr.rows.map Row.key).Nodup)
    (hperm : (vfr.rows.map Row.key).Perm (fr.rows.map Row.key)) :
    (vfr.rows.map Row.key).Nodup ∧ (vfr.rows.map Row.key).Perm (enTarget g vfr) := by
  refine ⟨hperm.nodup_iff.2 hvalid, ?_⟩
  rw [(enTarget_of_covering hx (eids_of_keys_perm hperm)).2]
  exact hperm.trans ((byElement_perm fr.rows).map Row.key).symm

/-! ### `add_variable` -/

theorem addVariableCore_ok [Cell V] {f1 : File V} {g : Geometry V} {state geom var : String} {fr : Frame V}
    {names : List String} {l : Nat} (h : (addVariableCore f1 g state geom var fr names l).2 = none) :
    ∃ idx v, colIdx fr.cols names = some idx ∧ buildVariable l g fr idx = some v ∧
      (addVariableCore f1 g state geom var fr names l).1.geoms = f1.geoms ∧
      (addVariableCore f1 g state geom var fr names l).1.groups = f1.groups ∧
      (addVariableCore f1 g state geom var fr names l).1.vars.lookup (state, geom, var) = some v ∧
      f1.vars.lookup (state, geom, var) = none ∧
      (addVariableCore f1 g state geom var fr names l).1.vars
        = setKey (state, geom, var) v
            (f1.vars ++ [((state, geom, var), (⟨l, names.length, [], []⟩ : Variable V))]) := by
  unfold addVariableCore at h ⊢
  split at h
  · simp at h
  · rename_i hvar
    simp only [hvar, if_false, Bool.false_eq_true]
    dsimp only at h ⊢
    split at h
    · simp at h
    · rename_i idx hidx
      split at h
      · simp at h
      · rename_i hobj
        split at h
        · simp at h
        · rename_i v hv
          refine ⟨idx, v, hidx, hv, ?_, ?_, ?_, lookup_isSome_false hvar, ?_⟩
          · simp only [hidx, hobj, hv, if_false, Bool.false_eq_true]
          · simp only [hidx, hobj, hv, if_false, Bool.false_eq_true]
          · simp only [hidx, hobj, hv, if_false, Bool.false_eq_true]
            exact lookup_setKey_append _
          · simp only [hidx, hobj, hv, if_false, Bool.false_eq_true]

theorem addVariableCore_err [Cell V] {f1 : File V} {g : Geometry V} {state geom var : String} {fr : Frame V}
    {names : List String} {l : Nat} {e : Err} (h : (addVariableCore f1 g state geom var fr names l).2 = some e) :
    (addVariableCore f1 g state geom var fr names l).1 = f1 := by
  unfold addVariableCore at h ⊢
  split
  · rfl
  · rename_i hvar
    have hvar' : f1.vars.lookup (state, geom, var) = none := lookup_isSome_false hvar
    dsimp only
    split
    · simp [eraseKey_append_self hvar']
    · split
      · simp [eraseKey_append_self hvar']
      · split
        · simp [eraseKey_append_self hvar']
        · rename_i _ idx hidx hobj _ v hv
          simp only [hvar, hidx, hobj, hv, if_false, Bool.false_eq_true] at h
          simp at h

/-- `add_variable` as a case distinction: either it is refused for its arguments and returns the file itself, or the
arguments resolve and the result is `addVariableCore` on the file with the group ensured. -/
theorem addVariable_cases [Cell V] (f : File V) (state geom var : String) (fr : Frame V) (cols : Option (List String))
    (loc : Option Nat) :
    ((addVariable f state geom var fr cols loc).1 = f ∧ (addVariable f state geom var fr cols loc).2 ≠ none ∧
      (f.geoms.lookup geom = none ∨ resolveCols var cols = none ∨ resolveLoc var loc = none ∨
         (∃ l, resolveLoc var loc = some l ∧ ((l ≠ 2 ∧ l ≠ 6) ∨ varIdsFit l fr = false)))) ∨
    ∃ g names l, f.geoms.lookup geom = some g ∧ resolveCols var cols = some names ∧ resolveLoc var loc = some l ∧
      (l = 2 ∨ l = 6) ∧ varIdsFit l fr = true ∧
      addVariable f state geom var fr cols loc
        = addVariableCore (ensureGroup f state geom) g state geom var fr names l := by
  unfold addVariable
  cases hg : f.geoms.lookup geom with
  | none => exact Or.inl ⟨rfl, by simp, Or.inl rfl⟩
  | some g =>
    cases hc : resolveCols var cols with
    | none => exact Or.inl ⟨rfl, by simp, Or.inr (Or.inl rfl)⟩
    | some names =>
      cases hl : resolveLoc var loc with
      | none => exact Or.inl ⟨rfl, by simp, Or.inr (Or.inr (Or.inl rfl))⟩
      | some l =>
        dsimp only
        by_cases hl26 : l ≠ 2 ∧ l ≠ 6
        · rw [if_pos hl26]
          exact Or.inl ⟨rfl, by simp, Or.inr (Or.inr (Or.inr ⟨l, rfl, Or.inl hl26⟩))⟩
        · rw [if_neg hl26]
          cases hfit : varIdsFit l fr with
          | false =>
            exact Or.inl ⟨by simp, by simp, Or.inr (Or.inr (Or.inr ⟨l, rfl, Or.inr hfit⟩))⟩
          | true =>
            refine Or.inr ⟨g, names, l, rfl, rfl, rfl, by omega, hfit, ?_⟩
            simp

/-- A successful `add_variable`: what the arguments resolved to and what is stored. -/
theorem addVariable_ok [Cell V] {f : File V} {state geom var : String} {fr : Frame V} {cols : Option (List String)}
    {loc : Option Nat} (h : (addVariable f state geom var fr cols loc).2 = none) :
    ∃ g names l idx v, f.geoms.lookup geom = some g ∧ resolveCols var cols = some names ∧ resolveLoc var loc = some l ∧
      (l = 2 ∨ l = 6) ∧ varIdsFit l fr = true ∧ colIdx fr.cols names = some idx ∧ buildVariable l g fr idx = some v ∧
      (addVariable f state geom var fr cols loc).1.geoms = f.geoms ∧
      (addVariable f state geom var fr cols loc).1.groups.contains (state, geom) = true ∧
      (addVariable f state geom var fr cols loc).1.vars.lookup (state, geom, var) = some v ∧
      f.vars.lookup (state, geom, var) = none ∧
      (addVariable f state geom var fr cols loc).1.vars
        = setKey (state, geom, var) v (f.vars ++ [((state, geom, var), (⟨l, names.length, [], []⟩ : Variable V))]) := by
  rcases addVariable_cases f state geom var fr cols loc with ⟨_, hne, _⟩ | ⟨g, names, l, hg, hc, hl, hl26, hfit, heq⟩
  · exact absurd h hne
  · rw [heq] at h ⊢
    obtain ⟨idx, v, h1, h2, h3, h4, h5, h6, h7⟩ := addVariableCore_ok h
    obtain ⟨e1, e2, e3, _⟩ := ensureGroup_facts f state geom
    exact ⟨g, names, l, idx, v, hg, hc, hl, hl26, hfit, h1, h2, h3.trans e1, h4 ▸ e3, h5, e2 ▸ h6, e2 ▸ h7⟩

/-- A failed `add_variable` leaves geometries and variables as they were; at most the (empty) group
`(state, geom)` was created. -/
theorem addVariable_err [Cell V] {f : File V} {state geom var : String} {fr : Frame V} {cols : Option (List String)}
    {loc : Option Nat} {e : Err} (h : (addVariable f state geom var fr cols loc).2 = some e) :
    (addVariable f state geom var fr cols loc).1.geoms = f.geoms ∧
      (addVariable f state geom var fr cols loc).1.vars = f.vars ∧
      ∀ p ∈ (addVariable f state geom var fr cols loc).1.groups, p ∈ f.groups ∨ p = (state, geom) := by
  rcases addVariable_cases f state geom var fr cols loc with ⟨hf, _, _⟩ | ⟨g, names, l, _, _, _, _, _, heq⟩
  · rw [hf]; exact ⟨rfl, rfl, fun p hp => Or.inl hp⟩
  · rw [heq] at h ⊢
    rw [addVariableCore_err h]
    obtain ⟨e1, e2, _, e4, _⟩ := ensureGroup_facts f state geom
    exact ⟨e1, e2, e4⟩

/-- `add_variable` never touches the geometries. -/
theorem addVariable_geoms [Cell V] (f : File V) (state geom var : String) (fr : Frame V) (cols : Option (List String))
    (loc : Option Nat) : (addVariable f state geom var fr cols loc).1.geoms = f.geoms := by
  cases he : (addVariable f state geom var fr cols loc).2 with
  | some e => exact (addVariable_err he).1
  | none =>
    obtain ⟨_, _, _, _, _, _, _, _, _, _, _, _, h5, _⟩ := addVariable_ok he
    exact h5

/-- The stored variable depends on the geometry only through the frame the geometry was exported from (not on its sets,
coordinates, element types). -/
theorem buildVariable_exported [Cell V] {g : Geometry V} {fr : Frame V} {cidx : List Nat} (hx : ExportedFrom g fr cidx)
    (l : Nat) (vfr : Frame V) (idx : List Nat) :
    buildVariable l g vfr idx
      = buildVariable l ⟨[], 0, [], (connectivity fr.rows).map (fun c => (c.1, 0, c.2)), []⟩ vfr idx := by
  apply buildVariable_congr
  rw [hx.elems]
  simp [List.map_map, Function.comp_def]

/-- A successful `add_node_set` / `add_element_set`. -/
theorem addSet_ok {f : File V} {kind : Nat} {geom : String} {ids : List Int} {fr : Frame V} {nameOk : Bool}
    {name : String} (h : (addSet f kind geom ids fr nameOk name).2 = none) :
    ∃ g, f.geoms.lookup geom = some g ∧
      (addSet f kind geom ids fr nameOk name).1
        = { f with geoms := setKey geom { g with sets := g.sets ++ [⟨kind, name, ids⟩] } f.geoms } ∧
      (addSet f kind geom ids fr nameOk name).1.geoms.lookup geom
        = some { g with sets := g.sets ++ [⟨kind, name, ids⟩] } ∧
      ids.all fits32 = true := by
  unfold addSet at h ⊢
  generalize idsOf kind fr = m at h ⊢
  split at h
  · simp at h
  · rename_i h1
    split at h
    · simp at h
    · rename_i h2
      split at h
      · simp at h
      · rename_i h3
        split at h
        · simp at h
        · rename_i g hg
          refine ⟨g, hg, ?_, ?_, by simpa using h3⟩
          · simp only [h1, h2, h3, if_false, hg, Bool.false_eq_true]
          · simp only [h1, h2, h3, if_false, hg, Bool.false_eq_true]
            exact lookup_setKey_self hg

theorem addSet_err {f : File V} {kind : Nat} {geom : String} {ids : List Int} {fr : Frame V} {nameOk : Bool}
    {name : String} {e : Err} (h : (addSet f kind geom ids fr nameOk name).2 = some e) :
    (addSet f kind geom ids fr nameOk name).1 = f := by
  unfold addSet at h ⊢
  generalize idsOf kind fr = m at h ⊢
  split
  · rfl
  · split
    · rfl
    · split
      · rfl
      · split
        · rfl
        · rename_i h1 h2 h3 _ g hg
          rw [if_neg h1, if_neg h2, if_neg h3] at h
          simp [hg] at h

/-! ### success conditions -/

theorem sortU_all (p : Int → Bool) (l : List Int) : (sortU l).all p = l.all p := by
  rw [Bool.eq_iff_iff]
  simp only [List.all_eq_true, mem_sortU]

theorem nodeIds_all_fits {fr : Frame V} : (nodeIds fr).all fits32 = true ↔ ∀ r ∈ fr.rows, fits32 r.nid = true := by
  unfold nodeIds
  rw [sortU_all]
  simp

theorem elemIds_all_fits {fr : Frame V} : (elemIds fr).all fits32 = true ↔ ∀ r ∈ fr.rows, fits32 r.eid = true := by
  unfold elemIds
  rw [sortU_all]
  simp

theorem nodeIds_ne_nil {fr : Frame V} (h : fr.rows ≠ []) : nodeIds fr ≠ [] := by
  cases hr : fr.rows with
  | nil => exact absurd hr h
  | cons r rs =>
    intro hn
    have : r.nid ∈ nodeIds fr := mem_sortU.2 (by rw [hr]; simp)
    rw [hn] at this
    cases this

theorem colIdx_of_mem {cols names : List String} (h : ∀ c ∈ names, c ∈ cols) :
    colIdx cols names = some (names.map (fun n => cols.idxOf n)) := by
  unfold colIdx
  rw [if_pos]
  simpa using h

theorem any_objCols_false {names objCols : List String} (h : ∀ c ∈ names, c ∉ objCols) :
    names.any (fun c => objCols.contains c) = false := by
  rw [List.any_eq_false]
  intro c hc
  simpa using h c hc

theorem buildPoints_succeeds [Cell V] {fr : Frame V} (h1 : ∀ r ∈ fr.rows, fits32 r.nid = true)
    (h2 : fr.cols.contains "z" = true → fr.rows ≠ [])
    (h3 : ∀ c ∈ coordNames fr, c ∈ fr.cols ∧ c ∉ fr.objCols) :
    ∃ idx, buildPoints fr = .ok (nodeIds fr, (coordNames fr).length, (nodeIds fr).map (nodeValue fr.rows idx)) := by
  have e1 : (nodeIds fr).all fits32 = true := nodeIds_all_fits.2 h1
  have e2 : (fr.cols.contains "z" && (nodeIds fr).isEmpty) = false := by
    cases hz : fr.cols.contains "z" with
    | false => rfl
    | true =>
      have := nodeIds_ne_nil (h2 hz)
      cases hn : nodeIds fr with
      | nil => exact absurd hn this
      | cons a l => rfl
  have e3 := colIdx_of_mem (fun c hc => (h3 c hc).1)
  have e4 := any_objCols_false (fun c hc => (h3 c hc).2)
  refine ⟨(coordNames fr).map (fun n => fr.cols.idxOf n), ?_⟩
  unfold buildPoints
  simp only [e1, e2, e3, e4, Bool.not_true, Bool.false_eq_true, if_false]

theorem buildElements_succeeds {dim : Nat} {fr : Frame V} (h1 : ∀ r ∈ fr.rows, fits32 r.eid = true)
    (h2 : ∀ c ∈ connectivity fr.rows, (elemType dim c.2.length).isSome = true) :
    buildElements dim fr
      = .ok ((connectivity fr.rows).map (fun c => (c.1, (elemType dim c.2.length).getD 0, c.2))) := by
  have e1 : (elemIds fr).all fits32 = true := elemIds_all_fits.2 h1
  have e2 : (connectivity fr.rows).all (fun c => (elemType dim c.2.length).isSome) = true := by
    rw [List.all_eq_true]; exact h2
  unfold buildElements
  simp only [e1, e2, Bool.not_true, Bool.false_eq_true, if_false, if_true]

theorem addVariableCore_groups [Cell V] (f1 : File V) (g : Geometry V) (state geom var : String) (fr : Frame V)
    (names : List String) (l : Nat) :
    (addVariableCore f1 g state geom var fr names l).1.groups = f1.groups ∧
      (addVariableCore f1 g state geom var fr names l).1.geoms = f1.geoms := by
  cases he : (addVariableCore f1 g state geom var fr names l).2 with
  | some e => rw [addVariableCore_err he]; exact ⟨rfl, rfl⟩
  | none =>
    obtain ⟨_, _, _, _, h5, h6, _⟩ := addVariableCore_ok he
    exact ⟨h6, h5⟩

theorem buildVariable_two [Cell V] (g : Geometry V) (fr : Frame V) (idx : List Nat) :
    buildVariable 2 g fr idx = some ⟨2, idx.length, nodeIds fr, (nodeIds fr).map (nodeValue fr.rows idx)⟩ := rfl

/-! ### `GroupBy.first()` on a constant column -/

theorem firstValid_const [Cell V] {l : List V} {c : V} (hne : l ≠ []) (h : ∀ x ∈ l, x = c) :
    firstValid l = some c := by
  unfold firstValid
  split
  · rename_i v hv
    rw [h v (List.mem_of_find?_eq_some hv)]
  · cases l with
    | nil => exact absurd rfl hne
    | cons a l => simp [h a (by simp)]

end PylifeVerif.Vmap
