/-
C03 for the three-point rainflow detector model (`tpRun`): equivariance under negation and under
increasing affine maps, for arbitrary chunkings.

The helper lemmas (`Proofs/Lemmas/ThreePoint.lean`) also contain the key fact for C01/C02,
`PylifeVerif.ThreePoint.tpRun_eq_fpRun : tpRun cs = fpRun cs`: the three-point model and the
four-point model compute the same detector state (cycles even in the same order) on every list of
chunks.  `Proofs/ThreePointC02.lean` and `Proofs/ThreePointC01.lean` derive
`threePoint_same_cycles` and `threePoint_chunk_independent` from it.

`tpMapPt` / `tpMapCycle` are private copies of `C03.mapPt` / `C03.mapCycle` (same definitions).
-/
import Proofs.Lemmas.ThreePoint

namespace PylifeVerif.C03
open PylifeVerif.Rainflow PylifeVerif.ThreePoint

theorem threePoint_neg (cs : List (List Int)) :
    let f := fun (x : Int) => -x
    let r := tpRun (cs.map (List.map f)); let r0 := tpRun cs
    r.cycles = r0.cycles.map (tpMapCycle f) ∧ r.stack = r0.stack.map (tpMapPt f) ∧ r.last = r0.last.map f := by
  intro f r r0
  have h : r = mapSt f r0 := tpRun_neg cs
  rw [h]
  exact ⟨rfl, rfl, rfl⟩

theorem threePoint_affine (cs : List (List Int)) (a b : Int) (ha : 0 < a) :
    let f := fun x => a * x + b
    let r := tpRun (cs.map (List.map f)); let r0 := tpRun cs
    r.cycles = r0.cycles.map (tpMapCycle f) ∧ r.stack = r0.stack.map (tpMapPt f) ∧ r.last = r0.last.map f := by
  intro f r r0
  have h : r = mapSt f r0 :=
    tpRun_affine_of_inv a b ha HistInv (Or.inl rfl) histInv_step histInv_stackOk cs
  rw [h]
  exact ⟨rfl, rfl, rfl⟩

/-! Non-vacuity / sanity: a chunked signal with plateaus, a nested cycle and hf/lf updates. -/

example : (tpRun [[0, 5, 5, 2], [4, 4, 1, 6], [6, 0]]).cycles = [((3, 2), (4, 4)), ((1, 5), (6, 1))] := by
  decide +kernel

example := threePoint_neg [[0, 5, 5, 2], [4, 4, 1, 6], [6, 0]]
example := threePoint_affine [[0, 5, 5, 2], [4, 4, 1, 6], [6, 0]] 3 (-7) (by decide)

/-- the theorem used on the example: the cycles `(3,2)-(4,4)`, `(1,5)-(6,1)` are mapped -/
example : (tpRun ([[0, 5, 5, 2], [4, 4, 1, 6], [6, 0]].map (List.map fun x => 3 * x + -7))).cycles =
    [((3, -1), (4, 5)), ((1, 8), (6, -4))] := by
  have h := (threePoint_affine [[0, 5, 5, 2], [4, 4, 1, 6], [6, 0]] 3 (-7) (by decide)).1
  have h0 : (tpRun [[0, 5, 5, 2], [4, 4, 1, 6], [6, 0]]).cycles = [((3, 2), (4, 4)), ((1, 5), (6, 1))] := by
    decide +kernel
  rw [h, h0]
  decide

end PylifeVerif.C03

section AxiomCheck
open PylifeVerif.C03
#print axioms threePoint_neg
#print axioms threePoint_affine
#print axioms PylifeVerif.ThreePoint.tpRun_eq_fpRun
end AxiomCheck
