/-
Theorems about the three-point rainflow detector model (`tpRun`).
-/
import Proofs.Lemmas.ThreePoint

namespace PylifeVerif.C03
open PylifeVerif.Rainflow PylifeVerif.ThreePoint

theorem threePoint_neg (cs : List (List Int)) :
    let f := fun (x : Int) => -x
    let r := tpRun (cs.map (List.map f)); let r0 := tpRun cs
    r.cycles = r0.cycles.map (tpMapCycle f) ∧ r.stack = r0.stack.map (tpMapPt f) ∧ r.last = r0.last.map f := by
  intro f r r0
  have h : r = mapSt f r0 := tpRun_neg cs
  rw [h]
  exact ⟨rfl, rfl, rfl⟩

theorem threePoint_affine (cs : List (List Int)) (a b : Int) (ha : 0 < a) :
    let f := fun x => a * x + b
    let r := tpRun (cs.map (List.map f)); let r0 := tpRun cs
    r.cycles = r0.cycles.map (tpMapCycle f) ∧ r.stack = r0.stack.map (tpMapPt f) ∧ r.last = r0.last.map f := by
  intro f r r0
  have h : r = mapSt f r0 :=
    tpRun_affine_of_inv a b ha HistInv (Or.inl rfl) histInv_step histInv_stackOk cs
  rw [h]
  exact ⟨rfl, rfl, rfl⟩

end PylifeVerif.C03

section AxiomCheck
open PylifeVerif.C03
#print axioms threePoint_neg
#print axioms threePoint_affine
end AxiomCheck
