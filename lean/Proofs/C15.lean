/-
C15 — failure probability = analytic load/strength overlap.  Theorems about `Model/FailureProb.lean` at ℝ.

`Φ` (scipy's `norm.cdf`) enters in two ways:
  * abstractly, as any `IsDistFn Φ` (strictly increasing, continuous, values in (0,1)) — enough for the range,
    monotonicity and limit statements;
  * concretely, as `stdNormalCdf x = (gaussianReal 0 1) (Iic x)` (Mathlib's standard Gaussian measure), which
    satisfies `IsDistFn` (`stdNormalCdf_isDistFn`) and for which the overlap integral is evaluated
    (`overlap_integral_eq_closed_form`, from `gaussianReal_conv_gaussianReal`).

Admissible inputs: medians and loads positive (the code takes `log10`), `strength_std > 0`, `load_std ≥ 0` in the
closed form (`> 0` for the integral; since /repo 2da931b `load_std = 0.0` is the deterministic branch of the code:
`pf_simple_load` if the load lies within the limits, else 0 - `pf_norm_load_code_zero_scatter`; after 2a91979 it raised
ZeroDivisionError; `pf_norm_load_code_eq_window_integral` and `pf_norm_load_code_in_unit_interval` carry the hypothesis `0 < ls`).

What the code COMPUTES (as opposed to the closed form it is supposed to equal) is `pfNormLoadCode` of the model with
`quad := ` the exact interval integral: `pf_norm_load_code_eq_window_integral` (every branch of the rule
"default limits and `loc < 0`, or direct integral above half the load mass of the window → through the complement"),
`pf_norm_load_code_truncation` (explicit limits), `pf_norm_load_code_near_closed_form` (default ±16: within
`2 Φ(−16) < 2·10⁻⁵⁵` of the closed form), `pf_norm_load_code_in_unit_interval`, `pf_norm_load_code_limit`.  Because the
distance to the closed form is below 2·10⁻⁵⁵ while the property's failure probabilities are ≥ 10⁻¹², monotonicity and
range of the closed form carry over to every pair of code values whose closed forms differ by more than 4·10⁻⁵⁵.
-/
import Proofs.RealNum
import Model.FailureProb
import Proofs.Lemmas.GaussianOverlap
import Proofs.Lemmas.GaussianWindow
import Proofs.Lemmas.GaussianSmooth
import Proofs.Lemmas.Trapezoid
import Proofs.Lemmas.TrapezoidNonuniform
import Mathlib.Topology.Algebra.Order.Field
import Mathlib.MeasureTheory.Integral.Bochner.Basic
import Mathlib.MeasureTheory.Measure.Lebesgue.Integral
import Mathlib.MeasureTheory.Measure.Haar.NormedSpace

namespace PylifeVerif.C15
open PylifeVerif.FailureProb PylifeVerif.GaussianOverlap PylifeVerif.TrapezoidLemmas

/-- What the range / monotonicity / limit theorems assume about the distribution function `Φ`. -/
structure IsDistFn (Φ : ℝ → ℝ) : Prop where
  strictMono : StrictMono Φ
  continuous : Continuous Φ
  pos : ∀ x, 0 < Φ x
  lt_one : ∀ x, Φ x < 1

/-- The standard normal distribution function is such a `Φ`. -/
theorem stdNormalCdf_isDistFn : IsDistFn stdNormalCdf :=
  ⟨stdNormalCdf_strictMono, stdNormalCdf_continuous, fun x => (stdNormalCdf_mem_Ioo x).1,
    fun x => (stdNormalCdf_mem_Ioo x).2⟩

private lemma log10_lt {a b : ℝ} (ha : 0 < a) (hab : a < b) :
    (Transc.log10 a : ℝ) < Transc.log10 b := by
  simp only [transc_log10]
  have h10 : 0 < Real.log 10 := Real.log_pos (by norm_num)
  exact div_lt_div_of_pos_right (Real.log_lt_log ha hab) h10

private lemma denom_pos {ss : ℝ} (hss : 0 < ss) (ls : ℝ) :
    0 < Real.sqrt (ls * ls + ss * ss) :=
  Real.sqrt_pos.mpr (by nlinarith [mul_self_nonneg ls, mul_pos hss hss])

/-! ## range -/

/-- The failure probability lies in [0, 1] (in fact strictly inside) — for the log-normal load, its complement
and the deterministic load, for every input. -/
theorem pf_in_unit_interval {Φ : ℝ → ℝ} (hΦ : IsDistFn Φ) (sm ss lm ls : ℝ) :
    (0 < pfNormLoad Φ sm ss lm ls ∧ pfNormLoad Φ sm ss lm ls < 1) ∧
    (0 < pfSimpleLoad Φ sm ss lm ∧ pfSimpleLoad Φ sm ss lm < 1) :=
  ⟨⟨hΦ.pos _, hΦ.lt_one _⟩, ⟨hΦ.pos _, hΦ.lt_one _⟩⟩

example : 0 < pfNormLoad stdNormalCdf 100 0.05 80 0.1 ∧ pfNormLoad stdNormalCdf 100 0.05 80 0.1 < 1 :=
  (pf_in_unit_interval stdNormalCdf_isDistFn 100 0.05 80 0.1).1

/-! ## monotonicity -/

/-- Strictly increasing in the load median (log-normal load) and in the load (deterministic load). -/
theorem pf_mono_in_load {Φ : ℝ → ℝ} (hΦ : IsDistFn Φ) {sm ss ls lm₁ lm₂ : ℝ} (hss : 0 < ss)
    (h₁ : 0 < lm₁) (h₁₂ : lm₁ < lm₂) :
    pfNormLoad Φ sm ss lm₁ ls < pfNormLoad Φ sm ss lm₂ ls ∧
    pfSimpleLoad Φ sm ss lm₁ < pfSimpleLoad Φ sm ss lm₂ := by
  have hl := log10_lt h₁ h₁₂
  constructor
  · apply hΦ.strictMono
    simp only [safetyIndex, transc_sqrt]
    exact div_lt_div_of_pos_right (by linarith) (denom_pos hss ls)
  · apply hΦ.strictMono
    exact div_lt_div_of_pos_right (by linarith) hss

/-- Strictly decreasing in the strength median. -/
theorem pf_antitone_in_strength {Φ : ℝ → ℝ} (hΦ : IsDistFn Φ) {ss lm ls sm₁ sm₂ : ℝ} (hss : 0 < ss)
    (h₁ : 0 < sm₁) (h₁₂ : sm₁ < sm₂) :
    pfNormLoad Φ sm₂ ss lm ls < pfNormLoad Φ sm₁ ss lm ls ∧
    pfSimpleLoad Φ sm₂ ss lm < pfSimpleLoad Φ sm₁ ss lm := by
  have hl := log10_lt h₁ h₁₂
  constructor
  · apply hΦ.strictMono
    simp only [safetyIndex, transc_sqrt]
    exact div_lt_div_of_pos_right (by linarith) (denom_pos hss ls)
  · apply hΦ.strictMono
    exact div_lt_div_of_pos_right (by linarith) hss

example : pfNormLoad stdNormalCdf 100 0.05 80 0.1 < pfNormLoad stdNormalCdf 100 0.05 90 0.1 :=
  (pf_mono_in_load stdNormalCdf_isDistFn (by norm_num) (by norm_num) (by norm_num)).1

example : pfNormLoad stdNormalCdf 120 0.05 80 0.1 < pfNormLoad stdNormalCdf 100 0.05 80 0.1 :=
  (pf_antitone_in_strength stdNormalCdf_isDistFn (by norm_num) (by norm_num) (by norm_num)).1

/-! ## vanishing load scatter -/

/-- At `load_std = 0` the closed form IS the deterministic-load value … -/
theorem pf_zero_scatter_eq_simple_load (Φ : ℝ → ℝ) {sm ss lm : ℝ} (hss : 0 < ss) :
    pfNormLoad Φ sm ss lm 0 = pfSimpleLoad Φ sm ss lm := by
  simp only [pfNormLoad, pfSimpleLoad, normCdf, safetyIndex, transc_sqrt, mul_zero, zero_add,
    Real.sqrt_mul_self hss.le]

/-- … and it tends to it as the load scatter vanishes. -/
theorem pf_tends_to_simple_load {Φ : ℝ → ℝ} (hΦ : IsDistFn Φ) {sm ss lm : ℝ} (hss : 0 < ss) :
    Filter.Tendsto (fun ls => pfNormLoad Φ sm ss lm ls) (nhds 0) (nhds (pfSimpleLoad Φ sm ss lm)) := by
  rw [← pf_zero_scatter_eq_simple_load Φ hss]
  have hc : Continuous fun ls : ℝ => pfNormLoad Φ sm ss lm ls := by
    unfold pfNormLoad safetyIndex
    simp only [transc_sqrt]
    refine hΦ.continuous.comp (Continuous.div continuous_const ?_ fun ls => (denom_pos hss ls).ne')
    exact Real.continuous_sqrt.comp (by fun_prop)
  exact hc.tendsto 0

example : Filter.Tendsto (fun ls => pfNormLoad stdNormalCdf 100 0.05 80 ls) (nhds 0)
    (nhds (pfSimpleLoad stdNormalCdf 100 0.05 80)) :=
  pf_tends_to_simple_load stdNormalCdf_isDistFn (by norm_num)

/-! ## the overlap integral -/

/- `normPdf σ x` = `scipy.stats.norm.pdf(x, loc = 0, scale = σ)` is defined in `Proofs/Lemmas/GaussianDensity.lean`. -/

/-- The integral that `pf_norm_load` hands to `quad` — load density (centred at 0, scale `load_std`) times the
strength distribution function (`loc = s_50 − log10 load_median`, `scale = strength_std`) — taken over the whole
line has the closed-form value `Φ((log10 load_median − log10 strength_median)/√(load_std² + strength_std²))`. -/
theorem overlap_integral_eq_closed_form (sm ss lm ls : ℝ) (hss : 0 < ss) (hls : 0 < ls) :
    ∫ x, normPdf ls x * normCdf stdNormalCdf x (Transc.log10 sm - Transc.log10 lm) ss
      = pfNormLoad stdNormalCdf sm ss lm ls := by
  have h := gaussian_overlap_sigma (Transc.log10 sm - Transc.log10 lm) ls ss hls hss
  simp only [normPdf, normCdf, pfNormLoad, safetyIndex, transc_sqrt]
  rw [h]
  congr 2
  · ring
  · ring_nf

example : ∫ x, normPdf 0.1 x * normCdf stdNormalCdf x (Transc.log10 (100:ℝ) - Transc.log10 (80:ℝ)) 0.05
    = pfNormLoad stdNormalCdf 100 0.05 80 0.1 :=
  overlap_integral_eq_closed_form 100 0.05 80 0.1 (by norm_num) (by norm_num)

/-- The same integral in the standardised load variable `t = x / load_std` (the form the repaired
`pf_norm_load` integrates: `norm.pdf(t) * norm.cdf(sc * t, loc, scale)`). -/
theorem overlap_integral_standardised (sm ss lm ls : ℝ) (hss : 0 < ss) (hls : 0 < ls) :
    ∫ t, normPdf 1 t * normCdf stdNormalCdf (ls * t) (Transc.log10 sm - Transc.log10 lm) ss
      = pfNormLoad stdNormalCdf sm ss lm ls := by
  have h := gaussian_overlap_standardised (Transc.log10 sm - Transc.log10 lm) ss ls hss hls
  simp only [normCdf, pfNormLoad, safetyIndex, transc_sqrt]
  rw [h]
  congr 2
  · ring
  · ring_nf

example : ∫ t, normPdf 1 t * normCdf stdNormalCdf (0.1 * t) (Transc.log10 (100:ℝ) - Transc.log10 (80:ℝ)) 0.05
    = pfNormLoad stdNormalCdf 100 0.05 80 0.1 :=
  overlap_integral_standardised 100 0.05 80 0.1 (by norm_num) (by norm_num)

/-- … and the integral, too, tends to the deterministic-load value as the load scatter vanishes (from above: the
integral exists for `load_std > 0` only). -/
theorem overlap_integral_tends_to_simple_load (sm ss lm : ℝ) (hss : 0 < ss) :
    Filter.Tendsto
      (fun ls => ∫ t, normPdf 1 t * normCdf stdNormalCdf (ls * t) (Transc.log10 sm - Transc.log10 lm) ss)
      (nhdsWithin 0 (Set.Ioi 0)) (nhds (pfSimpleLoad stdNormalCdf sm ss lm)) := by
  have h := (pf_tends_to_simple_load stdNormalCdf_isDistFn (sm := sm) (lm := lm) hss).mono_left
    (nhdsWithin_le_nhds (s := Set.Ioi (0:ℝ)))
  refine h.congr' ?_
  filter_upwards [self_mem_nhdsWithin] with ls hls
  exact (overlap_integral_standardised sm ss lm ls hss hls).symm

example : Filter.Tendsto
    (fun ls => ∫ t, normPdf 1 t * normCdf stdNormalCdf (ls * t) (Transc.log10 (100:ℝ) - Transc.log10 (80:ℝ)) 0.05)
    (nhdsWithin 0 (Set.Ioi 0)) (nhds (pfSimpleLoad stdNormalCdf 100 0.05 80)) :=
  overlap_integral_tends_to_simple_load 100 0.05 80 (by norm_num)

/-! ## what the code computes: finite window, complement branch

`pfNormLoadCode` (Model/FailureProb.lean) is `pf_norm_load` with its limits, its `loc ≥ 0` / `loc < 0` branches and the
subtraction `cdf(upper) − cdf(lower) − q1`; `scipy.integrate.quad` is a parameter.  Here it is instantiated with the exact
interval integral (quad's contract), `norm.sf = 1 − Φ`, `norm.pdf = normPdf 1`. -/

/-- `scipy.integrate.quad(f, a, b)[0]` by contract -/
noncomputable def quadExact (f : ℝ → ℝ) (a b : ℝ) : ℝ := ∫ t in a..b, f t

/-- `scipy.stats.norm.sf` -/
noncomputable def stdNormalSf (x : ℝ) : ℝ := 1 - stdNormalCdf x

/-- `pf_norm_load` with exact quadrature -/
noncomputable def pfNormLoadExact (sm ss lm ls : ℝ) (lower upper : Option ℝ) : ℝ :=
  pfNormLoadCode stdNormalCdf stdNormalSf (normPdf 1) quadExact sm ss lm ls lower upper

private lemma cont_integrand (Δ ss ls : ℝ) :
    Continuous fun t : ℝ => normPdf 1 t * stdNormalCdf ((ls * t - Δ) / ss) :=
  (continuous_normPdf 1).mul (stdNormalCdf_continuous.comp (by fun_prop))

private lemma normPdf_one_nonneg (t : ℝ) : 0 ≤ normPdf 1 t := by
  unfold normPdf; positivity

/-- EVERY branch of the code (direct: integral of pdf · cdf; through the complement - default limits with `loc < 0`, or a
direct value above half the window's load mass -: window mass, itself in either of its two spellings, minus integral of
pdf · sf) gives the integral of load density times strength distribution function over the (standardised) window — for
every input with `load_std > 0`. -/
theorem pf_norm_load_code_eq_window_integral (sm ss lm ls : ℝ) (hls : 0 < ls) (lower upper : Option ℝ) :
    pfNormLoadExact sm ss lm ls lower upper
      = ∫ t in (stdLimit (-16) lm ls lower)..(stdLimit 16 lm ls upper),
          normPdf 1 t * normCdf stdNormalCdf (ls * t) (Transc.log10 sm - Transc.log10 lm) ss := by
  have e2 : (16.0 : ℝ) = 16 := by norm_num
  have e3 : (0.0 : ℝ) = 0 := by norm_num
  have hc := window_sf_identity (Transc.log10 sm - Transc.log10 lm) ss ls
    (stdLimit (-16) lm ls lower) (stdLimit 16 lm ls upper)
  have hm : ((1 - stdNormalCdf (stdLimit (-16) lm ls lower)) - (1 - stdNormalCdf (stdLimit 16 lm ls upper)))
      = stdNormalCdf (stdLimit 16 lm ls upper) - stdNormalCdf (stdLimit (-16) lm ls lower) := by ring
  simp only [pfNormLoadExact, pfNormLoadCode, quadExact, stdNormalSf, normCdf, e2, e3, not_le.mpr hls, if_false]
  split_ifs <;> first | rfl | exact hc | (rw [hm]; exact hc)

/-- the branch that subtracts is really exercised: strength median below load median -/
example : pfNormLoadExact 80 0.05 100 0.1 none none
    = ∫ t in (-16:ℝ)..16, normPdf 1 t * normCdf stdNormalCdf (0.1 * t) (Transc.log10 (80:ℝ) - Transc.log10 (100:ℝ)) 0.05 := by
  have := pf_norm_load_code_eq_window_integral 80 0.05 100 0.1 (by norm_num) none none
  simpa [stdLimit] using this

/-- Truncation: with limits `l ≤ u` (standardised) the code's value lies below the closed form by at most the load's
probability mass outside the window. -/
theorem pf_norm_load_code_truncation (sm ss lm ls : ℝ) (hss : 0 < ss) (hls : 0 < ls) (lower upper : Option ℝ)
    (hlu : stdLimit (-16) lm ls lower ≤ stdLimit 16 lm ls upper) :
    0 ≤ pfNormLoad stdNormalCdf sm ss lm ls - pfNormLoadExact sm ss lm ls lower upper ∧
    pfNormLoad stdNormalCdf sm ss lm ls - pfNormLoadExact sm ss lm ls lower upper
      ≤ stdNormalCdf (stdLimit (-16) lm ls lower) + stdNormalCdf (-(stdLimit 16 lm ls upper)) := by
  rw [pf_norm_load_code_eq_window_integral _ _ _ _ hls]
  have h := window_truncation (Transc.log10 sm - Transc.log10 lm) ss ls _ _ hss hls hlu
  have e : pfNormLoad stdNormalCdf sm ss lm ls
      = stdNormalCdf (-(Transc.log10 sm - Transc.log10 lm) / Real.sqrt (ls ^ 2 + ss ^ 2)) := by
    simp only [pfNormLoad, safetyIndex, transc_sqrt]
    congr 2
    · ring
    · ring_nf
  simp only [normCdf]
  rw [e]
  exact h

/-- DEFAULT LIMITS (±16 load standard deviations): the value the code computes (exact quadrature) differs from the closed
form `Φ((log10 load_median − log10 strength_median)/√(load_std² + strength_std²))` by at most `2 Φ(−16) < 2·10⁻⁵⁵`
(absolute; the property's failure probabilities are ≥ 10⁻¹²). -/
theorem pf_norm_load_code_near_closed_form (sm ss lm ls : ℝ) (hss : 0 < ss) (hls : 0 < ls) :
    |pfNormLoadExact sm ss lm ls none none - pfNormLoad stdNormalCdf sm ss lm ls| ≤ 2 * stdNormalCdf (-16) ∧
    2 * stdNormalCdf (-16) < 2e-55 := by
  have h := pf_norm_load_code_truncation sm ss lm ls hss hls none none (by simp only [stdLimit]; norm_num)
  simp only [stdLimit] at h
  refine ⟨?_, by linarith [stdNormalCdf_neg16_lt]⟩
  rw [abs_sub_comm, abs_of_nonneg h.1]
  linarith [h.2]

example : |pfNormLoadExact 100 0.05 80 0.1 none none - pfNormLoad stdNormalCdf 100 0.05 80 0.1| < 2e-55 := by
  have h := pf_norm_load_code_near_closed_form 100 0.05 80 0.1 (by norm_num) (by norm_num)
  linarith [h.1, h.2]

/-- The value the code computes stays in [0, 1] — this is about the code's own expression including the subtraction
`cdf(upper) − cdf(lower) − q1` of the `loc < 0` branch, for every input with `lower ≤ upper` (default limits included). -/
theorem pf_norm_load_code_in_unit_interval (sm ss lm ls : ℝ) (hls : 0 < ls) (lower upper : Option ℝ)
    (hlu : stdLimit (-16) lm ls lower ≤ stdLimit 16 lm ls upper) :
    0 ≤ pfNormLoadExact sm ss lm ls lower upper ∧ pfNormLoadExact sm ss lm ls lower upper ≤ 1 := by
  rw [pf_norm_load_code_eq_window_integral _ _ _ _ hls]
  simp only [normCdf]
  constructor
  · exact intervalIntegral.integral_nonneg hlu fun t _ => mul_nonneg (normPdf_one_nonneg t) (stdNormalCdf_nonneg _)
  · have hmono : ∫ t in (stdLimit (-16) lm ls lower)..(stdLimit 16 lm ls upper),
          normPdf 1 t * stdNormalCdf ((ls * t - (Transc.log10 sm - Transc.log10 lm)) / ss)
        ≤ ∫ t in (stdLimit (-16) lm ls lower)..(stdLimit 16 lm ls upper), normPdf 1 t := by
      refine intervalIntegral.integral_mono_on hlu ((cont_integrand _ _ _).intervalIntegrable _ _)
        ((continuous_normPdf 1).intervalIntegrable _ _) fun t _ => ?_
      exact mul_le_of_le_one_right (normPdf_one_nonneg t) (stdNormalCdf_le_one _)
    rw [integral_normPdf_one] at hmono
    linarith [stdNormalCdf_nonneg (stdLimit (-16) lm ls lower), stdNormalCdf_le_one (stdLimit 16 lm ls upper)]

example : 0 ≤ pfNormLoadExact 80 0.05 100 0.1 none none ∧ pfNormLoadExact 80 0.05 100 0.1 none none ≤ 1 :=
  pf_norm_load_code_in_unit_interval 80 0.05 100 0.1 (by norm_num) none none (by simp only [stdLimit]; norm_num)

/-- `load_std = 0` (a deterministic load, the code's own branch): with the default limits the code returns
`pf_simple_load`, which is also the value of the closed form there (`pf_zero_scatter_eq_simple_load`). -/
theorem pf_norm_load_code_zero_scatter (sm ss lm : ℝ) (hss : 0 < ss) :
    pfNormLoadExact sm ss lm 0 none none = pfSimpleLoad stdNormalCdf sm ss lm ∧
    pfNormLoadExact sm ss lm 0 none none = pfNormLoad stdNormalCdf sm ss lm 0 := by
  have e3 : (0.0 : ℝ) = 0 := by norm_num
  have h : pfNormLoadExact sm ss lm 0 none none = pfSimpleLoad stdNormalCdf sm ss lm := by
    simp [pfNormLoadExact, pfNormLoadCode, withinLimits, e3]
  exact ⟨h, h.trans (pf_zero_scatter_eq_simple_load stdNormalCdf hss).symm⟩

example : pfNormLoadExact 100 0.05 170 0 none none = pfSimpleLoad stdNormalCdf 100 0.05 170 :=
  (pf_norm_load_code_zero_scatter 100 0.05 170 (by norm_num)).1

/-- Vanishing load scatter, for what the code computes (default limits): eventually within `2·10⁻⁵⁵ + ε` of
`pf_simple_load`, for every `ε > 0`. -/
theorem pf_norm_load_code_limit (sm ss lm : ℝ) (hss : 0 < ss) {ε : ℝ} (hε : 0 < ε) :
    ∀ᶠ ls in nhdsWithin 0 (Set.Ioi 0),
      |pfNormLoadExact sm ss lm ls none none - pfSimpleLoad stdNormalCdf sm ss lm| < 2e-55 + ε := by
  have h := (pf_tends_to_simple_load stdNormalCdf_isDistFn (sm := sm) (lm := lm) hss).mono_left
    (nhdsWithin_le_nhds (s := Set.Ioi (0:ℝ)))
  have hev := (Metric.tendsto_nhds.mp h) ε hε
  filter_upwards [hev, self_mem_nhdsWithin] with ls hd hls
  have hc := pf_norm_load_code_near_closed_form sm ss lm ls hss hls
  rw [Real.dist_eq] at hd
  calc |pfNormLoadExact sm ss lm ls none none - pfSimpleLoad stdNormalCdf sm ss lm|
      ≤ |pfNormLoadExact sm ss lm ls none none - pfNormLoad stdNormalCdf sm ss lm ls|
        + |pfNormLoad stdNormalCdf sm ss lm ls - pfSimpleLoad stdNormalCdf sm ss lm| := abs_sub_le _ _ _
    _ < 2e-55 + ε := by linarith [hc.1, hc.2]

example : ∀ᶠ ls in nhdsWithin 0 (Set.Ioi 0),
    |pfNormLoadExact 100 0.05 80 ls none none - pfSimpleLoad stdNormalCdf 100 0.05 80| < 2e-55 + 1e-12 :=
  pf_norm_load_code_limit 100 0.05 80 (by norm_num) (by norm_num)

/-! ## the arbitrary-distribution variant -/

/-- On sample points `x_k = a + k (b − a)/N` with density values `pdf x_k`, `pf_arbitrary_load` IS the composite
trapezoidal rule (Mathlib's `trapezoidal_integral`) of `pdf · cdf_S`. -/
theorem pf_arbitrary_eq_trapezoidal_rule (Φ pdf : ℝ → ℝ) (sm ss a b : ℝ) {N : ℕ} (hN : 0 < N) :
    pfArbitraryLoad Φ sm ss ((uniformNodes a b N).map fun x => (x, pdf x))
      = trapezoidal_integral (fun x => pdf x * normCdf Φ x (Transc.log10 sm) ss) N a b :=
  pfArbitraryLoad_uniform Φ pdf sm ss a b hN

/- FULL STATEMENT: for the sampled normal density `pdf = normPdf`-shifted and `Φ = stdNormalCdf`, on any
refinement sequence of sample points covering the load distribution, `pf_arbitrary_load → pfNormLoad`.
PROVED in this theorem: second-order error bound and convergence to `∫ₐᵇ pdf · cdf_S` on uniform grids for every
integrand that is C² on `[a, b]` with `|f''| ≤ ζ`.  PROVED by the companions below: non-uniform increasing sample
points (`pf_arbitrary_nonuniform_error_le`); the Gaussian integrand is C² with a bounded second derivative, hence
convergence on every refinement sequence, and the tails outside `[a, b]` cost at most the load's probability mass
there (`pf_arbitrary_gaussian_converges`).  REMAINING: an explicit value of ζ for the Gaussian integrand (i.e. a
rate instead of mere convergence) and floating-point rounding. -/
theorem pf_arbitrary_converges_partial (Φ pdf : ℝ → ℝ) (sm ss a b : ℝ)
    (hc2 : ContDiffOn ℝ 2 (fun x => pdf x * normCdf Φ x (Transc.log10 sm) ss) (Set.uIcc a b)) {ζ : ℝ}
    (hζ : ∀ x, |iteratedDerivWithin 2 (fun x => pdf x * normCdf Φ x (Transc.log10 sm) ss) (Set.uIcc a b) x| ≤ ζ) :
    (∀ N : ℕ, 0 < N →
      |pfArbitraryLoad Φ sm ss ((uniformNodes a b N).map fun x => (x, pdf x))
        - ∫ x in a..b, pdf x * normCdf Φ x (Transc.log10 sm) ss| ≤ |b - a| ^ 3 * ζ / (12 * N ^ 2)) ∧
    Filter.Tendsto (fun N : ℕ => pfArbitraryLoad Φ sm ss ((uniformNodes a b N).map fun x => (x, pdf x)))
      Filter.atTop (nhds (∫ x in a..b, pdf x * normCdf Φ x (Transc.log10 sm) ss)) :=
  ⟨fun _ hN => pfArbitraryLoad_error_le Φ pdf sm ss a b hc2 hζ hN, pfArbitraryLoad_tendsto Φ pdf sm ss a b hc2 hζ⟩

/-- non-vacuity: a constant integrand satisfies the hypotheses (ζ = 0: the rule is exact) -/
example : Filter.Tendsto (fun N : ℕ => pfArbitraryLoad (fun _ => (1:ℝ)/2) 10 1 ((uniformNodes 0 1 N).map fun x => (x, (1:ℝ))))
    Filter.atTop (nhds (∫ x in (0:ℝ)..1, (1:ℝ) * normCdf (fun _ => (1:ℝ)/2) x (Transc.log10 (10:ℝ)) 1)) := by
  refine (pf_arbitrary_converges_partial (fun _ => (1:ℝ)/2) (fun _ => 1) 10 1 0 1 ?_ (ζ := 0) ?_).2
  · simp only [normCdf]; exact contDiffOn_const
  · intro x; simp [normCdf, iteratedDerivWithin_const]

/-- NON-UNIFORM sample points (what the refinement oracle and the upstream test run): for increasing nodes
`x 0 ≤ … ≤ x n` (repeats allowed) with steps `≤ δ`, and an integrand `pdf · cdf_S` that is C² with `|f''| ≤ ζ` on
`[x 0, x n]`, `pf_arbitrary_load` differs from the integral by at most `Σ hₖ³ ζ/12 ≤ δ² (xₙ − x₀) ζ / 12`. -/
theorem pf_arbitrary_nonuniform_error_le (Φ pdf : ℝ → ℝ) (sm ss : ℝ) (x : ℕ → ℝ) (n : ℕ)
    (hc2 : ContDiff ℝ 2 (fun y => pdf y * normCdf Φ y (Transc.log10 sm) ss))
    (hx : ∀ k < n, x k ≤ x (k + 1)) {ζ : ℝ}
    (hζ : ∀ y ∈ Set.Icc (x 0) (x n), |iteratedDeriv 2 (fun y => pdf y * normCdf Φ y (Transc.log10 sm) ss) y| ≤ ζ)
    {δ : ℝ} (hδ : ∀ k < n, x (k + 1) - x k ≤ δ) :
    |pfArbitraryLoad Φ sm ss ((List.range (n + 1)).map fun k => (x k, pdf (x k)))
        - ∫ y in (x 0)..(x n), pdf y * normCdf Φ y (Transc.log10 sm) ss|
      ≤ ∑ k ∈ Finset.range n, (x (k + 1) - x k) ^ 3 * ζ / 12 ∧
    |pfArbitraryLoad Φ sm ss ((List.range (n + 1)).map fun k => (x k, pdf (x k)))
        - ∫ y in (x 0)..(x n), pdf y * normCdf Φ y (Transc.log10 sm) ss|
      ≤ δ ^ 2 * (x n - x 0) * ζ / 12 := by
  have e : pfArbitraryLoad Φ sm ss ((List.range (n + 1)).map fun k => (x k, pdf (x k)))
      = trapezoid ((List.range (n + 1)).map fun k =>
          (x k, (fun y => pdf y * normCdf Φ y (Transc.log10 sm) ss) (x k))) := by
    rw [pfArbitraryLoad, List.map_map]
    rfl
  rw [e]
  exact ⟨trapezoid_nonuniform_error_le _ hc2 x n hx hζ, trapezoid_nonuniform_error_le_mesh _ hc2 x n hx hζ hδ⟩

/-- non-vacuity: three unequal steps, density 1, a "distribution function" that is the identity (`f y = y`, `ζ = 0`:
the rule is exact) -/
example : |pfArbitraryLoad (fun z => z) 1 1 ((List.range 4).map fun k => ((k:ℝ) ^ 2, (1:ℝ)))
    - ∫ y in ((0:ℕ):ℝ) ^ 2..((3:ℕ):ℝ) ^ 2, (1:ℝ) * normCdf (fun z => z) y (Transc.log10 (1:ℝ)) 1|
      ≤ 5 ^ 2 * (((3:ℕ):ℝ) ^ 2 - ((0:ℕ):ℝ) ^ 2) * 0 / 12 := by
  refine (pf_arbitrary_nonuniform_error_le (fun z => z) (fun _ => 1) 1 1 (fun k => (k:ℝ) ^ 2) 3 ?_ ?_ (ζ := 0) ?_
    (δ := 5) ?_).2
  · simp only [normCdf]; fun_prop
  · intro k hk; gcongr; norm_num
  · intro y _
    have : (fun y : ℝ => (1:ℝ) * normCdf (fun z => z) y (Transc.log10 (1:ℝ)) 1) = fun y => y := by
      funext y; simp [normCdf]
    rw [this]
    simp [iteratedDeriv_succ]
  · intro k hk
    interval_cases k <;> norm_num

/-- THE SAMPLED LOG-NORMAL DENSITY: `pdf y = norm.pdf(y, loc = log10 load_median, scale = load_std)`, strength
distribution function `Φ = stdNormalCdf`.  On ANY refinement sequence of increasing sample points from `a` to `b` whose
largest step tends to zero, `pf_arbitrary_load` converges to the overlap integral over the sampled range `[a, b]`, and
that integral lies below the closed form `pf_norm_load` by at most the load's probability mass outside `[a, b]`
(`< 2·10⁻⁵⁵` for a range of ±16 load standard deviations). -/
theorem pf_arbitrary_gaussian_converges (sm ss lm ls a b : ℝ) (hss : 0 < ss) (hls : 0 < ls) (hab : a ≤ b)
    (x : ℕ → ℕ → ℝ) (n : ℕ → ℕ) (δ : ℕ → ℝ)
    (h0 : ∀ N, x N 0 = a) (hn : ∀ N, x N (n N) = b) (hmono : ∀ N, ∀ k < n N, x N k ≤ x N (k + 1))
    (hstep : ∀ N, ∀ k < n N, x N (k + 1) - x N k ≤ δ N) (hδ : Filter.Tendsto δ Filter.atTop (nhds 0)) :
    Filter.Tendsto
      (fun N => pfArbitraryLoad stdNormalCdf sm ss
        ((List.range (n N + 1)).map fun k => (x N k, normPdf ls (x N k - Transc.log10 lm))))
      Filter.atTop
      (nhds (∫ y in a..b, normPdf ls (y - Transc.log10 lm) * normCdf stdNormalCdf y (Transc.log10 sm) ss)) ∧
    0 ≤ pfNormLoad stdNormalCdf sm ss lm ls
          - ∫ y in a..b, normPdf ls (y - Transc.log10 lm) * normCdf stdNormalCdf y (Transc.log10 sm) ss ∧
    pfNormLoad stdNormalCdf sm ss lm ls
          - ∫ y in a..b, normPdf ls (y - Transc.log10 lm) * normCdf stdNormalCdf y (Transc.log10 sm) ss
      ≤ stdNormalCdf ((a - Transc.log10 lm) / ls) + stdNormalCdf (-((b - Transc.log10 lm) / ls)) := by
  refine ⟨pfArbitraryLoad_gaussian_tendsto sm ss lm ls a b x n δ h0 hn hmono hstep hδ, ?_⟩
  have h := window_truncation_unstd (Transc.log10 sm - Transc.log10 lm) ss ls
    (a - Transc.log10 lm) (b - Transc.log10 lm) hss hls (by linarith)
  have eI : ∫ y in a..b, normPdf ls (y - Transc.log10 lm) * normCdf stdNormalCdf y (Transc.log10 sm) ss
      = ∫ x in (a - Transc.log10 lm)..(b - Transc.log10 lm),
          normPdf ls x * stdNormalCdf ((x - (Transc.log10 sm - Transc.log10 lm)) / ss) := by
    rw [← intervalIntegral.integral_comp_sub_right
      (fun x => normPdf ls x * stdNormalCdf ((x - (Transc.log10 sm - Transc.log10 lm)) / ss)) (Transc.log10 lm)]
    congr 1
    funext y
    simp only [normCdf]
    congr 2
    ring
  have e : pfNormLoad stdNormalCdf sm ss lm ls
      = stdNormalCdf (-(Transc.log10 sm - Transc.log10 lm) / Real.sqrt (ls ^ 2 + ss ^ 2)) := by
    simp only [pfNormLoad, safetyIndex, transc_sqrt]
    congr 2
    · ring
    · ring_nf
  rw [eI, e]
  exact h

/-- non-vacuity: uniform refinements of the ±16 σ range of a load 80 / 0.1 against a strength 100 / 0.05 -/
example : Filter.Tendsto
    (fun N : ℕ => pfArbitraryLoad stdNormalCdf 100 0.05
      ((List.range (N + 1 + 1)).map fun k : ℕ =>
        ((Transc.log10 (80:ℝ) - 1.6) + (k:ℝ) * (3.2 / ((N:ℝ) + 1)),
          normPdf 0.1 ((Transc.log10 (80:ℝ) - 1.6) + (k:ℝ) * (3.2 / ((N:ℝ) + 1)) - Transc.log10 (80:ℝ)))))
    Filter.atTop
    (nhds (∫ y in (Transc.log10 (80:ℝ) - 1.6)..(Transc.log10 (80:ℝ) + 1.6),
      normPdf 0.1 (y - Transc.log10 (80:ℝ)) * normCdf stdNormalCdf y (Transc.log10 (100:ℝ)) 0.05)) := by
  refine (pf_arbitrary_gaussian_converges 100 0.05 80 0.1 (Transc.log10 (80:ℝ) - 1.6) (Transc.log10 (80:ℝ) + 1.6)
    (by norm_num) (by norm_num) (by linarith)
    (fun N k => (Transc.log10 (80:ℝ) - 1.6) + (k:ℝ) * (3.2 / ((N:ℝ) + 1))) (fun N => N + 1)
    (fun N => 3.2 / ((N:ℝ) + 1)) ?_ ?_ ?_ ?_ ?_).1
  · intro N; simp
  · intro N
    have : ((N:ℝ) + 1) ≠ 0 := by positivity
    push_cast
    field_simp
    ring
  · intro N k _
    have : 0 ≤ 3.2 / ((N:ℝ) + 1) := by positivity
    push_cast
    nlinarith
  · intro N k _
    push_cast
    ring_nf
    exact le_refl _
  · have h : Filter.Tendsto (fun N : ℕ => (N:ℝ) + 1) Filter.atTop Filter.atTop :=
      Filter.tendsto_atTop_add_const_right _ _ tendsto_natCast_atTop_atTop
    exact h.const_div_atTop _

end PylifeVerif.C15
