/-
C15 — failure probability = analytic load/strength overlap.  Theorems about `Model/FailureProb.lean` at ℝ.

`Φ` (scipy's `norm.cdf`) enters in two ways:
  * abstractly, as any `IsDistFn Φ` (strictly increasing, continuous, values in (0,1)) — enough for the range,
    monotonicity and limit statements;
  * concretely, as `stdNormalCdf x = (gaussianReal 0 1) (Iic x)` (Mathlib's standard Gaussian measure), which
    satisfies `IsDistFn` (`stdNormalCdf_isDistFn`) and for which the overlap integral is evaluated
    (`overlap_integral_eq_closed_form`, from `gaussianReal_conv_gaussianReal`).

Admissible inputs: medians and loads positive (the code takes `log10`), `strength_std > 0`, `load_std ≥ 0` in the
closed form (`> 0` for the integral; the code's `norm.pdf(·, scale = 0)` is NaN).
-/
import Proofs.RealNum
import Model.FailureProb
import Proofs.Lemmas.GaussianOverlap
import Proofs.Lemmas.Trapezoid
import Mathlib.Topology.Algebra.Order.Field
import Mathlib.MeasureTheory.Integral.Bochner.Basic
import Mathlib.MeasureTheory.Measure.Lebesgue.Integral
import Mathlib.MeasureTheory.Measure.Haar.NormedSpace

namespace PylifeVerif.C15
open PylifeVerif.FailureProb PylifeVerif.GaussianOverlap PylifeVerif.TrapezoidLemmas

/-- What the range / monotonicity / limit theorems assume about the distribution function `Φ`. -/
structure IsDistFn (Φ : ℝ → ℝ) : Prop where
  strictMono : StrictMono Φ
  continuous : Continuous Φ
  pos : ∀ x, 0 < Φ x
  lt_one : ∀ x, Φ x < 1

/-- The standard normal distribution function is such a `Φ`. -/
theorem stdNormalCdf_isDistFn : IsDistFn stdNormalCdf :=
  ⟨stdNormalCdf_strictMono, stdNormalCdf_continuous, fun x => (stdNormalCdf_mem_Ioo x).1,
    fun x => (stdNormalCdf_mem_Ioo x).2⟩

private lemma log10_lt {a b : ℝ} (ha : 0 < a) (hab : a < b) :
    (Transc.log10 a : ℝ) < Transc.log10 b := by
  simp only [transc_log10]
  have h10 : 0 < Real.log 10 := Real.log_pos (by norm_num)
  exact div_lt_div_of_pos_right (Real.log_lt_log ha hab) h10

private lemma denom_pos {ss : ℝ} (hss : 0 < ss) (ls : ℝ) :
    0 < Real.sqrt (ls * ls + ss * ss) :=
  Real.sqrt_pos.mpr (by nlinarith [mul_self_nonneg ls, mul_pos hss hss])

/-! ## range -/

/-- The failure probability lies in [0, 1] (in fact strictly inside) — for the log-normal load, its complement
and the deterministic load, for every input. -/
theorem pf_in_unit_interval {Φ : ℝ → ℝ} (hΦ : IsDistFn Φ) (sm ss lm ls : ℝ) :
    (0 < pfNormLoad Φ sm ss lm ls ∧ pfNormLoad Φ sm ss lm ls < 1) ∧
    (0 < pfSimpleLoad Φ sm ss lm ∧ pfSimpleLoad Φ sm ss lm < 1) :=
  ⟨⟨hΦ.pos _, hΦ.lt_one _⟩, ⟨hΦ.pos _, hΦ.lt_one _⟩⟩

example : 0 < pfNormLoad stdNormalCdf 100 0.05 80 0.1 ∧ pfNormLoad stdNormalCdf 100 0.05 80 0.1 < 1 :=
  (pf_in_unit_interval stdNormalCdf_isDistFn 100 0.05 80 0.1).1

/-! ## monotonicity -/

/-- Strictly increasing in the load median (log-normal load) and in the load (deterministic load). -/
theorem pf_mono_in_load {Φ : ℝ → ℝ} (hΦ : IsDistFn Φ) {sm ss ls lm₁ lm₂ : ℝ} (hss : 0 < ss)
    (h₁ : 0 < lm₁) (h₁₂ : lm₁ < lm₂) :
    pfNormLoad Φ sm ss lm₁ ls < pfNormLoad Φ sm ss lm₂ ls ∧
    pfSimpleLoad Φ sm ss lm₁ < pfSimpleLoad Φ sm ss lm₂ := by
  have hl := log10_lt h₁ h₁₂
  constructor
  · apply hΦ.strictMono
    simp only [safetyIndex, transc_sqrt]
    exact div_lt_div_of_pos_right (by linarith) (denom_pos hss ls)
  · apply hΦ.strictMono
    exact div_lt_div_of_pos_right (by linarith) hss

/-- Strictly decreasing in the strength median. -/
theorem pf_antitone_in_strength {Φ : ℝ → ℝ} (hΦ : IsDistFn Φ) {ss lm ls sm₁ sm₂ : ℝ} (hss : 0 < ss)
    (h₁ : 0 < sm₁) (h₁₂ : sm₁ < sm₂) :
    pfNormLoad Φ sm₂ ss lm ls < pfNormLoad Φ sm₁ ss lm ls ∧
    pfSimpleLoad Φ sm₂ ss lm < pfSimpleLoad Φ sm₁ ss lm := by
  have hl := log10_lt h₁ h₁₂
  constructor
  · apply hΦ.strictMono
    simp only [safetyIndex, transc_sqrt]
    exact div_lt_div_of_pos_right (by linarith) (denom_pos hss ls)
  · apply hΦ.strictMono
    exact div_lt_div_of_pos_right (by linarith) hss

example : pfNormLoad stdNormalCdf 100 0.05 80 0.1 < pfNormLoad stdNormalCdf 100 0.05 90 0.1 :=
  (pf_mono_in_load stdNormalCdf_isDistFn (by norm_num) (by norm_num) (by norm_num)).1

example : pfNormLoad stdNormalCdf 120 0.05 80 0.1 < pfNormLoad stdNormalCdf 100 0.05 80 0.1 :=
  (pf_antitone_in_strength stdNormalCdf_isDistFn (by norm_num) (by norm_num) (by norm_num)).1

/-! ## vanishing load scatter -/

/-- At `load_std = 0` the closed form IS the deterministic-load value … -/
theorem pf_zero_scatter_eq_simple_load (Φ : ℝ → ℝ) {sm ss lm : ℝ} (hss : 0 < ss) :
    pfNormLoad Φ sm ss lm 0 = pfSimpleLoad Φ sm ss lm := by
  simp only [pfNormLoad, pfSimpleLoad, normCdf, safetyIndex, transc_sqrt, mul_zero, zero_add,
    Real.sqrt_mul_self hss.le]

/-- … and it tends to it as the load scatter vanishes. -/
theorem pf_tends_to_simple_load {Φ : ℝ → ℝ} (hΦ : IsDistFn Φ) {sm ss lm : ℝ} (hss : 0 < ss) :
    Filter.Tendsto (fun ls => pfNormLoad Φ sm ss lm ls) (nhds 0) (nhds (pfSimpleLoad Φ sm ss lm)) := by
  rw [← pf_zero_scatter_eq_simple_load Φ hss]
  have hc : Continuous fun ls : ℝ => pfNormLoad Φ sm ss lm ls := by
    unfold pfNormLoad safetyIndex
    simp only [transc_sqrt]
    refine hΦ.continuous.comp (Continuous.div continuous_const ?_ fun ls => (denom_pos hss ls).ne')
    exact Real.continuous_sqrt.comp (by fun_prop)
  exact hc.tendsto 0

example : Filter.Tendsto (fun ls => pfNormLoad stdNormalCdf 100 0.05 80 ls) (nhds 0)
    (nhds (pfSimpleLoad stdNormalCdf 100 0.05 80)) :=
  pf_tends_to_simple_load stdNormalCdf_isDistFn (by norm_num)

/-! ## the overlap integral -/

/-- `scipy.stats.norm.pdf(x, loc = 0, scale = σ)` -/
noncomputable def normPdf (σ x : ℝ) : ℝ := (σ * Real.sqrt (2 * Real.pi))⁻¹ * Real.exp (-(x ^ 2) / (2 * σ ^ 2))

/-- The integral that `pf_norm_load` hands to `quad` — load density (centred at 0, scale `load_std`) times the
strength distribution function (`loc = s_50 − log10 load_median`, `scale = strength_std`) — taken over the whole
line has the closed-form value `Φ((log10 load_median − log10 strength_median)/√(load_std² + strength_std²))`. -/
theorem overlap_integral_eq_closed_form (sm ss lm ls : ℝ) (hss : 0 < ss) (hls : 0 < ls) :
    ∫ x, normPdf ls x * normCdf stdNormalCdf x (Transc.log10 sm - Transc.log10 lm) ss
      = pfNormLoad stdNormalCdf sm ss lm ls := by
  have h := gaussian_overlap_sigma (Transc.log10 sm - Transc.log10 lm) ls ss hls hss
  simp only [normPdf, normCdf, pfNormLoad, safetyIndex, transc_sqrt]
  rw [h]
  congr 2
  · ring
  · ring_nf

example : ∫ x, normPdf 0.1 x * normCdf stdNormalCdf x (Transc.log10 (100:ℝ) - Transc.log10 (80:ℝ)) 0.05
    = pfNormLoad stdNormalCdf 100 0.05 80 0.1 :=
  overlap_integral_eq_closed_form 100 0.05 80 0.1 (by norm_num) (by norm_num)

private lemma normPdf_scale {ls : ℝ} (hls : 0 < ls) (t : ℝ) : normPdf 1 t = ls * normPdf ls (ls * t) := by
  unfold normPdf
  have h2 : Real.sqrt (2 * Real.pi) ≠ 0 := (Real.sqrt_pos.mpr (by positivity)).ne'
  have e : -((ls * t) ^ 2) / (2 * ls ^ 2) = -(t ^ 2) / (2 * 1 ^ 2) := by
    field_simp
  rw [e]
  field_simp

/-- The same integral in the standardised load variable `t = x / load_std` (the form the repaired
`pf_norm_load` integrates: `norm.pdf(t) * norm.cdf(sc * t, loc, scale)`). -/
theorem overlap_integral_standardised (sm ss lm ls : ℝ) (hss : 0 < ss) (hls : 0 < ls) :
    ∫ t, normPdf 1 t * normCdf stdNormalCdf (ls * t) (Transc.log10 sm - Transc.log10 lm) ss
      = pfNormLoad stdNormalCdf sm ss lm ls := by
  rw [← overlap_integral_eq_closed_form sm ss lm ls hss hls]
  have h := MeasureTheory.Measure.integral_comp_mul_left
    (fun x => normPdf ls x * normCdf stdNormalCdf x (Transc.log10 sm - Transc.log10 lm) ss) ls
  simp only [smul_eq_mul, abs_inv, abs_of_pos hls] at h
  have h' : ∫ t, normPdf 1 t * normCdf stdNormalCdf (ls * t) (Transc.log10 sm - Transc.log10 lm) ss
      = ls * ∫ t, normPdf ls (ls * t) * normCdf stdNormalCdf (ls * t) (Transc.log10 sm - Transc.log10 lm) ss := by
    rw [← MeasureTheory.integral_const_mul]
    congr 1
    funext t
    rw [normPdf_scale hls t]
    ring
  rw [h', h]
  field_simp

/-! ## the arbitrary-distribution variant -/

/-- On sample points `x_k = a + k (b − a)/N` with density values `pdf x_k`, `pf_arbitrary_load` IS the composite
trapezoidal rule (Mathlib's `trapezoidal_integral`) of `pdf · cdf_S`. -/
theorem pf_arbitrary_eq_trapezoidal_rule (Φ pdf : ℝ → ℝ) (sm ss a b : ℝ) {N : ℕ} (hN : 0 < N) :
    pfArbitraryLoad Φ sm ss ((uniformNodes a b N).map fun x => (x, pdf x))
      = trapezoidal_integral (fun x => pdf x * normCdf Φ x (Transc.log10 sm) ss) N a b :=
  pfArbitraryLoad_uniform Φ pdf sm ss a b hN

/- FULL STATEMENT (not proved): for the sampled normal density `pdf = normPdf`-shifted and `Φ = stdNormalCdf`, on any
refinement sequence of sample points covering the load distribution, `pf_arbitrary_load → pfNormLoad`.
PROVED below: second-order error bound and convergence to `∫ₐᵇ pdf · cdf_S` on uniform grids for every integrand
that is C² on `[a, b]` with `|f''| ≤ ζ`.  MISSING: C² + explicit ζ for the Gaussian integrand (needs `Φ' = φ`, not
derived here from the measure-theoretic definition), the tails outside `[a, b]`, non-uniform points. -/
theorem pf_arbitrary_converges_partial (Φ pdf : ℝ → ℝ) (sm ss a b : ℝ)
    (hc2 : ContDiffOn ℝ 2 (fun x => pdf x * normCdf Φ x (Transc.log10 sm) ss) (Set.uIcc a b)) {ζ : ℝ}
    (hζ : ∀ x, |iteratedDerivWithin 2 (fun x => pdf x * normCdf Φ x (Transc.log10 sm) ss) (Set.uIcc a b) x| ≤ ζ) :
    (∀ N : ℕ, 0 < N →
      |pfArbitraryLoad Φ sm ss ((uniformNodes a b N).map fun x => (x, pdf x))
        - ∫ x in a..b, pdf x * normCdf Φ x (Transc.log10 sm) ss| ≤ |b - a| ^ 3 * ζ / (12 * N ^ 2)) ∧
    Filter.Tendsto (fun N : ℕ => pfArbitraryLoad Φ sm ss ((uniformNodes a b N).map fun x => (x, pdf x)))
      Filter.atTop (nhds (∫ x in a..b, pdf x * normCdf Φ x (Transc.log10 sm) ss)) :=
  ⟨fun _ hN => pfArbitraryLoad_error_le Φ pdf sm ss a b hc2 hζ hN, pfArbitraryLoad_tendsto Φ pdf sm ss a b hc2 hζ⟩

/-- non-vacuity: a constant integrand satisfies the hypotheses (ζ = 0: the rule is exact) -/
example : Filter.Tendsto (fun N : ℕ => pfArbitraryLoad (fun _ => (1:ℝ)/2) 10 1 ((uniformNodes 0 1 N).map fun x => (x, (1:ℝ))))
    Filter.atTop (nhds (∫ x in (0:ℝ)..1, (1:ℝ) * normCdf (fun _ => (1:ℝ)/2) x (Transc.log10 (10:ℝ)) 1)) := by
  refine (pf_arbitrary_converges_partial (fun _ => (1:ℝ)/2) (fun _ => 1) 10 1 0 1 ?_ (ζ := 0) ?_).2
  · simp only [normCdf]; exact contDiffOn_const
  · intro x; simp [normCdf, iteratedDerivWithin_const]

end PylifeVerif.C15
