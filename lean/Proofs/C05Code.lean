/-
C05 for the CODE model `twoPass` (first-run flush flag from `findTurns (reps ++ reps)`): the same two
theorems as `Proofs/C05Core.lean` (which are about the repaired variant `twoPassR`), unguarded.
-/
import Proofs.Lemmas.HCMC05Code
import Proofs.C05Core

namespace PylifeVerif
open HCM
namespace C05

set_option linter.unusedVariables false in
/-- The detector's records and visited strains equal those of the guideline procedure run on the
reversal sequences that the two passes are fed (code model).  `SignPreserving` is not needed for one
point: the hypothesis of the given statement is kept but not used. -/
theorem hcm_model_eq_guideline_code (law : Law) (hl : SignPreserving law) (s : List Int) :
    let st := twoPass law (C04.one s)
    st.recs.map toG = (Spec.guideline law (fedOf st 1) (fedOf st 2)).recs ∧
    st.strainValues = (Spec.guideline law (fedOf st 1) (fedOf st 2)).strains := by
  intro st
  obtain ⟨ls1, ls2, hrel, hfed⟩ := C05L.twoPass_oneC law s
  obtain ⟨h1, h2⟩ := fedOf_split st ls1 ls2 hfed
  rw [h1, h2]
  exact ⟨hrel.rel.recs, hrel.strains⟩

/-- Points with proportional load histories: every point gets what it gets alone (code model). -/
theorem hcm_batch_eq_single_code (law : Law) (hl : SignPreserving law) (L : List Int) (cs : List Int)
    (hc : ∀ c ∈ cs, 0 < c) (k : Nat) (hk : k < cs.length) :
    ((twoPass law (L.map fun l => cs.map (· * l))).recs.map (proj k)) =
      ((twoPass law (L.map fun l => [cs.getD k 1 * l])).recs.map (proj 0)) :=
  C05L.twoPass_simC law hl cs hc k hk L

/-- The running strain extremes (kept per assessment point since the fix 68eb0ef) of every point of a
batch with proportional load histories are those the point gets alone (code model). -/
theorem hcm_batch_eq_single_LF_code (law : Law) (hl : SignPreserving law) (L : List Int) (cs : List Int)
    (hc : ∀ c ∈ cs, 0 < c) (k : Nat) (hk : k < cs.length) :
    ((twoPass law (L.map fun l => cs.map (· * l))).recs.map (projLF k)) =
      ((twoPass law (L.map fun l => [cs.getD k 1 * l])).recs.map (projLF 0)) :=
  C05L.twoPass_simLFC law hl cs hc k hk L

/-! ### non-vacuity (a sequence on which the code's flag differs from the repaired one is included) -/

example : ((twoPass lawLinear ([0, 100, -200, 100, -100, 200].map fun l => [1, 3, 2].map (· * l))).recs.map (proj 1)) =
    ((twoPass lawLinear ([0, 100, -200, 100, -100, 200].map fun l => [[1, 3, 2].getD 1 1 * l])).recs.map (proj 0)) :=
  hcm_batch_eq_single_code lawLinear signPreserving_lawLinear _ [1, 3, 2] (by decide) 1 (by decide)

example :
    let st := twoPass lawLinear (C04.one [100, -200, 100, -100, 200])
    st.recs.map toG = (Spec.guideline lawLinear (fedOf st 1) (fedOf st 2)).recs ∧
    st.strainValues = (Spec.guideline lawLinear (fedOf st 1) (fedOf st 2)).strains :=
  hcm_model_eq_guideline_code lawLinear signPreserving_lawLinear _

example : ((twoPass lawSat ([0, 100, -200, 100, -100, 200].map fun l => [1, 3, 2].map (· * l))).recs.map (projLF 1)) =
    [(0, 91200), (-361800, 451200), (-361800, 1081800), (-361800, 1081800), (-361800, 1081800)] := by
  decide +kernel

/-- on this sequence the code model and the repaired variant feed different reversal sequences -/
example : (twoPass lawLinear (C04.one [-200, -100, -200, -100])).fed ≠
    (twoPassR lawLinear (C04.one [-200, -100, -200, -100])).fed := by
  decide +kernel

example :
    let st := twoPass lawLinear (C04.one [-200, -100, -200, -100])
    st.recs.map toG = (Spec.guideline lawLinear (fedOf st 1) (fedOf st 2)).recs ∧
    st.strainValues = (Spec.guideline lawLinear (fedOf st 1) (fedOf st 2)).strains :=
  hcm_model_eq_guideline_code lawLinear signPreserving_lawLinear _

end C05
end PylifeVerif

