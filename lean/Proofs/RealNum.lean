/-
`Transc ℝ`: the real-number semantics of the generic model functions (proofs only).
-/
import Model.Num
import Mathlib.Analysis.SpecialFunctions.Pow.Real
import Mathlib.Analysis.SpecialFunctions.Trigonometric.Basic

namespace PylifeVerif

noncomputable instance instTranscReal : Transc ℝ where
  sqrt := Real.sqrt
  exp := Real.exp
  log := Real.log
  log10 := fun x => Real.log x / Real.log 10
  pow := fun x y => x ^ y
  abs := fun x => |x|
  sign := fun x => if 0 < x then 1 else if x < 0 then -1 else 0
  cos := Real.cos
  isFinite := fun _ => true

@[simp] theorem transc_sqrt (x : ℝ) : Transc.sqrt x = Real.sqrt x := rfl
@[simp] theorem transc_exp (x : ℝ) : Transc.exp x = Real.exp x := rfl
@[simp] theorem transc_log (x : ℝ) : Transc.log x = Real.log x := rfl
@[simp] theorem transc_log10 (x : ℝ) : Transc.log10 x = Real.log x / Real.log 10 := rfl
@[simp] theorem transc_pow (x y : ℝ) : Transc.pow x y = x ^ y := rfl
@[simp] theorem transc_abs (x : ℝ) : Transc.abs x = |x| := rfl
@[simp] theorem transc_sign (x : ℝ) : Transc.sign x = if 0 < x then 1 else if x < 0 then -1 else 0 := rfl
@[simp] theorem transc_cos (x : ℝ) : Transc.cos x = Real.cos x := rfl
@[simp] theorem transc_isFinite (x : ℝ) : Transc.isFinite x = true := rfl

end PylifeVerif
