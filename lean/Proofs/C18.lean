/-
C18 — Wöhler test-data analysis: equivariance under load / cycle scaling, permutation invariance, zone partition,
exact recovery of a Basquin line, maximum likelihood not worse than its start.
Theorems about `Model/WoehlerAnalysis.lean` at ℝ; the proofs are in `Proofs/Lemmas/Woehler*.lean`.

`Q` (scipy's `norm.ppf`) and `Φ` (`norm.cdf`) are ARBITRARY functions ℝ → ℝ here: nothing about them is needed.
Admissible data: positive loads / cycles; `c > 0`.
-/
import Proofs.Lemmas.WoehlerBasics
import Proofs.Lemmas.WoehlerZones
import Proofs.Lemmas.WoehlerElementary
import Proofs.Lemmas.WoehlerProbit

namespace PylifeVerif.C18
open PylifeVerif.WoehlerAnalysis

/-! ## ordinary least squares (`scipy.stats.linregress`) -/

/-- shifting abscissae by `a` and ordinates by `b` keeps the slope and moves the intercept to `i + b − s·a` -/
theorem ols_shift_equivariant (pts : List (ℝ × ℝ)) (h : pts ≠ []) (a b : ℝ) :
    ols (pts.map fun p => (p.1 + a, p.2 + b)) = ((ols pts).1, (ols pts).2 + b - (ols pts).1 * a) :=
  WoehlerBasics.ols_shift_equivariant pts h a b

/-- scaling the ordinates by `s` scales slope and intercept; scaling the abscissae by `c ≠ 0` divides the slope -/
theorem ols_scale_equivariant (pts : List (ℝ × ℝ)) (s : ℝ) {c : ℝ} (hc : c ≠ 0) :
    ols (pts.map fun p => (p.1, s * p.2)) = (s * (ols pts).1, s * (ols pts).2) ∧
    ols (pts.map fun p => (c * p.1, p.2)) = ((ols pts).1 / c, (ols pts).2) :=
  ⟨WoehlerBasics.ols_scale_y pts s, WoehlerBasics.ols_scale_x pts hc⟩

theorem ols_perm_invariant {p₁ p₂ : List (ℝ × ℝ)} (h : p₁.Perm p₂) : ols p₁ = ols p₂ :=
  WoehlerBasics.ols_perm_invariant h

example : ols [((1:ℝ), (3:ℝ)), (2, 5), (4, 9)] = (2, 1) :=
  WoehlerBasics.ols_collinear _ 1 2 (by intro p hp; simp at hp; rcases hp with rfl | rfl | rfl <;> norm_num)
    ⟨(1, 3), by simp, (2, 5), by simp, by norm_num⟩

/-! ## zones -/

/-- At the automatic transition every test lies in exactly one zone (the two zones together are a permutation of
the data set, and no test is in both), the side of the reported transition decides which, and the finite zone
holds fractures only. -/
theorem zones_partition (d : List (Test ℝ)) (hpos : ∀ t ∈ d, 0 < t.load) (hf : finiteZone d ≠ []) :
    (finiteZone d ++ infiniteZone d).Perm d ∧
    (∀ t, t ∈ finiteZone d → t ∈ infiniteZone d → False) ∧
    (∀ t ∈ d, (t ∈ finiteZone d ↔ transition d < t.load) ∧ (t ∈ infiniteZone d ↔ t.load < transition d)) ∧
    (runouts d ≠ [] → ∀ t ∈ finiteZone d, t.fracture = true) :=
  ⟨WoehlerZones.zones_perm d, WoehlerZones.zones_disjoint d, (WoehlerZones.zones_partition d hpos hf).2,
    WoehlerZones.finiteZone_fracture d⟩

example : (∀ t ∈ WoehlerZones.exampleData, 0 < t.load) ∧ finiteZone WoehlerZones.exampleData ≠ [] := by
  constructor
  · intro t ht; simp [WoehlerZones.exampleData] at ht; rcases ht with rfl | rfl <;> norm_num
  · simp [WoehlerZones.exampleData, finiteZone, runouts, fractures, maxRunoutLoad, maxOf]; norm_num

/-! ## Elementary -/

/-- All loads multiplied by `c > 0`: the endurance limit scales by `c`; slope and both scatters are unchanged; the knee
cycle number is unchanged whenever the reported endurance limit is not 0 (with no run-out the code reports `SD = 0`
and evaluates `ND` at the fixed load 0.1). -/
theorem elementary_load_scale (Q : ℝ → ℝ) {c : ℝ} (hc : 0 < c) (d : List (Test ℝ)) (hpos : ∀ t ∈ d, 0 < t.load) :
    (elementary Q (scaleLoad c d)).k1 = (elementary Q d).k1 ∧
    (elementary Q (scaleLoad c d)).SD = c * (elementary Q d).SD ∧
    (elementary Q (scaleLoad c d)).TN = (elementary Q d).TN ∧
    (elementary Q (scaleLoad c d)).TS = (elementary Q d).TS ∧
    ((elementary Q d).SD ≠ 0 → (elementary Q (scaleLoad c d)).ND = (elementary Q d).ND) :=
  WoehlerElementary.elementary_load_scale Q hc d hpos

/-- All cycle numbers multiplied by `c > 0`: the knee cycle number scales by `c`, the rest is unchanged.
Guards (forced by the proof, refuted without them in `Proofs/Lemmas/WoehlerElementary.lean`): positive loads (the code
returns NaN for a non-positive load) and at least one fracture in the finite zone (the analyzer rejects the rest). -/
theorem elementary_cycle_scale (Q : ℝ → ℝ) {c : ℝ} (hc : 0 < c) (d : List (Test ℝ)) (hpos : ∀ t ∈ d, 0 < t.cycles)
    (hload : ∀ t ∈ d, 0 < t.load)
    (hne : (finiteZone (irrelevantRunoutsDropped d)).filter (·.fracture) ≠ []) :
    (elementary Q (scaleCycles c d)).k1 = (elementary Q d).k1 ∧
    (elementary Q (scaleCycles c d)).ND = c * (elementary Q d).ND ∧
    (elementary Q (scaleCycles c d)).SD = (elementary Q d).SD ∧
    (elementary Q (scaleCycles c d)).TN = (elementary Q d).TN ∧
    (elementary Q (scaleCycles c d)).TS = (elementary Q d).TS :=
  WoehlerElementary.elementary_cycle_scale Q hc d hpos hload hne

/-- Row order is irrelevant. -/
theorem elementary_perm_invariant (Q : ℝ → ℝ) {d₁ d₂ : List (Test ℝ)} (h : d₁.Perm d₂) :
    elementary Q d₁ = elementary Q d₂ :=
  WoehlerElementary.elementary_perm_invariant Q h

/-! ## Probit -/

/-- Load scaling for Probit.  Guard `hps`: where the probit regression is used (≥ 2 levels in the infinite zone) its
slope is not 0 — with slope 0 the code returns inf / NaN and the totalised model returns `SD = 1` on both sides
(`WoehlerProbit.probit_load_scale_counterexample`). -/
theorem probit_load_scale (Q : ℝ → ℝ) {c : ℝ} (hc : 0 < c) (d : List (Test ℝ)) (hpos : ∀ t ∈ d, 0 < t.load)
    (hps : 2 ≤ (levels (infiniteZone (irrelevantRunoutsDropped d))).length →
      (ols (probitPoints Q (infiniteZone (irrelevantRunoutsDropped d)))).1 ≠ 0) :
    (probit Q (scaleLoad c d)).k1 = (probit Q d).k1 ∧ (probit Q (scaleLoad c d)).SD = c * (probit Q d).SD ∧
    (probit Q (scaleLoad c d)).TN = (probit Q d).TN ∧ (probit Q (scaleLoad c d)).TS = (probit Q d).TS ∧
    ((probit Q d).SD ≠ 0 → (probit Q (scaleLoad c d)).ND = (probit Q d).ND) :=
  WoehlerProbit.probit_load_scale Q hc d hpos hps

theorem probit_cycle_scale (Q : ℝ → ℝ) {c : ℝ} (hc : 0 < c) (d : List (Test ℝ)) (hpos : ∀ t ∈ d, 0 < t.cycles)
    (hload : ∀ t ∈ d, 0 < t.load)
    (hff : (finiteZone (irrelevantRunoutsDropped d)).filter (fun t => t.fracture) ≠ []) :
    (probit Q (scaleCycles c d)).k1 = (probit Q d).k1 ∧ (probit Q (scaleCycles c d)).ND = c * (probit Q d).ND ∧
    (probit Q (scaleCycles c d)).SD = (probit Q d).SD ∧ (probit Q (scaleCycles c d)).TN = (probit Q d).TN ∧
    (probit Q (scaleCycles c d)).TS = (probit Q d).TS :=
  WoehlerProbit.probit_cycle_scale Q hc d hpos hload hff

theorem probit_perm_invariant (Q : ℝ → ℝ) {d₁ d₂ : List (Test ℝ)} (h : d₁.Perm d₂) : probit Q d₁ = probit Q d₂ :=
  WoehlerProbit.probit_perm_invariant Q h

/-! ## exact Basquin data -/

/-- Data exactly on `N = ND₀ (L/SD₀)^(−k)` (finite-zone fractures, at least two load levels): the slope is recovered. -/
theorem exact_basquin_slope (Q : ℝ → ℝ) (d : List (Test ℝ)) {k SD₀ ND₀ : ℝ} (hSD : 0 < SD₀) (hND : 0 < ND₀)
    (hline : ∀ t ∈ (finiteZone (irrelevantRunoutsDropped d)).filter (·.fracture),
      0 < t.load ∧ t.cycles = ND₀ * (t.load / SD₀) ^ (-k))
    (hlev : ∃ t ∈ (finiteZone (irrelevantRunoutsDropped d)).filter (·.fracture),
      ∃ u ∈ (finiteZone (irrelevantRunoutsDropped d)).filter (·.fracture), t.load ≠ u.load) :
    (elementary Q d).k1 = k :=
  WoehlerElementary.exact_basquin_slope Q d hSD hND hline hlev

/- FULL STATEMENT (false as mathematics for the estimator the code uses): "… and TN = TS = 1".
PROVED: all shifted (pearl chain) cycles coincide, hence the probability-net regression whose slope yields TN has
Sxx = 0 — the code's `slope = Sxy / Sxx` is 0/0.  (Over ℝ with x/0 = 0 the model value would be TN = 10^0 = 1 — true
for the wrong reason, therefore NOT stated.)  The real code returns NaN / inf / arbitrary values: known finding
`exact-basquin-scatter`. -/
theorem exact_basquin_no_scatter_partial (Q : ℝ → ℝ) (d : List (Test ℝ)) {k SD₀ ND₀ : ℝ} (hSD : 0 < SD₀) (hND : 0 < ND₀)
    (hline : ∀ t ∈ (finiteZone (irrelevantRunoutsDropped d)).filter (·.fracture),
      0 < t.load ∧ t.cycles = ND₀ * (t.load / SD₀) ^ (-k))
    (hlev : ∃ t ∈ (finiteZone (irrelevantRunoutsDropped d)).filter (·.fracture),
      ∃ u ∈ (finiteZone (irrelevantRunoutsDropped d)).filter (·.fracture), t.load ≠ u.load) :
    ∃ N₀, ∀ n ∈ normedCycles ((finiteZone (irrelevantRunoutsDropped d)).filter (·.fracture))
      (fitSlope (irrelevantRunoutsDropped d)).1, n = N₀ :=
  WoehlerElementary.exact_basquin_pearl_chain_degenerate Q d hSD hND hline hlev

/-- non-vacuity: two tests on `N = 100 L^(−2)` satisfy the hypotheses; the recovered slope is 2 and the pearl chain
collapses to a single value -/
example : (elementary (fun x => x) WoehlerElementary.exampleData).k1 = 2 ∧
    ∃ N₀, ∀ n ∈ normedCycles ((finiteZone (irrelevantRunoutsDropped WoehlerElementary.exampleData)).filter (·.fracture))
      (fitSlope (irrelevantRunoutsDropped WoehlerElementary.exampleData)).1, n = N₀ := by
  have hline : ∀ t ∈ (finiteZone (irrelevantRunoutsDropped WoehlerElementary.exampleData)).filter (·.fracture),
      0 < t.load ∧ t.cycles = 100 * (t.load / 1) ^ (-(2:ℝ)) := by
    rw [WoehlerElementary.ff_exampleData]
    intro t ht
    simp only [WoehlerElementary.exampleData, List.mem_cons, List.not_mem_nil, or_false] at ht
    rcases ht with rfl | rfl
    · norm_num
    · refine ⟨by norm_num, ?_⟩
      show (25 : ℝ) = 100 * (2 / 1) ^ (-(2 : ℝ))
      rw [Real.rpow_neg (by norm_num), Real.rpow_two]; norm_num
  have hlev : ∃ t ∈ (finiteZone (irrelevantRunoutsDropped WoehlerElementary.exampleData)).filter (·.fracture),
      ∃ u ∈ (finiteZone (irrelevantRunoutsDropped WoehlerElementary.exampleData)).filter (·.fracture), t.load ≠ u.load := by
    rw [WoehlerElementary.ff_exampleData]
    exact ⟨⟨1, 100, true⟩, by simp [WoehlerElementary.exampleData], ⟨2, 25, true⟩,
      by simp [WoehlerElementary.exampleData], by norm_num⟩
  exact ⟨exact_basquin_slope _ _ one_pos (by norm_num) hline hlev,
    exact_basquin_no_scatter_partial (fun x => x) _ one_pos (by norm_num) hline hlev⟩

/-! ## likelihood -/

/-- The likelihood functions are invariant when data and parameters are scaled together (loads with `SD`, cycles
with `ND`) and under permutation of the rows: the maximum-likelihood objective of the scaled problem is the original
objective in scaled parameters. -/
theorem likelihood_invariant_under_scaling (Φ : ℝ → ℝ) {c : ℝ} (hc : 0 < c) (d : List (Test ℝ)) (cv : Curve ℝ)
    (hSD : 0 < cv.SD) (hND : 0 < cv.ND) (hd : ∀ t ∈ d, 0 < t.load ∧ 0 < t.cycles) :
    likTotal Φ (scaleLoad c d) { cv with SD := c * cv.SD } = likTotal Φ d cv ∧
    likTotal Φ (scaleCycles c d) { cv with ND := c * cv.ND } = likTotal Φ d cv ∧
    likInfinite Φ (scaleLoad c d) (c * cv.SD) cv.TS = likInfinite Φ d cv.SD cv.TS ∧
    likInfinite Φ (scaleCycles c d) cv.SD cv.TS = likInfinite Φ d cv.SD cv.TS ∧
    (∀ d₂, d.Perm d₂ → likTotal Φ d cv = likTotal Φ d₂ cv ∧ likInfinite Φ d cv.SD cv.TS = likInfinite Φ d₂ cv.SD cv.TS) :=
  ⟨WoehlerZones.likTotal_scaleLoad Φ hc d cv hSD, WoehlerZones.likTotal_scaleCycles Φ hc d cv hSD hND hd,
    WoehlerZones.likInfinite_scaleLoad Φ hc hSD.ne' d cv.TS, WoehlerZones.likInfinite_scaleCycles Φ c d cv.SD cv.TS,
    fun _ h => ⟨WoehlerZones.likTotal_perm Φ h cv, WoehlerZones.likInfinite_perm Φ h cv.SD cv.TS⟩⟩

/-! ## maximum likelihood not worse than its start -/

/-- order on log-likelihood values with `none` = −∞ (the code's `-np.inf`) -/
def LeLik : Option ℝ → Option ℝ → Prop
  | none, _ => True
  | some _, none => False
  | some a, some b => a ≤ b

/-- The contract ASSUMED of `scipy.optimize.fmin` (Nelder–Mead): the returned point is never worse than the start
(the start is a vertex of the initial simplex and the best vertex is kept).  `opt lik x₀` maximises `lik`. -/
def NeverWorseThanStart {X : Type} (opt : (X → Option ℝ) → X → X) : Prop :=
  ∀ (lik : X → Option ℝ) (x₀ : X), LeLik (lik x₀) (lik (opt lik x₀))

/- FULL STATEMENT (not provable here): `MaxLikeInf(df).analyze()` / `MaxLikeFull(df).analyze()` return parameters whose
likelihood is ≥ the likelihood at the point the search starts from.  PROVED: this holds for every optimiser honouring
`NeverWorseThanStart`; MaxLikeInf's objective is `likInfinite` over `(SD, TS)` started at `(transition, 1.2)`,
MaxLikeFull's is `likTotal` over the five curve parameters started at the elementary curve.  MISSING: that scipy's
`fmin` honours the contract (external code; measured per run). -/
theorem ml_not_worse_than_start_partial (Φ : ℝ → ℝ) (d : List (Test ℝ))
    (opt₂ : (ℝ × ℝ → Option ℝ) → ℝ × ℝ → ℝ × ℝ) (h₂ : NeverWorseThanStart opt₂)
    (opt₅ : (Curve ℝ → Option ℝ) → Curve ℝ → Curve ℝ) (h₅ : NeverWorseThanStart opt₅) (Q : ℝ → ℝ) :
    LeLik (likInfinite Φ d (transition d) 1.2)
      (likInfinite Φ d (opt₂ (fun p => likInfinite Φ d p.1 p.2) (transition d, 1.2)).1
        (opt₂ (fun p => likInfinite Φ d p.1 p.2) (transition d, 1.2)).2) ∧
    LeLik (likTotal Φ d (elementary Q d)) (likTotal Φ d (opt₅ (fun c => likTotal Φ d c) (elementary Q d))) :=
  ⟨h₂ (fun p => likInfinite Φ d p.1 p.2) (transition d, 1.2), h₅ (fun c => likTotal Φ d c) (elementary Q d)⟩

/-- non-vacuity: the identity "optimiser" honours the contract -/
example : NeverWorseThanStart (fun (_ : ℝ × ℝ → Option ℝ) x₀ => x₀) := by
  intro lik x₀
  cases h : lik x₀ <;> simp [LeLik]

end PylifeVerif.C18
