/-
C18 — Wöhler test-data analysis: equivariance under load / cycle scaling, permutation invariance, zone partition,
exact recovery of a Basquin line, maximum likelihood not worse than its start.
Theorems about `Model/WoehlerAnalysis.lean` at ℝ; the proofs are in `Proofs/Lemmas/Woehler*.lean`.

`Q` (scipy's `norm.ppf`) and `Φ` (`norm.cdf`) are ARBITRARY functions ℝ → ℝ here: nothing about them is needed.
`opt` (scipy's `optimize.fmin`) is an ARBITRARY function in the maximum-likelihood pipelines: for `maxLikeInf` a function
of the objective alone (the start is always `(1, 1)`), for `maxLikeFull` a function of the objective AND of the start vector
(`fullStart`: 1 per parameter, 0 where the elementary start value is 0 - /repo d747c6e, scaling `relScale`).  Their
equivariance holds for every optimiser, because the objective the code hands over (in parameters relative to the start
values) and the start vector are the same for the transformed data set.  `ml_not_worse_than_start_partial` assumes one
contract per pipeline: `NeverWorseThanStart (1, 1)` and `NeverWorseThanItsStart`.
Admissible data: positive loads / cycles; `c > 0`.
-/
import Proofs.Lemmas.WoehlerBasics
import Proofs.Lemmas.WoehlerZones
import Proofs.Lemmas.WoehlerElementary
import Proofs.Lemmas.WoehlerProbit
import Proofs.Lemmas.WoehlerMaxLike

namespace PylifeVerif.C18
open PylifeVerif.WoehlerAnalysis

/-! ## ordinary least squares (`scipy.stats.linregress`) -/

/-- shifting abscissae by `a` and ordinates by `b` keeps the slope and moves the intercept to `i + b − s·a` -/
theorem ols_shift_equivariant (pts : List (ℝ × ℝ)) (h : pts ≠ []) (a b : ℝ) :
    ols (pts.map fun p => (p.1 + a, p.2 + b)) = ((ols pts).1, (ols pts).2 + b - (ols pts).1 * a) :=
  WoehlerBasics.ols_shift_equivariant pts h a b

/-- scaling the ordinates by `s` scales slope and intercept; scaling the abscissae by `c ≠ 0` divides the slope -/
theorem ols_scale_equivariant (pts : List (ℝ × ℝ)) (s : ℝ) {c : ℝ} (hc : c ≠ 0) :
    ols (pts.map fun p => (p.1, s * p.2)) = (s * (ols pts).1, s * (ols pts).2) ∧
    ols (pts.map fun p => (c * p.1, p.2)) = ((ols pts).1 / c, (ols pts).2) :=
  ⟨WoehlerBasics.ols_scale_y pts s, WoehlerBasics.ols_scale_x pts hc⟩

theorem ols_perm_invariant {p₁ p₂ : List (ℝ × ℝ)} (h : p₁.Perm p₂) : ols p₁ = ols p₂ :=
  WoehlerBasics.ols_perm_invariant h

example : ols [((1:ℝ), (3:ℝ)), (2, 5), (4, 9)] = (2, 1) :=
  WoehlerBasics.ols_collinear _ 1 2 (by intro p hp; simp at hp; rcases hp with rfl | rfl | rfl <;> norm_num)
    ⟨(1, 3), by simp, (2, 5), by simp, by norm_num⟩

/-! ## zones -/

/-- At the automatic transition every test lies in exactly one zone (the two zones together are a permutation of
the data set, and no test is in both), the side of the reported transition decides which, and the finite zone
holds fractures only. -/
theorem zones_partition (d : List (Test ℝ)) (hpos : ∀ t ∈ d, 0 < t.load) (hf : finiteZone d ≠ []) :
    (finiteZone d ++ infiniteZone d).Perm d ∧
    (∀ t, t ∈ finiteZone d → t ∈ infiniteZone d → False) ∧
    (∀ t ∈ d, (t ∈ finiteZone d ↔ transition d < t.load) ∧ (t ∈ infiniteZone d ↔ t.load < transition d)) ∧
    (runouts d ≠ [] → ∀ t ∈ finiteZone d, t.fracture = true) :=
  ⟨WoehlerZones.zones_perm d, WoehlerZones.zones_disjoint d, (WoehlerZones.zones_partition d hpos hf).2,
    WoehlerZones.finiteZone_fracture d⟩

example : (∀ t ∈ WoehlerZones.exampleData, 0 < t.load) ∧ finiteZone WoehlerZones.exampleData ≠ [] := by
  constructor
  · intro t ht; simp [WoehlerZones.exampleData] at ht; rcases ht with rfl | rfl <;> norm_num
  · simp [WoehlerZones.exampleData, finiteZone, runouts, fractures, maxRunoutLoad, maxOf]; norm_num

/-- Series topped by a run-out level (no fracture above the highest run-out: the finite zone is empty and the code
guesses the transition from the two highest load levels, `_guess_from_second_highest_runout`): every test is in the
infinite zone and lies strictly below the reported transition. -/
theorem zones_partition_runout_topped (d : List (Test ℝ)) (hr : runouts d ≠ []) (hf : finiteZone d = [])
    (h2 : ∃ t ∈ d, ∃ u ∈ d, t.load ≠ u.load) :
    infiniteZone d = d ∧ ∀ t ∈ d, t.load < transition d :=
  WoehlerMaxLike.zones_partition_runout_topped d hr hf h2

example : let d : List (Test ℝ) := [⟨1, 100, false⟩, ⟨2, 10, true⟩, ⟨2, 100, false⟩]
    runouts d ≠ [] ∧ finiteZone d = [] ∧ ∃ t ∈ d, ∃ u ∈ d, t.load ≠ u.load := by
  intro d
  refine ⟨by simp [d, runouts], ?_, ⟨1, 100, false⟩, by simp [d], ⟨2, 10, true⟩, by simp [d], by norm_num⟩
  norm_num [d, finiteZone, runouts, fractures, maxRunoutLoad, maxOf]

/-! ## Elementary -/

/-- All loads multiplied by `c > 0`: the endurance limit scales by `c`; slope and both scatters are unchanged; the knee
cycle number is unchanged whenever the reported endurance limit is not 0 (with no run-out the code reports `SD = 0`
and evaluates `ND` at the fixed load 0.1). -/
theorem elementary_load_scale (Q : ℝ → ℝ) {c : ℝ} (hc : 0 < c) (d : List (Test ℝ)) (hpos : ∀ t ∈ d, 0 < t.load) :
    (elementary Q (scaleLoad c d)).k1 = (elementary Q d).k1 ∧
    (elementary Q (scaleLoad c d)).SD = c * (elementary Q d).SD ∧
    (elementary Q (scaleLoad c d)).TN = (elementary Q d).TN ∧
    (elementary Q (scaleLoad c d)).TS = (elementary Q d).TS ∧
    ((elementary Q d).SD ≠ 0 → (elementary Q (scaleLoad c d)).ND = (elementary Q d).ND) :=
  WoehlerElementary.elementary_load_scale Q hc d hpos

/-- All cycle numbers multiplied by `c > 0`: the knee cycle number scales by `c`, the rest is unchanged.
Guards (forced by the proof, refuted without them in `Proofs/Lemmas/WoehlerElementary.lean`): positive loads (the code
returns NaN for a non-positive load) and at least one fracture in the finite zone (the analyzer rejects the rest). -/
theorem elementary_cycle_scale (Q : ℝ → ℝ) {c : ℝ} (hc : 0 < c) (d : List (Test ℝ)) (hpos : ∀ t ∈ d, 0 < t.cycles)
    (hload : ∀ t ∈ d, 0 < t.load)
    (hne : (finiteZone (irrelevantRunoutsDropped d)).filter (·.fracture) ≠ []) :
    (elementary Q (scaleCycles c d)).k1 = (elementary Q d).k1 ∧
    (elementary Q (scaleCycles c d)).ND = c * (elementary Q d).ND ∧
    (elementary Q (scaleCycles c d)).SD = (elementary Q d).SD ∧
    (elementary Q (scaleCycles c d)).TN = (elementary Q d).TN ∧
    (elementary Q (scaleCycles c d)).TS = (elementary Q d).TS :=
  WoehlerElementary.elementary_cycle_scale Q hc d hpos hload hne

/-- Row order is irrelevant. -/
theorem elementary_perm_invariant (Q : ℝ → ℝ) {d₁ d₂ : List (Test ℝ)} (h : d₁.Perm d₂) :
    elementary Q d₁ = elementary Q d₂ :=
  WoehlerElementary.elementary_perm_invariant Q h

/-! ## Probit -/

/-- Load scaling for Probit.  Guard `hps`: where the probit regression is used (≥ 2 levels in the infinite zone) its
slope is not 0 — with slope 0 the code returns inf / NaN and the totalised model returns `SD = 1` on both sides
(`WoehlerProbit.probit_load_scale_counterexample`). -/
theorem probit_load_scale (Q : ℝ → ℝ) {c : ℝ} (hc : 0 < c) (d : List (Test ℝ)) (hpos : ∀ t ∈ d, 0 < t.load)
    (hps : 2 ≤ (levels (infiniteZone (irrelevantRunoutsDropped d))).length →
      (ols (probitPoints Q (infiniteZone (irrelevantRunoutsDropped d)))).1 ≠ 0) :
    (probit Q (scaleLoad c d)).k1 = (probit Q d).k1 ∧ (probit Q (scaleLoad c d)).SD = c * (probit Q d).SD ∧
    (probit Q (scaleLoad c d)).TN = (probit Q d).TN ∧ (probit Q (scaleLoad c d)).TS = (probit Q d).TS ∧
    ((probit Q d).SD ≠ 0 → (probit Q (scaleLoad c d)).ND = (probit Q d).ND) :=
  WoehlerProbit.probit_load_scale Q hc d hpos hps

theorem probit_cycle_scale (Q : ℝ → ℝ) {c : ℝ} (hc : 0 < c) (d : List (Test ℝ)) (hpos : ∀ t ∈ d, 0 < t.cycles)
    (hload : ∀ t ∈ d, 0 < t.load)
    (hff : (finiteZone (irrelevantRunoutsDropped d)).filter (fun t => t.fracture) ≠ []) :
    (probit Q (scaleCycles c d)).k1 = (probit Q d).k1 ∧ (probit Q (scaleCycles c d)).ND = c * (probit Q d).ND ∧
    (probit Q (scaleCycles c d)).SD = (probit Q d).SD ∧ (probit Q (scaleCycles c d)).TN = (probit Q d).TN ∧
    (probit Q (scaleCycles c d)).TS = (probit Q d).TS :=
  WoehlerProbit.probit_cycle_scale Q hc d hpos hload hff

theorem probit_perm_invariant (Q : ℝ → ℝ) {d₁ d₂ : List (Test ℝ)} (h : d₁.Perm d₂) : probit Q d₁ = probit Q d₂ :=
  WoehlerProbit.probit_perm_invariant Q h

/-- non-vacuity of the guard `hps`: a data set with two levels in the infinite zone whose probit regression has a
non-zero slope (`Q = id`) -/
example : 2 ≤ (levels (infiniteZone (irrelevantRunoutsDropped WoehlerProbit.sample))).length ∧
    (ols (probitPoints id (infiniteZone (irrelevantRunoutsDropped WoehlerProbit.sample)))).1 ≠ 0 := by
  rw [WoehlerProbit.sample_ird, WoehlerProbit.sample_inf, WoehlerProbit.sample_levels]
  exact ⟨le_refl 2, WoehlerProbit.sample_slope⟩

/-! ## maximum likelihood (MaxLikeInf, MaxLikeFull): for EVERY optimiser -/

/-- `MaxLikeInf`: all loads multiplied by `c > 0`, whatever the optimiser does. -/
theorem maxLikeInf_load_scale (Q Φ : ℝ → ℝ) (opt : (ℝ × ℝ → Option ℝ) → ℝ × ℝ) {c : ℝ} (hc : 0 < c)
    (d : List (Test ℝ)) (hpos : ∀ t ∈ d, 0 < t.load) :
    (maxLikeInf Q Φ opt (scaleLoad c d)).SD = c * (maxLikeInf Q Φ opt d).SD ∧
    (maxLikeInf Q Φ opt (scaleLoad c d)).TS = (maxLikeInf Q Φ opt d).TS ∧
    (maxLikeInf Q Φ opt (scaleLoad c d)).k1 = (maxLikeInf Q Φ opt d).k1 ∧
    (maxLikeInf Q Φ opt (scaleLoad c d)).TN = (maxLikeInf Q Φ opt d).TN ∧
    ((maxLikeInf Q Φ opt d).SD ≠ 0 → (maxLikeInf Q Φ opt (scaleLoad c d)).ND = (maxLikeInf Q Φ opt d).ND) :=
  WoehlerMaxLike.maxLikeInf_load_scale Q Φ opt hc d hpos

/-- `MaxLikeInf`: all cycle numbers multiplied by `c > 0` (guards as for Elementary); `SD` and `TS` need no guard at all
(also for run-out-topped staircase data, where the elementary part of the result is NaN in the code). -/
theorem maxLikeInf_cycle_scale (Q Φ : ℝ → ℝ) (opt : (ℝ × ℝ → Option ℝ) → ℝ × ℝ) {c : ℝ} (hc : 0 < c)
    (d : List (Test ℝ)) :
    ((∀ t ∈ d, 0 < t.cycles) → (∀ t ∈ d, 0 < t.load) →
      (finiteZone (irrelevantRunoutsDropped d)).filter (·.fracture) ≠ [] →
      (maxLikeInf Q Φ opt (scaleCycles c d)).k1 = (maxLikeInf Q Φ opt d).k1 ∧
      (maxLikeInf Q Φ opt (scaleCycles c d)).ND = c * (maxLikeInf Q Φ opt d).ND ∧
      (maxLikeInf Q Φ opt (scaleCycles c d)).TN = (maxLikeInf Q Φ opt d).TN) ∧
    (maxLikeInf Q Φ opt (scaleCycles c d)).SD = (maxLikeInf Q Φ opt d).SD ∧
    (maxLikeInf Q Φ opt (scaleCycles c d)).TS = (maxLikeInf Q Φ opt d).TS :=
  ⟨fun hpos hload hne =>
    have h := WoehlerMaxLike.maxLikeInf_cycle_scale Q Φ opt hc d hpos hload hne
    ⟨h.1, h.2.1, h.2.2.2.1⟩,
   WoehlerMaxLike.maxLikeInf_cycle_scale_SD_TS Q Φ opt c d⟩

theorem maxLikeInf_perm_invariant (Q Φ : ℝ → ℝ) (opt : (ℝ × ℝ → Option ℝ) → ℝ × ℝ) {d₁ d₂ : List (Test ℝ)}
    (h : d₁.Perm d₂) : maxLikeInf Q Φ opt d₁ = maxLikeInf Q Φ opt d₂ :=
  WoehlerMaxLike.maxLikeInf_perm Q Φ opt h

/-- `MaxLikeFull` (no user-fixed parameters; optimisation variables = parameters in units of their start value, or of 1 where
the start value is 0 (`relScale`), started at `fullStart`; the code's own fixed parameters included: `SD = 0`, `TS = 1` without run-outs,
`TS` of the pearl chain with fewer than two mixed levels): all loads multiplied by `c > 0`, whatever the optimiser does.
`ND`: without run-outs the code reports `SD = 0` and evaluates the start `ND` at the fixed load 0.1, so it is claimed for
data with run-outs only. -/
theorem maxLikeFull_load_scale (Q Φ : ℝ → ℝ) (opt : (Curve ℝ → Option ℝ) → Curve ℝ → Curve ℝ) {c : ℝ} (hc : 0 < c)
    (d : List (Test ℝ)) (hpos : ∀ t ∈ d, 0 < t.load) :
    (maxLikeFull Q Φ opt (scaleLoad c d)).SD = c * (maxLikeFull Q Φ opt d).SD ∧
    (maxLikeFull Q Φ opt (scaleLoad c d)).TS = (maxLikeFull Q Φ opt d).TS ∧
    (maxLikeFull Q Φ opt (scaleLoad c d)).k1 = (maxLikeFull Q Φ opt d).k1 ∧
    (maxLikeFull Q Φ opt (scaleLoad c d)).TN = (maxLikeFull Q Φ opt d).TN ∧
    (runouts d ≠ [] → (maxLikeFull Q Φ opt (scaleLoad c d)).ND = (maxLikeFull Q Φ opt d).ND) :=
  WoehlerMaxLike.maxLikeFull_load_scale Q Φ opt hc d hpos

theorem maxLikeFull_cycle_scale (Q Φ : ℝ → ℝ) (opt : (Curve ℝ → Option ℝ) → Curve ℝ → Curve ℝ) {c : ℝ} (hc : 0 < c)
    (d : List (Test ℝ)) (hpos : ∀ t ∈ d, 0 < t.cycles) (hload : ∀ t ∈ d, 0 < t.load)
    (hne : (finiteZone (irrelevantRunoutsDropped d)).filter (·.fracture) ≠ []) :
    (maxLikeFull Q Φ opt (scaleCycles c d)).k1 = (maxLikeFull Q Φ opt d).k1 ∧
    (maxLikeFull Q Φ opt (scaleCycles c d)).ND = c * (maxLikeFull Q Φ opt d).ND ∧
    (maxLikeFull Q Φ opt (scaleCycles c d)).SD = (maxLikeFull Q Φ opt d).SD ∧
    (maxLikeFull Q Φ opt (scaleCycles c d)).TN = (maxLikeFull Q Φ opt d).TN ∧
    (maxLikeFull Q Φ opt (scaleCycles c d)).TS = (maxLikeFull Q Φ opt d).TS :=
  WoehlerMaxLike.maxLikeFull_cycle_scale Q Φ opt hc d hpos hload hne

theorem maxLikeFull_perm_invariant (Q Φ : ℝ → ℝ) (opt : (Curve ℝ → Option ℝ) → Curve ℝ → Curve ℝ) {d₁ d₂ : List (Test ℝ)}
    (h : d₁.Perm d₂) : maxLikeFull Q Φ opt d₁ = maxLikeFull Q Φ opt d₂ :=
  WoehlerMaxLike.maxLikeFull_perm Q Φ opt h

/-- Without run-outs the objective of `MaxLikeFull` is the constant `-inf` (the code fixes `SD = 0`, for which
`likelihood_finite` returns `-inf`): no optimiser can move; the result is decided by what the optimiser returns on a
constant function (Nelder–Mead: the start, i.e. the elementary estimate with `TS = 1`). -/
theorem maxLikeFull_no_runouts_objective_constant (Φ : ℝ → ℝ) (d : List (Test ℝ)) (wc rel : Curve ℝ)
    (h : runouts d = []) : maxLikeFullObjective Φ d wc rel = none :=
  WoehlerMaxLike.maxLikeFullObjective_no_runouts Φ d wc rel h

/-- non-vacuity: a data set with run-outs, two mixed levels, a non-empty finite zone, positive loads and cycles, on which
nothing is dropped (the hypotheses of the ML theorems above and of `ml_not_worse_than_start_partial` below) -/
example : irrelevantRunoutsDropped WoehlerMaxLike.exampleData = WoehlerMaxLike.exampleData ∧
    runouts WoehlerMaxLike.exampleData ≠ [] ∧ fewMixedLevels WoehlerMaxLike.exampleData = false ∧
    (finiteZone WoehlerMaxLike.exampleData).filter (·.fracture) ≠ [] ∧
    (∀ t ∈ WoehlerMaxLike.exampleData, 0 < t.load ∧ 0 < t.cycles) :=
  WoehlerMaxLike.exampleData_spec

/-! ## exact Basquin data -/

/-- Data exactly on `N = ND₀ (L/SD₀)^(−k)` (finite-zone fractures, at least two load levels): the slope is recovered. -/
theorem exact_basquin_slope (Q : ℝ → ℝ) (d : List (Test ℝ)) {k SD₀ ND₀ : ℝ} (hSD : 0 < SD₀) (hND : 0 < ND₀)
    (hline : ∀ t ∈ (finiteZone (irrelevantRunoutsDropped d)).filter (·.fracture),
      0 < t.load ∧ t.cycles = ND₀ * (t.load / SD₀) ^ (-k))
    (hlev : ∃ t ∈ (finiteZone (irrelevantRunoutsDropped d)).filter (·.fracture),
      ∃ u ∈ (finiteZone (irrelevantRunoutsDropped d)).filter (·.fracture), t.load ≠ u.load) :
    (elementary Q d).k1 = k :=
  WoehlerElementary.exact_basquin_slope Q d hSD hND hline hlev

/-- Probit and MaxLikeInf (whatever the optimiser returns) keep the slope of Elementary: exact Basquin data are returned
with that slope by them too.  (MaxLikeFull optimises the slope itself: its `k_1` is `|rel·k|` with the optimiser's `rel`.) -/
theorem exact_basquin_slope_probit_maxLikeInf (Q Φ : ℝ → ℝ) (opt : (ℝ × ℝ → Option ℝ) → ℝ × ℝ) (d : List (Test ℝ))
    {k SD₀ ND₀ : ℝ} (hSD : 0 < SD₀) (hND : 0 < ND₀)
    (hline : ∀ t ∈ (finiteZone (irrelevantRunoutsDropped d)).filter (·.fracture),
      0 < t.load ∧ t.cycles = ND₀ * (t.load / SD₀) ^ (-k))
    (hlev : ∃ t ∈ (finiteZone (irrelevantRunoutsDropped d)).filter (·.fracture),
      ∃ u ∈ (finiteZone (irrelevantRunoutsDropped d)).filter (·.fracture), t.load ≠ u.load) :
    (probit Q d).k1 = k ∧ (maxLikeInf Q Φ opt d).k1 = k := by
  rw [WoehlerMaxLike.probit_k1, WoehlerMaxLike.maxLikeInf_k1]
  exact ⟨exact_basquin_slope Q d hSD hND hline hlev, exact_basquin_slope Q d hSD hND hline hlev⟩

/- FULL STATEMENT (false as mathematics for the estimator the code uses): "… and TN = TS = 1".
PROVED: all shifted (pearl chain) cycles coincide, hence the probability-net regression whose slope yields TN has
Sxx = 0 — the code's `slope = Sxy / Sxx` is 0/0.  (Over ℝ with x/0 = 0 the model value would be TN = 10^0 = 1 — true
for the wrong reason, therefore NOT stated.)  The real code returns NaN / inf / arbitrary values: known finding
`exact-basquin-scatter`. -/
theorem exact_basquin_no_scatter_partial (Q : ℝ → ℝ) (d : List (Test ℝ)) {k SD₀ ND₀ : ℝ} (hSD : 0 < SD₀) (hND : 0 < ND₀)
    (hline : ∀ t ∈ (finiteZone (irrelevantRunoutsDropped d)).filter (·.fracture),
      0 < t.load ∧ t.cycles = ND₀ * (t.load / SD₀) ^ (-k))
    (hlev : ∃ t ∈ (finiteZone (irrelevantRunoutsDropped d)).filter (·.fracture),
      ∃ u ∈ (finiteZone (irrelevantRunoutsDropped d)).filter (·.fracture), t.load ≠ u.load) :
    ∃ N₀, ∀ n ∈ normedCycles ((finiteZone (irrelevantRunoutsDropped d)).filter (·.fracture))
      (fitSlope (irrelevantRunoutsDropped d)).1, n = N₀ :=
  WoehlerElementary.exact_basquin_pearl_chain_degenerate Q d hSD hND hline hlev

/-- non-vacuity: two tests on `N = 100 L^(−2)` satisfy the hypotheses; the recovered slope is 2 and the pearl chain
collapses to a single value -/
example : (elementary (fun x => x) WoehlerElementary.exampleData).k1 = 2 ∧
    ∃ N₀, ∀ n ∈ normedCycles ((finiteZone (irrelevantRunoutsDropped WoehlerElementary.exampleData)).filter (·.fracture))
      (fitSlope (irrelevantRunoutsDropped WoehlerElementary.exampleData)).1, n = N₀ := by
  have hline : ∀ t ∈ (finiteZone (irrelevantRunoutsDropped WoehlerElementary.exampleData)).filter (·.fracture),
      0 < t.load ∧ t.cycles = 100 * (t.load / 1) ^ (-(2:ℝ)) := by
    rw [WoehlerElementary.ff_exampleData]
    intro t ht
    simp only [WoehlerElementary.exampleData, List.mem_cons, List.not_mem_nil, or_false] at ht
    rcases ht with rfl | rfl
    · norm_num
    · refine ⟨by norm_num, ?_⟩
      show (25 : ℝ) = 100 * (2 / 1) ^ (-(2 : ℝ))
      rw [Real.rpow_neg (by norm_num), Real.rpow_two]; norm_num
  have hlev : ∃ t ∈ (finiteZone (irrelevantRunoutsDropped WoehlerElementary.exampleData)).filter (·.fracture),
      ∃ u ∈ (finiteZone (irrelevantRunoutsDropped WoehlerElementary.exampleData)).filter (·.fracture), t.load ≠ u.load := by
    rw [WoehlerElementary.ff_exampleData]
    exact ⟨⟨1, 100, true⟩, by simp [WoehlerElementary.exampleData], ⟨2, 25, true⟩,
      by simp [WoehlerElementary.exampleData], by norm_num⟩
  exact ⟨exact_basquin_slope _ _ one_pos (by norm_num) hline hlev,
    exact_basquin_no_scatter_partial (fun x => x) _ one_pos (by norm_num) hline hlev⟩

/-! ## likelihood -/

/-- The likelihood functions are invariant when data and parameters are scaled together (loads with `SD`, cycles
with `ND`) and under permutation of the rows: the maximum-likelihood objective of the scaled problem is the original
objective in scaled parameters. -/
theorem likelihood_invariant_under_scaling (Φ : ℝ → ℝ) {c : ℝ} (hc : 0 < c) (d : List (Test ℝ)) (cv : Curve ℝ)
    (hSD : 0 < cv.SD) (hND : 0 < cv.ND) (hd : ∀ t ∈ d, 0 < t.load ∧ 0 < t.cycles) :
    likTotal Φ (scaleLoad c d) { cv with SD := c * cv.SD } = likTotal Φ d cv ∧
    likTotal Φ (scaleCycles c d) { cv with ND := c * cv.ND } = likTotal Φ d cv ∧
    likInfinite Φ (scaleLoad c d) (c * cv.SD) cv.TS = likInfinite Φ d cv.SD cv.TS ∧
    likInfinite Φ (scaleCycles c d) cv.SD cv.TS = likInfinite Φ d cv.SD cv.TS ∧
    (∀ d₂, d.Perm d₂ → likTotal Φ d cv = likTotal Φ d₂ cv ∧ likInfinite Φ d cv.SD cv.TS = likInfinite Φ d₂ cv.SD cv.TS) :=
  ⟨WoehlerZones.likTotal_scaleLoad Φ hc d cv hSD, WoehlerZones.likTotal_scaleCycles Φ hc d cv hSD hND hd,
    WoehlerZones.likInfinite_scaleLoad Φ hc d cv.TS, WoehlerZones.likInfinite_scaleCycles Φ c d cv.SD cv.TS,
    fun _ h => ⟨WoehlerZones.likTotal_perm Φ h cv, WoehlerZones.likInfinite_perm Φ h cv.SD cv.TS⟩⟩

/-! ## maximum likelihood not worse than its start -/

/-- order on log-likelihood values with `none` = −∞ (the code's `-np.inf`) -/
abbrev LeLik := WoehlerMaxLike.LeLik

/-- The contract ASSUMED of `scipy.optimize.fmin` (Nelder–Mead): the returned point is never worse than the start `x₀`
(the start is a vertex of the initial simplex and the best vertex is kept).  `opt f` maximises `f` from `x₀`. -/
abbrev NeverWorseThanStart {X : Type} (x₀ : X) (opt : (X → Option ℝ) → X) : Prop := WoehlerMaxLike.NeverWorseThan x₀ opt

/-- the same contract for an optimiser that is handed its start point (`MaxLikeFull`: the start vector depends on the data -
1 for a parameter scaled by its start value, 0 for a parameter whose start value is 0) -/
abbrev NeverWorseThanItsStart {X : Type} (opt : (X → Option ℝ) → X → X) : Prop := WoehlerMaxLike.NeverWorseThanFrom opt

/- FULL STATEMENT (not provable here): `MaxLikeInf(df).analyze()` / `MaxLikeFull(df).analyze()` return parameters whose
likelihood is ≥ the likelihood of the estimate the search starts from.
PROVED, about the model PIPELINES `maxLikeInf` / `maxLikeFull` (reduced data, start point, objective incl. the code's fixed
parameters and `np.abs`, scaling of the optimisation variables, post-processing - each tied to maxlike.py by the
correspondence), for every optimiser honouring the contract:
 (1) MaxLikeInf: the infinite-zone likelihood of the RESULT is ≥ that of its start `(finite_infinite_transition, 1.2)`;
 (2) MaxLikeFull: the total likelihood of the RESULT is ≥ the objective at the start vector `fullStart`;
 (3) when nothing is fixed (run-outs, two mixed levels) and the elementary curve has non-negative entries and `ND > 0`,
     the objective at the start vector IS the total likelihood of the elementary estimate (also when some of its entries
     are 0): the result of MaxLikeFull is not worse than the elementary estimate it starts from.
MISSING: that scipy's `fmin` honours the contract (external code; measured per run by the oracle).  Without run-outs (3)
does not apply and (2) holds as `-inf ≤ -inf` (`maxLikeFull_no_runouts_objective_constant`). -/
theorem ml_not_worse_than_start_partial (Q Φ : ℝ → ℝ) (d : List (Test ℝ))
    (opt₂ : (ℝ × ℝ → Option ℝ) → ℝ × ℝ) (h₂ : NeverWorseThanStart ((1 : ℝ), (1 : ℝ)) opt₂)
    (opt₅ : (Curve ℝ → Option ℝ) → Curve ℝ → Curve ℝ) (h₅ : NeverWorseThanItsStart opt₅) :
    LeLik (likInfinite Φ (irrelevantRunoutsDropped d) (transition (irrelevantRunoutsDropped d)) 1.2)
      (likInfinite Φ (irrelevantRunoutsDropped d) (maxLikeInf Q Φ opt₂ d).SD (maxLikeInf Q Φ opt₂ d).TS) ∧
    LeLik (maxLikeFullObjective Φ (irrelevantRunoutsDropped d) (elementaryCore Q (irrelevantRunoutsDropped d))
        (fullStart (elementaryCore Q (irrelevantRunoutsDropped d))))
      (likTotal Φ (irrelevantRunoutsDropped d) (maxLikeFull Q Φ opt₅ d)) ∧
    (runouts (irrelevantRunoutsDropped d) ≠ [] → fewMixedLevels (irrelevantRunoutsDropped d) = false →
      (0 ≤ (elementary Q d).k1 ∧ 0 < (elementary Q d).ND ∧ 0 ≤ (elementary Q d).SD ∧ 0 ≤ (elementary Q d).TN ∧
        0 ≤ (elementary Q d).TS) →
      LeLik (likTotal Φ (irrelevantRunoutsDropped d) (elementary Q d))
        (likTotal Φ (irrelevantRunoutsDropped d) (maxLikeFull Q Φ opt₅ d))) :=
  ⟨WoehlerMaxLike.maxLikeInf_not_worse Q Φ opt₂ h₂ d, WoehlerMaxLike.maxLikeFull_not_worse Q Φ opt₅ h₅ d,
    fun hr hm hw => WoehlerMaxLike.maxLikeFull_not_worse_than_elementary Q Φ opt₅ h₅ d hr hm hw⟩

/-- non-vacuity: the optimiser that returns its start honours both contracts -/
example {X : Type} (x₀ : X) : NeverWorseThanStart x₀ (fun _ => x₀) ∧ NeverWorseThanItsStart (fun (_ : X → Option ℝ) x₀ => x₀) := by
  refine ⟨?_, ?_⟩
  · intro f
    cases f x₀ with
    | none => trivial
    | some a => exact le_refl a
  · intro f x
    cases f x with
    | none => trivial
    | some a => exact le_refl a

end PylifeVerif.C18
