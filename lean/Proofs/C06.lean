/-
C06 — the notch approximation laws return the root of their defining equation, and its inverse.

Theorems about the defining functions of `Model/Notch.lean` at the carrier ℝ.  `F(σ, L) = stressImplicit m σ L`
is `ExtendedNeuber._stress_implicit(σ, L)` = `_load_implicit(L, σ)` (eq. 2.5-45), `stressSecImplicit` the
Masing-doubled secondary equation (2.5-46), `sbStressImplicit` / `sbStressSecImplicit` the Seeger-Beste quotient forms
(2.8-42 / 2.8-43).  What `scipy.optimize.newton` returns is NOT a subject of these theorems (convergence is a run-time
fact, measured by the correspondence check and the oracle): they say that the equation the solver is given has
exactly one root of the load's sign, where it lies and how it depends on the load.

Admissible parameters (`Mat.Adm`): `E, K' > 0`, `0 < n' < 1`, `K_p ≥ 1`.  The code checks none of these; for
`K_p < 1` or `n' > 1` the bracket `[L/K_p, L]` is wrong, which is why they are hypotheses.
Both `σ ↦ F(σ, L)` and `L ↦ F(σ, L)` are symmetric (`F(−σ, L) = −F(σ, L)`, `F(σ, −L) = F(σ, L)`): uniqueness is
uniqueness among stresses (loads) of one sign, which is what the solver's start value `x0 = L` selects.
-/
import Proofs.Lemmas.Notch
import Proofs.Lemmas.NotchSB

namespace PylifeVerif.C06
open PylifeVerif.Notch

variable {m : Mat ℝ}

/-! ## extended Neuber, primary branch -/

/-- **Bracket**: `F(L/K_p, L) ≤ 0 ≤ F(L, L)`. -/
theorem neuber_bracket (h : m.Adm) {L : ℝ} (hL : 0 < L) :
    stressImplicit m (L / m.Kp) L ≤ 0 ∧ 0 ≤ stressImplicit m L L := by
  have hKp := h.Kp_pos
  have he := eStar_pos h hL
  constructor
  · have hs : L / m.Kp ≠ 0 := (div_pos hL hKp).ne'
    unfold stressImplicit neuberStrain
    have key : L / (L / m.Kp) = m.Kp := by field_simp
    rw [ratio_of_ne hs, ← eStar_eq, key]
    have : 1 ≤ m.Kp * m.Kp := by nlinarith [h.Kp_ge]
    nlinarith
  · unfold stressImplicit neuberStrain
    rw [ratio_of_ne hL.ne', div_self hL.ne', one_mul, eStar_eq]
    linarith [kp_mul_estar_le h hL.le]

example : (⟨206000, 1184, 0.187, 3.5⟩ : Mat ℝ).Adm := by constructor <;> norm_num

/-- **Strictly increasing in the stress** on `σ > 0`. -/
theorem neuber_strictMono_in_stress (h : m.Adm) {L : ℝ} (hL : 0 < L) :
    StrictMonoOn (fun s => stressImplicit m s L) (Set.Ioi 0) := stressImplicit_strictMonoOn h hL

/-- **Existence and uniqueness of the root**: for every load `L > 0` the defining equation has a root `σ` with
`L/K_p ≤ σ ≤ L`, and it is the only positive root. -/
theorem neuber_exists_unique_root (h : m.Adm) {L : ℝ} (hL : 0 < L) :
    ∃ s, L / m.Kp ≤ s ∧ s ≤ L ∧ stressImplicit m s L = 0 ∧
      ∀ s', 0 < s' → stressImplicit m s' L = 0 → s' = s := by
  have hlo : 0 < L / m.Kp := div_pos hL h.Kp_pos
  have hab : L / m.Kp ≤ L := div_le_self hL.le h.Kp_ge
  have hcont : ContinuousOn (fun s => stressImplicit m s L) (Set.Icc (L / m.Kp) L) :=
    (stressImplicit_continuousOn h L).mono (fun s hs => lt_of_lt_of_le hlo hs.1)
  obtain ⟨hb1, hb2⟩ := neuber_bracket h hL
  obtain ⟨s, hs, hroot⟩ := intermediate_value_Icc hab hcont ⟨hb1, hb2⟩
  refine ⟨s, hs.1, hs.2, hroot, fun s' hs' hroot' => ?_⟩
  have hspos : 0 < s := lt_of_lt_of_le hlo hs.1
  exact (stressImplicit_strictMonoOn h hL).injOn (Set.mem_Ioi.mpr hs') (Set.mem_Ioi.mpr hspos)
    (by simp only [hroot, hroot'])

/-- **Odd in the load**: `F(−σ, −L) = −F(σ, L)` (all arguments, fall-backs included), so `−σ` is the root for the load
`−L` exactly when `σ` is the root for `L`. -/
theorem neuber_root_odd (m : Mat ℝ) (s L : ℝ) :
    stressImplicit m (-s) (-L) = -stressImplicit m s L ∧
    (stressImplicit m (-s) (-L) = 0 ↔ stressImplicit m s L = 0) := by
  refine ⟨stressImplicit_neg_neg m s L, ?_⟩
  rw [stressImplicit_neg_neg, neg_eq_zero]

/-- **The root is strictly increasing in the load.** -/
theorem neuber_root_strictMono_in_load (h : m.Adm) {L₁ L₂ s₁ s₂ : ℝ} (hL₁ : 0 < L₁) (hL : L₁ < L₂)
    (hs₁ : 0 < s₁) (hs₂ : 0 < s₂) (h₁ : stressImplicit m s₁ L₁ = 0) (h₂ : stressImplicit m s₂ L₂ = 0) :
    s₁ < s₂ := by
  rw [stressImplicit_eq_zero_iff m hs₁.ne'] at h₁
  rw [stressImplicit_eq_zero_iff m hs₂.ne'] at h₂
  have hG := neuberProduct_strictMonoOn h (Set.mem_Ioi.mpr hL₁) (Set.mem_Ioi.mpr (lt_trans hL₁ hL)) hL
  by_contra hcon
  have hle : s₂ ≤ s₁ := not_lt.mp hcon
  have := (stress_mul_strain_strictMonoOn h).monotoneOn (Set.mem_Ioi.mpr hs₂) (Set.mem_Ioi.mpr hs₁) hle
  have : s₂ * roStrain m s₂ ≤ s₁ * roStrain m s₁ := this
  linarith

/-- **The backward function is the inverse.**  `_load_implicit(L, σ)` is the same function read in `L`.  For `σ > 0` it has
a root `L` with `σ ≤ L ≤ K_p·σ`, the only positive one: so `load(stress(L)) = L` and `stress(load(σ)) = σ`
(with the uniqueness of `neuber_exists_unique_root`). -/
theorem neuber_load_inverse (h : m.Adm) {s : ℝ} (hs : 0 < s) :
    (∃ L, s ≤ L ∧ L ≤ m.Kp * s ∧ stressImplicit m s L = 0) ∧
    (∀ L L', 0 < L → 0 < L' → stressImplicit m s L = 0 → stressImplicit m s L' = 0 → L' = L) := by
  have hKp := h.Kp_pos
  constructor
  · have hab : s ≤ m.Kp * s := by nlinarith [h.Kp_ge]
    have hcont : ContinuousOn (fun L => stressImplicit m s L) (Set.Icc s (m.Kp * s)) := by
      have h1 : ContinuousOn (fun L => roStrain m s - neuberProduct m L / s) (Set.Icc s (m.Kp * s)) :=
        continuousOn_const.sub (((neuberProduct_continuousOn h).mono
          (fun L hL => Set.mem_Ioi.mpr (lt_of_lt_of_le hs hL.1))).div_const _)
      exact h1.congr (fun L _ => stressImplicit_of_ne m hs.ne' L)
    have htop : stressImplicit m s (m.Kp * s) ≤ 0 := by
      have := (neuber_bracket h (mul_pos hKp hs)).1
      rwa [mul_div_cancel_left₀ s hKp.ne'] at this
    have hbot : 0 ≤ stressImplicit m s s := (neuber_bracket h hs).2
    obtain ⟨L, hL, hroot⟩ := intermediate_value_Icc' hab hcont ⟨htop, hbot⟩
    exact ⟨L, hL.1, hL.2, hroot⟩
  · intro L L' hL hL' h1 h2
    exact (stressImplicit_strictAntiOn_load h hs).injOn (Set.mem_Ioi.mpr hL') (Set.mem_Ioi.mpr hL)
      (by simp only [h1, h2])

/-! ## extended Neuber, secondary branch (Masing doubling) -/

/-- **The secondary equation is the primary one at half the ranges, doubled**:
`F₂(Δσ, ΔL) = 2·F(Δσ/2, ΔL/2)` for all arguments.  Hence `Δσ` solves the secondary equation for `ΔL` iff `Δσ/2`
solves the primary one for `ΔL/2`. -/
theorem neuber_secondary_masing (m : Mat ℝ) (ds dL : ℝ) :
    stressSecImplicit m ds dL = 2 * stressImplicit m (ds / 2) (dL / 2) ∧
    (stressSecImplicit m ds dL = 0 ↔ stressImplicit m (ds / 2) (dL / 2) = 0) := by
  refine ⟨stressSecImplicit_eq m ds dL, ?_⟩
  rw [stressSecImplicit_eq]; simp

/-- bracket, existence and uniqueness of the secondary root in `[ΔL/K_p, ΔL]` -/
theorem neuber_secondary_exists_unique_root (h : m.Adm) {dL : ℝ} (hL : 0 < dL) :
    stressSecImplicit m (dL / m.Kp) dL ≤ 0 ∧ 0 ≤ stressSecImplicit m dL dL ∧
    ∃ ds, dL / m.Kp ≤ ds ∧ ds ≤ dL ∧ stressSecImplicit m ds dL = 0 ∧
      ∀ ds', 0 < ds' → stressSecImplicit m ds' dL = 0 → ds' = ds := by
  have hL2 : 0 < dL / 2 := by positivity
  obtain ⟨hb1, hb2⟩ := neuber_bracket h hL2
  obtain ⟨s, hs1, hs2, hroot, huniq⟩ := neuber_exists_unique_root h hL2
  refine ⟨?_, ?_, 2 * s, ?_, ?_, ?_, ?_⟩
  · rw [stressSecImplicit_eq, div_right_comm]; linarith
  · rw [stressSecImplicit_eq]; linarith
  · rw [div_right_comm] at hs1; linarith
  · linarith
  · rw [stressSecImplicit_eq, mul_div_cancel_left₀ s two_ne_zero, hroot, mul_zero]
  · intro ds' hds' hr
    rw [(neuber_secondary_masing m ds' dL).2] at hr
    have := huniq (ds' / 2) (by positivity) hr
    linarith

/-- oddness and strict monotonicity of the secondary root in the load range -/
theorem neuber_secondary_odd_strictMono (h : m.Adm) :
    (∀ ds dL, stressSecImplicit m (-ds) (-dL) = -stressSecImplicit m ds dL) ∧
    (∀ {dL₁ dL₂ ds₁ ds₂ : ℝ}, 0 < dL₁ → dL₁ < dL₂ → 0 < ds₁ → 0 < ds₂ →
      stressSecImplicit m ds₁ dL₁ = 0 → stressSecImplicit m ds₂ dL₂ = 0 → ds₁ < ds₂) := by
  constructor
  · intro ds dL
    rw [stressSecImplicit_eq, stressSecImplicit_eq, neg_div, neg_div, stressImplicit_neg_neg]; ring
  · intro dL₁ dL₂ ds₁ ds₂ h1 h12 hs1 hs2 hr1 hr2
    rw [(neuber_secondary_masing m _ _).2] at hr1 hr2
    have := neuber_root_strictMono_in_load h (by positivity : 0 < dL₁ / 2) (by linarith : dL₁ / 2 < dL₂ / 2)
      (by positivity : 0 < ds₁ / 2) (by positivity : 0 < ds₂ / 2) hr1 hr2
    linarith

/-- the backward secondary function is the inverse: existence in `[Δσ, K_p·Δσ]` and uniqueness among positive ranges -/
theorem neuber_secondary_load_inverse (h : m.Adm) {ds : ℝ} (hs : 0 < ds) :
    (∃ dL, ds ≤ dL ∧ dL ≤ m.Kp * ds ∧ stressSecImplicit m ds dL = 0) ∧
    (∀ dL dL', 0 < dL → 0 < dL' → stressSecImplicit m ds dL = 0 → stressSecImplicit m ds dL' = 0 → dL' = dL) := by
  obtain ⟨⟨L, hL1, hL2, hroot⟩, huniq⟩ := neuber_load_inverse h (by positivity : 0 < ds / 2)
  constructor
  · refine ⟨2 * L, by linarith, by nlinarith, ?_⟩
    rw [stressSecImplicit_eq, mul_div_cancel_left₀ L two_ne_zero, hroot, mul_zero]
  · intro dL dL' h1 h2 hr1 hr2
    rw [(neuber_secondary_masing m _ _).2] at hr1 hr2
    have := huniq (dL / 2) (dL' / 2) (by positivity) (by positivity) hr1 hr2
    linarith

/-! ## Seeger-Beste (partial)

Full statement (NOT proved): for `K_p > 1` and `L > 0` the function `σ ↦ sbStressImplicit m σ L` has exactly one root
in `(L/K_p, L)`, the root is strictly increasing in `L`, and `L ↦ sbStressImplicit m σ L` has exactly one root in
`(σ, K_p·σ)`.  Missing: the bracket as one-sided limits (at the end points themselves the code evaluates fall-back
values: `u = 0` gives middle term `0`, `cos(π/2) = 0` gives `ln 1`), which needs `lim_{u→0} 2/u²·ln(1/cos u) = 1`, and
the sign of `∂/∂σ`.  Proved: the symmetry (the law is odd), the Masing reduction of the secondary equation, the
domain statement (no fall-back inside the open bracket, coded function = eq. 2.8-42) and that the quotient is
well defined there (middle term and Neuber term positive).  The run measures the rest (oracle). -/

/-- **Symmetry**: the quotient form is even under `(σ, L) ↦ (−σ, −L)` (all arguments, fall-backs included), so `−σ` is
the root for `−L` exactly when `σ` is the root for `L`: the law is odd in the load. -/
theorem seegerBeste_root_odd (m : Mat ℝ) (s L : ℝ) :
    sbStressImplicit m (-s) (-L) = sbStressImplicit m s L := by
  unfold sbStressImplicit neuberStrain
  rw [middleTerm_neg_neg, ratio_neg_neg, roStrain_neg, eStar_neg]
  congr 1
  rw [show middleTerm m s L * (ratio L s * m.Kp * -eStar m L) = -(middleTerm m s L * (ratio L s * m.Kp * eStar m L)) by ring,
    neg_div_neg_eq]

/-- **Masing doubling**: the secondary quotient form is the primary one at half the ranges. -/
theorem seegerBeste_secondary_masing (m : Mat ℝ) (ds dL : ℝ) :
    sbStressSecImplicit m ds dL = sbStressImplicit m (ds / 2) (dL / 2) := by
  unfold sbStressSecImplicit sbStressImplicit neuberStrainSec neuberStrain deltaEStar roDeltaStrain eStar
  rw [lit2, middleTerm_half, ratio_half, div_right_comm dL m.Kp 2]
  congr 1
  rw [show middleTerm m ds dL * (ratio dL ds * m.Kp * (2 * roStrain m (dL / 2 / m.Kp)))
    = 2 * (middleTerm m ds dL * (ratio dL ds * m.Kp * roStrain m (dL / 2 / m.Kp))) by ring,
    mul_div_mul_left _ _ two_ne_zero]

/-- **Domain**: for `K_p > 1`, `L > 0` and `L/K_p < σ < L` the `u`-term lies strictly between `0` and `π/2`, so
`cos u > 0`, none of the three `np.divide(…, where=…)` fall-backs is taken and the coded function is eq. 2.8-42:
`ε(σ) / ((2/u²·ln(1/cos u) + (σ/L)² − σ/L) · L/σ·K_p·e*(L)) − 1`. -/
theorem seegerBeste_domain_partial (h : m.Adm) (hKp : 1 < m.Kp) {s L : ℝ} (hL : 0 < L) (h1 : L / m.Kp < s) (h2 : s < L) :
    0 < uTerm m s L ∧ uTerm m s L < Real.pi / 2 ∧ 0 < Real.cos (uTerm m s L) ∧
    sbStressImplicit m s L =
      roStrain m s / (((2 / (uTerm m s L * uTerm m s L)) * Real.log (1 / Real.cos (uTerm m s L))
        + s / L * (s / L) - s / L) * (L / s * m.Kp * eStar m L)) - 1 := by
  have hs : 0 < s := lt_trans (div_pos hL h.Kp_pos) h1
  have hk : 0 < m.Kp - 1 := by linarith
  have hr1 : 1 < L / s := by rw [lt_div_iff₀ hs]; linarith
  have hr2 : L / s < m.Kp := by
    rw [div_lt_iff₀ hs]
    have := (div_lt_iff₀ h.Kp_pos).mp h1
    linarith
  have hu : uTerm m s L = Real.pi / 2 * ((L / s - 1) / (m.Kp - 1)) := by
    rw [uTerm_eq, ratio_of_ne hs.ne']
  have hq0 : 0 < (L / s - 1) / (m.Kp - 1) := div_pos (by linarith) hk
  have hq1 : (L / s - 1) / (m.Kp - 1) < 1 := by rw [div_lt_one hk]; linarith
  have hpi : 0 < Real.pi / 2 := by positivity
  have hu0 : 0 < uTerm m s L := by rw [hu]; exact mul_pos hpi hq0
  have hu1 : uTerm m s L < Real.pi / 2 := by rw [hu]; nlinarith
  have hcos : 0 < Real.cos (uTerm m s L) :=
    Real.cos_pos_of_mem_Ioo ⟨by linarith, hu1⟩
  refine ⟨hu0, hu1, hcos, ?_⟩
  unfold sbStressImplicit neuberStrain
  rw [middleTerm_eq, if_pos hu0.ne', if_pos hcos, ratio_of_ne hL.ne', ratio_of_ne hs.ne', lit1]

example : (1 : ℝ) < (⟨206000, 1184, 0.187, 3.5⟩ : Mat ℝ).Kp ∧ (100 : ℝ) / 3.5 < 99 ∧ (99 : ℝ) < 100 := by norm_num

/-- **The quotient form is genuine on the open bracket**: for `L/K_p < σ < L` the middle term and the Neuber term are
positive (`2/u²·ln(1/cos u) ≥ 1/(1+u²) > 1/4 ≥ σ/L − (σ/L)²`), so nothing is divided by zero, the function is `> −1`,
and `σ` is a root iff `ε(σ) = middle term · L/σ·K_p·e*(L)` (eq. 2.8-42 in product form). -/
theorem seegerBeste_root_iff_partial (h : m.Adm) (hKp : 1 < m.Kp) {s L : ℝ} (hL : 0 < L) (h1 : L / m.Kp < s) (h2 : s < L) :
    0 < middleTerm m s L ∧ 0 < neuberStrain m s L ∧ -1 < sbStressImplicit m s L ∧
    (sbStressImplicit m s L = 0 ↔ roStrain m s = middleTerm m s L * neuberStrain m s L) := by
  obtain ⟨hu0, hu1, hcos, _⟩ := seegerBeste_domain_partial h hKp hL h1 h2
  have hs : 0 < s := lt_trans (div_pos hL h.Kp_pos) h1
  have hM : 0 < middleTerm m s L := by
    rw [middleTerm_eq, if_pos hu0.ne', if_pos hcos, ratio_of_ne hL.ne']
    exact middle_pos hu0 hu1
  have hN : 0 < neuberStrain m s L := by
    unfold neuberStrain
    rw [ratio_of_ne hs.ne']
    exact mul_pos (mul_pos (div_pos hL hs) h.Kp_pos) (eStar_pos h hL)
  have hMN := mul_pos hM hN
  have ha := roStrain_pos h hs
  refine ⟨hM, hN, ?_, ?_⟩
  · unfold sbStressImplicit
    rw [lit1]
    have : 0 < roStrain m s / (middleTerm m s L * neuberStrain m s L) := div_pos ha hMN
    linarith
  · unfold sbStressImplicit
    rw [lit1, sub_eq_zero, div_eq_one_iff_eq hMN.ne']

/-! ## zero load -/

/-- **Zero load ↦ zero stress (and back)**: `σ = 0` solves the extended-Neuber equations for `L = 0` (primary and secondary,
with the `np.divide` fall-back factor 1 as coded), and the Seeger-Beste equation in product form
`ε(σ) = middle term · Neuber term` holds at `(0, 0)` - while its quotient form, which the code hands to the solver, is `0/0`
there.  This is the behaviour the laws have for a zero load / stress (alone or as an element of a vector). -/
theorem zero_load (m : Mat ℝ) :
    stressImplicit m 0 0 = 0 ∧ stressSecImplicit m 0 0 = 0 ∧
    roStrain m 0 = middleTerm m 0 0 * neuberStrain m 0 0 ∧
    roDeltaStrain m 0 = middleTerm m 0 0 * neuberStrainSec m 0 0 ∧
    middleTerm m 0 0 * neuberStrain m 0 0 = 0 := by
  have h0 : eStar m 0 = 0 := by rw [eStar_eq, zero_div, roStrain_zero]
  have hN : neuberStrain m 0 0 = 0 := by unfold neuberStrain; rw [h0, mul_zero]
  have hd : roDeltaStrain m 0 = 0 := by unfold roDeltaStrain; rw [zero_div, roStrain_zero, mul_zero]
  have hN2 : neuberStrainSec m 0 0 = 0 := by
    unfold neuberStrainSec deltaEStar; rw [zero_div, hd, mul_zero]
  refine ⟨?_, ?_, ?_, ?_, ?_⟩
  · unfold stressImplicit; rw [roStrain_zero, hN, sub_zero]
  · unfold stressSecImplicit; rw [hd, hN2, sub_zero]
  · rw [roStrain_zero, hN, mul_zero]
  · rw [hd, hN2, mul_zero]
  · rw [hN, mul_zero]

end PylifeVerif.C06
