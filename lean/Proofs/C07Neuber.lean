/-
C07 ∘ C06 — the consequence clauses of the binned law for the wrapped law the code actually uses.

`Proofs/C07.lean` proves "never under-estimates / monotone / less than one class off" for an arbitrary wrapped law that
is odd and monotone (hypotheses).  Here the hypotheses are discharged for the extended Neuber law: a function that
returns, for every load, the root of the defining equation `stressImplicit` with the sign of the load (what C06 shows
`ExtendedNeuber.stress` to be, up to the solver tolerance) is odd and strictly increasing
(`C06.neuber_root_strictMono_in_load`), and so is the strain `roStrain ∘ g` that `ExtendedNeuber.strain` returns for it.
Such a function exists for every admissible material (`C06.neuber_exists_unique_root`).
-/
import Proofs.C07
import Proofs.C06

namespace PylifeVerif.C07
open PylifeVerif.Notch

/-- `g` returns for every load the root of the extended Neuber equation (eq. 2.5-45) with the sign of the load. -/
structure IsNeuberStress (mat : Mat ℝ) (g : ℝ → ℝ) : Prop where
  pos : ∀ L, 0 < L → 0 < g L
  root : ∀ L, 0 < L → stressImplicit mat (g L) L = 0
  odd : ∀ L, g (-L) = -g L

variable {mat : Mat ℝ} {g : ℝ → ℝ}

theorem IsNeuberStress.zero (hg : IsNeuberStress mat g) : g 0 = 0 := by
  have := hg.odd 0
  rw [neg_zero] at this
  linarith

/-- the Neuber stress is strictly increasing in the load (all loads, both signs) -/
theorem IsNeuberStress.strictMono (h : mat.Adm) (hg : IsNeuberStress mat g) : StrictMono g := by
  have hpos : ∀ {a b : ℝ}, 0 < a → a < b → g a < g b := fun {a b} ha hab =>
    C06.neuber_root_strictMono_in_load h ha hab (hg.pos a ha) (hg.pos b (ha.trans hab))
      (hg.root a ha) (hg.root b (ha.trans hab))
  intro a b hab
  rcases lt_trichotomy a 0 with ha | rfl | ha
  · have hna : g a = -g (-a) := by rw [hg.odd, neg_neg]
    rcases lt_trichotomy b 0 with hb | rfl | hb
    · have hnb : g b = -g (-b) := by rw [hg.odd, neg_neg]
      have := hpos (neg_pos.mpr hb) (neg_lt_neg hab)
      rw [hna, hnb]; linarith
    · rw [hg.zero, hna]; linarith [hg.pos (-a) (neg_pos.mpr ha)]
    · rw [hna]; linarith [hg.pos (-a) (neg_pos.mpr ha), hg.pos b hb]
  · rw [hg.zero]; exact hg.pos b hab
  · exact hpos ha hab

/-- the strain `ExtendedNeuber.strain(stress(L), L)` = Ramberg-Osgood strain of the Neuber stress: odd and strictly
increasing in the load -/
theorem IsNeuberStress.strain_odd_strictMono (h : mat.Adm) (hg : IsNeuberStress mat g) :
    (∀ L, roStrain mat (g (-L)) = -roStrain mat (g L)) ∧ StrictMono (fun L => roStrain mat (g L)) := by
  refine ⟨fun L => by rw [hg.odd, roStrain_neg], ?_⟩
  have hro : StrictMono (roStrain mat) := by
    intro a b hab
    have hmono := roStrain_strictMonoOn h
    rcases le_or_gt 0 a with ha | ha
    · exact hmono ha (ha.trans hab.le) hab
    · have hna : roStrain mat a = -roStrain mat (-a) := by rw [roStrain_neg, neg_neg]
      rcases le_or_gt 0 b with hb | hb
      · have h1 : 0 < roStrain mat (-a) := roStrain_pos h (neg_pos.mpr ha)
        have h2 : 0 ≤ roStrain mat b := by
          rcases hb.eq_or_lt with rfl | hb'
          · rw [roStrain_zero]
          · exact (roStrain_pos h hb').le
        rw [hna]; linarith
      · have hnb : roStrain mat b = -roStrain mat (-b) := by rw [roStrain_neg, neg_neg]
        have := hmono (neg_pos.mpr hb).le (neg_pos.mpr ha).le (neg_lt_neg hab)
        rw [hna, hnb]; linarith
  exact hro.comp (hg.strictMono h)

/-- **The consequence clauses for the binned extended Neuber law** (stress and strain tables alike): for every admissible
material, `n ≥ 1` bins, maximum `> 0` and every load `x` inside the range the binned value `y` never under-estimates
the exact law, is monotone in the load, and deviates from the exact law by STRICTLY less than the law's increase over one
class (for `x ≠ 0`). -/
theorem binned_neuber_consequences (h : mat.Adm) (hg : IsNeuberStress mat g) {n : ℕ} (hn : 0 < n) {maxL : ℝ}
    (hM : 0 < maxL) {m : ℕ} (hm : 1 ≤ m) (law : ℝ → ℝ) (hlaw : law = g ∨ law = fun L => roStrain mat (g L))
    {x y : ℝ} (hy : binned n maxL m law x = some y) :
    |law x| ≤ |y| ∧
    (∀ x' y', binned n maxL m law x' = some y' → x ≤ x' → y ≤ y') ∧
    (∃ e, e - maxL / n ≤ |x| ∧ |x| ≤ e ∧ (x ≠ 0 → |y - law x| < law e - law (e - maxL / n))) := by
  have hprops : (∀ L, law (-L) = -law L) ∧ StrictMono law := by
    rcases hlaw with rfl | rfl
    · exact ⟨hg.odd, hg.strictMono h⟩
    · exact hg.strain_odd_strictMono h
  obtain ⟨hodd, hsm⟩ := hprops
  refine ⟨(binned_never_underestimates hn hM hm hodd hsm.monotone hy).1,
    fun x' y' hy' hxx => binned_monotone hn hM hm hodd hsm.monotone hy hy' hxx, ?_⟩
  obtain ⟨e, h1, h2, _, h4⟩ := binned_deviation_lt_one_class hn hM hm hodd hsm.monotone hy
  exact ⟨e, h1, h2, h4 hsm⟩

/-- non-vacuity: for every admissible material a Neuber stress function exists -/
theorem exists_isNeuberStress (h : mat.Adm) : ∃ g, IsNeuberStress mat g := by
  classical
  have hex : ∀ L : ℝ, 0 < L → ∃ s, 0 < s ∧ stressImplicit mat s L = 0 := fun L hL => by
    obtain ⟨s, hs1, _, hs3, _⟩ := C06.neuber_exists_unique_root h hL
    exact ⟨s, lt_of_lt_of_le (div_pos hL h.Kp_pos) hs1, hs3⟩
  let r : ℝ → ℝ := fun L => if hL : 0 < L then Classical.choose (hex L hL) else 0
  have hr : ∀ L, 0 < L → 0 < r L ∧ stressImplicit mat (r L) L = 0 := fun L hL => by
    simp only [r, dif_pos hL]
    exact Classical.choose_spec (hex L hL)
  refine ⟨fun L => if 0 < L then r L else -r (-L), ⟨fun L hL => ?_, fun L hL => ?_, fun L => ?_⟩⟩
  · simp only [if_pos hL]; exact (hr L hL).1
  · simp only [if_pos hL]; exact (hr L hL).2
  · rcases lt_trichotomy L 0 with hL | rfl | hL
    · simp [neg_pos.mpr hL, not_lt.mpr hL.le]
    · simp [r]
    · simp [hL, not_lt.mpr (neg_nonpos.mpr hL.le)]

example : ∃ g, IsNeuberStress (⟨206000, 1184, 0.187, 3.5⟩ : Mat ℝ) g :=
  exists_isNeuberStress (by constructor <;> norm_num)

end PylifeVerif.C07
