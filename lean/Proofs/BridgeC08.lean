/-
Bridge C08: the definitions that /verif/translate/closedform.py regenerates from the CURRENT source of
  src/pylife/utils/functions.py             (Generated/Functions.lean:   scattering_range_to_std, std_to_scattering_range)
  src/pylife/materiallaws/woehlercurve.py   (Generated/WoehlerCurve.lean: the `k_2` assignments of miner_original /
                                             miner_elementary / miner_haibach)
are equal, over ℝ, to the hand-written model `Model/Woehler.lean` that the theorems of `Proofs/C08.lean` are about
(`std_range_inverse`, `std_range_literals`, `SD90_over_SD10`, `N90_over_N10…`, `miner_variants…`).  Editing a literal
or a coefficient in the source changes the generated definition and these proofs stop compiling.
`basquin_cycles` / `basquin_load` / `_make_k` / `transform_to_failure_probability` are array glue (masked assignment,
broadcast, scipy ppf) outside the translator's straight-line subset: they stay tied by the correspondence run (K).
-/
import Proofs.Lemmas.Woehler
import Proofs.BridgeTactics
import Generated.Functions
import Generated.FunctionsStatus
import Generated.WoehlerCurve
import Generated.WoehlerCurveStatus

set_option linter.unusedTactic false
set_option linter.unreachableTactic false
set_option linter.unusedVariables false
set_option linter.unnecessarySeqFocus false
set_option linter.unusedSimpArgs false

namespace PylifeVerif.Bridge
open PylifeVerif PylifeVerif.Woehler

/-- generated `Ext` (a number or `np.inf`) as the hand model's `Woehler.Life` -/
def woehlerLifeOfExt : Generated.Ext ℝ → Woehler.Life ℝ
  | .fin x => .finite x
  | .posInf => .inf

theorem scattering_range_to_std_eq (T : ℝ) :
    Generated.scattering_range_to_std T = scatteringRangeToStd T := by
  (simp only [Generated.scattering_range_to_std, scatteringRangeToStd, scatteringRangeToStdWith, cRange,
    transc_log10]) <;> bridge

theorem std_to_scattering_range_eq (s : ℝ) :
    Generated.std_to_scattering_range s = stdToScatteringRange s := by
  (simp only [Generated.std_to_scattering_range, stdToScatteringRange, stdToScatteringRangeWith, cStd,
    transc_pow]) <;> bridge

/-- the three Miner modifiers: only `k_2` is assigned on the copy, with the model's value -/
theorem miner_k2_eq (w : Curve ℝ) :
    woehlerLifeOfExt (Generated.WoehlerCurve.miner_original_k_2 w.k1) = (minerOriginal w).k2 ∧
    woehlerLifeOfExt (Generated.WoehlerCurve.miner_elementary_k_2 w.k1) = (minerElementary w).k2 ∧
    woehlerLifeOfExt (Generated.WoehlerCurve.miner_haibach_k_2 w.k1) = (minerHaibach w).k2 := by
  refine ⟨?_, ?_, ?_⟩ <;>
    (simp only [Generated.WoehlerCurve.miner_original_k_2, Generated.WoehlerCurve.miner_elementary_k_2,
      Generated.WoehlerCurve.miner_haibach_k_2, minerOriginal, minerElementary, minerHaibach, woehlerLifeOfExt,
      Life.finite.injEq]) <;> bridge

end PylifeVerif.Bridge
