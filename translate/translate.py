#!/venv/bin/python
"""Translator T (DESIGN 1.1 / 2.2): Python `ast` -> Lean 4 for whitelisted straight-line numeric code.

    translate.py [--repo /repo] [--lean /verif/lean] [--stdout] [--module NAME|all ...]

(`--module`: the closed-form modules of C08 / C09 / C11 / C17, see closedform.py: one generated file per source module.)
Without `--module` it

regenerates  <lean>/Generated/MaterialLaws.lean  (+ Generated/MaterialLawsStatus.lean) from the CURRENT
source of  src/pylife/materiallaws/{rambgood,hookeslaw,true_stress_strain}.py  of the repository
($PYLIFE_REPO or /repo).  Files are only written when their content changes.

Supported subset (everything else makes the translator FAIL LOUDLY: exit code 1 and a message that names
the function; the status module then contains an `#eval throw`, so `lake build Proofs.C16` fails):

  * module level functions and methods whose body is a sequence of
        docstring | name = expr | a, b, _ = tuple-expr | return expr | return e1, e2, ...
        | if <comparison>: raise ...            (-> a separate Bool definition `<f>_raises`)
        | self.<guard-only method>(args)        (-> contributes to `<f>_raises`)
  * expr:  float/int literals (-> scientific literals `2.0`), local names, + - * / unary -,
        self._X   (-> `attr_X <ctor params>`; the attribute's defining expression is taken from `__init__`,
                   following `super().__init__(...)`, and inlined in terms of the constructor parameters),
        self.X    for a `@property` that returns `self._Y`,
        np.power / np.log / np.exp / np.sqrt / np.log10 / np.fabs / np.abs / np.sign  (-> `Transc.*`),
        semantically equal spellings of the same operations:  x ** y,  np.float_power, builtin pow(x, y) / abs(x) / float(x),
        np.square(x) (-> x * x), np.reciprocal(x) (-> 1.0 / x), np.negative, np.add / subtract / multiply / divide /
        true_divide, np.maximum / np.minimum / builtin max / min of two numbers,
        np.log1p(x) / np.expm1(x)  (-> `np_log1p` / `np_expm1` of Generated/Prelude.lean: accurate at Float, and
        `Real.log (1 + x)` / `Real.exp x - 1` over the reals),
        np.where(c, a, b) and `a if c else b`  (-> `if c then a else b`),
        module level numeric constants (`_HALF = 0.5`, assigned once),
        x op= e  (+= -= *= /= **=),  annotated assignments,
        np.asarray(x) / np.asarray(x, dtype=float) and self._as_consistant_arrays(...)  (identity on the mathematical
        values; the shape check is array glue, exercised by the correspondence run),
        self.m(args, kw=...)  (call of another translated method), super().m(args)  (the parent's body,
        instantiated with THIS class's attributes, emitted as `super_m`),
        calls of a method declared opaque in the whitelist (an iterative solver) -> an explicit function
        parameter of the generated definition,
        tuples (-> Lean tuples),  a > b, a < b, >=, <=, chained comparisons, `or`, `and`, `not`, `(cmp).any()`,
        `np.any(cmp)`  inside guards and conditions.

Generated definitions are generic in the carrier with the variable bundle of Model/Num.lean and live in
namespace PylifeVerif.Generated.<Class>.  The driver runs them at Float (correspondence K validates this
translator), Proofs/C16.lean proves the property theorems about them at the reals.
"""
import argparse
import ast
import os
import sys

# ------------------------------------------------------------------------------------------ whitelist
WHITELIST = [
    {
        "file": "src/pylife/materiallaws/rambgood.py",
        "classes": {
            "RambergOsgood": {
                "methods": ["elastic_strain", "plastic_strain", "strain", "tangential_compliance",
                            "tangential_modulus", "delta_strain", "delta_stress", "lower_hysteresis"],
                "opaque": ["stress"],      # Newton iteration: a function parameter of the generated defs
            },
        },
        "functions": [],
    },
    {
        "file": "src/pylife/materiallaws/hookeslaw.py",
        "classes": {
            "HookesLaw1d": {"methods": ["stress", "strain"], "opaque": []},
            "HookesLaw2dPlaneStress": {"methods": ["strain", "stress"], "opaque": []},
            "HookesLaw2dPlaneStrain": {"methods": ["strain", "stress"], "opaque": []},
            "HookesLaw3d": {"methods": ["strain", "stress"], "opaque": []},
        },
        "functions": [],
    },
    {
        "file": "src/pylife/materiallaws/true_stress_strain.py",
        "classes": {},
        "functions": ["true_strain", "true_stress", "true_fracture_strain", "true_fracture_stress"],
    },
]

NP_UNARY = {"log": "Transc.log", "exp": "Transc.exp", "sqrt": "Transc.sqrt", "log10": "Transc.log10",
            "fabs": "Transc.abs", "abs": "Transc.abs", "absolute": "Transc.abs", "sign": "Transc.sign",
            # defined in Generated/Prelude.lean (closedform.PRELUDE): accurate at Float, = log (1 + x) / exp x - 1 over ℝ
            "log1p": "np_log1p", "expm1": "np_expm1"}
NP_IDENTITY = {"asarray", "asanyarray", "array", "float64", "double", "atleast_1d"}
# np.<f>(a, b) that are spellings of a binary operator
NP_BINARY = {"add": "+", "subtract": "-", "multiply": "*", "divide": "/", "true_divide": "/"}
# `dtype=` values under which np.asarray / np.array stay the identity on the mathematical values
FLOAT_DTYPES = {"float", "np.float64", "numpy.float64", "np.double", "numpy.double", "'float64'", "'float'", "'d'",
                "'f8'", "np.float_", "np.longdouble"}


def np_unary_text(attr, x):
    """Lean text of np.<attr>(x) for the unary functions that are spellings of arithmetic; None if attr is not one."""
    if attr == "square":
        return f"({x} * {x})"
    if attr == "reciprocal":
        return f"(1.0 / {x})"
    if attr == "negative":
        return f"(-{x})"
    if attr == "positive":
        return x
    return None


def is_float_cast_keywords(keywords):
    """`dtype=<a float type>` (and `copy=` / `order=`) only: the cast is the identity on float values"""
    for k in keywords:
        if k.arg == "dtype":
            if ast.unparse(k.value) not in FLOAT_DTYPES:
                return False
        elif k.arg not in ("copy", "order"):
            return False
    return True
IDENTITY_METHODS = {"_as_consistant_arrays"}
LEAN_RESERVED = {"at", "from", "fun", "end", "then", "else", "if", "let", "have", "show", "do", "in", "with",
                 "match", "def", "theorem", "open", "section", "namespace", "variable", "where", "by", "for",
                 "return", "mut", "instance", "class", "structure", "import", "Type", "Prop", "Sort", "α"}

HEADER = """/-
GENERATED by /verif/translate/translate.py from the current source of
  src/pylife/materiallaws/rambgood.py, hookeslaw.py, true_stress_strain.py
DO NOT EDIT BY HAND.  Regenerated by `./check C16` (written only when the content changes); a committed
copy is kept so that the project builds from a clean checkout.  No Mathlib import (linked into the driver).

Conventions: `self._X` -> `attr_X <constructor parameters>` (defining expression taken from `__init__`),
tuple returns -> Lean tuples, `if c: raise` -> `<f>_raises : Bool`, numeric literals -> scientific literals,
every sub-expression is parenthesised exactly as Python's parser grouped it (operation order is preserved,
so + - * / are bit-exact at Float).
-/
import Generated.Prelude

set_option linter.unusedVariables false

namespace PylifeVerif.Generated

variable {α : Type} [Add α] [Sub α] [Mul α] [Div α] [Neg α] [OfScientific α]
  [LT α] [LE α] [DecidableLT α] [DecidableLE α] [Transc α]
"""


class Untranslatable(Exception):
    def __init__(self, where, what, node=None):
        line = f" (line {node.lineno})" if node is not None and hasattr(node, "lineno") else ""
        super().__init__(f"{where}{line}: {what}")


def lname(name):
    """Lean spelling of a Python local name."""
    if name in LEAN_RESERVED:
        return name + "'"
    return name


def literal(v, where, node):
    if isinstance(v, bool) or not isinstance(v, (int, float)):
        raise Untranslatable(where, f"unsupported constant {v!r}", node)
    if isinstance(v, int):
        return f"{v}.0"
    if v != v or v in (float("inf"), float("-inf")):
        raise Untranslatable(where, f"unsupported constant {v!r}", node)
    s = repr(v)
    if "e" in s or "E" in s:
        mant, ex = s.lower().split("e")
        if "." not in mant:
            mant += ".0"
        return f"{mant}e{int(ex)}"
    return s


def tuple_type(arity):
    return "α" if arity == 1 else " × ".join(["α"] * arity)


def proj(var, i, arity):
    """i-th component (0-based) of a right-nested Lean tuple of the given arity."""
    if arity == 1:
        return var
    return var + ".2" * i + (".1" if i < arity - 1 else "")


# ------------------------------------------------------------------------------------------ one callable
class Emitted:
    def __init__(self, name, arity, has_guard, opaque_used, nparams):
        self.name = name            # Lean name relative to PylifeVerif.Generated
        self.arity = arity          # 0 = guard-only (no return value)
        self.has_guard = has_guard
        self.opaque_used = opaque_used   # list of opaque method names taken as function parameters
        self.nparams = nparams


class Scope:
    """Translation of one function body."""

    def __init__(self, owner, where, fn, defining_class=None):
        self.owner = owner          # ClassCtx or ModuleCtx
        self.where = where
        self.fn = fn
        self.defining_class = defining_class
        self.locals = set()
        self.lets = []              # lines "let x := e"
        self.guards = []            # (list_of_let_lines_so_far, bool_expr)
        self.opaque_used = []
        self.tmp = 0
        self.ret = None
        self.ret_arity = 0

    def fail(self, what, node=None):
        raise Untranslatable(self.where, what, node)

    # ---- expressions; returns (lean_text, arity)
    def expr(self, n):
        if isinstance(n, ast.Constant):
            return literal(n.value, self.where, n), 1
        if isinstance(n, ast.Name):
            if n.id not in self.locals:
                c = self.module_constant(n.id)
                if c is not None:
                    return c, 1
                self.fail(f"name `{n.id}` is not a parameter, a previously assigned local or a numeric module constant", n)
            return lname(n.id), 1
        if isinstance(n, ast.BinOp):
            a = self.scalar(n.left)
            b = self.scalar(n.right)
            return self.binop(n.op, a, b, n), 1
        if isinstance(n, ast.IfExp):
            c = self.cond(n.test)
            a, ara = self.expr(n.body)
            b, arb = self.expr(n.orelse)
            if ara != arb:
                self.fail("branches of a conditional expression have different arity", n)
            return f"(if {c} then {a} else {b})", ara
        if isinstance(n, ast.UnaryOp):
            a = self.scalar(n.operand)
            if isinstance(n.op, ast.USub):
                return f"(-{a})", 1
            if isinstance(n.op, ast.UAdd):
                return a, 1
            self.fail(f"unsupported unary operator {type(n.op).__name__}", n)
        if isinstance(n, ast.Tuple):
            parts = [self.scalar(e) for e in n.elts]
            if len(parts) < 2:
                self.fail("tuple with fewer than two components", n)
            return "(" + ", ".join(parts) + ")", len(parts)
        if isinstance(n, ast.Attribute):
            return self.attribute(n), 1
        if isinstance(n, ast.Call):
            return self.call(n)
        self.fail(f"unsupported expression {type(n).__name__}: `{ast.unparse(n)}`", n)

    BINOPS = {ast.Add: "+", ast.Sub: "-", ast.Mult: "*", ast.Div: "/"}

    def binop(self, op, a, b, node):
        if isinstance(op, ast.Pow):
            return f"(Transc.pow {a} {b})"
        if type(op) not in self.BINOPS:
            self.fail(f"unsupported operator {type(op).__name__}", node)
        return f"({a} {self.BINOPS[type(op)]} {b})"

    def module_constant(self, name):
        """`NAME = <numeric expression of literals / other constants>` assigned exactly once at module level"""
        mod = self.owner.mod if self.owner.is_class else self.owner
        node = mod.constants.get(name)
        if node is None:
            return None
        if name in mod.constants_in_progress:
            self.fail(f"module constant `{name}` is defined in terms of itself")
        mod.constants_in_progress.add(name)
        try:
            sub = Scope(mod, f"{os.path.basename(mod.path)}:{name}", None)
            return sub.scalar(node)
        finally:
            mod.constants_in_progress.discard(name)

    def scalar(self, n):
        t, ar = self.expr(n)
        if ar != 1:
            self.fail(f"tuple-valued expression used as a number: `{ast.unparse(n)}`", n)
        return t

    def attribute(self, n):
        if isinstance(n.value, ast.Name) and n.value.id == "self" and self.owner.is_class:
            return self.owner.attr_ref(n.attr, self, n)
        self.fail(f"unsupported attribute access `{ast.unparse(n)}`", n)

    def call_args(self, n, callee_params, what):
        """Map positional + keyword arguments onto the callee's parameter list."""
        if any(isinstance(a, ast.Starred) for a in n.args) or any(k.arg is None for k in n.keywords):
            self.fail(f"star arguments in call of {what}", n)
        if len(n.args) > len(callee_params):
            self.fail(f"too many arguments in call of {what}", n)
        slots = dict(zip(callee_params, n.args))
        for k in n.keywords:
            if k.arg not in callee_params or k.arg in slots:
                self.fail(f"keyword argument `{k.arg}` does not match a positional parameter of {what}", n)
            slots[k.arg] = k.value
        if set(slots) != set(callee_params):
            self.fail(f"call of {what} does not supply exactly the parameters {callee_params}", n)
        return [self.scalar(slots[p]) for p in callee_params]

    def call(self, n):
        f = n.func
        # np.<fn>(...)
        if isinstance(f, ast.Attribute) and isinstance(f.value, ast.Name) and f.value.id in ("np", "numpy"):
            if f.attr in NP_IDENTITY and len(n.args) == 1 and is_float_cast_keywords(n.keywords):
                return self.expr(n.args[0])
            if n.keywords:
                self.fail(f"keyword arguments in `{ast.unparse(n)}`", n)
            if f.attr in ("power", "float_power") and len(n.args) == 2:
                return f"(Transc.pow {self.scalar(n.args[0])} {self.scalar(n.args[1])})", 1
            if f.attr in NP_BINARY and len(n.args) == 2:
                return f"({self.scalar(n.args[0])} {NP_BINARY[f.attr]} {self.scalar(n.args[1])})", 1
            if f.attr in ("maximum", "minimum") and len(n.args) == 2:
                return f"(py_{f.attr[:3]} {self.scalar(n.args[0])} {self.scalar(n.args[1])})", 1
            if f.attr == "where" and len(n.args) == 3:
                c = self.cond(n.args[0])
                a, ara = self.expr(n.args[1])
                b, arb = self.expr(n.args[2])
                if ara != arb:
                    self.fail("branches of np.where have different arity", n)
                return f"(if {c} then {a} else {b})", ara
            if len(n.args) == 1:
                t = np_unary_text(f.attr, self.scalar(n.args[0])) if f.attr not in NP_UNARY else None
                if t is not None:
                    return t, 1
            if f.attr in NP_UNARY and len(n.args) == 1:
                return f"({NP_UNARY[f.attr]} {self.scalar(n.args[0])})", 1
            self.fail(f"unsupported numpy call `{ast.unparse(n)}`", n)
        # builtins that are spellings of the same arithmetic
        if isinstance(f, ast.Name) and f.id not in self.locals and not n.keywords:
            if f.id == "abs" and len(n.args) == 1:
                return f"(Transc.abs {self.scalar(n.args[0])})", 1
            if f.id == "float" and len(n.args) == 1:
                return self.expr(n.args[0])
            if f.id == "pow" and len(n.args) == 2:
                return f"(Transc.pow {self.scalar(n.args[0])} {self.scalar(n.args[1])})", 1
            if f.id in ("max", "min") and len(n.args) == 2:
                return f"(py_{f.id} {self.scalar(n.args[0])} {self.scalar(n.args[1])})", 1
        # (comparison).any()
        if isinstance(f, ast.Attribute) and f.attr in ("any", "all") and not n.args and not n.keywords \
                and isinstance(f.value, (ast.Compare, ast.BoolOp)):
            self.fail("`.any()`/`.all()` is only supported as the condition of a raise-guard", n)
        # self.m(...)
        if isinstance(f, ast.Attribute) and isinstance(f.value, ast.Name) and f.value.id == "self" and self.owner.is_class:
            return self.owner.method_call(f.attr, n, self)
        # super().m(...)
        if isinstance(f, ast.Attribute) and isinstance(f.value, ast.Call) and isinstance(f.value.func, ast.Name) \
                and f.value.func.id == "super" and not f.value.args and self.owner.is_class:
            return self.owner.super_call(f.attr, n, self)
        # module level function
        mod = self.owner.mod if self.owner.is_class else self.owner
        if isinstance(f, ast.Name) and f.id not in self.locals and f.id in mod.functions:
            em = mod.emit_function(f.id)
            params = mod.params_of(mod.functions[f.id])
            args = self.call_args(n, params, f.id)
            return "(" + " ".join([em.name] + args) + ")", em.arity
        self.fail(f"unsupported call `{ast.unparse(n)}`", n)

    # ---- guards
    def cond(self, n):
        if isinstance(n, ast.Call) and isinstance(n.func, ast.Attribute) and n.func.attr == "any" \
                and not n.args and not n.keywords and not (isinstance(n.func.value, ast.Name) and n.func.value.id in ("np", "numpy")):
            return self.cond(n.func.value)        # scalar model: any(x) = x
        if isinstance(n, ast.Call) and isinstance(n.func, ast.Attribute) and n.func.attr == "any" \
                and isinstance(n.func.value, ast.Name) and n.func.value.id in ("np", "numpy") \
                and len(n.args) == 1 and not n.keywords:
            return self.cond(n.args[0])           # np.any(x)
        if isinstance(n, ast.BoolOp):
            op = "||" if isinstance(n.op, ast.Or) else "&&"
            return "(" + f" {op} ".join(self.cond(v) for v in n.values) + ")"
        if isinstance(n, ast.BinOp) and isinstance(n.op, (ast.BitOr, ast.BitAnd)):
            op = "||" if isinstance(n.op, ast.BitOr) else "&&"      # elementwise | and & of boolean arrays
            return f"({self.cond(n.left)} {op} {self.cond(n.right)})"
        if isinstance(n, ast.UnaryOp) and isinstance(n.op, (ast.Not, ast.Invert)):
            return f"(!{self.cond(n.operand)})"
        if isinstance(n, ast.Compare):
            terms = []
            left = n.left
            for op, right in zip(n.ops, n.comparators):
                a = self.scalar(left)
                b = self.scalar(right)
                if isinstance(op, ast.Gt):
                    terms.append(f"(decide ({b} < {a}))")
                elif isinstance(op, ast.Lt):
                    terms.append(f"(decide ({a} < {b}))")
                elif isinstance(op, ast.GtE):
                    terms.append(f"(decide ({b} ≤ {a}))")
                elif isinstance(op, ast.LtE):
                    terms.append(f"(decide ({a} ≤ {b}))")
                else:
                    self.fail(f"unsupported comparison in `{ast.unparse(n)}`", n)
                left = right
            return terms[0] if len(terms) == 1 else "(" + " && ".join(terms) + ")"
        self.fail(f"unsupported guard condition `{ast.unparse(n)}`", n)

    # ---- statements
    def bind(self, name, text):
        self.lets.append(f"let {lname(name)} := {text}")
        self.locals.add(name)

    def run(self, params):
        for p in params:
            self.locals.add(p)
        body = list(self.fn.body)
        for i, st in enumerate(body):
            if self.ret is not None:
                self.fail("statement after return", st)
            if isinstance(st, ast.Expr) and isinstance(st.value, ast.Constant) and isinstance(st.value.value, str):
                continue                                   # docstring
            if isinstance(st, ast.Pass):
                continue
            if isinstance(st, ast.Return):
                if st.value is None:
                    self.fail("bare return", st)
                self.ret, self.ret_arity = self.expr(st.value)
                continue
            if isinstance(st, ast.If):
                if st.orelse or len(st.body) != 1 or not isinstance(st.body[0], ast.Raise):
                    self.fail("`if` is only supported as `if <cond>: raise ...`", st)
                self.guards.append((list(self.lets), self.cond(st.test)))
                continue
            if isinstance(st, ast.Expr) and isinstance(st.value, ast.Call):
                g = self.owner.guard_call(st.value, self) if self.owner.is_class else None
                if g is None:
                    self.fail(f"unsupported statement `{ast.unparse(st)}`", st)
                self.guards.append((list(self.lets), g))
                continue
            if isinstance(st, ast.AugAssign) and isinstance(st.target, ast.Name):
                if st.target.id not in self.locals:
                    self.fail(f"augmented assignment to `{st.target.id}` before it is assigned", st)
                self.bind(st.target.id, self.binop(st.op, lname(st.target.id), self.scalar(st.value), st))
                continue
            if isinstance(st, ast.AnnAssign) and st.value is not None and isinstance(st.target, ast.Name) and st.simple:
                self.bind(st.target.id, self.scalar(st.value))
                continue
            if isinstance(st, ast.Assign):
                if len(st.targets) != 1:
                    self.fail("chained assignment", st)
                tgt = st.targets[0]
                if isinstance(tgt, ast.Name):
                    self.bind(tgt.id, self.scalar(st.value))
                    continue
                if isinstance(tgt, ast.Tuple) and all(isinstance(e, ast.Name) for e in tgt.elts):
                    names = [e.id for e in tgt.elts]
                    # identity glue:  a, b, c = self._as_consistant_arrays(a, b, c)
                    v = st.value
                    if isinstance(v, ast.Call) and isinstance(v.func, ast.Attribute) and v.func.attr in IDENTITY_METHODS \
                            and isinstance(v.func.value, ast.Name) and v.func.value.id == "self" and not v.keywords \
                            and all(isinstance(a, ast.Name) for a in v.args):
                        if [a.id for a in v.args] != names:
                            self.fail("consistency glue must rebind its own arguments in the same order", st)
                        for a in v.args:
                            self.scalar(a)
                        continue
                    text, ar = self.expr(v)
                    if ar != len(names):
                        self.fail(f"unpacking {ar} value(s) into {len(names)} names", st)
                    self.tmp += 1
                    tmp = f"t{self.tmp}_"
                    self.lets.append(f"let {tmp} := {text}")
                    for i2, nm in enumerate(names):
                        if nm == "_":
                            continue
                        self.bind(nm, proj(tmp, i2, ar))
                    continue
                self.fail(f"unsupported assignment target `{ast.unparse(tgt)}`", st)
            self.fail(f"unsupported statement {type(st).__name__}: `{ast.unparse(st).splitlines()[0]}`", st)


def render(name, binders, ret_type, lets, result):
    out = [f"def {name} {binders} : {ret_type} :="]
    for l in lets:
        out.append("  " + l)
    out.append("  " + result)
    return "\n".join(out)


# ------------------------------------------------------------------------------------------ module level
class ModuleCtx:
    is_class = False

    def __init__(self, tree, path):
        self.path = path
        # python binds the LAST definition of a name (dict comprehension: later entries win)
        self.functions = {n.name: n for n in tree.body if isinstance(n, ast.FunctionDef)}
        self.classes = {n.name: n for n in tree.body if isinstance(n, ast.ClassDef)}
        # module level `NAME = expr` / `NAME: float = expr` assigned exactly once (numeric constants; checked when used)
        counts, values = {}, {}
        for st in tree.body:
            tgts = []
            if isinstance(st, ast.Assign):
                tgts = [t for t in st.targets]
                val = st.value
            elif isinstance(st, (ast.AnnAssign, ast.AugAssign)):
                tgts = [st.target]
                val = st.value if isinstance(st, ast.AnnAssign) else None
            for t in tgts:
                for nm in ast.walk(t):
                    if isinstance(nm, ast.Name):
                        counts[nm.id] = counts.get(nm.id, 0) + 1
                        values[nm.id] = val if isinstance(t, ast.Name) else None
        self.constants = {k: v for k, v in values.items() if counts[k] == 1 and v is not None
                          and k not in self.functions and k not in self.classes}
        self.constants_in_progress = set()
        self.emitted = {}
        self.out = []

    @staticmethod
    def params_of(fn, skip_self=False):
        a = fn.args
        if a.vararg or a.kwarg or a.posonlyargs:
            raise Untranslatable(fn.name, "variadic / positional-only parameters", fn)
        ps = [x.arg for x in a.args]
        if skip_self:
            if not ps or ps[0] != "self":
                raise Untranslatable(fn.name, "method without self", fn)
            ps = ps[1:]
        return ps

    def emit_function(self, name):
        if name in self.emitted:
            return self.emitted[name]
        if name not in self.functions:
            raise Untranslatable(f"{os.path.basename(self.path)}:{name}", "whitelisted function no longer exists")
        fn = self.functions[name]
        where = f"{os.path.basename(self.path)}:{name}"
        if fn.decorator_list:
            raise Untranslatable(where, "decorated function", fn)
        params = self.params_of(fn)
        if fn.args.kwonlyargs:
            raise Untranslatable(where, "keyword-only parameters", fn)
        sc = Scope(self, where, fn)
        sc.run(params)
        if sc.ret is None:
            raise Untranslatable(where, "function without return value", fn)
        binders = "(" + " ".join(lname(p) for p in params) + " : α)"
        self.out.append(render(name, binders, tuple_type(sc.ret_arity), sc.lets, sc.ret))
        self.add_guard(name, binders, sc)
        em = Emitted(name, sc.ret_arity, bool(sc.guards), [], len(params))
        self.emitted[name] = em
        return em

    def add_guard(self, name, binders, sc):
        if not sc.guards:
            return
        lets, last = [], None
        terms = []
        for gl, g in sc.guards:
            lets = gl if len(gl) > len(lets) else lets
            terms.append(g)
        # every guard is evaluated under the lets that precede the LAST guard (earlier ones are prefixes)
        self.out.append(render(name + "_raises", binders, "Bool", lets, " || ".join(terms)))


# ------------------------------------------------------------------------------------------ classes
class ClassCtx:
    is_class = True

    def __init__(self, mod, cname, spec):
        self.mod = mod
        self.cname = cname
        self.spec = spec
        self.where = f"{os.path.basename(mod.path)}:{cname}"
        if cname not in mod.classes:
            raise Untranslatable(self.where, "whitelisted class no longer exists")
        self.mro = []
        c = mod.classes[cname]
        while True:
            self.mro.append(c)
            bases = [b for b in c.bases if not (isinstance(b, ast.Name) and b.id == "object")]
            if not bases:
                break
            if len(bases) != 1 or not isinstance(bases[0], ast.Name) or bases[0].id not in mod.classes:
                raise Untranslatable(self.where, f"unsupported base classes of {c.name}", c)
            c = mod.classes[bases[0].id]
        self.emitted = {}
        self.out = []
        self.in_progress = set()
        # constructor
        init_cls, init = self.find("__init__", 0)
        if init is None:
            raise Untranslatable(self.where, "no __init__ found")
        self.ctor = ModuleCtx.params_of(init, skip_self=True)
        self.attrs = {}          # attribute -> lean expr in ctor params
        self.attr_order = []
        self.ctor_guards = []
        self.exec_init(init_cls, init, {p: lname(p) for p in self.ctor})
        self.opaque_sigs = {}
        for o in spec.get("opaque", []):
            _, fn = self.find(o, 0)
            if fn is None:
                raise Untranslatable(f"{self.where}.{o}", "opaque method no longer exists")
            self.opaque_sigs[o] = ModuleCtx.params_of(fn, skip_self=True)

    # ---- lookup
    def find(self, mname, start):
        for i in range(start, len(self.mro)):
            hit = None
            for st in self.mro[i].body:
                if isinstance(st, ast.FunctionDef) and st.name == mname:
                    hit = st              # python binds the LAST definition in a class body
            if hit is not None:
                return i, hit
        return None, None

    def ctor_binder_names(self, params):
        return [lname(p) if p not in params else lname(p) + "_c" for p in self.ctor]

    # ---- __init__ (symbolic execution, attributes inlined in terms of the constructor parameters)
    def exec_init(self, cls_i, init, argmap):
        where = f"{self.where}.__init__ (as defined in {self.mro[cls_i].name})"
        ctx = self

        class InitScope(Scope):
            def attribute(sc, n):
                if isinstance(n.value, ast.Name) and n.value.id == "self":
                    if n.attr.startswith("_") and n.attr[1:] in ctx.attrs:
                        return ctx.attrs[n.attr[1:]]
                    tgt = ctx.property_target(n.attr)
                    if tgt is not None and tgt in ctx.attrs:
                        return ctx.attrs[tgt]
                    sc.fail(f"attribute `{ast.unparse(n)}` read before it is assigned", n)
                sc.fail(f"unsupported attribute access `{ast.unparse(n)}`", n)

            def expr(sc, n):
                if isinstance(n, ast.Name) and n.id in argmap:
                    return argmap[n.id], 1
                return Scope.expr(sc, n)

        sc = InitScope(self, where, init)
        for st in init.body:
            if isinstance(st, ast.Expr) and isinstance(st.value, ast.Constant) and isinstance(st.value.value, str):
                continue
            if isinstance(st, ast.Expr) and isinstance(st.value, ast.Call):
                c = st.value
                f = c.func
                if isinstance(f, ast.Attribute) and f.attr == "__init__" and isinstance(f.value, ast.Call) \
                        and isinstance(f.value.func, ast.Name) and f.value.func.id == "super" and not f.value.args:
                    pi, pinit = self.find("__init__", cls_i + 1)
                    if pinit is None:
                        raise Untranslatable(where, "super().__init__ without a parent __init__", st)
                    pparams = ModuleCtx.params_of(pinit, skip_self=True)
                    args = sc.call_args(c, pparams, "super().__init__")
                    self.exec_init(pi, pinit, dict(zip(pparams, args)))
                    continue
                if isinstance(f, ast.Attribute) and isinstance(f.value, ast.Name) and f.value.id == "self":
                    gi, g = self.find(f.attr, 0)
                    if g is not None and self.is_guard_only(g):
                        gparams = ModuleCtx.params_of(g, skip_self=True)
                        args = sc.call_args(c, gparams, f.attr)
                        self.ctor_guards.append((f.attr, args))
                        continue
                raise Untranslatable(where, f"unsupported statement `{ast.unparse(st)}`", st)
            if isinstance(st, ast.Assign) and len(st.targets) == 1:
                t = st.targets[0]
                if isinstance(t, ast.Attribute) and isinstance(t.value, ast.Name) and t.value.id == "self" \
                        and t.attr.startswith("_"):
                    a = t.attr[1:]
                    self.attrs[a] = sc.scalar(st.value)
                    if a not in self.attr_order:
                        self.attr_order.append(a)
                    continue
            raise Untranslatable(where, f"unsupported statement `{ast.unparse(st).splitlines()[0]}`", st)

    @staticmethod
    def is_guard_only(fn):
        body = [s for s in fn.body if not (isinstance(s, ast.Expr) and isinstance(s.value, ast.Constant))]
        return bool(body) and all(isinstance(s, ast.If) and not s.orelse and len(s.body) == 1
                                  and isinstance(s.body[0], ast.Raise) for s in body)

    def property_target(self, pname):
        """`self.X` where X is `@property def X(self): return self._Y`  ->  'Y'."""
        _, fn = self.find(pname, 0)
        if fn is None or not any(isinstance(d, ast.Name) and d.id == "property" for d in fn.decorator_list):
            return None
        body = [s for s in fn.body if not (isinstance(s, ast.Expr) and isinstance(s.value, ast.Constant))]
        if len(body) == 1 and isinstance(body[0], ast.Return) and isinstance(body[0].value, ast.Attribute) \
                and isinstance(body[0].value.value, ast.Name) and body[0].value.value.id == "self" \
                and body[0].value.attr.startswith("_"):
            return body[0].value.attr[1:]
        raise Untranslatable(f"{self.where}.{pname}", "property is not a plain `return self._X`", fn)

    # ---- used by Scope
    def qual(self, n):
        return f"{self.cname}.{n}"

    def attr_ref(self, attr, sc, node):
        if attr.startswith("_") and attr[1:] in self.attrs:
            a = attr[1:]
        else:
            a = self.property_target(attr)
            if a is None or a not in self.attrs:
                sc.fail(f"`self.{attr}` is neither an attribute set in __init__ nor a plain property", node)
        return "(" + " ".join([self.qual("attr_" + a)] + sc.ctor_names) + ")"

    def method_call(self, mname, n, sc):
        if mname in IDENTITY_METHODS:
            if n.keywords:
                sc.fail("keyword arguments in consistency glue", n)
            parts = [sc.scalar(a) for a in n.args]
            return ("(" + ", ".join(parts) + ")", len(parts)) if len(parts) > 1 else (parts[0], 1)
        if mname in self.opaque_sigs:
            args = sc.call_args(n, self.opaque_sigs[mname], f"self.{mname}")
            if mname not in sc.opaque_used:
                sc.opaque_used.append(mname)
            return "(" + " ".join([lname(mname) + "_fn"] + args) + ")", 1
        em = self.emit_method(mname, 0, mname)
        _, fn = self.find(mname, 0)
        args = sc.call_args(n, ModuleCtx.params_of(fn, skip_self=True), f"self.{mname}")
        if em.arity == 0:
            sc.fail(f"`self.{mname}` has no return value", n)
        for o in em.opaque_used:
            if o not in sc.opaque_used:
                sc.opaque_used.append(o)
        return "(" + " ".join([self.qual(em.name)] + sc.ctor_names + [lname(o) + "_fn" for o in em.opaque_used] + args) + ")", em.arity

    def super_call(self, mname, n, sc):
        if sc.defining_class is None:
            sc.fail("super() outside a method", n)
        pi, fn = self.find(mname, sc.defining_class + 1)
        if fn is None:
            sc.fail(f"super().{mname} not found", n)
        # the name encodes how far up the MRO the body comes from (the body is instantiated with THIS
        # class's attributes, exactly as Python's `super()` keeps `self`)
        em = self.emit_method(mname, pi, "super_" * pi + mname)
        args = sc.call_args(n, ModuleCtx.params_of(fn, skip_self=True), f"super().{mname}")
        for o in em.opaque_used:
            if o not in sc.opaque_used:
                sc.opaque_used.append(o)
        return "(" + " ".join([self.qual(em.name)] + sc.ctor_names + [lname(o) + "_fn" for o in em.opaque_used] + args) + ")", em.arity

    def guard_call(self, call, sc):
        f = call.func
        if isinstance(f, ast.Attribute) and isinstance(f.value, ast.Name) and f.value.id == "self":
            _, g = self.find(f.attr, 0)
            if g is not None and self.is_guard_only(g):
                em = self.emit_method(f.attr, 0, f.attr)
                args = sc.call_args(call, ModuleCtx.params_of(g, skip_self=True), f"self.{f.attr}")
                return "(" + " ".join([self.qual(em.name + "_raises")] + sc.ctor_names + args) + ")"
        return None

    # ---- emission
    def emit_attrs(self):
        binders = "(" + " ".join(lname(p) for p in self.ctor) + " : α)"
        for a in self.attr_order:
            self.out.append(f"def {self.qual('attr_' + a)} {binders} : α :=\n  {self.attrs[a]}")
        if self.ctor_guards:
            terms = []
            for g, args in self.ctor_guards:
                em = self.emit_method(g, 0, g)
                terms.append("(" + " ".join([self.qual(em.name + "_raises")] + [lname(p) for p in self.ctor] + args) + ")")
            self.out.append(f"def {self.qual('init_raises')} {binders} : Bool :=\n  " + " || ".join(terms))

    def emit_method(self, mname, start, lean_name):
        key = (mname, start)
        if key in self.emitted:
            return self.emitted[key]
        ci, fn = self.find(mname, start)
        where = f"{self.where}.{mname}"
        if fn is None:
            raise Untranslatable(where, "whitelisted method no longer exists")
        if key in self.in_progress:
            raise Untranslatable(where, "recursive method")
        self.in_progress.add(key)
        if fn.decorator_list:
            raise Untranslatable(where, "decorated method", fn)
        if fn.args.kwonlyargs:
            raise Untranslatable(where, "keyword-only parameters", fn)
        params = ModuleCtx.params_of(fn, skip_self=True)
        sc = Scope(self, where + (f" (body from {self.mro[ci].name})" if ci else ""), fn, defining_class=ci)
        sc.ctor_names = self.ctor_binder_names(params)
        sc.run(params)
        binders = "(" + " ".join(sc.ctor_names) + " : α)"
        for o in sc.opaque_used:
            binders += f" ({lname(o)}_fn : α → α)"
        if params:
            binders += " (" + " ".join(lname(p) for p in params) + " : α)"
        if sc.ret is not None:
            self.out.append(render(self.qual(lean_name), binders, tuple_type(sc.ret_arity), sc.lets, sc.ret))
        elif not sc.guards:
            raise Untranslatable(where, "method without return value", fn)
        if sc.guards:
            lets = []
            for gl, _g in sc.guards:
                lets = gl if len(gl) > len(lets) else lets
            self.out.append(render(self.qual(lean_name + "_raises"), binders, "Bool", lets,
                                   " || ".join(g for _l, g in sc.guards)))
        em = Emitted(lean_name, sc.ret_arity if sc.ret is not None else 0, bool(sc.guards), sc.opaque_used, len(params))
        self.emitted[key] = em
        self.in_progress.discard(key)
        return em


# ------------------------------------------------------------------------------------------ driver
def translate(repo):
    """Returns the text of Generated/MaterialLaws.lean; raises Untranslatable."""
    chunks = [HEADER]
    for entry in WHITELIST:
        path = os.path.join(repo, entry["file"])
        try:
            src = open(path).read()
        except OSError as e:
            raise Untranslatable(entry["file"], f"cannot read source: {e}")
        try:
            tree = ast.parse(src)
        except SyntaxError as e:
            raise Untranslatable(entry["file"], f"syntax error: {e}")
        mod = ModuleCtx(tree, path)
        chunks.append(f"\n/-! ## {entry['file']} -/")
        done = 0
        for cname, spec in entry["classes"].items():
            cc = ClassCtx(mod, cname, spec)
            cc.emit_attrs()
            for m in spec["methods"]:
                cc.emit_method(m, 0, m)
            if len(mod.out) > done:      # module level helper functions the class calls: they come first
                chunks.append("")
                chunks.append("\n\n".join(mod.out[done:]))
                done = len(mod.out)
            chunks.append(f"\n/-! ### class {cname}({', '.join(cc.ctor)}) -/\n")
            chunks.append("\n\n".join(cc.out))
        for fname in entry["functions"]:
            mod.emit_function(fname)
        if len(mod.out) > done:
            chunks.append("")
            chunks.append("\n\n".join(mod.out[done:]))
    chunks.append("\nend PylifeVerif.Generated\n")
    return "\n".join(chunks)


def unfold_module(text):
    """Text of Generated/MaterialLawsUnfold.lean: a tactic that unfolds EVERY definition of the generated module (so that
    the bridge proofs do not have to name helper methods / locals, which a harmless refactoring may add or remove)."""
    import re
    names = re.findall(r"^def (\S+) ", text, flags=re.M)
    full = ",\n    ".join("PylifeVerif.Generated." + n for n in names)
    return ("/-\nGENERATED by /verif/translate/translate.py together with Generated/MaterialLaws.lean.  DO NOT EDIT BY HAND.\n"
            "`unfold_generated_material_laws` = `simp only` with every definition of Generated/MaterialLaws.lean (used by the\n"
            "proofs only; not imported by the driver).  No Mathlib import.\n-/\n"
            "import Generated.MaterialLaws\n\nnamespace PylifeVerif.Generated\n\n"
            "/-- unfold every definition translated from rambgood.py / hookeslaw.py / true_stress_strain.py -/\n"
            "macro \"unfold_generated_material_laws\" : tactic =>\n  `(tactic| simp only [\n    " + full + "])\n\n"
            "end PylifeVerif.Generated\n")


STATUS_OK = """/- GENERATED by /verif/translate/translate.py: status of the last translator run (imported by Proofs.C16). -/
namespace PylifeVerif.Generated
def materialLawsTranslatorStatus : String := "ok"
end PylifeVerif.Generated
"""


def status_failed(msg):
    safe = msg.replace("\\", "/").replace('"', "'").replace("\n", " ")
    return ("/- GENERATED by /verif/translate/translate.py: the LAST TRANSLATOR RUN FAILED, which is a broken proof\n"
            "   obligation of C16 (Generated/MaterialLaws.lean is stale: it was left as it was). -/\n"
            f'#eval (throw (IO.userError "translator failed: {safe}") : IO Unit)\n')


def write_if_changed(path, text):
    try:
        if open(path).read() == text:
            return False
    except OSError:
        pass
    os.makedirs(os.path.dirname(path), exist_ok=True)
    tmp = path + f".tmp{os.getpid()}"
    with open(tmp, "w") as f:
        f.write(text)
    os.replace(tmp, path)
    return True


def run(repo, lean_dir):
    """Regenerate the Lean files.  Returns (ok, message)."""
    gen = os.path.join(lean_dir, "Generated", "MaterialLaws.lean")
    status = os.path.join(lean_dir, "Generated", "MaterialLawsStatus.lean")
    try:
        import closedform
        write_if_changed(os.path.join(lean_dir, "Generated", "Prelude.lean"), closedform.PRELUDE)
        text = translate(repo)
    except Untranslatable as e:
        write_if_changed(status, status_failed(str(e)))
        return False, f"translator failed: {e}"
    changed = write_if_changed(gen, text)
    write_if_changed(os.path.join(lean_dir, "Generated", "MaterialLawsUnfold.lean"), unfold_module(text))
    write_if_changed(status, STATUS_OK)
    return True, ("Generated/MaterialLaws.lean rewritten" if changed else "Generated/MaterialLaws.lean unchanged")


def run_module(name, repo, lean_dir):
    """Regenerate Generated/<name>.lean (+ <name>Status.lean) for one of the closed-form modules of
    closedform.MODULES (C08, C09, C11, C17).  Returns (ok, message)."""
    import closedform
    return closedform.run_module(name, repo, lean_dir)


def run_modules(names, repo, lean_dir):
    import closedform
    return closedform.run_for(names, repo, lean_dir)


def main():
    here = os.path.dirname(os.path.dirname(os.path.abspath(__file__)))
    sys.path.insert(0, os.path.dirname(os.path.abspath(__file__)))
    if "translate" not in sys.modules:
        sys.modules["translate"] = sys.modules[__name__]
    ap = argparse.ArgumentParser(description=__doc__, formatter_class=argparse.RawDescriptionHelpFormatter)
    ap.add_argument("--repo", default=os.environ.get("PYLIFE_REPO", "/repo"))
    ap.add_argument("--lean", default=os.path.join(here, "lean"))
    ap.add_argument("--stdout", action="store_true", help="print the generated module instead of writing it")
    ap.add_argument("--module", action="append", default=[],
                    help="a closed-form module of closedform.MODULES (or `all`) instead of the material laws")
    a = ap.parse_args()
    if a.module:
        import closedform
        names = list(closedform.MODULES) if "all" in a.module else a.module
        rc = 0
        for n in names:
            if a.stdout:
                try:
                    sys.stdout.write(closedform.translate_module(n, a.repo))
                except Untranslatable as e:
                    print(f"translator failed: {e}", file=sys.stderr)
                    rc = 1
                continue
            ok, msg = closedform.run_module(n, a.repo, a.lean)
            print(msg, file=sys.stderr if not ok else sys.stdout)
            rc = rc if ok else 1
        return rc
    if a.stdout:
        try:
            sys.stdout.write(translate(a.repo))
        except Untranslatable as e:
            print(f"translator failed: {e}", file=sys.stderr)
            return 1
        return 0
    ok, msg = run(a.repo, a.lean)
    print(msg, file=sys.stderr if not ok else sys.stdout)
    return 0 if ok else 1


if __name__ == "__main__":
    sys.exit(main())
